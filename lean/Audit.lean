import RzilVerif
import Lean
open Lean Elab Command

/-- Print, for every theorem declared in a module `RzilVerif.Props.*`, the axioms it depends on.
    One line per theorem: `THEOREM <module> <name> AXIOMS a b c`. -/
elab "#audit_props" : command => do
  let env ← getEnv
  let mods := env.header.moduleNames
  let mut out : Array String := #[]
  for (name, ci) in env.constants.toList do
    match ci with
    | .thmInfo _ =>
      match env.getModuleIdxFor? name with
      | some idx =>
        let m := mods[idx.toNat]!
        if (`RzilVerif.Props).isPrefixOf m && !name.isInternal then
          let axs ← liftCoreM (collectAxioms name)
          let axs := axs.qsort (fun a b => a.toString < b.toString)
          out := out.push s!"THEOREM {m} {name} AXIOMS {" ".intercalate (axs.toList.map toString)}"
      | none => pure ()
    | _ => pure ()
  for l in out.qsort (· < ·) do
    IO.println l

#audit_props
