import RzilVerif.Props.C08
import RzilVerif.Lemmas.CallxSem
/-!
# C08, section 7 — value calls with pass-through arguments

`get_usr_field(bundle, FIELD)`, `get_npc(pkt)` and `fcirc_add(bundle, RxV, …)` are value calls whose first arguments
are handed through to the plugin verbatim (`CExpr.callx`); `get_corresponding_CS(pkt, MuV)` is a plugin macro all of
whose arguments are such tokens (`CExpr.xmacro`).  The first two calls are read at the level of their specification on
both sides (TRUSTED: `ILSem.lean: getUsrFieldIL`, `HEX_GET_NPC`; `CSemH.lean: specCallC`): `get_usr_field` returns the
32-bit content of the abstract cell `usr:FIELD` (what this instruction wrote, else the value before the instruction),
`get_npc` the packet address + 4.  A register token among the pass-through arguments (`RxV`, printed as the operand
variable `Rx_op`) hands the operand over BY REFERENCE.

* lowering: `callx_creates`, `callx_entry_shape`, `callx_entry_members`;
* both semantics give the same value: `get_usr_effect_reads_cell`, `get_usr_value_agrees`, `get_usr_value_congr`,
  `get_npc_value_agrees`, `xmacro_value_agrees`;
* the cell algebra (a read after a write of the same field gives what was written): `get_after_set_C`,
  `get_other_field_C`, `get_after_set_IL`;
* by-reference operands on the C side: `byref_call_C`, `byref_other_operand_C`;
* kernel-checked: `example_npc_tree`, `example_npc_agrees`, `example_set_get_agrees`, `example_byref_agrees`,
  `witness_byref_other_operand`.
-/
namespace Rzil
namespace C08

open C05 C06 C08x

/-- (7a) what `f(exts…, args…)` leaves behind in the compiler state: one fresh temporary of the return type and one
    pending entry, appended after the entries that stay pending; its dependencies are the popped entries of the
    temporaries of the VALUE arguments (pass-through tokens carry none) -/
theorem callx_creates {env : CEnv} {st st' : HSt} {ce : CE} {name : String} {exts : List String}
    {args : List CExpr} {ret : CT} {params : List CT}
    (h : compileExprH env st (.callx name exts args ret params) = .ok (ce, st')) :
    ∃ cargs s1, compileArgsH env st args params = .ok (cargs, s1) ∧
      ce.il = .varl s!"h_tmp{s1.hyb}" ∧ ce.ty = ret.toVT ∧ st'.hyb = s1.hyb + 1 ∧
      st'.pending = (popPending s1.pending (tmpsOfPures cargs)).2 ++ [callxPend s1 name exts cargs ret] := by
  obtain ⟨cargs, s1, h1, rfl, rfl⟩ := inv_callx h
  exact ⟨cargs, s1, h1, rfl, rfl, rfl, rfl⟩

/-- (7a) the entry: the effect part is the call — `HEX_GET_NPC` for `get_npc` (the legacy `c_call` path), `hex_<name>`
    for a registered sub-routine — with the pass-through tokens verbatim in front of the converted arguments; the value
    part reads `ret_val` in the declared return type; order effect-then-value; not a statement-expression -/
theorem callx_entry_shape (st : HSt) (name : String) (exts : List String) (cargs : List ILPure) (ret : CT) :
    (callxPend st name exts cargs ret).exec =
      .call (if name == "get_npc" then "HEX_GET_NPC" else "hex_" ++ name) (exts.map (fun x => ILPure.ext (.id x)) ++ cargs) ∧
    (callxPend st name exts cargs ret).setTmp = .setl s!"h_tmp{st.hyb}"
      (if ret.signed then .signed ret.width (.varl "ret_val") else .unsigned ret.width (.varl "ret_val")) ∧
    (callxPend st name exts cargs ret).setFirst = false ∧ (callxPend st name exts cargs ret).gcc = false :=
  ⟨rfl, rfl, rfl, rfl⟩

/-- (7a) **the call occurs exactly once in the rendered entry**, after the pulled-in dependencies and directly in
    front of the `SETL` of the temporary (flattened view) -/
theorem callx_entry_members (st : HSt) (name : String) (exts : List String) (cargs : List ILPure) (ret : CT) :
    flatE (callxPend st name exts cargs ret).render =
      flatEs ((popPending st.pending (tmpsOfPures cargs)).1.map Pend.render) ++
        [callxEffect name exts cargs, (callxPend st name exts cargs ret).setTmp] := by
  rw [flatE_render]
  simp [callxPend, callxEffect, flatE]

/-- (7b) **IL meaning of `hex_get_usr_field(b, FIELD)`** (no compiled body supplied): `ret_val` receives the 32-bit
    content of the cell, zero-extended; registers, cells, memory and every other local stay as they are -/
theorem get_usr_effect_reads_cell (ms : MacroSem) (σ : MState) (b fld : String) :
    ∃ σ', ExecIL ms (callxEffect "get_usr_field" [b, fld] []) σ σ' ∧
      lookupS "ret_val" σ'.locals = some (.bv 64 ((usrVal σ fld).setWidth 64)) ∧
      (∀ k, k ≠ "ret_val" → lookupS k σ'.locals = lookupS k σ.locals) ∧
      σ'.new = σ.new ∧ σ'.written = σ.written ∧ σ'.mem = σ.mem ∧ σ'.cur = σ.cur ∧ σ'.imm = σ.imm :=
  ⟨_, ExecIL_callx_get_usr ms σ b fld, C05.lookupS_setLocal_self _ _ _, fun _ hk => C05.lookupS_setLocal_ne hk _ _,
    rfl, rfl, rfl, rfl, rfl⟩

/-- (7b) **`get_usr_field(b, FIELD)`: both sides give the same value.**  C evaluates the call to the content of the
    cell and leaves the state alone; executing the rendered entry of the lowered call (nothing pending inside) puts
    that very value into the temporary the expression's value `VARL(h_tmpN)` reads, and changes only `ret_val` and the
    temporary. -/
theorem get_usr_value_agrees (ms : MacroSem) (subs : CSubEnv) (f : Nat) (st : HSt) (b fld : String) (σ : MState) :
    evalCH ms subs (f+2) σ (.callx "get_usr_field" [b, fld] [] ⟨false, 32⟩ []) = .ok (.bv 32 (usrVal σ fld), σ) ∧
    ∃ σ', ExecIL ms (callxPend st "get_usr_field" [b, fld] [] ⟨false, 32⟩).render σ σ' ∧
      lookupS s!"h_tmp{st.hyb}" σ'.locals = some (.bv 32 (usrVal σ fld)) ∧
      (∀ k, k ≠ s!"h_tmp{st.hyb}" → k ≠ "ret_val" → lookupS k σ'.locals = lookupS k σ.locals) ∧
      σ'.new = σ.new ∧ σ'.written = σ.written ∧ σ'.mem = σ.mem :=
  ⟨evalCH_callx_get_usr ms subs f σ b fld _,
   _, callx_get_usr_render ms st b fld σ, C05.lookupS_setLocal_self _ _ _,
   fun k hk hr => (C05.lookupS_setLocal_ne hk _ _).trans (C05.lookupS_setLocal_ne hr _ _), rfl, rfl, rfl⟩

/-- (7b) the value only depends on the cell: two states that agree on the cell of the field read the same -/
theorem get_usr_value_congr (σC σIL : MState) (fld : String)
    (hn : σC.new (usrCell fld) = σIL.new (usrCell fld)) (hw : σC.written (usrCell fld) = σIL.written (usrCell fld))
    (hc : σC.cur (usrCell fld) = σIL.cur (usrCell fld)) : usrVal σC fld = usrVal σIL fld := by
  simp only [usrVal, readUsr, hn, hw, hc]

/-- (7b) **`get_npc(pkt)`: both sides give the packet address + 4** (as `uint32_t`) -/
theorem get_npc_value_agrees (ms : MacroSem) (subs : CSubEnv) (f : Nat) (st : HSt) (p : String) (σ : MState) :
    evalCH ms subs (f+2) σ (.callx "get_npc" [p] [] ⟨false, 32⟩ []) = .ok (.bv 32 (BitVec.ofNat 32 (σ.pktAddr + 4)), σ) ∧
    ∃ σ', ExecIL ms (callxPend st "get_npc" [p] [] ⟨false, 32⟩).render σ σ' ∧
      lookupS s!"h_tmp{st.hyb}" σ'.locals = some (.bv 32 (BitVec.ofNat 32 (σ.pktAddr + 4))) ∧
      (∀ k, k ≠ s!"h_tmp{st.hyb}" → k ≠ "ret_val" → lookupS k σ'.locals = lookupS k σ.locals) ∧
      σ'.new = σ.new ∧ σ'.written = σ.written ∧ σ'.mem = σ.mem :=
  ⟨evalCH_callx_get_npc ms subs f σ p _,
   _, callx_get_npc_render ms st p σ, C05.lookupS_setLocal_self _ _ _,
   fun k hk hr => (C05.lookupS_setLocal_ne hk _ _).trans (C05.lookupS_setLocal_ne hr _ _), rfl, rfl, rfl⟩

/-- (7b) **a pass-through macro** (`get_corresponding_CS(pkt, MuV)`) is the same uninterpreted function of its
    payload-free arguments on both sides, provided the oracle does not distinguish the C name from the plugin's -/
theorem xmacro_value_agrees (ms : MacroSem) (subs : CSubEnv) (f : Nat) (env : CEnv) (st : HSt) (σ : MState)
    (name : String) (exts : List String) (ret : CT) (v : Val)
    (hname : ∀ vs, ms (macroRzName name) vs = ms name vs) (h : ms name (exts.map (fun _ => Val.ext)) = some v) :
    evalCH ms subs (f+1) σ (.xmacro name exts ret) = .ok (v, σ) ∧
    ∃ ce, compileExprH env st (.xmacro name exts ret) = .ok (ce, st) ∧ evalPure ms σ [] ce.il = .ok v :=
  ⟨evalCH_xmacro ms subs f σ name exts ret v h, _, rfl, evalPure_xmacro ms σ name exts v ((hname _).trans h)⟩

/-- (7c) **C: `set_usr_field(b, F, a); … get_usr_field(b', F)` reads what was written** (the argument converted to
    `uint32_t`), whatever the cell held before -/
theorem get_after_set_C {ms : MacroSem} {subs : CSubEnv} {f g : Nat} {σ σ1 : MState} {b b' fld : String} {a : CExpr}
    {va : Val} {x : BitVec 32}
    (ha : evalCH ms subs f σ a = .ok (va, σ1)) (hc : convC (typeOfC a) utT va = .ok (.bv 32 x)) :
    ∃ σ2, execCH ms subs (f+2) (.vcall "set_usr_field" [b, fld] [a] [utT]) σ = .ok σ2 ∧
      evalCH ms subs (g+2) σ2 (.callx "get_usr_field" [b', fld] [] ⟨false, 32⟩ []) = .ok (.bv 32 x, σ2) := by
  refine ⟨_, execCH_vcall_usr ha hc, ?_⟩
  rw [evalCH_callx_get_usr, usrVal_usrState_same]

/-- (7c) … and another field is not affected by the write -/
theorem get_other_field_C {ms : MacroSem} {subs : CSubEnv} {f g : Nat} {σ σ1 : MState} {b b' fld fld' : String} {a : CExpr}
    {va : Val} {x : BitVec 32} (hne : fld' ≠ fld)
    (ha : evalCH ms subs f σ a = .ok (va, σ1)) (hc : convC (typeOfC a) utT va = .ok (.bv 32 x)) :
    ∃ σ2, execCH ms subs (f+2) (.vcall "set_usr_field" [b, fld] [a] [utT]) σ = .ok σ2 ∧
      evalCH ms subs (g+2) σ2 (.callx "get_usr_field" [b', fld'] [] ⟨false, 32⟩ []) = .ok (.bv 32 (usrVal σ1 fld'), σ2) := by
  refine ⟨_, execCH_vcall_usr ha hc, ?_⟩
  rw [evalCH_callx_get_usr, usrVal_usrState_other _ _ hne]

/-- (7c) **IL: the emitted `hex_set_usr_field(b, F, c)` followed by the rendered entry of `get_usr_field(b', F)`** leaves
    the written value in the temporary -/
theorem get_after_set_IL (ms : MacroSem) (st : HSt) (b b' fld : String) (carg : ILPure) (σ : MState) (x : BitVec 32)
    (h : evalPure ms σ [] carg = .ok (.bv 32 x)) :
    ∃ σ1 σ2, ExecIL ms (vcallEffect "set_usr_field" [b, fld] [carg]) σ σ1 ∧
      ExecIL ms (callxPend st "get_usr_field" [b', fld] [] ⟨false, 32⟩).render σ1 σ2 ∧
      lookupS s!"h_tmp{st.hyb}" σ2.locals = some (.bv 32 x) ∧
      σ2.new (usrCell fld) = x.toNat ∧ σ2.written (usrCell fld) = true := by
  refine ⟨_, _, ExecIL_vcall_usr h, callx_get_usr_render ms st b' fld _, ?_, (usrState_cell σ fld x).1,
    (usrState_cell σ fld x).2.1⟩
  rw [usrVal_usrState_same]
  exact C05.lookupS_setLocal_self _ _ _

/-- (7d) **by-reference operand, C side**: handing over the operand the routine names, the call brings back the
    routine's writes to it (`new`/`written` of every operand slot are the callee's) together with the return value -/
theorem byref_call_C {ms : MacroSem} {subs : CSubEnv} {f : Nat} {σ σ1 σr : MState} {name : String} {exts : List String}
    {args : List CExpr} {ret : CT} {params : List CT} {vs : List Val} {sub : CSub} {v : Val}
    (hargs : evalCHArgs ms subs f σ args params = .ok (vs, σ1))
    (hspec : specCallC name exts σ1 = none) (hsub : lookupS name subs = some sub) (hrefs : refArgs exts = sub.refs)
    (hbody : execCHs ms subs f sub.body { σ1 with locals := (sub.params.map (·.1)).zip vs } = .ok σr)
    (hret : lookupS "$ret" σr.locals = some v) {v' : Val}
    (hconv : convC { signed := false, width := 64 } sub.ret v = .ok v') :
    ∃ σ2, evalCH ms subs (f+1) σ (.callx name exts args ret params) = .ok (v', σ2) ∧
      σ2.new = σr.new ∧ σ2.written = σr.written ∧ σ2.mem = σr.mem ∧ σ2.locals = σ1.locals ∧ σ2.cur = σ1.cur :=
  ⟨_, evalCH_callx_sub hargs hspec hsub hrefs hbody hret hconv, rfl, rfl, rfl, rfl, rfl⟩

/-- (7d) the model gives NO meaning to a call that hands the operand over under another name than the routine's own
    (the body names the slot by its parameter): such states are not judged -/
theorem byref_other_operand_C {ms : MacroSem} {subs : CSubEnv} {f : Nat} {σ σ1 : MState} {name : String}
    {exts : List String} {args : List CExpr} {ret : CT} {params : List CT} {vs : List Val} {sub : CSub}
    (hargs : evalCHArgs ms subs f σ args params = .ok (vs, σ1))
    (hspec : specCallC name exts σ1 = none) (hsub : lookupS name subs = some sub) (hrefs : refArgs exts ≠ sub.refs) :
    evalCH ms subs (f+1) σ (.callx name exts args ret params) =
      .error (.undef "by-reference operand handed over under another name") :=
  evalCH_callx_other_operand hargs hspec hsub hrefs

/-! ### kernel-checked examples and witnesses -/

def s32 : CT := ⟨true, 32⟩
def lpcfg : String := "HEX_REG_FIELD_USR_LPCFG"

/-- C side with C-side routines `cs`, IL side with compiled bodies `subs`: what `compileProgH Cfg.asCode` emits -/
def runCx (cs : CSubEnv) (p : List CStmt) (fuel : Nat) (σ : MState) : Except Stuck MState := execCHs noMacros cs fuel p σ
def runILx (subs : SubEnv) (p : List CStmt) (fuel : Nat) (σ : MState) : Except Stuck MState :=
  match compileProgH Cfg.asCode p with
  | .ok eff => execIL noMacros subs fuel eff σ
  | .error _ => .error (.undef "compile")

/-- start state: `RsV = rs`, `RxV = rx`, packet at `pc` -/
def startX (rs rx pc : Nat) : MState :=
  { (default : MState) with
    cur := fun k => if k == "Rs_op" then rs else if k == "Rx_op" then rx else 0, pktAddr := pc }

def obsRegs (regs : List String) : Except Stuck MState → Stuck ⊕ List (Nat × Bool)
  | .ok σ => .inr (regs.map (fun r => (σ.new r, σ.written r)))
  | .error e => .inl e

/-- the core of `J2_call`: `{ HEX_REG_ALIAS_LR = (get_npc(pkt) & 0xfffffffe); }` -/
def progNpc : List CStmt :=
  [ .assign (.reg "HEX_REG_ALIAS_LR" .alias ⟨false, 32⟩) "="
      (.bin "&" (.callx "get_npc" ["pkt"] [] ⟨false, 32⟩ []) (.lit 0xfffffffe true "")) ]

/-- the order in which the emitted tree writes its targets / calls -/
def emittedOrderX (p : List CStmt) : List String :=
  match compileProgH Cfg.asCode p with
  | .ok e => writeOrder e
  | .error _ => []

set_option maxRecDepth 100000 in
/-- the emitted tree: the call `HEX_GET_NPC`, the `SETL` of the temporary, the register write — the call occurs once -/
theorem example_npc_tree : emittedOrderX progNpc = ["HEX_GET_NPC", "h_tmp0", "lr_op"] := by decide +kernel

set_option maxRecDepth 100000 in
/-- C and the emitted IL agree: `LR = (packet address + 4) & ~1` -/
theorem example_npc_agrees :
    obsRegs ["lr_op"] (runCx [] progNpc 20 (startX 0 0 0x1001)) = .inr [(0x1004, true)] ∧
    obsRegs ["lr_op"] (runILx [] progNpc 20 (startX 0 0 0x1001)) = .inr [(0x1004, true)] := by decide +kernel

/-- `{ set_usr_field(bundle, LPCFG, RsV); RdV = get_usr_field(bundle, LPCFG); ReV = get_usr_field(bundle, OVF); }` -/
def progSetGet : List CStmt :=
  [ .vcall "set_usr_field" ["bundle", lpcfg] [.reg "RsV" .src s32] [utT],
    .assign (.reg "RdV" .dst s32) "=" (.callx "get_usr_field" ["bundle", lpcfg] [] ⟨false, 32⟩ []),
    .assign (.reg "ReV" .dst s32) "=" (.callx "get_usr_field" ["bundle", "HEX_REG_FIELD_USR_OVF"] [] ⟨false, 32⟩ []) ]

set_option maxRecDepth 100000 in
/-- both sides: the read of the written field gives `RsV`, the read of the other field its old content (0) -/
theorem example_set_get_agrees :
    obsRegs ["Rd_op", "Re_op", "usr:HEX_REG_FIELD_USR_LPCFG"] (runCx [] progSetGet 20 (startX 77 0 0)) =
      .inr [(77, true), (0, true), (77, true)] ∧
    obsRegs ["Rd_op", "Re_op", "usr:HEX_REG_FIELD_USR_LPCFG"] (runILx [] progSetGet 20 (startX 77 0 0)) =
      .inr [(77, true), (0, true), (77, true)] := by decide +kernel

/-- a routine with a by-reference operand in the shape of `fcirc_add`:
    `int32_t bump(HexInsnPktBundle *bundle, const HexOp *RxV, int32_t d) { RxV = RxV + d; return RxV; }` -/
def bumpCSubs : CSubEnv :=
  [("bump", { params := [("d", s32)], ret := s32, refs := ["Rx_op"],
              body := [.assign (.reg "RxV" .rw s32) "=" (.bin "+" (.reg "RxV" .rw s32) (.var "d" s32)),
                       .ret (.reg "RxV" .rw s32)] })]

/-- its compiled body, in the shape the compiler emits (the body reads and writes the operand `x` of the instruction) -/
def bumpSubs : SubEnv :=
  [("bump", (["bundle", "RxV", "d"], .seqn [
      .writeReg "bundle" { opvar := "Rx_op", deref := false }
        (.bin .add (.readReg { opvar := "Rx_op", deref := false } false) (.param "d")),
      .setl "ret_val" (.cast 64 (.un .msb (.readReg { opvar := "Rx_op", deref := false } false))
        (.readReg { opvar := "Rx_op", deref := false } false))]))]

def bumpCall (rx : String) : CExpr := .callx "bump" ["bundle", rx] [.reg "RsV" .src s32] s32 [s32]

/-- `{ RdV = bump(bundle, RxV, RsV); ReV = RxV; }` -/
def progByref : List CStmt :=
  [ .assign (.reg "RdV" .dst s32) "=" (bumpCall "Rx_op"), .assign (.reg "ReV" .dst s32) "=" (.reg "RxV" .rw s32) ]

set_option maxRecDepth 100000 in
/-- **the by-reference operand**: both sides return the new value AND have written it to the caller's `RxV`, which the
    next statement reads -/
theorem example_byref_agrees :
    obsRegs ["Rd_op", "Re_op", "Rx_op"] (runCx bumpCSubs progByref 20 (startX 5 100 0)) =
      .inr [(105, true), (105, true), (105, true)] ∧
    obsRegs ["Rd_op", "Re_op", "Rx_op"] (runILx bumpSubs progByref 20 (startX 5 100 0)) =
      .inr [(105, true), (105, true), (105, true)] := by decide +kernel

/-- `{ RdV = bump(bundle, RyV, RsV); }`: the operand handed over is not the one the routine names -/
def progByrefOther : List CStmt := [ .assign (.reg "RdV" .dst s32) "=" (bumpCall "Ry_op") ]

set_option maxRecDepth 100000 in
/-- **latent defect of the code, outside the model's meaning**: the compiled body addresses the operand `x` of the
    instruction whatever operand the call names (the real `hex_fcirc_add` declares `Rx_op = ISA2REG(hi, 'x', false)`
    and ignores its `RxV` parameter), so a call that hands over `RyV` updates `RxV`.  The C side refuses such a call
    (no meaning), so the states are not judged; the shipped behaviours always hand over `RxV`. -/
theorem witness_byref_other_operand :
    obsRegs ["Rx_op", "Ry_op"] (runCx bumpCSubs progByrefOther 20 (startX 5 100 0)) =
      .inl (.undef "by-reference operand handed over under another name") ∧
    obsRegs ["Rx_op", "Ry_op"] (runILx bumpSubs progByrefOther 20 (startX 5 100 0)) =
      .inr [(105, true), (0, false)] := by decide +kernel

end C08
end Rzil
