import RzilVerif.Model.PPStrings
/-!
# C19 — lossless splitting of resolved shortcode lines
-/
namespace Rzil.PP

/-! ## Literal pieces, `$`, last character -/

theorem strip_eq_some_iff {p l t : List Char} : strip p l = some t ↔ l = p ++ t := by
  induction p generalizing l with
  | nil => simp [strip, eq_comm]
  | cons a p ih =>
    cases l with
    | nil => simp [strip]
    | cons c cs =>
      simp only [strip, List.cons_append, List.cons.injEq]
      by_cases h : a = c
      · simp [h, ih]
      · simp [h, Ne.symm h]

theorem strip_append (p t : List Char) : strip p (p ++ t) = some t :=
  strip_eq_some_iff.mpr rfl

theorem runToEnd_eq_some_iff {t r : List Char} :
    runToEnd t = some r ↔ '\n' ∉ r ∧ (t = r ∨ t = r ++ ['\n']) := by
  induction t generalizing r with
  | nil => cases r <;> simp [runToEnd]
  | cons c cs ih =>
    simp only [runToEnd]
    by_cases hc : c = '\n'
    · subst hc
      by_cases hcs : cs = []
      · subst hcs
        cases r with
        | nil => simp
        | cons a r => simp; intro h1 h2; cases r <;> simp [h1]
      · simp only [if_true, hcs, if_false]
        constructor
        · intro h; cases h
        · rintro ⟨h1, h2 | h2⟩
          · subst h2; simp at h1
          · cases r with
            | nil => simp at h2; exact absurd h2 hcs
            | cons a r =>
              simp at h2; simp at h1; exact absurd h2.1 h1.1
    · simp only [hc, if_false, Option.map_eq_some_iff]
      constructor
      · rintro ⟨r', h, rfl⟩
        obtain ⟨h1, h2⟩ := ih.mp h
        refine ⟨by simp [h1, Ne.symm hc], ?_⟩
        rcases h2 with h2 | h2 <;> simp [h2]
      · rintro ⟨h1, h2⟩
        cases r with
        | nil => rcases h2 with h2 | h2 <;> simp at h2; exact absurd h2.1 hc
        | cons a r =>
          simp at h1
          refine ⟨r, ih.mpr ⟨h1.2, ?_⟩, ?_⟩
          · rcases h2 with h2 | h2 <;> simp at h2 <;> simp [h2.2]
          · rcases h2 with h2 | h2 <;> simp at h2 <;> simp [h2.1]

theorem stripLast_eq_some_iff {c : Char} {r b : List Char} :
    stripLast c r = some b ↔ r = b ++ [c] := by
  induction r generalizing b with
  | nil => simp [stripLast]
  | cons d r ih =>
    cases r with
    | nil =>
      simp only [stripLast]
      cases b with
      | nil => by_cases h : d = c <;> simp [h]
      | cons x b => by_cases h : d = c <;> simp [h]
    | cons e es =>
      simp only [stripLast, Option.map_eq_some_iff]
      constructor
      · rintro ⟨b', h, rfl⟩
        rw [ih.mp h]; rfl
      · intro h
        cases b with
        | nil => simp at h
        | cons x b =>
          simp at h
          exact ⟨b, ih.mpr h.2, by rw [h.1]⟩

theorem matchTail_eq_some_iff {c : Char} {t b : List Char} (hc : c ≠ '\n') :
    matchTail c t = some b ↔ '\n' ∉ b ∧ (t = b ++ [c] ∨ t = b ++ [c] ++ ['\n']) := by
  simp only [matchTail, Option.bind_eq_some_iff, runToEnd_eq_some_iff, stripLast_eq_some_iff]
  constructor
  · rintro ⟨r, ⟨h1, h2⟩, rfl⟩
    simp at h1
    exact ⟨h1.1, h2⟩
  · rintro ⟨h1, h2⟩
    exact ⟨b ++ [c], ⟨by simp [h1, Ne.symm hc], h2⟩, rfl⟩

/-! ## Substring test (decidable form of `p <:+: l`, Python's `p in l`) -/

def containsSub (p : List Char) : List Char → Bool
  | [] => p.isEmpty
  | c :: cs => (strip p (c :: cs)).isSome || containsSub p cs

theorem strip_isSome_iff {p l : List Char} : (strip p l).isSome = true ↔ p <+: l := by
  rw [Option.isSome_iff_exists]
  simp only [strip_eq_some_iff]
  exact ⟨fun ⟨t, h⟩ => ⟨t, h.symm⟩, fun ⟨t, h⟩ => ⟨t, h.symm⟩⟩

theorem containsSub_iff {p l : List Char} : containsSub p l = true ↔ p <:+: l := by
  induction l with
  | nil => simp [containsSub]
  | cons c cs ih =>
    simp only [containsSub, Bool.or_eq_true, strip_isSome_iff, ih, List.infix_cons_iff]

theorem hasMarker_eq (l : List Char) : hasMarker l = containsSub marker l := by
  induction l with
  | nil => rfl
  | cons c cs ih => simp only [hasMarker, containsSub, ih]

theorem hasMarker_iff {l : List Char} : hasMarker l = true ↔ marker <:+: l := by
  rw [hasMarker_eq, containsSub_iff]

/-! ## `split_resolved_shortcode` -/

theorem isWord_comma : isWord ',' = false := by decide

theorem mem_takeWhile_pos {p : Char → Bool} {l : List Char} {c : Char}
    (h : c ∈ l.takeWhile p) : p c = true :=
  List.all_eq_true.mp (List.all_takeWhile (l := l) (p := p)) c h

/-- Exact specification of one anchored match attempt of `insn\((\w+), (.+)\)$`. -/
theorem resolvedHere_eq_some_iff {t w body : List Char} :
    resolvedHere t = some (w, body) ↔
      w ≠ [] ∧ (∀ c ∈ w, isWord c = true) ∧ body ≠ [] ∧ '\n' ∉ body ∧
      ∃ nl, (nl = [] ∨ nl = ['\n']) ∧ t = insnOpen ++ w ++ commaSp ++ body ++ [')'] ++ nl := by
  constructor
  · intro h
    unfold resolvedHere at h
    split at h
    · cases h
    · rename_i u hu
      simp only at h
      split at h
      · cases h
      · rename_i hw
        split at h
        · cases h
        · rename_i z hz
          split at h
          · cases h
          · rename_i b hb
            split at h
            · cases h
            · rename_i hbne
              simp only [Option.some.injEq, Prod.mk.injEq] at h
              obtain ⟨rfl, rfl⟩ := h
              rw [strip_eq_some_iff] at hu hz
              rw [matchTail_eq_some_iff (by decide)] at hb
              refine ⟨hw, fun c hc => mem_takeWhile_pos hc, hbne, hb.1, ?_⟩
              have hsplit := (List.takeWhile_append_dropWhile (p := isWord) (l := u)).symm
              have ht : t = insnOpen ++ (List.takeWhile isWord u ++ (commaSp ++ z)) := by
                rw [hu, ← hz, ← hsplit]
              rcases hb.2 with h2 | h2
              · refine ⟨[], Or.inl rfl, ?_⟩
                rw [ht, h2]; simp only [List.append_assoc, List.append_nil]
              · refine ⟨['\n'], Or.inr rfl, ?_⟩
                rw [ht, h2]; simp only [List.append_assoc]
  · rintro ⟨hw, hall, hb, hnl, nl, hnlc, rfl⟩
    have htw : List.takeWhile isWord (w ++ (commaSp ++ body ++ [')'] ++ nl)) = w := by
      rw [List.takeWhile_append_of_pos hall]; simp [commaSp, isWord_comma]
    have hdw : List.dropWhile isWord (w ++ (commaSp ++ body ++ [')'] ++ nl)) = commaSp ++ (body ++ [')'] ++ nl) := by
      rw [List.dropWhile_append_of_pos hall]; simp [commaSp, isWord_comma]
    have hmt : matchTail ')' (body ++ [')'] ++ nl) = some body := by
      rw [matchTail_eq_some_iff (by decide)]
      refine ⟨hnl, ?_⟩
      rcases hnlc with rfl | rfl <;> simp
    unfold resolvedHere
    have e : insnOpen ++ w ++ commaSp ++ body ++ [')'] ++ nl
        = insnOpen ++ (w ++ (commaSp ++ body ++ [')'] ++ nl)) := by simp [List.append_assoc]
    rw [e, strip_append]
    simp only [htw, hdw, strip_append, hmt, hw, hb, if_false]

theorem resolvedHere_isSome_prefix {t : List Char} {r} (h : resolvedHere t = some r) :
    ∃ u, t = insnOpen ++ u := by
  obtain ⟨w, b⟩ := r
  obtain ⟨_, _, _, _, nl, _, rfl⟩ := resolvedHere_eq_some_iff.mp h
  exact ⟨w ++ (commaSp ++ (b ++ ([')'] ++ nl))), by simp only [List.append_assoc]⟩

/-- `re.search` semantics: the result is the anchored match at the leftmost suffix that matches. -/
theorem splitResolved_eq_some_iff {line : List Char} {r : List Char × List Char} :
    splitResolved line = some r ↔
      ∃ a b, line = a ++ b ∧ resolvedHere b = some r ∧
        ∀ a1 a2, a = a1 ++ a2 → a2 ≠ [] → resolvedHere (a2 ++ b) = none := by
  induction line with
  | nil =>
    simp only [splitResolved]
    constructor
    · intro h; cases h
    · rintro ⟨a, b, hab, hb, _⟩
      have : b = [] := by
        have := congrArg List.length hab; simp at this; exact List.eq_nil_of_length_eq_zero (by omega)
      subst this
      simp [resolvedHere, strip, insnOpen] at hb
  | cons c cs ih =>
    simp only [splitResolved]
    cases hh : resolvedHere (c :: cs) with
    | some r' =>
      simp only [Option.some.injEq]
      constructor
      · rintro rfl
        exact ⟨[], c :: cs, rfl, hh, by intro a1 a2 h; simp at h; simp [h.2]⟩
      · rintro ⟨a, b, hab, hb, hmin⟩
        cases a with
        | nil => simp at hab; subst hab; rw [hh] at hb; exact Option.some.inj hb
        | cons x a =>
          have := hmin [] (x :: a) rfl (by simp)
          rw [← hab, hh] at this; cases this
    | none =>
      simp only [ih]
      constructor
      · rintro ⟨a, b, hab, hb, hmin⟩
        refine ⟨c :: a, b, by simp [hab], hb, ?_⟩
        intro a1 a2 h hne
        cases a1 with
        | nil => simp at h; subst h; simpa [hab] using hh
        | cons y a1 =>
          simp at h
          exact hmin a1 a2 h.2 hne
      · rintro ⟨a, b, hab, hb, hmin⟩
        cases a with
        | nil => simp at hab; subst hab; rw [hh] at hb; cases hb
        | cons x a =>
          simp at hab
          refine ⟨a, b, hab.2, hb, ?_⟩
          intro a1 a2 h hne
          exact hmin (x :: a1) a2 (by simp [h]) hne

/-- **Rejected lines**: `ValueError` iff no suffix of the line matches the anchored regex. -/
theorem splitResolved_none_iff {line : List Char} :
    splitResolved line = none ↔ ∀ a b, line = a ++ b → resolvedHere b = none := by
  induction line with
  | nil =>
    simp only [splitResolved, true_iff]
    intro a b h
    have : b = [] := by
      have := congrArg List.length h; simp at this; exact List.eq_nil_of_length_eq_zero (by omega)
    subst this; simp [resolvedHere, strip, insnOpen]
  | cons c cs ih =>
    simp only [splitResolved]
    cases hh : resolvedHere (c :: cs) with
    | some r' =>
      simp only [reduceCtorEq, false_iff]
      intro h
      have := h [] (c :: cs) rfl
      rw [hh] at this; cases this
    | none =>
      simp only [ih]
      constructor
      · intro h a b hab
        cases a with
        | nil => simp at hab; subst hab; exact hh
        | cons x a => simp at hab; exact h a b hab.2
      · intro h a b hab
        exact h (c :: a) b (by simp [hab])

theorem insnOpen_eq : "insn(".toList = insnOpen := by decide
theorem commaSp_eq : ", ".toList = commaSp := by decide

/-- **(1) Lossless split.**  A line that *starts* with `insn(`, a non-empty `\w` name, `, `, any
    non-empty newline-free body — whatever parentheses, commas, braces, `insn(`-lookalikes it contains —
    and a closing `)`, optionally followed by the line's `\n`, is split into exactly `(name, body)`. -/
theorem splitResolved_lossless (name body : List Char)
    (hn : name ≠ []) (hw : ∀ c ∈ name, isWord c = true) (hb : body ≠ []) (hnl : '\n' ∉ body) :
    ∀ nl ∈ [[], ['\n']],
      splitResolved ("insn(".toList ++ name ++ ", ".toList ++ body ++ [')'] ++ nl) = some (name, body) := by
  intro nl hmem
  rw [insnOpen_eq, commaSp_eq, splitResolved_eq_some_iff]
  refine ⟨[], _, rfl, ?_, ?_⟩
  · rw [resolvedHere_eq_some_iff]
    refine ⟨hn, hw, hb, hnl, nl, ?_, rfl⟩
    simpa using hmem
  · intro a1 a2 h hne
    simp at h; exact absurd h.2 hne

/-- non-vacuity, with an adversarial body (nested call, `insn(` lookalike, `)` and `, ` inside). -/
example : splitResolved ("insn(".toList ++ "A2_add".toList ++ ", ".toList
      ++ "{ insn(x, y); f(a, (b)); }".toList ++ [')'] ++ ['\n'])
    = some ("A2_add".toList, "{ insn(x, y); f(a, (b)); }".toList) := by decide

/-- Text in front of the line: the decidable side condition "no earlier start position matches". -/
def noEarlierMatch : List Char → List Char → Bool
  | [], _ => true
  | c :: pre, line => (resolvedHere (c :: pre ++ line)).isNone && noEarlierMatch pre line

theorem splitResolved_prefix_of_noEarlier (pre line : List Char) (h : noEarlierMatch pre line = true) :
    splitResolved (pre ++ line) = splitResolved line := by
  induction pre with
  | nil => rfl
  | cons c pre ih =>
    simp only [noEarlierMatch, Bool.and_eq_true, Option.isNone_iff_eq_none] at h
    simp only [List.cons_append, splitResolved]
    have h1 := h.1
    simp only [List.cons_append] at h1
    rw [h1]
    exact ih h.2

/-- **(1′) Prefix variant.** With arbitrary text `pre` in front, the split is still lossless provided
    no earlier start position matches (decidable hypothesis) … -/
theorem splitResolved_lossless_prefix (pre name body : List Char)
    (hn : name ≠ []) (hw : ∀ c ∈ name, isWord c = true) (hb : body ≠ []) (hnl : '\n' ∉ body) :
    ∀ nl ∈ [[], ['\n']],
      noEarlierMatch pre ("insn(".toList ++ name ++ ", ".toList ++ body ++ [')'] ++ nl) = true →
      splitResolved (pre ++ ("insn(".toList ++ name ++ ", ".toList ++ body ++ [')'] ++ nl))
        = some (name, body) := by
  intro nl hmem hpre
  rw [splitResolved_prefix_of_noEarlier _ _ hpre]
  exact splitResolved_lossless name body hn hw hb hnl nl hmem

example : noEarlierMatch "  /* insn(bad */ ".toList
    ("insn(".toList ++ "a".toList ++ ", ".toList ++ "b()".toList ++ [')'] ++ []) = true := by decide

/-- … and the hypothesis cannot be dropped: an earlier `insn(w, ` steals the match
    (leftmost start wins, its greedy `.+` swallows the real header). -/
theorem splitResolved_prefix_counterexample :
    splitResolved ("insn(x, (".toList ++ ("insn(".toList ++ "a".toList ++ ", ".toList ++ "b".toList ++ [')']))
      = some ("x".toList, "(insn(a, b".toList) := by decide

/-- A failed leftmost candidate does not stop the search: later start positions are tried. -/
example : splitResolved "insn(a insn(b, c)".toList = some ("b".toList, "c".toList) := by decide

/-- A simple sufficient condition for the prefix hypothesis: no `(` in the prefix. -/
theorem noEarlierMatch_of_no_paren (pre rest : List Char) (h : ∀ c ∈ pre, c ≠ '(') :
    noEarlierMatch pre (insnOpen ++ rest) = true := by
  induction pre with
  | nil => rfl
  | cons c pre ih =>
    simp only [noEarlierMatch, Bool.and_eq_true, Option.isNone_iff_eq_none]
    refine ⟨?_, ih (fun d hd => h d (List.mem_cons_of_mem _ hd))⟩
    cases hh : resolvedHere (c :: pre ++ (insnOpen ++ rest)) with
    | none => rfl
    | some r =>
      exfalso
      obtain ⟨u, hu⟩ := resolvedHere_isSome_prefix hh
      have hc := h c (by simp)
      rcases pre with _ | ⟨c1, _ | ⟨c2, _ | ⟨c3, _ | ⟨c4, pre⟩⟩⟩⟩
      · simp [insnOpen] at hu
      · simp [insnOpen] at hu
      · simp [insnOpen] at hu
      · simp [insnOpen] at hu
      · simp [insnOpen] at hu
        exact h c4 (by simp) hu.2.2.2.2.1

example : ∀ c ∈ "  // see insn table: ".toList, c ≠ '(' := by decide

/-- **(2) Soundness / what an accepted line looks like**: the line is
    `pre ++ "insn(" ++ name ++ ", " ++ body ++ ")" ++ optional "\n"` — so `pre` aside nothing is lost. -/
theorem splitResolved_sound {line name body : List Char} (h : splitResolved line = some (name, body)) :
    name ≠ [] ∧ (∀ c ∈ name, isWord c = true) ∧ body ≠ [] ∧ '\n' ∉ body ∧
    ∃ pre nl, (nl = [] ∨ nl = ['\n']) ∧ noEarlierMatch pre (insnOpen ++ name ++ commaSp ++ body ++ [')'] ++ nl) = true ∧
      line = pre ++ (insnOpen ++ name ++ commaSp ++ body ++ [')'] ++ nl) := by
  obtain ⟨a, b, hab, hb, hmin⟩ := splitResolved_eq_some_iff.mp h
  obtain ⟨h1, h2, h3, h4, nl, h5, rfl⟩ := resolvedHere_eq_some_iff.mp hb
  refine ⟨h1, h2, h3, h4, a, nl, h5, ?_, hab⟩
  clear hab h
  induction a with
  | nil => rfl
  | cons c a ih =>
    simp only [noEarlierMatch, Bool.and_eq_true, Option.isNone_iff_eq_none]
    refine ⟨hmin [] (c :: a) rfl (by simp), ih ?_⟩
    intro a1 a2 h hne
    exact hmin (c :: a1) a2 (by simp [h]) hne

/-- **(2) Rejection**: a line whose last character (before the optional final newline) is not `)`
    raises `ValueError`. -/
theorem splitResolved_rejects_no_close (line : List Char)
    (h : ∀ t nl, (nl = [] ∨ nl = ['\n']) → line ≠ t ++ [')'] ++ nl) : splitResolved line = none := by
  rw [splitResolved_none_iff]
  intro a b hab
  cases hb : resolvedHere b with
  | none => rfl
  | some r =>
    obtain ⟨w, body⟩ := r
    obtain ⟨_, _, _, _, nl, hnl, rfl⟩ := resolvedHere_eq_some_iff.mp hb
    exact absurd (by rw [hab]; simp only [List.append_assoc]) (h (a ++ insnOpen ++ w ++ commaSp ++ body) nl hnl)

example : ∀ t nl, (nl = [] ∨ nl = ['\n']) → "insn(a, b);".toList ≠ t ++ [')'] ++ nl := by
  intro t nl hnl h
  have := congrArg List.getLast? h
  rcases hnl with rfl | rfl <;> simp at this

example : splitResolved "insn(a, b);".toList = none := by decide
example : splitResolved "insn(a, b) \n".toList = none := by decide

/-- **(2) Rejection**: a line that does not contain `insn(` raises `ValueError`. -/
theorem splitResolved_rejects_no_insn (line : List Char) (h : ¬ insnOpen <:+: line) :
    splitResolved line = none := by
  rw [splitResolved_none_iff]
  intro a b hab
  cases hb : resolvedHere b with
  | none => rfl
  | some r =>
    obtain ⟨u, rfl⟩ := resolvedHere_isSome_prefix hb
    exact absurd ⟨a, u, by rw [hab]; simp only [List.append_assoc]⟩ h

example : ¬ insnOpen <:+: "ins n(a, b)".toList := by
  rw [← containsSub_iff]; decide

/-- Further rejections: empty name, name with a non-word character, missing blank after the comma,
    empty body, newline inside the body. -/
example : splitResolved "insn(, b)".toList = none := by decide
example : splitResolved "insn(a-b, c)".toList = none := by decide
example : splitResolved "insn(a,b)".toList = none := by decide
example : splitResolved "insn(a, )".toList = none := by decide
example : splitResolved "insn(a, b\nc)".toList = none := by decide

/-! ## `split_compounds` -/

theorem marker_eq : "__COMPOUND_PART1__".toList = marker := by decide
theorem marker_length : marker.length = 18 := rfl
theorem lbrace_not_mem_marker : '{' ∉ marker := by decide
theorem rbrace_not_mem_marker : '}' ∉ marker := by decide
theorem nl_not_mem_marker : '\n' ∉ marker := by decide

/-- What a successful `p1Search` found. -/
theorem p1Search_sound {pre v : List Char} {r : List Char × List Char} (h : p1Search pre v = some r) :
    ∃ x y g2, v = x ++ '}' :: (marker ++ y) ∧ '\n' ∉ x ∧ (pre ≠ [] ∨ x ≠ []) ∧
      matchTail '}' y = some g2 ∧ r = ('{' :: (pre.reverse ++ x ++ ['}']), g2) := by
  induction v generalizing pre with
  | nil => simp [p1Search] at h
  | cons c cs ih =>
    simp only [p1Search] at h
    split at h
    · cases h
    · rename_i hc
      split at h
      · rename_i r' hr'
        cases h
        obtain ⟨x, y, g2, h1, h2, h3, h4, h5⟩ := ih hr'
        refine ⟨c :: x, y, g2, by simp [h1], ?_, Or.inr (by simp), h4, ?_⟩
        · simp [h2, Ne.symm hc]
        · simp [h5]
      · split at h
        · rename_i hcp
          split at h
          · cases h
          · rename_i y hy
            simp only [Option.map_eq_some_iff] at h
            obtain ⟨g2, hg, rfl⟩ := h
            rw [strip_eq_some_iff] at hy
            exact ⟨[], y, g2, by simp [hcp.1, hy], by simp, Or.inl hcp.2, hg, by simp⟩
        · cases h

/-- Greedy `.+`: if no longer candidate works, the candidate "here" is taken. -/
theorem p1Search_here (x : List Char) : ∀ (pre y g2 : List Char), '\n' ∉ x → (pre ≠ [] ∨ x ≠ []) →
    p1Search ('}' :: (x.reverse ++ pre)) (marker ++ y) = none → matchTail '}' y = some g2 →
    p1Search pre (x ++ '}' :: (marker ++ y)) = some ('{' :: (pre.reverse ++ x ++ ['}']), g2) := by
  induction x with
  | nil =>
    intro pre y g2 _ hne hnone hg
    have hpre : pre ≠ [] := by rcases hne with h | h; exact h; exact absurd rfl h
    simp only [List.reverse_nil, List.nil_append] at hnone
    simp [p1Search, hnone, hpre, strip_append, hg]
  | cons c x ih =>
    intro pre y g2 hnl _ hnone hg
    simp only [List.mem_cons, not_or] at hnl
    have hrec := ih (c :: pre) y g2 hnl.2 (Or.inl (by simp)) (by simpa using hnone) hg
    simp only [List.cons_append, p1Search, if_neg (Ne.symm hnl.1), hrec]
    simp

/-- What a successful anchored attempt `M(\{.+})M(.*)}$` found. -/
theorem compoundHere_sound {b : List Char} {r : List Char × List Char} (h : compoundHere b = some r) :
    ∃ x y g2, b = marker ++ '{' :: (x ++ '}' :: (marker ++ y)) ∧ x ≠ [] ∧ '\n' ∉ x ∧
      matchTail '}' y = some g2 ∧ r = ('{' :: (x ++ ['}']), g2) := by
  simp only [compoundHere, Option.bind_eq_some_iff, strip_eq_some_iff] at h
  obtain ⟨u, rfl, hu⟩ := h
  unfold afterMarker at hu
  split at hu
  · rename_i v
    obtain ⟨x, y, g2, h1, h2, h3, h4, h5⟩ := p1Search_sound hu
    refine ⟨x, y, g2, by rw [h1], ?_, h2, h4, by simpa using h5⟩
    rcases h3 with h3 | h3
    · exact absurd rfl h3
    · exact h3
  · cases hu

theorem aSearch_sound {t : List Char} {r : List Char × List Char} (h : aSearch t = some r) :
    ∃ a b, t = a ++ b ∧ '\n' ∉ a ∧ compoundHere b = some r := by
  induction t with
  | nil => simp [aSearch] at h
  | cons c cs ih =>
    simp only [aSearch] at h
    split at h
    · rename_i r' hr'
      cases h
      by_cases hc : c = '\n'
      · simp [hc] at hr'
      · simp only [if_neg hc] at hr'
        obtain ⟨a, b, h1, h2, h3⟩ := ih hr'
        exact ⟨c :: a, b, by simp [h1], by simp [h2, Ne.symm hc], h3⟩
    · exact ⟨[], c :: cs, rfl, by simp, h⟩

/-- Greedy `.*`: whatever precedes (on the same line) a position where the search succeeds is skipped. -/
theorem aSearch_append (a b : List Char) {r} (ha : '\n' ∉ a) (h : aSearch b = some r) :
    aSearch (a ++ b) = some r := by
  induction a with
  | nil => exact h
  | cons c a ih =>
    simp only [List.mem_cons, not_or] at ha
    simp only [List.cons_append, aSearch, if_neg (Ne.symm ha.1), ih ha.2]

theorem aSearch_first {c : Char} {cs : List Char}
    (h : ∀ a b, c :: cs = a ++ b → a ≠ [] → compoundHere b = none) :
    aSearch (c :: cs) = compoundHere (c :: cs) := by
  simp only [aSearch]
  split
  · rename_i r hr
    exfalso
    by_cases hc : c = '\n'
    · simp [hc] at hr
    · simp only [if_neg hc] at hr
      obtain ⟨a, b, h1, _, h3⟩ := aSearch_sound hr
      have := h (c :: a) b (by simp [h1]) (by simp)
      rw [this] at h3; cases h3
  · rfl

/-- An occurrence of `W` in `u ++ k :: v` with `k ∉ W` lies inside `u` or inside `v`. -/
theorem occ_split {W u v p q : List Char} {k : Char} (hk : k ∉ W) (hW : W ≠ [])
    (h : u ++ k :: v = p ++ W ++ q) :
    (∃ a2, u = p ++ W ++ a2 ∧ q = a2 ++ k :: v) ∨ (∃ b1, p = u ++ k :: b1 ∧ v = b1 ++ W ++ q) := by
  rw [List.append_assoc, List.append_eq_append_iff] at h
  rcases h with ⟨as, h1, h2⟩ | ⟨bs, h1, h2⟩
  · right
    cases as with
    | nil =>
      simp only [List.nil_append] at h2
      cases W with
      | nil => exact absurd rfl hW
      | cons w W => simp at h2; exact absurd (by simp [h2.1]) hk
    | cons a as =>
      simp only [List.cons_append, List.cons.injEq] at h2
      exact ⟨as, by rw [h1, h2.1], by rw [h2.2, List.append_assoc]⟩
  · left
    rw [List.append_eq_append_iff] at h2
    rcases h2 with ⟨as, h3, h4⟩ | ⟨cs, h3, h4⟩
    · exact ⟨as, by rw [h1, h3, List.append_assoc], h4⟩
    · cases cs with
      | nil =>
        simp only [List.append_nil, List.nil_append] at h3 h4
        exact ⟨[], by rw [h1, h3]; simp, by simp [h4]⟩
      | cons c cs =>
        simp only [List.cons_append, List.cons.injEq] at h4
        exact absurd (by rw [h3, h4.1]; simp) hk

theorem infix_split {W u v : List Char} {k : Char} (hk : k ∉ W) (hW : W ≠ [])
    (h : W <:+: u ++ k :: v) : W <:+: u ∨ W <:+: v := by
  obtain ⟨p, q, h⟩ := h
  rcases occ_split hk hW h.symm with ⟨a2, h1, _⟩ | ⟨b1, _, h2⟩
  · exact Or.inl ⟨p, a2, h1.symm⟩
  · exact Or.inr ⟨b1, q, h2.symm⟩

theorem marker_ne_nil : marker ≠ [] := by decide

/-- No marker in `rest` ⇒ no marker in `rest ++ "}" ++ optional newline`. -/
theorem no_marker_tail {rest nl : List Char} (hr : ¬ marker <:+: rest) (hnl : nl = [] ∨ nl = ['\n']) :
    ¬ marker <:+: rest ++ '}' :: nl := by
  intro h
  rcases infix_split rbrace_not_mem_marker marker_ne_nil h with h | h
  · exact hr h
  · have := h.length_le
    rcases hnl with rfl | rfl <;> simp [marker_length] at this

/-- If `M ++ R = P ++ M ++ y` with `P` at least as long as `M`, then the second occurrence lies in `R`. -/
theorem marker_in_tail {R P y : List Char} (hP : marker.length ≤ P.length)
    (h : marker ++ R = P ++ (marker ++ y)) : marker <:+: R := by
  rw [List.append_eq_append_iff] at h
  rcases h with ⟨as, _, h2⟩ | ⟨bs, h1, h2⟩
  · exact ⟨as, y, by rw [h2, List.append_assoc]⟩
  · have hl := congrArg List.length h1
    simp only [List.length_append] at hl
    have hbs : bs = [] := List.eq_nil_of_length_eq_zero (by omega)
    subst hbs
    exact ⟨[], y, by simpa using h2⟩

/-- Core of (3): on `M{inner}M rest}` the search for the first marker succeeds at position 0 (no later
    position can work) and `.+` stops at the `}` in front of the second marker. -/
theorem aSearch_compound (inner rest nl : List Char) (hi : inner ≠ [])
    (hin : '\n' ∉ inner) (hrn : '\n' ∉ rest)
    (hmi : ¬ marker <:+: inner) (hmr : ¬ marker <:+: rest) (hnl : nl = [] ∨ nl = ['\n']) :
    aSearch (marker ++ '{' :: (inner ++ '}' :: (marker ++ (rest ++ '}' :: nl))))
      = some ('{' :: (inner ++ ['}']), rest) := by
  have hR := no_marker_tail hmr hnl
  have hmt : matchTail '}' (rest ++ '}' :: nl) = some rest := by
    rw [matchTail_eq_some_iff (by decide)]
    refine ⟨hrn, ?_⟩
    rcases hnl with rfl | rfl <;> simp
  -- the anchored attempt at position 0
  have h0 : compoundHere (marker ++ '{' :: (inner ++ '}' :: (marker ++ (rest ++ '}' :: nl))))
      = some ('{' :: (inner ++ ['}']), rest) := by
    simp only [compoundHere, strip_append, Option.bind_some, afterMarker]
    have := p1Search_here inner [] (rest ++ '}' :: nl) rest hin (Or.inr hi) ?_ hmt
    · simpa using this
    · cases hh : p1Search ('}' :: (inner.reverse ++ [])) (marker ++ (rest ++ '}' :: nl)) with
      | none => rfl
      | some r =>
        exfalso
        obtain ⟨x, y, g2, h1, _, _, _, _⟩ := p1Search_sound hh
        have h1' : marker ++ (rest ++ '}' :: nl) = (x ++ ['}']) ++ (marker ++ y) := by
          rw [h1]; simp
        rw [List.append_eq_append_iff] at h1'
        rcases h1' with ⟨as, _, h3⟩ | ⟨bs, h2, _⟩
        · exact hR ⟨as, y, by rw [h3, List.append_assoc]⟩
        · exact rbrace_not_mem_marker (by rw [h2]; simp)
  -- no later position works
  have hm : marker = '_' :: marker.tail := rfl
  rw [hm, List.cons_append, aSearch_first, ← List.cons_append, ← hm, h0]
  intro a b hab hane
  cases hb : compoundHere b with
  | none => rfl
  | some r =>
    exfalso
    obtain ⟨x, y, g2, rfl, hx, _, _, _⟩ := compoundHere_sound hb
    rw [← List.cons_append, ← hm] at hab
    -- first occurrence (at prefix `a`) cannot overlap the leading marker
    have hab' : marker ++ '{' :: (inner ++ '}' :: (marker ++ (rest ++ '}' :: nl)))
        = a ++ marker ++ ('{' :: (x ++ '}' :: (marker ++ y))) := by rw [hab, List.append_assoc]
    rcases occ_split lbrace_not_mem_marker marker_ne_nil hab' with ⟨a2, h1, _⟩ | ⟨b1, _, h2⟩
    · have hl := congrArg List.length h1
      simp only [List.length_append] at hl
      exact hane (List.eq_nil_of_length_eq_zero (by omega))
    · -- it is not inside `inner` either
      rcases occ_split rbrace_not_mem_marker marker_ne_nil h2 with ⟨a2, h3, _⟩ | ⟨b2, _, h4⟩
      · exact hmi ⟨b1, a2, h3.symm⟩
      · -- so both occurrences live in `M ++ rest ++ "}"`, the second one inside `rest ++ "}"`
        have h4' : marker ++ (rest ++ '}' :: nl)
            = (b2 ++ marker ++ '{' :: (x ++ ['}'])) ++ (marker ++ y) := by
          rw [h4]; simp
        exact hR (marker_in_tail (by simp; omega) h4')

theorem not_hasMarker_iff {l : List Char} : hasMarker l = false ↔ ¬ marker <:+: l := by
  rw [← hasMarker_iff]; simp

/-- **(3′) General form**: whatever (newline-free) text `pre` stands between the opening `{` and the
    first marker — even text containing further markers — the two parts are `{inner}` and `{rest}`;
    `pre` is **dropped**. -/
theorem splitCompounds_prefix_dropped (pre inner rest : List Char) (hi : inner ≠ [])
    (hpn : '\n' ∉ pre) (hin : '\n' ∉ inner) (hrn : '\n' ∉ rest)
    (hmi : hasMarker inner = false) (hmr : hasMarker rest = false) :
    ∀ nl ∈ [[], ['\n']],
      splitCompounds ("{".toList ++ pre ++ marker ++ ("{".toList ++ inner ++ "}".toList) ++ marker
          ++ rest ++ "}".toList ++ nl)
        = some ("{".toList ++ inner ++ "}".toList, "{".toList ++ rest ++ "}".toList) := by
  intro nl hmem
  have hnl : nl = [] ∨ nl = ['\n'] := by simpa using hmem
  have hA := aSearch_compound inner rest nl hi hin hrn
    (not_hasMarker_iff.mp hmi) (not_hasMarker_iff.mp hmr) hnl
  have hB := aSearch_append pre _ hpn hA
  have e : "{".toList ++ pre ++ marker ++ ("{".toList ++ inner ++ "}".toList) ++ marker
          ++ rest ++ "}".toList ++ nl
      = '{' :: (pre ++ (marker ++ '{' :: (inner ++ '}' :: (marker ++ (rest ++ '}' :: nl))))) := by
    have h1 : "{".toList = ['{'] := by decide
    have h2 : "}".toList = ['}'] := by decide
    rw [h1, h2]; simp
  rw [e]
  simp only [splitCompounds, hB, Option.map_some]
  have h1 : "{".toList = ['{'] := by decide
  have h2 : "}".toList = ['}'] := by decide
  rw [h1, h2]; simp

/-- non-vacuity: the dropped prefix even contains a marker and braces. -/
example : splitCompounds ("{".toList ++ ("x; ".toList ++ marker ++ "{y}".toList) ++ marker
      ++ ("{".toList ++ " b; ".toList ++ "}".toList) ++ marker ++ " c;".toList ++ "}".toList ++ ['\n'])
    = some ("{ b; }".toList, "{ c;}".toList) := by decide

/-- **(3) Lossless split of a compound** (the shape produced by the macro patch: the first marker directly
    after the opening brace).  `p1 = "{" ++ inner ++ "}"`. -/
theorem splitCompounds_lossless_partial (inner rest : List Char) (hi : inner ≠ [])
    (hin : '\n' ∉ inner) (hrn : '\n' ∉ rest)
    (hmi : hasMarker inner = false) (hmr : hasMarker rest = false) :
    ∀ nl ∈ [[], ['\n']],
      splitCompounds ("{".toList ++ marker ++ ("{".toList ++ inner ++ "}".toList) ++ marker
          ++ rest ++ "}".toList ++ nl)
        = some ("{".toList ++ inner ++ "}".toList, "{".toList ++ rest ++ "}".toList) := by
  intro nl hmem
  have := splitCompounds_prefix_dropped [] inner rest hi (by simp) hin hrn hmi hmr nl hmem
  simpa using this

/-- non-vacuity: nested braces in both parts, a partial marker lookalike in `rest`. -/
example : splitCompounds ("{".toList ++ marker ++ ("{".toList ++ " if (p) { a; } ".toList ++ "}".toList) ++ marker
      ++ " { b; } COMPOUND_PART1__ ".toList ++ "}".toList ++ [])
    = some ("{ if (p) { a; } }".toList, "{ { b; } COMPOUND_PART1__ }".toList) := by decide

example : hasMarker " if (p) { a; } ".toList = false ∧ hasMarker " { b; } COMPOUND_PART1__ ".toList = false := by
  decide

/-- **(3) Witness: text before the first marker is lost.**
    `{a; M{ b; }M c;}` gives the parts `{ b; }` and `{ c;}` — `a; ` appears in neither. -/
theorem splitCompounds_drops_prefix :
    splitCompounds ("{a; ".toList ++ marker ++ "{ b; }".toList ++ marker ++ " c;}".toList)
      = some ("{ b; }".toList, "{ c;}".toList) := by decide

/-- The full-strength statement one would want ("no text is lost": a prefix in front of the first
    marker is kept in part 2).  It is FALSE of the code; stated, not claimed. -/
def splitCompounds_lossless_full_statement : Prop :=
  ∀ pre inner rest : List Char, inner ≠ [] → '\n' ∉ pre → '\n' ∉ inner → '\n' ∉ rest →
    hasMarker pre = false → hasMarker inner = false → hasMarker rest = false →
    splitCompounds ('{' :: (pre ++ marker ++ ('{' :: (inner ++ ['}'])) ++ marker ++ rest ++ ['}']))
      = some ('{' :: (inner ++ ['}']), '{' :: (pre ++ rest ++ ['}']))

theorem splitCompounds_lossless_full_statement_false : ¬ splitCompounds_lossless_full_statement := by
  intro h
  have h1 := h "a; ".toList " b; ".toList " c;".toList (by decide) (by decide) (by decide) (by decide)
    (by decide) (by decide) (by decide)
  have h2 := splitCompounds_drops_prefix
  have e : ("{a; ".toList ++ marker ++ "{ b; }".toList ++ marker ++ " c;}".toList)
      = ('{' :: ("a; ".toList ++ marker ++ ('{' :: (" b; ".toList ++ ['}'])) ++ marker ++ " c;".toList ++ ['}'])) := by
    decide
  rw [e, h1] at h2
  exact absurd h2 (by decide)

/-- **Soundness of `split_compounds`**: the shape of every accepted input and where the outputs come from.
    Everything except `pre` and the two markers is preserved. -/
theorem splitCompounds_sound {beh p1 p2 : List Char} (h : splitCompounds beh = some (p1, p2)) :
    ∃ pre inner rest nl, inner ≠ [] ∧ '\n' ∉ pre ∧ '\n' ∉ inner ∧ '\n' ∉ rest ∧ (nl = [] ∨ nl = ['\n']) ∧
      beh = '{' :: (pre ++ (marker ++ '{' :: (inner ++ '}' :: (marker ++ (rest ++ '}' :: nl))))) ∧
      p1 = '{' :: (inner ++ ['}']) ∧ p2 = '{' :: (rest ++ ['}']) := by
  unfold splitCompounds at h
  split at h
  · rename_i t
    simp only [Option.map_eq_some_iff, Prod.mk.injEq] at h
    obtain ⟨g, hg, rfl, rfl⟩ := h
    obtain ⟨a, b, rfl, ha, hb⟩ := aSearch_sound hg
    obtain ⟨x, y, g2, rfl, hx, hxn, hy, rfl⟩ := compoundHere_sound hb
    rw [matchTail_eq_some_iff (by decide)] at hy
    rcases hy.2 with rfl | rfl
    · exact ⟨a, x, g2, [], hx, ha, hxn, hy.1, Or.inl rfl, by simp, rfl, rfl⟩
    · exact ⟨a, x, g2, ['\n'], hx, ha, hxn, hy.1, Or.inr rfl, by simp, rfl, rfl⟩
  · cases h

/-! ### Brace balance -/

/-- Brace depth scan; `none` when a `}` closes nothing. -/
def scan : Nat → List Char → Option Nat
  | d, [] => some d
  | d, c :: cs =>
    if c = '{' then scan (d + 1) cs
    else if c = '}' then (match d with | 0 => none | d + 1 => scan d cs)
    else scan d cs

def balanced (l : List Char) : Prop := scan 0 l = some 0

instance (l : List Char) : Decidable (balanced l) := by unfold balanced; infer_instance

theorem scan_append (d : Nat) (a b : List Char) : scan d (a ++ b) = (scan d a).bind fun d' => scan d' b := by
  induction a generalizing d with
  | nil => rfl
  | cons c a ih =>
    simp only [List.cons_append, scan]
    split
    · exact ih _
    · split
      · cases d with
        | zero => rfl
        | succ d => exact ih _
      · exact ih _

theorem scan_shift (k : Nat) {d e : Nat} {l : List Char} (h : scan d l = some e) :
    scan (d + k) l = some (e + k) := by
  induction l generalizing d with
  | nil => simp only [scan, Option.some.injEq] at h ⊢; omega
  | cons c l ih =>
    simp only [scan] at h ⊢
    split
    · rename_i hc
      simp only [hc, if_true] at h
      have := ih h
      rw [show d + k + 1 = d + 1 + k by omega]; exact this
    · rename_i hc
      simp only [hc, if_false] at h
      split
      · rename_i hc2
        simp only [hc2, if_true] at h
        cases d with
        | zero => cases h
        | succ d =>
          simp only at h
          rw [show d + 1 + k = (d + k) + 1 by omega]
          exact ih h
      · rename_i hc2
        simp only [hc2, if_false] at h
        exact ih h

theorem scan_balanced (d : Nat) {l : List Char} (h : balanced l) : scan d l = some d := by
  have := scan_shift d h
  simpa using this

theorem scan_no_brace (d : Nat) {l : List Char} (h1 : '{' ∉ l) (h2 : '}' ∉ l) : scan d l = some d := by
  induction l with
  | nil => rfl
  | cons c l ih =>
    simp only [List.mem_cons, not_or] at h1 h2
    simp only [scan, if_neg (Ne.symm h1.1), if_neg (Ne.symm h2.1)]
    exact ih h1.2 h2.2

/-- **Brace balance corollary**: if the input `{pre M p1 M rest}` is brace-balanced and so are `p1` and
    the (dropped) `pre`, then part 2 `{rest}` is balanced. -/
theorem splitCompounds_part2_balanced (pre p1 rest : List Char)
    (hb : balanced ('{' :: (pre ++ (marker ++ (p1 ++ (marker ++ (rest ++ ['}'])))))))
    (hpre : balanced pre) (hp1 : balanced p1) :
    balanced ('{' :: (rest ++ ['}'])) := by
  have hM : ∀ d, scan d marker = some d :=
    fun d => scan_no_brace d lbrace_not_mem_marker rbrace_not_mem_marker
  unfold balanced at hb ⊢
  simp only [scan, if_true] at hb ⊢
  rw [scan_append, scan_balanced _ hpre, Option.bind_some, scan_append, hM, Option.bind_some,
    scan_append, scan_balanced _ hp1, Option.bind_some, scan_append, hM, Option.bind_some] at hb
  exact hb

example : balanced ('{' :: ("".toList ++ (marker ++ ("{ if (p) { a; } }".toList ++ (marker ++ (" { b; } ".toList ++ ['}']))))))
    ∧ balanced "".toList ∧ balanced "{ if (p) { a; } }".toList := by decide

/-! ## `load_insn_behavior` -/

theorem loadLine_hash {l : List Char} (h : isHashLine l = true) : loadLine l = some none := by
  unfold isHashLine at h
  split at h
  · rfl
  · cases h

theorem loadLine_nonhash {l : List Char} (h : isHashLine l = false) :
    loadLine l = (loadBody l).map some := by
  unfold loadLine
  split
  · rfl
  · simp [isHashLine] at h
  · rfl

/-- **(4a)** If the load succeeds, the assignments are exactly one per non-`#` line, in file order,
    each being what `loadLine` computes for that line (so no line was skipped silently). -/
theorem load_all_or_raise_entries {lines : List (List Char)} {m} (h : loadBehaviours lines = some m) :
    (lines.filter fun l => !isHashLine l).map loadLine = m.map fun e => some (some e) := by
  induction lines generalizing m with
  | nil => simp only [loadBehaviours, Option.some.injEq] at h; subst h; rfl
  | cons l ls ih =>
    simp only [loadBehaviours] at h
    split at h
    · cases h
    · rename_i e he
      split at h
      · cases h
      · rename_i m' hm'
        simp only [Option.some.injEq] at h
        subst h
        have hrec := ih hm'
        cases hh : isHashLine l with
        | true =>
          rw [loadLine_hash hh] at he
          cases he
          simp only [List.filter_cons, hh, Bool.not_true]
          exact hrec
        | false =>
          rw [loadLine_nonhash hh] at he
          cases e with
          | none => simp at he
          | some x =>
            simp only [List.filter_cons, hh, Bool.not_false, if_true, List.map_cons, hrec]
            rw [loadLine_nonhash hh, he]

theorem load_all_or_raise_count {lines : List (List Char)} {m} (h : loadBehaviours lines = some m) :
    m.length = (lines.filter fun l => !isHashLine l).length := by
  have := congrArg List.length (load_all_or_raise_entries h)
  simpa using this.symm

/-- **(4a)** every non-`#` line was split successfully and contributed an entry under its own name -/
theorem load_all_or_raise {lines : List (List Char)} {m} (h : loadBehaviours lines = some m) :
    ∀ l ∈ lines, isHashLine l = false →
      ∃ name beh parts, splitResolved l = some (name, beh) ∧ (name, parts) ∈ m ∧
        loadLine l = some (some (name, parts)) := by
  intro l hl hh
  have hmem : loadLine l ∈ (lines.filter fun l => !isHashLine l).map loadLine :=
    List.mem_map_of_mem (by simp [List.mem_filter, hl, hh])
  rw [load_all_or_raise_entries h, List.mem_map] at hmem
  obtain ⟨⟨name, parts⟩, hem, he⟩ := hmem
  have he' := he.symm
  rw [loadLine_nonhash hh] at he'
  simp only [Option.map_eq_some_iff, Option.some.injEq] at he'
  obtain ⟨x, hx, rfl⟩ := he'
  unfold loadBody at hx
  split at hx
  · cases hx
  · rename_i n beh hs
    refine ⟨name, beh, parts, ?_, hem, he.symm⟩
    split at hx
    · split at hx
      · cases hx
      · simp only [Option.some.injEq, Prod.mk.injEq] at hx; rw [hs, hx.1]
    · simp only [Option.some.injEq, Prod.mk.injEq] at hx; rw [hs, hx.1]

theorem loadBehaviours_none_of_line {lines : List (List Char)} {l : List Char}
    (hl : l ∈ lines) (h : loadLine l = none) : loadBehaviours lines = none := by
  induction lines with
  | nil => cases hl
  | cons x xs ih =>
    simp only [loadBehaviours]
    rcases List.mem_cons.mp hl with rfl | hl'
    · rw [h]
    · rw [ih hl']
      split <;> rfl

/-- **(4b)** One malformed (non-`#`) line makes the whole load raise — nothing is skipped. -/
theorem load_raises_of_bad_line {lines : List (List Char)}
    (h : ∃ l ∈ lines, isHashLine l = false ∧ splitResolved l = none) : loadBehaviours lines = none := by
  obtain ⟨l, hl, hh, hs⟩ := h
  apply loadBehaviours_none_of_line hl
  rw [loadLine_nonhash hh]
  simp only [loadBody, hs, Option.map_none]

/-- likewise for a compound body that `split_compounds` cannot split (`AttributeError`) -/
theorem load_raises_of_bad_compound {lines : List (List Char)}
    (h : ∃ l ∈ lines, ∃ name beh, isHashLine l = false ∧ splitResolved l = some (name, beh) ∧
      hasMarker beh = true ∧ splitCompounds beh = none) : loadBehaviours lines = none := by
  obtain ⟨l, hl, name, beh, hh, hs, hm, hc⟩ := h
  apply loadBehaviours_none_of_line hl
  rw [loadLine_nonhash hh]
  simp only [loadBody, hs, hm, if_true, hc, Option.map_none]

example : loadBehaviours ["# 1 \"x.h\"\n".toList, "insn(A, { a; })\n".toList,
      ("insn(B, {".toList ++ marker ++ "{ b; }".toList ++ marker ++ " c;})\n".toList)]
    = some [("A".toList, ["{ a; }".toList]), ("B".toList, ["{ b; }".toList, "{ c;}".toList])] := by decide

example : loadBehaviours ["insn(A, { a; })\n".toList, "\n".toList] = none := by decide
example : ∃ l ∈ ["insn(A, { a; })\n".toList, "\n".toList], isHashLine l = false ∧ splitResolved l = none :=
  ⟨"\n".toList, by decide, by decide, by decide⟩
example : loadBehaviours ["insn(A, { a; })\n".toList, ("insn(B, {".toList ++ marker ++ " c;})\n".toList)] = none := by
  decide
example : ∃ l ∈ ["insn(A, { a; })\n".toList, ("insn(B, {".toList ++ marker ++ " c;})\n".toList)],
    ∃ name beh, isHashLine l = false ∧ splitResolved l = some (name, beh) ∧
      hasMarker beh = true ∧ splitCompounds beh = none :=
  ⟨"insn(B, {".toList ++ marker ++ " c;})\n".toList, by decide, "B".toList, "{".toList ++ marker ++ " c;}".toList,
    by decide, by decide, by decide, by decide⟩

end Rzil.PP
