import RzilVerif.Model.Types
/-!
# C04 — common type and promotion are exactly the C11 table

All statements are for arbitrary widths (`Nat`), hence cover 1..2048.
-/
namespace Rzil.VT

/-- Both results of `c11_cast` have the sign and width of the C11 common type. -/
theorem c11Cast_eq_common (a b : VT) :
    ((c11Cast a b).1.signed, (c11Cast a b).1.width) = common a b ∧
    ((c11Cast a b).2.signed, (c11Cast a b).2.width) = common a b := by
  obtain ⟨sa, wa, ga⟩ := a; obtain ⟨sb, wb, gb⟩ := b
  cases sa <;> cases sb <;> simp [c11Cast, common] <;> (repeat' split) <;> simp_all <;> omega

/-- The specification is symmetric. -/
theorem common_comm (a b : VT) : common a b = common b a := by
  obtain ⟨sa, wa, ga⟩ := a; obtain ⟨sb, wb, gb⟩ := b
  cases sa <;> cases sb <;> simp [common, Nat.max_comm]

/-- `c11_cast` is symmetric up to swapping the results (sign and width). -/
theorem c11Cast_symm (a b : VT) :
    (c11Cast b a).1.eqv (c11Cast a b).2 = true ∧ (c11Cast b a).2.eqv (c11Cast a b).1 = true := by
  have h1 := c11Cast_eq_common a b
  have h2 := c11Cast_eq_common b a
  rw [common_comm b a] at h2
  obtain ⟨h1a, h1b⟩ := h1; obtain ⟨h2a, h2b⟩ := h2
  have e1 := h2a.trans h1b.symm
  have e2 := h2b.trans h1a.symm
  simp only [Prod.mk.injEq] at e1 e2
  simp [eqv, e1.1, e1.2, e2.1, e2.2]

/-- Both results agree with each other. -/
theorem c11Cast_results_agree (a b : VT) : (c11Cast a b).1.eqv (c11Cast a b).2 = true := by
  have h := c11Cast_eq_common a b
  have e := h.1.trans h.2.symm
  simp only [Prod.mk.injEq] at e
  simp [eqv, e.1, e.2]

/-- Named corner rule: the wider type wins (its width and its sign). -/
theorem common_wider (a b : VT) (h : a.width < b.width) : common a b = (b.signed, b.width) := by
  obtain ⟨sa, wa, ga⟩ := a; obtain ⟨sb, wb, gb⟩ := b
  cases sa <;> cases sb <;> simp [common] <;> (repeat' split) <;> simp_all <;> omega

/-- Named corner rule: at equal width unsigned wins. -/
theorem common_eqwidth_unsigned_wins (a b : VT) (h : a.width = b.width) (hs : a.signed ≠ b.signed) :
    common a b = (false, a.width) := by
  obtain ⟨sa, wa, ga⟩ := a; obtain ⟨sb, wb, gb⟩ := b
  cases sa <;> cases sb <;> simp_all [common]

/-- Named corner rule: a wider signed type absorbs a narrower unsigned one. -/
theorem common_signed_absorbs (a b : VT) (ha : a.signed = true) (hb : b.signed = false)
    (h : b.width < a.width) : common a b = (true, a.width) ∧ common b a = (true, a.width) := by
  obtain ⟨sa, wa, ga⟩ := a; obtain ⟨sb, wb, gb⟩ := b
  simp_all [common]
  try omega

/-- The width of the common type is the maximum of the widths. -/
theorem common_width (a b : VT) : (common a b).2 = max a.width b.width := by
  obtain ⟨sa, wa, ga⟩ := a; obtain ⟨sb, wb, gb⟩ := b
  cases sa <;> cases sb <;> simp [common] <;> (repeat' split) <;> simp_all <;> omega

/-- `promoted_type` specification. -/
theorem promoted_spec (t : VT) :
    promoted t = if t.width < 32 then { signed := true, width := 32, group := 1 } else t := by
  unfold promoted; split <;> split <;> first | rfl | omega

theorem promoted_idem (t : VT) : promoted (promoted t) = promoted t := by
  unfold promoted; split <;> simp_all

theorem promoted_width_ge (t : VT) : 32 ≤ (promoted t).width := by
  unfold promoted; split <;> simp_all

/-- The group flags of each argument travel with its result (the mechanism behind the BOOL
    leak of C10; a fact about this function). -/
theorem c11Cast_keeps_flags (a b : VT) :
    (c11Cast a b).1.group = a.group ∧ (c11Cast a b).2.group = b.group := by
  obtain ⟨sa, wa, ga⟩ := a; obtain ⟨sb, wb, gb⟩ := b
  cases sa <;> cases sb <;> simp [c11Cast] <;> (repeat' split) <;> simp_all

/-- Equal types (sign and width) are returned unchanged. -/
theorem c11Cast_id_of_eqv (a b : VT) (h : a.eqv b = true) : c11Cast a b = (a, b) := by
  obtain ⟨sa, wa, ga⟩ := a; obtain ⟨sb, wb, gb⟩ := b
  simp [eqv] at h
  simp [c11Cast, h.1, h.2]

/-- Idempotence: applying it to its own results changes nothing. -/
theorem c11Cast_idem (a b : VT) : c11Cast (c11Cast a b).1 (c11Cast a b).2 = c11Cast a b :=
  c11Cast_id_of_eqv _ _ (c11Cast_results_agree a b)

-- non-vacuity / sanity instances (tests, labelled as tests)
example : common ⟨true, 8, 1⟩ ⟨false, 32, 1⟩ = (false, 32) := by decide
example : common ⟨true, 64, 1⟩ ⟨false, 32, 1⟩ = (true, 64) := by decide
example : common ⟨true, 32, 1⟩ ⟨false, 32, 1⟩ = (false, 32) := by decide
example : c11Cast ⟨true, 8, 2⟩ ⟨false, 32, 1⟩ = (⟨false, 32, 2⟩, ⟨false, 32, 1⟩) := by decide

end Rzil.VT
