import RzilVerif.Model.Grammar
/-!
# C17 — round trip of the reference parser over the minimal printer (expressions and statements)

Main results (all for trees of unbounded depth, every constructor including calls and the GCC
statement-expression `({ … })`, whose body makes expressions and statements mutually recursive):

* `refParse_print   : WF e = true → refParseAll (printE e) = some e`
* `print_injective  : WF a = true → WF b = true → printE a = printE b → a = b`
* precedence / associativity facts: `decide`d token-level examples and the general lemmas
  `sub_left_assoc`, `assign_right_assoc`, `tern_right_assoc`, `neg_mul`, `cast_add`, `and_land`,
  `not_eq` for arbitrary well-formed operands.
* the statement-level consequences of the same induction (`refParseStmt_print`, the else-binding
  lemmas) are stated in `Props/C17Stmt.lean`.

Proof plan: fuel is hidden behind `PEv k ts x n := ∀ f > n, pExpr f k ts = some x` (and `MEv`,
`PoEv`, `AEv` for the binary loop, the postfix loop and the argument list; `SEv`, `IEv`, `ItsEv` for
statements, block items and item lists); the bound `n` is explicit (`20 * tokens + 16 - level`,
`20 * tokens` for statements) because `refParseAll`/`refParseStmt` run with the concrete fuel
`20 * tokens + 20`.  `H c r` says that the head of the rest `r` does not continue an expression of
level `c`; `NoElse r` that it is not `else`.  One lemma per grammar alternative (`prim_atom`,
`prim_paren`, `prim_stmtExpr`, `step_un`, `step_cast`, `many_stop`, `many_step`, `cond_step`,
`asg_step`, `stmt_if`, `stmt_ifElse`, `stmt_for`, `stmt_block`, `item_decl`, `items_cons`, …),
`descend`/`descend_to` to go from a tight level down to a looser one, then ONE structural induction
on the mutual types (`main`, principle `CExpr.ind2`) proving simultaneously `Q` (parse `pr c e` at
level `c`), `R` (continue the binary loop of level `k` after `pr k e`), `RP` (continue the postfix
loop after `pr 14 e`), `QS` (parse `prS s` in statement position; if `s` ends in an else-less `if`
the rest must not start with `else`) and `QI` (the same in block-item position).

The auxiliary lemmas below are implications between parser facts; their hypotheses are discharged
inside `main`, whose only hypotheses are `WF e` / `SWFp _ s` (non-vacuity examples follow the main
theorems).
-/
namespace Rzil.Grammar
open CExpr GTok

/-! ## "Eventually succeeds" predicates (fuel hidden behind an explicit lower bound) -/

def PEv (k : Nat) (ts : List GTok) (x : PRes) (n : Nat) : Prop :=
  ∀ f, n < f → pExpr f k ts = some x
def MEv (k : Nat) (lhs : CExpr) (u : Bool) (ts : List GTok) (x : PRes) (n : Nat) : Prop :=
  ∀ f, n < f → pMany f k lhs u ts = some x
def PoEv (lhs : CExpr) (u : Bool) (ts : List GTok) (x : PRes) (n : Nat) : Prop :=
  ∀ f, n < f → pPost f lhs u ts = some x
def AEv (ts : List GTok) (x : List CExpr × List GTok) (n : Nat) : Prop :=
  ∀ f, n < f → pArgs f ts = some x

theorem PEv.mono {k ts x n n'} (h : PEv k ts x n) (hn : n ≤ n') : PEv k ts x n' :=
  fun f hf => h f (by omega)

/-- Level at which a token continues an already complete operand (`none`: never). -/
def contLevel : GTok → Option Nat
  | .lp => some 15
  | .op s =>
    (match opKind s with
     | .bin l => some (l + 2)
     | .assign => some 0
     | .post => some 14
     | .quest => some 1
     | .other => none)
  | _ => none

/-- The rest `r` does not continue an expression of level `c`. -/
def H (c : Nat) (r : List GTok) : Prop :=
  match r with
  | [] => True
  | t :: _ => ∀ l, contLevel t = some l → l < c

theorem H.mono {c c' r} (h : H c r) (hc : c ≤ c') : H c' r := by
  cases r with
  | nil => trivial
  | cons t r => intro l hl; have := h l hl; omega

/-! ## Inversion: tokens that cannot start an expression -/

def badHead : GTok → Bool
  | .rp => true
  | .ty _ => true
  | .op s => !isUnOp s
  | _ => false

theorem pExpr_badHead : ∀ f k t r, badHead t = true → pExpr f k (t :: r) = none := by
  intro f
  induction f with
  | zero => intro k t r _; simp [pExpr]
  | succ f ih =>
    intro k t r hb
    have ih' : ∀ k, pExpr f k (t :: r) = none := fun k => ih k t r hb
    cases t <;> simp [badHead] at hb <;> simp [pExpr, ih', hb]

theorem pExpr_ty (f k t r) : pExpr f k (.ty t :: r) = none := pExpr_badHead _ _ _ _ rfl
theorem pExpr_rp (f k r) : pExpr f k (.rp :: r) = none := pExpr_badHead _ _ _ _ rfl

theorem pExpr13_castStart (f t r) : pExpr f 13 (.lp :: .ty t :: r) = none := by
  cases f with
  | zero => simp [pExpr]
  | succ f =>
    cases f with
    | zero => simp [pExpr]
    | succ f =>
      cases f with
      | zero => simp [pExpr]
      | succ f => simp [pExpr, pExpr_ty]

theorem pExpr14_op (f s r) : pExpr f 14 (.op s :: r) = none := by
  cases f with
  | zero => simp [pExpr]
  | succ f =>
    cases f with
    | zero => simp [pExpr]
    | succ f => simp [pExpr]

/-! ## One-step lemmas, one per grammar alternative -/

theorem H_not_lp {c r} (h : H c r) (hc : c ≤ 15) : ∀ r', r ≠ .lp :: r' := by
  intro r' e; subst e
  have := h 15 rfl; omega

theorem prim_atom {s r} (h : H 15 r) : PEv 15 (.atom s :: r) (.atom s, true, r) 0 := by
  intro f hf
  obtain ⟨f, rfl⟩ : ∃ g, f = g + 1 := ⟨f - 1, by omega⟩
  have := H_not_lp h (Nat.le_refl _)
  cases r with
  | nil => simp [pExpr]
  | cons t r => cases t <;> simp_all [pExpr]

theorem prim_paren {ts x u r n} (h : PEv 0 ts (x, u, .rp :: r) n) :
    PEv 15 (.lp :: ts) (x, true, r) (n + 1) := by
  intro f hf
  obtain ⟨f, rfl⟩ : ∃ g, f = g + 1 := ⟨f - 1, by omega⟩
  have h1 := h f (by omega)
  have hb : ts.head? ≠ some (.op "{") := by
    intro e
    cases ts with
    | nil => cases e
    | cons t ts =>
      simp at e; subst e
      rw [pExpr_badHead _ _ _ _ (by decide)] at h1; cases h1
  simp [pExpr, h1, hb]

theorem prim_call0 {s r} : PEv 15 (.atom s :: .lp :: .rp :: r) (.call s [], true, r) 0 := by
  intro f hf
  obtain ⟨f, rfl⟩ : ∃ g, f = g + 1 := ⟨f - 1, by omega⟩
  simp [pExpr]

theorem pArgs_rp (f r) : pArgs f (.rp :: r) = none := by
  cases f <;> simp [pArgs, pExpr_rp]

theorem prim_call {s ts es r n} (h : AEv ts (es, r) n) :
    PEv 15 (.atom s :: .lp :: ts) (.call s es, true, r) (n + 1) := by
  intro f hf
  obtain ⟨f, rfl⟩ : ∃ g, f = g + 1 := ⟨f - 1, by omega⟩
  have h1 := h f (by omega)
  cases ts with
  | nil => simp [pExpr, h1]
  | cons t ts =>
    cases t with
    | rp => rw [pArgs_rp] at h1; cases h1
    | _ => simp [pExpr, h1]

theorem post_stop {lhs u r} (h : H 14 r) : PoEv lhs u r (lhs, u, r) 0 := by
  intro f hf
  obtain ⟨f, rfl⟩ : ∃ g, f = g + 1 := ⟨f - 1, by omega⟩
  cases r with
  | nil => simp [pPost]
  | cons t r =>
    cases t with
    | op s =>
      have : isPostOp s = false := by
        cases hk : opKind s <;> simp [isPostOp, hk]
        have := h 14 (by simp [contLevel, hk]); omega
      simp [pPost, this]
    | _ => simp [pPost]

theorem post_step {lhs u s r y n} (hs : isPostOp s = true) (h : PoEv (.post s lhs) true r y n) :
    PoEv lhs u (.op s :: r) y (n + 1) := by
  intro f hf
  obtain ⟨f, rfl⟩ : ∃ g, f = g + 1 := ⟨f - 1, by omega⟩
  simp [pPost, hs, h f (by omega)]

theorem level14 {ts x u r y n m} (h : PEv 15 ts (x, u, r) n) (h2 : PoEv x u r y m) :
    PEv 14 ts y (max n m + 1) := by
  intro f hf
  obtain ⟨f, rfl⟩ : ∃ g, f = g + 1 := ⟨f - 1, by omega⟩
  simp [pExpr, h f (by omega), h2 f (by omega)]

theorem step_un {s ts a u r n} (hs : isUnOp s = true) (h : PEv 12 ts (a, u, r) n) :
    PEv 13 (.op s :: ts) (.un s a, true, r) (n + 1) := by
  intro f hf
  obtain ⟨f, rfl⟩ : ∃ g, f = g + 1 := ⟨f - 1, by omega⟩
  simp [pExpr, hs, h f (by omega)]

theorem step_cast {t ts a u r n} (h : PEv 12 ts (a, u, r) n) :
    PEv 12 (.lp :: .ty t :: .rp :: ts) (.cast t a, false, r) (n + 1) := by
  intro f hf
  obtain ⟨f, rfl⟩ : ∃ g, f = g + 1 := ⟨f - 1, by omega⟩
  simp [pExpr, h f (by omega)]

theorem desc13 {ts x n} (h : PEv 14 ts x n) : PEv 13 ts x (n + 1) := by
  intro f hf
  obtain ⟨f, rfl⟩ : ∃ g, f = g + 1 := ⟨f - 1, by omega⟩
  have h1 := h f (by omega)
  cases ts with
  | nil => simpa [pExpr] using h1
  | cons t ts =>
    cases t with
    | op s => rw [pExpr14_op] at h1; cases h1
    | _ => simpa [pExpr] using h1

theorem desc12 {ts x n} (h : PEv 13 ts x n) : PEv 12 ts x (n + 1) := by
  intro f hf
  obtain ⟨f, rfl⟩ : ∃ g, f = g + 1 := ⟨f - 1, by omega⟩
  have h1 := h f (by omega)
  match ts with
  | .lp :: .ty t :: r => rw [pExpr13_castStart] at h1; cases h1
  | [] | .atom _ :: _ | .op _ :: _ | .rp :: _ | .ty _ :: _ | [.lp] | .lp :: .atom _ :: _
  | .lp :: .op _ :: _ | .lp :: .lp :: _ | .lp :: .rp :: _ => simpa [pExpr] using h1

theorem level_bin {k ts x u r y n m} (hk : 2 ≤ k) (hk' : k ≤ 11)
    (h : PEv (k + 1) ts (x, u, r) n) (h2 : MEv k x u r y m) : PEv k ts y (max n m + 1) := by
  intro f hf
  obtain ⟨f, rfl⟩ : ∃ g, f = g + 1 := ⟨f - 1, by omega⟩
  have h0 : k ≠ 0 := by omega
  have h1 : k ≠ 1 := by omega
  simp [pExpr, h0, h1, hk', h f (by omega), h2 f (by omega)]

theorem many_stop {k lhs u r} (hk : 2 ≤ k) (h : H k r) : MEv k lhs u r (lhs, u, r) 0 := by
  intro f hf
  obtain ⟨f, rfl⟩ : ∃ g, f = g + 1 := ⟨f - 1, by omega⟩
  cases r with
  | nil => simp [pMany]
  | cons t r =>
    cases t with
    | op s =>
      have : binLevel s ≠ some (k - 2) := by
        intro hb
        cases hk : opKind s <;> simp [binLevel, hk] at hb
        have := h (k - 2 + 2) (by simp [contLevel, hk, hb]); omega
      simp [pMany, this]
    | _ => simp [pMany]

theorem many_step {k lhs u s ts b u' r y n m} (hs : binLevel s = some (k - 2))
    (h : PEv (k + 1) ts (b, u', r) n) (h2 : MEv k (.bin s lhs b) false r y m) :
    MEv k lhs u (.op s :: ts) y (max n m + 1) := by
  intro f hf
  obtain ⟨f, rfl⟩ : ∃ g, f = g + 1 := ⟨f - 1, by omega⟩
  simp [pMany, hs, h f (by omega), h2 f (by omega)]

theorem cond_stop {ts x u r n} (h : PEv 2 ts (x, u, r) n) (hr : H 1 r) :
    PEv 1 ts (x, u, r) (n + 1) := by
  intro f hf
  obtain ⟨f, rfl⟩ : ∃ g, f = g + 1 := ⟨f - 1, by omega⟩
  cases r with
  | nil => simp [pExpr, h f (by omega)]
  | cons t r =>
    cases t with
    | op s =>
      have : s ≠ "?" := by
        intro e; subst e
        have := hr 1 (by decide); omega
      simp [pExpr, h f (by omega), this]
    | _ => simp [pExpr, h f (by omega)]

theorem cond_step {ts x u r1 a ua r2 b ub r3 n1 n2 n3}
    (h1 : PEv 2 ts (x, u, .op "?" :: r1) n1) (h2 : PEv 0 r1 (a, ua, .op ":" :: r2) n2)
    (h3 : PEv 1 r2 (b, ub, r3) n3) :
    PEv 1 ts (.tern x a b, false, r3) (max n1 (max n2 n3) + 1) := by
  intro f hf
  obtain ⟨f, rfl⟩ : ∃ g, f = g + 1 := ⟨f - 1, by omega⟩
  simp [pExpr, h1 f (by omega), h2 f (by omega), h3 f (by omega)]

theorem asg_stop {ts x u r n} (h : PEv 1 ts (x, u, r) n) (hr : H 0 r) :
    PEv 0 ts (x, u, r) (n + 1) := by
  intro f hf
  obtain ⟨f, rfl⟩ : ∃ g, f = g + 1 := ⟨f - 1, by omega⟩
  cases r with
  | nil => simp [pExpr, h f (by omega)]
  | cons t r =>
    cases t with
    | op s =>
      have : isAssignOp s = false := by
        cases hk : opKind s <;> simp [isAssignOp, hk]
        have := hr 0 (by simp [contLevel, hk]); omega
      simp [pExpr, h f (by omega), this]
    | _ => simp [pExpr, h f (by omega)]

theorem asg_step {ts x s r1 y uy r2 n1 n2} (h1 : PEv 1 ts (x, true, .op s :: r1) n1)
    (hs : isAssignOp s = true) (h2 : PEv 0 r1 (y, uy, r2) n2) :
    PEv 0 ts (.assign s x y, false, r2) (max n1 n2 + 1) := by
  intro f hf
  obtain ⟨f, rfl⟩ : ∃ g, f = g + 1 := ⟨f - 1, by omega⟩
  simp [pExpr, h1 f (by omega), hs, h2 f (by omega)]

theorem args_one {ts e u r n} (h : PEv 0 ts (e, u, .rp :: r) n) : AEv ts ([e], r) (n + 1) := by
  intro f hf
  obtain ⟨f, rfl⟩ : ∃ g, f = g + 1 := ⟨f - 1, by omega⟩
  simp [pArgs, h f (by omega)]

theorem args_cons {ts e u r1 es r n m} (h : PEv 0 ts (e, u, .op "," :: r1) n)
    (h2 : AEv r1 (es, r) m) : AEv ts (e :: es, r) (max n m + 1) := by
  intro f hf
  obtain ⟨f, rfl⟩ : ∃ g, f = g + 1 := ⟨f - 1, by omega⟩
  simp [pArgs, h f (by omega), h2 f (by omega)]

/-- Going down one level when the rest does not continue that level. -/
theorem descend {k ts e u r n} (hk : k < 15) (h : PEv (k + 1) ts (e, u, r) n) (hr : H k r) :
    PEv k ts (e, u, r) (n + 1) := by
  by_cases h0 : k = 0
  · subst h0; exact asg_stop h hr
  by_cases h1 : k = 1
  · subst h1; exact cond_stop h hr
  by_cases h11 : k ≤ 11
  · refine PEv.mono (level_bin (by omega) h11 h (many_stop (by omega) hr)) ?_; omega
  by_cases h12 : k = 12
  · subst h12; exact desc12 h
  by_cases h13 : k = 13
  · subst h13; exact desc13 h
  · obtain rfl : k = 14 := by omega
    refine PEv.mono (level14 h (post_stop hr)) ?_; omega

theorem descend_to {c ts e u r} : ∀ {k n}, c ≤ k → k ≤ 15 → PEv k ts (e, u, r) n → H c r →
    PEv c ts (e, u, r) (n + (k - c)) := by
  intro k
  induction k with
  | zero => intro n hc _ h _; obtain rfl : c = 0 := by omega
            exact h
  | succ k ih =>
    intro n hc hk h hr
    by_cases hck : c = k + 1
    · subst hck; exact h.mono (by omega)
    · have := ih (by omega) (by omega) (descend (by omega) h (hr.mono (by omega))) hr
      exact this.mono (by omega)

/-! ## Facts about the tables and the printer -/

theorem binLevel_le {s l} (h : binLevel s = some l) : l ≤ 9 := by
  unfold binLevel at h
  split at h
  · rename_i l' hk
    unfold opKind at hk
    split at hk <;> simp_all <;> omega
  · cases h

theorem opKind_of_binLevel {s l} (h : binLevel s = some l) : opKind s = .bin l := by
  unfold binLevel at h
  split at h
  · rename_i l' hk; simp_all
  · cases h

theorem opKind_bin_le {s l} (hk : opKind s = .bin l) : l ≤ 9 :=
  binLevel_le (s := s) (by simp [binLevel, hk])

/-- No token continues exactly at the cast or unary level. -/
theorem H_12_of_13 {r} (h : H 13 r) : H 12 r := by
  cases r with
  | nil => trivial
  | cons t r =>
    intro l hl
    have h1 := h l hl
    cases t with
    | op s =>
      cases hk : opKind s <;> simp [contLevel, hk] at hl <;> try omega
      have := opKind_bin_le hk; omega
    | lp => simp [contLevel] at hl; omega
    | _ => simp [contLevel] at hl

theorem H_12 {c r} (h : H c r) (hc : c ≤ 13) : H 12 r := H_12_of_13 (h.mono hc)

theorem pr_of_le {c e} (h : c ≤ prec e) : pr c e = body e := by simp [pr, paren, h]
theorem pr_of_lt {c e} (h : prec e < c) : pr c e = .lp :: body e ++ [.rp] := by
  simp [pr, paren, Nat.not_le.mpr h]
theorem pr_succ {k e} (h : prec e ≠ k) : pr k e = pr (k + 1) e := by
  by_cases h1 : k ≤ prec e
  · rw [pr_of_le h1, pr_of_le (by omega)]
  · rw [pr_of_lt (by omega), pr_of_lt (by omega)]
theorem paren_eq_pr (c e) : paren c (prec e) (body e) = pr c e := rfl

/-- The "derived as `unary_expr`" flag the parser reports for `pr c e`. -/
def uf (c : Nat) (e : CExpr) : Bool := decide (prec e < c) || decide (13 ≤ prec e)

theorem uf_15 (e) : uf 15 e = true := by simp [uf]; omega
/-- Flag with which the loop of level `k` is entered after `pr k e` has been consumed. -/
def ufl (k : Nat) (e : CExpr) : Bool := if prec e = k then false else uf (k + 1) e

def Q (e : CExpr) : Prop :=
  ∀ c r, c ≤ 15 → H c r →
    PEv c (pr c e ++ r) (e, uf c e, r) (20 * (pr c e).length + (16 - c))
def R (e : CExpr) : Prop :=
  ∀ k r y m, 2 ≤ k → k ≤ 11 → H (k + 1) r →
    MEv k e (ufl k e) r y m → PEv k (pr k e ++ r) y (20 * (pr k e).length + (16 - k) + m)
def RP (e : CExpr) : Prop :=
  ∀ r y m, H 15 r →
    PoEv e true r y m → PEv 14 (pr 14 e ++ r) y (20 * (pr 14 e).length + 2 + m)

theorem Q_of_body {e}
    (hb : ∀ c r, c ≤ prec e → c ≤ 15 → H c r →
      PEv c (body e ++ r) (e, decide (13 ≤ prec e), r) (20 * (body e).length + (16 - c))) :
    Q e := by
  intro c r hc hr
  by_cases h : c ≤ prec e
  · have hu : uf c e = decide (13 ≤ prec e) := by simp [uf, Nat.not_lt.mpr h]
    rw [pr_of_le h, hu]; exact hb c r h hc hr
  · have hu : uf c e = true := by simp [uf]; omega
    rw [pr_of_lt (by omega), hu]
    have h0 := hb 0 (.rp :: r) (Nat.zero_le _) (Nat.zero_le _) (by intro l hl; cases hl)
    have h1 := descend_to hc (Nat.le_refl _) (prim_paren h0) hr
    have e1 : .lp :: body e ++ [.rp] ++ r = .lp :: (body e ++ .rp :: r) := by simp
    rw [e1]
    refine h1.mono ?_
    simp only [List.length_append, List.length_cons, List.length_nil]; omega

theorem R_of_Q {e} (hq : Q e) {k r y m} (hk : 2 ≤ k) (hk' : k ≤ 11) (hr : H (k + 1) r)
    (hne : prec e ≠ k) (hm : MEv k e (ufl k e) r y m) :
    PEv k (pr k e ++ r) y (20 * (pr k e).length + (16 - k) + m) := by
  rw [pr_succ hne]
  have hu : ufl k e = uf (k + 1) e := by simp [ufl, hne]
  rw [hu] at hm
  refine PEv.mono (level_bin hk hk' (hq (k + 1) r (by omega) hr) hm) ?_
  omega

theorem RP_of_Q {e} (hq : Q e) {r y m} (hr : H 15 r)
    (hne : prec e ≠ 14) (hm : PoEv e true r y m) :
    PEv 14 (pr 14 e ++ r) y (20 * (pr 14 e).length + 2 + m) := by
  rw [show pr 14 e = pr 15 e from pr_succ hne]
  have h1 := hq 15 r (by omega) hr
  rw [uf_15] at h1
  refine PEv.mono (level14 h1 hm) ?_
  omega

theorem R_of_Q' {e} (hq : Q e) (h : prec e < 2 ∨ 11 < prec e) : R e := by
  intro k r y m hk hk' hr hm
  exact R_of_Q hq hk hk' hr (by omega) hm

theorem RP_of_Q' {e} (hq : Q e) (h : prec e ≠ 14) : RP e := by
  intro r y m hr hm
  exact RP_of_Q hq hr h hm

/-! ## The constructor cases -/

theorem Q_atom (s) : Q (.atom s) := by
  apply Q_of_body
  intro c r _ hc hr
  have h1 := descend_to hc (Nat.le_refl _) (prim_atom (s := s) (hr.mono hc)) hr
  simp only [body, prec]
  refine PEv.mono h1 ?_
  simp only [List.length_cons, List.length_nil]; omega

theorem Q_un {s a} (hs : isUnOp s = true) (qa : Q a) : Q (.un s a) := by
  apply Q_of_body
  intro c r hcp hc hr
  simp only [prec] at hcp
  have ha := qa 12 r (by omega) (H_12 hr hcp)
  have h1 := descend_to hcp (by omega) (step_un hs ha) hr
  simp only [body, paren_eq_pr, List.cons_append]
  refine PEv.mono h1 ?_
  simp only [List.length_cons]; omega

theorem Q_cast {t a} (qa : Q a) : Q (.cast t a) := by
  apply Q_of_body
  intro c r hcp hc hr
  simp only [prec] at hcp
  have ha := qa 12 r (by omega) (hr.mono hcp)
  have h1 := descend_to hcp (by omega) (step_cast (t := t) ha) hr
  simp only [body, paren_eq_pr, List.cons_append]
  refine PEv.mono h1 ?_
  simp only [List.length_cons]; omega

theorem RP_post {s a} (hs : isPostOp s = true) (rpa : RP a) : RP (.post s a) := by
  intro r y m _ hm
  have hk : opKind s = .post := by simpa [isPostOp] using hs
  have h1 := rpa (.op s :: r) y (m + 1)
    (by intro l hl; simp [contLevel, hk] at hl; omega) (post_step hs hm)
  have e1 : pr 14 (.post s a) ++ r = pr 14 a ++ .op s :: r := by
    rw [pr_of_le (by simp [prec])]; simp only [body, paren_eq_pr]; simp
  have e2 : (pr 14 (.post s a)).length = (pr 14 a).length + 1 := by
    rw [pr_of_le (by simp [prec])]; simp only [body, paren_eq_pr]; simp
  rw [e1, e2]
  refine PEv.mono h1 ?_
  omega

theorem Q_post {s a} (hs : isPostOp s = true) (rpa : RP a) : Q (.post s a) := by
  apply Q_of_body
  intro c r hcp hc hr
  simp only [prec] at hcp
  have h0 := RP_post hs rpa r _ 0 (hr.mono (by omega)) (post_stop (hr.mono hcp))
  rw [pr_of_le (by simp [prec])] at h0
  have h1 := descend_to hcp (by omega) h0 hr
  refine PEv.mono h1 ?_
  omega

theorem body_bin (s a b) : body (.bin s a b) =
    pr (prec (.bin s a b)) a ++ .op s :: pr (prec (.bin s a b) + 1) b := by
  simp only [body, paren_eq_pr]

theorem R_bin_own {s a b l} (hl : binLevel s = some l) (ra : R a) (qb : Q b) :
    ∀ r y m, H (l + 2 + 1) r → MEv (l + 2) (.bin s a b) false r y m →
      PEv (l + 2) (body (.bin s a b) ++ r) y (20 * (body (.bin s a b)).length + (16 - (l + 2)) + m) := by
  intro r y m hr hm
  have hl9 := binLevel_le hl
  have hk := opKind_of_binLevel hl
  have hp : prec (.bin s a b) = l + 2 := by simp [prec, hl]
  have hb := qb (l + 2 + 1) r (by omega) hr
  have hm' := many_step (u := ufl (l + 2) a) (k := l + 2) (by simpa using hl) hb hm
  have h1 := ra (l + 2) (.op s :: (pr (l + 2 + 1) b ++ r)) y _ (by omega) (by omega)
    (by intro l' hl'; simp [contLevel, hk] at hl'; omega) hm'
  rw [body_bin, hp]
  have e1 : pr (l + 2) a ++ .op s :: pr (l + 2 + 1) b ++ r
      = pr (l + 2) a ++ .op s :: (pr (l + 2 + 1) b ++ r) := by simp
  rw [e1]
  refine PEv.mono h1 ?_
  simp only [List.length_append, List.length_cons]; omega

theorem QR_bin {s a b l} (hl : binLevel s = some l) (ra : R a) (qb : Q b) :
    Q (.bin s a b) ∧ R (.bin s a b) := by
  have hl9 := binLevel_le hl
  have hp : prec (.bin s a b) = l + 2 := by simp [prec, hl]
  have own := R_bin_own hl ra qb
  have q : Q (.bin s a b) := by
    apply Q_of_body
    intro c r hcp hc hr
    rw [hp] at hcp
    have h0 := own r _ 0 (hr.mono (by omega)) (many_stop (by omega) (hr.mono hcp))
    have h1 := descend_to hcp (by omega) h0 hr
    have hu : decide (13 ≤ prec (.bin s a b)) = false := by rw [hp]; simp; omega
    rw [hu]
    refine PEv.mono h1 ?_
    omega
  refine ⟨q, ?_⟩
  intro k r y m hk hk' hr hm
  by_cases hkp : prec (.bin s a b) = k
  · have hk2 : k = l + 2 := by omega
    subst hk2
    rw [pr_of_le (by omega)]
    have hu : ufl (l + 2) (.bin s a b) = false := by simp [ufl, hkp]
    rw [hu] at hm
    exact own r y m hr hm
  · exact R_of_Q q hk hk' hr hkp hm

theorem contLevel_colon : contLevel (.op ":") = none := by decide
theorem contLevel_comma : contLevel (.op ",") = none := by decide
theorem contLevel_quest : contLevel (.op "?") = some 1 := by decide

theorem Q_tern {c a b} (qc : Q c) (qa : Q a) (qb : Q b) : Q (.tern c a b) := by
  apply Q_of_body
  intro c' r hcp _ hr
  simp only [prec] at hcp
  have h3 := qb 1 r (by omega) (hr.mono hcp)
  have h2 := qa 0 (.op ":" :: (pr 1 b ++ r)) (by omega)
    (by intro l hl; rw [contLevel_colon] at hl; cases hl)
  have h1 := qc 2 (.op "?" :: (pr 0 a ++ .op ":" :: (pr 1 b ++ r))) (by omega)
    (by intro l hl; rw [contLevel_quest] at hl; cases hl; omega)
  have h4 := descend_to hcp (by omega) (cond_step h1 h2 h3) hr
  have e1 : body (.tern c a b) ++ r
      = pr 2 c ++ .op "?" :: (pr 0 a ++ .op ":" :: (pr 1 b ++ r)) := by
    simp only [body, paren_eq_pr]; simp
  have e2 : (body (.tern c a b)).length
      = (pr 2 c).length + (pr 0 a).length + (pr 1 b).length + 2 := by
    simp only [body, paren_eq_pr]; simp; omega
  rw [e1, e2]
  refine PEv.mono h4 ?_
  omega

theorem Q_assign {s a b} (hs : isAssignOp s = true) (qa : Q a) (qb : Q b) :
    Q (.assign s a b) := by
  apply Q_of_body
  intro c' r hcp _ hr
  simp only [prec] at hcp
  have hk : opKind s = .assign := by simpa [isAssignOp] using hs
  have hH : ∀ c rest, 0 < c → H c (.op s :: rest) := by
    intro c rest hc l hl; simp [contLevel, hk] at hl; omega
  have h2 := qb 0 r (by omega) (hr.mono hcp)
  have h1 := qa 13 (.op s :: (pr 0 b ++ r)) (by omega) (hH _ _ (by omega))
  have hu : uf 13 a = true := by simp [uf]; omega
  rw [hu] at h1
  have h1' := descend_to (c := 1) (by omega) (by omega) h1 (hH _ _ (by omega))
  have h4 := asg_step h1' hs h2
  obtain rfl : c' = 0 := by omega
  have e1 : body (.assign s a b) ++ r = pr 13 a ++ .op s :: (pr 0 b ++ r) := by
    simp only [body, paren_eq_pr]; simp
  have e2 : (body (.assign s a b)).length = (pr 13 a).length + (pr 0 b).length + 1 := by
    simp only [body, paren_eq_pr]; simp; omega
  rw [e1, e2]
  refine PEv.mono h4 ?_
  omega

theorem AEv_args : ∀ (args : List CExpr) (r : List GTok), args ≠ [] → (∀ a ∈ args, Q a) →
    AEv (bodyArgs args ++ .rp :: r) (args, r) (20 * (bodyArgs args).length + 18)
  | [], _, h, _ => absurd rfl h
  | [a], r, _, hq => by
    have h1 := hq a (by simp) 0 (.rp :: r) (by omega) (by intro l hl; cases hl)
    rw [pr_of_le (Nat.zero_le _)] at h1
    simp only [bodyArgs]
    intro f hf
    exact args_one h1 f (by omega)
  | a :: b :: rest, r, _, hq => by
    have ih := AEv_args (b :: rest) r (by simp) (fun x hx => hq x (by simp [hx]))
    have h1 := hq a (by simp) 0 (.op "," :: (bodyArgs (b :: rest) ++ .rp :: r)) (by omega)
      (by intro l hl; rw [contLevel_comma] at hl; cases hl)
    rw [pr_of_le (Nat.zero_le _)] at h1
    have h2 := args_cons h1 ih
    have e1 : bodyArgs (a :: b :: rest) ++ .rp :: r
        = body a ++ .op "," :: (bodyArgs (b :: rest) ++ .rp :: r) := by
      simp only [bodyArgs]; simp
    have e2 : (bodyArgs (a :: b :: rest)).length
        = (body a).length + (bodyArgs (b :: rest)).length + 1 := by
      simp only [bodyArgs]; simp; omega
    rw [e1, e2]
    intro f hf
    exact h2 f (by omega)

theorem Q_call {f args} (hq : ∀ a ∈ args, Q a) : Q (.call f args) := by
  apply Q_of_body
  intro c r _ hc hr
  cases args with
  | nil =>
    have h1 := descend_to hc (Nat.le_refl _) (prim_call0 (s := f) (r := r)) hr
    simp only [body, bodyArgs, prec]
    refine PEv.mono h1 ?_
    simp; omega
  | cons a rest =>
    have h0 := AEv_args (a :: rest) r (by simp) hq
    have h1 := descend_to hc (Nat.le_refl _) (prim_call (s := f) h0) hr
    have e1 : body (.call f (a :: rest)) ++ r
        = .atom f :: .lp :: (bodyArgs (a :: rest) ++ .rp :: r) := by
      simp only [body]; simp
    have e2 : (body (.call f (a :: rest))).length = (bodyArgs (a :: rest)).length + 3 := by
      simp only [body]; simp
    rw [e1, e2]
    simp only [prec]
    refine PEv.mono h1 ?_
    omega

/-! ## Statement level

Statements, block items and item lists get their own "eventually succeeds" predicates.  The only
context condition of the statement level is the else binding: the text of a statement that ends in
an else-less `if` (`CStmt.openIf`) must not be followed by an `else` token (`NoElse`), because the
parser gives that token to the nearest `if`. -/

def SEv (ts : List GTok) (x : CStmt × List GTok) (n : Nat) : Prop :=
  ∀ f, n < f → pStmt f ts = some x
def IEv (ts : List GTok) (x : CStmt × List GTok) (n : Nat) : Prop :=
  ∀ f, n < f → pItem f ts = some x
def ItsEv (ts : List GTok) (x : List CStmt × List GTok) (n : Nat) : Prop :=
  ∀ f, n < f → pItems f ts = some x

theorem SEv.mono {ts x n n'} (h : SEv ts x n) (hn : n ≤ n') : SEv ts x n' :=
  fun f hf => h f (by omega)
theorem IEv.mono {ts x n n'} (h : IEv ts x n) (hn : n ≤ n') : IEv ts x n' :=
  fun f hf => h f (by omega)
theorem ItsEv.mono {ts x n n'} (h : ItsEv ts x n) (hn : n ≤ n') : ItsEv ts x n' :=
  fun f hf => h f (by omega)

/-- The rest does not start with `else`. -/
def NoElse (r : List GTok) : Prop := r.head? ≠ some (.op "else")

/-! ### Inversion: what cannot start an expression / a statement -/

theorem pExpr_nil : ∀ f k, pExpr f k [] = none := by
  intro f
  induction f with
  | zero => intro k; simp [pExpr]
  | succ f ih => intro k; simp [pExpr, ih]

/-- Punctuation and reserved words of the statement level. -/
def stmtWord (s : String) : Bool := s == ";" || s == "{" || s == "if" || s == "for"

theorem pStmt_badOp (f s r) (hu : isUnOp s = false) (hw : stmtWord s = false) :
    pStmt f (.op s :: r) = none := by
  cases f with
  | zero => simp [pStmt]
  | succ f =>
    simp [stmtWord] at hw
    simp [pStmt, hw, pExpr_badHead _ _ (.op s) r (by simp [badHead, hu]), exprStmtOf]

theorem pStmt_ty (f t r) : pStmt f (.ty t :: r) = none := by
  cases f <;> simp [pStmt, pExpr_ty, exprStmtOf]

theorem pStmt_nil (f) : pStmt f [] = none := by
  cases f <;> simp [pStmt, pExpr_nil, exprStmtOf]

theorem pItem_badOp (f s r) (hu : isUnOp s = false) (hw : stmtWord s = false) :
    pItem f (.op s :: r) = none := by
  cases f <;> simp [pItem, pStmt_badOp _ _ _ hu hw]

theorem pItem_nil (f) : pItem f [] = none := by
  cases f <;> simp [pItem, pStmt_nil]

/-! ### One-step lemmas, one per statement alternative -/

theorem prim_stmtExpr {ts items its e r n} (h : ItsEv ts (items, .rp :: r) n)
    (hu : unsnocExpr items = some (its, e)) :
    PEv 15 (.lp :: .op "{" :: ts) (.stmtExpr its e, true, r) (n + 1) := by
  intro f hf
  obtain ⟨f, rfl⟩ : ∃ g, f = g + 1 := ⟨f - 1, by omega⟩
  simp [pExpr, h f (by omega), hu]

theorem stmt_empty {r} : SEv (.op ";" :: r) (.empty, r) 0 := by
  intro f hf
  obtain ⟨f, rfl⟩ : ∃ g, f = g + 1 := ⟨f - 1, by omega⟩
  simp [pStmt]

theorem stmt_block {ts items r n} (h : ItsEv ts (items, r) n) :
    SEv (.op "{" :: ts) (.block items, r) (n + 1) := by
  intro f hf
  obtain ⟨f, rfl⟩ : ∃ g, f = g + 1 := ⟨f - 1, by omega⟩
  simp [pStmt, h f (by omega)]

theorem stmt_expr {ts e u r n} (h : PEv 0 ts (e, u, .op ";" :: r) n) :
    SEv ts (.expr e, r) (n + 1) := by
  intro f hf
  obtain ⟨f, rfl⟩ : ∃ g, f = g + 1 := ⟨f - 1, by omega⟩
  have h1 := h f (by omega)
  cases ts with
  | nil => simp [pStmt, h1, exprStmtOf]
  | cons t ts =>
    cases t with
    | op s =>
      have hu : isUnOp s = true := by
        cases hs : isUnOp s
        · rw [pExpr_badHead _ _ (.op s) ts (by simp [badHead, hs])] at h1; cases h1
        · rfl
      have h1' : s ≠ ";" := by intro e; subst e; revert hu; decide
      have h2 : s ≠ "{" := by intro e; subst e; revert hu; decide
      have h3 : s ≠ "if" := by intro e; subst e; revert hu; decide
      have h4 : s ≠ "for" := by intro e; subst e; revert hu; decide
      simp [pStmt, h1, h1', h2, h3, h4, exprStmtOf]
    | _ => simp [pStmt, h1, exprStmtOf]

theorem stmt_if {ts c u r2 t r3 n m} (hc : PEv 0 ts (c, u, .rp :: r2) n)
    (ht : SEv r2 (t, r3) m) (hr : NoElse r3) :
    SEv (.op "if" :: .lp :: ts) (.if_ c t, r3) (max n m + 1) := by
  intro f hf
  obtain ⟨f, rfl⟩ : ∃ g, f = g + 1 := ⟨f - 1, by omega⟩
  unfold NoElse at hr
  simp [pStmt, hc f (by omega), ht f (by omega), hr]

theorem stmt_ifElse {ts c u r2 t r3 e r4 n m k} (hc : PEv 0 ts (c, u, .rp :: r2) n)
    (ht : SEv r2 (t, .op "else" :: r3) m) (he : SEv r3 (e, r4) k) :
    SEv (.op "if" :: .lp :: ts) (.ifElse c t e, r4) (max n (max m k) + 1) := by
  intro f hf
  obtain ⟨f, rfl⟩ : ∃ g, f = g + 1 := ⟨f - 1, by omega⟩
  simp [pStmt, hc f (by omega), ht f (by omega), he f (by omega)]

theorem stmt_for {ts i ui r2 c uc r3 s us r4 b r5 n1 n2 n3 n4}
    (hi : PEv 0 ts (i, ui, .op ";" :: r2) n1) (hc : PEv 0 r2 (c, uc, .op ";" :: r3) n2)
    (hs : PEv 0 r3 (s, us, .rp :: r4) n3) (hb : SEv r4 (b, r5) n4) :
    SEv (.op "for" :: .lp :: ts) (.for_ i c s b, r5) (max (max n1 n2) (max n3 n4) + 1) := by
  intro f hf
  obtain ⟨f, rfl⟩ : ∃ g, f = g + 1 := ⟨f - 1, by omega⟩
  simp [pStmt, hi f (by omega), hc f (by omega), hs f (by omega), hb f (by omega)]

theorem item_decl {t x r} : IEv (.ty t :: .atom x :: .op ";" :: r) (.decl t x, r) 0 := by
  intro f hf
  obtain ⟨f, rfl⟩ : ∃ g, f = g + 1 := ⟨f - 1, by omega⟩
  simp [pItem]

theorem item_declInit {t x ts e u r n} (h : PEv 0 ts (e, u, .op ";" :: r) n) :
    IEv (.ty t :: .atom x :: .op "=" :: ts) (.declInit t x e, r) (n + 1) := by
  intro f hf
  obtain ⟨f, rfl⟩ : ∃ g, f = g + 1 := ⟨f - 1, by omega⟩
  simp [pItem, h f (by omega)]

theorem item_stmt {ts x n} (h : SEv ts x n) : IEv ts x (n + 1) := by
  intro f hf
  obtain ⟨f, rfl⟩ : ∃ g, f = g + 1 := ⟨f - 1, by omega⟩
  have h1 := h f (by omega)
  cases ts with
  | nil => simp [pItem, h1]
  | cons t ts =>
    cases t with
    | ty t => rw [pStmt_ty] at h1; cases h1
    | _ => simp [pItem, h1]

theorem items_nil {r} : ItsEv (.op "}" :: r) ([], r) 0 := by
  intro f hf
  obtain ⟨f, rfl⟩ : ∃ g, f = g + 1 := ⟨f - 1, by omega⟩
  simp [pItems]

theorem items_cons {ts s r ss r' n m} (h : IEv ts (s, r) n) (h2 : ItsEv r (ss, r') m) :
    ItsEv ts (s :: ss, r') (max n m + 1) := by
  intro f hf
  obtain ⟨f, rfl⟩ : ∃ g, f = g + 1 := ⟨f - 1, by omega⟩
  have h1 := h f (by omega)
  have hb : ts.head? ≠ some (.op "}") := by
    intro e
    cases ts with
    | nil => cases e
    | cons t ts =>
      simp at e; subst e
      rw [pItem_badOp _ _ _ (by decide) (by decide)] at h1; cases h1
  simp [pItems, hb, h1, h2 f (by omega)]

theorem unsnocExpr_append (items : List CStmt) (e : CExpr) :
    unsnocExpr (items ++ [.expr e]) = some (items, e) := by
  induction items with
  | nil => simp [unsnocExpr]
  | cons s rest ih =>
    cases rest with
    | nil => cases s <;> simp [unsnocExpr]
    | cons s' rest' =>
      simp only [List.cons_append] at ih ⊢
      simp [unsnocExpr, ih]

theorem prItems_append (a b : List CStmt) : prItems (a ++ b) = prItems a ++ prItems b := by
  induction a with
  | nil => simp [prItems]
  | cons s rest ih => simp [prItems, ih]

/-! ### The statement predicates of the main induction -/

/-- Parsing the text of `s` in statement position gives `s` back, whatever follows — except that
    an `else` must not follow a statement ending in an else-less `if`. -/
def QS (s : CStmt) : Prop :=
  ∀ r, (s.openIf = true → NoElse r) → SEv (prS s ++ r) (s, r) (20 * (prS s).length)
/-- The same in block-item position. -/
def QI (s : CStmt) : Prop :=
  ∀ r, (s.openIf = true → NoElse r) → IEv (prS s ++ r) (s, r) (20 * (prS s).length + 1)

theorem QI_of_QS {s} (h : QS s) : QI s := fun r hr => item_stmt (h r hr)

/-- The text of an item is not empty and does not start with `else` (otherwise the parser, which
    succeeds on it, would fail). -/
theorem QI_head {s} (h : QI s) : ∃ t rest, prS s = t :: rest ∧ t ≠ .op "else" := by
  have h1 := h [] (fun _ => by simp [NoElse]) (20 * (prS s).length + 2) (by omega)
  rw [List.append_nil] at h1
  cases hp : prS s with
  | nil => rw [hp, pItem_nil] at h1; cases h1
  | cons t rest =>
    refine ⟨t, rest, rfl, ?_⟩
    intro e; subst e
    rw [hp, pItem_badOp _ _ _ (by decide) (by decide)] at h1; cases h1

theorem QI_noElse {s} (h : QI s) (r) : NoElse (prS s ++ r) := by
  obtain ⟨t, rest, hp, ht⟩ := QI_head h
  simp [NoElse, hp, ht]

theorem QI_len {s} (h : QI s) : 1 ≤ (prS s).length := by
  obtain ⟨t, rest, hp, _⟩ := QI_head h
  simp [hp]

theorem items_all : ∀ (items : List CStmt) (r : List GTok), (∀ s ∈ items, QI s) →
    ItsEv (prItems items ++ .op "}" :: r) (items, r) (20 * (prItems items).length + 2)
  | [], r, _ => by
    simp only [prItems, List.nil_append]
    exact items_nil.mono (by omega)
  | s :: rest, r, h => by
    have ih := items_all rest r (fun x hx => h x (by simp [hx]))
    have hne : NoElse (prItems rest ++ .op "}" :: r) := by
      cases rest with
      | nil => simp [NoElse, prItems]
      | cons s' rest' =>
        simp only [prItems, List.append_assoc]
        exact QI_noElse (h s' (by simp)) _
    have h1 := h s (by simp) (prItems rest ++ .op "}" :: r) (fun _ => hne)
    have hl := QI_len (h s (by simp))
    have h2 := items_cons h1 ih
    have e1 : prItems (s :: rest) ++ .op "}" :: r = prS s ++ (prItems rest ++ .op "}" :: r) := by
      simp [prItems]
    rw [e1]
    refine h2.mono ?_
    simp only [prItems, List.length_append]; omega

theorem pr_zero (e) : pr 0 e = body e := pr_of_le (Nat.zero_le _)

theorem contLevel_semi : contLevel (.op ";") = none := by decide

theorem H_semi (c r) : H c (.op ";" :: r) := by
  intro l hl; rw [contLevel_semi] at hl; cases hl
theorem H_rp (c r) : H c (.rp :: r) := by
  intro l hl; cases hl

/-! ### The constructor cases of the statement level -/

theorem QS_expr {e} (q : Q e) : QS (.expr e) := by
  intro r _
  have h1 := stmt_expr (q 0 (.op ";" :: r) (by omega) (H_semi _ _))
  rw [pr_zero] at h1
  have e1 : prS (.expr e) ++ r = body e ++ .op ";" :: r := by simp [prS]
  rw [e1]
  refine h1.mono ?_
  simp [prS]; omega

theorem QS_empty : QS .empty := by
  intro r _
  simp only [prS, List.cons_append, List.nil_append]
  exact stmt_empty.mono (by omega)

theorem QS_block {items} (h : ∀ s ∈ items, QI s) : QS (.block items) := by
  intro r _
  have h1 := stmt_block (items_all items r h)
  have e1 : prS (.block items) ++ r = .op "{" :: (prItems items ++ .op "}" :: r) := by simp [prS]
  rw [e1]
  refine h1.mono ?_
  simp [prS]; omega

theorem QS_if {c t} (qc : Q c) (qt : QS t) : QS (.if_ c t) := by
  intro r hr
  have hr' : NoElse r := hr (by simp [CStmt.openIf])
  have h1 := qc 0 (.rp :: (prS t ++ r)) (by omega) (H_rp _ _)
  rw [pr_zero] at h1
  have h2 := qt r (fun _ => hr')
  have h3 := stmt_if h1 h2 hr'
  have e1 : prS (.if_ c t) ++ r = .op "if" :: .lp :: (body c ++ .rp :: (prS t ++ r)) := by
    simp [prS]
  rw [e1]
  refine h3.mono ?_
  simp [prS]; omega

theorem QS_ifElse {c t e} (qc : Q c) (qt : QS t) (qe : QS e) (hcl : t.openIf = false) :
    QS (.ifElse c t e) := by
  intro r hr
  have hr' : e.openIf = true → NoElse r := fun h => hr (by simpa [CStmt.openIf] using h)
  have h3 := qe r hr'
  have h2 := qt (.op "else" :: (prS e ++ r)) (fun h => by rw [hcl] at h; cases h)
  have h1 := qc 0 (.rp :: (prS t ++ .op "else" :: (prS e ++ r))) (by omega) (H_rp _ _)
  rw [pr_zero] at h1
  have h4 := stmt_ifElse h1 h2 h3
  have e1 : prS (.ifElse c t e) ++ r
      = .op "if" :: .lp :: (body c ++ .rp :: (prS t ++ .op "else" :: (prS e ++ r))) := by
    simp [prS, hcl]
  rw [e1]
  refine h4.mono ?_
  simp [prS, hcl]; omega

theorem QS_for {i c s b} (qi : Q i) (qc : Q c) (qs : Q s) (qb : QS b) : QS (.for_ i c s b) := by
  intro r hr
  have h4 := qb r (fun h => hr (by simpa [CStmt.openIf] using h))
  have h3 := qs 0 (.rp :: (prS b ++ r)) (by omega) (H_rp _ _)
  have h2 := qc 0 (.op ";" :: (body s ++ .rp :: (prS b ++ r))) (by omega) (H_semi _ _)
  have h1 := qi 0 (.op ";" :: (body c ++ .op ";" :: (body s ++ .rp :: (prS b ++ r)))) (by omega)
    (H_semi _ _)
  rw [pr_zero] at h1 h2 h3
  have h5 := stmt_for h1 h2 h3 h4
  have e1 : prS (.for_ i c s b) ++ r
      = .op "for" :: .lp :: (body i ++ .op ";" :: (body c ++ .op ";" :: (body s ++ .rp ::
          (prS b ++ r)))) := by
    simp [prS]
  rw [e1]
  refine h5.mono ?_
  simp [prS]; omega

theorem QI_decl (t x) : QI (.decl t x) := by
  intro r _
  simp only [prS, List.cons_append, List.nil_append]
  exact item_decl.mono (by omega)

theorem QI_declInit {t x e} (q : Q e) : QI (.declInit t x e) := by
  intro r _
  have h1 := item_declInit (t := t) (x := x) (q 0 (.op ";" :: r) (by omega) (H_semi _ _))
  rw [pr_zero] at h1
  have e1 : prS (.declInit t x e) ++ r = .ty t :: .atom x :: .op "=" :: (body e ++ .op ";" :: r) := by
    simp [prS]
  rw [e1]
  refine h1.mono ?_
  simp [prS]; omega

/-- The statement-expression `({ items e; })` as a primary expression. -/
theorem Q_stmtExpr {items e} (h : ∀ s ∈ items, QI s) (q : Q e) : Q (.stmtExpr items e) := by
  apply Q_of_body
  intro c r _ hc hr
  have hall : ∀ s ∈ items ++ [.expr e], QI s := by
    intro s hs
    rcases List.mem_append.mp hs with h1 | h1
    · exact h s h1
    · obtain rfl : s = .expr e := by simpa using h1
      exact QI_of_QS (QS_expr q)
  have h0 := items_all (items ++ [.expr e]) (.rp :: r) hall
  have h1 := prim_stmtExpr h0 (unsnocExpr_append items e)
  have h2 := descend_to hc (Nat.le_refl _) h1 hr
  have e1 : body (.stmtExpr items e) ++ r
      = .lp :: .op "{" :: (prItems (items ++ [.expr e]) ++ .op "}" :: .rp :: r) := by
    simp [body, prItems_append, prItems, prS]
  have e2 : (body (.stmtExpr items e)).length = (prItems (items ++ [.expr e])).length + 4 := by
    simp [body, prItems_append, prItems, prS]; omega
  rw [e1, e2]
  simp only [prec]
  refine PEv.mono h2 ?_
  omega

/-! ## Main induction -/

theorem WF_call {f args} (h : WF (.call f args) = true) : ∀ a ∈ args, WF a = true := by
  have h' : WFs args = true := by simpa [WF] using h
  clear h
  induction args with
  | nil => intro a ha; cases ha
  | cons x xs ih =>
    simp [WFs] at h'
    intro a ha
    cases ha with
    | head => exact h'.1
    | tail _ hm => exact ih h'.2 a hm

theorem WF_items {items} (h : IWFs items = true) : ∀ s ∈ items, SWFp true s = true := by
  induction items with
  | nil => intro a ha; cases ha
  | cons x xs ih =>
    simp [IWFs] at h
    intro a ha
    cases ha with
    | head => exact h.1
    | tail _ hm => exact ih h.2 a hm

/-- Statement part of the induction: statement position and block-item position. -/
def PSt (s : CStmt) : Prop := (SWFp false s = true → QS s) ∧ (SWFp true s = true → QI s)

theorem PSt_of {s} (h : ∀ b, SWFp b s = true → QS s) : PSt s :=
  ⟨h false, fun hw => QI_of_QS (h true hw)⟩

theorem main : (∀ e, WF e = true → Q e ∧ R e ∧ RP e) ∧ (∀ s, PSt s) := by
  apply CExpr.ind2 (P := fun e => WF e = true → Q e ∧ R e ∧ RP e) (S := PSt)
  · intro s _
    have q := Q_atom s
    exact ⟨q, R_of_Q' q (by simp [prec]), RP_of_Q' q (by simp [prec])⟩
  · intro f args ih h
    have q : Q (.call f args) := Q_call (fun a ha => (ih a ha (WF_call h a ha)).1)
    exact ⟨q, R_of_Q' q (by simp [prec]), RP_of_Q' q (by simp [prec])⟩
  · intro o a ih h
    simp [WF] at h
    have rp := RP_post h.1 (ih h.2).2.2
    have q := Q_post h.1 (ih h.2).2.2
    exact ⟨q, R_of_Q' q (by simp [prec]), rp⟩
  · intro o a ih h
    simp [WF] at h
    have q := Q_un h.1 (ih h.2).1
    exact ⟨q, R_of_Q' q (by simp [prec]), RP_of_Q' q (by simp [prec])⟩
  · intro t a ih h
    simp [WF] at h
    have q := Q_cast (t := t) (ih h).1
    exact ⟨q, R_of_Q' q (by simp [prec]), RP_of_Q' q (by simp [prec])⟩
  · intro o a b iha ihb h
    simp [WF] at h
    obtain ⟨l, hl⟩ := Option.isSome_iff_exists.mp h.1.1
    have qr := QR_bin (a := a) (b := b) hl (iha h.1.2).2.1 (ihb h.2).1
    have := binLevel_le hl
    exact ⟨qr.1, qr.2, RP_of_Q' qr.1 (by simp [prec, hl]; omega)⟩
  · intro c a b ihc iha ihb h
    simp [WF] at h
    have q := Q_tern (ihc h.1.1).1 (iha h.1.2).1 (ihb h.2).1
    exact ⟨q, R_of_Q' q (by simp [prec]), RP_of_Q' q (by simp [prec])⟩
  · intro o a b iha ihb h
    simp [WF] at h
    have q := Q_assign h.1.1 (iha h.1.2).1 (ihb h.2).1
    exact ⟨q, R_of_Q' q (by simp [prec]), RP_of_Q' q (by simp [prec])⟩
  · intro items e ihs ihe h
    simp [WF] at h
    have q := Q_stmtExpr (fun s hs => (ihs s hs).2 (WF_items h.1 s hs)) (ihe h.2).1
    exact ⟨q, R_of_Q' q (by simp [prec]), RP_of_Q' q (by simp [prec])⟩
  · intro e ih
    exact PSt_of (fun b h => QS_expr (ih (by simpa [SWFp] using h)).1)
  · exact PSt_of (fun _ _ => QS_empty)
  · intro items ih
    exact PSt_of (fun b h =>
      QS_block (fun s hs => (ih s hs).2 (WF_items (by simpa [SWFp] using h) s hs)))
  · intro c t ihc iht
    refine PSt_of (fun b h => ?_)
    simp [SWFp] at h
    exact QS_if (ihc h.1).1 (iht.1 h.2)
  · intro c t e ihc iht ihe
    refine PSt_of (fun b h => ?_)
    simp [SWFp] at h
    exact QS_ifElse (ihc h.1.1.1).1 (iht.1 h.1.1.2) (ihe.1 h.2) h.1.2
  · intro i c s b ihi ihc ihs ihb
    refine PSt_of (fun x h => ?_)
    simp [SWFp] at h
    exact QS_for (ihi h.1.1.1).1 (ihc h.1.1.2).1 (ihs h.1.2).1 (ihb.1 h.2)
  · intro t x
    exact ⟨fun h => by simp [SWFp] at h, fun _ => QI_decl t x⟩
  · intro t x e ih
    refine ⟨fun h => by simp [SWFp] at h, fun h => ?_⟩
    simp [SWFp] at h
    exact QI_declInit (ih h).1

/-- **Round trip**: parsing the minimal-parenthesis print of any well-formed tree gives the tree
    back (unbounded depth, all constructors including calls). -/
theorem refParse_print (e : CExpr) (h : WF e = true) : refParseAll (printE e) = some e := by
  have q := (main.1 e h).1 0 [] (by omega) trivial
  simp only [List.append_nil] at q
  have h1 := q (fuelFor (pr 0 e)) (by unfold fuelFor; omega)
  unfold refParseAll refParse printE
  rw [h1]

/-- The printer is injective on well-formed trees. -/
theorem print_injective (a b : CExpr) (ha : WF a = true) (hb : WF b = true)
    (h : printE a = printE b) : a = b := by
  have h1 := refParse_print a ha
  rw [h, refParse_print b hb] at h1
  exact (Option.some.inj h1).symm

/-! ## Non-vacuity of the hypotheses of the two main theorems -/

/-- A well-formed tree using every constructor (needs parentheses in three places). -/
def sampleTree : CExpr :=
  .assign "+=" (.atom "x")
    (.tern (.bin "&&" (.bin "&" (.atom "a") (.atom "b")) (.un "!" (.atom "c")))
      (.call "f" [.bin "-" (.atom "p") (.bin "-" (.atom "q") (.atom "r")),
                  .cast "int" (.post "++" (.atom "i"))])
      (.bin "*" (.bin "+" (.atom "u") (.atom "v")) (.un "-" (.assign "=" (.atom "w") (.atom "z")))))

example : WF sampleTree = true := by decide
example : refParseAll (printE sampleTree) = some sampleTree := refParse_print _ (by decide)
example : WF (.bin "-" (.atom "a") (.atom "b")) = true ∧ WF (.bin "-" (.atom "a") (.atom "c")) = true
    ∧ printE (.bin "-" (.atom "a") (.atom "b")) ≠ printE (.bin "-" (.atom "a") (.atom "c")) := by
  decide

/-! ## Precedence / associativity facts -/

section facts
local notation "A" => GTok.atom
local notation "O" => GTok.op

-- `a - b - c` is `(a - b) - c`
example : refParseAll [A "a", O "-", A "b", O "-", A "c"]
    = some (.bin "-" (.bin "-" (.atom "a") (.atom "b")) (.atom "c")) := by decide
-- `a = b = c` is `a = (b = c)`
example : refParseAll [A "a", O "=", A "b", O "=", A "c"]
    = some (.assign "=" (.atom "a") (.assign "=" (.atom "b") (.atom "c"))) := by decide
-- `a ? b : c ? d : e` is `a ? b : (c ? d : e)`
example : refParseAll [A "a", O "?", A "b", O ":", A "c", O "?", A "d", O ":", A "e"]
    = some (.tern (.atom "a") (.atom "b") (.tern (.atom "c") (.atom "d") (.atom "e"))) := by decide
-- `-a * b` is `(-a) * b`
example : refParseAll [O "-", A "a", O "*", A "b"]
    = some (.bin "*" (.un "-" (.atom "a")) (.atom "b")) := by decide
-- `(T)a + b` is `((T)a) + b`
example : refParseAll [.lp, .ty "T", .rp, A "a", O "+", A "b"]
    = some (.bin "+" (.cast "T" (.atom "a")) (.atom "b")) := by decide
-- `a & b && c` is `(a & b) && c`
example : refParseAll [A "a", O "&", A "b", O "&&", A "c"]
    = some (.bin "&&" (.bin "&" (.atom "a") (.atom "b")) (.atom "c")) := by decide
-- `!a == b` is `(!a) == b`
example : refParseAll [O "!", A "a", O "==", A "b"]
    = some (.bin "==" (.un "!" (.atom "a")) (.atom "b")) := by decide
-- `a + b = c` is rejected (left side of an assignment must be a `unary_expr`) …
example : refParseAll [A "a", O "+", A "b", O "=", A "c"] = none := by decide
-- … but `(a + b) = c` is syntactically accepted, as in the grammar
example : refParseAll [.lp, A "a", O "+", A "b", .rp, O "=", A "c"]
    = some (.assign "=" (.bin "+" (.atom "a") (.atom "b")) (.atom "c")) := by decide
-- `a - (b - c)` keeps its parentheses when printed, `(a - b) - c` loses them
example : printE (.bin "-" (.atom "a") (.bin "-" (.atom "b") (.atom "c")))
    = [A "a", O "-", .lp, A "b", O "-", A "c", .rp] := by decide
example : printE (.bin "-" (.bin "-" (.atom "a") (.atom "b")) (.atom "c"))
    = [A "a", O "-", A "b", O "-", A "c"] := by decide

end facts

/-! ### The same facts for arbitrary well-formed operands

`pr c x` is the operand `x` printed for a context of level `c`, i.e. parenthesised iff it binds
looser than `c`; for an atom it is just `[atom s]`. -/

theorem pr_assign (s a b) : pr 0 (.assign s a b) = pr 13 a ++ .op s :: pr 0 b := by
  rw [pr_zero]; simp only [body, paren_eq_pr]
theorem pr_tern {k} (c a b) (h : k ≤ 1) :
    pr k (.tern c a b) = pr 2 c ++ .op "?" :: pr 0 a ++ .op ":" :: pr 1 b := by
  rw [pr_of_le (by simpa [prec] using h)]; simp only [body, paren_eq_pr]
theorem pr_un {k} (s a) (h : k ≤ 13) : pr k (.un s a) = .op s :: pr 12 a := by
  rw [pr_of_le (by simpa [prec] using h)]; simp only [body, paren_eq_pr]
theorem pr_cast {k} (t a) (h : k ≤ 12) : pr k (.cast t a) = .lp :: .ty t :: .rp :: pr 12 a := by
  rw [pr_of_le (by simpa [prec] using h)]; simp only [body, paren_eq_pr]
theorem pr_bin {k s l} (a b) (hl : binLevel s = some l) (h : k ≤ l + 2) :
    pr k (.bin s a b) = pr (l + 2) a ++ .op s :: pr (l + 3) b := by
  have hp : prec (.bin s a b) = l + 2 := by simp [prec, hl]
  rw [pr_of_le (by omega), body_bin, hp]

theorem binLevel_vals : binLevel "-" = some 8 ∧ binLevel "+" = some 8 ∧ binLevel "*" = some 9 ∧
    binLevel "&" = some 4 ∧ binLevel "&&" = some 1 ∧ binLevel "==" = some 5 := by decide

/-- `a - b - c` parses as `(a - b) - c`. -/
theorem sub_left_assoc (a b c : CExpr) (ha : WF a = true) (hb : WF b = true) (hc : WF c = true) :
    refParseAll (pr 10 a ++ .op "-" :: pr 11 b ++ .op "-" :: pr 11 c)
      = some (.bin "-" (.bin "-" a b) c) := by
  have h := refParse_print (.bin "-" (.bin "-" a b) c) (by simp [WF, ha, hb, hc, binLevel_vals])
  have hm : binLevel "-" = some 8 := by decide
  rw [printE, pr_bin _ _ hm (by omega), pr_bin _ _ hm (by omega)] at h
  simpa using h

/-- `a = b = c` parses as `a = (b = c)`. -/
theorem assign_right_assoc (a b c : CExpr) (ha : WF a = true) (hb : WF b = true)
    (hc : WF c = true) :
    refParseAll (pr 13 a ++ .op "=" :: pr 13 b ++ .op "=" :: pr 0 c)
      = some (.assign "=" a (.assign "=" b c)) := by
  have h := refParse_print (.assign "=" a (.assign "=" b c))
    (by simp [WF, ha, hb, hc]; decide)
  rw [printE, pr_assign, pr_assign] at h
  simpa using h

/-- `a ? b : c ? d : e` parses as `a ? b : (c ? d : e)`. -/
theorem tern_right_assoc (a b c d e : CExpr) (ha : WF a = true) (hb : WF b = true)
    (hc : WF c = true) (hd : WF d = true) (he : WF e = true) :
    refParseAll (pr 2 a ++ .op "?" :: pr 0 b ++ .op ":" :: pr 2 c ++ .op "?" :: pr 0 d ++
        .op ":" :: pr 1 e)
      = some (.tern a b (.tern c d e)) := by
  have h := refParse_print (.tern a b (.tern c d e)) (by simp [WF, ha, hb, hc, hd, he])
  rw [printE, pr_tern _ _ _ (by omega), pr_tern _ _ _ (by omega)] at h
  simpa using h

/-- `-a * b` parses as `(-a) * b`. -/
theorem neg_mul (a b : CExpr) (ha : WF a = true) (hb : WF b = true) :
    refParseAll (.op "-" :: pr 12 a ++ .op "*" :: pr 12 b)
      = some (.bin "*" (.un "-" a) b) := by
  have h := refParse_print (.bin "*" (.un "-" a) b)
    (by simp [WF, ha, hb, binLevel_vals]; decide)
  have hm : binLevel "*" = some 9 := by decide
  rw [printE, pr_bin _ _ hm (by omega), pr_un _ _ (by omega)] at h
  simpa using h

/-- `(T)a + b` parses as `((T)a) + b`. -/
theorem cast_add (t : String) (a b : CExpr) (ha : WF a = true) (hb : WF b = true) :
    refParseAll (.lp :: .ty t :: .rp :: pr 12 a ++ .op "+" :: pr 11 b)
      = some (.bin "+" (.cast t a) b) := by
  have h := refParse_print (.bin "+" (.cast t a) b) (by simp [WF, ha, hb, binLevel_vals])
  have hm : binLevel "+" = some 8 := by decide
  rw [printE, pr_bin _ _ hm (by omega), pr_cast _ _ (by omega)] at h
  simpa using h

/-- `a & b && c` parses as `(a & b) && c`. -/
theorem and_land (a b c : CExpr) (ha : WF a = true) (hb : WF b = true) (hc : WF c = true) :
    refParseAll (pr 6 a ++ .op "&" :: pr 7 b ++ .op "&&" :: pr 4 c)
      = some (.bin "&&" (.bin "&" a b) c) := by
  have h := refParse_print (.bin "&&" (.bin "&" a b) c) (by simp [WF, ha, hb, hc, binLevel_vals])
  have h1 : binLevel "&&" = some 1 := by decide
  have h4 : binLevel "&" = some 4 := by decide
  rw [printE, pr_bin _ _ h1 (by omega), pr_bin _ _ h4 (by omega)] at h
  simpa using h

/-- `!a == b` parses as `(!a) == b`. -/
theorem not_eq (a b : CExpr) (ha : WF a = true) (hb : WF b = true) :
    refParseAll (.op "!" :: pr 12 a ++ .op "==" :: pr 8 b)
      = some (.bin "==" (.un "!" a) b) := by
  have h := refParse_print (.bin "==" (.un "!" a) b)
    (by simp [WF, ha, hb, binLevel_vals]; decide)
  have hm : binLevel "==" = some 5 := by decide
  rw [printE, pr_bin _ _ hm (by omega), pr_un _ _ (by omega)] at h
  simpa using h

-- non-vacuity of the operand hypotheses, and what `pr` does to operands
example : WF (.atom "a") = true := rfl
example : pr 10 (.atom "a") = [.atom "a"] := by decide
example : pr 11 (.bin "-" (.atom "b") (.atom "c")) = [.lp, .atom "b", .op "-", .atom "c", .rp] := by
  decide
example : refParseAll [.atom "a", .op "-", .lp, .atom "b", .op "-", .atom "c", .rp, .op "-", .atom "d"]
    = some (.bin "-" (.bin "-" (.atom "a") (.bin "-" (.atom "b") (.atom "c"))) (.atom "d")) :=
  sub_left_assoc (.atom "a") (.bin "-" (.atom "b") (.atom "c")) (.atom "d") rfl (by decide) rfl

end Rzil.Grammar
