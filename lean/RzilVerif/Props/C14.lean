import RzilVerif.Model.Session
import RzilVerif.Props.C13
/-!
  # C14 — the compiler instance as a state machine: what a call produces does not depend on earlier calls

  1. table facts about `reset()` and where the entry points call it (by `decide` on the REGENERATED `Gen` constants);
  2. `tReset_clean`; 3. `insn_entry_clean`, `insn_history_free`, `insn_exit_clean`;
  4. `reachable_WF`, `clean_after_*`, `history_free_partial` / `cstmt_history_free_partial`;
  6. `history_free_fixed` (repaired machine, all histories);
  5. (last, `section Repaired`) facts about the regenerated tables after the two repairs in /repo, and the full-strength statement `history_free_full`.
  Well-formedness (`TState.WF`): the model's `Flags.on` is a list of arbitrary strings; the theorems are about states
  whose `on` holds only settable attributes — which includes every reachable state (`reachable_WF`).
-/
namespace Rzil

/-! ## 1. table facts -/

theorem reset_calls_spec :
    "ext.reset_flags" ∈ Gen.resetCalls ∧ "il_ops_holder.hybrid_effect_dict.clear" ∈ Gen.resetCalls ∧
    "imm_set_effect_list.clear" ∈ Gen.resetCalls ∧ "il_ops_holder.clear" ∈ Gen.resetCalls := by decide

theorem holder_clear_spec :
    ∀ a ∈ ["op_count", "read_ops", "exec_ops", "write_ops", "let_ops"], a ∈ Gen.holderClearCleared := by decide

/-- the temporary counter is not reset (harmless: outputs are compared modulo consistent renaming) -/
theorem hyb_count_not_reset : "hybrid_op_count" ∉ Gen.holderClearCleared := by decide

theorem insn_resets : Gen.insnResetBeforeEachPart = true ∧ Gen.insnResetInFinally = true := by decide

theorem cstmt_reset_after_success : (Gen.cStmtResetAfterSuccess || Gen.cStmtResetInFinally) = true := by decide

theorem sub_fresh : Gen.subRoutineFreshTransformer = true := by decide

/-- attributes that are configuration (set at construction / by explicit update calls, not by compiling) -/
def configAttrs : List String :=
  ["code_format", "inlined_pure_classes", "arch", "sub_routines", "macros", "return_type", "parameters",
   "il_ops_holder", "ext", "spec_ids", "transformer", "missing_fcns"]

/-- everything `RZILTransformer.reset()` clears: `ILOpsHolder.clear`, the two explicit `.clear()` calls, `reset_flags` -/
def clearedByReset : List String :=
  (if Gen.resetCalls.contains "il_ops_holder.clear" then Gen.holderClearCleared else []) ++
  (if Gen.resetCalls.contains "il_ops_holder.hybrid_effect_dict.clear" then ["hybrid_effect_dict"] else []) ++
  (if Gen.resetCalls.contains "imm_set_effect_list.clear" then ["imm_set_effect_list"] else []) ++
  (if Gen.resetCalls.contains "ext.reset_flags" then Gen.resetFlagsCleared else [])

theorem clearedByReset_spec :
    ∀ a ∈ ["op_count", "read_ops", "exec_ops", "write_ops", "let_ops", "hybrid_effect_dict", "imm_set_effect_list",
           "is_conditional", "reads_mem", "writes_mem", "writes_predicate", "uses_new", "branches"],
      a ∈ clearedByReset := by decide

/-- Every attribute of the transformer, its holder and its extension is cleared by `reset()`, or configuration, or the
    renaming-equivariant counter, or the known leak. A NEW mutable field without reset breaks this theorem. -/
theorem state_fields_covered :
    ∀ a ∈ Gen.transformerInitAttrs ++ Gen.holderInitAttrs ++ Gen.extClassAttrs.map (·.1) ++ Gen.extInitAttrs,
      a ∈ clearedByReset ∨ a ∈ configAttrs ∨ a = "hybrid_op_count" ∨ a = "preds_written" := by decide

/-! ## 2. `reset()` -/

theorem tReset_eq (s : TState) : tReset s =
    { ops := [], opCount := 0, hybCount := s.hybCount, pending := [], immSets := [], flags := resetFlags s.flags } := by
  have h1 : Gen.resetCalls.contains "il_ops_holder.clear" = true := by decide
  have h2 : (["read_ops", "exec_ops", "write_ops", "let_ops"].all Gen.holderClearCleared.contains) = true := by decide
  have h3 : Gen.holderClearCleared.contains "op_count" = true := by decide
  have h4 : Gen.holderClearCleared.contains "hybrid_op_count" = false := by decide
  have h5 : Gen.resetCalls.contains "il_ops_holder.hybrid_effect_dict.clear" = true := by decide
  have h6 : Gen.resetCalls.contains "imm_set_effect_list.clear" = true := by decide
  have h7 : Gen.resetCalls.contains "ext.reset_flags" = true := by decide
  simp only [tReset, h1, h2, h3, h4, h5, h6, h7]
  simp


/-- Well-formed session state: its flag state is well-formed (`Flags.WF`, C13). -/
def TState.WF (s : TState) : Prop := s.flags.WF
instance (s : TState) : Decidable s.WF := by unfold TState.WF; infer_instance

theorem TState.WF_fresh : TState.fresh.WF := Flags.WF_empty

theorem tReset_WF {s : TState} (h : s.WF) : (tReset s).WF := by
  rw [tReset_eq]; exact Flags.WF_resetFlags h

/-- **`reset()` leaves a clean state** (every well-formed `s`). -/
theorem tReset_clean (s : TState) (h : s.WF) : (tReset s).clean = true := by
  rw [tReset_eq]; simp [TState.clean, resetFlags_on_of_WF h]

example : ({ ops := ["a", "b"], opCount := 2, hybCount := 7, pending := ["h"], immSets := ["i"],
             flags := { on := ["writes_mem", "uses_new"], preds := [1] } } : TState).WF := by decide

/-- unrestricted form: false in the model (a name no setter sets survives `resetFlags`). Stated, not claimed. -/
def tReset_clean_unrestricted_statement : Prop := ∀ s : TState, (tReset s).clean = true

theorem tReset_clean_unrestricted_false : ¬ tReset_clean_unrestricted_statement := by
  intro h
  exact absurd (h { TState.fresh with flags := { on := ["not_an_attribute"], preds := [] } }) (by decide)

theorem runBeh_WF {s : TState} (h : s.WF) (b : Beh) : (runBeh s b).1.WF := by
  unfold runBeh
  split
  · exact Flags.WF_foldl h _
  · exact Flags.WF_foldl h _

/-- the state without the temporary counter (which never influences an `Output`) -/
def TState.core (s : TState) : TState := { s with hybCount := 0 }

theorem runBeh_core {s s' : TState} (h : s.core = s'.core) (b : Beh) :
    (runBeh s b).2 = (runBeh s' b).2 ∧ (runBeh s b).1.core = (runBeh s' b).1.core := by
  obtain ⟨ops, oc, hc, pe, im, fl⟩ := s
  obtain ⟨ops', oc', hc', pe', im', fl'⟩ := s'
  simp only [TState.core, TState.mk.injEq, true_and] at h
  obtain ⟨rfl, rfl, rfl, rfl, rfl⟩ := h
  unfold runBeh
  split <;> simp [TState.core]

theorem tReset_core {s s' : TState} (hs : s.WF) (hs' : s'.WF) (hp : s.flags.preds = s'.flags.preds) :
    (tReset s).core = (tReset s').core := by
  rw [tReset_eq, tReset_eq]
  have : resetFlags s.flags = resetFlags s'.flags := by
    have h1 := resetFlags_on_of_WF hs
    have h2 := resetFlags_on_of_WF hs'
    have h3 : (resetFlags s.flags).preds = (resetFlags s'.flags).preds := by simp [resetFlags, hp]
    cases hr : resetFlags s.flags; cases hr' : resetFlags s'.flags
    simp_all
  simp [TState.core, this]

theorem tReset_core_of_core {s s' : TState} (h : s.core = s'.core) : (tReset s).core = (tReset s').core := by
  rw [tReset_eq, tReset_eq]
  have : s.flags = s'.flags := show s.core.flags = s'.core.flags from congrArg TState.flags h
  simp [TState.core, this]

theorem clean_core (s : TState) : s.core.clean = s.clean := rfl
theorem clean_of_core {s s' : TState} (h : s.core = s'.core) : s.clean = s'.clean := by
  rw [← clean_core s, h, clean_core]
theorem flags_of_core {s s' : TState} (h : s.core = s'.core) : s.flags = s'.flags :=
  show s.core.flags = s'.core.flags from congrArg TState.flags h


/-! ## 3. `transform_insn` -/

theorem stepInsnParts_nil (s : TState) : stepInsnParts s [] = (s, []) := rfl

theorem stepInsnParts_cons (s : TState) (b : Beh) (rest : List Beh) :
    stepInsnParts s (b :: rest) =
      match (runBeh (tReset s) b).2 with
      | none => ((runBeh (tReset s) b).1, [none])
      | some o => ((stepInsnParts (runBeh (tReset s) b).1 rest).1,
                   some o :: (stepInsnParts (runBeh (tReset s) b).1 rest).2) := by
  simp only [stepInsnParts, insn_resets.1, if_true]
  cases h : runBeh (tReset s) b with
  | mk s' out => cases out <;> simp

theorem stepInsn_eq (s : TState) (parts : List Beh) :
    stepInsn s parts = (tReset (stepInsnParts s parts).1, (stepInsnParts s parts).2) := by
  simp only [stepInsn, insn_resets.2, if_true]

/-- The states on which `runBeh` is invoked while `transform_insn` works through the parts. -/
def insnEntries (s : TState) : List Beh → List TState
  | [] => []
  | b :: rest =>
      tReset s :: (match (runBeh (tReset s) b).2 with
                   | some _ => insnEntries (runBeh (tReset s) b).1 rest
                   | none => [])

/-- tie: the outputs of `transform_insn` are exactly `runBeh` on those entry states, part by part -/
theorem insn_outputs_from_entries (s : TState) (parts : List Beh) :
    (stepInsnParts s parts).2 = List.zipWith (fun e b => (runBeh e b).2) (insnEntries s parts) parts := by
  induction parts generalizing s with
  | nil => rfl
  | cons b rest ih =>
    rw [stepInsnParts_cons, insnEntries]
    cases h : (runBeh (tReset s) b).2 with
    | none => simp [h]
    | some o => simp [h, ih]

theorem stepInsnParts_WF {s : TState} (h : s.WF) (parts : List Beh) : (stepInsnParts s parts).1.WF := by
  induction parts generalizing s with
  | nil => exact h
  | cons b rest ih =>
    rw [stepInsnParts_cons]
    cases hr : (runBeh (tReset s) b).2 with
    | none => exact runBeh_WF (tReset_WF h) b
    | some o => exact ih (runBeh_WF (tReset_WF h) b)

/-- **Every behaviour of an instruction is lowered on a clean state**, whatever (well-formed) state the
    instance was in before — so for every history. -/
theorem insn_entry_clean (s : TState) (hs : s.WF) (parts : List Beh) :
    ∀ e ∈ insnEntries s parts, e.clean = true := by
  induction parts generalizing s with
  | nil => intro e he; cases he
  | cons b rest ih =>
    intro e he
    rw [insnEntries, List.mem_cons] at he
    rcases he with rfl | he
    · exact tReset_clean s hs
    · cases hr : (runBeh (tReset s) b).2 with
      | none => rw [hr] at he; cases he
      | some o => rw [hr] at he; exact ih _ (runBeh_WF (tReset_WF hs) b) e he

/-- the state `transform_insn` leaves behind is clean (reset in `finally`) -/
theorem insn_exit_clean (s : TState) (hs : s.WF) (parts : List Beh) : (stepInsn s parts).1.clean = true := by
  rw [stepInsn_eq]; exact tReset_clean _ (stepInsnParts_WF hs parts)

theorem stepInsn_WF {s : TState} (hs : s.WF) (parts : List Beh) : (stepInsn s parts).1.WF := by
  rw [stepInsn_eq]; exact tReset_WF (stepInsnParts_WF hs parts)

/-- `stepInsnParts` with the reset function as a parameter (used for the real and for the repaired machine) -/
def stepInsnPartsG (R : TState → TState) (s : TState) : List Beh → TState × List (Option Output)
  | [] => (s, [])
  | b :: rest =>
      match (runBeh (R s) b).2 with
      | none => ((runBeh (R s) b).1, [none])
      | some o => ((stepInsnPartsG R (runBeh (R s) b).1 rest).1,
                   some o :: (stepInsnPartsG R (runBeh (R s) b).1 rest).2)

theorem stepInsnParts_eq_G (s : TState) (parts : List Beh) : stepInsnParts s parts = stepInsnPartsG tReset s parts := by
  induction parts generalizing s with
  | nil => rfl
  | cons b rest ih =>
    rw [stepInsnParts_cons, stepInsnPartsG]
    cases hr : (runBeh (tReset s) b).2 <;> simp [ih]

theorem stepInsnPartsG_core {R : TState → TState}
    (hR : ∀ a a' : TState, a.core = a'.core → (R a).core = (R a').core)
    {s s' : TState} (h : (R s).core = (R s').core) (parts : List Beh) :
    (stepInsnPartsG R s parts).2 = (stepInsnPartsG R s' parts).2 ∧
    (parts ≠ [] → (stepInsnPartsG R s parts).1.core = (stepInsnPartsG R s' parts).1.core) := by
  induction parts generalizing s s' with
  | nil => exact ⟨rfl, fun h => absurd rfl h⟩
  | cons b rest ih =>
    obtain ⟨ho, hc⟩ := runBeh_core h b
    rw [stepInsnPartsG, stepInsnPartsG, ← ho]
    cases hr : (runBeh (R s) b).2 with
    | none => exact ⟨rfl, fun _ => hc⟩
    | some o =>
      obtain ⟨ih1, ih2⟩ := ih (hR _ _ hc)
      refine ⟨by simp [ih1], fun _ => ?_⟩
      cases rest with
      | nil => exact hc
      | cons b' rest' => exact ih2 (by simp)

theorem stepInsnParts_core {s s' : TState} (h : (tReset s).core = (tReset s').core) (parts : List Beh) :
    (stepInsnParts s parts).2 = (stepInsnParts s' parts).2 := by
  rw [stepInsnParts_eq_G, stepInsnParts_eq_G]
  exact (stepInsnPartsG_core (fun _ _ => tReset_core_of_core) h parts).1

/-- **History freedom of `transform_insn`**: the outputs depend on the prior state only through the recorded
    predicates (and not at all on the temporary counter, which is not part of `Output`). -/
theorem insn_history_free (s s' : TState) (hs : s.WF) (hs' : s'.WF) (hp : s.flags.preds = s'.flags.preds)
    (parts : List Beh) : (stepInsn s parts).2 = (stepInsn s' parts).2 := by
  rw [stepInsn_eq, stepInsn_eq]
  exact stepInsnParts_core (tReset_core hs hs' hp) parts


-- non-vacuity of `insn_history_free`: two different well-formed states with the same recorded predicates
example : let s : TState := { ops := ["stale"], opCount := 1, hybCount := 3, pending := ["h"], immSets := ["i"],
                              flags := { on := ["writes_mem"], preds := [2] } }
          let s' : TState := { TState.fresh with flags := { on := [], preds := [2] } }
          s.WF ∧ s'.WF ∧ s.flags.preds = s'.flags.preds ∧ s ≠ s' := by decide

/-! ## 4. histories -/

theorem runBeh_out_isSome (s : TState) (b : Beh) : (runBeh s b).2.isSome = b.failsAfter.isNone := by
  unfold runBeh; split <;> simp [*]

/-- outputs of `compile_c_stmt` (independent of where the reset sits) -/
theorem stepCStmt_out (s : TState) (b : Beh) : (stepCStmt s b).2 = [(runBeh s b).2] := by
  unfold stepCStmt
  cases h : runBeh s b with
  | mk s' out => cases out <;> simp

/-- state after a SUCCESSFUL `compile_c_stmt` (uses only `cstmt_reset_after_success`) -/
theorem stepCStmt_success (s : TState) (b : Beh) (hb : b.failsAfter = none) :
    (stepCStmt s b).1 = tReset (runBeh s b).1 := by
  have : (runBeh s b).2.isSome = true := by rw [runBeh_out_isSome, hb]; rfl
  unfold stepCStmt
  cases h : runBeh s b with
  | mk s' out =>
    rw [h] at this
    cases out with
    | none => cases this
    | some o => simp [cstmt_reset_after_success]

theorem stepCStmt_WF {s : TState} (hs : s.WF) (b : Beh) : (stepCStmt s b).1.WF := by
  have h1 := runBeh_WF hs b
  unfold stepCStmt
  cases h : runBeh s b with
  | mk s' out =>
    rw [h] at h1
    cases out <;> simp only <;> split <;> first | exact tReset_WF h1 | exact h1

/-- regenerated fact: `preds_written` is created per instance (`__init__`), so a sub-routine's own transformer shares
    nothing with the instance that registers it -/
theorem preds_not_shared : predsShared = false := by decide

theorem stepSub_eq (s : TState) (b : Beh) : stepSub s b =
    (s, [(runBeh { TState.fresh with flags := { on := [], preds := [] } } b).2]) := by
  simp only [stepSub, sub_fresh, if_true, preds_not_shared, Bool.false_eq_true, if_false]

theorem stepSub_WF {s : TState} (hs : s.WF) (b : Beh) : (stepSub s b).1.WF := by
  rw [stepSub_eq]; exact hs

theorem stepSub_clean (s : TState) (b : Beh) : (stepSub s b).1.clean = s.clean := by
  rw [stepSub_eq]

theorem step_WF {s : TState} (hs : s.WF) (c : Call) : (step s c).1.WF := by
  cases c with
  | cStmt b => exact stepCStmt_WF hs b
  | insn ps => exact stepInsn_WF hs ps
  | subRoutine b => exact stepSub_WF hs b

theorem runHistory_cons (s : TState) (c : Call) (cs : List Call) :
    runHistory s (c :: cs) = ((runHistory (step s c).1 cs).1, (step s c).2 :: (runHistory (step s c).1 cs).2) := by
  simp [runHistory]

theorem runHistory_append_state (s : TState) (h h' : List Call) :
    (runHistory s (h ++ h')).1 = (runHistory (runHistory s h).1 h').1 := by
  induction h generalizing s with
  | nil => rfl
  | cons c cs ih => rw [List.cons_append, runHistory_cons, runHistory_cons]; exact ih _

theorem runHistory_WF {s : TState} (hs : s.WF) (h : List Call) : (runHistory s h).1.WF := by
  induction h generalizing s with
  | nil => exact hs
  | cons c cs ih => rw [runHistory_cons]; exact ih (step_WF hs c)

/-- **Every state reachable from a fresh instance is well-formed** (so the `WF` hypotheses of this file
    are no restriction on reachable states). -/
theorem reachable_WF (h : List Call) : (runHistory TState.fresh h).1.WF := runHistory_WF TState.WF_fresh h

/-- Tracks, call by call, whether the instance is known to be clean: an instruction always ends with a reset;
    a C statement resets iff it succeeds; a sub-routine (own transformer) changes nothing of the instance. -/
def histSafe : Bool → List Call → Bool
  | c, [] => c
  | _, .insn _ :: h => histSafe true h
  | _, .cStmt b :: h => histSafe b.failsAfter.isNone h
  | c, .subRoutine _ :: h => histSafe c h

/-- A history after which the instance is clean: its last call other than a sub-routine (if any) is not a
    FAILING `compile_c_stmt`. -/
def SafeHist (h : List Call) : Prop := histSafe true h = true
instance (h : List Call) : Decidable (SafeHist h) := by unfold SafeHist; infer_instance

def CleanAfter (h : List Call) : Prop := (runHistory TState.fresh h).1.clean = true

theorem runHistory_clean {s : TState} (hs : s.WF) (c : Bool) (hc : c = true → s.clean = true) (h : List Call)
    (hsafe : histSafe c h = true) : (runHistory s h).1.clean = true := by
  induction h generalizing s c with
  | nil => exact hc hsafe
  | cons x xs ih =>
    rw [runHistory_cons]
    cases x with
    | cStmt b =>
      refine ih (step_WF hs _) _ (fun hb => ?_) hsafe
      have hb' : b.failsAfter = none := by simpa using hb
      show (stepCStmt s b).1.clean = true
      rw [stepCStmt_success s b hb']
      exact tReset_clean _ (runBeh_WF hs b)
    | insn ps =>
      exact ih (step_WF hs _) true (fun _ => insn_exit_clean s hs ps) hsafe
    | subRoutine b =>
      refine ih (step_WF hs _) c (fun hb => ?_) hsafe
      show (stepSub s b).1.clean = true
      rw [stepSub_clean]; exact hc hb

theorem clean_after_safe (h : List Call) (hs : SafeHist h) : CleanAfter h :=
  runHistory_clean TState.WF_fresh true (fun _ => rfl) h hs

theorem clean_after_insn (h : List Call) (ps : List Beh) : CleanAfter (h ++ [.insn ps]) := by
  unfold CleanAfter
  rw [runHistory_append_state]
  exact insn_exit_clean _ (reachable_WF h) ps

theorem clean_after_successful_cstmt (h : List Call) (b : Beh) (hb : b.failsAfter = none) :
    CleanAfter (h ++ [.cStmt b]) := by
  unfold CleanAfter
  rw [runHistory_append_state]
  show (stepCStmt _ b).1.clean = true
  rw [stepCStmt_success _ b hb]
  exact tReset_clean _ (runBeh_WF (reachable_WF h) b)

theorem clean_after_sub (h : List Call) (b : Beh) (hc : CleanAfter h) : CleanAfter (h ++ [.subRoutine b]) := by
  unfold CleanAfter
  rw [runHistory_append_state]
  show (stepSub _ b).1.clean = true
  rw [stepSub_clean]; exact hc

def Call.isFailingCStmt : Call → Bool
  | .cStmt b => b.failsAfter.isSome
  | _ => false

theorem histSafe_of_no_failure (c : Bool) (hc : c = true) (h : List Call)
    (hn : ∀ x ∈ h, x.isFailingCStmt = false) : histSafe c h = true := by
  induction h generalizing c with
  | nil => exact hc
  | cons x xs ih =>
    have hx := hn x (List.mem_cons_self)
    have hxs : ∀ y ∈ xs, y.isFailingCStmt = false := fun y hy => hn y (List.mem_cons_of_mem _ hy)
    cases x with
    | cStmt b =>
      simp only [Call.isFailingCStmt] at hx
      exact ih _ (by cases hb : b.failsAfter <;> simp_all) hxs
    | insn ps => exact ih true rfl hxs
    | subRoutine b => exact ih c hc hxs

/-- in particular: a history without any failing `compile_c_stmt` is safe -/
theorem safe_of_no_failure (h : List Call) (hn : ∀ x ∈ h, x.isFailingCStmt = false) : SafeHist h :=
  histSafe_of_no_failure true rfl h hn

theorem core_of_clean {s s' : TState} (hc : s.clean = true) (hc' : s'.clean = true)
    (hp : s.flags.preds = s'.flags.preds) : s.core = s'.core := by
  obtain ⟨ops, oc, hcnt, pe, im, ⟨on, preds⟩⟩ := s
  obtain ⟨ops', oc', hcnt', pe', im', ⟨on', preds'⟩⟩ := s'
  simp [TState.clean] at hc hc'
  simp at hp
  simp [TState.core, hc, hc', hp]

/-- On clean well-formed states with the same recorded predicates every entry point produces the same outputs. -/
theorem step_outputs_of_clean {s s' : TState} (hs : s.WF) (hs' : s'.WF) (hc : s.clean = true) (hc' : s'.clean = true)
    (hp : s.flags.preds = s'.flags.preds) (c : Call) : (step s c).2 = (step s' c).2 := by
  cases c with
  | cStmt b =>
    show (stepCStmt s b).2 = (stepCStmt s' b).2
    rw [stepCStmt_out, stepCStmt_out, (runBeh_core (core_of_clean hc hc' hp) b).1]
  | insn ps => exact insn_history_free s s' hs hs' hp ps
  | subRoutine b =>
    show (stepSub s b).2 = (stepSub s' b).2
    rw [stepSub_eq, stepSub_eq]

/-- **History freedom (partial)**: after a safe history that left no recorded predicate, every call produces the
    outputs it produces on a fresh instance. -/
theorem history_free_partial (h : List Call) (hs : SafeHist h)
    (hp : (runHistory TState.fresh h).1.flags.preds = []) (c : Call) :
    lastOutputs h c = lastOutputs [] c :=
  step_outputs_of_clean (reachable_WF h) TState.WF_fresh (clean_after_safe h hs) rfl hp c

theorem cstmt_history_free_partial (h : List Call) (hs : SafeHist h)
    (hp : (runHistory TState.fresh h).1.flags.preds = []) (b : Beh) :
    lastOutputs h (.cStmt b) = lastOutputs [] (.cStmt b) := history_free_partial h hs hp _

/-- instructions and sub-routines need no safety hypothesis (they never look at stale operands) -/
theorem insn_history_free_hist (h : List Call) (hp : (runHistory TState.fresh h).1.flags.preds = [])
    (ps : List Beh) : lastOutputs h (.insn ps) = lastOutputs [] (.insn ps) :=
  insn_history_free _ _ (reachable_WF h) TState.WF_fresh hp ps

theorem sub_history_free_hist (h : List Call) (hp : (runHistory TState.fresh h).1.flags.preds = [])
    (b : Beh) : lastOutputs h (.subRoutine b) = lastOutputs [] (.subRoutine b) := by
  show (stepSub _ b).2 = (stepSub _ b).2
  rw [stepSub_eq, stepSub_eq]


/-! witness behaviours -/
/-- a statement that raises after two operands were added -/
def bFail : Beh := { ops := ["stale1", "stale2", "never"], imms := ["imm_stale"], pendingLeft := [], tmps := 0,
                     events := [{ token := "mem_load" }], failsAfter := some 2 }
def bOk : Beh := { ops := ["op"], imms := [], pendingLeft := [], tmps := 1, events := [], failsAfter := none }
/-- `P0 = …` (explicit predicate) and `PdV = …` (predicate by letter) -/
def bP0 : Beh := { ops := ["P0"], imms := [], pendingLeft := [], tmps := 0,
                   events := [{ token := "pred_write", predNum := 0 }], failsAfter := none }
def bPd : Beh := { ops := ["Pd"], imms := [], pendingLeft := [], tmps := 0,
                   events := [{ token := "pred_write", predNum := -1 }], failsAfter := none }

-- non-vacuity of `history_free_partial` / `cstmt_history_free_partial`: a non-trivial safe history
example : SafeHist [.cStmt bFail, .subRoutine bOk, .insn [bOk, bFail], .subRoutine bPd, .cStmt bOk] ∧
    (runHistory TState.fresh [.cStmt bFail, .subRoutine bOk, .insn [bOk, bFail], .subRoutine bPd, .cStmt bOk]).1.flags.preds = [] := by
  decide
-- non-vacuity of `safe_of_no_failure`, `clean_after_successful_cstmt`, `clean_after_sub`
example : ∀ x ∈ [Call.cStmt bOk, .insn [bFail], .subRoutine bFail], x.isFailingCStmt = false := by decide
example : bOk.failsAfter = none := rfl
example : CleanAfter [.cStmt bOk, .insn [bP0]] := by unfold CleanAfter; decide


/-- `insn_entry_clean` over histories: whatever was called before on the instance (failing calls included),
    every behaviour of the instruction is lowered on a clean state. -/
theorem insn_entry_clean_hist (h : List Call) (parts : List Beh) :
    ∀ e ∈ insnEntries (runHistory TState.fresh h).1 parts, e.clean = true :=
  insn_entry_clean _ (reachable_WF h) parts

-- non-vacuity of `step_outputs_of_clean`: two different clean well-formed states with the same predicates
example : let s : TState := { TState.fresh with hybCount := 5, flags := { on := [], preds := [1] } }
          let s' : TState := { TState.fresh with flags := { on := [], preds := [1] } }
          s.WF ∧ s'.WF ∧ s.clean = true ∧ s'.clean = true ∧ s.flags.preds = s'.flags.preds ∧ s ≠ s' := by decide

/-! ## 6. the repaired machine: full history freedom

  Three repairs: (1) `reset_flags` also clears `preds_written` (`resetFlagsFixed`, C13); (2) `compile_c_stmt` resets in a
  `finally` (`stepCStmtFixed`); (3) `preds_written` is per instance instead of class-level, so a sub-routine's own
  transformer shares nothing (`stepSubFixed`).  Repairs (1)+(2) alone are NOT enough: see `two_repairs_not_enough`. -/

def tResetFixed (s : TState) : TState := { tReset s with flags := resetFlagsFixed s.flags }

def stepCStmtFixed (s : TState) (b : Beh) : TState × List (Option Output) :=
  (tResetFixed (runBeh s b).1, [(runBeh s b).2])

def stepInsnFixed (s : TState) (parts : List Beh) : TState × List (Option Output) :=
  (tResetFixed (stepInsnPartsG tResetFixed s parts).1, (stepInsnPartsG tResetFixed s parts).2)

def stepSubFixed (s : TState) (b : Beh) : TState × List (Option Output) :=
  (s, [(runBeh TState.fresh b).2])

def stepFixed (s : TState) : Call → TState × List (Option Output)
  | .cStmt b => stepCStmtFixed s b
  | .insn ps => stepInsnFixed s ps
  | .subRoutine b => stepSubFixed s b

def runHistoryFixed (s : TState) : List Call → TState
  | [] => s
  | c :: cs => runHistoryFixed (stepFixed s c).1 cs

def lastOutputsFixed (h : List Call) (c : Call) : List (Option Output) :=
  (stepFixed (runHistoryFixed TState.fresh h) c).2

/-- indistinguishable from a fresh instance (up to the temporary counter) -/
def TState.Pristine (s : TState) : Prop := s.core = TState.fresh.core

theorem TState.Pristine.wf {s : TState} (h : s.Pristine) : s.WF := by
  have : s.flags = Flags.empty := flags_of_core h
  unfold TState.WF; rw [this]; exact Flags.WF_empty

theorem tResetFixed_eq (s : TState) : tResetFixed s =
    { ops := [], opCount := 0, hybCount := s.hybCount, pending := [], immSets := [], flags := resetFlagsFixed s.flags } := by
  simp [tResetFixed, tReset_eq]

theorem tResetFixed_pristine {s : TState} (h : s.WF) : (tResetFixed s).Pristine := by
  rw [tResetFixed_eq]
  simp [TState.Pristine, TState.core, TState.fresh, resetFlagsFixed, resetFlags_on_of_WF h, Flags.empty]

theorem tResetFixed_core_of_core {s s' : TState} (h : s.core = s'.core) : (tResetFixed s).core = (tResetFixed s').core := by
  rw [tResetFixed_eq, tResetFixed_eq]
  have : s.flags = s'.flags := flags_of_core h
  simp [TState.core, this]

theorem stepInsnPartsG_WF {R : TState → TState} (hR : ∀ a : TState, a.WF → (R a).WF) {s : TState} (h : s.WF)
    (parts : List Beh) : (stepInsnPartsG R s parts).1.WF := by
  induction parts generalizing s with
  | nil => exact h
  | cons b rest ih =>
    rw [stepInsnPartsG]
    cases hr : (runBeh (R s) b).2 with
    | none => exact runBeh_WF (hR _ h) b
    | some o => exact ih (runBeh_WF (hR _ h) b)

theorem stepFixed_pristine {s : TState} (h : s.Pristine) (c : Call) : (stepFixed s c).1.Pristine := by
  cases c with
  | cStmt b => exact tResetFixed_pristine (runBeh_WF (TState.Pristine.wf h) b)
  | insn ps => exact tResetFixed_pristine (stepInsnPartsG_WF (fun a ha => TState.Pristine.wf (tResetFixed_pristine ha)) (TState.Pristine.wf h) ps)
  | subRoutine b => exact h

theorem runHistoryFixed_pristine {s : TState} (hs : s.Pristine) (h : List Call) : (runHistoryFixed s h).Pristine := by
  induction h generalizing s with
  | nil => exact hs
  | cons c cs ih => exact ih (stepFixed_pristine hs c)

theorem stepFixed_outputs_of_core {s s' : TState} (h : s.core = s'.core) (c : Call) :
    (stepFixed s c).2 = (stepFixed s' c).2 := by
  cases c with
  | cStmt b => show [(runBeh s b).2] = [(runBeh s' b).2]; rw [(runBeh_core h b).1]
  | insn ps =>
    exact (stepInsnPartsG_core (fun _ _ => tResetFixed_core_of_core) (tResetFixed_core_of_core h) ps).1
  | subRoutine b => rfl

/-- **Full history freedom of the repaired machine**: for ALL histories (failing calls included) and all calls. -/
theorem history_free_fixed (h : List Call) (c : Call) : lastOutputsFixed h c = lastOutputsFixed [] c :=
  stepFixed_outputs_of_core (runHistoryFixed_pristine (s := TState.fresh) rfl h) c

/-! ## 5. The repaired source
    Both session defects found by this check have been repaired in `/repo` (`compile_c_stmt` now resets in a `finally`;
    `preds_written` is per instance and cleared by `reset_flags`).  The facts below are about the REGENERATED tables: they
    stop compiling if either repair is undone, and with them the full-strength statement. -/
section Repaired

theorem cstmt_finally : Gen.cStmtResetInFinally = true := by decide

/-- `compile_c_stmt` always ends with a reset, whether the transformation succeeded or raised -/
theorem stepCStmt_eq (s : TState) (b : Beh) : stepCStmt s b = (tReset (runBeh s b).1, [(runBeh s b).2]) := by
  unfold stepCStmt
  cases h : runBeh s b with
  | mk s' out => cases out <;> simp [cstmt_finally]

/-- after a failed `compile_c_stmt` the next statement's output is what a fresh instance gives (the former witness of
    the defect) -/
theorem cstmt_after_failure_clean :
    lastOutputs [.cStmt bFail] (.cStmt bOk) = lastOutputs [] (.cStmt bOk) := by decide

/-- Full-strength statement (all histories, failing calls included, all entry points). -/
def history_free_full_statement : Prop := ∀ (h : List Call) (c : Call), lastOutputs h c = lastOutputs [] c

/-! ### consequences of the repaired `preds_written` (TRUE on the current source; they stop compiling if the clearing
    in `reset_flags` or the per-instance initialisation is removed again) -/

theorem resetFlags_preds_nil (f : Flags) : (resetFlags f).preds = [] := by
  simp only [resetFlags, show Gen.resetFlagsCleared.contains "preds_written" = true by decide, if_true]

theorem tReset_core_all {s s' : TState} (hs : s.WF) (hs' : s'.WF) : (tReset s).core = (tReset s').core := by
  rw [tReset_eq, tReset_eq]
  have : resetFlags s.flags = resetFlags s'.flags := by
    have h1 := resetFlags_on_of_WF hs
    have h2 := resetFlags_on_of_WF hs'
    have h3 := resetFlags_preds_nil s.flags
    have h4 := resetFlags_preds_nil s'.flags
    cases hr : resetFlags s.flags; cases hr' : resetFlags s'.flags
    simp_all
  simp [TState.core, this]

/-- **`transform_insn` is history free, for ALL histories and all prior states** (no hypothesis on recorded predicates
    any more): every instruction compiles to what a fresh instance gives. -/
theorem insn_history_free_all (s s' : TState) (hs : s.WF) (hs' : s'.WF) (parts : List Beh) :
    (stepInsn s parts).2 = (stepInsn s' parts).2 := by
  rw [stepInsn_eq, stepInsn_eq]
  exact stepInsnParts_core (tReset_core_all hs hs') parts

theorem insn_history_free_every_history (h : List Call) (ps : List Beh) :
    lastOutputs h (.insn ps) = lastOutputs [] (.insn ps) :=
  insn_history_free_all _ _ (reachable_WF h) TState.WF_fresh ps

/-- sub-routines are compiled by their own transformer and share nothing: history free for ALL histories -/
theorem sub_history_free_every_history (h : List Call) (b : Beh) :
    lastOutputs h (.subRoutine b) = lastOutputs [] (.subRoutine b) := by
  show (stepSub _ b).2 = (stepSub _ b).2
  rw [stepSub_eq, stepSub_eq]

theorem resetFlagsFixed_eq (f : Flags) : resetFlagsFixed f = resetFlags f := by
  have h := resetFlags_preds_nil f
  cases hr : resetFlags f with
  | mk on preds => simp only [resetFlagsFixed, hr]; rw [hr] at h; simp only at h; rw [h]

theorem tResetFixed_eq_tReset (s : TState) : tResetFixed s = tReset s := by
  simp only [tResetFixed, resetFlagsFixed_eq, tReset_eq]

theorem tResetFixed_fun : tResetFixed = tReset := funext tResetFixed_eq_tReset

/-- the machine as the code has it IS the repaired machine -/
theorem step_eq_stepFixed (s : TState) (c : Call) : step s c = stepFixed s c := by
  cases c with
  | cStmt b => show stepCStmt s b = stepCStmtFixed s b; rw [stepCStmt_eq, stepCStmtFixed, tResetFixed_eq_tReset]
  | insn ps =>
    show stepInsn s ps = stepInsnFixed s ps
    rw [stepInsn_eq, stepInsnFixed, tResetFixed_fun, stepInsnParts_eq_G]
  | subRoutine b => show stepSub s b = stepSubFixed s b; rw [stepSub_eq]; rfl

theorem runHistory_eq_fixed (s : TState) (h : List Call) : (runHistory s h).1 = runHistoryFixed s h := by
  induction h generalizing s with
  | nil => rfl
  | cons c cs ih => rw [runHistory_cons, runHistoryFixed, ← step_eq_stepFixed]; exact ih _

/-- **History freedom, full strength, of the machine as the code has it**: for ALL histories over the three entry
    points, failing calls included, every call produces the outputs it produces on a fresh instance. -/
theorem history_free_full : history_free_full_statement := by
  intro h c
  show (step (runHistory TState.fresh h).1 c).2 = (step (runHistory TState.fresh []).1 c).2
  rw [step_eq_stepFixed, step_eq_stepFixed, runHistory_eq_fixed, runHistory_eq_fixed]
  exact history_free_fixed h c

end Repaired

end Rzil
