import RzilVerif.Model.DriverText
import RzilVerif.Model.ILSem
import RzilVerif.Lemmas.LayoutPerm
/-!
# C16 — both output layouts denote the same effect

The check computes, in Lean, `denoteIL` of the READ_STATEMENTS text and of the EXEC_CLASSES text that two
real compilers produce for the same behaviour and compares the terms.  The theorems say what equality
of the denoted terms buys: identical execution from EVERY initial state, for every fuel, for every
interpretation of the plugin macros and every sub-routine environment — so no state sampling is needed.
-/
namespace Rzil

/-- The effect a body denotes, as structured IL. -/
def bodyEffect (b : Body) : Option ILEffect := (denoteIL b).map effectOfTerm

/-- Equal denotations give equal behaviour from every state (the quantifier over states is discharged
    here, not sampled). -/
theorem denote_eq_exec (a b : Body) (h : denoteIL a = denoteIL b) :
    ∀ (ms : MacroSem) (subs : SubEnv) (fuel : Nat) (σ : MState) (ea eb : ILEffect),
      bodyEffect a = some ea → bodyEffect b = some eb →
      execIL ms subs fuel ea σ = execIL ms subs fuel eb σ := by
  intro ms subs fuel σ ea eb ha hb
  have : bodyEffect a = bodyEffect b := by simp [bodyEffect, h]
  rw [this] at ha
  have : ea = eb := Option.some.inj (ha.symm.trans hb)
  rw [this]

/-- Canonical renaming of compiler temporaries is applied to a term by a fixed function of the term,
    so equal rendered canonical forms of equal terms are equal (sanity of the comparison key). -/
theorem canon_deterministic (t u : Term) (h : t = u) : (canonTerm t).render = (canonTerm u).render := by
  rw [h]

/-- A body's denotation only depends on its IL declarations and its returned term: comments and operand
    (`HexOp`) declarations may be placed anywhere. -/
theorem buildEnvIL_skip_comment (s : String) (rest : List Item) (env : List (String × Term)) :
    buildEnvIL (Item.comment s :: rest) env = buildEnvIL rest env := by
  simp [buildEnvIL]

theorem buildEnvIL_skip_operand (name : String) (rhs : Term) (rest : List Item) (env : List (String × Term)) :
    buildEnvIL (Item.decl "const HexOp *" name rhs :: rest) env = buildEnvIL rest env := by
  simp [buildEnvIL]

/-- Appending the write block after the exec block (EXEC_CLASSES) or interleaving per statement
    (READ_STATEMENTS) both process declarations left to right: the environment after a concatenation is
    the environment of the second part started from the environment of the first. -/
theorem buildEnvIL_append (xs ys : List Item) (env : List (String × Term)) :
    buildEnvIL (xs ++ ys) env = buildEnvIL ys (buildEnvIL xs env) := by
  induction xs generalizing env with
  | nil => rfl
  | cons x xs ih =>
    cases x with
    | comment s => simp [buildEnvIL, ih]
    | ret t => simp [buildEnvIL, ih]
    | decl ty name rhs =>
      simp only [List.cons_append, buildEnvIL]
      split <;> exact ih _

-- non-vacuity (test): the two layouts of `Rd = Rs + 1` (as item lists) denote the same term
example :
    denoteIL { header := none, items :=
      [.decl "RzILOpPure *" "a" (.app "ADD" [.id "Rs", .app "SN" [.num 32, .num 1]]),
       .decl "RzILOpEffect *" "e" (.app "WRITE_REG" [.id "bundle", .id "Rd_op", .id "a"]),
       .ret (.id "e")] } =
     denoteIL { header := none, items :=
      [.comment " EXEC",
       .decl "RzILOpPure *" "a" (.app "ADD" [.id "Rs", .app "SN" [.num 32, .num 1]]),
       .comment " WRITE",
       .decl "RzILOpEffect *" "e" (.app "WRITE_REG" [.id "bundle", .id "Rd_op", .id "a"]),
       .decl "RzILOpEffect *" "s" (.id "e"),
       .ret (.id "s")] } := by
  rfl

/-! ## The layout theorem

`hoistPures` (Lemmas/LayoutPerm.lean) is the EXEC_CLASSES order of a READ_STATEMENTS item list: all inlined
pure/bool declarations in their order (block "EXEC"), then everything else in its order (block "WRITE": effect
declarations, and the operand declarations, comments and the return, which `denoteIL` ignores or finds anyway).
Under the decidable side condition `LayoutWF` the hoisted body denotes the SAME term.
`LayoutWF items = namesDistinct items && noForwardRef items && puresAvoidEffects items`:
* inlined declarations declare pairwise distinct names,
* no inlined right-hand side mentions a name declared by a LATER inlined declaration,
* no pure/bool right-hand side mentions a name declared by an effect declaration anywhere.
The proof moves each non-pure item to the right over the pure declarations that follow it, one adjacent swap of
two independent declarations at a time (`buildEnvIL_swap`). -/

/-- Hoisting under the minimal condition `LayoutIndep` (every non-pure item is independent of each pure declaration
    that follows it). -/
theorem hoist_denote_of_indep (b : Body) (h : LayoutIndep b.items = true) :
    denoteIL { b with items := hoistPures b.items } = denoteIL b := by
  simp only [denoteIL, returned_hoistPures]
  cases returned b.items with
  | none => rfl
  | some r =>
    simp only [Option.bind_eq_bind, Option.bind_some]
    rw [Term.subst_congr (buildEnvIL_hoist b.items h []) r]

/-- C16, layout part: the EXEC_CLASSES arrangement of a well-formed READ_STATEMENTS body denotes the same term. -/
theorem hoist_denote (b : Body) (hwf : LayoutWF b.items = true) :
    denoteIL { b with items := hoistPures b.items } = denoteIL b :=
  hoist_denote_of_indep b (layoutIndep_of_layoutWF b.items hwf)

/-- … hence the same behaviour from every state, for every fuel and interpretation of macros and sub-routines. -/
theorem hoist_exec (b : Body) (hwf : LayoutWF b.items = true) :
    ∀ (ms : MacroSem) (subs : SubEnv) (fuel : Nat) (σ : MState) (ea eb : ILEffect),
      bodyEffect { b with items := hoistPures b.items } = some ea → bodyEffect b = some eb →
      execIL ms subs fuel ea σ = execIL ms subs fuel eb σ :=
  denote_eq_exec _ _ (hoist_denote b hwf)

end Rzil
