import RzilVerif.Model.DriverText
import RzilVerif.Model.ILSem
import RzilVerif.Lemmas.LayoutPerm
import RzilVerif.Lemmas.LayoutDup
import RzilVerif.Lemmas.LayoutPermGen
import RzilVerif.Lemmas.LayoutDead
/-!
# C16 — both output layouts denote the same effect

The check computes, in Lean, `denoteIL` of the READ_STATEMENTS text and of the EXEC_CLASSES text that two
real compilers produce for the same behaviour and compares the terms.  The theorems say what equality
of the denoted terms buys: identical execution from EVERY initial state, for every fuel, for every
interpretation of the plugin macros and every sub-routine environment — so no state sampling is needed.
-/
namespace Rzil

/-- The effect a body denotes, as structured IL. -/
def bodyEffect (b : Body) : Option ILEffect := (denoteIL b).map effectOfTerm

/-- Equal denotations give equal behaviour from every state (the quantifier over states is discharged
    here, not sampled). -/
theorem denote_eq_exec (a b : Body) (h : denoteIL a = denoteIL b) :
    ∀ (ms : MacroSem) (subs : SubEnv) (fuel : Nat) (σ : MState) (ea eb : ILEffect),
      bodyEffect a = some ea → bodyEffect b = some eb →
      execIL ms subs fuel ea σ = execIL ms subs fuel eb σ := by
  intro ms subs fuel σ ea eb ha hb
  have : bodyEffect a = bodyEffect b := by simp [bodyEffect, h]
  rw [this] at ha
  have : ea = eb := Option.some.inj (ha.symm.trans hb)
  rw [this]

/-- Canonical renaming of compiler temporaries is applied to a term by a fixed function of the term,
    so equal rendered canonical forms of equal terms are equal (sanity of the comparison key). -/
theorem canon_deterministic (t u : Term) (h : t = u) : (canonTerm t).render = (canonTerm u).render := by
  rw [h]

/-- A body's denotation only depends on its IL declarations and its returned term: comments and operand
    (`HexOp`) declarations may be placed anywhere. -/
theorem buildEnvIL_skip_comment (s : String) (rest : List Item) (env : List (String × Term)) :
    buildEnvIL (Item.comment s :: rest) env = buildEnvIL rest env := by
  simp [buildEnvIL]

theorem buildEnvIL_skip_operand (name : String) (rhs : Term) (rest : List Item) (env : List (String × Term)) :
    buildEnvIL (Item.decl "const HexOp *" name rhs :: rest) env = buildEnvIL rest env := by
  simp [buildEnvIL]

/-- Appending the write block after the exec block (EXEC_CLASSES) or interleaving per statement
    (READ_STATEMENTS) both process declarations left to right: the environment after a concatenation is
    the environment of the second part started from the environment of the first. -/
theorem buildEnvIL_append (xs ys : List Item) (env : List (String × Term)) :
    buildEnvIL (xs ++ ys) env = buildEnvIL ys (buildEnvIL xs env) := by
  induction xs generalizing env with
  | nil => rfl
  | cons x xs ih =>
    cases x with
    | comment s => simp [buildEnvIL, ih]
    | ret t => simp [buildEnvIL, ih]
    | decl ty name rhs =>
      simp only [List.cons_append, buildEnvIL]
      split <;> exact ih _

-- non-vacuity (test): the two layouts of `Rd = Rs + 1` (as item lists) denote the same term
example :
    denoteIL { header := none, items :=
      [.decl "RzILOpPure *" "a" (.app "ADD" [.id "Rs", .app "SN" [.num 32, .num 1]]),
       .decl "RzILOpEffect *" "e" (.app "WRITE_REG" [.id "bundle", .id "Rd_op", .id "a"]),
       .ret (.id "e")] } =
     denoteIL { header := none, items :=
      [.comment " EXEC",
       .decl "RzILOpPure *" "a" (.app "ADD" [.id "Rs", .app "SN" [.num 32, .num 1]]),
       .comment " WRITE",
       .decl "RzILOpEffect *" "e" (.app "WRITE_REG" [.id "bundle", .id "Rd_op", .id "a"]),
       .decl "RzILOpEffect *" "s" (.id "e"),
       .ret (.id "s")] } := by
  rfl

/-! ## The layout theorem

`hoistPures` (Lemmas/LayoutPerm.lean) is the EXEC_CLASSES order of a READ_STATEMENTS item list: all inlined
pure/bool declarations in their order (block "EXEC"), then everything else in its order (block "WRITE": effect
declarations, and the operand declarations, comments and the return, which `denoteIL` ignores or finds anyway).
Under the decidable side condition `LayoutWF` the hoisted body denotes the SAME term.
`LayoutWF items = namesDistinct items && noForwardRef items && puresAvoidEffects items`:
* inlined declarations declare pairwise distinct names,
* no inlined right-hand side mentions a name declared by a LATER inlined declaration,
* no pure/bool right-hand side mentions a name declared by an effect declaration anywhere.
The proof moves each non-pure item to the right over the pure declarations that follow it, one adjacent swap of
two independent declarations at a time (`buildEnvIL_swap`). -/

/-- Hoisting under the minimal condition `LayoutIndep` (every non-pure item is independent of each pure declaration
    that follows it). -/
theorem hoist_denote_of_indep (b : Body) (h : LayoutIndep b.items = true) :
    denoteIL { b with items := hoistPures b.items } = denoteIL b := by
  simp only [denoteIL, returned_hoistPures]
  cases returned b.items with
  | none => rfl
  | some r =>
    simp only [Option.bind_eq_bind, Option.bind_some]
    rw [Term.subst_congr (buildEnvIL_hoist b.items h []) r]

/-- C16, layout part: the EXEC_CLASSES arrangement of a well-formed READ_STATEMENTS body denotes the same term. -/
theorem hoist_denote (b : Body) (hwf : LayoutWF b.items = true) :
    denoteIL { b with items := hoistPures b.items } = denoteIL b :=
  hoist_denote_of_indep b (layoutIndep_of_layoutWF b.items hwf)

/-- … hence the same behaviour from every state, for every fuel and interpretation of macros and sub-routines. -/
theorem hoist_exec (b : Body) (hwf : LayoutWF b.items = true) :
    ∀ (ms : MacroSem) (subs : SubEnv) (fuel : Nat) (σ : MState) (ea eb : ILEffect),
      bodyEffect { b with items := hoistPures b.items } = some ea → bodyEffect b = some eb →
      execIL ms subs fuel ea σ = execIL ms subs fuel eb σ :=
  denote_eq_exec _ _ (hoist_denote b hwf)

/-- `denoteIL` only depends on the inlined declarations (in order) and the returned term. -/
theorem denoteIL_of_ilDecls (a b : Body) (hd : ilDecls a.items = ilDecls b.items)
    (hr : returned a.items = returned b.items) : denoteIL a = denoteIL b := by
  simp only [denoteIL, buildEnvIL_eq_envOfDecls, hd, hr]

/-- What the driver request `(layout-rel <RS text> <EC text>)` buys (Model/DriverLayout.lean): if it answers
    `(wf 1) (hoist-equal 1)` for the parsed bodies, both texts denote the same term — whatever comments and operand
    declarations they contain and wherever these are placed. -/
theorem layout_rel_sound (rs ec : Body) (hwf : LayoutWF rs.items = true)
    (heq : hoistEqual rs.items ec.items = true) : denoteIL ec = denoteIL rs := by
  simp only [hoistEqual, Bool.and_eq_true] at heq
  have h1 := declsEqb_sound _ _ heq.1
  have h2 := optTermEqb_sound _ _ heq.2
  rw [← hoist_denote rs hwf]
  exact denoteIL_of_ilDecls ec { rs with items := hoistPures rs.items } h1.symm h2.symm

/-- The test is complete for the intended case: the hoisted list itself passes. -/
theorem hoistEqual_self (items : List Item) : hoistEqual items (hoistPures items) = true := by
  simp only [hoistEqual, Bool.and_eq_true, declsEqb_refl, true_and]
  cases returned (hoistPures items) with
  | none => rfl
  | some t => exact Term.eqb_refl t

/-! ### Non-vacuity and necessity of the hypotheses (kernel-checked) -/

/-- READ_STATEMENTS layout of two statements: each one pure/bool declaration directly in front of the effect
    declaration that uses it (the second also re-reads `a` through `DUP`), operands and comments interleaved. -/
def exRS : List Item :=
  [.comment " statement 1",
   .decl "const HexOp *" "Rd_op" (.app "ISA2REG" [.id "hi", .chr "d", .id "false"]),
   .decl "RzILOpPure *" "a" (.app "ADD" [.id "Rs", .app "SN" [.num 32, .num 1]]),
   .decl "RzILOpEffect *" "e1" (.app "WRITE_REG" [.id "bundle", .id "Rd_op", .id "a"]),
   .comment " statement 2",
   .decl "RzILOpBool *" "c" (.app "ULT" [.app "DUP" [.id "a"], .id "Rt"]),
   .decl "RzILOpEffect *" "e2" (.app "BRANCH" [.id "c", .app "JMP" [.id "Rt"], .app "EMPTY" []]),
   .ret (.app "SEQN" [.num 2, .id "e1", .id "e2"])]

example : LayoutWF exRS = true := by decide +kernel

/-- its EXEC_CLASSES arrangement: the two value declarations first -/
example : hoistPures exRS =
  [.decl "RzILOpPure *" "a" (.app "ADD" [.id "Rs", .app "SN" [.num 32, .num 1]]),
   .decl "RzILOpBool *" "c" (.app "ULT" [.app "DUP" [.id "a"], .id "Rt"]),
   .comment " statement 1",
   .decl "const HexOp *" "Rd_op" (.app "ISA2REG" [.id "hi", .chr "d", .id "false"]),
   .decl "RzILOpEffect *" "e1" (.app "WRITE_REG" [.id "bundle", .id "Rd_op", .id "a"]),
   .comment " statement 2",
   .decl "RzILOpEffect *" "e2" (.app "BRANCH" [.id "c", .app "JMP" [.id "Rt"], .app "EMPTY" []]),
   .ret (.app "SEQN" [.num 2, .id "e1", .id "e2"])] := by rfl

/-- the theorem applies (and the denoted term is a genuine one, not `none`) -/
example : denoteIL { header := none, items := hoistPures exRS } = denoteIL { header := none, items := exRS } :=
  hoist_denote { header := none, items := exRS } (by decide +kernel)

example : denoteIL { header := none, items := exRS } =
    some (.app "SEQN" [.num 2,
      .app "WRITE_REG" [.id "bundle", .id "Rd_op", .app "ADD" [.id "Rs", .app "SN" [.num 32, .num 1]]],
      .app "BRANCH" [.app "ULT" [.app "ADD" [.id "Rs", .app "SN" [.num 32, .num 1]], .id "Rt"],
                     .app "JMP" [.id "Rt"], .app "EMPTY" []]]) := by rfl

/-- `namesDistinct` is needed: one name declared twice — hoisting makes the first effect read the second value. -/
def exDupName : List Item :=
  [.decl "RzILOpPure *" "a" (.id "X"),
   .decl "RzILOpEffect *" "e1" (.app "W" [.id "a"]),
   .decl "RzILOpPure *" "a" (.id "Y"),
   .decl "RzILOpEffect *" "e2" (.app "W" [.id "a"]),
   .ret (.app "SEQN" [.num 2, .id "e1", .id "e2"])]

example : LayoutWF exDupName = false := by decide +kernel
example : namesDistinct exDupName = false := by decide +kernel
example : denoteIL { header := none, items := hoistPures exDupName } ≠ denoteIL { header := none, items := exDupName } := by
  intro h
  have h' : some (Term.app "SEQN" [.num 2, .app "W" [.id "Y"], .app "W" [.id "Y"]]) =
            some (Term.app "SEQN" [.num 2, .app "W" [.id "X"], .app "W" [.id "Y"]]) := h
  simp at h'

/-- … also when the two other conditions hold: an effect and a later pure declaration share a name. -/
def exDupName2 : List Item :=
  [.decl "RzILOpEffect *" "a" (.app "W" [.id "Rs"]),
   .decl "RzILOpPure *" "a" (.id "X"),
   .ret (.id "a")]

example : namesDistinct exDupName2 = false ∧ noForwardRef exDupName2 = true ∧ puresAvoidEffects exDupName2 = true := by
  decide +kernel
example : denoteIL { header := none, items := hoistPures exDupName2 } ≠ denoteIL { header := none, items := exDupName2 } := by
  intro h
  have h' : some (Term.app "W" [.id "Rs"]) = some (Term.id "X") := h
  simp at h'

/-- `noForwardRef` is needed: an effect mentions a name that is only declared LATER (so it is left alone by
    `denoteIL`); after hoisting the declaration comes first and is inlined. -/
def exForward : List Item :=
  [.decl "RzILOpEffect *" "e1" (.app "W" [.id "x"]),
   .decl "RzILOpPure *" "x" (.id "K"),
   .ret (.id "e1")]

example : namesDistinct exForward = true ∧ noForwardRef exForward = false ∧ puresAvoidEffects exForward = true := by
  decide +kernel
example : denoteIL { header := none, items := hoistPures exForward } ≠ denoteIL { header := none, items := exForward } := by
  intro h
  have h' : some (Term.app "W" [.id "K"]) = some (Term.app "W" [.id "x"]) := h
  simp at h'

/-- `puresAvoidEffects` is needed: a "pure" declaration that consumes an effect name cannot be moved in front of it. -/
def exPureUsesEffect : List Item :=
  [.decl "RzILOpEffect *" "e" (.app "W" [.id "Rs"]),
   .decl "RzILOpPure *" "p" (.app "F" [.id "e"]),
   .decl "RzILOpEffect *" "r" (.app "G" [.id "p"]),
   .ret (.id "r")]

example : namesDistinct exPureUsesEffect = true ∧ noForwardRef exPureUsesEffect = true ∧
    puresAvoidEffects exPureUsesEffect = false := by
  decide +kernel
example : denoteIL { header := none, items := hoistPures exPureUsesEffect } ≠
    denoteIL { header := none, items := exPureUsesEffect } := by
  intro h
  have h' : some (Term.app "G" [.app "F" [.id "e"]]) = some (Term.app "G" [.app "F" [.app "W" [.id "Rs"]]]) := h
  simp at h'

/-! ### The layout relation modulo `DUP` -/

/-- `denoteIL` erases `DUP` at the end, so it does not matter where the `DUP`s stand in the declarations: erasing
    `DUP` in every right-hand side and in the returned term beforehand gives the same denotation. -/
theorem denoteIL_eraseDupItems (b : Body) :
    denoteIL { b with items := b.items.map Item.eraseDup } = denoteIL b := by
  simp only [denoteIL, returned_eraseDup]
  cases returned b.items with
  | none => rfl
  | some r =>
    simp only [Option.map_some, Option.bind_eq_bind, Option.bind_some]
    rw [Term.eraseDup_subst (buildEnvIL_eraseDup b.items (EnvDupEq.refl [])) r]

/-- What the fields `(wf-dup 1) (hoist-equal-dup 1)` of the driver answer buy: the two texts denote the same term,
    also when the layouts disagree about WHICH read of a shared variable is the raw one and which are `DUP(..)`. -/
theorem layout_rel_sound_dup (rs ec : Body) (hwf : LayoutWF (rs.items.map Item.eraseDup) = true)
    (heq : hoistEqualD rs.items ec.items = true) : denoteIL ec = denoteIL rs := by
  have h := layout_rel_sound { rs with items := rs.items.map Item.eraseDup }
    { ec with items := ec.items.map Item.eraseDup } hwf heq
  rw [denoteIL_eraseDupItems, denoteIL_eraseDupItems] at h
  exact h

/-- The same with the side condition on the list as written (`layoutWF_eraseDup`: it is the same condition). -/
theorem layout_rel_sound_dup' (rs ec : Body) (hwf : LayoutWF rs.items = true)
    (heq : hoistEqualD rs.items ec.items = true) : denoteIL ec = denoteIL rs :=
  layout_rel_sound_dup rs ec (by rw [layoutWF_eraseDup]; exact hwf) heq

/-- `hoistEqualD` is weaker than `hoistEqual`. -/
theorem hoistEqualD_of_hoistEqual (rs ec : List Item) (h : hoistEqual rs ec = true) : hoistEqualD rs ec = true := by
  have ild : ∀ items : List Item, ilDecls (items.map Item.eraseDup) =
      (ilDecls items).map (fun d => (d.1, d.2.1, d.2.2.eraseDup)) := by
    intro items
    induction items with
    | nil => rfl
    | cons x rest ih =>
      cases x with
      | comment s => exact ih
      | ret t => exact ih
      | decl ty n rhs =>
        simp only [List.map_cons, Item.eraseDup, ilDecls]
        split
        · simp only [List.map_cons, ih]
        · exact ih
  simp only [hoistEqual, Bool.and_eq_true] at h
  have h1 := declsEqb_sound _ _ h.1
  have h2 := optTermEqb_sound _ _ h.2
  simp only [hoistEqualD, hoistEqual, Bool.and_eq_true, hoistPures_eraseDup, ild, returned_eraseDup, h1, h2,
    declsEqb_refl, true_and]
  cases returned ec with
  | none => rfl
  | some t => exact Term.eqb_refl _

/-- READ_STATEMENTS: statement 1 reads `a` raw, statement 2 reads it through `DUP` … -/
def exDupRS : List Item :=
  [.decl "RzILOpPure *" "a" (.app "ADD" [.id "Rs", .app "SN" [.num 32, .num 1]]),
   .decl "RzILOpEffect *" "e1" (.app "WRITE_REG" [.id "bundle", .id "Rd_op", .id "a"]),
   .decl "RzILOpBool *" "c" (.app "ULT" [.app "DUP" [.id "a"], .id "Rt"]),
   .decl "RzILOpEffect *" "e2" (.app "BRANCH" [.id "c", .app "JMP" [.id "Rt"], .app "EMPTY" []]),
   .ret (.app "SEQN" [.num 2, .id "e1", .id "e2"])]

/-- … EXEC_CLASSES: the value declarations are rendered first, so `c` gets the raw read and `e1` the `DUP`. -/
def exDupEC : List Item :=
  [.decl "RzILOpPure *" "a" (.app "ADD" [.id "Rs", .app "SN" [.num 32, .num 1]]),
   .decl "RzILOpBool *" "c" (.app "ULT" [.id "a", .id "Rt"]),
   .decl "RzILOpEffect *" "e1" (.app "WRITE_REG" [.id "bundle", .id "Rd_op", .app "DUP" [.id "a"]]),
   .decl "RzILOpEffect *" "e2" (.app "BRANCH" [.id "c", .app "JMP" [.id "Rt"], .app "EMPTY" []]),
   .ret (.app "SEQN" [.num 2, .id "e1", .id "e2"])]

example : hoistEqual exDupRS exDupEC = false := by decide +kernel
example : hoistEqualD exDupRS exDupEC = true := by decide +kernel
example : LayoutWF (exDupRS.map Item.eraseDup) = true := by decide +kernel

example : denoteIL { header := none, items := exDupEC } = denoteIL { header := none, items := exDupRS } :=
  layout_rel_sound_dup { header := none, items := exDupRS } { header := none, items := exDupEC }
    (by decide +kernel) (by decide +kernel)

/-- … and the common denotation is a genuine term. -/
example : denoteIL { header := none, items := exDupRS } =
    some (.app "SEQN" [.num 2,
      .app "WRITE_REG" [.id "bundle", .id "Rd_op", .app "ADD" [.id "Rs", .app "SN" [.num 32, .num 1]]],
      .app "BRANCH" [.app "ULT" [.app "ADD" [.id "Rs", .app "SN" [.num 32, .num 1]], .id "Rt"],
                     .app "JMP" [.id "Rt"], .app "EMPTY" []]]) := by rfl

/-- `hoistEqualD` still separates layouts that really differ (another operand). -/
example : hoistEqualD exDupRS
    (exDupEC.map (fun i => match i with
      | .decl ty "c" _ => .decl ty "c" (.app "ULT" [.id "a", .id "Rs"])
      | i => i)) = false := by decide +kernel

/-! ### Two dependency-respecting orders of one set of declarations

EXEC_CLASSES emits the pure declarations in the order the compiler CREATED them, READ_STATEMENTS next to the statement
that consumes them; `hoistPures` of the one is then not the other.  Both texts are topological orders of the same
declarations, and that is all that matters. -/

/-- Two bodies whose inlined declarations are permutations of each other, with pairwise distinct names, neither with a
    forward reference, and the same returned term, denote the same term. -/
theorem perm_denote (a b : Body) (hda : namesDistinct a.items = true) (hfa : noForwardRef a.items = true)
    (hfb : noForwardRef b.items = true) (hperm : (ilDecls a.items).Perm (ilDecls b.items))
    (hret : returned a.items = returned b.items) : denoteIL a = denoteIL b := by
  simp only [denoteIL, hret]
  cases returned b.items with
  | none => rfl
  | some r =>
    simp only [Option.bind_eq_bind, Option.bind_some]
    rw [buildEnvIL_eq_envOfDecls, buildEnvIL_eq_envOfDecls]
    rw [Term.subst_congr (envOfDecls_perm (ilDecls b.items) (ilDecls a.items) hperm
      (pairwise_distinct_of_namesDistinct _ hda) (pairwise_noFwd_of_noForwardRef _ hfa)
      (pairwise_noFwd_of_noForwardRef _ hfb) []) r]

/-- The decidable form: `permEqual` collects the premises of `perm_denote`. -/
theorem layout_rel_sound_perm_raw (rs ec : Body) (h : permEqual rs.items ec.items = true) :
    denoteIL ec = denoteIL rs := by
  simp only [permEqual, Bool.and_eq_true] at h
  obtain ⟨⟨⟨⟨hd, hfr⟩, hfe⟩, hp⟩, hr⟩ := h
  exact (perm_denote rs ec hd hfr hfe (isPermB_sound _ _ hp) (optTermEqb_sound _ _ hr)).symm

/-- What the field `(perm-equal-dup 1)` of the driver answer buys: after erasing `DUP`, the EXEC_CLASSES text declares
    the same inlined declarations as the READ_STATEMENTS text, in ANY order without forward references — then both
    texts denote the same term. -/
theorem layout_rel_sound_perm (rs ec : Body) (h : permEqualD rs.items ec.items = true) :
    denoteIL ec = denoteIL rs := by
  have h' := layout_rel_sound_perm_raw { rs with items := rs.items.map Item.eraseDup }
    { ec with items := ec.items.map Item.eraseDup } h
  rw [denoteIL_eraseDupItems, denoteIL_eraseDupItems] at h'
  exact h'

/-- The test accepts every list against itself as soon as the side conditions hold. -/
theorem permEqual_self (items : List Item) (hd : namesDistinct items = true) (hf : noForwardRef items = true) :
    permEqual items items = true := by
  simp only [permEqual, hd, hf, isPermB_refl, Bool.and_true, Bool.true_and]
  cases returned items with
  | none => rfl
  | some t => exact Term.eqb_refl t

/-- READ_STATEMENTS order of `if (cond) { … }`: the pures of the body (`op_RSHIFT_8`) come before the pures of the
    condition (`op_AND_3`, `op_INV_4`), which are emitted next to `branch_13`. -/
def exPermRS : List Item :=
  [.comment " READ",
   .decl "const HexOp *" "Rd_op" (.app "ISA2REG" [.id "hi", .chr "d", .id "false"]),
   .decl "RzILOpPure *" "op_RSHIFT_8" (.app "SHIFTR0" [.id "Rs", .app "SN" [.num 32, .num 1]]),
   .decl "RzILOpEffect *" "op_ASSIGN_9" (.app "WRITE_REG" [.id "bundle", .id "Rd_op", .id "op_RSHIFT_8"]),
   .decl "RzILOpEffect *" "nop_10" (.app "NOP" []),
   .decl "RzILOpEffect *" "seq_then_11" (.id "op_ASSIGN_9"),
   .decl "RzILOpEffect *" "seq_else_12" (.id "nop_10"),
   .decl "RzILOpPure *" "op_AND_3" (.app "LOGAND" [.id "Rt", .app "SN" [.num 32, .num 1]]),
   .decl "RzILOpPure *" "op_INV_4" (.app "INV" [.app "NON_ZERO" [.id "op_AND_3"]]),
   .decl "RzILOpEffect *" "branch_13" (.app "BRANCH" [.id "op_INV_4", .id "seq_then_11", .id "seq_else_12"]),
   .ret (.id "branch_13")]

/-- EXEC_CLASSES order: the pures in creation order (`op_AND_3`, `op_INV_4`, `op_RSHIFT_8`), then the effects. -/
def exPermEC : List Item :=
  [.comment " EXEC",
   .decl "RzILOpPure *" "op_AND_3" (.app "LOGAND" [.id "Rt", .app "SN" [.num 32, .num 1]]),
   .decl "RzILOpPure *" "op_INV_4" (.app "INV" [.app "NON_ZERO" [.id "op_AND_3"]]),
   .decl "RzILOpPure *" "op_RSHIFT_8" (.app "SHIFTR0" [.id "Rs", .app "SN" [.num 32, .num 1]]),
   .comment " WRITE",
   .decl "const HexOp *" "Rd_op" (.app "ISA2REG" [.id "hi", .chr "d", .id "false"]),
   .decl "RzILOpEffect *" "op_ASSIGN_9" (.app "WRITE_REG" [.id "bundle", .id "Rd_op", .id "op_RSHIFT_8"]),
   .decl "RzILOpEffect *" "nop_10" (.app "NOP" []),
   .decl "RzILOpEffect *" "seq_then_11" (.id "op_ASSIGN_9"),
   .decl "RzILOpEffect *" "seq_else_12" (.id "nop_10"),
   .decl "RzILOpEffect *" "branch_13" (.app "BRANCH" [.id "op_INV_4", .id "seq_then_11", .id "seq_else_12"]),
   .ret (.id "branch_13")]

example : LayoutWF exPermRS = true := by decide +kernel
example : hoistEqualD exPermRS exPermEC = false := by decide +kernel
example : permEqual exPermRS exPermEC = true := by decide +kernel
example : permEqualD exPermRS exPermEC = true := by decide +kernel

example : denoteIL { header := none, items := exPermEC } = denoteIL { header := none, items := exPermRS } :=
  layout_rel_sound_perm { header := none, items := exPermRS } { header := none, items := exPermEC } (by decide +kernel)

/-- … and the common denotation is a genuine term. -/
example : denoteIL { header := none, items := exPermRS } =
    some (.app "BRANCH" [.app "INV" [.app "NON_ZERO" [.app "LOGAND" [.id "Rt", .app "SN" [.num 32, .num 1]]]],
      .app "WRITE_REG" [.id "bundle", .id "Rd_op", .app "SHIFTR0" [.id "Rs", .app "SN" [.num 32, .num 1]]],
      .app "NOP" []]) := by rfl

/-- `permEqual` rejects an order with a forward reference (`op_INV_4` in front of `op_AND_3`) — and rightly so: that
    text leaves `op_AND_3` un-inlined. -/
def exPermBad : List Item :=
  [.decl "RzILOpPure *" "op_INV_4" (.app "INV" [.app "NON_ZERO" [.id "op_AND_3"]]),
   .decl "RzILOpPure *" "op_AND_3" (.app "LOGAND" [.id "Rt", .app "SN" [.num 32, .num 1]]),
   .decl "RzILOpEffect *" "branch_13" (.app "BRANCH" [.id "op_INV_4", .app "NOP" [], .app "NOP" []]),
   .ret (.id "branch_13")]
def exPermGood : List Item :=
  [.decl "RzILOpPure *" "op_AND_3" (.app "LOGAND" [.id "Rt", .app "SN" [.num 32, .num 1]]),
   .decl "RzILOpPure *" "op_INV_4" (.app "INV" [.app "NON_ZERO" [.id "op_AND_3"]]),
   .decl "RzILOpEffect *" "branch_13" (.app "BRANCH" [.id "op_INV_4", .app "NOP" [], .app "NOP" []]),
   .ret (.id "branch_13")]

example : permEqual exPermGood exPermBad = false ∧ isPermB (ilDecls exPermGood) (ilDecls exPermBad) = true ∧
    noForwardRef exPermBad = false := by decide +kernel
example : denoteIL { header := none, items := exPermBad } ≠ denoteIL { header := none, items := exPermGood } := by
  intro h
  have h' : some (Term.app "BRANCH" [.app "INV" [.app "NON_ZERO" [.id "op_AND_3"]], .app "NOP" [], .app "NOP" []]) =
      some (Term.app "BRANCH" [.app "INV" [.app "NON_ZERO" [.app "LOGAND" [.id "Rt", .app "SN" [.num 32, .num 1]]]],
        .app "NOP" [], .app "NOP" []]) := h
  simp at h'

/-- … and another right-hand side under the same name. -/
example : permEqualD exPermRS
    (exPermEC.map (fun i => match i with
      | .decl ty "op_AND_3" _ => .decl ty "op_AND_3" (.app "LOGAND" [.id "Rt", .app "SN" [.num 32, .num 2]])
      | i => i)) = false := by decide +kernel

/-! ### Dead declarations

EXEC_CLASSES sometimes prints an inlined declaration (a load `ml_EA_k`) that nothing mentions and that READ_STATEMENTS
does not print at all.  Such a declaration only adds a binding nobody looks up. -/

/-- Removing ONE inlined declaration `decl ty n rhs`, at any position, whose name no item behind it mentions
    (`Item.mentionsIL`: inlined right-hand sides and returned terms) and the returned term of the body does not mention,
    does not change the denotation.  Nothing is required of the items in front of it, of `rhs`, or of the names (the
    name may even be declared a second time). -/
theorem dead_decl_irrelevant (hd : Option (String × List Param)) (pre post : List Item) (ty n : String) (rhs : Term)
    (hpost : ∀ i ∈ post, i.mentionsIL n = false)
    (hret : ∀ t, returned (pre ++ Item.decl ty n rhs :: post) = some t → t.mentions n = false) :
    denoteIL { header := hd, items := pre ++ post } = denoteIL { header := hd, items := pre ++ Item.decl ty n rhs :: post } := by
  rw [returned_append_decl] at hret
  simp only [denoteIL, returned_append_decl]
  cases hr : returned (pre ++ post) with
  | none => rfl
  | some r =>
    simp only [Option.bind_eq_bind, Option.bind_some]
    rw [Term.subst_congr_except (buildEnvIL_dead pre post ty n rhs hpost []) r (hret r hr)]

/-- Removing ALL dead declarations (`dropDeadDecls`, one pass from right to left) does not change the denotation.  No side
    condition: in particular `namesDistinct` is not needed. -/
theorem dropDeadDecls_denote (b : Body) : denoteIL { b with items := dropDeadDecls b.items } = denoteIL b := by
  simp only [denoteIL, dropDeadDecls, returned_dropDeadDeclsAux]
  cases hr : returned b.items with
  | none => rfl
  | some r =>
    simp only [Option.bind_eq_bind, Option.bind_some]
    rw [dropDeadDeclsAux_subst r b.items []]

/-- The form with the (superfluous) hypothesis of the brief. -/
theorem dropDeadDecls_denote' (b : Body) (_h : namesDistinct b.items = true) :
    denoteIL { b with items := dropDeadDecls b.items } = denoteIL b := dropDeadDecls_denote b

/-- What the field `(perm-equal-dead 1)` of the driver answer buys: after removing the dead declarations of either text
    and erasing `DUP`, the EXEC_CLASSES text declares the same inlined declarations as the READ_STATEMENTS text in any
    order without forward references — then both texts (as written, dead declarations included) denote the same term. -/
theorem layout_rel_sound_dead (rs ec : Body) (h : permEqualDD rs.items ec.items = true) :
    denoteIL ec = denoteIL rs := by
  have h' := layout_rel_sound_perm { rs with items := dropDeadDecls rs.items } { ec with items := dropDeadDecls ec.items } h
  rw [dropDeadDecls_denote, dropDeadDecls_denote] at h'
  exact h'

/-- The new test only accepts more when nothing is dead: a list without dead declarations is left alone. -/
example : dropDeadDecls exPermRS = exPermRS := by rfl

/-- READ_STATEMENTS: one load, used by the assignment. -/
def exDeadRS : List Item :=
  [.comment " READ",
   .decl "const HexOp *" "Rd_op" (.app "ISA2REG" [.id "hi", .chr "d", .id "false"]),
   .decl "RzILOpPure *" "ml_EA_5" (.app "LOADW" [.num 32, .app "VARL" [.str "EA"]]),
   .decl "RzILOpEffect *" "op_ASSIGN_6" (.app "WRITE_REG" [.id "bundle", .id "Rd_op", .id "ml_EA_5"]),
   .ret (.id "op_ASSIGN_6")]

/-- EXEC_CLASSES: additionally `RzILOpPure *ml_EA_7 = LOADW(32, VARL("EA"));`, which nothing mentions. -/
def exDeadEC : List Item :=
  [.comment " EXEC",
   .decl "RzILOpPure *" "ml_EA_5" (.app "LOADW" [.num 32, .app "VARL" [.str "EA"]]),
   .decl "RzILOpPure *" "ml_EA_7" (.app "LOADW" [.num 32, .app "VARL" [.str "EA"]]),
   .comment " WRITE",
   .decl "const HexOp *" "Rd_op" (.app "ISA2REG" [.id "hi", .chr "d", .id "false"]),
   .decl "RzILOpEffect *" "op_ASSIGN_6" (.app "WRITE_REG" [.id "bundle", .id "Rd_op", .id "ml_EA_5"]),
   .ret (.id "op_ASSIGN_6")]

example : permEqualD exDeadRS exDeadEC = false := by decide +kernel
example : permEqualDD exDeadRS exDeadEC = true := by decide +kernel

/-- exactly the dead load is removed … -/
example : dropDeadDecls exDeadEC =
  [.comment " EXEC",
   .decl "RzILOpPure *" "ml_EA_5" (.app "LOADW" [.num 32, .app "VARL" [.str "EA"]]),
   .comment " WRITE",
   .decl "const HexOp *" "Rd_op" (.app "ISA2REG" [.id "hi", .chr "d", .id "false"]),
   .decl "RzILOpEffect *" "op_ASSIGN_6" (.app "WRITE_REG" [.id "bundle", .id "Rd_op", .id "ml_EA_5"]),
   .ret (.id "op_ASSIGN_6")] := by rfl

/-- … and a declaration that IS mentioned (`ml_EA_5` by `op_ASSIGN_6`, `op_ASSIGN_6` by the return) is not dropped. -/
example : dropDeadDecls exDeadRS = exDeadRS := by rfl

example : denoteIL { header := none, items := exDeadEC } = denoteIL { header := none, items := exDeadRS } :=
  layout_rel_sound_dead { header := none, items := exDeadRS } { header := none, items := exDeadEC } (by decide +kernel)

/-- the single-declaration theorem on the same text: `pre` = the first two items, `post` = the last four -/
example : denoteIL { header := none, items := exDeadEC.take 2 ++ exDeadEC.drop 3 } =
    denoteIL { header := none, items := exDeadEC } :=
  dead_decl_irrelevant none (exDeadEC.take 2) (exDeadEC.drop 3) "RzILOpPure *" "ml_EA_7"
    (.app "LOADW" [.num 32, .app "VARL" [.str "EA"]])
    (by decide +kernel) (by intro t ht; cases ht; decide +kernel)

/-- … and the common denotation is a genuine term. -/
example : denoteIL { header := none, items := exDeadRS } =
    some (.app "WRITE_REG" [.id "bundle", .id "Rd_op", .app "LOADW" [.num 32, .app "VARL" [.str "EA"]]]) := by rfl

/-- A declaration only mentioned by a dead declaration is dead as well (the tail is cleaned first); the hypothesis of
    `dead_decl_irrelevant` is needed: removing the MENTIONED `ml_EA_5` changes the denotation. -/
def exDeadChain : List Item :=
  [.decl "RzILOpPure *" "a" (.id "Rs"),
   .decl "RzILOpPure *" "b" (.app "ADD" [.id "a", .id "a"]),
   .decl "RzILOpEffect *" "e" (.app "NOP" []),
   .ret (.id "e")]

example : dropDeadDecls exDeadChain = [.decl "RzILOpEffect *" "e" (.app "NOP" []), .ret (.id "e")] := by rfl

example : denoteIL { header := none, items := exDeadRS.take 2 ++ exDeadRS.drop 3 } ≠
    denoteIL { header := none, items := exDeadRS } := by
  intro h
  have h' : some (Term.app "WRITE_REG" [.id "bundle", .id "Rd_op", .id "ml_EA_5"]) =
      some (Term.app "WRITE_REG" [.id "bundle", .id "Rd_op", .app "LOADW" [.num 32, .app "VARL" [.str "EA"]]]) := h
  simp at h'

end Rzil
