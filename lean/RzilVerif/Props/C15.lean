import RzilVerif.Model.CompileH
import RzilVerif.Gen.GrammarGen
import RzilVerif.Gen.CallbacksGen
/-!
# C15 — nothing in the source is silently dropped: translate it or raise

Two layers.
(1) The lowering model keeps every statement: one emitted effect per statement that is not a bare value (`siV;`, `i++;`:
    `bareCount`), in source order (`compileStmts_length`, `compileStmtsH_count`; `compileStmts_length_nobare`: one per
    statement when there is no bare value), and the behaviour's final sequence drops nothing but `EMPTY()` members
    (`mkSeq_keeps`).
    The real compiler's output is compared with this model on every run (C05/C06 ties), so for the supported dialect
    "every statement is represented" is carried by tree equality.
(2) Which grammar productions reach the transformer WITHOUT a callback (Lark then hands a raw `Tree` upwards, and
    `Sequence.__init__` / `emit_final_seq_return` filter non-`Effect` items out): computed from the REGENERATED grammar
    and callback tables and frozen here by `decide` — a new production without a callback (or a removed callback) breaks
    `no_callback_rules`, which sends the check into its failing-input search.
-/
namespace Rzil

/-! ## (1) the model keeps every statement -/

/-- statements that are a bare value (`siV;`, `i++;`, `f(x);`): they yield no effect of their own (in the hybrid model
    their temporaries are carried to the enclosing sequence, `chk`) -/
def bareCount : List CStmt → Nat
  | [] => 0
  | .exprstmt _ :: ss => bareCount ss + 1
  | _ :: ss => bareCount ss

theorem bareCount_cons (s : CStmt) (ss : List CStmt) :
    bareCount (s :: ss) = bareCount ss + (if isBare s then 1 else 0) := by
  cases s <;> rfl

/-- one emitted effect per statement that is not a bare value (since bare PURE value statements `siV;` are inside the
    pure model; for a behaviour without them `bareCount ss = 0`: `compileStmts_length_nobare`) -/
theorem compileStmts_length (env : CEnv) : ∀ (ss : List CStmt) (st st' : TSt) (es : List ILEffect),
    compileStmts env st ss = .ok (es, st') → es.length + bareCount ss = ss.length
  | [], st, st', es, h => by
      simp only [compileStmts, Except.ok.injEq, Prod.mk.injEq] at h
      rw [← h.1]; rfl
  | s :: ss, st, st', es, h => by
      simp only [compileStmts, bind, Except.bind] at h
      split at h
      · cases h
      · rename_i r hr
        obtain ⟨e, st1⟩ := r
        simp only at h
        split at h
        · cases h
        · rename_i r2 hr2
          obtain ⟨es2, st2⟩ := r2
          simp only [Except.ok.injEq, Prod.mk.injEq] at h
          rw [← h.1, bareCount_cons]
          have ih := compileStmts_length env ss st1 st2 es2 hr2
          cases hb : isBare s
          · rw [consEff_eff hb]; simp only [List.length_cons, Bool.false_eq_true, ↓reduceIte]; omega
          · rw [consEff_bare hb]; simp only [List.length_cons, ↓reduceIte]; omega

/-- the statement as it was before bare value statements entered the pure model: without them, one effect per
    statement -/
theorem compileStmts_length_nobare (env : CEnv) (ss : List CStmt) (st st' : TSt) (es : List ILEffect)
    (hb : bareCount ss = 0) (h : compileStmts env st ss = .ok (es, st')) : es.length = ss.length := by
  have := compileStmts_length env ss st st' es h
  omega

set_option maxHeartbeats 1600000 in
theorem compileStmtH_effect_iff (env : CEnv) (st st' : HSt) (s : CStmt) (e : Option ILEffect) (b : List String)
    (h : compileStmtH env st s = .ok (e, b, st')) :
    e.isSome = !isBare s := by
  cases s with
  | decl t n init =>
    cases init <;>
    · rw [compileStmtH] at h
      try simp only [bind, Except.bind] at h
      repeat' split at h
      all_goals (cases h; try rfl)
  | _ =>
    rw [compileStmtH] at h
    try simp only [bind, Except.bind] at h
    repeat' split at h
    all_goals (cases h; try rfl)

theorem compileStmtsH_count (env : CEnv) : ∀ (ss : List CStmt) (st st' : HSt) (es : List ILEffect) (bs : List String),
    compileStmtsH env st ss = .ok (es, bs, st') → es.length + bareCount ss = ss.length
  | [], st, st', es, bs, h => by
      simp only [compileStmtsH, Except.ok.injEq, Prod.mk.injEq] at h
      rw [← h.1]; rfl
  | s :: ss, st, st', es, bs, h => by
      simp only [compileStmtsH, bind, Except.bind] at h
      split at h
      · cases h
      · rename_i r hr
        obtain ⟨e, b, st1⟩ := r
        simp only at h
        split at h
        · cases h
        · rename_i r2 hr2
          obtain ⟨es2, bs2, st2⟩ := r2
          simp only [Except.ok.injEq, Prod.mk.injEq] at h
          have ih := compileStmtsH_count env ss st1 st2 es2 bs2 hr2
          have he := compileStmtH_effect_iff env st st1 s e b hr
          rw [← h.1]
          cases e with
          | none =>
            cases s <;> simp only [Option.isSome_none, isBare, Bool.not_false, Bool.false_eq_true] at he
            simp only [bareCount, List.length_cons]; omega
          | some e0 =>
            have hb : bareCount (s :: ss) = bareCount ss := by
              cases s <;> first | rfl | (simp only [Option.isSome_some, isBare, Bool.not_true, Bool.true_eq_false] at he)
            rw [hb]; simp only [List.length_cons]; omega

/-- The final `Sequence` drops `EMPTY()` members and nothing else. -/
theorem mkSeq_keeps (es : List ILEffect) (e : ILEffect) (h : e ∈ es) (hne : e ≠ .empty) :
    mkSeq es = e ∨ ∃ l, mkSeq es = .seqn l ∧ e ∈ l := by
  have hm : e ∈ es.filter (fun e => match e with | .empty => false | _ => true) := by
    rw [List.mem_filter]
    refine ⟨h, ?_⟩
    cases e <;> first | rfl | exact absurd rfl hne
  unfold mkSeq
  generalize es.filter (fun e => match e with | .empty => false | _ => true) = l at hm
  match l, hm with
  | [x], hm => left; simp only [List.mem_singleton] at hm; simp [hm]
  | x :: y :: r, hm => right; exact ⟨_, rfl, hm⟩

-- non-vacuity: a three-statement program, three effects
example : ∃ es st', compileStmts ⟨[], Cfg.asCode⟩ { imms := [], hyb := 0 }
    [.assign (.reg "RdV" .dst ⟨true, 32⟩) "=" (.reg "RsV" .src ⟨true, 32⟩), .jump (.reg "RtV" .src ⟨true, 32⟩), .skip "cancel_slot;"] = .ok (es, st')
    ∧ es.length = 3 := ⟨_, _, rfl, rfl⟩

/-! ## (2) grammar productions without a transformer callback -/

/-- the name a parse-tree node of a rule carries: its alias, else its origin -/
def nodeName (r : String × List String × Bool × String) : String := if r.2.2.2 != "" then r.2.2.2 else r.1

def nodeNames : List String := (Gen.grammarRules.map nodeName).eraseDups

def callbackNames : List String := Gen.callbackRows.map (·.1)

/-- visible node names (rules starting with `_` are always inlined by Lark) for which `RZILTransformer` has no method:
    Lark's default builds a raw `Tree`, which no `Sequence` keeps. -/
def noCallback : List String := nodeNames.filter (fun n => !n.startsWith "_" && !callbackNames.contains n)

theorem no_callback_rules : noCallback =
  ["primary_expr", "enumeration_constant", "generic_selection", "generic_assoc_list", "generic_association",
   "constant_expr", "init_declarator_list", "storage_class_specifier", "struct_or_union_specifier",
   "struct_or_union", "struct_declaration_list", "struct_declaration", "struct_declarator_list", "struct_declarator",
   "enum_specifier", "enumerator_list", "enumerator", "atomic_type_specifier", "type_qualifier", "function_specifier",
   "alignment_specifier", "declarator", "direct_declarator", "pointer", "type_qualifier_list", "parameter_type_list",
   "parameter_list", "parameter_declaration", "identifier_list", "type_name", "abstract_declarator",
   "direct_abstract_declarator", "initializer", "initializer_list", "designation", "designator_list", "designator",
   "static_assert_declaration", "stmt", "op", "reg_alias_new_postfix", "float_number", "c_size_type",
   "c_int_type", "data_type"] := by
  decide +kernel

/-- every statement-level production the transformer is meant to translate or reject HAS a callback (since the repair
    of the silent drops this includes labelled statements and the comma alternative of `expr`, which raise) -/
theorem statement_rules_have_callbacks :
    ["compound_stmt", "expr_stmt", "selection_stmt", "iteration_stmt", "jump_stmt", "declaration", "assignment_expr",
     "block_item", "for_loop", "cancel_slot_stmt", "labeled_stmt", "expr"].all (fun n => !nodeNames.contains n || callbackNames.contains n) = true := by
  decide +kernel

end Rzil
