import RzilVerif.Model.Compile
/-!
# C03 — conversions (first version; the full preservation theorems are being proved separately)
-/
namespace Rzil

/-- Narrowing keeps the low bits, whatever the signedness. -/
theorem convBits_narrow (src dst : CT) {n : Nat} (x : BitVec n) (h : dst.width ≤ n) :
    convBits src dst x = x.setWidth dst.width := by
  simp [convBits, h]

/-- Widening sign-extends exactly when the SOURCE is signed. -/
theorem convBits_widen_signed (src dst : CT) {n : Nat} (x : BitVec n) (h : n < dst.width) (hs : src.signed = true) :
    convBits src dst x = x.signExtend dst.width := by
  have : ¬ dst.width ≤ n := by omega
  simp [convBits, this, hs]

theorem convBits_widen_unsigned (src dst : CT) {n : Nat} (x : BitVec n) (h : n < dst.width) (hs : src.signed = false) :
    convBits src dst x = x.setWidth dst.width := by
  have : ¬ dst.width ≤ n := by omega
  simp [convBits, this, hs]

/-- The code's cast (`Cfg.asCode`) and the conforming cast agree except for a signed source widened into an
    unsigned target. -/
theorem initACast_asCode_eq_fixed_partial (target : VT) (p : CE)
    (hb : p.ty.hasFlag VT.gBOOL = false)
    (h : ¬ (p.ty.signed = true ∧ target.signed = false)) :
    (initACast Cfg.asCode target p).il = (initACast Cfg.fixed target p).il := by
  unfold initACast
  by_cases he : target.eqv p.ty = true
  · simp [he]
  · simp only [he, hb, Bool.false_and, Bool.false_eq_true, ↓reduceIte]
    simp only [Cfg.asCode, Cfg.fixed]
    cases hs : p.ty.signed <;> cases ht : target.signed <;> simp_all

/-- Witness (T3): `(uint64_t)(int8_t)x` — the code fills with IL_FALSE, the conforming cast with MSB. -/
example : (initACast Cfg.asCode ⟨false, 64, 1⟩ { il := .varl "a", ty := ⟨true, 8, 1⟩, kind := .plain }).il
    = .cast 64 .bfalse (.varl "a") := rfl
example : (initACast Cfg.fixed ⟨false, 64, 1⟩ { il := .varl "a", ty := ⟨true, 8, 1⟩, kind := .plain }).il
    = .cast 64 (.un .msb (.varl "a")) (.varl "a") := rfl

end Rzil
