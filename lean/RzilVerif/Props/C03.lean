import RzilVerif.Lemmas.ExprCases
/-!
# C03 — conversions

1. `ilCast_msb_eq_signExtend`, `ilCast_false_eq_setWidth` (in `Lemmas/ExprBits.lean`): `CAST(w, MSB x, x)` is sign
   extension/truncation, `CAST(w, IL_FALSE, x)` is zero extension/truncation.
2. `Rel`, `TyOK` (in `Lemmas/ExprLemmas.lean`; bundled with the object-kind invariant as `Sim`).
3. `initACast_fixed_correct` — `init_a_cast` of the repaired lowering is the C conversion, for all widths.
4. T2 `initACast_asCode_eq_fixed` under the decidable `CastSafe`; `initACast_asCode_sem_eq_fixed_narrow`.
5. T3 witnesses `t3_int8_to_uint64_asCode` / `_C`, and one per disjunct of `CastSafe`.
6. `conv_chain`.
-/
namespace Rzil

/-! ## 3. `initACast Cfg.fixed` is the C conversion -/

theorem initACast_fixed_kind_irrelevant (target : VT) (p : CE) :
    (initACast Cfg.fixed target p).il = (initACast Cfg.fixed target { p with kind := .plain }).il ∧
    (initACast Cfg.fixed target p).ty = (initACast Cfg.fixed target { p with kind := .plain }).ty := by
  unfold initACast
  simp only [cfgsimp]
  split
  · exact ⟨rfl, rfl⟩
  · split <;> exact ⟨rfl, rfl⟩

/-- from the three components of the specification to `Sim` (object kind forgotten) -/
theorem Sim.of_spec {ms σ} {p : CE} {src : CT} {vIL vC : Val}
    (hev : evalPure ms σ [] p.il = .ok vIL) (hrel : Rel p.ty vIL vC) (hty : TyOK p.ty src vC) :
    Sim ms σ { p with kind := .plain } src vC := by
  unfold Rel at hrel
  unfold TyOK at hty
  cases hf : p.ty.hasFlag VT.gBOOL
  · simp only [hf, Bool.false_eq_true, if_false] at hrel hty
    obtain ⟨hs, hw, x, hx⟩ := hty
    subst hrel
    refine Sim.int x hf ?_ (by rw [hev, hx]) hx (kindOK_plain _ _)
    cases src; simp only [vtCT] at *; rw [hs, hw]
  · simp only [hf, if_true] at hrel hty
    obtain ⟨b, hb, hv⟩ := hrel
    subst hb
    exact Sim.bool b hf hty.2.1 hty.2.2 hty.1 hev hv (kindOK_plain _ _)

/-- **C03.3** `init_a_cast(target, p)` of the repaired lowering implements the C conversion from the C type `src`
    of `p` to the C type of `target`, for all widths: narrowing keeps the low bits, widening sign-extends iff the
    SOURCE is signed, same width keeps the pattern, a BOOL-flagged source becomes 0/1.
    Side conditions: `target` is not BOOL-flagged; a BOOL-flagged `p` (type `ut1`) is not converted to a plain
    1-bit unsigned type (then `init_a_cast` returns `p` itself, still BOOL-flagged: see `initACast_bool_to_u1`). -/
theorem initACast_fixed_correct (ms : MacroSem) (σ : MState) (p : CE) (src : CT) (vIL vC : Val) (target : VT)
    (hev : evalPure ms σ [] p.il = .ok vIL) (hrel : Rel p.ty vIL vC) (hty : TyOK p.ty src vC)
    (htf : target.hasFlag VT.gBOOL = false)
    (hne : p.ty.hasFlag VT.gBOOL = true → target.eqv p.ty = false) :
    ∃ v' v'', evalPure ms σ [] (initACast Cfg.fixed target p).il = .ok v' ∧
      convC src (vtCT target) vC = .ok v'' ∧
      Rel (initACast Cfg.fixed target p).ty v' v'' ∧ TyOK (initACast Cfg.fixed target p).ty (vtCT target) v'' := by
  have hs := Sim.of_spec hev hrel hty
  obtain ⟨x, hx⟩ := hs.bv
  have h := sim_initACast hs target htf hne x hx (vtCT target) rfl
  obtain ⟨v', h1, h2, h3⟩ := h.spec
  rw [← (initACast_fixed_kind_irrelevant target p).1] at h1
  rw [← (initACast_fixed_kind_irrelevant target p).2] at h2 h3
  exact ⟨v', _, h1, by rw [hx]; rfl, h2, h3⟩

/-- what the conversion computes on bit patterns (unfolding `convC`/`convBits`) -/
theorem convC_bv (src dst : CT) {n : Nat} (x : BitVec n) :
    convC src dst (.bv n x) = .ok (.bv dst.width
      (if dst.width ≤ n then x.setWidth dst.width else if src.signed then x.signExtend dst.width else x.setWidth dst.width)) := rfl

/-- non-vacuity of `initACast_fixed_correct`: `(uint64_t)` of an `int8_t` local holding −1 -/
example : ∃ (ms : MacroSem) (σ : MState) (p : CE) (src : CT) (vIL vC : Val) (target : VT),
    evalPure ms σ [] p.il = .ok vIL ∧ Rel p.ty vIL vC ∧ TyOK p.ty src vC ∧ target.hasFlag VT.gBOOL = false ∧
    (p.ty.hasFlag VT.gBOOL = true → target.eqv p.ty = false) :=
  ⟨fun _ _ => none, default, { il := .const true 8 (-1), ty := ⟨true, 8, 1⟩, kind := .plain }, ⟨true, 8⟩,
    .bv 8 0xff, .bv 8 0xff, ⟨false, 64, 1⟩, rfl, by simp [Rel, VT.hasFlag, VT.gBOOL],
    by simp [TyOK, VT.hasFlag, VT.gBOOL], by decide, by decide⟩

/-- the excluded case: a comparison result converted to a plain 1-bit unsigned type is returned as it is
    (BOOL-flagged, IL sort `bool`), whereas the C value is a 1-bit integer -/
theorem initACast_bool_to_u1 (cfg : Cfg) (p : CE) (h : p.ty = gBoolT) :
    initACast cfg { signed := false, width := 1, group := 1 } p = p := by
  apply initACast_of_eqv; rw [h]; rfl

/-! ## 4. T2: where the code's `init_a_cast` coincides with the repaired one -/

/-- **C03.4 (T2)** -/
theorem initACast_asCode_eq_fixed (target : VT) (p : CE) (h : CastSafe target p = true) :
    initACast Cfg.asCode target p = initACast Cfg.fixed target p := by
  unfold CastSafe at h
  unfold initACast
  simp only [cfgsimp, if_true, Bool.false_eq_true, if_false]
  by_cases he : target.eqv p.ty = true
  · rw [if_pos he, if_pos he]
  · rw [if_neg he, if_neg he]
    simp only [he, Bool.false_or] at h
    by_cases hb : (p.ty.hasFlag VT.gBOOL && !(target.hasFlag VT.gBOOL)) = true
    · rw [if_pos hb, if_pos hb]
      rw [if_pos hb] at h
      have hk : p.kind = .boolObj := by simpa using h
      simp only [condILk, hk]
    · rw [if_neg hb, if_neg hb]
      rw [if_neg hb] at h
      simp only [Bool.or_eq_true, Bool.not_eq_true'] at h
      rcases h with h | h
      · simp only [h, Bool.and_false, Bool.false_eq_true, if_false]
      · simp only [h, Bool.true_and]

example : CastSafe ⟨true, 64, 1⟩ { il := .varl "a", ty := ⟨true, 8, 1⟩, kind := .plain } = true := by decide
example : CastSafe ⟨false, 64, 1⟩ { il := .varl "a", ty := ⟨false, 8, 1⟩, kind := .plain } = true := by decide

/-- the condition of the specification text: the conversion is not one of a signed source to a wider unsigned
    target (and a BOOL source is a `BooleanOp`/`CompareOp`); then the two lowerings may differ syntactically (fill
    bit of a non-widening cast) but agree semantically: -/
theorem initACast_asCode_sem_eq_fixed_narrow (ms : MacroSem) (σ : MState) (target : VT) (p : CE) {n : Nat} (x : BitVec n)
    (hev : evalPure ms σ [] p.il = .ok (.bv n x)) (hw : target.width ≤ n) (hnb : p.ty.hasFlag VT.gBOOL = false) :
    evalPure ms σ [] (initACast Cfg.asCode target p).il = evalPure ms σ [] (initACast Cfg.fixed target p).il := by
  unfold initACast
  simp only [cfgsimp, if_true, Bool.false_eq_true, if_false, hnb, Bool.false_and]
  split
  · rfl
  · have hc : ∀ f : Bool, ilCast target.width f x = x.setWidth target.width := by
      intro f; unfold ilCast; rw [if_pos hw]
    cases target.signed <;> cases p.ty.signed <;>
      simp [evalPure, hev, bind, Except.bind, evalUn, hc]

/-- non-vacuity: `(uint8_t)` of an `int` constant −1 -/
example (ms : MacroSem) (σ : MState) :
    evalPure ms σ [] (CE.il { il := .const true 32 (-1), ty := ⟨true, 32, 1⟩, kind := .plain }) = .ok (.bv 32 (BitVec.ofInt 32 (-1))) ∧
    (⟨false, 8, 1⟩ : VT).width ≤ 32 ∧ (⟨true, 32, 1⟩ : VT).hasFlag VT.gBOOL = false :=
  ⟨rfl, by decide, by decide⟩

/-! ## 5. T3: witnesses -/

/-- `int8_t` −1 converted to `uint64_t` by the code as it is: `0xff` -/
theorem t3_int8_to_uint64_asCode (ms : MacroSem) (σ : MState) :
    evalPure ms σ [] (initACast Cfg.asCode ⟨false, 64, 1⟩ { il := .const true 8 (-1), ty := ⟨true, 8, 1⟩, kind := .plain }).il
      = .ok (.bv 64 0xff) := by
  simp [initACast, VT.eqv, VT.hasFlag, VT.gBOOL, cfgsimp, evalPure, bind, Except.bind, ilCast]

/-- … by the repaired lowering and in C: `0xffff_ffff_ffff_ffff` -/
theorem t3_int8_to_uint64_fixed (ms : MacroSem) (σ : MState) :
    evalPure ms σ [] (initACast Cfg.fixed ⟨false, 64, 1⟩ { il := .const true 8 (-1), ty := ⟨true, 8, 1⟩, kind := .plain }).il
      = .ok (.bv 64 0xffff_ffff_ffff_ffff) := by
  simp [initACast, VT.eqv, VT.hasFlag, VT.gBOOL, cfgsimp, evalPure, bind, Except.bind, evalUn, ilCast]
  decide

theorem t3_int8_to_uint64_C :
    convC ⟨true, 8⟩ ⟨false, 64⟩ (.bv 8 (BitVec.ofInt 8 (-1))) = .ok (.bv 64 0xffff_ffff_ffff_ffff) := by
  simp [convC, convBits]

/-- syntactic difference for each way `CastSafe` fails -/
theorem t3_castSafe_signed_to_unsigned :
    initACast Cfg.asCode ⟨false, 64, 1⟩ { il := .varl "a", ty := ⟨true, 8, 1⟩, kind := .plain } ≠
    initACast Cfg.fixed ⟨false, 64, 1⟩ { il := .varl "a", ty := ⟨true, 8, 1⟩, kind := .plain } := by
  simp [initACast, VT.eqv, VT.hasFlag, VT.gBOOL, cfgsimp]

theorem t3_castSafe_bool_not_boolObj :
    initACast Cfg.asCode ⟨true, 32, 1⟩ { il := .btrue, ty := gBoolT, kind := .boolLit true } ≠
    initACast Cfg.fixed ⟨true, 32, 1⟩ { il := .btrue, ty := gBoolT, kind := .boolLit true } := by
  simp [initACast, VT.eqv, VT.hasFlag, VT.gBOOL, gBoolT, gBool, cfgsimp, condILk]

/-! ## 6. chains of conversions -/

/-- **C03.6** two successive `init_a_cast` of the repaired lowering behave like `convC ∘ convC` -/
theorem conv_chain {ms σ p src vC} (hs : Sim ms σ p src vC) (t1 t2 : VT)
    (h1 : t1.hasFlag VT.gBOOL = false) (h2 : t2.hasFlag VT.gBOOL = false)
    (hne : p.ty.hasFlag VT.gBOOL = true → t1.eqv p.ty = false) :
    ∃ v1 v2, convC src (vtCT t1) vC = .ok v1 ∧ convC (vtCT t1) (vtCT t2) v1 = .ok v2 ∧
      Sim ms σ (initACast Cfg.fixed t2 (initACast Cfg.fixed t1 p)) (vtCT t2) v2 := by
  obtain ⟨x, hx⟩ := hs.bv
  have s1 := sim_initACast hs t1 h1 hne x hx (vtCT t1) rfl
  have n1 := initACast_noBool Cfg.fixed t1 p h1 hne
  have s2 := sim_initACast s1 t2 h2 (by intro h; rw [n1] at h; cases h) _ rfl (vtCT t2) rfl
  exact ⟨_, _, by rw [hx]; rfl, rfl, s2⟩

/-- non-vacuity of `conv_chain`: `(int64_t)(int8_t)5` -/
example (ms : MacroSem) (σ : MState) :
    Sim ms σ { il := numberIL ⟨true, 32, 1⟩ 5, ty := ⟨true, 32, 1⟩, kind := .lit 5 } ⟨true, 32⟩ (.bv 32 5) ∧
    (⟨true, 8, 1⟩ : VT).hasFlag VT.gBOOL = false ∧ (⟨true, 64, 1⟩ : VT).hasFlag VT.gBOOL = false :=
  ⟨Sim.int (t := ⟨true, 32⟩) 5 (by decide) rfl (by simp [numberIL, evalPure]) rfl
    (by simp only [KindOK, numberIL, true_and]; exact ⟨by decide, by decide, by decide⟩), by decide, by decide⟩

/-- promotion followed by a conversion is the direct conversion (6.3.1.1 then 6.3.1.3 = 6.3.1.3) -/
theorem conv_chain_promote (s d : CT) (x : BitVec s.width) :
    convBits s.promote d (convBits s s.promote x) = convBits s d x := convBits_promote s d x

end Rzil
