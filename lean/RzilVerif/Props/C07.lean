import RzilVerif.Model.Operands
import RzilVerif.Props.C02
/-!
# C07 — operands are bound to the right architectural resource, width and `.new` flag

`bindingSpec` (Model/Operands.lean) is the architectural table; the correspondence check compares the real
compiler's output on probe programs with it for every spelling. Here: kernel-checked facts about the table over
the FULL finite spelling spaces enumerated from the regenerated grammar terminals (`letterSpellings`: every
`REG_TYPE access V|N`; `immSpellings`; `explicitSingles`: every class × digit string × `_NEW`), and the link of the
table to the semantic model (the state cell a register expression reads is the one keyed by the table's operand
variable).
-/
namespace Rzil.Operands
open Rzil

/-- the enumeration really is the grammar's: 8 classes × 17 access spellings × V/N, 8 immediates -/
theorem letterSpellings_card : letterSpellings.length = 272 ∧ immSpellings.length = 8 ∧ explicitSingles.length = 512 := by
  decide +kernel

def slotNewFlag (b : Binding) : Option Bool :=
  match b.slot with
  | .app "ISA2REG" [_, _, .id f] => some (f == "true")
  | .app "EXPLICIT2OP" [_, _, .id f] => some (f == "true")
  | .app "ALIAS2OP" [_, .id f] => some (f == "true")
  | .app "NREG2OP" _ => some true
  | _ => none

/-- The `.new` flag of the slot look-up is set exactly for `.new` spellings (all letter and explicit spellings). -/
theorem new_flag_iff_new_spelling :
    ∀ sp ∈ letterSpellings ++ explicitSingles, ∀ b, bindingSpec sp = some b → slotNewFlag b = some sp.isNew := by
  decide +kernel

/-- … and the kind that decides the flag of every READ_REG agrees. -/
theorem kind_new_iff_new_spelling :
    ∀ sp ∈ letterSpellings ++ explicitSingles, ∀ b, bindingSpec sp = some b →
      (b.kind == .new || b.kind == .explicitNew || b.kind == .aliasNew) = sp.isNew := by
  decide +kernel

def isPairAcc (a : String) : Bool := a.length == 2

def widthOK : Spelling → Binding → Bool
  | .letter c a _, b => b.ty.signed && b.ty.width == (if c == 'P' then 8 else 32) * (if isPairAcc a then 2 else 1)
  | .explicit c _ none _, b => b.ty.signed && b.ty.width == (if c == 'P' then 8 else 32)
  | .explicit c _ (some _) _, b => b.ty.signed && b.ty.width == 2 * (if c == 'P' then 8 else 32)
  | _, _ => true

/-- Architectural widths: R/C/M/N 32, P 8, pairs double; always signed. -/
theorem width_by_class :
    ∀ sp ∈ letterSpellings ++ explicitSingles, ∀ b, bindingSpec sp = some b → widthOK sp b = true := by
  decide +kernel

def immOK : Spelling → Binding → Bool
  | .imm l, b =>
      b.ty.width == 32 && b.ty.signed == (l == 'r' || l == 'R' || l == 's' || l == 'S') &&
      (match b.slot with
       | .app f [.num 32, .ccast ty (.app "ISA2IMM" [.id "hi", .chr c])] =>
           f == (if b.ty.signed then "SN" else "UN") && ty == (if b.ty.signed then "st32" else "ut32") && c == String.singleton l
       | _ => false)
  | _, _ => false

/-- Immediates: every immediate letter of the grammar is defined, 32 bit, signed exactly for r R s S, fetched by its own letter. -/
theorem imm_signed_iff_rRsS :
    ∀ sp ∈ immSpellings, (bindingSpec sp).any (immOK sp) = true := by
  decide +kernel

def slotLetterOK : Spelling → Binding → Bool
  | .letter _ a _, b =>
      match b.slot with
      | .app "ISA2REG" [.id "hi", .chr c, _] => a.toList.head? == c.toList.head?
      | .app "NREG2OP" [.id "bundle", .chr c] => a.toList.head? == c.toList.head?
      | _ => false
  | _, _ => false

/-- The slot letter asked of the plugin is the access letter of the spelling. -/
theorem slot_letter_is_access_letter :
    ∀ sp ∈ letterSpellings, ∀ b, bindingSpec sp = some b → slotLetterOK sp b = true := by
  decide +kernel

def explicitOK : Spelling → Binding → Bool
  | .explicit c d none _, b =>
      match b.slot with
      | .app "EXPLICIT2OP" [.num n, .id cls, _] => some n == (natOfDigits d).map Int.ofNat && some cls == className c false
      | _ => false
  | _, _ => false

/-- The explicit register number and class handed to the plugin are the ones spelled. -/
theorem explicit_number_and_class :
    ∀ sp ∈ explicitSingles, ∀ b, bindingSpec sp = some b → explicitOK sp b = true := by
  decide +kernel

def opvarDistinct (s1 s2 : Spelling) : Bool :=
  match bindingSpec s1, bindingSpec s2 with
  | some b1, some b2 => b1.opvar != b2.opvar || s1 == s2
  | _, _ => true

theorem opvar_injective_table : letterSpellings.all (fun s1 => letterSpellings.all (fun s2 => opvarDistinct s1 s2)) = true := by
  decide +kernel

/-- Two different defined letter spellings never share an operand variable (so a read and a write through the same
    spelling use the same slot, and different operands use different ones). -/
theorem opvar_injective (sp1 sp2 : Spelling) (h1 : sp1 ∈ letterSpellings) (h2 : sp2 ∈ letterSpellings) (b1 b2 : Binding)
    (e1 : bindingSpec sp1 = some b1) (e2 : bindingSpec sp2 = some b2) (ho : b1.opvar = b2.opvar) : sp1 = sp2 := by
  have h := opvar_injective_table
  rw [List.all_eq_true] at h
  have h' := h sp1 h1
  rw [List.all_eq_true] at h'
  have h'' := h' sp2 h2
  simp only [opvarDistinct, e1, e2, ho, bne_self_eq_false, Bool.false_or, beq_iff_eq] at h''
  exact h''

/-- The semantic model keys the machine state by the same operand variable as the table. -/
theorem opvar_matches_semantic_model :
    ∀ sp ∈ letterSpellings ++ explicitSingles, ∀ b, bindingSpec sp = some b → opvarOf sp.text b.kind = b.opvar := by
  decide +kernel

/-- Aliases: for EVERY alias name (unbounded), the slot asks for exactly that alias with the spelled `.new` flag;
    32 bit unsigned except the three 64-bit counters. -/
theorem alias_binding (name : String) (new : Bool) (h : name ≠ "PC") :
    ∃ b, bindingSpec (.alias name new) = some b ∧
      b.slot = .app "ALIAS2OP" [.id ("HEX_REG_ALIAS_" ++ name), boolT new] ∧ b.ty.signed = false ∧
      b.ty.width = (if wide64Aliases.contains name then 64 else 32) ∧
      (b.kind = if new then .aliasNew else .alias) := by
  simp [bindingSpec, h]

/-- The program counter alias reads the packet address and has no `.new` form. -/
theorem pc_binding : (bindingSpec (.alias "PC" false)).map (·.kind) = some .pc ∧ bindingSpec (.alias "PC" true) = none := by
  decide

/-- What reading a specified register operand means in the semantic model: the cell of the table's operand variable
    (the `.new` bank for `.new` spellings and for destination-only registers), at the specified width. -/
theorem read_touches_named_cell (σ : MState) (sp : Spelling) (b : Binding) (h : opvarOf sp.text b.kind = b.opvar) :
    readRegC σ sp.text b.kind b.ty =
      .bv b.ty.width (BitVec.ofNat b.ty.width (match b.kind with
        | .src => σ.cur b.opvar
        | .new | .explicitNew | .aliasNew | .dst => σ.new b.opvar
        | .rw | .explicit | .alias => if σ.written b.opvar then σ.new b.opvar else σ.cur b.opvar
        | .pc => σ.pktAddr)) := by
  unfold readRegC
  rw [h]
  cases b.kind <;> rfl

-- non-vacuity
example : (bindingSpec (.letter 'R' "ss" false)).map (fun b => (b.ty.width, b.opvar, b.slot.render)) = some (64, "Rss_op", "ISA2REG(hi, 's', false)") := by decide
example : (bindingSpec (.letter 'N' "t" true)).map (fun b => (b.opvar, b.slot.render, b.declTy)) = some ("Nt_new_op", "NREG2OP(bundle, 't')", "const HexOp") := by decide
example : (bindingSpec (.explicit 'R' "1" (some "0") false)).map (fun b => (b.ty.width, b.opvar, b.slot.render)) = some (64, "R1_0_op", "EXPLICIT2OP(0, HEX_REG_CLASS_DOUBLE_REGS, false)") := by decide
example : bindingSpec (.explicit 'R' "33" (some "32") false) = none := by decide
example : bindingSpec (.letter 'P' "ss" false) = none := by decide
example : (readProbe (.letter 'P' "t" true) (default : Binding)).2 = "{ int64_t v = ((uint0_t)PtN); }" := by decide

end Rzil.Operands
