import RzilVerif.Model.Operands
import RzilVerif.Props.C02
/-!
# C07 — operands are bound to the right architectural resource, width and `.new` flag

`bindingSpec` (Model/Operands.lean) is the architectural table; the correspondence check compares the real
compiler's output on probe programs with it for every spelling. Here: kernel-checked facts about the table over
the FULL finite spelling spaces enumerated from the regenerated grammar terminals (`letterSpellings`: every
`REG_TYPE access V|N`; `immSpellings`; `explicitSingles`: every class × digit string × `_NEW`), and the link of the
table to the semantic model (the state cell a register expression reads is the one keyed by the table's operand
variable).
-/
namespace Rzil.Operands
open Rzil

/-- the enumeration really is the grammar's: 8 classes × 17 access spellings × V/N, 8 immediates -/
theorem letterSpellings_card : letterSpellings.length = 272 ∧ immSpellings.length = 8 ∧ explicitSingles.length = 512 := by
  decide +kernel

def slotNewFlag (b : Binding) : Option Bool :=
  match b.slot with
  | .app "ISA2REG" [_, _, .id f] => some (f == "true")
  | .app "EXPLICIT2OP" [_, _, .id f] => some (f == "true")
  | .app "ALIAS2OP" [_, .id f] => some (f == "true")
  | .app "NREG2OP" _ => some true
  | _ => none

/-- The `.new` flag of the slot look-up is set exactly for `.new` spellings (all letter and explicit spellings). -/
theorem new_flag_iff_new_spelling :
    ∀ sp ∈ letterSpellings ++ explicitSingles, ∀ b, bindingSpec sp = some b → slotNewFlag b = some sp.isNew := by
  decide +kernel

/-- … and the kind that decides the flag of every READ_REG agrees. -/
theorem kind_new_iff_new_spelling :
    ∀ sp ∈ letterSpellings ++ explicitSingles, ∀ b, bindingSpec sp = some b →
      (b.kind == .new || b.kind == .explicitNew || b.kind == .aliasNew) = sp.isNew := by
  decide +kernel

def isPairAcc (a : String) : Bool := a.length == 2

def widthOK : Spelling → Binding → Bool
  | .letter c a _, b => b.ty.signed && b.ty.width == (if c == 'P' then 8 else 32) * (if isPairAcc a then 2 else 1)
  | .explicit c _ none _, b => b.ty.signed && b.ty.width == (if c == 'P' then 8 else 32)
  | .explicit c _ (some _) _, b => b.ty.signed && b.ty.width == 2 * (if c == 'P' then 8 else 32)
  | _, _ => true

/-- Architectural widths: R/C/M/N 32, P 8, pairs double; always signed. -/
theorem width_by_class :
    ∀ sp ∈ letterSpellings ++ explicitSingles, ∀ b, bindingSpec sp = some b → widthOK sp b = true := by
  decide +kernel

def immOK : Spelling → Binding → Bool
  | .imm l, b =>
      b.ty.width == 32 && b.ty.signed == (l == 'r' || l == 'R' || l == 's' || l == 'S') &&
      (match b.slot with
       | .app f [.num 32, .ccast ty (.app "ISA2IMM" [.id "hi", .chr c])] =>
           f == (if b.ty.signed then "SN" else "UN") && ty == (if b.ty.signed then "st32" else "ut32") && c == String.singleton l
       | _ => false)
  | _, _ => false

/-- Immediates: every immediate letter of the grammar is defined, 32 bit, signed exactly for r R s S, fetched by its own letter. -/
theorem imm_signed_iff_rRsS :
    ∀ sp ∈ immSpellings, (bindingSpec sp).any (immOK sp) = true := by
  decide +kernel

def slotLetterOK : Spelling → Binding → Bool
  | .letter _ a _, b =>
      match b.slot with
      | .app "ISA2REG" [.id "hi", .chr c, _] => a.toList.head? == c.toList.head?
      | .app "NREG2OP" [.id "bundle", .chr c] => a.toList.head? == c.toList.head?
      | _ => false
  | _, _ => false

/-- The slot letter asked of the plugin is the access letter of the spelling. -/
theorem slot_letter_is_access_letter :
    ∀ sp ∈ letterSpellings, ∀ b, bindingSpec sp = some b → slotLetterOK sp b = true := by
  decide +kernel

def explicitOK : Spelling → Binding → Bool
  | .explicit c d none _, b =>
      match b.slot with
      | .app "EXPLICIT2OP" [.num n, .id cls, _] => some n == (natOfDigits d).map Int.ofNat && some cls == className c false
      | _ => false
  | _, _ => false

/-- The explicit register number and class handed to the plugin are the ones spelled. -/
theorem explicit_number_and_class :
    ∀ sp ∈ explicitSingles, ∀ b, bindingSpec sp = some b → explicitOK sp b = true := by
  decide +kernel

def opvarDistinct (s1 s2 : Spelling) : Bool :=
  match bindingSpec s1, bindingSpec s2 with
  | some b1, some b2 => b1.opvar != b2.opvar || s1 == s2
  | _, _ => true

theorem opvar_injective_table : letterSpellings.all (fun s1 => letterSpellings.all (fun s2 => opvarDistinct s1 s2)) = true := by
  decide +kernel

/-- Two different defined letter spellings never share an operand variable (so a read and a write through the same
    spelling use the same slot, and different operands use different ones). -/
theorem opvar_injective (sp1 sp2 : Spelling) (h1 : sp1 ∈ letterSpellings) (h2 : sp2 ∈ letterSpellings) (b1 b2 : Binding)
    (e1 : bindingSpec sp1 = some b1) (e2 : bindingSpec sp2 = some b2) (ho : b1.opvar = b2.opvar) : sp1 = sp2 := by
  have h := opvar_injective_table
  rw [List.all_eq_true] at h
  have h' := h sp1 h1
  rw [List.all_eq_true] at h'
  have h'' := h' sp2 h2
  simp only [opvarDistinct, e1, e2, ho, bne_self_eq_false, Bool.false_or, beq_iff_eq] at h''
  exact h''

/-- The semantic model keys the machine state by the same operand variable as the table. -/
theorem opvar_matches_semantic_model :
    ∀ sp ∈ letterSpellings ++ explicitSingles, ∀ b, bindingSpec sp = some b → opvarOf sp.text b.kind = b.opvar := by
  decide +kernel

/-- Aliases: for EVERY alias name (unbounded), the slot asks for exactly that alias with the spelled `.new` flag;
    32 bit unsigned except the three 64-bit counters. -/
theorem alias_binding (name : String) (new : Bool) (h : name ≠ "PC") :
    ∃ b, bindingSpec (.alias name new) = some b ∧
      b.slot = .app "ALIAS2OP" [.id ("HEX_REG_ALIAS_" ++ name), boolT new] ∧ b.ty.signed = false ∧
      b.ty.width = (if wide64Aliases.contains name then 64 else 32) ∧
      (b.kind = if new then .aliasNew else .alias) := by
  simp [bindingSpec, h]

/-- The program counter alias reads the packet address and has no `.new` form. -/
theorem pc_binding : (bindingSpec (.alias "PC" false)).map (·.kind) = some .pc ∧ bindingSpec (.alias "PC" true) = none := by
  decide

/-- What reading a specified register operand means in the semantic model: the cell of the table's operand variable
    (the `.new` bank for `.new` spellings and for destination-only registers), at the specified width. -/
theorem read_touches_named_cell (σ : MState) (sp : Spelling) (b : Binding) (h : opvarOf sp.text b.kind = b.opvar) :
    readRegC σ sp.text b.kind b.ty =
      .bv b.ty.width (BitVec.ofNat b.ty.width (match b.kind with
        | .src => σ.cur b.opvar
        | .new | .explicitNew | .aliasNew | .dst => σ.new b.opvar
        | .rw | .explicit | .alias => if σ.written b.opvar then σ.new b.opvar else σ.cur b.opvar
        | .pc => σ.pktAddr)) := by
  unfold readRegC
  rw [h]
  cases b.kind <;> rfl

-- non-vacuity
example : (bindingSpec (.letter 'R' "ss" false)).map (fun b => (b.ty.width, b.opvar, b.slot.render)) = some (64, "Rss_op", "ISA2REG(hi, 's', false)") := by decide
example : (bindingSpec (.letter 'N' "t" true)).map (fun b => (b.opvar, b.slot.render, b.declTy)) = some ("Nt_new_op", "NREG2OP(bundle, 't')", "const HexOp") := by decide
example : (bindingSpec (.explicit 'R' "1" (some "0") false)).map (fun b => (b.ty.width, b.opvar, b.slot.render)) = some (64, "R1_0_op", "EXPLICIT2OP(0, HEX_REG_CLASS_DOUBLE_REGS, false)") := by decide
example : bindingSpec (.explicit 'R' "33" (some "32") false) = none := by decide
example : bindingSpec (.letter 'P' "ss" false) = none := by decide
example : (readProbe (.letter 'P' "t" true) (default : Binding)).2 = "{ int64_t v = ((uint0_t)PtN); }" := by decide

/-! ## explicit register PAIRS (`R1:0`, `C9:8_NEW`, …) and operand-variable injectivity over all explicit spellings -/

/-- Explicit pairs, for ANY class character and digit strings (not only the 16384 enumerated ones): a defined pair spelling
    is architectural (`high = low + 1`, `low` even, `high ≤ classMax`), twice the class width and signed, asks the plugin
    for `EXPLICIT2OP(low, <64-bit class>, new)` with the `.new` flag of the spelling, and is held in
    `<cls><high>_<low>[_new]_op`. -/
theorem explicit_pair_binding_any (c : Char) (d q : String) (nw : Bool) (b : Binding)
    (h : bindingSpec (.explicit c d (some q) nw) = some b) :
    ∃ hi lo w cn, natOfDigits d = some hi ∧ natOfDigits q = some lo ∧ classWidth c = some w ∧ className c true = some cn ∧
      hi = lo + 1 ∧ lo % 2 = 0 ∧ hi ≤ classMax c ∧
      b.ty = ⟨true, 2 * w⟩ ∧
      b.slot = .app "EXPLICIT2OP" [.num lo, .id cn, boolT nw] ∧
      slotNewFlag b = some nw ∧
      b.opvar = String.singleton c ++ d ++ "_" ++ q ++ (if nw then "_new" else "") ++ "_op" ∧
      b.kind = (if nw then .explicitNew else .explicit) ∧ b.declTy = "const HexOp" := by
  simp only [bindingSpec, Option.isSome_some, Option.bind_eq_bind, Option.bind_eq_some_iff] at h
  obtain ⟨w, hw, hi, hhi, cn, hcn, h⟩ := h
  split at h
  · cases h
  · cases hlo : natOfDigits q with
    | none => rw [hlo] at h; cases h
    | some lo =>
      rw [hlo] at h
      simp only [Option.bind_some, Option.ite_none_left_eq_some, Option.some.injEq] at h
      obtain ⟨hc, h⟩ := h
      subst h
      simp only [Bool.or_eq_true, bne_iff_ne, ne_eq, decide_eq_true_eq, not_or, Decidable.not_not, Nat.not_lt] at hc
      refine ⟨hi, lo, w, cn, hhi, rfl, hw, hcn, hc.1.1, hc.1.2, hc.2, rfl, rfl, ?_, rfl, rfl, rfl⟩
      cases nw <;> rfl

theorem mem_explicitPairs_shape {sp : Spelling} (h : sp ∈ explicitPairs) :
    ∃ c d q nw, c ∈ explicitClasses ∧ d ∈ explicitDigits ∧ q ∈ explicitDigits ∧ sp = .explicit c d (some q) nw := by
  simp only [explicitPairs, List.mem_flatMap, List.mem_cons, List.not_mem_nil, or_false] at h
  obtain ⟨c, hc, d, hd, q, hq, h | h⟩ := h
  · exact ⟨c, d, q, false, hc, hd, hq, h⟩
  · exact ⟨c, d, q, true, hc, hd, hq, h⟩

/-- The table form over the 16384 enumerated pair spellings. -/
theorem explicit_pair_binding :
    ∀ sp ∈ explicitPairs, ∀ b, bindingSpec sp = some b →
      ∃ c d q nw hi lo w cn, sp = .explicit c d (some q) nw ∧
        natOfDigits d = some hi ∧ natOfDigits q = some lo ∧ classWidth c = some w ∧ className c true = some cn ∧
        hi = lo + 1 ∧ lo % 2 = 0 ∧ hi ≤ classMax c ∧
        b.ty.signed = true ∧ b.ty.width = 2 * w ∧
        b.slot = .app "EXPLICIT2OP" [.num lo, .id cn, boolT nw] ∧
        slotNewFlag b = some sp.isNew ∧
        b.opvar = String.singleton c ++ d ++ "_" ++ q ++ (if nw then "_new" else "") ++ "_op" := by
  intro sp hsp b hb
  obtain ⟨c, d, q, nw, -, -, -, rfl⟩ := mem_explicitPairs_shape hsp
  obtain ⟨hi, lo, w, cn, h1, h2, h3, h4, h5, h6, h7, h8, h9, h10, h11, -, -⟩ := explicit_pair_binding_any c d q nw b hb
  exact ⟨c, d, q, nw, hi, lo, w, cn, rfl, h1, h2, h3, h4, h5, h6, h7, by rw [h8], by rw [h8], h9, h10, h11⟩

/-- Converse, for any class that HAS pairs (`className c true = some _`: R, C, G, S): an architectural pair spelling
    is defined. -/
theorem explicit_pair_defined (c : Char) (d q : String) (nw : Bool) (lo : Nat) (cn : String)
    (hq : natOfDigits q = some lo) (hd : natOfDigits d = some (lo + 1)) (he : lo % 2 = 0) (hm : lo + 1 ≤ classMax c)
    (hc : className c true = some cn) : bindingSpec (.explicit c d (some q) nw) ≠ none := by
  have hw : classWidth c = some 32 ∧ (c == 'N') = false := by
    unfold className at hc
    split at hc
    · rename_i h; rw [beq_iff_eq] at h; subst h; decide
    split at hc
    · cases hc
    split at hc
    · rename_i h; rw [beq_iff_eq] at h; subst h; decide
    split at hc
    · cases hc
    split at hc
    · rename_i h; rw [beq_iff_eq] at h; subst h; decide
    split at hc
    · rename_i h; rw [beq_iff_eq] at h; subst h; decide
    · cases hc
  simp [bindingSpec, hw.1, hw.2, hq, hd, he, hc]
  omega

def archPair : Spelling → Bool
  | .explicit c d (some q) _ =>
      (className c true).isSome &&
      (match natOfDigits d, natOfDigits q with
       | some hi, some lo => hi == lo + 1 && lo % 2 == 0 && decide (hi ≤ classMax c)
       | _, _ => false)
  | _ => false

theorem explicit_pair_defined_table : explicitPairs.all (fun sp => (bindingSpec sp).isSome == archPair sp) = true := by
  decide +kernel

/-- Over the enumerated pair spellings: defined exactly when architectural for a class that has pairs. -/
theorem explicit_pair_defined_iff : ∀ sp ∈ explicitPairs, (bindingSpec sp).isSome = archPair sp := by
  intro sp h
  have := List.all_eq_true.mp explicit_pair_defined_table sp h
  exact beq_iff_eq.mp this

/-- Size of the architectural pair space inside the 16384 spellings: 4 classes (R, C, G, S) × 16 pairs × {plain, `_NEW`}. -/
theorem explicit_pair_defined_count :
    explicitPairs.length = 16384 ∧ (explicitPairs.filter (fun s => (bindingSpec s).isSome)).length = 128 := by
  decide +kernel

def splitUnderscore : List Char → List Char → List (List Char)
  | [], cur => [cur.reverse]
  | c :: cs, cur => if c == '_' then cur.reverse :: splitUnderscore cs [] else splitUnderscore cs (c :: cur)

/-- Reads the spelling back from an operand variable: `<cls><digits>[_<digits>][_new]_op` is an explicit register (pair),
    `<cls><letters>[_new]_op` a letter operand. -/
def decodeOpvar (v : String) : Option Spelling :=
  match v.toList with
  | [] => none
  | c :: rest =>
    match splitUnderscore rest [] with
    | [a, ['o', 'p']] =>
        some (if a.all Char.isDigit then .explicit c (String.ofList a) none false else .letter c (String.ofList a) false)
    | [a, ['n', 'e', 'w'], ['o', 'p']] =>
        some (if a.all Char.isDigit then .explicit c (String.ofList a) none true else .letter c (String.ofList a) true)
    | [a, q, ['o', 'p']] => some (.explicit c (String.ofList a) (some (String.ofList q)) false)
    | [a, q, ['n', 'e', 'w'], ['o', 'p']] => some (.explicit c (String.ofList a) (some (String.ofList q)) true)
    | _ => none

def decodesOK (sp : Spelling) : Bool :=
  match bindingSpec sp with
  | some b => decodeOpvar b.opvar == some sp
  | none => true

theorem opvar_decodes_table : (letterSpellings ++ explicitSingles).all decodesOK = true := by
  decide +kernel

theorem opvar_decodes_pairs_table : explicitPairs.all decodesOK = true := by
  decide +kernel

/-- The operand variable determines the spelling: ONE decoder reads every defined letter, explicit-single and
    explicit-pair spelling back from its operand variable. -/
theorem opvar_decodes :
    ∀ sp ∈ letterSpellings ++ explicitSingles ++ explicitPairs, ∀ b, bindingSpec sp = some b →
      decodeOpvar b.opvar = some sp := by
  intro sp h b hb
  have hok : decodesOK sp = true := by
    rcases List.mem_append.mp h with h | h
    · exact List.all_eq_true.mp opvar_decodes_table sp h
    · exact List.all_eq_true.mp opvar_decodes_pairs_table sp h
  simp only [decodesOK, hb] at hok
  exact beq_iff_eq.mp hok

/-- Two different defined spellings among ALL letter, explicit-single and explicit-pair spellings never share an operand
    variable (extends `opvar_injective` from the 272 letter spellings to the 17168 spellings). -/
theorem opvar_injective_explicit (sp1 sp2 : Spelling)
    (h1 : sp1 ∈ letterSpellings ++ explicitSingles ++ explicitPairs) (h2 : sp2 ∈ letterSpellings ++ explicitSingles ++ explicitPairs)
    (b1 b2 : Binding) (e1 : bindingSpec sp1 = some b1) (e2 : bindingSpec sp2 = some b2) (ho : b1.opvar = b2.opvar) :
    sp1 = sp2 := by
  have d1 := opvar_decodes sp1 h1 b1 e1
  have d2 := opvar_decodes sp2 h2 b2 e2
  rw [ho, d2] at d1
  exact (Option.some.inj d1).symm

def Spelling.isExplicit : Spelling → Bool
  | .explicit .. => true
  | _ => false

theorem letterSpellings_not_explicit : letterSpellings.all (fun s => !s.isExplicit) = true := by
  decide +kernel

theorem mem_explicitSingles_isExplicit {sp : Spelling} (h : sp ∈ explicitSingles) : sp.isExplicit = true := by
  simp only [explicitSingles, List.mem_flatMap, List.mem_cons, List.not_mem_nil, or_false] at h
  obtain ⟨c, -, d, -, h | h⟩ := h <;> subst h <;> rfl

/-- No explicit spelling (single or pair) shares its operand variable with a letter spelling. -/
theorem explicit_opvar_not_letter (sp1 sp2 : Spelling) (h1 : sp1 ∈ explicitSingles ++ explicitPairs) (h2 : sp2 ∈ letterSpellings)
    (b1 b2 : Binding) (e1 : bindingSpec sp1 = some b1) (e2 : bindingSpec sp2 = some b2) : b1.opvar ≠ b2.opvar := by
  intro ho
  have hx : sp1.isExplicit = true := by
    rcases List.mem_append.mp h1 with h | h
    · exact mem_explicitSingles_isExplicit h
    · obtain ⟨c, d, q, nw, -, -, -, rfl⟩ := mem_explicitPairs_shape h
      rfl
  have hl := List.all_eq_true.mp letterSpellings_not_explicit sp2 h2
  have : sp1 = sp2 :=
    opvar_injective_explicit sp1 sp2
      (by rw [List.append_assoc]; exact List.mem_append_right _ h1)
      (List.mem_append_left _ (List.mem_append_left _ h2)) b1 b2 e1 e2 ho
  rw [this] at hx
  rw [hx] at hl
  cases hl

-- kernel-checked examples for the pairs
example : (bindingSpec (.explicit 'R' "1" (some "0") false)).map (fun b => (b.ty.signed, b.ty.width, b.opvar, b.slot.render, slotNewFlag b)) =
    some (true, 64, "R1_0_op", "EXPLICIT2OP(0, HEX_REG_CLASS_DOUBLE_REGS, false)", some false) := by decide +kernel
example : (bindingSpec (.explicit 'C' "9" (some "8") true)).map (fun b => (b.ty.width, b.opvar, b.slot.render, slotNewFlag b, b.kind)) =
    some (64, "C9_8_new_op", "EXPLICIT2OP(8, HEX_REG_CLASS_CTR_REGS64, true)", some true, .explicitNew) := by decide +kernel
example : (bindingSpec (.explicit 'R' "31" (some "30") false)).map (fun b => (b.ty.width, b.opvar, b.slot.render)) =
    some (64, "R31_30_op", "EXPLICIT2OP(30, HEX_REG_CLASS_DOUBLE_REGS, false)") := by decide +kernel
example : (bindingSpec (.explicit 'S' "5" (some "4") false)).map (fun b => b.slot.render) =
    some "EXPLICIT2OP(4, HEX_REG_CLASS_SYS_REGS64, false)" := by decide +kernel
example : bindingSpec (.explicit 'R' "2" (some "1") false) = none := by decide +kernel       -- odd low
example : bindingSpec (.explicit 'R' "3" (some "0") false) = none := by decide +kernel       -- not consecutive
example : bindingSpec (.explicit 'P' "1" (some "0") false) = none := by decide +kernel       -- predicates have no pairs
example : bindingSpec (.explicit 'M' "1" (some "0") true) = none := by decide +kernel        -- modifier registers have no pairs
example : bindingSpec (.explicit 'V' "1" (some "0") false) = none := by decide +kernel       -- vector registers: no scalar width
example : Spelling.explicit 'R' "1" (some "0") false ∈ explicitPairs ∧ Spelling.explicit 'C' "9" (some "8") true ∈ explicitPairs := by
  decide +kernel
example : decodeOpvar "C9_8_new_op" = some (.explicit 'C' "9" (some "8") true) ∧ decodeOpvar "Rss_op" = some (.letter 'R' "ss" false) ∧
    decodeOpvar "R31_new_op" = some (.explicit 'R' "31" none true) := by decide +kernel

end Rzil.Operands
