import RzilVerif.Model.PPMacros
/-!
# C20 — macro patching, continuation joining, `do { } while (0)` stripping

Model: `RzilVerif/Model/PPMacros.lean`.

* `macroName_isSome_iff`, `macroName_define` — `macroName` is group 1 of `^#define\s+([\w_]*).*`.
* C (`replace_do_while_0`): `reSearch_eq_naive` (line-start optimisation = literal leftmost search),
  `reSearch_shape`, `reSearch_isSome_iff` (search succeeds iff the regex has a match),
  `replaceDoWhile0_shortens`, `replaceDoWhile0_fixpoint`, `replaceDoWhile0_idem`,
  `dowhile0_strips_simple` (+ `_sep`), the refuted literal clause
  `dowhile0_strips_simple_literal_statement`, the look-alike witness and the refuted
  `dowhile0_only_wrappers_full_statement`, `dowhile0_only_wrappers_partial`.
* B (continuations): `joinContinuations_no_trailing_backslash`, `joinContinuations_concat`
  (+ `_facts`), `joinContinuations_idem`, `joinContinuations_single` (+ `_error`).
* A (`patch_macros`): `patch_replaces_all` (+ `_original`), `patch_once_first_position`,
  `patch_user_only_added`, `patch_preserves_others`, `dictOfPatchLines_ok`.
-/
namespace Rzil.PPM

/-! ## Basic facts about the helpers -/

theorem dropPrefix?_eq_some {p s r : List Char} : dropPrefix? p s = some r ↔ s = p ++ r := by
  induction p generalizing s with
  | nil => simp [dropPrefix?, eq_comm]
  | cons a p ih =>
    cases s with
    | nil => simp [dropPrefix?]
    | cons b s =>
      simp only [dropPrefix?, List.cons_append, List.cons.injEq]
      split
      · rename_i h; subst h; simp [ih]
      · rename_i h; simp; intro h'; exact absurd h'.symm h

theorem dropPrefix?_append (p r : List Char) : dropPrefix? p (p ++ r) = some r :=
  dropPrefix?_eq_some.mpr rfl

/-- all characters are `\s` -/
def WS (w : List Char) : Prop := ∀ c ∈ w, pySpace c = true
/-- `.`* can match it -/
def NoNl (g : List Char) : Prop := '\n' ∉ g

instance (w : List Char) : Decidable (WS w) := by unfold WS; infer_instance
instance (g : List Char) : Decidable (NoNl g) := by unfold NoNl; infer_instance

theorem dropWhile_space_append {ws rest : List Char} (hws : WS ws)
    (hr : ∀ c, rest.head? = some c → pySpace c = false) :
    (ws ++ rest).dropWhile pySpace = rest := by
  induction ws with
  | nil =>
    cases rest with
    | nil => rfl
    | cons c r => have := hr c rfl; simp [this]
  | cons w ws ih =>
    have := hws w (by simp)
    simp only [List.cons_append, List.dropWhile_cons, this, if_true]
    exact ih (fun c hc => hws c (by simp [hc]))

theorem split_space (l : List Char) : ∃ w, l = w ++ l.dropWhile pySpace ∧ WS w :=
  ⟨l.takeWhile pySpace, (List.takeWhile_append_dropWhile).symm,
    fun c hc => (List.all_eq_true.mp List.all_takeWhile) c hc⟩

/-! ## `macroName` is group 1 of `^#define\s+([\w_]*).*` -/

/-- There is a match iff the line is `#define` + one whitespace character + anything. -/
theorem macroName_isSome_iff (l : Line) :
    (macroName l).isSome = true ↔ ∃ c rest, pySpace c = true ∧ l = kwDefine ++ c :: rest := by
  unfold macroName
  cases h : dropPrefix? kwDefine l with
  | none =>
    simp only [Option.isSome_none, Bool.false_eq_true, false_iff]
    rintro ⟨c, rest, _, rfl⟩
    rw [dropPrefix?_append] at h; cases h
  | some r =>
    rw [dropPrefix?_eq_some] at h
    subst h
    cases r with
    | nil => simp
    | cons c r' =>
      simp only
      split
      · rename_i hc; simp only [Option.isSome_some, true_iff]; exact ⟨c, r', hc, rfl⟩
      · rename_i hc
        simp only [Option.isSome_none, Bool.false_eq_true, false_iff]
        rintro ⟨c', rest, hc', e⟩
        simp at e
        exact hc (e.1 ▸ hc')

/-- Group 1 is the maximal `[\w_]*` run after the maximal whitespace run. -/
theorem macroName_define (w n r : List Char) (hw : WS w) (hne : w ≠ [])
    (hn : ∀ c ∈ n, isWordChar c = true)
    (hr : ∀ c, r.head? = some c → isWordChar c = false)
    (hsp : ∀ c, (n ++ r).head? = some c → pySpace c = false) :
    macroName (kwDefine ++ w ++ n ++ r) = some n := by
  cases w with
  | nil => exact absurd rfl hne
  | cons c w' =>
    have e : kwDefine ++ c :: w' ++ n ++ r = kwDefine ++ (c :: (w' ++ (n ++ r))) := by simp
    have e1 : (w' ++ (n ++ r)).dropWhile pySpace = n ++ r :=
      dropWhile_space_append (fun x hx => hw x (by simp [hx])) hsp
    have e2 : (n ++ r).takeWhile isWordChar = n := by
      rw [List.takeWhile_append_of_pos hn]
      cases r with
      | nil => simp
      | cons x r' => simp [hr x rfl]
    rw [e]
    simp only [macroName, dropPrefix?_append, hw c (by simp), if_true, e1, e2]

example : macroName "#define \t fA_1(x) x".toList = some "fA_1".toList := by decide
example : macroName "#define  (x)".toList = some [] := by decide
example : macroName "#defineA".toList = none ∧ macroName " #define A".toList = none := by decide

/-! ## C. `replace_do_while_0` -/

/-- `t` = `}\s*while\s*\(0\)` followed by `r`. -/
def CloseShape (t r : List Char) : Prop :=
  ∃ w1 w2, WS w1 ∧ WS w2 ∧ t = '}' :: (w1 ++ (kwWhile ++ (w2 ++ (kwZero ++ r))))

theorem closeAt_shape {t r : List Char} (h : closeAt t = some r) : CloseShape t r := by
  unfold closeAt at h
  split at h
  · cases h
  · rename_i c r0
    split at h
    · rename_i hc; subst hc
      split at h
      · cases h
      · rename_i r2 h2
        obtain ⟨w1, e1, hw1⟩ := split_space r0
        obtain ⟨w2, e2, hw2⟩ := split_space r2
        rw [dropPrefix?_eq_some] at h2 h
        refine ⟨w1, w2, hw1, hw2, ?_⟩
        rw [e1, h2, e2, h]
    · cases h

theorem closeAt_of_shape {t r : List Char} (h : CloseShape t r) : closeAt t = some r := by
  obtain ⟨w1, w2, hw1, hw2, rfl⟩ := h
  have e1 : (w1 ++ (kwWhile ++ (w2 ++ (kwZero ++ r)))).dropWhile pySpace
      = kwWhile ++ (w2 ++ (kwZero ++ r)) :=
    dropWhile_space_append hw1 (by intro c hc; simp [kwWhile] at hc; subst hc; decide)
  have e2 : (w2 ++ (kwZero ++ r)).dropWhile pySpace = kwZero ++ r :=
    dropWhile_space_append hw2 (by intro c hc; simp [kwZero] at hc; subst hc; decide)
  simp only [closeAt, if_true, e1, dropPrefix?_append, e2]

theorem lastClose_shape {t g r : List Char} (h : lastClose t = some (g, r)) :
    NoNl g ∧ ∃ t', t = g ++ t' ∧ CloseShape t' r := by
  induction t generalizing g r with
  | nil => simp [lastClose] at h
  | cons c t ih =>
    simp only [lastClose] at h
    split at h
    · cases h
    · rename_i hc
      split at h
      · rename_i g' r' h'
        cases h
        obtain ⟨hn, t', e, hs⟩ := ih h'
        refine ⟨?_, t', by rw [e]; rfl, hs⟩
        simp only [NoNl, List.mem_cons, not_or] at hn ⊢
        exact ⟨fun h => hc h.symm, hn⟩
      · split at h
        · rename_i r0 h0
          cases h
          exact ⟨by simp [NoNl], c :: t, rfl, closeAt_shape h0⟩
        · cases h

/-- `t` = `do\s*\{` `g2` `}\s*while\s*\(0\)` `g3` + rest, with `g3` the rest of the line. -/
def OpenShape (t g2 g3 : List Char) : Prop :=
  ∃ w0 t' r4, WS w0 ∧ NoNl g2 ∧ t = kwDo ++ (w0 ++ '{' :: (g2 ++ t')) ∧ CloseShape t' r4 ∧
    g3 = r4.takeWhile (fun c => decide (c ≠ '\n'))

theorem openAt_shape {t g2 g3 : List Char} (h : openAt t = some (g2, g3)) : OpenShape t g2 g3 := by
  unfold openAt at h
  split at h
  · cases h
  · rename_i r hr
    split at h
    · cases h
    · rename_i c r2 hr2
      split at h
      · rename_i hc; subst hc
        split at h
        · rename_i g r4 hl
          cases h
          obtain ⟨w0, e0, hw0⟩ := split_space r
          obtain ⟨hn, t', e, hs⟩ := lastClose_shape hl
          rw [dropPrefix?_eq_some] at hr
          refine ⟨w0, t', r4, hw0, hn, ?_, hs, rfl⟩
          rw [hr, e0, hr2, e]
        · cases h
      · cases h

theorem lastOpen_shape {t g1 g2 g3 : List Char} (h : lastOpen t = some (g1, g2, g3)) :
    NoNl g1 ∧ ∃ t1, t = g1 ++ t1 ∧ openAt t1 = some (g2, g3) := by
  induction t generalizing g1 with
  | nil => simp [lastOpen] at h
  | cons c t ih =>
    simp only [lastOpen] at h
    split at h
    · rename_i a b d h'
      cases h
      split at h'
      · cases h'
      · rename_i hc
        obtain ⟨hn, t1, e, ho⟩ := ih h'
        refine ⟨?_, t1, by rw [e]; rfl, ho⟩
        simp only [NoNl, List.mem_cons, not_or] at hn ⊢
        exact ⟨fun h => hc h.symm, hn⟩
    · split at h
      · rename_i a b ho
        cases h
        exact ⟨by simp [NoNl], c :: t, rfl, ho⟩
      · cases h

theorem reSearchNaive_shape {s : List Char} {r} (h : reSearchNaive s = some r) :
    ∃ pre t, s = pre ++ t ∧ lastOpen t = some r := by
  induction s with
  | nil => simp [reSearchNaive] at h
  | cons c t ih =>
    simp only [reSearchNaive] at h
    split at h
    · rename_i r' h'
      cases h
      exact ⟨[], c :: t, rfl, h'⟩
    · obtain ⟨pre, t', e, hl⟩ := ih h
      exact ⟨c :: pre, t', by rw [e]; rfl, hl⟩

theorem lastOpen_tail_none {c : Char} {t : List Char} (h : lastOpen (c :: t) = none)
    (hc : c ≠ '\n') : lastOpen t = none := by
  simp only [lastOpen, if_neg hc] at h
  split at h
  · cases h
  · rename_i h'; exact h'

theorem reSearchGo_eq_naive (s : List Char) (b : Bool) (hb : b = false → lastOpen s = none) :
    reSearchGo b s = reSearchNaive s := by
  induction s generalizing b with
  | nil => simp [reSearchGo, reSearchNaive]
  | cons c t ih =>
    simp only [reSearchGo, reSearchNaive]
    cases hl : lastOpen (c :: t) with
    | some r =>
      cases b with
      | false => simp [hl] at hb
      | true => simp
    | none =>
      have : (if b = true then (none : Option (List Char × List Char × List Char)) else none)
          = none := by split <;> rfl
      simp only [this]
      apply ih
      intro hcn
      exact lastOpen_tail_none hl (by simpa using hcn)

/-- The line-start optimisation is exact: `reSearch` is the literal leftmost-start search. -/
theorem reSearch_eq_naive (s : List Char) : reSearch s = reSearchNaive s :=
  reSearchGo_eq_naive s true (by simp)

theorem lastClose_isSome {g t' r : List Char} (hg : NoNl g) (hs : CloseShape t' r) :
    (lastClose (g ++ t')).isSome = true := by
  induction g with
  | nil =>
    have hc := closeAt_of_shape hs
    obtain ⟨w1, w2, _, _, rfl⟩ := hs
    simp only [List.nil_append, lastClose]
    rw [if_neg (by decide)]
    split
    · rfl
    · rw [hc]; rfl
  | cons c g ih =>
    simp only [NoNl, List.mem_cons, not_or] at hg
    have := ih hg.2
    simp only [List.cons_append, lastClose]
    rw [if_neg (fun h => hg.1 h.symm)]
    split
    · rfl
    · rename_i h; rw [h] at this; cases this

theorem openAt_isSome {w0 g2 t' r : List Char} (hw : WS w0) (hg : NoNl g2)
    (hs : CloseShape t' r) : (openAt (kwDo ++ (w0 ++ '{' :: (g2 ++ t')))).isSome = true := by
  have e0 : (w0 ++ '{' :: (g2 ++ t')).dropWhile pySpace = '{' :: (g2 ++ t') :=
    dropWhile_space_append hw (by intro c hc; simp at hc; subst hc; decide)
  have := lastClose_isSome hg hs
  simp only [openAt, dropPrefix?_append, e0, if_true]
  split
  · rfl
  · rename_i h; rw [h] at this; cases this

theorem lastOpen_isSome_of_openAt {t : List Char} (h : (openAt t).isSome = true) :
    (lastOpen t).isSome = true := by
  cases t with
  | nil => simp [openAt, dropPrefix?, kwDo] at h
  | cons c t =>
    simp only [lastOpen]
    split
    · rfl
    · split
      · rfl
      · rename_i h'; rw [h'] at h; cases h

theorem reSearchNaive_isSome {pre t : List Char} (h : (lastOpen t).isSome = true) :
    (reSearchNaive (pre ++ t)).isSome = true := by
  induction pre with
  | nil =>
    cases t with
    | nil => simp [lastOpen] at h
    | cons c t =>
      simp only [List.nil_append, reSearchNaive]
      split
      · rfl
      · rename_i h'; rw [h'] at h; cases h
  | cons c pre ih =>
    simp only [List.cons_append, reSearchNaive]
    split
    · rfl
    · exact ih

/-- Some substring of `s` matches `do\s*\{(.*)}\s*while\s*\(0\)` (groups 1 and 3 may be empty, so
    this is exactly "the regex of `replace_do_while_0` has a match in `s`"). -/
def DoWhileMatch (s : List Char) : Prop :=
  ∃ pre w0 g2 w1 w2 post, WS w0 ∧ WS w1 ∧ WS w2 ∧ NoNl g2 ∧
    s = pre ++ (kwDo ++ (w0 ++ '{' :: (g2 ++ '}' :: (w1 ++ (kwWhile ++ (w2 ++ (kwZero ++ post)))))))

/-- What a successful search returns: the three groups, in a text of the regex's shape. -/
theorem reSearch_shape {s a b c : List Char} (h : reSearch s = some (a, b, c)) :
    ∃ pre w0 w1 w2 r4, WS w0 ∧ WS w1 ∧ WS w2 ∧ NoNl a ∧ NoNl b ∧
      c = r4.takeWhile (fun c => decide (c ≠ '\n')) ∧
      s = pre ++ (a ++ (kwDo ++ (w0 ++ '{' :: (b ++ '}' ::
            (w1 ++ (kwWhile ++ (w2 ++ (kwZero ++ r4)))))))) := by
  rw [reSearch_eq_naive] at h
  obtain ⟨pre, t, e, hl⟩ := reSearchNaive_shape h
  obtain ⟨ha, t1, e1, ho⟩ := lastOpen_shape hl
  obtain ⟨w0, t', r4, hw0, hb, e2, ⟨w1, w2, hw1, hw2, e3⟩, hc⟩ := openAt_shape ho
  exact ⟨pre, w0, w1, w2, r4, hw0, hw1, hw2, ha, hb, hc, by rw [e, e1, e2, e3]⟩

/-- **Search correctness**: the modelled search succeeds exactly when the regex has a match. -/
theorem reSearch_isSome_iff (s : List Char) : (reSearch s).isSome = true ↔ DoWhileMatch s := by
  constructor
  · intro h
    cases hr : reSearch s with
    | none => rw [hr] at h; cases h
    | some r =>
      obtain ⟨a, b, c⟩ := r
      obtain ⟨pre, w0, w1, w2, r4, hw0, hw1, hw2, _, hb, _, e⟩ := reSearch_shape hr
      exact ⟨pre ++ a, w0, b, w1, w2, r4, hw0, hw1, hw2, hb, by rw [e]; simp⟩
  · rintro ⟨pre, w0, g2, w1, w2, post, hw0, hw1, hw2, hg, rfl⟩
    rw [reSearch_eq_naive]
    apply reSearchNaive_isSome
    apply lastOpen_isSome_of_openAt
    exact openAt_isSome hw0 hg ⟨w1, w2, hw1, hw2, rfl⟩

theorem reSearch_none_iff (s : List Char) : reSearch s = none ↔ ¬ DoWhileMatch s := by
  rw [← reSearch_isSome_iff]
  cases reSearch s <;> simp

/-- `replaceDoWhile0_shortens`: every round removes at least the 12 characters `do{}while(0)`. -/
theorem replaceDoWhile0_shortens {s a b c : List Char} (h : reSearch s = some (a, b, c)) :
    (a ++ b ++ c).length + 12 ≤ s.length := by
  obtain ⟨pre, w0, w1, w2, r4, _, _, _, _, _, hc, e⟩ := reSearch_shape h
  have : c.length ≤ r4.length := by rw [hc]; exact (List.takeWhile_prefix _).length_le
  rw [e]
  simp [kwDo, kwWhile, kwZero]
  omega

theorem dwIter_length_le (f : Nat) (s : List Char) : (dwIter f s).length ≤ s.length := by
  induction f generalizing s with
  | zero => exact Nat.le_refl _
  | succ f ih =>
    simp only [dwIter]
    split
    · exact Nat.le_refl _
    · rename_i a b c hr
      have := replaceDoWhile0_shortens hr
      have := ih (a ++ b ++ c)
      omega

theorem dwIter_fixpoint (f : Nat) (s : List Char) (h : s.length ≤ f) :
    reSearch (dwIter f s) = none := by
  induction f generalizing s with
  | zero =>
    have : s = [] := List.length_eq_zero_iff.mp (by omega)
    subst this
    rfl
  | succ f ih =>
    simp only [dwIter]
    split
    · assumption
    · rename_i a b c hr
      have := replaceDoWhile0_shortens hr
      exact ih _ (by omega)

/-- **`replaceDoWhile0_fixpoint`**: either nothing matched and the text is returned unchanged, or
    the result is `r ++ "\n"` where `r` contains no further match of the regex — the iteration
    stopped because nothing matches, never because the fuel ran out. -/
theorem replaceDoWhile0_fixpoint (code : List Char) :
    (¬ DoWhileMatch code ∧ replaceDoWhile0 code = code) ∨
    (DoWhileMatch code ∧ ∃ r, replaceDoWhile0 code = r ++ ['\n'] ∧ ¬ DoWhileMatch r ∧
      r.length + 12 ≤ code.length) := by
  unfold replaceDoWhile0
  cases hr : reSearch code with
  | none => exact Or.inl ⟨(reSearch_none_iff _).mp hr, rfl⟩
  | some r =>
    obtain ⟨a, b, c⟩ := r
    right
    have hlen := replaceDoWhile0_shortens hr
    refine ⟨(reSearch_isSome_iff _).mp (by rw [hr]; rfl), _, rfl, ?_, ?_⟩
    · exact (reSearch_none_iff _).mp (dwIter_fixpoint _ _ (by omega))
    · have := dwIter_length_le code.length (a ++ b ++ c)
      omega

/-! ### Stripping a simple wrapper -/

/-- `p` occurs in `l` as a contiguous substring (`p in l` in Python). -/
def hasSub (p : List Char) : List Char → Bool
  | [] => (dropPrefix? p []).isSome
  | c :: t => (dropPrefix? p (c :: t)).isSome || hasSub p t

theorem hasSub_iff {p l : List Char} : hasSub p l = true ↔ p <:+: l := by
  induction l with
  | nil =>
    simp only [hasSub, Option.isSome_iff_exists, dropPrefix?_eq_some]
    constructor
    · rintro ⟨r, h⟩
      exact ⟨[], r, by simp [← h]⟩
    · rintro ⟨a, b, h⟩
      simp at h
      exact ⟨[], by simp [h]⟩
  | cons c t ih =>
    simp only [hasSub, Bool.or_eq_true, ih, Option.isSome_iff_exists, dropPrefix?_eq_some]
    constructor
    · rintro (⟨r, h⟩ | ⟨a, b, h⟩)
      · exact ⟨[], r, by simp [h]⟩
      · exact ⟨c :: a, b, by simp [← h]⟩
    · rintro ⟨a, b, h⟩
      cases a with
      | nil => exact Or.inl ⟨b, by simpa using h.symm⟩
      | cons a0 a =>
        simp at h
        exact Or.inr ⟨a, b, by simp [h.2]⟩

theorem hasSub_append_false {p a b : List Char} (h : hasSub p (a ++ b) = false) :
    hasSub p a = false ∧ hasSub p b = false := by
  constructor
  · cases ha : hasSub p a with
    | false => rfl
    | true =>
      obtain ⟨x, y, e⟩ := hasSub_iff.mp ha
      have : hasSub p (a ++ b) = true := hasSub_iff.mpr ⟨x, y ++ b, by simp [← e]⟩
      rw [h] at this; cases this
  · cases hb : hasSub p b with
    | false => rfl
    | true =>
      obtain ⟨x, y, e⟩ := hasSub_iff.mp hb
      have : hasSub p (a ++ b) = true := hasSub_iff.mpr ⟨a ++ x, y, by simp [← e]⟩
      rw [h] at this; cases this

theorem hasSub_false_suffix {p l u : List Char} (h : hasSub p l = false) (hu : u <:+ l) :
    dropPrefix? p u = none := by
  cases hd : dropPrefix? p u with
  | none => rfl
  | some r =>
    obtain ⟨x, e⟩ := hu
    have : hasSub p l = true :=
      hasSub_iff.mpr ⟨x, r, by rw [← e, dropPrefix?_eq_some.mp hd]; simp⟩
    rw [h] at this; cases this

theorem dropDo_isSome {l : List Char} :
    (dropPrefix? kwDo l).isSome = true ↔ ∃ r, l = 'd' :: 'o' :: r := by
  simp [Option.isSome_iff_exists, dropPrefix?_eq_some, kwDo]

theorem lastOpen_none_of_noDo {t : List Char} (h : hasSub kwDo t = false) : lastOpen t = none := by
  induction t with
  | nil => rfl
  | cons c t ih =>
    simp only [hasSub, Bool.or_eq_false_iff] at h
    have hin : (if c = '\n' then none else lastOpen t) = none := by
      split
      · rfl
      · exact ih h.2
    have ho : openAt (c :: t) = none := by
      cases hd : dropPrefix? kwDo (c :: t) with
      | none => simp [openAt, hd]
      | some r => rw [hd] at h; cases h.1
    rw [lastOpen, hin, ho]

theorem reSearch_none_of_noDo {s : List Char} (h : hasSub kwDo s = false) : reSearch s = none := by
  rw [reSearch_eq_naive]
  induction s with
  | nil => rfl
  | cons c t ih =>
    rw [reSearchNaive, lastOpen_none_of_noDo h]
    simp only [hasSub, Bool.or_eq_false_iff] at h
    exact ih h.2

theorem noDo_append {l rest : List Char} (hl : hasSub kwDo l = false)
    (hr : hasSub kwDo rest = false) (hb : l.getLast? ≠ some 'd' ∨ rest.head? ≠ some 'o') :
    hasSub kwDo (l ++ rest) = false := by
  induction l with
  | nil => simpa using hr
  | cons c t ih =>
    simp only [hasSub, Bool.or_eq_false_iff] at hl
    have h2 : hasSub kwDo (t ++ rest) = false := by
      cases t with
      | nil => simpa using hr
      | cons b t' => exact ih hl.2 (by simpa using hb)
    simp only [List.cons_append, hasSub, Bool.or_eq_false_iff]
    refine ⟨?_, h2⟩
    cases hd : (dropPrefix? kwDo (c :: (t ++ rest))).isSome with
    | false => rfl
    | true =>
      exfalso
      obtain ⟨r, e⟩ := dropDo_isSome.mp hd
      cases t with
      | nil =>
        simp at e
        rcases hb with hb | hb
        · simp [e.1] at hb
        · simp [e.2] at hb
      | cons b t' =>
        simp at e
        have : (dropPrefix? kwDo (c :: b :: t')).isSome = true :=
          dropDo_isSome.mpr ⟨t', by simp [e.1, e.2.1]⟩
        rw [hl.1] at this; cases this

theorem noDo_ws {w : List Char} (hw : WS w) : hasSub kwDo w = false := by
  cases h : hasSub kwDo w with
  | false => rfl
  | true =>
    obtain ⟨a, b, e⟩ := hasSub_iff.mp h
    have := hw 'd' (by rw [← e]; simp [kwDo])
    exact absurd this (by decide)

theorem lastOpen_prepend {pre X a b c : List Char} (hp : NoNl pre)
    (h : lastOpen X = some (a, b, c)) : lastOpen (pre ++ X) = some (pre ++ a, b, c) := by
  induction pre with
  | nil => simpa using h
  | cons x pre ih =>
    simp only [NoNl, List.mem_cons, not_or] at hp
    rw [List.cons_append, lastOpen, if_neg (fun h => hp.1 h.symm), ih hp.2]
    rfl

theorem lastClose_prepend {g r g' x : List Char} (hg : NoNl g)
    (h : lastClose r = some (g', x)) : lastClose (g ++ r) = some (g ++ g', x) := by
  induction g with
  | nil => simpa using h
  | cons c g ih =>
    simp only [NoNl, List.mem_cons, not_or] at hg
    rw [List.cons_append, lastClose, if_neg (fun h => hg.1 h.symm), ih hg.2]
    rfl

theorem lastClose_none_of_not_mem {l rest : List Char} (hl : '}' ∉ l)
    (hr : lastClose rest = none) : lastClose (l ++ rest) = none := by
  induction l with
  | nil => simpa using hr
  | cons c t ih =>
    simp only [List.mem_cons, not_or] at hl
    rw [List.cons_append, lastClose]
    split
    · rfl
    · rw [ih hl.2]
      have : ¬ c = '}' := fun h => hl.1 h.symm
      simp [closeAt, this]

theorem lastClose_none_of_noWhile {l : List Char} (h : hasSub kwWhile l = false) :
    lastClose l = none := by
  induction l with
  | nil => rfl
  | cons c t ih =>
    have h' := h
    simp only [hasSub, Bool.or_eq_false_iff] at h
    rw [lastClose]
    split
    · rfl
    · rw [ih h.2]
      have : dropPrefix? kwWhile (t.dropWhile pySpace) = none :=
        hasSub_false_suffix h.2 (List.dropWhile_suffix _)
      simp [closeAt, this]

theorem takeWhile_noNl {l : List Char} (h : NoNl l) :
    l.takeWhile (fun c => decide (c ≠ '\n')) = l := by
  induction l with
  | nil => rfl
  | cons c t ih =>
    simp only [NoNl, List.mem_cons, not_or] at h
    rw [List.takeWhile_cons, if_pos (by simpa using fun e => h.1 e.symm), ih h.2]

theorem reSearch_of_lastOpen {s : List Char} {r} (h : lastOpen s = some r) :
    reSearch s = some r := by
  cases s with
  | nil => simp [lastOpen] at h
  | cons c t => simp [reSearch, reSearchGo, h]

theorem dwIter_of_none {s : List Char} (h : reSearch s = none) (f : Nat) : dwIter f s = s := by
  cases f with
  | zero => rfl
  | succ f => simp [dwIter, h]

theorem not_mem_ws {w : List Char} (hw : WS w) {c : Char} (hc : pySpace c = false) : c ∉ w :=
  fun h => by rw [hw c h] at hc; cases hc

theorem lastOpen_do {Y g2 g3 : List Char} (hT : lastOpen ('o' :: Y) = none)
    (hO : openAt (kwDo ++ Y) = some (g2, g3)) : lastOpen (kwDo ++ Y) = some ([], g2, g3) := by
  have e : kwDo ++ Y = 'd' :: 'o' :: Y := rfl
  rw [e] at hO ⊢
  rw [lastOpen, if_neg (by decide), hT, hO]

/-- One round on a simple wrapper (right-nested form). -/
theorem strips_simple_search {pre body post ws1 ws2 ws3 : List Char}
    (hw1 : WS ws1) (hw2 : WS ws2) (hw3 : WS ws3)
    (hpre : NoNl pre) (hbody : NoNl body) (hpost : NoNl post)
    (hdob : hasSub kwDo body = false) (hdop : hasSub kwDo post = false)
    (hwh : hasSub kwWhile post = false) :
    reSearch (pre ++ (kwDo ++ (ws1 ++ '{' :: (body ++ '}' ::
        (ws2 ++ (kwWhile ++ (ws3 ++ (kwZero ++ post))))))))
      = some (pre, body, post) := by
  have hClose : closeAt ('}' :: (ws2 ++ (kwWhile ++ (ws3 ++ (kwZero ++ post))))) = some post :=
    closeAt_of_shape ⟨ws2, ws3, hw2, hw3, rfl⟩
  have hRnone : lastClose (ws2 ++ (kwWhile ++ (ws3 ++ (kwZero ++ post)))) = none := by
    apply lastClose_none_of_not_mem (not_mem_ws hw2 (by decide))
    apply lastClose_none_of_not_mem (by decide)
    apply lastClose_none_of_not_mem (not_mem_ws hw3 (by decide))
    apply lastClose_none_of_not_mem (by decide)
    exact lastClose_none_of_noWhile hwh
  have hLC : lastClose ('}' :: (ws2 ++ (kwWhile ++ (ws3 ++ (kwZero ++ post)))))
      = some ([], post) := by
    rw [lastClose, if_neg (by decide), hRnone, hClose]
  have hLC2 := lastClose_prepend hbody hLC
  have e0 : List.dropWhile pySpace
        (ws1 ++ '{' :: (body ++ '}' :: (ws2 ++ (kwWhile ++ (ws3 ++ (kwZero ++ post))))))
      = '{' :: (body ++ '}' :: (ws2 ++ (kwWhile ++ (ws3 ++ (kwZero ++ post))))) :=
    dropWhile_space_append hw1 (by intro c hc; simp at hc; subst hc; decide)
  have hOpen : openAt (kwDo ++ (ws1 ++ '{' :: (body ++ '}' ::
      (ws2 ++ (kwWhile ++ (ws3 ++ (kwZero ++ post))))))) = some (body, post) := by
    simp only [openAt, dropPrefix?_append, e0, if_true, hLC2, List.append_nil,
      takeWhile_noNl hpost]
  -- no later `do`
  have d1 := noDo_append (l := kwZero) (by decide) hdop (Or.inl (by decide))
  have d2 := noDo_append (noDo_ws hw3) d1 (Or.inr (by simp [kwZero]))
  have d3 := noDo_append (l := kwWhile) (by decide) d2 (Or.inl (by decide))
  have d4 := noDo_append (noDo_ws hw2) d3 (Or.inr (by simp [kwWhile]))
  have d5 := noDo_append (l := ['}']) (by decide) d4 (Or.inl (by decide))
  have d6 := noDo_append hdob d5 (Or.inr (by simp))
  have d7 := noDo_append (l := ['{']) (by decide) d6 (Or.inl (by decide))
  have d8 := noDo_append (noDo_ws hw1) d7 (Or.inr (by simp))
  have d9 := noDo_append (l := ['o']) (by decide) d8 (Or.inl (by decide))
  have hTail := lastOpen_none_of_noDo d9
  have hX : lastOpen (kwDo ++ (ws1 ++ '{' :: (body ++ '}' ::
      (ws2 ++ (kwWhile ++ (ws3 ++ (kwZero ++ post))))))) = some ([], body, post) := by
    simp only [List.cons_append, List.nil_append] at hTail
    exact lastOpen_do hTail hOpen
  have := lastOpen_prepend hpre hX
  rw [List.append_nil] at this
  exact reSearch_of_lastOpen this

/-- **`dowhile0_strips_simple`** (corrected form, see `dowhile0_strips_simple_literal_statement`
    below): a wrapper `do\s*{ body }\s*while\s*(0)` between `pre` and `post` is replaced by
    `body` (and a newline is appended) when
    * `pre`, `body`, `post` contain no newline,
    * the RESULT `pre ++ body ++ post` contains no `do` (so in particular none of the three does,
      and no `do` is created at the seams),
    * `post` contains no `while`.
    (`while` in `pre`/`body` is harmless.) -/
theorem dowhile0_strips_simple (pre body post ws1 ws2 ws3 : List Char)
    (hw1 : WS ws1) (hw2 : WS ws2) (hw3 : WS ws3)
    (hpre : NoNl pre) (hbody : NoNl body) (hpost : NoNl post)
    (hdo : hasSub kwDo (pre ++ body ++ post) = false)
    (hwh : hasSub kwWhile post = false) :
    replaceDoWhile0 (pre ++ kwDo ++ ws1 ++ ['{'] ++ body ++ ['}'] ++ ws2 ++ kwWhile ++ ws3 ++
        kwZero ++ post) = pre ++ body ++ post ++ ['\n'] := by
  have h1 := hasSub_append_false hdo
  have h2 := hasSub_append_false h1.1
  have hs := strips_simple_search hw1 hw2 hw3 hpre hbody hpost h2.2 h1.2 hwh
  have e : pre ++ kwDo ++ ws1 ++ ['{'] ++ body ++ ['}'] ++ ws2 ++ kwWhile ++ ws3 ++ kwZero ++ post
      = pre ++ (kwDo ++ (ws1 ++ '{' :: (body ++ '}' ::
        (ws2 ++ (kwWhile ++ (ws3 ++ (kwZero ++ post))))))) := by
    simp [List.append_assoc]
  rw [e]
  unfold replaceDoWhile0
  rw [hs]
  simp only
  rw [dwIter_of_none (reSearch_none_of_noDo hdo)]

example : WS " ".toList ∧ WS "".toList ∧ WS " \t".toList ∧
    NoNl "x = 1; while (c) ".toList ∧ NoNl " y; {z} ".toList ∧ NoNl "; q".toList ∧
    hasSub kwDo ("x = 1; while (c) ".toList ++ " y; {z} ".toList ++ "; q".toList) = false ∧
    hasSub kwWhile "; q".toList = false := by decide
example : replaceDoWhile0 "x = 1; while (c) do { y; {z} }while \t(0); q".toList
    = "x = 1; while (c)  y; {z} ; q\n".toList := by decide
example : reSearch "a do { b } while (0) c\n".toList
    = some ("a ".toList, " b ".toList, " c".toList) := by decide

/-- The clause in the form "none of `pre`, `body`, `post` contains `do`", with the two seam
    conditions that the literal form forgets (no `d|o` across the two seams of the result). -/
theorem dowhile0_strips_simple_sep (pre body post ws1 ws2 ws3 : List Char)
    (hw1 : WS ws1) (hw2 : WS ws2) (hw3 : WS ws3)
    (hpre : NoNl pre) (hbody : NoNl body) (hpost : NoNl post)
    (hd1 : hasSub kwDo pre = false) (hd2 : hasSub kwDo body = false)
    (hd3 : hasSub kwDo post = false)
    (hs1 : pre.getLast? ≠ some 'd' ∨ (body ++ post).head? ≠ some 'o')
    (hs2 : body.getLast? ≠ some 'd' ∨ post.head? ≠ some 'o')
    (hwh : hasSub kwWhile post = false) :
    replaceDoWhile0 (pre ++ kwDo ++ ws1 ++ ['{'] ++ body ++ ['}'] ++ ws2 ++ kwWhile ++ ws3 ++
        kwZero ++ post) = pre ++ body ++ post ++ ['\n'] := by
  apply dowhile0_strips_simple pre body post ws1 ws2 ws3 hw1 hw2 hw3 hpre hbody hpost _ hwh
  rw [List.append_assoc]
  exact noDo_append hd1 (noDo_append hd2 hd3 hs2) hs1

example : ("x ".toList.getLast? ≠ some 'd' ∨ (" y ".toList ++ ";".toList).head? ≠ some 'o') ∧
    (" y ".toList.getLast? ≠ some 'd' ∨ ";".toList.head? ≠ some 'o') := by decide

/-- The clause exactly as worded ("`pre`, `body`, `post` contain none of the substrings `do`,
    `while` and no newline"): stated, NOT claimed — it is false, see the next theorem. -/
def dowhile0_strips_simple_literal_statement : Prop :=
  ∀ pre body post : List Char, NoNl pre → NoNl body → NoNl post →
    hasSub kwDo pre = false → hasSub kwDo body = false → hasSub kwDo post = false →
    hasSub kwWhile pre = false → hasSub kwWhile body = false → hasSub kwWhile post = false →
    replaceDoWhile0 (pre ++ "do {".toList ++ body ++ "} while (0)".toList ++ post)
      = pre ++ body ++ post ++ ['\n']

/-- Counterexample: the pieces `d`, `o{}wh`, `ile(0)` contain neither `do` nor `while`, but their
    concatenation is `do{}while(0)`, which the second round strips as well:
    `ddo {o{}wh} while (0)ile(0)` ↦ `"\n"` (Python agrees). -/
theorem dowhile0_strips_simple_literal_fails : ¬ dowhile0_strips_simple_literal_statement := by
  intro h
  have := h "d".toList "o{}wh".toList "ile(0)".toList (by decide) (by decide) (by decide)
    (by decide) (by decide) (by decide) (by decide) (by decide) (by decide)
  revert this
  decide

/-! ### Look-alike identifiers (known finding) -/

/-- **Witness**: `redo { x } while (0);` is not a `do`-loop, but the regex has no word boundary. -/
theorem dowhile0_lookalike_witness :
    replaceDoWhile0 "redo { x } while (0);\n".toList = "re x ;\n".toList := by decide

/-- `do` as a keyword token at the head of `t`: not preceded and not followed by an identifier
    character. -/
def doTokenAt (prev : Option Char) (t : List Char) : Bool :=
  (match prev with
   | some p => !isWordChar p
   | none => true) &&
  (match dropPrefix? kwDo t with
   | some r =>
     (match r.head? with
      | some n => !isWordChar n
      | none => true)
   | none => false)

/-- the text contains the keyword `do` (as a token) -/
def hasDoKeyword : Option Char → List Char → Bool
  | _, [] => false
  | prev, c :: t => doTokenAt prev (c :: t) || hasDoKeyword (some c) t

/-- The property's clause "only `do { X } while (0)` WRAPPERS are replaced": a text without the
    keyword `do` is returned unchanged. Stated, NOT claimed — refuted by the witness. -/
def dowhile0_only_wrappers_full_statement : Prop :=
  ∀ code : List Char, hasDoKeyword none code = false → replaceDoWhile0 code = code

theorem dowhile0_only_wrappers_fails : ¬ dowhile0_only_wrappers_full_statement := by
  intro h
  have := h "redo { x } while (0);\n".toList (by decide)
  revert this
  decide

/-- What does hold: a text without the SUBSTRING `do` is returned unchanged
    (decidable hypothesis `hasSub kwDo code = false`; missing w.r.t. the full statement: texts
    in which `do` occurs only inside identifiers). -/
theorem dowhile0_only_wrappers_partial (code : List Char) (h : hasSub kwDo code = false) :
    replaceDoWhile0 code = code := by
  unfold replaceDoWhile0
  rw [reSearch_none_of_noDo h]

example : hasSub kwDo "x = while (0) { y };\n".toList = false := by decide

/-- The final newline cannot be part of a match. -/
theorem doWhileMatch_snoc_nl {r : List Char} (h : DoWhileMatch (r ++ ['\n'])) : DoWhileMatch r := by
  obtain ⟨pre, w0, g2, w1, w2, post, hw0, hw1, hw2, hg, e⟩ := h
  rcases List.eq_nil_or_concat post with rfl | ⟨post', c, rfl⟩
  · exfalso
    have e' : r ++ ['\n'] = (pre ++ (kwDo ++ (w0 ++ '{' :: (g2 ++ '}' ::
        (w1 ++ (kwWhile ++ w2)))))) ++ kwZero := by rw [e]; simp
    have := congrArg List.getLast? e'
    rw [List.getLast?_append, List.getLast?_append] at this
    simp [kwZero] at this
  · simp only [List.concat_eq_append] at e
    refine ⟨pre, w0, g2, w1, w2, post', hw0, hw1, hw2, hg, ?_⟩
    have e2 : pre ++ (kwDo ++ (w0 ++ '{' :: (g2 ++ '}' :: (w1 ++ (kwWhile ++ (w2 ++
        (kwZero ++ (post' ++ [c]))))))))
        = (pre ++ (kwDo ++ (w0 ++ '{' :: (g2 ++ '}' :: (w1 ++ (kwWhile ++ (w2 ++
        (kwZero ++ post')))))))) ++ [c] := by simp
    rw [e2] at e
    exact (List.append_inj' e rfl).1

/-- `replace_do_while_0` is idempotent. -/
theorem replaceDoWhile0_idem (code : List Char) :
    replaceDoWhile0 (replaceDoWhile0 code) = replaceDoWhile0 code := by
  rcases replaceDoWhile0_fixpoint code with ⟨_, h⟩ | ⟨_, r, h, hr, _⟩
  · rw [h, h]
  · rw [h]
    have : reSearch (r ++ ['\n']) = none :=
      (reSearch_none_iff _).mpr (fun hm => hr (doWhileMatch_snoc_nl hm))
    unfold replaceDoWhile0
    rw [this]

/-! ## B. continuation joining -/

/-- the non-whitespace characters of a text -/
def ns (l : List Char) : List Char := l.filter (fun c => !pySpace c)

theorem ns_append (a b : List Char) : ns (a ++ b) = ns a ++ ns b := by simp [ns]

theorem ns_ws {w : List Char} (hw : WS w) : ns w = [] := by
  simp only [ns, List.filter_eq_nil_iff]
  intro c hc; simp [hw c hc]

theorem ws_reverse {w : List Char} (hw : WS w) : WS w.reverse :=
  fun c hc => hw c (List.mem_reverse.mp hc)

theorem ns_dropWhile (l : List Char) : ns (l.dropWhile pySpace) = ns l := by
  induction l with
  | nil => rfl
  | cons c t ih =>
    rw [List.dropWhile_cons]
    split
    · rename_i h; rw [ih]; simp [ns, h]
    · rfl

theorem ns_reverse (l : List Char) : ns l.reverse = (ns l).reverse := by simp [ns]

theorem ns_strip (l : List Char) : ns (strip l) = ns l := by
  simp only [strip, ns_reverse, ns_dropWhile, List.reverse_reverse]

/-- A line has a continuation exactly when it is `a ++ "\\" ++ whitespace`; `contPrefix` is `a`. -/
theorem endsCont_split {l : List Char} (h : endsCont l = true) :
    ∃ w, WS w ∧ l = contPrefix l ++ '\\' :: w := by
  unfold endsCont at h
  split at h
  · rename_i c r hr
    have hc : c = '\\' := by simpa using h
    subst hc
    refine ⟨(l.reverse.takeWhile pySpace).reverse, ?_, ?_⟩
    · exact ws_reverse (fun c hc => (List.all_eq_true.mp List.all_takeWhile) c hc)
    · have e : l.reverse = l.reverse.takeWhile pySpace ++ l.reverse.dropWhile pySpace :=
        List.takeWhile_append_dropWhile.symm
      have e2 : l = (l.reverse.dropWhile pySpace).reverse ++ (l.reverse.takeWhile pySpace).reverse := by
        rw [← List.reverse_append, ← e, List.reverse_reverse]
      simp only [contPrefix, hr, List.drop_succ_cons, List.drop_zero]
      rw [hr] at e2
      simpa using e2
  · cases h

theorem endsCont_of_split (a : List Char) {w : List Char} (hw : WS w) :
    endsCont (a ++ '\\' :: w) = true ∧ contPrefix (a ++ '\\' :: w) = a := by
  have e : (a ++ '\\' :: w).reverse.dropWhile pySpace = '\\' :: a.reverse := by
    have : (a ++ '\\' :: w).reverse = w.reverse ++ '\\' :: a.reverse := by simp
    rw [this]
    exact dropWhile_space_append (ws_reverse hw) (by intro c hc; simp at hc; subst hc; decide)
  unfold endsCont contPrefix
  rw [e]
  simp

theorem ns_of_cont {l : List Char} (h : endsCont l = true) :
    ns l = ns (contPrefix l) ++ ['\\'] := by
  obtain ⟨w, hw, e⟩ := endsCont_split h
  have : ns ('\\' :: w) = ['\\'] := by
    have := ns_ws hw
    simp only [ns] at this ⊢
    rw [List.filter_cons, if_pos (by decide), this]
  conv => lhs; rw [e, ns_append, this]

theorem ns_mergeLine (l nx : List Char) :
    ns (mergeLine l nx) = ns (contPrefix l) ++ ns nx := by
  have : ns [' '] = [] := by decide
  simp [mergeLine, ns_append, ns_strip, this]

/-- `BsDel k y x`: `y` is `x` with `k` backslashes deleted (nothing else changed). -/
inductive BsDel : Nat → List Char → List Char → Prop
  | nil : BsDel 0 [] []
  | keep (c : Char) {k y x} : BsDel k y x → BsDel k (c :: y) (c :: x)
  | del {k y x} : BsDel k y x → BsDel (k + 1) y ('\\' :: x)

theorem BsDel.refl (l : List Char) : BsDel 0 l l := by
  induction l with
  | nil => exact .nil
  | cons c t ih => exact .keep c ih

theorem BsDel.append {k1 k2 : Nat} {y1 x1 y2 x2 : List Char} (h1 : BsDel k1 y1 x1)
    (h2 : BsDel k2 y2 x2) : BsDel (k2 + k1) (y1 ++ y2) (x1 ++ x2) := by
  induction h1 with
  | nil => simpa using h2
  | keep c _ ih => exact .keep c ih
  | del _ ih => exact .del ih

theorem BsDel.insert {a b : List Char} {k : Nat} {y : List Char} (h : BsDel k y (a ++ b)) :
    BsDel (k + 1) y (a ++ '\\' :: b) := by
  induction a generalizing k y with
  | nil => exact .del h
  | cons c a ih =>
    cases h with
    | keep _ h' => exact .keep c (ih h')
    | del h' => exact .del (ih h')

/-- What `BsDel` means in elementary terms. -/
theorem BsDel.facts {k : Nat} {y x : List Char} (h : BsDel k y x) :
    y.Sublist x ∧ y.filter (fun c => decide (c ≠ '\\')) = x.filter (fun c => decide (c ≠ '\\')) ∧
    x.length = y.length + k := by
  induction h with
  | nil => simp
  | keep c _ ih =>
    obtain ⟨a, b, d⟩ := ih
    refine ⟨a.cons_cons c, ?_, by simp; omega⟩
    simp only [List.filter_cons, b]
  | del _ ih =>
    obtain ⟨a, b, d⟩ := ih
    refine ⟨a.cons _, ?_, by simp; omega⟩
    rw [List.filter_cons, if_neg (by decide), b]

theorem joinFrom_no_cont {cur : Line} {rest out : List Line} (h : joinFrom cur rest = some out) :
    ∀ l ∈ out, endsCont l = false := by
  induction rest generalizing cur out with
  | nil =>
    simp only [joinFrom] at h
    split at h
    · cases h
    · cases h; simpa using ‹¬ endsCont cur = true›
  | cons nx rest ih =>
    simp only [joinFrom] at h
    split at h
    · exact ih h
    · rename_i hc
      simp only [Option.map_eq_some_iff] at h
      obtain ⟨o, ho, rfl⟩ := h
      intro l hl
      rcases List.mem_cons.mp hl with rfl | hl
      · simpa using hc
      · exact ih ho l hl

/-- **`joinContinuations_no_trailing_backslash`**: no output line matches `\\\s*$`. -/
theorem joinContinuations_no_trailing_backslash {ls out : List Line}
    (h : joinContinuations ls = some out) : ∀ l ∈ out, endsCont l = false := by
  cases ls with
  | nil => simp [joinContinuations] at h; subst h; simp
  | cons l ls => exact joinFrom_no_cont h

theorem joinFrom_concat {cur : Line} {rest out : List Line} (h : joinFrom cur rest = some out) :
    ∃ k, out.length + k = rest.length + 1 ∧
      BsDel k (ns out.flatten) (ns (cur ++ rest.flatten)) := by
  induction rest generalizing cur out with
  | nil =>
    simp only [joinFrom] at h
    split at h
    · cases h
    · cases h; exact ⟨0, rfl, by simpa using BsDel.refl _⟩
  | cons nx rest ih =>
    simp only [joinFrom] at h
    split at h
    · rename_i hc
      obtain ⟨k, hk, hb⟩ := ih h
      refine ⟨k + 1, by simp; omega, ?_⟩
      rw [ns_append, ns_mergeLine, List.append_assoc, ← ns_append] at hb
      rw [List.flatten_cons, ns_append, ns_of_cont hc, List.append_assoc]
      -- delete the continuation backslash
      have hb' := hb.insert
      simpa [ns_append] using hb'
    · simp only [Option.map_eq_some_iff] at h
      obtain ⟨o, ho, rfl⟩ := h
      obtain ⟨k, hk, hb⟩ := ih ho
      refine ⟨k, by simp; omega, ?_⟩
      rw [List.flatten_cons, List.flatten_cons, ns_append, ns_append]
      simpa using (BsDel.refl (ns cur)).append hb

/-- **`joinContinuations_concat`**: the non-whitespace characters of the concatenated output are
    those of the concatenated input with exactly `#input lines - #output lines` backslashes deleted
    (one per join) and nothing else lost, reordered or added. -/
theorem joinContinuations_concat {ls out : List Line} (h : joinContinuations ls = some out) :
    out.length ≤ ls.length ∧
    BsDel (ls.length - out.length) (ns out.flatten) (ns ls.flatten) := by
  cases ls with
  | nil => simp [joinContinuations] at h; subst h; exact ⟨Nat.le_refl _, .nil⟩
  | cons l ls =>
    obtain ⟨k, hk, hb⟩ := joinFrom_concat h
    have : (l :: ls).length - out.length = k := by simp; omega
    rw [this]
    exact ⟨by simp; omega, hb⟩

/-- The same in elementary terms. -/
theorem joinContinuations_concat_facts {ls out : List Line} (h : joinContinuations ls = some out) :
    (ns out.flatten).Sublist (ns ls.flatten) ∧
    (ns out.flatten).filter (fun c => decide (c ≠ '\\'))
      = (ns ls.flatten).filter (fun c => decide (c ≠ '\\')) ∧
    (ns ls.flatten).length = (ns out.flatten).length + (ls.length - out.length) :=
  (joinContinuations_concat h).2.facts

example : joinContinuations ["#define A \\ ".toList, "  1 \\".toList, "+2".toList, "x".toList]
    = some ["#define A  1+2".toList, "x".toList] := by decide

theorem joinFrom_id {cur : Line} {rest : List Line} (h : ∀ l ∈ cur :: rest, endsCont l = false) :
    joinFrom cur rest = some (cur :: rest) := by
  induction rest generalizing cur with
  | nil => simp [joinFrom, h cur (by simp)]
  | cons nx rest ih =>
    rw [joinFrom, if_neg (by simp [h cur (by simp)]), ih (fun l hl => h l (by simp [hl]))]
    rfl

/-- Fixpoint fact: `join (join ls) = join ls`. -/
theorem joinContinuations_idem {ls out : List Line} (h : joinContinuations ls = some out) :
    joinContinuations out = some out := by
  have hn := joinContinuations_no_trailing_backslash h
  cases out with
  | nil => rfl
  | cons l out => exact joinFrom_id hn

/-- Single continuation: `[a ++ "\\" ++ ws, b] ↦ [strip(a ++ " ") ++ b]` (when the merged line does
    not itself end in a continuation — otherwise Python raises `IndexError`). -/
theorem joinContinuations_single (a b w : List Char) (hw : WS w)
    (hb : endsCont (strip (a ++ [' ']) ++ b) = false) :
    joinContinuations [a ++ '\\' :: w, b] = some [strip (a ++ [' ']) ++ b] := by
  obtain ⟨h1, h2⟩ := endsCont_of_split a hw
  simp [joinContinuations, joinFrom, h1, mergeLine, h2, hb]

theorem joinContinuations_single_error (a b w : List Char) (hw : WS w)
    (hb : endsCont (strip (a ++ [' ']) ++ b) = true) :
    joinContinuations [a ++ '\\' :: w, b] = none := by
  obtain ⟨h1, h2⟩ := endsCont_of_split a hw
  simp [joinContinuations, joinFrom, h1, mergeLine, h2, hb]

example : WS " \t".toList ∧ endsCont (strip ("  #define A".toList ++ [' ']) ++ " 1".toList) = false := by
  decide
example : WS "".toList ∧ endsCont (strip ("a\\".toList ++ [' ']) ++ "  ".toList) = true := by
  decide

/-! ## A. `patch_macros` -/

/-- every patch line defines the name it is stored under (true for `dictOfPatchLines`) -/
def DictWF (d : Dict) : Prop := ∀ e ∈ d, macroName e.2 = some e.1
def dictKeys (d : Dict) : List Name := d.map (·.1)
def dictLines (d : Dict) : List Line := d.map (·.2)

/-- the line defines a macro whose name is in `K` -/
def nameIn (K : List Name) (l : Line) : Bool :=
  match macroName l with
  | some n => decide (n ∈ K)
  | none => false

/-- the line defines macro `n` -/
def hasName (n : Name) (l : Line) : Bool := decide (macroName l = some n)

theorem dictGet_some_mem {d : Dict} {n : Name} {p : Line} (h : dictGet d n = some p) :
    (n, p) ∈ d := by
  induction d with
  | nil => simp [dictGet] at h
  | cons e d ih =>
    obtain ⟨k, v⟩ := e
    simp only [dictGet] at h
    split at h
    · rename_i hk; cases h; subst hk; simp
    · simp [ih h]

theorem dictGet_none_iff {d : Dict} {n : Name} : dictGet d n = none ↔ n ∉ dictKeys d := by
  induction d with
  | nil => simp [dictGet, dictKeys]
  | cons e d ih =>
    obtain ⟨k, v⟩ := e
    simp only [dictGet, dictKeys, List.map_cons, List.mem_cons, not_or]
    split
    · rename_i hk; simp [hk]
    · rename_i hk
      rw [ih]
      simp only [dictKeys]
      constructor
      · intro h; exact ⟨fun e => hk e.symm, h⟩
      · intro h; exact h.2

theorem dictGet_of_nodup {d : Dict} {n : Name} {p : Line} (hd : (dictKeys d).Nodup)
    (h : (n, p) ∈ d) : dictGet d n = some p := by
  induction d with
  | nil => simp at h
  | cons e d ih =>
    obtain ⟨k, v⟩ := e
    simp only [dictKeys, List.map_cons, List.nodup_cons] at hd
    simp only [dictGet]
    rcases List.mem_cons.mp h with h | h
    · cases h; simp
    · split
      · rename_i hk
        subst hk
        exact absurd (List.mem_map.mpr ⟨(k, p), h, rfl⟩) hd.1
      · exact ih hd.2 h

theorem mem_dictErase {d : Dict} {n : Name} {e : Name × Line} :
    e ∈ dictErase d n ↔ e ∈ d ∧ e.1 ≠ n := by
  simp [dictErase]

theorem dictGet_filter_key {d : Dict} {n : Name} (q : Name → Bool) (hq : q n = true) :
    dictGet (d.filter (fun e => q e.1)) n = dictGet d n := by
  induction d with
  | nil => rfl
  | cons e d ih =>
    obtain ⟨k, v⟩ := e
    rw [List.filter_cons]
    split
    · simp only [dictGet, ih]
    · rename_i hk
      have : k ≠ n := fun e => by subst e; exact hk hq
      simp only [dictGet, if_neg this, ih]

theorem dictLines_nodup {d : Dict} (hwf : DictWF d) (hd : (dictKeys d).Nodup) :
    (dictLines d).Nodup := by
  induction d with
  | nil => simp [dictLines]
  | cons e d ih =>
    simp only [dictKeys, List.map_cons, List.nodup_cons] at hd
    simp only [dictLines, List.map_cons, List.nodup_cons]
    refine ⟨?_, ih (fun e he => hwf e (by simp [he])) hd.2⟩
    intro hmem
    obtain ⟨e', he', heq⟩ := List.mem_map.mp hmem
    have h1 := hwf e (by simp)
    have h2 := hwf e' (by simp [he'])
    rw [heq, h1] at h2
    exact hd.1 (List.mem_map.mpr ⟨e', he', (Option.some.inj h2).symm⟩)

/-- Loop invariant: `K` = the keys of the original dict = remaining keys ∪ `succ_patched`. -/
structure Inv (K : List Name) (P : Dict) (S : List Name) : Prop where
  wf : DictWF P
  disj : ∀ e ∈ P, e.1 ∉ S
  cover : ∀ n, n ∈ K ↔ (n ∈ dictKeys P ∨ n ∈ S)

theorem Inv.init {P : Dict} (hwf : DictWF P) : Inv (dictKeys P) P [] :=
  ⟨hwf, by simp, by simp⟩

theorem Inv.step {K : List Name} {P : Dict} {S : List Name} {n : Name} {p : Line}
    (h : Inv K P S) (hg : dictGet P n = some p) : Inv K (dictErase P n) (n :: S) := by
  refine ⟨fun e he => h.wf e (mem_dictErase.mp he).1, ?_, ?_⟩
  · intro e he
    obtain ⟨h1, h2⟩ := mem_dictErase.mp he
    simp only [List.mem_cons, not_or]
    exact ⟨h2, h.disj e h1⟩
  · intro x
    rw [h.cover]
    simp only [dictKeys, List.mem_map, List.mem_cons, mem_dictErase]
    constructor
    · rintro (⟨e, he, rfl⟩ | hx)
      · by_cases hx : e.1 = n
        · exact Or.inr (Or.inl hx)
        · exact Or.inl ⟨e, ⟨he, hx⟩, rfl⟩
      · exact Or.inr (Or.inr hx)
    · rintro (⟨e, ⟨he, _⟩, rfl⟩ | rfl | hx)
      · exact Or.inl ⟨e, he, rfl⟩
      · exact Or.inl ⟨(x, p), dictGet_some_mem hg, rfl⟩
      · exact Or.inr hx

theorem hasName_of {m : Line} {n : Name} (hn : macroName m = some n) (x : Name) :
    hasName x m = decide (n = x) := by
  simp [hasName, hn]

theorem nameIn_of {m : Line} {n : Name} (hn : macroName m = some n) (K : List Name) :
    nameIn K m = decide (n ∈ K) := by
  simp [nameIn, hn]

/-- Everything about one run of the loop. -/
structure LoopSpec (K : List Name) (P : Dict) (S : List Name) (ms : List Line)
    (out : List Line) (P' : Dict) (S' : List Name) : Prop where
  inv : Inv K P' S'
  rest : P' = P.filter (fun e => !ms.any (hasName e.1))
  patched : ∀ l ∈ out, nameIn K l = true → l ∈ dictLines P
  others : out.filter (fun l => !nameIn K l) = ms.filter (fun l => !nameIn K l)
  names : ∀ l ∈ out, ∃ n, macroName l = some n ∧ n ∉ S ∧ ms.any (hasName n) = true
  succ : ∀ x ∈ S', x ∈ S ∨ ms.any (hasName x) = true

theorem patchLoop_spec {K : List Name} {P : Dict} {S : List Name} {ms out : List Line}
    {P' : Dict} {S' : List Name} (hinv : Inv K P S)
    (h : patchLoop P S ms = some (out, P', S')) : LoopSpec K P S ms out P' S' := by
  induction ms generalizing P S out with
  | nil =>
    simp only [patchLoop, Option.some.injEq, Prod.mk.injEq] at h
    obtain ⟨rfl, rfl, rfl⟩ := h
    exact ⟨hinv, (List.filter_eq_self.mpr (by simp)).symm, by simp, rfl, by simp, by simp⟩
  | cons m ms ih =>
    rw [patchLoop] at h
    cases hn : macroName m with
    | none => simp [hn] at h
    | some n =>
      simp only [hn] at h
      by_cases hS : n ∈ S
      · -- already patched: the line is dropped
        rw [if_pos hS] at h
        have sp := ih hinv h
        have hK : nameIn K m = true := by
          rw [nameIn_of hn]; simpa using (hinv.cover n).mpr (Or.inr hS)
        refine ⟨sp.inv, ?_, sp.patched, ?_, ?_, ?_⟩
        · rw [sp.rest]
          apply List.filter_congr
          intro e he
          have : n ≠ e.1 := fun h => hinv.disj e he (h ▸ hS)
          simp [List.any_cons, hasName_of hn, this]
        · rw [sp.others, List.filter_cons, if_neg (by simp [hK])]
        · intro l hl
          obtain ⟨x, h1, h2, h3⟩ := sp.names l hl
          exact ⟨x, h1, h2, by simp [List.any_cons, h3]⟩
        · intro x hx
          rcases sp.succ x hx with h1 | h1
          · exact Or.inl h1
          · exact Or.inr (by simp [List.any_cons, h1])
      · rw [if_neg hS] at h
        cases hg : dictGet P n with
        | some p =>
          -- first definition of a patched name: the patch line is emitted
          simp only [hg, Option.map_eq_some_iff] at h
          obtain ⟨⟨o, P1, S1⟩, h1, h2⟩ := h
          simp only [Prod.mk.injEq] at h2
          obtain ⟨rfl, rfl, rfl⟩ := h2
          have sp := ih (hinv.step hg) h1
          have hmem := dictGet_some_mem hg
          have hpn : macroName p = some n := hinv.wf _ hmem
          have hnK : n ∈ K := (hinv.cover n).mpr (Or.inl (List.mem_map.mpr ⟨_, hmem, rfl⟩))
          have hKm : nameIn K m = true := by rw [nameIn_of hn]; simpa using hnK
          have hKp : nameIn K p = true := by rw [nameIn_of hpn]; simpa using hnK
          refine ⟨sp.inv, ?_, ?_, ?_, ?_, ?_⟩
          · rw [sp.rest, dictErase, List.filter_filter]
            apply List.filter_congr
            intro e _
            by_cases hen : e.1 = n
            · simp [List.any_cons, hasName_of hn, hen]
            · have : n ≠ e.1 := fun h => hen h.symm
              simp [List.any_cons, hasName_of hn, hen, this]
          · intro l hl hk
            rcases List.mem_cons.mp hl with rfl | hl
            · exact List.mem_map.mpr ⟨_, hmem, rfl⟩
            · obtain ⟨e, he, rfl⟩ := List.mem_map.mp (sp.patched l hl hk)
              exact List.mem_map.mpr ⟨e, (mem_dictErase.mp he).1, rfl⟩
          · rw [List.filter_cons, if_neg (by simp [hKp]), sp.others, List.filter_cons,
              if_neg (by simp [hKm])]
          · intro l hl
            rcases List.mem_cons.mp hl with rfl | hl
            · exact ⟨n, hpn, hS, by simp [List.any_cons, hasName_of hn]⟩
            · obtain ⟨x, h1, h2, h3⟩ := sp.names l hl
              simp only [List.mem_cons, not_or] at h2
              exact ⟨x, h1, h2.2, by simp [List.any_cons, h3]⟩
          · intro x hx
            rcases sp.succ x hx with h1 | h1
            · rcases List.mem_cons.mp h1 with rfl | h1
              · exact Or.inr (by simp [List.any_cons, hasName_of hn])
              · exact Or.inl h1
            · exact Or.inr (by simp [List.any_cons, h1])
        | none =>
          -- unpatched name: the line is kept
          simp only [hg, Option.map_eq_some_iff] at h
          obtain ⟨⟨o, P1, S1⟩, h1, h2⟩ := h
          simp only [Prod.mk.injEq] at h2
          obtain ⟨rfl, rfl, rfl⟩ := h2
          have sp := ih hinv h1
          have hnk : n ∉ dictKeys P := dictGet_none_iff.mp hg
          have hKm : nameIn K m = false := by
            rw [nameIn_of hn]
            simp only [decide_eq_false_iff_not]
            intro hk
            rcases (hinv.cover n).mp hk with h | h
            · exact hnk h
            · exact hS h
          refine ⟨sp.inv, ?_, ?_, ?_, ?_, ?_⟩
          · rw [sp.rest]
            apply List.filter_congr
            intro e he
            have : n ≠ e.1 := fun h => hnk (h ▸ List.mem_map.mpr ⟨e, he, rfl⟩)
            simp [List.any_cons, hasName_of hn, this]
          · intro l hl hk
            rcases List.mem_cons.mp hl with rfl | hl
            · rw [hKm] at hk; cases hk
            · exact sp.patched l hl hk
          · rw [List.filter_cons, List.filter_cons (xs := ms), sp.others]
          · intro l hl
            rcases List.mem_cons.mp hl with rfl | hl
            · exact ⟨n, hn, hS, by simp [List.any_cons, hasName_of hn]⟩
            · obtain ⟨x, h1, h2, h3⟩ := sp.names l hl
              exact ⟨x, h1, h2, by simp [List.any_cons, h3]⟩
          · intro x hx
            rcases sp.succ x hx with h1 | h1
            · exact Or.inl h1
            · exact Or.inr (by simp [List.any_cons, h1])

theorem patchLoop_append (P : Dict) (S : List Name) (xs ys : List Line) :
    patchLoop P S (xs ++ ys) =
      (patchLoop P S xs).bind (fun r =>
        (patchLoop r.2.1 r.2.2 ys).map (fun r' => (r.1 ++ r'.1, r'.2))) := by
  induction xs generalizing P S with
  | nil =>
    simp only [List.nil_append, patchLoop, Option.bind_some]
    cases patchLoop P S ys <;> simp
  | cons m xs ih =>
    rw [List.cons_append, patchLoop, patchLoop]
    cases macroName m with
    | none => simp
    | some n =>
      simp only
      split
      · exact ih P S
      · cases dictGet P n with
        | some p =>
          simp only
          rw [ih]
          cases patchLoop (dictErase P n) (n :: S) xs with
          | none => simp
          | some r => simp only [Option.bind_some, Option.map_some, Option.map_map]; congr
        | none =>
          simp only
          rw [ih]
          cases patchLoop P S xs with
          | none => simp
          | some r => simp only [Option.bind_some, Option.map_some, Option.map_map]; congr

theorem patchLoop_append_some {P : Dict} {S : List Name} {xs ys out : List Line} {P' : Dict}
    {S' : List Name} (h : patchLoop P S (xs ++ ys) = some (out, P', S')) :
    ∃ o1 P1 S1 o2, patchLoop P S xs = some (o1, P1, S1) ∧
      patchLoop P1 S1 ys = some (o2, P', S') ∧ out = o1 ++ o2 := by
  rw [patchLoop_append] at h
  cases h1 : patchLoop P S xs with
  | none => simp [h1] at h
  | some r =>
    obtain ⟨o1, P1, S1⟩ := r
    simp only [h1, Option.bind_some, Option.map_eq_some_iff] at h
    obtain ⟨⟨o2, P2, S2⟩, h2, h3⟩ := h
    simp only [Prod.mk.injEq] at h3
    obtain ⟨rfl, rfl, rfl⟩ := h3
    exact ⟨o1, P1, S1, o2, rfl, h2, rfl⟩

/-- The lines of the patches whose name no macro line defines ("user-only" patches), dict order. -/
def userOnly (patches : Dict) (macros : List Line) : List Line :=
  dictLines (patches.filter (fun e => !macros.any (hasName e.1)))

/-- Shape of the result: the user-only patches reversed, then the loop output. -/
theorem patchMacros_eq {patches : Dict} {macros out : List Line} (hwf : DictWF patches)
    (h : patchMacros patches macros = some out) :
    ∃ body P' S', patchLoop patches [] macros = some (body, P', S') ∧
      out = (userOnly patches macros).reverse ++ body ∧
      LoopSpec (dictKeys patches) patches [] macros body P' S' := by
  simp only [patchMacros, Option.map_eq_some_iff] at h
  obtain ⟨⟨body, P', S'⟩, h1, rfl⟩ := h
  have sp := patchLoop_spec (Inv.init hwf) h1
  refine ⟨body, P', S', h1, ?_, sp⟩
  simp only [userOnly, dictLines, sp.rest]

theorem userOnly_mem {patches : Dict} {macros : List Line} {l : Line}
    (h : l ∈ userOnly patches macros) :
    ∃ e ∈ patches, e.2 = l ∧ macros.any (hasName e.1) = false := by
  simp only [userOnly, dictLines, List.mem_map, List.mem_filter] at h
  obtain ⟨e, ⟨he, hc⟩, rfl⟩ := h
  exact ⟨e, he, rfl, by simpa using hc⟩

theorem userOnly_nameIn {patches : Dict} {macros : List Line} (hwf : DictWF patches) {l : Line}
    (h : l ∈ userOnly patches macros) : nameIn (dictKeys patches) l = true := by
  obtain ⟨e, he, rfl, _⟩ := userOnly_mem h
  rw [nameIn_of (hwf e he)]
  have : e.1 ∈ dictKeys patches := List.mem_map.mpr ⟨e, he, rfl⟩
  simpa using this

/-- **`patch_preserves_others`**: the sub-list of lines that do not define a patched name is exactly
    the original sub-list (same lines, same order, same multiplicity). -/
theorem patch_preserves_others {patches : Dict} {macros out : List Line} (hwf : DictWF patches)
    (h : patchMacros patches macros = some out) :
    out.filter (fun l => !nameIn (dictKeys patches) l)
      = macros.filter (fun l => !nameIn (dictKeys patches) l) := by
  obtain ⟨body, P', S', _, rfl, sp⟩ := patchMacros_eq hwf h
  rw [List.filter_append, sp.others]
  have : (userOnly patches macros).reverse.filter (fun l => !nameIn (dictKeys patches) l) = [] := by
    simp only [List.filter_eq_nil_iff, List.mem_reverse]
    intro l hl
    simp [userOnly_nameIn hwf hl]
  rw [this, List.nil_append]

/-- **`patch_replaces_all`**: every output line that defines a patched name IS that name's patch
    line — no other definition of a patched name survives. -/
theorem patch_replaces_all {patches : Dict} {macros out : List Line} (hwf : DictWF patches)
    (hnd : (dictKeys patches).Nodup) (h : patchMacros patches macros = some out) :
    ∀ l ∈ out, ∀ n, macroName l = some n → n ∈ dictKeys patches → dictGet patches n = some l := by
  obtain ⟨body, P', S', _, rfl, sp⟩ := patchMacros_eq hwf h
  intro l hl n hn hk
  have hmem : l ∈ dictLines patches := by
    rcases List.mem_append.mp hl with hl | hl
    · obtain ⟨e, he, rfl, _⟩ := userOnly_mem (List.mem_reverse.mp hl)
      exact List.mem_map.mpr ⟨e, he, rfl⟩
    · exact sp.patched l hl (by rw [nameIn_of hn]; simpa using hk)
  obtain ⟨e, he, rfl⟩ := List.mem_map.mp hmem
  have := hwf e he
  rw [hn] at this
  cases this
  exact dictGet_of_nodup hnd he

/-- Corollary in the words of the property: an original definition of a patched macro (that is not
    textually the patch itself) does not occur in the output. -/
theorem patch_replaces_all_original {patches : Dict} {macros out : List Line}
    (hwf : DictWF patches) (hnd : (dictKeys patches).Nodup)
    (h : patchMacros patches macros = some out) {m p : Line} {n : Name}
    (hn : macroName m = some n) (hp : dictGet patches n = some p) (hne : m ≠ p) : m ∉ out := by
  intro hm
  have := patch_replaces_all hwf hnd h m hm n hn
    (List.mem_map.mpr ⟨_, dictGet_some_mem hp, rfl⟩)
  rw [hp] at this
  exact hne (Option.some.inj this).symm

theorem userOnly_nodup {patches : Dict} (macros : List Line) (hwf : DictWF patches)
    (hnd : (dictKeys patches).Nodup) : (userOnly patches macros).Nodup :=
  (dictLines_nodup hwf hnd).sublist (List.filter_sublist.map _)

/-- **`patch_user_only_added`**: a patch whose name no macro line defines appears in the output
    exactly once, namely in the prepended prefix (the user-only patches in reverse dict order). -/
theorem patch_user_only_added {patches : Dict} {macros out : List Line} (hwf : DictWF patches)
    (hnd : (dictKeys patches).Nodup) (h : patchMacros patches macros = some out)
    {n : Name} {p : Line} (hp : dictGet patches n = some p)
    (hno : macros.any (hasName n) = false) :
    ∃ body, out = (userOnly patches macros).reverse ++ body ∧
      p ∈ userOnly patches macros ∧ (userOnly patches macros).count p = 1 ∧ p ∉ body ∧
      out.count p = 1 := by
  obtain ⟨body, P', S', _, rfl, sp⟩ := patchMacros_eq hwf h
  have hmem := dictGet_some_mem hp
  have hin : p ∈ userOnly patches macros := by
    simp only [userOnly, dictLines, List.mem_map, List.mem_filter]
    exact ⟨(n, p), ⟨hmem, by simp [hno]⟩, rfl⟩
  have hc : (userOnly patches macros).count p = 1 := by
    rw [(userOnly_nodup macros hwf hnd).count, if_pos hin]
  have hnb : p ∉ body := by
    intro hb
    obtain ⟨x, h1, _, h3⟩ := sp.names p hb
    have := hwf _ hmem
    simp only at this
    rw [this] at h1
    cases h1
    rw [hno] at h3; cases h3
  refine ⟨body, rfl, hin, hc, hnb, ?_⟩
  rw [List.count_append, List.count_reverse, hc, List.count_eq_zero.mpr hnb]

/-- **`patch_once_first_position`**: if `m` is the FIRST definition of the patched name `n`
    (`macros = pre ++ m :: post`, no line of `pre` defines `n`), the output is `o1 ++ p :: o2` with
    the patch line `p` at the place of `m`: no line of `o1`, `o2` defines `n` (so `p` occurs exactly
    once and all later definitions are dropped), and the unpatched lines before/after `p` are exactly
    the unpatched lines of `pre`/`post`. -/
theorem patch_once_first_position {patches : Dict} {macros out : List Line}
    (hwf : DictWF patches) (h : patchMacros patches macros = some out)
    {n : Name} {p m : Line} {pre post : List Line} (hp : dictGet patches n = some p)
    (hm : macros = pre ++ m :: post) (hmn : macroName m = some n)
    (hpre : pre.any (hasName n) = false) :
    ∃ o1 o2, out = o1 ++ p :: o2 ∧ (∀ l ∈ o1 ++ o2, macroName l ≠ some n) ∧
      o1.filter (fun l => !nameIn (dictKeys patches) l)
        = pre.filter (fun l => !nameIn (dictKeys patches) l) ∧
      o2.filter (fun l => !nameIn (dictKeys patches) l)
        = post.filter (fun l => !nameIn (dictKeys patches) l) ∧
      out.count p = 1 := by
  subst hm
  obtain ⟨body, P', S', hloop, rfl, sp⟩ := patchMacros_eq hwf h
  obtain ⟨o1, P1, S1, o', h1, h2, rfl⟩ := patchLoop_append_some hloop
  have sp1 := patchLoop_spec (Inv.init hwf) h1
  -- state after `pre`: the patch for `n` is still there, `n` not yet in `succ_patched`
  have hg1 : dictGet P1 n = some p := by
    rw [sp1.rest, dictGet_filter_key (fun k => !pre.any (hasName k)) (by simp [hpre]), hp]
  have hS1 : n ∉ S1 := by
    intro hx
    rcases sp1.succ n hx with h | h
    · cases h
    · rw [hpre] at h; cases h
  rw [patchLoop] at h2
  simp only [hmn, if_neg hS1, hg1, Option.map_eq_some_iff] at h2
  obtain ⟨⟨o2, P2, S2⟩, h3, h4⟩ := h2
  simp only [Prod.mk.injEq] at h4
  obtain ⟨rfl, rfl, rfl⟩ := h4
  have sp2 := patchLoop_spec (sp1.inv.step hg1) h3
  have hpn : macroName p = some n := hwf _ (dictGet_some_mem hp)
  have hU : ∀ l ∈ userOnly patches (pre ++ m :: post), macroName l ≠ some n := by
    intro l hl hln
    obtain ⟨e, he, rfl, hany⟩ := userOnly_mem hl
    have := hwf e he
    rw [hln] at this
    cases this
    simp [hasName_of hmn] at hany
  have hO1 : ∀ l ∈ o1, macroName l ≠ some n := by
    intro l hl hln
    obtain ⟨x, hx1, _, hx3⟩ := sp1.names l hl
    rw [hln] at hx1; cases hx1
    rw [hpre] at hx3; cases hx3
  have hO2 : ∀ l ∈ o2, macroName l ≠ some n := by
    intro l hl hln
    obtain ⟨x, hx1, hx2, _⟩ := sp2.names l hl
    rw [hln] at hx1; cases hx1
    exact hx2 (by simp)
  have hall : ∀ l ∈ ((userOnly patches (pre ++ m :: post)).reverse ++ o1) ++ o2,
      macroName l ≠ some n := by
    intro l hl
    simp only [List.mem_append, List.mem_reverse] at hl
    rcases hl with (hl | hl) | hl
    · exact hU l hl
    · exact hO1 l hl
    · exact hO2 l hl
  refine ⟨(userOnly patches (pre ++ m :: post)).reverse ++ o1, o2, by simp, hall, ?_, sp2.others, ?_⟩
  · rw [List.filter_append, sp1.others]
    have : (userOnly patches (pre ++ m :: post)).reverse.filter
        (fun l => !nameIn (dictKeys patches) l) = [] := by
      simp only [List.filter_eq_nil_iff, List.mem_reverse]
      intro l hl
      simp [userOnly_nameIn hwf hl]
    rw [this, List.nil_append]
  · have hnot : p ∉ ((userOnly patches (pre ++ m :: post)).reverse ++ o1) ++ o2 :=
      fun hmem => hall p hmem hpn
    have e : (userOnly patches (pre ++ m :: post)).reverse ++ (o1 ++ p :: o2)
        = (((userOnly patches (pre ++ m :: post)).reverse ++ o1) ++ [p]) ++ o2 := by simp
    rw [e, List.count_append, List.count_append]
    simp only [List.mem_append, not_or] at hnot
    rw [List.count_eq_zero.mpr (by simpa using hnot.1), List.count_eq_zero.mpr hnot.2]
    simp

/-! ### The dict built from the patch lines satisfies the hypotheses of the four clauses -/

theorem dictSet_wf {d : Dict} {n : Name} {l : Line} (hwf : DictWF d) (hn : macroName l = some n) :
    DictWF (dictSet d n l) := by
  induction d with
  | nil => intro e he; simp [dictSet] at he; subst he; exact hn
  | cons e d ih =>
    obtain ⟨k, v⟩ := e
    simp only [dictSet]
    split
    · rename_i hk
      intro e he
      rcases List.mem_cons.mp he with rfl | he
      · simpa [hk] using hn
      · exact hwf e (by simp [he])
    · intro e he
      rcases List.mem_cons.mp he with rfl | he
      · exact hwf _ (by simp)
      · exact ih (fun e he => hwf e (by simp [he])) e he

/-- `patches[n] = l` keeps the position of an existing key and appends a new one. -/
theorem dictSet_keys (d : Dict) (n : Name) (l : Line) :
    dictKeys (dictSet d n l) = if n ∈ dictKeys d then dictKeys d else dictKeys d ++ [n] := by
  induction d with
  | nil => simp [dictSet, dictKeys]
  | cons e d ih =>
    obtain ⟨k, v⟩ := e
    simp only [dictSet]
    split
    · rename_i hk; simp [dictKeys, hk]
    · rename_i hk
      have hk' : ¬ n = k := fun e => hk e.symm
      simp only [dictKeys, List.map_cons, List.mem_cons, hk', false_or] at ih ⊢
      rw [ih]
      split <;> simp [*]

theorem dictGet_dictSet (d : Dict) (n : Name) (l : Line) : dictGet (dictSet d n l) n = some l := by
  induction d with
  | nil => simp [dictSet, dictGet]
  | cons e d ih =>
    obtain ⟨k, v⟩ := e
    simp only [dictSet]
    split
    · rename_i hk; simp [dictGet, hk]
    · rename_i hk; simp [dictGet, hk, ih]

theorem dictSet_nodup {d : Dict} (n : Name) (l : Line) (hd : (dictKeys d).Nodup) :
    (dictKeys (dictSet d n l)).Nodup := by
  rw [dictSet_keys]
  split
  · exact hd
  · rename_i hn
    rw [List.nodup_append]
    exact ⟨hd, by simp, by intro a ha b hb; simp at hb; subst hb; exact fun e => hn (e ▸ ha)⟩

theorem dictOfPatchLinesAux_ok {ls : List Line} {d0 d : Dict} (hwf : DictWF d0)
    (hnd : (dictKeys d0).Nodup) (h : dictOfPatchLinesAux ls d0 = some d) :
    DictWF d ∧ (dictKeys d).Nodup := by
  induction ls generalizing d0 with
  | nil => simp [dictOfPatchLinesAux] at h; subst h; exact ⟨hwf, hnd⟩
  | cons l ls ih =>
    simp only [dictOfPatchLinesAux] at h
    split at h
    · split at h
      · cases h
      · rename_i n hn
        exact ih (dictSet_wf hwf hn) (dictSet_nodup n l hnd) h
    · exact ih hwf hnd h

/-- The dict `patch_macros` builds is well-formed with distinct keys: the hypotheses `DictWF` and
    `Nodup` of the four clauses are not restrictions. -/
theorem dictOfPatchLines_ok {ls : List Line} {d : Dict} (h : dictOfPatchLines ls = some d) :
    DictWF d ∧ (dictKeys d).Nodup :=
  dictOfPatchLinesAux_ok (fun _ h => by cases h) (by simp [dictKeys]) h

instance (d : Dict) : Decidable (DictWF d) := by unfold DictWF; infer_instance

/-! ### Non-vacuity: one concrete patch run satisfying the hypotheses of all four clauses -/

def exPatchLines : List Line :=
  ["#define A 2".toList, "// comment".toList, "#define U 9".toList, "#define A(x) 3".toList]
def exDict : Dict := [("A".toList, "#define A(x) 3".toList), ("U".toList, "#define U 9".toList)]
def exMacros : List Line :=
  ["#define X 0".toList, "#define A 1".toList, "#define Y 0".toList, "#define  A 7".toList]
def exOut : List Line :=
  ["#define U 9".toList, "#define X 0".toList, "#define A(x) 3".toList, "#define Y 0".toList]

example : dictOfPatchLines exPatchLines = some exDict := by decide
example : DictWF exDict ∧ (dictKeys exDict).Nodup := by decide
example : patchMacros exDict exMacros = some exOut := by decide
-- `patch_once_first_position`: name `A`, first definition at index 1
example : dictGet exDict "A".toList = some "#define A(x) 3".toList ∧
    exMacros = ["#define X 0".toList] ++ "#define A 1".toList ::
      ["#define Y 0".toList, "#define  A 7".toList] ∧
    macroName "#define A 1".toList = some "A".toList ∧
    ["#define X 0".toList].any (hasName "A".toList) = false := by decide
-- `patch_user_only_added`: name `U`
example : dictGet exDict "U".toList = some "#define U 9".toList ∧
    exMacros.any (hasName "U".toList) = false := by decide
-- `patch_replaces_all_original`
example : macroName "#define  A 7".toList = some "A".toList ∧
    "#define  A 7".toList ≠ "#define A(x) 3".toList := by decide
-- a macro line without a name makes the Python raise
example : patchMacros exDict ["#define X 0".toList, "#undef X".toList] = none := by decide

end Rzil.PPM
