import RzilVerif.Props.C05
import RzilVerif.Props.C02
import RzilVerif.Model.StmtExprWF
/-!
  # C05 composed with C02: the statement theorems without abstract hypotheses
  (`ExprOK` discharged by `expr_correct_fixed`, `WFHyp` by the static check `WFES`).
-/
namespace Rzil
namespace C05

theorem exprOK_of_C02 {ms : MacroSem} (hms : MsOK ms) : ExprOK ms (fun σ e => WFE σ e = true) := by
  intro σ env e ce vC henv hwf hev hce
  exact expr_correct_fixed ms σ env e vC ce henv hms hwf hev hce

mutual
theorem WFE_of_static (ms : MacroSem) {c : Ctx} {σ : MState} (hinv : SInv c σ) (himm : ImmsCur c σ) :
    (e : CExpr) → {v : Val} → WFES c e = true → evalC ms σ e = .ok v → WFE σ e = true
  | .reg n k t, v, hs, _ => by
      simp only [WFES, wfRegS] at hs
      simp only [WFE_reg, wfReg]
      by_cases hk : k = .pc
      · simpa [hk] using hs
      · simp only [hk, ↓reduceIte, Bool.and_eq_true, Bool.or_eq_true, bne_iff_ne, ne_eq,
          List.contains_eq_mem, decide_eq_true_eq] at hs ⊢
        refine ⟨hs.1, ?_⟩
        rcases hs.2 with h | h
        · exact Or.inl h
        · exact Or.inr (by simp [hinv.srcs _ h])
  | .imm l s, v, hs, _ => by
      simp only [WFES, List.contains_eq_mem, decide_eq_true_eq] at hs
      simp only [WFE_imm, decide_eq_true_eq]
      exact himm l hs
  | .lit x h sfx, v, hs, _ => by simpa only [WFES, WFE_lit] using hs
  | .var n t, v, hs, hev => by
      simp only [WFES, wfVarS] at hs
      simp only [WFE_var, wfVar]
      rw [evalC_var] at hev
      cases hl : lookupS n σ.locals with
      | none => rw [hl] at hev; simp at hev
      | some w =>
        cases ht : lookupS n c.types with
        | none => rw [ht] at hs; simp at hs
        | some t' =>
          rw [ht] at hs
          obtain ⟨x, rfl⟩ := hinv.typed n t' w ht hl
          simpa using hs
  | .cast t e, v, hs, hev => by
      simp only [WFES, Bool.and_eq_true] at hs
      rw [evalC_cast] at hev
      obtain ⟨v1, h1, _⟩ := bind_ok hev
      simp only [WFE_cast, Bool.and_eq_true]
      exact ⟨WFE_of_static ms hinv himm e hs.1 h1, hs.2⟩
  | .un op e, v, hs, hev => by
      simp only [WFES] at hs
      rw [evalC_un] at hev
      obtain ⟨v1, h1, _⟩ := bind_ok hev
      simp only [WFE_un]
      exact WFE_of_static ms hinv himm e hs h1
  | .not e, v, hs, hev => by
      simp only [WFES] at hs
      rw [evalC_not] at hev
      obtain ⟨v1, h1, _⟩ := bind_ok hev
      simp only [WFE_not]
      exact WFE_of_static ms hinv himm e hs h1
  | .bin op a b, v, hs, hev => by
      simp only [WFES, Bool.and_eq_true] at hs
      rw [evalC_bin] at hev
      obtain ⟨v1, h1, h⟩ := bind_ok hev
      obtain ⟨v2, h2, _⟩ := bind_ok h
      simp only [WFE_bin, Bool.and_eq_true]
      exact ⟨WFE_of_static ms hinv himm a hs.1 h1, WFE_of_static ms hinv himm b hs.2 h2⟩
  | .shift op a b, v, hs, hev => by
      simp only [WFES, Bool.and_eq_true] at hs
      rw [evalC_shift] at hev
      obtain ⟨v1, h1, h⟩ := bind_ok hev
      obtain ⟨v2, h2, _⟩ := bind_ok h
      simp only [WFE_shift, Bool.and_eq_true]
      exact ⟨⟨WFE_of_static ms hinv himm a hs.1.1 h1, WFE_of_static ms hinv himm b hs.1.2 h2⟩, hs.2⟩
  | .cmp op a b, v, hs, hev => by
      simp only [WFES, Bool.and_eq_true] at hs
      rw [evalC_cmp] at hev
      obtain ⟨v1, h1, h⟩ := bind_ok hev
      obtain ⟨v2, h2, _⟩ := bind_ok h
      simp only [WFE_cmp, Bool.and_eq_true]
      exact ⟨WFE_of_static ms hinv himm a hs.1 h1, WFE_of_static ms hinv himm b hs.2 h2⟩
  | .log op a b, v, hs, hev => by
      simp only [WFES, Bool.and_eq_true] at hs
      rw [evalC_log] at hev
      obtain ⟨v1, h1, h⟩ := bind_ok hev
      obtain ⟨v2, h2, _⟩ := bind_ok h
      simp only [WFE_log, Bool.and_eq_true]
      exact ⟨WFE_of_static ms hinv himm a hs.1 h1, WFE_of_static ms hinv himm b hs.2 h2⟩
  | .tern x a b, v, hs, hev => by
      simp only [WFES, Bool.and_eq_true] at hs
      rw [evalC_tern] at hev
      obtain ⟨v0, h0, h⟩ := bind_ok hev
      obtain ⟨b0, _, h⟩ := bind_ok h
      obtain ⟨v1, h1, h⟩ := bind_ok h
      obtain ⟨v2, h2, _⟩ := bind_ok h
      simp only [WFE_tern, Bool.and_eq_true]
      exact ⟨⟨WFE_of_static ms hinv himm x hs.1.1 h0, WFE_of_static ms hinv himm a hs.1.2 h1⟩,
        WFE_of_static ms hinv himm b hs.2 h2⟩
  | .macro name args ret params, v, hs, hev => by
      simp only [WFES, Bool.and_eq_true] at hs
      rw [evalC_macro] at hev
      obtain ⟨vs, h1, _⟩ := bind_ok hev
      simp only [WFE_macro, Bool.and_eq_true]
      exact ⟨WFEs_of_static ms hinv himm args params hs.1 h1, hs.2⟩
  | .load s w t, v, _, _ => by simp only [WFE_load]
  | .post _ _ _, v, hs, _ => by simp [WFES] at hs
  | .call _ _ _ _, v, hs, _ => by simp [WFES] at hs
  | .stmtexpr _ _ _, v, hs, _ => by simp [WFES] at hs
theorem WFEs_of_static (ms : MacroSem) {c : Ctx} {σ : MState} (hinv : SInv c σ) (himm : ImmsCur c σ) :
    (as : List CExpr) → (ps : List CT) → {vs : List Val} → WFESs c as ps = true →
      evalCArgs ms σ as ps = .ok vs → WFEs σ as ps = true
  | [], _, vs, _, _ => by simp only [WFEs_nil]
  | _ :: _, [], vs, _, _ => by simp only [WFEs_cons_nil]
  | a :: as, p :: ps, vs, hs, hev => by
      simp only [WFESs, Bool.and_eq_true] at hs
      rw [evalCArgs_cons] at hev
      obtain ⟨v1, h1, h⟩ := bind_ok hev
      obtain ⟨v2, _, h⟩ := bind_ok h
      obtain ⟨v3, h3, _⟩ := bind_ok h
      simp only [WFEs_cons, Bool.and_eq_true]
      exact ⟨⟨WFE_of_static ms hinv himm a hs.1.1 h1, hs.1.2⟩, WFEs_of_static ms hinv himm as ps hs.2 h3⟩
end

/-- the static check discharges `WFHyp` for the well-formedness predicate of C02 -/
theorem WFHyp_of_static {ms : MacroSem} {c : Ctx} {es : List CExpr} (h : es.all (WFES c) = true) :
    WFHyp ms (fun σ e => WFE σ e = true) c es := by
  intro e he σ vC hinv himm hev
  exact WFE_of_static ms hinv himm e (List.all_eq_true.1 h e he) hev

/-- **C05 composed with C02, statements**: no abstract hypothesis left -/
theorem stmt_correct_fixed_closed {ms : MacroSem} (hms : MsOK ms) {c : Ctx} {env : CEnv}
    (henv : env.cfg = Cfg.fixed) (hc : c.ok = true) {s : CStmt} {st st' : TSt} {eff : ILEffect}
    (hcomp : compileStmt env st s = .ok (eff, st')) (hwf : WFStmt c s = true)
    (hwfe : (exprsOf s).all (WFES c) = true) {σC σIL σC' : MState} (hinv : Inv c σC σIL)
    (hex : ExecC ms s σC σC') :
    ∃ σIL', ExecIL ms eff σIL σIL' ∧ Inv c σC' σIL' :=
  stmt_correct_fixed (exprOK_of_C02 hms) henv hc hcomp hwf (WFHyp_of_static hwfe) hinv hex

/-- **C05 composed with C02, whole behaviour** (final states: `StRel`, which does not relate the immediates, see
    `prog_correct_fixed`) -/
theorem prog_correct_fixed_closed {ms : MacroSem} (hms : MsOK ms) {c : Ctx} (hc : c.ok = true)
    {prog : List CStmt} {eff : ILEffect} (hcomp : compileProg Cfg.fixed prog = .ok eff)
    (himms : ∀ l, l ∈ c.imms ↔ l ∈ progImms prog)
    (hwf : WFStmts c prog = true) (hwfe : (exprsOfList prog).all (WFES c) = true)
    {σ0 σC' : MState} (hloc : σ0.locals = []) (hsrcs : ∀ ov ∈ c.srcs, σ0.written ov = false)
    (hex : ExecCs ms prog σ0 σC') :
    ∃ σIL', ExecIL ms eff σ0 σIL' ∧ StRel σC' σIL' :=
  prog_correct_fixed (exprOK_of_C02 hms) hc hcomp himms hwf (WFHyp_of_static hwfe) hloc hsrcs hex

/-! ## T2 composed: the expression carve-out `CarveE` of C02 -/

theorem exprT2_of_C02 (env : CEnv) : ExprT2 env (CarveE env.assigned) :=
  fun e h => expr_asCode_eq_fixed env e h

/-- **T2, whole behaviour, no abstract hypothesis**: on the statement carve-out built over the expression
    carve-out of C02 the compiler as coded emits the repaired lowering -/
theorem prog_asCode_eq_fixed_closed (prog : List CStmt)
    (h : CarveSs (CarveE (assignedOfList prog)) { assigned := assignedOfList prog, cfg := Cfg.fixed } prog = true) :
    compileProg Cfg.asCode prog = compileProg Cfg.fixed prog :=
  prog_asCode_eq_fixed prog (exprT2_of_C02 _) h

/-- **T1 + T2 closed**: on the carve-out the lowering AS CODED preserves the C semantics (final states: `StRel`, which
    does not relate the immediates, see `prog_correct_fixed`) -/
theorem prog_correct_asCode_closed {ms : MacroSem} (hms : MsOK ms) {c : Ctx} (hc : c.ok = true)
    {prog : List CStmt} {eff : ILEffect}
    (hcarve : CarveSs (CarveE (assignedOfList prog)) { assigned := assignedOfList prog, cfg := Cfg.fixed } prog = true)
    (hcomp : compileProg Cfg.asCode prog = .ok eff)
    (himms : ∀ l, l ∈ c.imms ↔ l ∈ progImms prog)
    (hwf : WFStmts c prog = true) (hwfe : (exprsOfList prog).all (WFES c) = true)
    {σ0 σC' : MState} (hloc : σ0.locals = []) (hsrcs : ∀ ov ∈ c.srcs, σ0.written ov = false)
    (hex : ExecCs ms prog σ0 σC') :
    ∃ σIL', ExecIL ms eff σ0 σIL' ∧ StRel σC' σIL' :=
  prog_correct_asCode_on_carveout (exprOK_of_C02 hms) (exprT2_of_C02 _) hc hcarve hcomp himms hwf
    (WFHyp_of_static hwfe) hloc hsrcs hex

end C05
end Rzil
