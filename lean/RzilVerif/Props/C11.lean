import RzilVerif.Model.CTextPrint
import Std.Data.String.ToNat
import RzilVerif.Lemmas.LayoutPerm
import RzilVerif.Lemmas.WfClosed
/-!
# C11 — the Lean parser of the emitted C text is a left inverse of a token-level printer

1. `parseTerm_toToks` / `parseArgs_toToks` (+ `_fuel`, `_len` variants with explicit fuel bounds):
   on the printable fragment, printing then parsing gives the term / argument list back and leaves
   the following tokens, provided they satisfy `RestOk` (do not start with `->` **or `(`**: an
   identifier followed by `(` is read as a call, so the `(` exclusion is necessary, see the
   counter-examples after `parseTerm_toToks_len`).
2. `parseItems_toToks` (+ `_fuel`): a list of printable items parses back to itself;
   `intercalate_tyWords`: the declaration type survives the split-into-words / glue round trip.
4. `getterName_*`: injectivity in the part index for one instruction, the common prefix, and
   witnesses that different instruction names can collide.
5. `suffixName_*`: the `add_op` name determines base and counter (unconditionally); names from a
   strictly increasing counter are pairwise different; disjointness from user names needs a
   hypothesis (sufficient: user name does not end in a digit) and fails without it (witness).
6. What `wfBodyProblems ctx b = []` buys (end of the file, lemmas in `Lemmas/WfClosed.lean`):
   `wf_positional` (declared once and before use, one final `return`), `wf_layout` (`namesDistinct`, `noForwardRef`
   of C16), `wf_denoteIL_closed` (the denotation mentions no inlined name).  The last two are stated with the
   side condition `constFree` (no declared name is a plugin constant); the checker now reports such a declaration
   (`wf_constFree`), so `wf_layout'` / `wf_denoteIL_closed'` need no side condition; `exConst` is rejected.

The token-level statements put no lexical conditions on the strings inside tokens (identifier
shape, no `"` inside a string literal, …): the character-level tokenizer is outside this file.
-/
namespace Rzil

/-! ## Unfolding the parser one step at a time -/

theorem parsePostfix_stop (f : Nat) (t : Term) (rest : List Tok)
    (h : rest.head? ≠ some (Tok.sym "->")) : parsePostfix (f+1) t rest = some (t, rest) := by
  unfold parsePostfix
  split
  · simp at h
  · rfl

example : [Tok.sym ";", Tok.sym "->"].head? ≠ some (Tok.sym "->") := by decide

theorem parsePostfix_arrow (f : Nat) (t : Term) (fld : String) (rest : List Tok) :
    parsePostfix (f+1) t (Tok.sym "->" :: Tok.id fld :: rest) = parsePostfix f (Term.arrow t fld) rest := by
  simp [parsePostfix]

theorem parseTerm_addr (f : Nat) (rest : List Tok) :
    parseTerm (f+1) (Tok.sym "&" :: rest) = (parseTerm f rest).bind (fun p => some (Term.addr p.1, p.2)) := by
  simp [parseTerm]

theorem parseTerm_ccast (f : Nat) (ty : String) (rest : List Tok) :
    parseTerm (f+1) (Tok.sym "(" :: Tok.id ty :: Tok.sym ")" :: rest)
      = (parseTerm f rest).bind (fun p => some (Term.ccast ty p.1, p.2)) := by
  simp [parseTerm]

theorem parseTerm_id (f : Nat) (x : String) (rest : List Tok) (h : rest.head? ≠ some (Tok.sym "(")) :
    parseTerm (f+1) (Tok.id x :: rest) = parsePostfix f (Term.id x) rest := by
  unfold parseTerm
  split <;> simp_all

example : [Tok.sym ",", Tok.sym "("].head? ≠ some (Tok.sym "(") := by decide

theorem parseTerm_chr (f : Nat) (x : String) (rest : List Tok) :
    parseTerm (f+1) (Tok.chr x :: rest) = parsePostfix f (Term.chr x) rest := by
  simp [parseTerm]

theorem parseTerm_str (f : Nat) (x : String) (rest : List Tok) :
    parseTerm (f+1) (Tok.str x :: rest) = parsePostfix f (Term.str x) rest := by
  simp [parseTerm]

theorem parseTerm_app_nil (f : Nat) (g : String) (rest : List Tok) :
    parseTerm (f+1) (Tok.id g :: Tok.sym "(" :: Tok.sym ")" :: rest) = parsePostfix f (Term.app g []) rest := by
  simp [parseTerm]

theorem parseTerm_app (f : Nat) (g : String) (rest : List Tok) (h : rest.head? ≠ some (Tok.sym ")")) :
    parseTerm (f+1) (Tok.id g :: Tok.sym "(" :: rest)
      = (parseArgs f rest).bind (fun p => parsePostfix f (Term.app g p.1) p.2) := by
  unfold parseTerm
  split
  all_goals first | (simp_all; done) | skip
  rename_i h1 h2
  simp only [List.cons.injEq, Tok.id.injEq] at h2
  exact absurd h2.2.symm (h1 _)

example : [Tok.id "x", Tok.sym ")"].head? ≠ some (Tok.sym ")") := by decide

theorem repr_all_digits (n : Nat) : ∀ c ∈ (Nat.repr n).toList, c.isDigit = true := by
  intro c hc
  rw [Nat.toList_repr] at hc
  exact Nat.isDigit_of_mem_toDigits (by omega) (by omega) hc

/-- The decimal text of a natural number is read back by the parser's literal reader. -/
theorem parseNumLit_repr (n : Nat) : parseNumLit (Nat.repr n) = some n := by
  unfold parseNumLit
  split
  · rename_i rest heq
    have := repr_all_digits n 'x' (by rw [heq]; simp)
    simp at this
  · rename_i rest heq
    have := repr_all_digits n 'X' (by rw [heq]; simp)
    simp at this
  · simp

theorem parseTerm_num (f : Nat) (n : Nat) (rest : List Tok) :
    parseTerm (f+1) (Tok.num (toString n) :: rest) = parsePostfix f (Term.num n) rest := by
  simp [parseTerm, parseNumLit_repr]

theorem parseTerm_neg (f : Nat) (n : Nat) (rest : List Tok) :
    parseTerm (f+1) (Tok.sym "-" :: Tok.num (toString n) :: rest)
      = parsePostfix f (Term.num (-(n:Int))) rest := by
  simp [parseTerm, parseNumLit_repr]

theorem parseArgs_step (f : Nat) (ts : List Tok) :
    parseArgs (f+1) ts = (parseTerm f ts).bind (fun p =>
      match p.2 with
      | Tok.sym "," :: rest => (parseArgs f rest).bind (fun q => some (p.1 :: q.1, q.2))
      | Tok.sym ")" :: rest => some ([p.1], rest)
      | _ => none) := by
  simp [parseArgs]
  rfl

/-! ## Fuel bookkeeping -/

mutual
/-- Fuel that suffices to read `t.toToks` back. -/
def Term.fuel : Term → Nat
  | .app _ args => argsFuel args + 1
  | .addr t => t.fuel + 1
  | .ccast _ t => t.fuel + 1
  | .arrow t _ => t.fuel + 1
  | _ => 2
def argsFuel : List Term → Nat
  | [] => 1
  | t :: ts => max t.fuel (argsFuel ts) + 1
end

/-- Fuel units spent between entering `parseTerm` on a primary and the first `parsePostfix`
    call that sees the tokens *after* the term. -/
def Term.depth : Term → Nat
  | .arrow t _ => t.depth + 1
  | _ => 1

/-- What may follow a term: not `->` (the postfix loop is greedy) and not `(` (an identifier
    followed by `(` is read as a call). -/
def RestOk (rest : List Tok) : Prop :=
  rest.head? ≠ some (Tok.sym "->") ∧ rest.head? ≠ some (Tok.sym "(")

instance (rest : List Tok) : Decidable (RestOk rest) := by unfold RestOk; infer_instance

def PostOK (t : Term) : Prop :=
  ∀ f, t.fuel ≤ f + t.depth → ∀ rest, rest.head? ≠ some (Tok.sym "(") →
    parseTerm (f + t.depth) (t.toToks ++ rest) = parsePostfix f t rest

def TermOK (t : Term) : Prop :=
  ∀ fuel, t.fuel ≤ fuel → ∀ rest, RestOk rest → parseTerm fuel (t.toToks ++ rest) = some (t, rest)

def ArgsOK (ts : List Term) : Prop :=
  ∀ fuel, argsFuel ts ≤ fuel → ∀ rest, parseArgs fuel (argsToToks ts ++ rest) = some (ts, rest)

theorem argsFuel_pos (ts : List Term) : 1 ≤ argsFuel ts := by
  cases ts <;> simp [argsFuel]

theorem depth_lt_fuel : ∀ t : Term, t.depth + 1 ≤ t.fuel
  | .arrow t f => by have := depth_lt_fuel t; simp [Term.depth, Term.fuel]; omega
  | .app f args => by have := argsFuel_pos args; simp [Term.depth, Term.fuel]; omega
  | .addr t => by have := depth_lt_fuel t; simp [Term.depth, Term.fuel]; omega
  | .ccast _ t => by have := depth_lt_fuel t; simp [Term.depth, Term.fuel]; omega
  | .id _ => by simp [Term.depth, Term.fuel]
  | .num _ => by simp [Term.depth, Term.fuel]
  | .flt _ => by simp [Term.depth, Term.fuel]
  | .chr _ => by simp [Term.depth, Term.fuel]
  | .str _ => by simp [Term.depth, Term.fuel]

theorem TermOK_of_PostOK (t : Term) (h : PostOK t) : TermOK t := by
  intro fuel hf rest hr
  have hd := depth_lt_fuel t
  obtain ⟨f, rfl⟩ : ∃ f, fuel = f + 1 + t.depth := ⟨fuel - 1 - t.depth, by omega⟩
  rw [show f + 1 + t.depth = (f + 1) + t.depth from rfl, h (f+1) (by omega) rest hr.2]
  exact parsePostfix_stop f t rest hr.1

/- `PostOK`, `TermOK`, `ArgsOK` hypotheses below are inhabited: `postOK_id` etc. prove them for the
   atoms and `term_ok`/`args_ok` for every printable term / argument list. -/

/-! ## First tokens -/

theorem toToks_head : ∀ t : Term, ∃ tok tl, t.toToks = tok :: tl ∧ tok ≠ Tok.sym ")"
  | .id x => ⟨Tok.id x, [], by simp [Term.toToks], by simp⟩
  | .num n => by
      by_cases h : n < 0
      · exact ⟨Tok.sym "-", [Tok.num (toString n.natAbs)], by simp [Term.toToks, h], by simp⟩
      · exact ⟨Tok.num (toString n.natAbs), [], by simp [Term.toToks, h], by simp⟩
  | .flt s => ⟨Tok.num s, [], by simp [Term.toToks], by simp⟩
  | .chr s => ⟨Tok.chr s, [], by simp [Term.toToks], by simp⟩
  | .str s => ⟨Tok.str s, [], by simp [Term.toToks], by simp⟩
  | .app f args => ⟨Tok.id f, Tok.sym "(" :: argsToToks args, by simp [Term.toToks], by simp⟩
  | .addr t => ⟨Tok.sym "&", t.toToks, by simp [Term.toToks], by simp⟩
  | .ccast ty t => ⟨Tok.sym "(", Tok.id ty :: Tok.sym ")" :: t.toToks, by simp [Term.toToks], by simp⟩
  | .arrow t f => by
      obtain ⟨tok, tl, h, hne⟩ := toToks_head t
      exact ⟨tok, tl ++ [Tok.sym "->", Tok.id f], by simp [Term.toToks, h], hne⟩

theorem argsToToks_head (t : Term) (ts : List Term) (rest : List Tok) :
    (argsToToks (t :: ts) ++ rest).head? ≠ some (Tok.sym ")") := by
  obtain ⟨tok, tl, h, hne⟩ := toToks_head t
  cases ts with
  | nil => simp [argsToToks, h, hne]
  | cons t' ts => simp [argsToToks, h, hne]

/-! ## The constructors, one by one -/

theorem postOK_id (x : String) : PostOK (.id x) := by
  intro f _ rest hr
  simpa [Term.depth, Term.toToks] using parseTerm_id f x rest hr

theorem postOK_chr (x : String) : PostOK (.chr x) := by
  intro f _ rest _
  simpa [Term.depth, Term.toToks] using parseTerm_chr f x rest

theorem postOK_str (x : String) : PostOK (.str x) := by
  intro f _ rest _
  simpa [Term.depth, Term.toToks] using parseTerm_str f x rest

theorem postOK_num (n : Int) : PostOK (.num n) := by
  intro f _ rest _
  by_cases h : n < 0
  · have := parseTerm_neg f n.natAbs rest
    have e : -(n.natAbs : Int) = n := by omega
    rw [e] at this
    simpa [Term.depth, Term.toToks, h] using this
  · have := parseTerm_num f n.natAbs rest
    have e : (n.natAbs : Int) = n := by omega
    rw [e] at this
    simpa [Term.depth, Term.toToks, h] using this

theorem postOK_app_nil (g : String) : PostOK (.app g []) := by
  intro f _ rest _
  simpa [Term.depth, Term.toToks, argsToToks] using parseTerm_app_nil f g rest

theorem postOK_app (g : String) (a : Term) (as : List Term) (h : ArgsOK (a :: as)) :
    PostOK (.app g (a :: as)) := by
  intro f hf rest _
  simp only [Term.depth, Term.fuel] at hf
  simp only [Term.depth, Term.toToks, List.cons_append]
  rw [parseTerm_app f g _ (argsToToks_head a as rest), h f (by omega) rest]
  rfl

theorem postOK_arrow (t : Term) (fld : String) (h : PostOK t) : PostOK (.arrow t fld) := by
  intro f hf rest _
  simp only [Term.depth, Term.fuel] at hf
  simp only [Term.depth, Term.toToks, List.append_assoc, List.cons_append, List.nil_append]
  rw [show f + (t.depth + 1) = (f + 1) + t.depth by omega, h (f+1) (by omega) _ (by simp)]
  exact parsePostfix_arrow f t fld rest

theorem termOK_addr (t : Term) (h : TermOK t) : TermOK (.addr t) := by
  intro fuel hf rest hr
  simp only [Term.fuel] at hf
  obtain ⟨f, rfl⟩ : ∃ f, fuel = f + 1 := ⟨fuel - 1, by omega⟩
  simp only [Term.toToks, List.cons_append]
  rw [parseTerm_addr, h f (by omega) rest hr]
  rfl

theorem termOK_ccast (ty : String) (t : Term) (h : TermOK t) : TermOK (.ccast ty t) := by
  intro fuel hf rest hr
  simp only [Term.fuel] at hf
  obtain ⟨f, rfl⟩ : ∃ f, fuel = f + 1 := ⟨fuel - 1, by omega⟩
  simp only [Term.toToks, List.cons_append]
  rw [parseTerm_ccast, h f (by omega) rest hr]
  rfl

theorem argsOK_single (t : Term) (h : TermOK t) : ArgsOK [t] := by
  intro fuel hf rest
  simp only [argsFuel] at hf
  obtain ⟨f, rfl⟩ : ∃ f, fuel = f + 1 := ⟨fuel - 1, by omega⟩
  simp only [argsToToks, List.append_assoc, List.cons_append, List.nil_append]
  rw [parseArgs_step, h f (by omega) _ (by simp [RestOk])]
  rfl

theorem argsOK_cons (t t' : Term) (ts : List Term) (h : TermOK t) (h' : ArgsOK (t' :: ts)) :
    ArgsOK (t :: t' :: ts) := by
  intro fuel hf rest
  simp only [argsFuel] at hf
  obtain ⟨f, rfl⟩ : ∃ f, fuel = f + 1 := ⟨fuel - 1, by omega⟩
  simp only [argsToToks, List.append_assoc, List.cons_append]
  rw [parseArgs_step, h f (by omega) _ (by simp [RestOk])]
  have := h' f (by simp only [argsFuel]; omega) rest
  simp only [Option.bind]
  rw [this]

/-! ## Induction over terms and argument lists -/

mutual
theorem term_ok : ∀ t : Term, t.printable = true → (t.postfixable = true → PostOK t) ∧ TermOK t
  | .id x, _ => ⟨fun _ => postOK_id x, TermOK_of_PostOK _ (postOK_id x)⟩
  | .num n, _ => ⟨fun _ => postOK_num n, TermOK_of_PostOK _ (postOK_num n)⟩
  | .chr c, _ => ⟨fun _ => postOK_chr c, TermOK_of_PostOK _ (postOK_chr c)⟩
  | .str c, _ => ⟨fun _ => postOK_str c, TermOK_of_PostOK _ (postOK_str c)⟩
  | .flt _, hp => by simp [Term.printable] at hp
  | .app g [], _ => ⟨fun _ => postOK_app_nil g, TermOK_of_PostOK _ (postOK_app_nil g)⟩
  | .app g (a :: as), hp => by
      have hC := args_ok (a :: as) (by simp) (by simpa [Term.printable] using hp)
      exact ⟨fun _ => postOK_app g a as hC, TermOK_of_PostOK _ (postOK_app g a as hC)⟩
  | .addr t, hp => by
      have ih := term_ok t (by simpa [Term.printable] using hp)
      exact ⟨fun h => by simp [Term.postfixable] at h, termOK_addr t ih.2⟩
  | .ccast ty t, hp => by
      have ih := term_ok t (by simpa [Term.printable] using hp)
      exact ⟨fun h => by simp [Term.postfixable] at h, termOK_ccast ty t ih.2⟩
  | .arrow t fld, hp => by
      simp only [Term.printable, Bool.and_eq_true] at hp
      have ih := term_ok t hp.2
      have hA := postOK_arrow t fld (ih.1 hp.1)
      exact ⟨fun _ => hA, TermOK_of_PostOK _ hA⟩
theorem args_ok : ∀ ts : List Term, ts ≠ [] → printableList ts = true → ArgsOK ts
  | [], h, _ => absurd rfl h
  | [t], _, hp => by
      simp only [printableList, Bool.and_eq_true] at hp
      exact argsOK_single t (term_ok t hp.1).2
  | t :: t' :: ts, _, hp => by
      simp only [printableList, Bool.and_eq_true] at hp
      exact argsOK_cons t t' ts (term_ok t hp.1).2
        (args_ok (t' :: ts) (by simp) (by simp only [printableList, Bool.and_eq_true]; exact hp.2))
end

example : (Term.arrow (.app "f" [.num (-1)]) "g").printable = true ∧
    (Term.arrow (.app "f" [.num (-1)]) "g").postfixable = true := by decide
example : [Term.str "Rs", Term.chr "s"] ≠ [] ∧ printableList [Term.str "Rs", Term.chr "s"] = true := by decide

/-! ## 1. Terms and argument lists -/

/-- Printing then parsing a printable term gives the term back and leaves what followed it,
    for every fuel from `t.fuel` on. -/
theorem parseTerm_toToks_fuel (t : Term) (hp : t.printable = true) :
    ∀ fuel ≥ t.fuel, ∀ rest, RestOk rest → parseTerm fuel (t.toToks ++ rest) = some (t, rest) :=
  fun fuel hf rest hr => (term_ok t hp).2 fuel hf rest hr

example : (Term.app "ADD" [.id "x", .arrow (.app "f" []) "g", .ccast "ut32" (.num (-3)), .addr (.id "y")]).printable
    = true := by decide

theorem parseTerm_toToks (t : Term) (hp : t.printable = true) :
    ∃ F, ∀ fuel ≥ F, ∀ rest, RestOk rest → parseTerm fuel (t.toToks ++ rest) = some (t, rest) :=
  ⟨t.fuel, parseTerm_toToks_fuel t hp⟩

example : RestOk [Tok.sym ";", Tok.sym "->"] := by decide

/-- Same for a non-empty argument list (the closing parenthesis is part of `argsToToks`; what
    follows it is unconstrained). -/
theorem parseArgs_toToks_fuel (ts : List Term) (hne : ts ≠ []) (hp : printableList ts = true) :
    ∀ fuel ≥ argsFuel ts, ∀ rest, parseArgs fuel (argsToToks ts ++ rest) = some (ts, rest) :=
  fun fuel hf rest => args_ok ts hne hp fuel hf rest

theorem parseArgs_toToks (ts : List Term) (hne : ts ≠ []) (hp : printableList ts = true) :
    ∃ F, ∀ fuel ≥ F, ∀ rest, parseArgs fuel (argsToToks ts ++ rest) = some (ts, rest) :=
  ⟨argsFuel ts, parseArgs_toToks_fuel ts hne hp⟩

example : [Term.id "x", Term.num 3] ≠ [] ∧ printableList [Term.id "x", Term.num 3] = true := by decide

mutual
theorem fuel_le_len : ∀ t : Term, t.fuel ≤ t.toToks.length + 1
  | .id _ => by simp [Term.fuel, Term.toToks]
  | .num n => by by_cases h : n < 0 <;> simp [Term.fuel, Term.toToks, h]
  | .flt _ => by simp [Term.fuel, Term.toToks]
  | .chr _ => by simp [Term.fuel, Term.toToks]
  | .str _ => by simp [Term.fuel, Term.toToks]
  | .app _ args => by have := argsFuel_le_len args; simp [Term.fuel, Term.toToks]; omega
  | .addr t => by have := fuel_le_len t; simp [Term.fuel, Term.toToks]; omega
  | .ccast _ t => by have := fuel_le_len t; simp [Term.fuel, Term.toToks]; omega
  | .arrow t _ => by have := fuel_le_len t; simp [Term.fuel, Term.toToks]; omega
theorem argsFuel_le_len : ∀ ts : List Term, argsFuel ts ≤ (argsToToks ts).length + 1
  | [] => by simp [argsFuel, argsToToks]
  | [t] => by have := fuel_le_len t; simp [argsFuel, argsToToks]; omega
  | t :: t' :: ts => by
      have := fuel_le_len t
      have := argsFuel_le_len (t' :: ts)
      simp only [argsFuel, argsToToks, List.length_append, List.length_cons] at *
      omega
end

/-- The fuel `parseItems`/`parseBody` give to `parseTerm` (number of remaining tokens + 1) suffices. -/
theorem parseTerm_toToks_len (t : Term) (hp : t.printable = true) :
    ∀ fuel ≥ t.toToks.length + 1, ∀ rest, RestOk rest →
      parseTerm fuel (t.toToks ++ rest) = some (t, rest) :=
  fun fuel hf rest hr => parseTerm_toToks_fuel t hp fuel (by have := fuel_le_len t; omega) rest hr

/-- Why `RestOk` and the restriction on `->` bases are needed (the parser is greedy). -/
example : parseTerm 9 ((Term.id "x").toToks ++ [Tok.sym "(", Tok.sym ")"]) = some (.app "x" [], []) := by
  simp [Term.toToks, parseTerm, parsePostfix]
example : parseTerm 9 ((Term.arrow (.addr (.id "x")) "f").toToks) = some (.addr (.arrow (.id "x") "f"), []) := by
  simp [Term.toToks, parseTerm, parsePostfix]

/-! ## 2. Items -/

theorem splitDeclarator_words (name : String) (rest : List Tok) :
    ∀ (ws acc : List String),
      splitDeclarator (ws.map wordTok ++ Tok.id name :: Tok.sym "=" :: rest) acc
        = some (acc.reverse ++ ws, name, rest)
  | [], acc => by simp [splitDeclarator]
  | w :: ws, acc => by
      have ih := splitDeclarator_words name rest ws
      by_cases hw : w = "*"
      · subst hw
        simp only [List.map_cons, wordTok, if_true, List.cons_append]
        rw [splitDeclarator, ih]
        simp
      · simp only [List.map_cons, wordTok, hw, if_false, List.cons_append]
        rw [splitDeclarator]
        · rw [ih]; simp
        · intro rest' h
          cases ws with
          | nil => simp at h
          | cons w' ws =>
              simp only [List.map_cons, List.cons_append, wordTok] at h
              split at h <;> simp at h

/-- What may follow the items of a body: nothing, or the closing brace. -/
def ItemsEnd (rest : List Tok) : Prop := rest = [] ∨ rest.head? = some (Tok.sym "}")

instance (rest : List Tok) : Decidable (ItemsEnd rest) := by unfold ItemsEnd; infer_instance

theorem parseItems_end (f : Nat) (rest : List Tok) (acc : List Item) (h : ItemsEnd rest) :
    parseItems (f+1) rest acc = some (acc.reverse, rest) := by
  rcases h with rfl | h
  · simp [parseItems]
  · cases rest with
    | nil => simp at h
    | cons tok tl =>
        simp only [List.head?_cons, Option.some.injEq] at h
        subst h
        simp [parseItems]

example : ItemsEnd [Tok.sym "}"] ∧ ItemsEnd [] := by decide

theorem parseItems_comment (f : Nat) (s : String) (rest : List Tok) (acc : List Item) :
    parseItems (f+1) (Tok.comment s :: rest) acc = parseItems f rest (Item.comment s :: acc) := by
  simp [parseItems]

theorem parseItems_ret (f : Nat) (rest : List Tok) (acc : List Item) :
    parseItems (f+1) (Tok.id "return" :: rest) acc
      = (parseTerm (rest.length + 1) rest).bind (fun p =>
          match p.2 with
          | Tok.sym ";" :: r' => parseItems f r' (Item.ret p.1 :: acc)
          | _ => none) := by
  simp [parseItems]
  rfl

/-- The first token of a declaration: a type word other than `return`. -/
def DeclStart (tok : Tok) : Prop :=
  tok = Tok.sym "*" ∨ ∃ w, tok = Tok.id w ∧ w ≠ "return"

theorem parseItems_decl (f : Nat) (tok : Tok) (tl : List Tok) (acc : List Item) (h : DeclStart tok) :
    parseItems (f+1) (tok :: tl) acc
      = (splitDeclarator (tok :: tl) []).bind (fun q =>
          (parseTerm (q.2.2.length + 1) q.2.2).bind (fun p =>
            match p.2 with
            | Tok.sym ";" :: r' => parseItems f r' (Item.decl (" ".intercalate q.1) q.2.1 p.1 :: acc)
            | _ => none)) := by
  conv => lhs; unfold parseItems
  rcases h with rfl | ⟨w, rfl, hw⟩
  · simp
    rfl
  · split
    all_goals first | (simp_all; done) | skip
    rfl

example : DeclStart (Tok.id "RzILOpPure") := Or.inr ⟨"RzILOpPure", rfl, by decide⟩

theorem splitSp_ne_nil : ∀ (cs cur : List Char), splitSp cs cur ≠ []
  | [], cur => by simp [splitSp]
  | c :: cs, cur => by
      unfold splitSp
      split
      · simp
      · exact splitSp_ne_nil cs _

theorem intercalate_cons_of_ne_nil {α : Type} (sep x : List α) (xs : List (List α)) (h : xs ≠ []) :
    sep.intercalate (x :: xs) = x ++ sep ++ sep.intercalate xs := by
  cases xs with
  | nil => exact absurd rfl h
  | cons y ys => simp [List.intercalate, List.intersperse]

example : [[1, 2]] ≠ ([] : List (List Nat)) := by decide

theorem intercalate_splitSp : ∀ (cs cur : List Char),
    [' '].intercalate (splitSp cs cur) = cur.reverse ++ cs
  | [], cur => by simp [splitSp, List.intercalate]
  | c :: cs, cur => by
      unfold splitSp
      split
      · rename_i h
        rw [intercalate_cons_of_ne_nil _ _ _ (splitSp_ne_nil cs []), intercalate_splitSp cs []]
        simp [h]
      · rw [intercalate_splitSp cs (c :: cur)]
        simp

/-- Splitting a declaration type at spaces and gluing the words with single spaces (what the parser
    does) gives the type back, for every string. -/
theorem intercalate_tyWords (ty : String) : " ".intercalate (tyWords ty) = ty := by
  apply String.ext
  rw [String.toList_intercalate]
  simp only [tyWords, List.map_map]
  have : (String.toList ∘ String.ofList) = id := by funext l; simp
  rw [this, List.map_id]
  simpa using intercalate_splitSp ty.toList []

theorem declStart_wordTok (w : String) (h : w ≠ "return") : DeclStart (wordTok w) := by
  unfold wordTok DeclStart
  by_cases hw : w = "*"
  · simp [hw]
  · simp [hw, h]

example : "const" ≠ "return" := by decide

theorem parseItems_decl_toToks (f : Nat) (ty name : String) (rhs : Term) (more : List Tok)
    (acc : List Item) (hp : (Item.decl ty name rhs).printable = true) :
    parseItems (f+1)
        ((tyWords ty).map wordTok ++ Tok.id name :: Tok.sym "=" :: (rhs.toToks ++ Tok.sym ";" :: more)) acc
      = parseItems f more (Item.decl ty name rhs :: acc) := by
  simp only [Item.printable, Bool.and_eq_true] at hp
  obtain ⟨hw, hrhs⟩ := hp
  have hty := intercalate_tyWords ty
  have key := splitDeclarator_words name (rhs.toToks ++ Tok.sym ";" :: more) (tyWords ty) []
  cases hws : tyWords ty with
  | nil => simp [hws] at hw
  | cons w ws =>
      rw [hws] at key hw hty
      simp only [bne_iff_ne, ne_eq] at hw
      simp only [List.map_cons, List.cons_append] at key ⊢
      rw [parseItems_decl f _ _ _ (declStart_wordTok w hw), key]
      simp only [Option.bind, List.reverse_nil, List.nil_append]
      rw [parseTerm_toToks_len rhs hrhs _ (by simp) _ (by simp [RestOk])]
      simp only [hty]

example : (Item.decl "const HexOp *" "op" (.app "ISA2REG" [.id "hi", .chr "s", .id "false"])).printable = true := by
  decide

/-- Printing a list of printable items (declarations and `return` with their `;`) and parsing the
    tokens gives the list back; the items may be followed by nothing or by the closing brace. -/
theorem parseItems_toToks_fuel (items : List Item) (hp : ∀ i ∈ items, i.printable = true) :
    ∀ fuel ≥ items.length + 1, ∀ rest acc, ItemsEnd rest →
      parseItems fuel (itemsToToks items ++ rest) acc = some (acc.reverse ++ items, rest) := by
  induction items with
  | nil =>
      intro fuel hf rest acc hr
      obtain ⟨f, rfl⟩ : ∃ f, fuel = f + 1 := ⟨fuel - 1, by simp at hf; omega⟩
      simpa [itemsToToks] using parseItems_end f rest acc hr
  | cons i is ih =>
      intro fuel hf rest acc hr
      obtain ⟨f, rfl⟩ : ∃ f, fuel = f + 1 := ⟨fuel - 1, by simp at hf; omega⟩
      have hpi := hp i (by simp)
      have ih' := ih (fun j hj => hp j (by simp [hj])) f (by simp at hf; omega) rest
      cases i with
      | comment s =>
          simp only [itemsToToks, Item.toToks, List.cons_append, List.nil_append]
          rw [parseItems_comment, ih' _ hr]
          simp
      | ret t =>
          simp only [itemsToToks, Item.toToks, List.cons_append, List.append_assoc, List.nil_append]
          rw [parseItems_ret, parseTerm_toToks_len t hpi _ (by simp) _ (by simp [RestOk])]
          simp only [Option.bind]
          rw [ih' _ hr]
          simp
      | decl ty name rhs =>
          simp only [itemsToToks, Item.toToks, List.cons_append, List.append_assoc, List.nil_append]
          rw [parseItems_decl_toToks f ty name rhs _ acc hpi, ih' _ hr]
          simp

theorem parseItems_toToks (items : List Item) (hp : ∀ i ∈ items, i.printable = true) :
    ∃ F, ∀ fuel ≥ F, parseItems fuel (itemsToToks items) [] = some (items, []) :=
  ⟨items.length + 1, fun fuel hf => by
    simpa using parseItems_toToks_fuel items hp fuel hf [] [] (Or.inl rfl)⟩

example : ∀ i ∈ [Item.comment " x", Item.decl "RzILOpPure *" "a" (.app "VARL" [.str "Rs"]),
    Item.decl "const HexOp *" "op" (.app "ISA2REG" [.id "hi", .chr "s", .id "false"]),
    Item.ret (.app "SEQN" [.num 2, .id "a", .id "op"])], i.printable = true := by decide

/-! ## 4. Getter names -/

theorem getterName_toList (a : String) (p : Option Nat) :
    (getterName a p).toList = "hex_il_op_".toList ++ a.toList.map Char.toLower ++
      (match p with | none => [] | some i => "_part".toList ++ Nat.toDigits 10 i) := by
  cases p <;> simp [getterName, String.toLower, Nat.toList_repr]

/-- The parts of one instruction get different getter names. -/
theorem getterName_injective_same_insn (a : String) (i j : Nat)
    (h : getterName a (some i) = getterName a (some j)) : i = j := by
  simp only [getterName, String.append_right_inj] at h
  exact Nat.repr_injective h

example : getterName "A2_add" (some 2) = getterName "A2_add" (some 2) := rfl

/-- … also against the un-parted name of the same instruction. -/
theorem getterName_injective_part (a : String) (p q : Option Nat)
    (h : getterName a p = getterName a q) : p = q := by
  cases p <;> cases q <;> simp only [getterName, String.append_right_inj] at h
  · rfl
  · have := congrArg String.toList h
    simp at this
  · have := congrArg String.toList h
    simp at this
  · exact congrArg some (Nat.repr_injective h)

example : getterName "A2_add" none = getterName "A2_add" none := rfl

theorem getterName_prefix (a : String) (p : Option Nat) :
    ("hex_il_op_").isPrefixOf (getterName a p) = true := by
  unfold String.isPrefixOf
  rw [String.startsWith_string_iff]
  simp [getterName, String.append_assoc]

/-- Different instruction names CAN collide (an instruction literally named `…_part1` against part 1
    of another one; also two names differing only in case).  Hence uniqueness over the bundled
    instruction set is checked by enumeration, not proved. -/
example : getterName "A_part1" none = getterName "A" (some 1) := by
  apply String.ext
  simp [getterName, String.toLower]
  decide

example : getterName "a2_ADD" none = getterName "A2_add" none := by
  apply String.ext
  simp [getterName, String.toLower]

/-! ## 5. `add_op` names -/

theorem append_sep_inj {α : Type} {c : α} {xs xs' ys ys' : List α} (hy : c ∉ ys) (hy' : c ∉ ys')
    (h : xs ++ c :: ys = xs' ++ c :: ys') : xs = xs' ∧ ys = ys' := by
  rw [List.append_eq_append_iff] at h
  rcases h with ⟨as, h1, h2⟩ | ⟨bs, h1, h2⟩
  · cases as with
    | nil => simp at h1 h2; exact ⟨h1.symm, h2⟩
    | cons a as =>
        simp only [List.cons_append, List.cons.injEq] at h2
        exact absurd (by rw [h2.2]; simp) hy
  · cases bs with
    | nil => simp at h1 h2; exact ⟨h1, h2.symm⟩
    | cons a as =>
        simp only [List.cons_append, List.cons.injEq] at h2
        exact absurd (by rw [h2.2]; simp) hy'

example : (0 : Nat) ∉ [1, 2] ∧ (0 : Nat) ∉ [1, 2] ∧ [5, 6] ++ 0 :: [1, 2] = [5, 6] ++ 0 :: [1, 2] := by
  decide

theorem toString_toList_digits (n : Nat) : ∀ c ∈ (toString n).toList, c.isDigit = true := by
  intro c hc
  have : (toString n).toList = Nat.toDigits 10 n := Nat.toList_repr
  rw [this] at hc
  exact Nat.isDigit_of_mem_toDigits (by omega) (by omega) hc

theorem underscore_not_mem_toString (n : Nat) : '_' ∉ (toString n).toList :=
  fun h => by have := toString_toList_digits n '_' h; simp at this

/-- The generated name determines both the base and the counter value: the digits after the LAST
    underscore are the counter (no hypothesis on the bases is needed, they may contain `_` and digits). -/
theorem suffixName_injective {b1 b2 : List Char} {i j : Nat}
    (h : suffixName b1 i = suffixName b2 j) : b1 = b2 ∧ i = j := by
  obtain ⟨hb, hd⟩ := append_sep_inj (underscore_not_mem_toString i) (underscore_not_mem_toString j) h
  exact ⟨hb, Nat.repr_injective (String.toList_injective hd)⟩

theorem suffixName_injective_id {b1 b2 : List Char} {i j : Nat}
    (h : suffixName b1 i = suffixName b2 j) : i = j := (suffixName_injective h).2

example : suffixName "op_ADD_1".toList 12 = suffixName "op_ADD_1".toList 12 := rfl

/-- Names handed out with a strictly increasing counter are pairwise different, whatever the bases. -/
theorem suffixNames_pairwise_ne (ops : List (List Char × Nat))
    (h : ops.Pairwise (fun a b => a.2 < b.2)) :
    (ops.map (fun p => suffixName p.1 p.2)).Pairwise (· ≠ ·) := by
  rw [List.pairwise_map]
  exact h.imp (fun hlt heq => by have := suffixName_injective_id heq; omega)

example : [("op_ADD".toList, 0), ("op_ADD".toList, 1), ("op_MUL".toList, 2)].Pairwise
    (fun a b => a.2 < b.2) := by decide

/-- Disjointness from user-chosen names needs a hypothesis on them; a sufficient one: the user name
    does not end in a digit. -/
theorem suffixName_ne_of_last_not_digit (user b : List Char) (i : Nat)
    (h : ∀ c, user.getLast? = some c → c.isDigit = false) : user ≠ suffixName b i := by
  intro he
  have hne : (toString i).toList ≠ [] := by
    have : (toString i).toList = Nat.toDigits 10 i := Nat.toList_repr
    rw [this]; exact Nat.toDigits_ne_nil
  obtain ⟨c, hc⟩ : ∃ c, (toString i).toList.getLast? = some c := by
    cases hl : (toString i).toList.getLast? with
    | none => exact absurd (List.getLast?_eq_none_iff.mp hl) hne
    | some c => exact ⟨c, rfl⟩
  have hmem : c ∈ (toString i).toList := List.mem_of_getLast? hc
  have hlast : user.getLast? = some c := by
    rw [he, suffixName, List.getLast?_append, List.getLast?_cons, hc]
    simp
  have := h c hlast
  rw [toString_toList_digits i c hmem] at this
  simp at this

example : ∀ c, "tmp_x".toList.getLast? = some c → c.isDigit = false := by decide

/-- … and where the hypothesis fails: a user variable literally named `op_ADD_3` IS a generated name. -/
example : "op_ADD_3".toList = suffixName "op_ADD".toList 3 := by decide

/-! ## 6. What the well-formedness checker buys -/

/-- An empty problem list is the recursive well-formedness `WfFrom` of the comment-free items. -/
theorem wf_wfFrom (ctx : BodyCtx) (b : Body) (h : wfBodyProblems ctx b = []) :
    WfFrom (bodyPre ctx b) [] (noComments b.items) := by
  rw [wfBodyProblems_eq] at h
  simp only at h
  split at h
  · rename_i hs
    exact wfFrom_of_fold ctx _ _ (noComments_no_comment b.items) [] h hs
  · simp at h

/-- Declared once, before use, one final `return` — positional form.  The comment-free item list is
    `ds ++ [return t]`; every `ds[i]` is a declaration; declared names are pairwise different and different from
    the parameters / given names; every identifier used by the initialiser of `ds[i]` is the name of some `ds[j]`,
    `j < i`, or a parameter / given name, or a plugin constant; same for `t` with all of `ds`. -/
theorem wf_positional (ctx : BodyCtx) (b : Body) (h : wfBodyProblems ctx b = []) :
    ∃ ds t, noComments b.items = ds ++ [Item.ret t] ∧
      (∀ d ∈ ds, ∃ ty n rhs, d = Item.decl ty n rhs) ∧
      (declNames ds).Nodup ∧
      (∀ n ∈ declNames ds, n ∉ bodyPre ctx b) ∧
      (∀ i ty n rhs, ds[i]? = some (Item.decl ty n rhs) → ∀ u ∈ rhs.uses,
          u.1 ∈ declNames (ds.take i) ∨ u.1 ∈ bodyPre ctx b ∨ isPluginConst u.1 = true) ∧
      (∀ u ∈ t.uses, u.1 ∈ declNames ds ∨ u.1 ∈ bodyPre ctx b ∨ isPluginConst u.1 = true) := by
  obtain ⟨ds, t, h1, h2, h3, h4, h5, h6⟩ := wfFrom_positional _ _ [] (wf_wfFrom ctx b h)
  refine ⟨ds, t, h1, h2, h3, fun n hn => (h4 n hn).2, ?_, ?_⟩
  · intro i ty n rhs hi u hu
    rcases h5 i ty n rhs hi u hu with h | h | h
    · exact Or.inl h
    · simp at h
    · exact Or.inr h
  · intro u hu
    rcases h6 u hu with h | h | h
    · exact Or.inl h
    · simp at h
    · exact Or.inr h

/-- The premises of the layout theorems of C16.  `constFree`: no declared name is a plugin constant. -/
theorem wf_layout (ctx : BodyCtx) (b : Body) (h : wfBodyProblems ctx b = []) (hc : constFree b.items = true) :
    namesDistinct b.items = true ∧ noForwardRef b.items = true := by
  have := wfFrom_layout _ _ [] (wf_wfFrom ctx b h) (by rw [constFree_noComments]; exact hc)
  rwa [namesDistinct_noComments, noForwardRef_noComments] at this

/-- Closedness: the denotation of a well-formed body mentions no name of an inlined (pure/effect/bool)
    declaration. -/
theorem wf_denoteIL_closed (ctx : BodyCtx) (b : Body) (h : wfBodyProblems ctx b = [])
    (hc : constFree b.items = true) (t : Term) (hd : denoteIL b = some t) :
    ∀ x ∈ ilNames b.items, t.mentions x = false := by
  intro x hx
  have hE : EnvClosed (buildEnvIL b.items []) [] := by
    rw [← buildEnvIL_noComments]
    exact closed_aux _ _ [] [] (wf_wfFrom ctx b h) (by rw [constFree_noComments]; exact hc)
      (by intro p hp; simp at hp)
  have hdom := buildEnvIL_dom b.items [] x (Or.inl hx)
  simp only [denoteIL, bind, Option.bind] at hd
  split at hd
  · cases hd
  · rename_i r _
    simp only [pure, Option.some.injEq] at hd
    subst hd
    cases hm : ((r.subst (buildEnvIL b.items [])).eraseDup).mentions x with
    | false => rfl
    | true =>
      have := subst_closed _ hE r x hdom
      rw [eraseDup_mentions x _ hm] at this
      cases this

/-- The checker reports a declaration whose name is a plugin constant, so an empty problem list gives the
    side condition of `wf_layout` / `wf_denoteIL_closed`. -/
theorem wf_constFree (ctx : BodyCtx) (b : Body) (h : wfBodyProblems ctx b = []) : constFree b.items = true := by
  rw [wfBodyProblems_eq] at h
  simp only at h
  rw [← constFree_noComments]
  split at h
  · exact constFree_of_fold ctx _ _ _ h
  · simp at h

/-- `wf_layout` without side condition. -/
theorem wf_layout' (ctx : BodyCtx) (b : Body) (h : wfBodyProblems ctx b = []) :
    namesDistinct b.items = true ∧ noForwardRef b.items = true :=
  wf_layout ctx b h (wf_constFree ctx b h)

/-- `wf_denoteIL_closed` without side condition. -/
theorem wf_denoteIL_closed' (ctx : BodyCtx) (b : Body) (h : wfBodyProblems ctx b = [])
    (t : Term) (hd : denoteIL b = some t) : ∀ x ∈ ilNames b.items, t.mentions x = false :=
  wf_denoteIL_closed ctx b h (wf_constFree ctx b h) t hd

/-! ### Kernel-checked examples -/

def exCtx : BodyCtx := { given := ["bundle", "hi", "pkt"], callees := [] }

/-- `RzILOpPure *a = VARL("x"); RzILOpEffect *e = SETL("y", a); return e;` -/
def exGood : Body := { header := none, items :=
  [.decl "RzILOpPure *" "a" (.app "VARL" [.str "x"]),
   .decl "RzILOpEffect *" "e" (.app "SETL" [.str "y", .id "a"]),
   .ret (.id "e")] }

example : wfBodyProblems exCtx exGood = [] ∧ constFree exGood.items = true := by decide +kernel
example : namesDistinct exGood.items = true ∧ noForwardRef exGood.items = true :=
  wf_layout exCtx exGood (by decide +kernel) (by decide +kernel)
theorem exGood_denote : denoteIL exGood = some (.app "SETL" [.str "y", .app "VARL" [.str "x"]]) :=
  optTermEqb_sound _ _ (by decide +kernel)
example : ∀ x ∈ ["a", "e"], (Term.app "SETL" [.str "y", .app "VARL" [.str "x"]]).mentions x = false :=
  wf_denoteIL_closed exCtx exGood (by decide +kernel) (by decide +kernel) _ exGood_denote

/-- Forward reference: `a` uses `b`, declared later. -/
def exFwd : Body := { header := none, items :=
  [.decl "RzILOpPure *" "a" (.id "b"),
   .decl "RzILOpPure *" "b" (.app "VARL" [.str "x"]),
   .ret (.app "SETL" [.str "y", .app "ADD" [.id "a", .id "b"]])] }

example : wfBodyProblems exCtx exFwd = ["identifier b used in the initialiser of a before/without declaration"] := by
  decide +kernel
example : noForwardRef exFwd.items = false := by decide +kernel
example : (denoteIL exFwd).map (fun t => t.mentions "b") = some true := by decide +kernel

/-- Formerly the witness that `constFree` was a necessary side condition (the checker accepted a use of the plugin
    constant `true` before a declaration of that name).  The checker now REJECTS the declaration of `true`; the body
    still has a forward reference and a denotation that is not closed. -/
def exConst : Body := { header := none, items :=
  [.decl "RzILOpPure *" "a" (.id "true"),
   .decl "RzILOpPure *" "true" (.id "a"),
   .ret (.app "SETL" [.str "y", .id "true"])] }

example : wfBodyProblems exCtx exConst = ["true is a plugin constant"] ∧ constFree exConst.items = false ∧
    noForwardRef exConst.items = false ∧
    (denoteIL exConst).map (fun t => t.mentions "true") = some true := by decide +kernel

/-- Ordinary compiler-generated names are not plugin constants (neither are the parameters `pkt`, `hi`, `bundle`,
    which are never declared anyway). -/
example : ["op_ADD_4", "Rs", "Rd", "h_tmp0", "seq_then_6", "branch_7", "cond_5", "u", "s", "pkt", "hi", "bundle",
    "Rs_op", "ms", "const_pos1", "hex_op"].map isPluginConst =
    [false, false, false, false, false, false, false, false, false, false, false, false, false, false, false,
     false] := by decide +kernel

/-- Side-condition-free versions on the good example. -/
example : namesDistinct exGood.items = true ∧ noForwardRef exGood.items = true :=
  wf_layout' exCtx exGood (by decide +kernel)
example : ∀ x ∈ ["a", "e"], (Term.app "SETL" [.str "y", .app "VARL" [.str "x"]]).mentions x = false :=
  wf_denoteIL_closed' exCtx exGood (by decide +kernel) _ exGood_denote

end Rzil
