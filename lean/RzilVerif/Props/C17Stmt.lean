import RzilVerif.Props.C17
/-!
# C17 — statement level: round trip of the reference statement parser, else binding

Statements and expressions are mutually recursive (`CExpr.stmtExpr items e` is the GCC
statement-expression `({ items e; })`, a primary expression), so the induction that proves the
round trip is the single mutual induction `Rzil.Grammar.main` in `Props/C17.lean`.  This file states
its statement-level consequences:

* `refParseStmt_print : SWF s = true → refParseStmt (printStmt s) = some s` for statement trees of
  unbounded nesting (blocks, `if`, `if … else`, `for`, declarations as block items, expression and
  empty statements, statement-expressions inside every expression position);
* `printStmt_injective` on well-formed trees;
* the else binding stated outright: `else_binds_nearest` (`if (a) if (b) s else t` is
  `if_ a (ifElse b s t)`), `else_not_outer` (never `ifElse a (if_ b s) t`), `else_through_for`,
  `braces_bind_outer` (only braces give the else to the outer `if`), `printer_inserts_braces` and
  `parse_print_open_then` (the printer emits exactly those braces for a tree whose then-branch ends
  in an else-less `if`, and the text parses to the tree with the `block` node);
* `refParseStmt_print_norm : SWF (normS s) = true → refParseStmt (printStmt s) = some (normS s)` for
  ALL trees (`normS` = the printer's braces as `block` nodes, `printStmt_norm`: same text), and
  `normS_id : SWF s = true → normS s = s`;
* `decl_only_as_item` (a declaration is a block item, not a statement) and `decide`d token-level
  examples.

`SWF` (`Model/Grammar.lean`) is decidable (a `Bool` function): operator strings come from the tables,
declarations stand directly inside braces, the then-branch of an `if … else` does not end in an
else-less `if`.  The last condition only excludes trees that are not the parse of any text (the text
needs braces there, and braces are a `block` node of the tree).
-/
namespace Rzil.Grammar
open CExpr CStmt GTok

/-- **Round trip (statements)**: parsing the print of any well-formed statement tree gives the tree
    back (unbounded nesting, all constructors, statement-expressions included). -/
theorem refParseStmt_print (s : CStmt) (h : SWF s = true) : refParseStmt (printStmt s) = some s := by
  have q := (main.2 s).1 h [] (fun _ => by simp [NoElse])
  simp only [List.append_nil] at q
  have h1 := q (fuelFor (prS s)) (by unfold fuelFor; omega)
  unfold refParseStmt printStmt
  rw [h1]

/-- The statement printer is injective on well-formed trees. -/
theorem printStmt_injective (a b : CStmt) (ha : SWF a = true) (hb : SWF b = true)
    (h : printStmt a = printStmt b) : a = b := by
  have h1 := refParseStmt_print a ha
  rw [h, refParseStmt_print b hb] at h1
  exact (Option.some.inj h1).symm

/-- The statement-expression round trip, seen from the expression side. -/
theorem refParse_print_stmtExpr (items : List CStmt) (e : CExpr)
    (h : WF (.stmtExpr items e) = true) :
    refParseAll (.lp :: .op "{" :: prItems items ++ (printE e ++ [.op ";", .op "}", .rp]))
      = some (.stmtExpr items e) := by
  have h1 := refParse_print _ h
  rw [printE, pr_zero] at h1
  simpa [body, printE, pr_zero] using h1

/-! ## Non-vacuity -/

/-- A well-formed statement tree using every statement constructor, a statement-expression inside an
    expression, a dangling-else shape and a braced then-branch. -/
def sampleStmt : CStmt :=
  .block [
    .decl "int32_t" "x",
    .declInit "int" "y" (.bin "+" (.atom "a")
      (.stmtExpr [.declInit "int" "z" (.atom "b"), .if_ (.atom "z") (.expr (.post "++" (.atom "z")))]
        (.bin "*" (.atom "z") (.atom "2")))),
    .empty,
    .if_ (.atom "a") (.ifElse (.atom "b") (.expr (.atom "p")) (.expr (.atom "q"))),
    .ifElse (.atom "a") (.block [.if_ (.atom "b") (.expr (.atom "p"))]) (.expr (.atom "q")),
    .for_ (.assign "=" (.atom "i") (.atom "0")) (.bin "<" (.atom "i") (.atom "4"))
      (.post "++" (.atom "i")) (.block [.block [], .empty]),
    .ifElse (.atom "a") (.for_ (.atom "i") (.atom "j") (.atom "k") (.ifElse (.atom "b") .empty .empty))
      (.if_ (.atom "c") .empty)]

example : SWF sampleStmt = true := by decide
example : refParseStmt (printStmt sampleStmt) = some sampleStmt := refParseStmt_print _ (by decide)
example : SWF (.expr (.atom "a")) = true ∧ SWF (.expr (.atom "b")) = true
    ∧ printStmt (.expr (.atom "a")) ≠ printStmt (.expr (.atom "b")) := by decide

/-! ## The else binding -/

theorem SWF_if {c t} : SWF (.if_ c t) = (WF c && SWF t) := by simp [SWF, SWFp]
theorem SWF_ifElse {c t e} : SWF (.ifElse c t e) = (WF c && SWF t && !t.openIf && SWF e) := by
  simp [SWF, SWFp]
theorem SWF_for {i c s b} : SWF (.for_ i c s b) = (WF i && WF c && WF s && SWF b) := by
  simp [SWF, SWFp]
theorem SWF_block1 {s} (h : SWF s = true) : SWF (.block [s]) = true := by
  have h1 : SWFp true s = true := by
    cases s <;> simp_all [SWF, SWFp]
  simp [SWF, SWFp, IWFs, h1]

theorem printStmt_if (c t) : printStmt (.if_ c t) = .op "if" :: .lp :: printE c ++ .rp :: printStmt t := by
  simp [printStmt, prS, printE, pr_zero]
theorem printStmt_ifElse (c t e) (h : t.openIf = false) :
    printStmt (.ifElse c t e)
      = .op "if" :: .lp :: printE c ++ .rp :: printStmt t ++ .op "else" :: printStmt e := by
  simp [printStmt, prS, printE, pr_zero, h]
theorem printStmt_for (i c s b) :
    printStmt (.for_ i c s b)
      = .op "for" :: .lp :: printE i ++ .op ";" :: printE c ++ .op ";" :: printE s ++ .rp ::
          printStmt b := by
  simp [printStmt, prS, printE, pr_zero]
theorem printStmt_block1 (s) : printStmt (.block [s]) = .op "{" :: printStmt s ++ [.op "}"] := by
  simp [printStmt, prS, prItems]

/-- **Else binds to the nearest `if`**: the tokens of `if (a) if (b) s else t` parse to
    `if_ a (ifElse b s t)`, for arbitrary well-formed `a`, `b`, `s`, `t` (`s` not ending in an
    else-less `if`, which would capture the `else` itself). -/
theorem else_binds_nearest (a b : CExpr) (s t : CStmt) (ha : WF a = true) (hb : WF b = true)
    (hs : SWF s = true) (ht : SWF t = true) (ho : s.openIf = false) :
    refParseStmt (.op "if" :: .lp :: printE a ++ .rp :: .op "if" :: .lp :: printE b ++ .rp ::
        printStmt s ++ .op "else" :: printStmt t)
      = some (.if_ a (.ifElse b s t)) := by
  have h := refParseStmt_print (.if_ a (.ifElse b s t)) (by simp [SWF_if, SWF_ifElse, *])
  rw [printStmt_if, printStmt_ifElse _ _ _ ho] at h
  simpa using h

/-- … and therefore never to the outer one. -/
theorem else_not_outer (a b : CExpr) (s t : CStmt) (ha : WF a = true) (hb : WF b = true)
    (hs : SWF s = true) (ht : SWF t = true) (ho : s.openIf = false) :
    refParseStmt (.op "if" :: .lp :: printE a ++ .rp :: .op "if" :: .lp :: printE b ++ .rp ::
        printStmt s ++ .op "else" :: printStmt t)
      ≠ some (.ifElse a (.if_ b s) t) := by
  rw [else_binds_nearest a b s t ha hb hs ht ho]
  intro h; cases h

/-- The else binding looks through loop bodies: `if (a) for (i; c; k) if (b) s else t` is
    `if_ a (for_ i c k (ifElse b s t))`. -/
theorem else_through_for (a i c k b : CExpr) (s t : CStmt) (ha : WF a = true) (hi : WF i = true)
    (hc : WF c = true) (hk : WF k = true) (hb : WF b = true) (hs : SWF s = true) (ht : SWF t = true)
    (ho : s.openIf = false) :
    refParseStmt (.op "if" :: .lp :: printE a ++ .rp :: .op "for" :: .lp :: printE i ++ .op ";" ::
        printE c ++ .op ";" :: printE k ++ .rp :: .op "if" :: .lp :: printE b ++ .rp ::
        printStmt s ++ .op "else" :: printStmt t)
      = some (.if_ a (.for_ i c k (.ifElse b s t))) := by
  have h := refParseStmt_print (.if_ a (.for_ i c k (.ifElse b s t)))
    (by simp [SWF_if, SWF_ifElse, SWF_for, *])
  rw [printStmt_if, printStmt_for, printStmt_ifElse _ _ _ ho] at h
  simpa using h

/-- Only braces give the `else` to the outer `if`: `if (a) { if (b) s } else t`. -/
theorem braces_bind_outer (a b : CExpr) (s t : CStmt) (ha : WF a = true) (hb : WF b = true)
    (hs : SWF s = true) (ht : SWF t = true) :
    refParseStmt (.op "if" :: .lp :: printE a ++ .rp :: .op "{" :: .op "if" :: .lp :: printE b ++
        .rp :: printStmt s ++ .op "}" :: .op "else" :: printStmt t)
      = some (.ifElse a (.block [.if_ b s]) t) := by
  have h := refParseStmt_print (.ifElse a (.block [.if_ b s]) t)
    (by rw [SWF_ifElse, SWF_block1 (by simp [SWF_if, *])]; simp [CStmt.openIf, *])
  rw [printStmt_ifElse _ _ _ (by simp [CStmt.openIf]), printStmt_block1, printStmt_if] at h
  simpa using h

/-- The printer inserts exactly those braces: a then-branch that ends in an else-less `if` is
    printed as the block containing it … -/
theorem printer_inserts_braces (c : CExpr) (t e : CStmt) (h : t.openIf = true) :
    printStmt (.ifElse c t e) = printStmt (.ifElse c (.block [t]) e) := by
  simp [printStmt, prS, prItems, h, CStmt.openIf]

/-- … so that the text of such a tree parses to the tree with the `block` node, not to a tree in
    which the `else` has moved to the inner `if`. -/
theorem parse_print_open_then (c : CExpr) (t e : CStmt) (hc : WF c = true) (ht : SWF t = true)
    (he : SWF e = true) (h : t.openIf = true) :
    refParseStmt (printStmt (.ifElse c t e)) = some (.ifElse c (.block [t]) e) := by
  rw [printer_inserts_braces c t e h]
  exact refParseStmt_print _ (by rw [SWF_ifElse, SWF_block1 ht]; simp [CStmt.openIf, *])

/-! ## All trees: the printer's braces as a normalisation

`normS` puts the `block` node where the printer prints braces (then-branches that end in an
else-less `if`), everywhere in the tree, statement-expressions included.  The print is unchanged
by it, so for EVERY tree whose normal form is well formed the text parses to the normal form; on
well-formed trees `normS` is the identity and this is `refParseStmt_print` again. -/

mutual
def normE : CExpr → CExpr
  | .atom s => .atom s
  | .call f args => .call f (normEs args)
  | .post o a => .post o (normE a)
  | .un o a => .un o (normE a)
  | .cast t a => .cast t (normE a)
  | .bin o a b => .bin o (normE a) (normE b)
  | .tern c a b => .tern (normE c) (normE a) (normE b)
  | .assign o a b => .assign o (normE a) (normE b)
  | .stmtExpr items e => .stmtExpr (normItems items) (normE e)
termination_by structural e => e
def normEs : List CExpr → List CExpr
  | [] => []
  | a :: rest => normE a :: normEs rest
def normS : CStmt → CStmt
  | .expr e => .expr (normE e)
  | .empty => .empty
  | .block items => .block (normItems items)
  | .if_ c t => .if_ (normE c) (normS t)
  | .ifElse c t e => .ifElse (normE c) (if t.openIf then .block [normS t] else normS t) (normS e)
  | .for_ i c s b => .for_ (normE i) (normE c) (normE s) (normS b)
  | .decl t x => .decl t x
  | .declInit t x e => .declInit t x (normE e)
def normItems : List CStmt → List CStmt
  | [] => []
  | s :: rest => normS s :: normItems rest
end

theorem prec_normE (e : CExpr) : prec (normE e) = prec e := by
  cases e <;> simp [normE, prec]

theorem bodyArgs_norm : ∀ (args : List CExpr), (∀ a ∈ args, body (normE a) = body a) →
    bodyArgs (normEs args) = bodyArgs args
  | [], _ => by simp [normEs, bodyArgs]
  | [a], h => by simp [normEs, bodyArgs, h a (by simp)]
  | a :: b :: rest, h => by
    have ih := bodyArgs_norm (b :: rest) (fun x hx => h x (by simp [hx]))
    simp only [normEs] at ih ⊢
    simp [bodyArgs, h a (by simp), ih]

theorem prItems_norm : ∀ (items : List CStmt), (∀ s ∈ items, prS (normS s) = prS s) →
    prItems (normItems items) = prItems items
  | [], _ => by simp [normItems, prItems]
  | s :: rest, h => by
    simp [normItems, prItems, h s (by simp), prItems_norm rest (fun x hx => h x (by simp [hx]))]

theorem openIf_norm : ∀ s : CStmt, (normS s).openIf = s.openIf :=
  (CExpr.ind2 (P := fun _ => True) (S := fun s => (normS s).openIf = s.openIf)
    (by intros; trivial) (by intros; trivial) (by intros; trivial) (by intros; trivial)
    (by intros; trivial) (by intros; trivial) (by intros; trivial) (by intros; trivial)
    (by intros; trivial)
    (by intros; simp [normS, CStmt.openIf]) (by simp [normS, CStmt.openIf])
    (by intros; simp [normS, CStmt.openIf]) (by intros; simp [normS, CStmt.openIf])
    (by intro c t e _ _ ihe; simpa [normS, CStmt.openIf] using ihe)
    (by intro i c s b _ _ _ ihb; simpa [normS, CStmt.openIf] using ihb)
    (by intros; simp [normS, CStmt.openIf]) (by intros; simp [normS, CStmt.openIf])).2

/-- Normalisation does not change the text. -/
theorem print_norm : (∀ e : CExpr, body (normE e) = body e) ∧ (∀ s : CStmt, prS (normS s) = prS s) := by
  apply CExpr.ind2
  · intro s; simp [normE]
  · intro f args ih; simp [normE, body, bodyArgs_norm args ih]
  · intro o a ih; simp [normE, body, prec_normE, ih]
  · intro o a ih; simp [normE, body, prec_normE, ih]
  · intro t a ih; simp [normE, body, prec_normE, ih]
  · intro o a b iha ihb
    have hp : prec (.bin o (normE a) (normE b)) = prec (.bin o a b) := rfl
    simp only [normE, body]
    rw [hp, prec_normE, prec_normE, iha, ihb]
  · intro c a b ihc iha ihb; simp [normE, body, prec_normE, ihc, iha, ihb]
  · intro o a b iha ihb; simp [normE, body, prec_normE, iha, ihb]
  · intro items e ihs ihe; simp [normE, body, prItems_norm items ihs, ihe]
  · intro e ih; simp [normS, prS, ih]
  · simp [normS]
  · intro items ih; simp [normS, prS, prItems_norm items ih]
  · intro c t ihc iht; simp [normS, prS, ihc, iht]
  · intro c t e ihc iht ihe
    by_cases h : t.openIf = true
    · simp [normS, prS, h, ihc, iht, ihe, CStmt.openIf, prItems]
    · have h' : t.openIf = false := by simpa using h
      simp [normS, prS, h', ihc, iht, ihe, openIf_norm]
  · intro i c s b ihi ihc ihs ihb; simp [normS, prS, ihi, ihc, ihs, ihb]
  · intro t x; simp [normS]
  · intro t x e ih; simp [normS, prS, ih]

theorem printStmt_norm (s : CStmt) : printStmt (normS s) = printStmt s := print_norm.2 s

/-- **Round trip for all trees, up to the printer's braces**: whenever the normal form is well
    formed (operator tables, declarations inside braces), the text of `s` parses to the normal form
    of `s`. -/
theorem refParseStmt_print_norm (s : CStmt) (h : SWF (normS s) = true) :
    refParseStmt (printStmt s) = some (normS s) := by
  rw [← printStmt_norm]; exact refParseStmt_print _ h

theorem normEs_id : ∀ (args : List CExpr), (∀ a ∈ args, normE a = a) → normEs args = args
  | [], _ => by simp [normEs]
  | a :: rest, h => by
    simp [normEs, h a (by simp), normEs_id rest (fun x hx => h x (by simp [hx]))]

theorem normItems_id : ∀ (items : List CStmt), (∀ s ∈ items, normS s = s) → normItems items = items
  | [], _ => by simp [normItems]
  | a :: rest, h => by
    simp [normItems, h a (by simp), normItems_id rest (fun x hx => h x (by simp [hx]))]

theorem WFs_mem {args} (h : WFs args = true) : ∀ a ∈ args, WF a = true := by
  induction args with
  | nil => intro a ha; cases ha
  | cons x xs ih =>
    simp [WFs] at h
    intro a ha
    cases ha with
    | head => exact h.1
    | tail _ hm => exact ih h.2 a hm

/-- Well-formed trees are normal forms. -/
theorem norm_id : (∀ e : CExpr, WF e = true → normE e = e) ∧
    (∀ s : CStmt, ∀ b, SWFp b s = true → normS s = s) := by
  apply CExpr.ind2 (P := fun e => WF e = true → normE e = e)
    (S := fun s => ∀ b, SWFp b s = true → normS s = s)
  · intro s _; simp [normE]
  · intro f args ih h
    simp [WF] at h
    simp [normE, normEs_id args (fun a ha => ih a ha (WFs_mem h a ha))]
  · intro o a ih h; simp [WF] at h; simp [normE, ih h.2]
  · intro o a ih h; simp [WF] at h; simp [normE, ih h.2]
  · intro t a ih h; simp [WF] at h; simp [normE, ih h]
  · intro o a b iha ihb h; simp [WF] at h; simp [normE, iha h.1.2, ihb h.2]
  · intro c a b ihc iha ihb h; simp [WF] at h; simp [normE, ihc h.1.1, iha h.1.2, ihb h.2]
  · intro o a b iha ihb h; simp [WF] at h; simp [normE, iha h.1.2, ihb h.2]
  · intro items e ihs ihe h
    simp [WF] at h
    simp [normE, ihe h.2, normItems_id items (fun s hs => ihs s hs true (WF_items h.1 s hs))]
  · intro e ih b h; simp [SWFp] at h; simp [normS, ih h]
  · intro b _; simp [normS]
  · intro items ih b h
    simp [SWFp] at h
    simp [normS, normItems_id items (fun s hs => ih s hs true (WF_items h s hs))]
  · intro c t ihc iht b h; simp [SWFp] at h; simp [normS, ihc h.1, iht false h.2]
  · intro c t e ihc iht ihe b h
    simp [SWFp] at h
    simp [normS, ihc h.1.1.1, iht false h.1.1.2, ihe false h.2, h.1.2]
  · intro i c s b ihi ihc ihs ihb x h
    simp [SWFp] at h
    simp [normS, ihi h.1.1.1, ihc h.1.1.2, ihs h.1.2, ihb false h.2]
  · intro t x b _; simp [normS]
  · intro t x e ih b h; simp [SWFp] at h; simp [normS, ih h.2]

theorem normS_id (s : CStmt) (h : SWF s = true) : normS s = s := norm_id.2 s false h

-- non-vacuity: a tree that is NOT well formed (its then-branch ends in an else-less `if`, nested
-- twice, once inside a statement-expression) but whose normal form is
example : SWF (.ifElse (.atom "a") (.for_ (.atom "i") (.atom "j") (.atom "k")
      (.if_ (.stmtExpr [.ifElse (.atom "p") (.if_ (.atom "q") .empty) .empty] (.atom "r")) .empty))
      .empty) = false := by decide
example : refParseStmt (printStmt (.ifElse (.atom "a") (.for_ (.atom "i") (.atom "j") (.atom "k")
      (.if_ (.stmtExpr [.ifElse (.atom "p") (.if_ (.atom "q") .empty) .empty] (.atom "r")) .empty))
      .empty))
    = some (.ifElse (.atom "a") (.block [.for_ (.atom "i") (.atom "j") (.atom "k")
      (.if_ (.stmtExpr [.ifElse (.atom "p") (.block [.if_ (.atom "q") .empty]) .empty] (.atom "r"))
        .empty)]) .empty) :=
  refParseStmt_print_norm _ (by decide)

/-- A declaration is a block item, not a statement: no statement starts with a type name (at any
    fuel, whatever follows), while the item parser accepts `T x;` directly inside braces. -/
theorem decl_only_as_item (t x : String) (r : List GTok) :
    (∀ f, pStmt f (.ty t :: r) = none) ∧
    (∀ f, 0 < f → pItem f (.ty t :: .atom x :: .op ";" :: r) = some (.decl t x, r)) :=
  ⟨fun f => pStmt_ty f t r, fun f hf => item_decl f hf⟩

/-! ## Token-level examples (kernel-evaluated) -/

section facts
local notation "A" => GTok.atom
local notation "O" => GTok.op

-- `if (a) if (b) x; else y;` : the else belongs to the inner if
example : refParseStmt [O "if", .lp, A "a", .rp, O "if", .lp, A "b", .rp, A "x", O ";", O "else", A "y", O ";"]
    = some (.if_ (.atom "a") (.ifElse (.atom "b") (.expr (.atom "x")) (.expr (.atom "y")))) := by decide
-- `if (a) if (b) x; else y; else z;` : the second else belongs to the outer if
example : refParseStmt [O "if", .lp, A "a", .rp, O "if", .lp, A "b", .rp, A "x", O ";", O "else", A "y", O ";",
      O "else", A "z", O ";"]
    = some (.ifElse (.atom "a") (.ifElse (.atom "b") (.expr (.atom "x")) (.expr (.atom "y")))
        (.expr (.atom "z"))) := by decide
-- `if (a) { if (b) x; } else y;`
example : refParseStmt [O "if", .lp, A "a", .rp, O "{", O "if", .lp, A "b", .rp, A "x", O ";", O "}", O "else",
      A "y", O ";"]
    = some (.ifElse (.atom "a") (.block [.if_ (.atom "b") (.expr (.atom "x"))]) (.expr (.atom "y"))) := by
  decide
-- an `else` without `if`, and `if (a) { x; } ; else y;` (an empty statement between `}` and `else`) are rejected
example : refParseStmt [O "else", A "y", O ";"] = none := by decide
example : refParseStmt [O "{", O "if", .lp, A "a", .rp, O "{", A "x", O ";", O "}", O ";", O "else", A "y", O ";",
      O "}"] = none := by decide
-- `{ { x; } ; }` has two items: the inner block and an empty statement
example : refParseStmt [O "{", O "{", A "x", O ";", O "}", O ";", O "}"]
    = some (.block [.block [.expr (.atom "x")], .empty]) := by decide
-- `{ int x; x = 1; }` : declaration by the leading type token, then an expression statement
example : refParseStmt [O "{", .ty "int", A "x", O ";", A "x", O "=", A "1", O ";", O "}"]
    = some (.block [.decl "int" "x", .expr (.assign "=" (.atom "x") (.atom "1"))]) := by decide
-- `if (a) int x;` is rejected; `(int) x;` is an expression statement (cast)
example : refParseStmt [O "if", .lp, A "a", .rp, .ty "int", A "x", O ";"] = none := by decide
example : refParseStmt [.lp, .ty "int", .rp, A "x", O ";"] = some (.expr (.cast "int" (.atom "x"))) := by
  decide
-- `a = ({ int x = 1; x; }) + 1;`
example : refParseStmt [A "a", O "=", .lp, O "{", .ty "int", A "x", O "=", A "1", O ";", A "x", O ";", O "}", .rp,
      O "+", A "1", O ";"]
    = some (.expr (.assign "=" (.atom "a")
        (.bin "+" (.stmtExpr [.declInit "int" "x" (.atom "1")] (.atom "x")) (.atom "1")))) := by decide
-- a statement-expression must end in an expression statement
example : refParseStmt [A "a", O "=", .lp, O "{", A "x", O ";", O ";", O "}", .rp, O ";"] = none := by decide
-- the printer's braces
example : printStmt (.ifElse (.atom "a") (.if_ (.atom "b") (.expr (.atom "x"))) (.expr (.atom "y")))
    = [O "if", .lp, A "a", .rp, O "{", O "if", .lp, A "b", .rp, A "x", O ";", O "}", O "else", A "y", O ";"] := by
  decide

end facts

end Rzil.Grammar
