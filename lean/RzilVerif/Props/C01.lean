import RzilVerif.Model.Certificate
import RzilVerif.Props.C05Compose
import RzilVerif.Props.CompileHEqv
import RzilVerif.Props.C08
import RzilVerif.Lemmas.ImmFrame
/-!
# C01 — shipped instruction behaviours are translated faithfully end to end

The end-to-end statement is the composition of C02 (expressions), C03 (conversions), C05 (statements), C09 (folding)
on a whole behaviour.  `certified` (Model/Certificate.lean) is the decidable condition on the behaviour's text under
which that composition applies to the lowering AS THE CODE DOES IT; the driver evaluates it per behaviour and the
harness compares the real compiler's output with the model's.  For a certified behaviour whose real output equals the
model's, correctness holds for EVERY initial state (this theorem), not only for the states the search executes.
Behaviours outside the certificate are judged by execution on sampled states only and fall into the listed
carve-out classes, or are reported as unmodelled (never claimed).
-/
namespace Rzil.C01
open Rzil C05

/-- **End to end, as coded, all states**: if the certificate of a behaviour holds and the lowering as coded returns
    an effect, then from every initial machine state (no locals yet, source operands unwritten) in which the C
    behaviour terminates, the effect executes to a state with the same registers, `.new` bank, memory, store log,
    jump flag/target and slot-cancel flag.
    The final-state relation `StRel` does NOT relate the immediates (`MState.imm`): they are an input of the instruction,
    not an observable output, and a behaviour may assign to them (`riV = riV & ~3`: the C side then holds the new value
    in `imm`, the IL side in the local of the letter).  For behaviours without such an assignment equal immediates
    follow separately (`C05.imm_eq_of_noImmTargets`). -/
theorem certified_correct {ms : MacroSem} (hms : MsOK ms) {prog : List CStmt} {eff : ILEffect}
    (hcert : certified prog = true) (hcomp : compileProgH Cfg.asCode prog = .ok eff)
    {σ0 σC' : MState} (hloc : σ0.locals = []) (hsrcs : ∀ ov ∈ (ctxOf prog).srcs, σ0.written ov = false)
    (hex : ExecCs ms prog σ0 σC') :
    ∃ σIL', ExecIL ms eff σ0 σIL' ∧ StRel σC' σIL' := by
  simp only [certified, Bool.and_eq_true] at hcert
  obtain ⟨⟨⟨⟨⟨hok, hwf⟩, hwfe⟩, hcarve⟩, hfree⟩, hdead⟩ := hcert
  exact progH_correct_asCode_closed' hms hok hcarve hfree hdead hcomp (fun _ => Iff.rfl) hwf hwfe hloc hsrcs hex

/-- `certified_correct` with the conclusion it had before immediates became assignable: for a behaviour that assigns
    to no immediate (`noImmTargets`) the two final states also have the same immediates. -/
theorem certified_correct_imm {ms : MacroSem} (hms : MsOK ms) {prog : List CStmt} {eff : ILEffect}
    (hcert : certified prog = true) (hnoimm : noImmTargets prog = true) (hcomp : compileProgH Cfg.asCode prog = .ok eff)
    {σ0 σC' : MState} (hloc : σ0.locals = []) (hsrcs : ∀ ov ∈ (ctxOf prog).srcs, σ0.written ov = false)
    (hex : ExecCs ms prog σ0 σC') :
    ∃ σIL', ExecIL ms eff σ0 σIL' ∧ StRel σC' σIL' ∧ σC'.imm = σIL'.imm := by
  obtain ⟨σIL', hx, hrel⟩ := certified_correct hms hcert hcomp hloc hsrcs hex
  exact ⟨σIL', hx, hrel, imm_eq_of_noImmTargets hnoimm hex hx⟩

/-- for certified behaviours the two lowering models coincide (so theorems stated on either apply) -/
theorem certified_models_agree {prog : List CStmt} (hcert : certified prog = true) :
    compileProgH Cfg.asCode prog = compileProg Cfg.asCode prog := by
  simp only [certified, Bool.and_eq_true] at hcert
  obtain ⟨⟨⟨⟨⟨_, _⟩, _⟩, hcarve⟩, hfree⟩, hdead⟩ := hcert
  exact compileProgH_eq_compileProg_asCode prog hfree (HSameProg_of_carve prog hfree hcarve hdead)

/-- the repaired lowering needs no carve-out (final states: see the note at `certified_correct`; the immediates are
    not related by `StRel`) -/
theorem wellformed_correct_fixed {ms : MacroSem} (hms : MsOK ms) {prog : List CStmt} {eff : ILEffect}
    (hok : (ctxOf prog).ok = true) (hwf : WFStmts (ctxOf prog) prog = true)
    (hwfe : (exprsOfList prog).all (WFES (ctxOf prog)) = true) (hcomp : compileProg Cfg.fixed prog = .ok eff)
    {σ0 σC' : MState} (hloc : σ0.locals = []) (hsrcs : ∀ ov ∈ (ctxOf prog).srcs, σ0.written ov = false)
    (hex : ExecCs ms prog σ0 σC') :
    ∃ σIL', ExecIL ms eff σ0 σIL' ∧ StRel σC' σIL' :=
  prog_correct_fixed_closed hms hok hcomp (fun _ => Iff.rfl) hwf hwfe hloc hsrcs hex

/-- rejection is not approximation: the lowering either fails or yields one effect — there is no third outcome in
    which an output is produced for a behaviour it could not lower -/
theorem reject_or_effect (cfg : Cfg) (prog : List CStmt) :
    (∃ m, compileProgH cfg prog = .error m) ∨ (∃ eff, compileProgH cfg prog = .ok eff) := by
  cases h : compileProgH cfg prog with
  | error m => exact .inl ⟨m, rfl⟩
  | ok e => exact .inr ⟨e, rfl⟩

-- non-vacuity: a real shipped behaviour shape (A2_add: `RdV = RsV + RtV;`) is certified (and assigns to no immediate)
def a2_add : List CStmt :=
  [.assign (.reg "RdV" .dst ⟨true, 32⟩) "=" (.bin "+" (.reg "RsV" .src ⟨true, 32⟩) (.reg "RtV" .src ⟨true, 32⟩))]
example : certified a2_add = true := by decide +kernel
example : noImmTargets a2_add = true := by decide +kernel
example : pureEqualsH Cfg.asCode a2_add = true := by decide +kernel

-- a store with an effective address (S2_storerb_io shape) is NOT certified: `EA = RsV + siV` converts a signed value
-- to the unsigned `EA`, where the code's cast has a different (though semantically irrelevant) fill operand than the
-- repaired one, so the syntactic carve-out excludes it; such behaviours are judged by execution only
def store_io : List CStmt :=
  [.assign (.var "EA" utT) "=" (.bin "+" (.reg "RsV" .src ⟨true, 32⟩) (.imm "s" true)),
   .store 8 (.reg "RtV" .src ⟨true, 32⟩)]
example : certified store_io = false := by decide +kernel

-- a behaviour in a carve-out class is not certified (16-bit shift)
example : certified [.decl ⟨false, 16⟩ "x" (some (.reg "RsV" .src ⟨true, 32⟩)),
    .assign (.reg "RdV" .dst ⟨true, 32⟩) "=" (.shift "<<" (.var "x" ⟨false, 16⟩) (.lit 4 false ""))] = false := by decide +kernel

end Rzil.C01
