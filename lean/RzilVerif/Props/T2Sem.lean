import RzilVerif.Lemmas.SemStmtT2
import RzilVerif.Lemmas.SemIncl
import RzilVerif.Lemmas.BareImm
import RzilVerif.Props.C01
import RzilVerif.Model.DriverSem
/-!
# T2-semantic: the lowering as coded is correct on the SEMANTIC carve-out

The syntactic carve-out of T2 (`CarveE`/`CarveSs`: `compileX Cfg.asCode = compileX Cfg.fixed`) excludes every
conversion of a signed value to an unsigned type — `EA = RsV + siV`, `mem_store_u8(EA, RtV)`, i.e. almost every
shipped load/store — because the code emits `CAST(w, IL_FALSE, x)` where the repaired lowering emits
`CAST(w, MSB(x), x)`.  When the cast does not widen the two terms have the same value.  This file proves the
end-to-end theorem on the widened carve-out (`CarveSsSem`, Model/CarveSem.lean):

* `Lemmas/SemEquiv.lean`   — `PEqAt`/`PEquiv`/`EEqAt`/`EEquiv`: equal evaluation up to the error message, congruence
                             for every constructor, base lemma `cast_fill_irrelevant` (`cast_bfalse_msb`);
* `Lemmas/SemSort.lean`    — `sortOK_fixed`: on typed states (`SInv c σ`) the IL of the repaired lowering evaluates to a
                             bit-vector of the width of its compiler type; `typedState_SInv`: typed states exist;
* `Lemmas/SemExprT2.lean`  — `expr_sem`, `expr_sem_forall`: on `CarveESem` the two lowerings fail together or return
                             equal `ty`, equal `kind`, equivalent `il`;
* `Lemmas/SemStmtT2.lean`  — `decl_sem`, `assign_sem`, `store_sem`, `jump_sem` (effects alike from every typed state),
                             `cond_sem`, `stmts_state_sem` (fail together, equal `TSt`);
* `Lemmas/SemIncl.lean`    — the syntactic carve-out / certificate is contained in the semantic one;
* here                     — `stmt_main_sem` (simulation by induction on the C execution, both lowerings side by side),
                             `stmt_sem_both`, `prog_sem_both` (both effects reach the same IL state),
                             `prog_correct_asCode_sem_closed`, `certifiedSem_correct`, witnesses.
-/
namespace Rzil
namespace Sem
open C05

/-! ## the simulation: induction on the C execution, with the lowering AS CODED and the repaired one side by side -/

section MainLow
variable {ms : MacroSem} (hms : MsOK ms) {lb : Bool} (hlb : lb = true → MsLow ms) {c : Ctx} (hc : c.ok = true) (env : CEnv)
include hms hlb hc

/-- (General form: carve-out with the low-bits flag `lb`, hypothesis `lb = true → MsLow ms`; `stmt_main_sem` below is the
    instance `lb = false`.)  Induction on the C fuel.  For statements, statement lists and loops: the repaired lowering succeeds too (with the
    same `TSt`), and from related states both effects run to ONE IL state, related to the final C state.
    (`Inv`: the two-state invariant of `Lemmas/StmtState.lean`; the IL local of an immediate letter holds the C side's
    CURRENT immediate, the `imm` components themselves are not related.) -/
theorem stmt_main_sem_low : ∀ f : Nat,
    (∀ s st eff st' σC σIL σC', compileStmt (codeEnv env) st s = .ok (eff, st') → CarveSSem env s lb = true →
        WFStmt c s = true → (exprsOf s).all (WFES c) = true → Inv c σC σIL → execC ms f s σC = .ok σC' →
        ∃ ef, compileStmt (fixedEnv env) st s = .ok (ef, st') ∧
          ∃ σIL', ExecIL ms eff σIL σIL' ∧ ExecIL ms ef σIL σIL' ∧ Inv c σC' σIL') ∧
    (∀ ss st effs st' σC σIL σC', compileStmts (codeEnv env) st ss = .ok (effs, st') → CarveSsSem env ss lb = true →
        WFStmts c ss = true → (exprsOfList ss).all (WFES c) = true → Inv c σC σIL → execCs ms f ss σC = .ok σC' →
        ∃ efs, compileStmts (fixedEnv env) st ss = .ok (efs, st') ∧
          ∃ σIL', ExecSeqIL ms effs σIL σIL' ∧ ExecSeqIL ms efs σIL σIL' ∧ Inv c σC' σIL') ∧
    (∀ v cond body st bs bsf st' cc fc stepE loopBody loopBodyF σC σIL σC', compileExpr (codeEnv env) cond = .ok cc →
        compileExpr (fixedEnv env) cond = .ok fc → CarveCSem env cond lb = true →
        compileStmts (codeEnv env) st body = .ok (bs, st') → compileStmts (fixedEnv env) st body = .ok (bsf, st') →
        CarveSsSem env body lb = true →
        LoopShape ms c v 0 bs stepE loopBody → LoopShape ms c v 0 bsf stepE loopBodyF →
        WFStmts c body = true → (cond :: exprsOfList body).all (WFES c) = true → Inv c σC σIL →
        loopC ms f v cond 0 body σC = .ok σC' →
        ∃ σIL', ExecIL ms (.repeat_ (condIL Cfg.asCode cc) loopBody) σIL σIL' ∧
          ExecIL ms (.repeat_ (condIL Cfg.fixed fc) loopBodyF) σIL σIL' ∧ Inv c σC' σIL') := by
  have hE := exprOK_of_C02 hms
  have henv : (fixedEnv env).cfg = Cfg.fixed := rfl
  intro f
  induction f with
  | zero =>
    refine ⟨?_, ?_, ?_⟩
    · intro s st eff st' σC σIL σC' _ _ _ _ _ h; simp [execC] at h
    · intro ss st effs st' σC σIL σC' _ _ _ _ _ h; simp [execCs] at h
    · intro v cond body st bs bsf st' cc fc stepE loopBody loopBodyF σC σIL σC' _ _ _ _ _ _ _ _ _ _ _ h
      simp [loopC] at h
  | succ f ih =>
    obtain ⟨ihE, ihS, ihL⟩ := ih
    refine ⟨?_, ?_, ?_⟩
    · intro s st eff st' σC σIL σC' hcomp hcarve hwf hwfe hinv hex
      cases s with
      | decl t n init =>
        cases init with
        | none =>
          have hF : compileStmt (fixedEnv env) st (.decl t n none) = .ok (eff, st') := by
            simp only [compileStmt] at hcomp ⊢; exact hcomp
          simp only [compileStmt, Except.ok.injEq, Prod.mk.injEq] at hcomp
          simp only [execC, Except.ok.injEq] at hex
          obtain ⟨rfl, _⟩ := hcomp
          subst hex
          exact ⟨_, hF, _, ExecIL_empty, ExecIL_empty, hinv⟩
        | some e =>
          have hwe : WFES c e = true := by
            simpa only [exprsOf, List.all_cons, List.all_nil, Bool.and_true] using hwfe
          obtain ⟨⟨ef, stf⟩, hF, hst, heq⟩ := (decl_sem hms hlb hinv.inv env st t n e hcarve hwe).ok_left hcomp
          simp only at hst; subst hst
          obtain ⟨σIL', hx, hinv'⟩ := decl_correct hE henv hc hF hwf (WFHyp_of_static hwfe) hinv hex
          exact ⟨ef, hF, σIL', ExecIL_of_EEqAt (heq []).symm hx, hx, hinv'⟩
      | assign lhs op e =>
        have hl : lhsOK c lhs = true := by
          simp only [WFStmt, Bool.and_eq_true] at hwf; exact hwf.2
        have hwe : WFES c e = true := by
          simp only [exprsOf] at hwfe
          split at hwfe <;> simp only [List.all_cons, List.all_nil, Bool.and_true, Bool.and_eq_true] at hwfe
          · exact hwfe
          · exact hwfe.2
        obtain ⟨⟨ef, stf⟩, hF, hst, heq⟩ := (assign_sem hms hlb hinv.inv env st lhs op e hcarve hl hwe).ok_left hcomp
        simp only at hst; subst hst
        obtain ⟨σIL', hx, hinv'⟩ := assign_correct hE henv hc hF hwf (WFHyp_of_static hwfe) hinv hex
        exact ⟨ef, hF, σIL', ExecIL_of_EEqAt (heq []).symm hx, hx, hinv'⟩
      | store w e =>
        have hwe : WFES c e = true := by
          simpa only [exprsOf, List.all_cons, List.all_nil, Bool.and_true] using hwfe
        obtain ⟨⟨ef, stf⟩, hF, hst, heq⟩ := (store_sem hms hlb hinv.inv env st w e hcarve hwe).ok_left hcomp
        simp only at hst; subst hst
        obtain ⟨σIL', hx, hinv'⟩ := store_correct hE henv hF hwf (WFHyp_of_static hwfe) hinv hex
        exact ⟨ef, hF, σIL', ExecIL_of_EEqAt (heq []).symm hx, hx, hinv'⟩
      | jump e =>
        have hwe : WFES c e = true := by
          simpa only [exprsOf, List.all_cons, List.all_nil, Bool.and_true] using hwfe
        obtain ⟨⟨ef, stf⟩, hF, hst, heq⟩ := (jump_sem hms hlb hc hinv.inv env st e hcarve hwe).ok_left hcomp
        simp only at hst; subst hst
        obtain ⟨σIL', hx, hinv'⟩ := jump_correct hE henv hc hF hwf (WFHyp_of_static hwfe) hinv hex
        exact ⟨ef, hF, σIL', ExecIL_of_EEqAt (heq []).symm hx, hx, hinv'⟩
      | skip w =>
        have hF : compileStmt (fixedEnv env) st (.skip w) = .ok (eff, st') := by
          simp only [compileStmt] at hcomp ⊢; exact hcomp
        obtain ⟨σIL', hx, hinv'⟩ := skip_correct henv hc hF hinv hex
        exact ⟨eff, hF, σIL', hx, hx, hinv'⟩
      | chain l1 l2 op2 e =>
        rw [CarveSSem] at hcarve
        rw [T2_chain (exprT2_of_C02 env) st l1 l2 op2 e hcarve] at hcomp
        obtain ⟨σIL', hx, hinv'⟩ := chain_correct hE henv hc hcomp hwf (WFHyp_of_static hwfe) hinv hex
        exact ⟨eff, hcomp, σIL', hx, hx, hinv'⟩
      | exprstmt e =>
        -- a bare pure value: both lowerings compile it (they fail together, `stmt_state_sem`) and emit nothing;
        -- C evaluates and discards it
        obtain ⟨⟨ef, stf⟩, hFs, hst⟩ := (stmt_state_sem hms hlb hc hinv.inv env _ st hcarve hwf hwfe).ok_left hcomp
        simp only [TStRel] at hst; subst hst
        have h1 := compileStmt_bare (s := .exprstmt e) rfl hcomp
        have h2 := compileStmt_bare (s := .exprstmt e) rfl hFs
        subst h1; subst h2
        simp only [execC] at hex
        obtain ⟨v, _, hex1⟩ := bind_ok hex
        simp only [Except.ok.injEq] at hex1
        subst hex1
        exact ⟨_, hFs, _, ExecIL_empty, ExecIL_empty, hinv⟩
      | ret e => simp [WFStmt] at hwf
      | vcall n x a p => simp [WFStmt] at hwf
      | ite cnd t e =>
        -- the repaired lowering of the whole statement
        obtain ⟨⟨ef, stf⟩, hFs, hst⟩ := (stmt_state_sem hms hlb hc hinv.inv env _ st hcarve hwf hwfe).ok_left hcomp
        simp only [TStRel] at hst; subst hst
        refine ⟨ef, hFs, ?_⟩
        cases e with
        | none =>
          simp only [compileStmt] at hcomp hFs
          obtain ⟨cc, hcc, hcomp1⟩ := bind_ok hcomp
          obtain ⟨⟨ts, st1⟩, hts, hcomp2⟩ := bind_ok hcomp1
          obtain ⟨fc, hF, hFs1⟩ := bind_ok hFs
          obtain ⟨⟨tsf, st1f⟩, htsf, hFs2⟩ := bind_ok hFs1
          clear hcomp hcomp1 hFs hFs1
          simp only [Except.ok.injEq, Prod.mk.injEq] at hcomp2 hFs2
          obtain ⟨rfl, rfl⟩ := hcomp2
          obtain ⟨rfl, rfl⟩ := hFs2
          simp only [execC] at hex
          obtain ⟨vc, hvc, hex1⟩ := bind_ok hex
          obtain ⟨b, hb, hex2⟩ := bind_ok hex1
          clear hex hex1
          simp only [WFStmt, Bool.and_eq_true] at hwf
          simp only [CarveSSem, Bool.and_eq_true] at hcarve
          obtain ⟨⟨hcx, hct⟩, _⟩ := hcarve
          simp only [exprsOf, List.all_cons, List.all_append, Bool.and_eq_true] at hwfe
          obtain ⟨fc', hF', hpe⟩ := cond_sem hms hlb hinv.inv env cnd hcx hwfe.1 hcc
          rw [hF] at hF'; cases hF'
          have hsim := expr_sim hE henv (hinv.rel.agreeOn _ _ _) hinv.inv hinv.immVal
            (WFHyp_of_static (by simp only [List.all_cons, List.all_nil, Bool.and_true]; exact hwfe.1)) hvc hF
          have hcondF := C05.sim_cond hsim hb
          have hcond := hpe.symm.ok hcondF
          show ∃ σIL', ExecIL ms (.branch (condIL Cfg.asCode cc) (mkSeq ts) .empty) σIL σIL' ∧
            ExecIL ms (.branch (condIL Cfg.fixed fc) (mkSeq tsf) .empty) σIL σIL' ∧ Inv c σC' σIL'
          cases b with
          | true =>
            simp only [↓reduceIte] at hex2
            obtain ⟨tsf', htsf', σIL', hx, hxF, hinv'⟩ := ihS t _ ts _ σC σIL σC' hts hct hwf.1 hwfe.2.1 hinv hex2
            rw [htsf] at htsf'
            simp only [Except.ok.injEq, Prod.mk.injEq] at htsf'
            obtain ⟨rfl, _⟩ := htsf'
            exact ⟨σIL', ExecIL_branch hcond (mkSeq_exec.2 hx), ExecIL_branch hcondF (mkSeq_exec.2 hxF), hinv'⟩
          | false =>
            simp only [Bool.false_eq_true, ↓reduceIte, Except.ok.injEq] at hex2
            subst hex2
            exact ⟨σIL, ExecIL_branch hcond ExecIL_empty, ExecIL_branch hcondF ExecIL_empty, hinv⟩
        | some e =>
          simp only [compileStmt] at hcomp hFs
          obtain ⟨cc, hcc, hcomp1⟩ := bind_ok hcomp
          obtain ⟨⟨ts, st1⟩, hts, hcomp2⟩ := bind_ok hcomp1
          obtain ⟨⟨es, st2⟩, hes, hcomp3⟩ := bind_ok hcomp2
          obtain ⟨fc, hF, hFs1⟩ := bind_ok hFs
          obtain ⟨⟨tsf, st1f⟩, htsf, hFs2⟩ := bind_ok hFs1
          obtain ⟨⟨esf, st2f⟩, hesf, hFs3⟩ := bind_ok hFs2
          clear hcomp hcomp1 hcomp2 hFs hFs1 hFs2
          simp only [Except.ok.injEq, Prod.mk.injEq] at hcomp3 hFs3
          obtain ⟨rfl, rfl⟩ := hcomp3
          obtain ⟨rfl, rfl⟩ := hFs3
          simp only [execC] at hex
          obtain ⟨vc, hvc, hex1⟩ := bind_ok hex
          obtain ⟨b, hb, hex2⟩ := bind_ok hex1
          clear hex hex1
          simp only [WFStmt, Bool.and_eq_true] at hwf
          simp only [CarveSSem, Bool.and_eq_true] at hcarve
          obtain ⟨⟨hcx, hct⟩, hce⟩ := hcarve
          simp only [exprsOf, List.all_cons, List.all_append, Bool.and_eq_true] at hwfe
          obtain ⟨fc', hF', hpe⟩ := cond_sem hms hlb hinv.inv env cnd hcx hwfe.1 hcc
          rw [hF] at hF'; cases hF'
          have hsim := expr_sim hE henv (hinv.rel.agreeOn _ _ _) hinv.inv hinv.immVal
            (WFHyp_of_static (by simp only [List.all_cons, List.all_nil, Bool.and_true]; exact hwfe.1)) hvc hF
          have hcondF := C05.sim_cond hsim hb
          have hcond := hpe.symm.ok hcondF
          -- the two lowerings of the first arm leave the same `TSt`
          have hst1 : st1f = st1 := by
            obtain ⟨⟨tsf', st1'⟩, h1, h2⟩ := (stmts_state_sem hms hlb hc hinv.inv env t _ hct hwf.1 hwfe.2.1).ok_left hts
            simp only [TStsRel] at h2; subst h2
            rw [htsf] at h1
            simp only [Except.ok.injEq, Prod.mk.injEq] at h1
            exact h1.2
          subst hst1
          show ∃ σIL', ExecIL ms (.branch (condIL Cfg.asCode cc) (mkSeq ts) (mkSeq es)) σIL σIL' ∧
            ExecIL ms (.branch (condIL Cfg.fixed fc) (mkSeq tsf) (mkSeq esf)) σIL σIL' ∧ Inv c σC' σIL'
          cases b with
          | true =>
            simp only [↓reduceIte] at hex2
            obtain ⟨tsf', htsf', σIL', hx, hxF, hinv'⟩ := ihS t _ ts _ σC σIL σC' hts hct hwf.1 hwfe.2.1 hinv hex2
            rw [htsf] at htsf'
            simp only [Except.ok.injEq, Prod.mk.injEq] at htsf'
            obtain ⟨rfl, _⟩ := htsf'
            exact ⟨σIL', ExecIL_branch hcond (mkSeq_exec.2 hx), ExecIL_branch hcondF (mkSeq_exec.2 hxF), hinv'⟩
          | false =>
            simp only [Bool.false_eq_true, ↓reduceIte] at hex2
            obtain ⟨esf', hesf', σIL', hx, hxF, hinv'⟩ := ihS e _ es _ σC σIL σC' hes hce hwf.2 hwfe.2.2 hinv hex2
            rw [hesf] at hesf'
            simp only [Except.ok.injEq, Prod.mk.injEq] at hesf'
            obtain ⟨rfl, _⟩ := hesf'
            exact ⟨σIL', ExecIL_branch hcond (mkSeq_exec.2 hx), ExecIL_branch hcondF (mkSeq_exec.2 hxF), hinv'⟩
      | for_ v cnd step body =>
        obtain ⟨⟨ef, stf⟩, hFs, hst⟩ := (stmt_state_sem hms hlb hc hinv.inv env _ st hcarve hwf hwfe).ok_left hcomp
        simp only [TStRel] at hst; subst hst
        refine ⟨ef, hFs, ?_⟩
        simp only [CarveSSem, Bool.and_eq_true, beq_iff_eq] at hcarve
        obtain ⟨⟨hstep, hcx⟩, hcb⟩ := hcarve
        subst hstep
        simp only [execC] at hex
        simp only [WFStmt, Bool.and_eq_true] at hwf
        simp only [exprsOf] at hwfe
        obtain ⟨hv, hwfb⟩ := hwf
        cases hvt : lookupS v c.types with
        | none => rw [hvt] at hv; simp at hv
        | some t =>
          rw [hvt] at hv
          simp only [beq_iff_eq] at hv
          obtain ⟨σIL0, hx0, hinv0⟩ := for_init_correct (ms := ms) hc hinv hvt hv
          rw [compileStmt] at hcomp hFs
          obtain ⟨cc, hcc, hcomp1⟩ := bind_ok hcomp
          obtain ⟨fc, hF, hFs1⟩ := bind_ok hFs
          clear hcomp hFs
          simp only [beq_self_eq_true, ↓reduceIte] at hcomp1 hFs1
          obtain ⟨⟨bs, st1⟩, hbs, hcomp2⟩ := bind_ok hcomp1
          obtain ⟨⟨bsf, st1f⟩, hbsf, hFs2⟩ := bind_ok hFs1
          clear hcomp1 hFs1
          simp only [Except.ok.injEq, Prod.mk.injEq] at hcomp2 hFs2
          obtain ⟨rfl, rfl⟩ := hcomp2
          obtain ⟨rfl, rfl⟩ := hFs2
          have hshape : LoopShape ms c v 0 bs (.seqn [.setl s!"h_tmp{(addImms st (immsOfExpr cnd)).hyb}" (.varl v),
              .setl v (.inc (.varl v) 32)]) (.seqn [mkSeq bs, .seqn [.setl s!"h_tmp{(addImms st (immsOfExpr cnd)).hyb}" (.varl v),
              .setl v (.inc (.varl v) 32)]]) :=
            { body := fun σ σ1 σ2 h1 h2 => ExecIL_seqn.2 (ExecSeqIL_cons (mkSeq_exec.2 h1) (ExecSeqIL_cons h2 ExecSeqIL_nil))
              step := fun σC1 σIL1 w x hi hl => for_step_correct (ms := ms) hc hi hvt hv (isTmp_tmp _) hl }
          have hshapeF : LoopShape ms c v 0 bsf (.seqn [.setl s!"h_tmp{(addImms st (immsOfExpr cnd)).hyb}" (.varl v),
              .setl v (.inc (.varl v) 32)]) (.seqn [mkSeq bsf, .seqn [.setl s!"h_tmp{(addImms st (immsOfExpr cnd)).hyb}" (.varl v),
              .setl v (.inc (.varl v) 32)]]) :=
            { body := fun σ σ1 σ2 h1 h2 => ExecIL_seqn.2 (ExecSeqIL_cons (mkSeq_exec.2 h1) (ExecSeqIL_cons h2 ExecSeqIL_nil))
              step := fun σC1 σIL1 w x hi hl => for_step_correct (ms := ms) hc hi hvt hv (isTmp_tmp _) hl }
          obtain ⟨σIL', hx, hxF, hinv'⟩ := ihL v cnd body _ bs bsf _ cc fc _ _ _ _ σIL0 σC' hcc hF hcx hbs hbsf hcb
            hshape hshapeF hwfb hwfe hinv0 hex
          exact ⟨σIL', ExecIL_seqn.2 (ExecSeqIL_cons hx0 (ExecSeqIL_cons hx ExecSeqIL_nil)),
            ExecIL_seqn.2 (ExecSeqIL_cons hx0 (ExecSeqIL_cons hxF ExecSeqIL_nil)), hinv'⟩
    · intro ss st effs st' σC σIL σC' hcomp hcarve hwf hwfe hinv hex
      cases ss with
      | nil =>
        have hF : compileStmts (fixedEnv env) st [] = .ok (effs, st') := by
          simp only [compileStmts] at hcomp ⊢; exact hcomp
        simp only [compileStmts, Except.ok.injEq, Prod.mk.injEq] at hcomp
        simp only [execCs, Except.ok.injEq] at hex
        obtain ⟨rfl, _⟩ := hcomp
        subst hex
        exact ⟨_, hF, _, ExecSeqIL_nil, ExecSeqIL_nil, hinv⟩
      | cons s ss =>
        rw [compileStmts] at hcomp
        obtain ⟨⟨e, st1⟩, he, hcomp1⟩ := bind_ok hcomp
        obtain ⟨⟨es, st2⟩, hes, hcomp2⟩ := bind_ok hcomp1
        simp only [Except.ok.injEq, Prod.mk.injEq] at hcomp2
        obtain ⟨rfl, rfl⟩ := hcomp2
        rw [execCs] at hex
        obtain ⟨σ1, h1, h2⟩ := bind_ok hex
        simp only [WFStmts, Bool.and_eq_true] at hwf
        simp only [CarveSsSem, Bool.and_eq_true] at hcarve
        simp only [exprsOfList, List.all_append, Bool.and_eq_true] at hwfe
        obtain ⟨ef, hef, σIL1, hx1, hx1F, hinv1⟩ := ihE s st e st1 σC σIL σ1 he hcarve.1 hwf.1 hwfe.1 hinv h1
        obtain ⟨esf, hesf, σIL2, hx2, hx2F, hinv2⟩ := ihS ss st1 es st2 σ1 σIL1 σC' hes hcarve.2 hwf.2 hwfe.2 hinv1 h2
        refine ⟨consEff s ef esf, ?_, ?_⟩
        · rw [compileStmts, hef]
          simp only [bind, Except.bind, hesf]
        · cases hb : isBare s
          · rw [consEff_eff hb, consEff_eff hb]
            exact ⟨σIL2, ExecSeqIL_cons hx1 hx2, ExecSeqIL_cons hx1F hx2F, hinv2⟩
          · -- a bare value statement is listed by neither lowering; its (empty) effect does not move the IL state
            rw [consEff_bare hb, consEff_bare hb]
            have h0 := compileStmt_bare hb he
            subst h0
            have := ExecIL_det hx1 ExecIL_empty
            subst this
            exact ⟨σIL2, hx2, hx2F, hinv2⟩
    · intro v cond body st bs bsf st' cc fc stepE loopBody loopBodyF σC σIL σC' hcc hF hcx hbs hbsf hcb hshape hshapeF
        hwfb hwfe hinv hex
      rw [loopC] at hex
      obtain ⟨vc, hvc, hex1⟩ := bind_ok hex
      obtain ⟨b, hb, hex2⟩ := bind_ok hex1
      clear hex hex1
      have hwfe' := hwfe
      simp only [List.all_cons, Bool.and_eq_true] at hwfe'
      obtain ⟨fc', hF', hpe⟩ := cond_sem hms hlb hinv.inv env cond hcx hwfe'.1 hcc
      rw [hF] at hF'; cases hF'
      have hsim := expr_sim hE henv (hinv.rel.agreeOn _ _ _) hinv.inv hinv.immVal
        (WFHyp_of_static (by simp only [List.all_cons, List.all_nil, Bool.and_true]; exact hwfe'.1)) hvc hF
      have hcondF := C05.sim_cond hsim hb
      have hcond := hpe.symm.ok hcondF
      cases b with
      | false =>
        simp only [Bool.false_eq_true, ↓reduceIte, Except.ok.injEq] at hex2
        subst hex2
        exact ⟨σIL, ExecIL_repeat_false hcond, ExecIL_repeat_false hcondF, hinv⟩
      | true =>
        simp only [↓reduceIte] at hex2
        obtain ⟨σ1, hb1, hex3⟩ := bind_ok hex2
        obtain ⟨bsf', hbsf', σIL1, hx1, hx1F, hinv1⟩ := ihS body st bs st' σC σIL σ1 hbs hcb hwfb hwfe'.2 hinv hb1
        rw [hbsf] at hbsf'
        simp only [Except.ok.injEq, Prod.mk.injEq] at hbsf'
        obtain ⟨rfl, _⟩ := hbsf'
        split at hex3
        · rename_i w x hl
          obtain ⟨σIL2, hx2, hinv2⟩ := hshape.step σ1 σIL1 w x hinv1 hl
          obtain ⟨σIL', hx3, hx3F, hinv'⟩ := ihL v cond body st bs bsf st' cc fc stepE loopBody loopBodyF _ σIL2 σC' hcc hF hcx
            hbs hbsf hcb hshape hshapeF hwfb hwfe hinv2 hex3
          exact ⟨σIL', ExecIL_repeat_true hcond (hshape.body _ _ _ hx1 hx2) hx3,
            ExecIL_repeat_true hcondF (hshapeF.body _ _ _ hx1F hx2) hx3F, hinv'⟩
        · simp at hex3

/-- **T2-semantic for statements (all forms)**: on the semantic carve-out the repaired lowering succeeds whenever the
    lowering as coded does, with the same `TSt`, and whenever the C statement terminates from a related state both
    effects run — to the SAME IL state, related to the final C state. -/
theorem stmt_sem_both_low {s : CStmt} {st st' : TSt} {eff : ILEffect}
    (hcomp : compileStmt (codeEnv env) st s = .ok (eff, st')) (hcarve : CarveSSem env s lb = true)
    (hwf : WFStmt c s = true) (hwfe : (exprsOf s).all (WFES c) = true) {σC σIL σC' : MState} (hinv : Inv c σC σIL)
    (hex : ExecC ms s σC σC') :
    ∃ ef, compileStmt (fixedEnv env) st s = .ok (ef, st') ∧
      ∃ σIL', ExecIL ms eff σIL σIL' ∧ ExecIL ms ef σIL σIL' ∧ Inv c σC' σIL' := by
  obtain ⟨f, hf⟩ := ExecC_iff.1 hex
  exact (stmt_main_sem_low hms hlb hc env f).1 s st eff st' σC σIL σC' hcomp hcarve hwf hwfe hinv hf

theorem stmts_sem_both_low {ss : List CStmt} {st st' : TSt} {effs : List ILEffect}
    (hcomp : compileStmts (codeEnv env) st ss = .ok (effs, st')) (hcarve : CarveSsSem env ss lb = true)
    (hwf : WFStmts c ss = true) (hwfe : (exprsOfList ss).all (WFES c) = true) {σC σIL σC' : MState}
    (hinv : Inv c σC σIL) (hex : ExecCs ms ss σC σC') :
    ∃ efs, compileStmts (fixedEnv env) st ss = .ok (efs, st') ∧
      ∃ σIL', ExecSeqIL ms effs σIL σIL' ∧ ExecSeqIL ms efs σIL σIL' ∧ Inv c σC' σIL' := by
  obtain ⟨f, hf⟩ := ExecCs_iff.1 hex
  exact (stmt_main_sem_low hms hlb hc env f).2.1 ss st effs st' σC σIL σC' hcomp hcarve hwf hwfe hinv hf

/-- **T1 on the semantic carve-out, statements, for the lowering AS CODED**: if the C statement `s` runs from `σC` to
    `σC'` and the IL state `σIL` is related to `σC`, the effect `Cfg.asCode` emits runs from `σIL` to a state related
    to `σC'`. -/
theorem stmt_correct_asCode_sem_low {s : CStmt} {st st' : TSt} {eff : ILEffect}
    (hcomp : compileStmt (codeEnv env) st s = .ok (eff, st')) (hcarve : CarveSSem env s lb = true)
    (hwf : WFStmt c s = true) (hwfe : (exprsOf s).all (WFES c) = true) {σC σIL σC' : MState} (hinv : Inv c σC σIL)
    (hex : ExecC ms s σC σC') :
    ∃ σIL', ExecIL ms eff σIL σIL' ∧ Inv c σC' σIL' := by
  obtain ⟨_, _, σIL', hx, _, hinv'⟩ := stmt_sem_both_low hms hlb hc env hcomp hcarve hwf hwfe hinv hex
  exact ⟨σIL', hx, hinv'⟩

theorem stmts_correct_asCode_sem_low {ss : List CStmt} {st st' : TSt} {effs : List ILEffect}
    (hcomp : compileStmts (codeEnv env) st ss = .ok (effs, st')) (hcarve : CarveSsSem env ss lb = true)
    (hwf : WFStmts c ss = true) (hwfe : (exprsOfList ss).all (WFES c) = true) {σC σIL σC' : MState}
    (hinv : Inv c σC σIL) (hex : ExecCs ms ss σC σC') :
    ∃ σIL', ExecSeqIL ms effs σIL σIL' ∧ Inv c σC' σIL' := by
  obtain ⟨_, _, σIL', hx, _, hinv'⟩ := stmts_sem_both_low hms hlb hc env hcomp hcarve hwf hwfe hinv hex
  exact ⟨σIL', hx, hinv'⟩

end MainLow

/-! ### the same without the low-bits flag (no assumption on the macros beyond `MsOK`) -/

section Main
variable {ms : MacroSem} (hms : MsOK ms) {c : Ctx} (hc : c.ok = true) (env : CEnv)
include hms hc

/-- Induction on the C fuel.  For statements, statement lists and loops: the repaired lowering succeeds too (with the
    same `TSt`), and from related states both effects run to ONE IL state, related to the final C state.
    (`Inv`: the two-state invariant of `Lemmas/StmtState.lean`; the IL local of an immediate letter holds the C side's
    CURRENT immediate, the `imm` components themselves are not related.) -/
theorem stmt_main_sem : ∀ f : Nat,
    (∀ s st eff st' σC σIL σC', compileStmt (codeEnv env) st s = .ok (eff, st') → CarveSSem env s = true →
        WFStmt c s = true → (exprsOf s).all (WFES c) = true → Inv c σC σIL → execC ms f s σC = .ok σC' →
        ∃ ef, compileStmt (fixedEnv env) st s = .ok (ef, st') ∧
          ∃ σIL', ExecIL ms eff σIL σIL' ∧ ExecIL ms ef σIL σIL' ∧ Inv c σC' σIL') ∧
    (∀ ss st effs st' σC σIL σC', compileStmts (codeEnv env) st ss = .ok (effs, st') → CarveSsSem env ss = true →
        WFStmts c ss = true → (exprsOfList ss).all (WFES c) = true → Inv c σC σIL → execCs ms f ss σC = .ok σC' →
        ∃ efs, compileStmts (fixedEnv env) st ss = .ok (efs, st') ∧
          ∃ σIL', ExecSeqIL ms effs σIL σIL' ∧ ExecSeqIL ms efs σIL σIL' ∧ Inv c σC' σIL') ∧
    (∀ v cond body st bs bsf st' cc fc stepE loopBody loopBodyF σC σIL σC', compileExpr (codeEnv env) cond = .ok cc →
        compileExpr (fixedEnv env) cond = .ok fc → CarveCSem env cond = true →
        compileStmts (codeEnv env) st body = .ok (bs, st') → compileStmts (fixedEnv env) st body = .ok (bsf, st') →
        CarveSsSem env body = true →
        LoopShape ms c v 0 bs stepE loopBody → LoopShape ms c v 0 bsf stepE loopBodyF →
        WFStmts c body = true → (cond :: exprsOfList body).all (WFES c) = true → Inv c σC σIL →
        loopC ms f v cond 0 body σC = .ok σC' →
        ∃ σIL', ExecIL ms (.repeat_ (condIL Cfg.asCode cc) loopBody) σIL σIL' ∧
          ExecIL ms (.repeat_ (condIL Cfg.fixed fc) loopBodyF) σIL σIL' ∧ Inv c σC' σIL') :=
  stmt_main_sem_low hms (lb := false) (fun h => nomatch h) hc env

/-- the loop part of `stmt_main_sem` in the form it had before the condition-position carve-out `CarveCSem` existed (the
    condition value-carved, `CarveESem`, and `condOK` for the repaired lowering): a corollary of the present form -/
theorem stmt_main_sem_loop_value_cond (f : Nat) :
    ∀ v cond body st bs bsf st' cc fc stepE loopBody loopBodyF σC σIL σC', compileExpr (codeEnv env) cond = .ok cc →
        compileExpr (fixedEnv env) cond = .ok fc → CarveESem env.assigned cond = true → condOK fc = true →
        compileStmts (codeEnv env) st body = .ok (bs, st') → compileStmts (fixedEnv env) st body = .ok (bsf, st') →
        CarveSsSem env body = true →
        LoopShape ms c v 0 bs stepE loopBody → LoopShape ms c v 0 bsf stepE loopBodyF →
        WFStmts c body = true → (cond :: exprsOfList body).all (WFES c) = true → Inv c σC σIL →
        loopC ms f v cond 0 body σC = .ok σC' →
        ∃ σIL', ExecIL ms (.repeat_ (condIL Cfg.asCode cc) loopBody) σIL σIL' ∧
          ExecIL ms (.repeat_ (condIL Cfg.fixed fc) loopBodyF) σIL σIL' ∧ Inv c σC' σIL' := by
  intro v cond body st bs bsf st' cc fc stepE loopBody loopBodyF σC σIL σC' hcc hF hcx hcok
  exact (stmt_main_sem hms hc env f).2.2 v cond body st bs bsf st' cc fc stepE loopBody loopBodyF σC σIL σC' hcc hF
    (carveCSem_of_carveESem hcx (by rw [hF]; exact hcok))

/-- **T2-semantic for statements (all forms)**: on the semantic carve-out the repaired lowering succeeds whenever the
    lowering as coded does, with the same `TSt`, and whenever the C statement terminates from a related state both
    effects run — to the SAME IL state, related to the final C state. -/
theorem stmt_sem_both {s : CStmt} {st st' : TSt} {eff : ILEffect}
    (hcomp : compileStmt (codeEnv env) st s = .ok (eff, st')) (hcarve : CarveSSem env s = true)
    (hwf : WFStmt c s = true) (hwfe : (exprsOf s).all (WFES c) = true) {σC σIL σC' : MState} (hinv : Inv c σC σIL)
    (hex : ExecC ms s σC σC') :
    ∃ ef, compileStmt (fixedEnv env) st s = .ok (ef, st') ∧
      ∃ σIL', ExecIL ms eff σIL σIL' ∧ ExecIL ms ef σIL σIL' ∧ Inv c σC' σIL' :=
  stmt_sem_both_low hms (lb := false) (fun h => nomatch h) hc env hcomp hcarve hwf hwfe hinv hex

theorem stmts_sem_both {ss : List CStmt} {st st' : TSt} {effs : List ILEffect}
    (hcomp : compileStmts (codeEnv env) st ss = .ok (effs, st')) (hcarve : CarveSsSem env ss = true)
    (hwf : WFStmts c ss = true) (hwfe : (exprsOfList ss).all (WFES c) = true) {σC σIL σC' : MState}
    (hinv : Inv c σC σIL) (hex : ExecCs ms ss σC σC') :
    ∃ efs, compileStmts (fixedEnv env) st ss = .ok (efs, st') ∧
      ∃ σIL', ExecSeqIL ms effs σIL σIL' ∧ ExecSeqIL ms efs σIL σIL' ∧ Inv c σC' σIL' :=
  stmts_sem_both_low hms (lb := false) (fun h => nomatch h) hc env hcomp hcarve hwf hwfe hinv hex

/-- **T1 on the semantic carve-out, statements, for the lowering AS CODED**: if the C statement `s` runs from `σC` to
    `σC'` and the IL state `σIL` is related to `σC`, the effect `Cfg.asCode` emits runs from `σIL` to a state related
    to `σC'`. -/
theorem stmt_correct_asCode_sem {s : CStmt} {st st' : TSt} {eff : ILEffect}
    (hcomp : compileStmt (codeEnv env) st s = .ok (eff, st')) (hcarve : CarveSSem env s = true)
    (hwf : WFStmt c s = true) (hwfe : (exprsOf s).all (WFES c) = true) {σC σIL σC' : MState} (hinv : Inv c σC σIL)
    (hex : ExecC ms s σC σC') :
    ∃ σIL', ExecIL ms eff σIL σIL' ∧ Inv c σC' σIL' :=
  stmt_correct_asCode_sem_low hms (lb := false) (fun h => nomatch h) hc env hcomp hcarve hwf hwfe hinv hex

theorem stmts_correct_asCode_sem {ss : List CStmt} {st st' : TSt} {effs : List ILEffect}
    (hcomp : compileStmts (codeEnv env) st ss = .ok (effs, st')) (hcarve : CarveSsSem env ss = true)
    (hwf : WFStmts c ss = true) (hwfe : (exprsOfList ss).all (WFES c) = true) {σC σIL σC' : MState}
    (hinv : Inv c σC σIL) (hex : ExecCs ms ss σC σC') :
    ∃ σIL', ExecSeqIL ms effs σIL σIL' ∧ Inv c σC' σIL' :=
  stmts_correct_asCode_sem_low hms (lb := false) (fun h => nomatch h) hc env hcomp hcarve hwf hwfe hinv hex

end Main

/-! ## whole behaviours

  General forms (`…_low`: carve-out with the low-bits flag `lb`, hypothesis `lb = true → MsLow ms`) first, then the forms
  without flag. -/

/-- on the semantic carve-out the two lowerings register the same immediates: `progImms` (defined through the repaired
    lowering) is what the lowering as coded registers -/
theorem progImms_asCode_low {ms : MacroSem} (hms : MsOK ms) {lb : Bool} (hlb : lb = true → MsLow ms) {c : Ctx} (hc : c.ok = true) {prog : List CStmt}
    (hcarve : CarveProgSem prog lb = true) (hwf : WFStmts c prog = true) (hwfe : (exprsOfList prog).all (WFES c) = true)
    {es : List ILEffect} {st : TSt}
    (hcs : compileStmts { assigned := assignedOfList prog, cfg := Cfg.asCode } { imms := [], hyb := 0 } prog = .ok (es, st)) :
    progImms prog = st.imms.map (·.1) := by
  have h := stmts_state_sem hms hlb hc (typedState_SInv hc) { assigned := assignedOfList prog, cfg := Cfg.fixed } prog
    { imms := [], hyb := 0 } hcarve hwf hwfe
  obtain ⟨⟨es', st''⟩, hF, hrel⟩ := h.ok_left hcs
  simp only [TStsRel] at hrel
  subst hrel
  have hF' : compileStmts { assigned := assignedOfList prog, cfg := Cfg.fixed } { imms := [], hyb := 0 } prog = .ok (es', st) := hF
  simp only [progImms, hF']

/-- **T2-semantic for whole behaviours**: on the semantic carve-out the repaired lowering succeeds whenever the lowering
    as coded does, and from every initial state in which the C behaviour terminates the two effects (each with its
    `imm_assign` prologue) run to the SAME IL state, which is related to the final C state (`StRel`: everything
    observable; not the immediates, see `certifiedSem_correct`). -/
theorem prog_sem_both_low {ms : MacroSem} (hms : MsOK ms) {lb : Bool} (hlb : lb = true → MsLow ms) {c : Ctx} (hc : c.ok = true)
    {prog : List CStmt} {eff : ILEffect}
    (hcarve : CarveSsSem { assigned := assignedOfList prog, cfg := Cfg.fixed } prog lb = true)
    (hcomp : compileProg Cfg.asCode prog = .ok eff)
    (himms : ∀ l, l ∈ c.imms ↔ l ∈ progImms prog)
    (hwf : WFStmts c prog = true) (hwfe : (exprsOfList prog).all (WFES c) = true)
    {σ0 σC' : MState} (hloc : σ0.locals = []) (hsrcs : ∀ ov ∈ c.srcs, σ0.written ov = false)
    (hex : ExecCs ms prog σ0 σC') :
    ∃ ef, compileProg Cfg.fixed prog = .ok ef ∧
      ∃ σIL', ExecIL ms eff σ0 σIL' ∧ ExecIL ms ef σ0 σIL' ∧ StRel σC' σIL' := by
  unfold compileProg at hcomp
  obtain ⟨⟨es, st⟩, hcs, h⟩ := bind_ok hcomp
  simp only [Except.ok.injEq] at h
  subst h
  have hpi : progImms prog = st.imms.map (·.1) := progImms_asCode_low hms hlb hc hcarve hwf hwfe hcs
  obtain ⟨σ1, hpro, h1, h2, h3, h4, h5, h6, h7, hout, hin⟩ := prologue_exec ms st.imms σ0
  have hnone : ∀ n, lookupS n σ0.locals = none := by intro n; rw [hloc]; rfl
  have hinv : Inv c σ0 σ1 := by
    refine ⟨⟨h1.symm, h2.symm, h3.symm, h4.symm, h6.symm, h7.symm, ?_⟩, ⟨?_, ?_, ?_⟩, ?_, ?_, ?_⟩
    · intro n v hn; rw [hnone] at hn; cases hn
    · intro n t v hn hv
      have hni : n ∉ st.imms.map (·.1) := by
        rw [← hpi]; intro hm
        exact (Ctx.ok_types hc hn).2.2 ((himms n).2 hm)
      rw [hout n hni, hnone] at hv; cases hv
    · intro l hl
      exact ⟨_, hin l (hpi ▸ (himms l).1 hl)⟩
    · intro ov hov; rw [h3]; exact hsrcs ov hov
    · intro l hl
      exact hin l (hpi ▸ (himms l).1 hl)
    · intro n _; exact hnone n
    · intro l _; exact hnone l
  obtain ⟨efs, hefs, σIL', hx, hxF, hinv'⟩ := stmts_sem_both_low hms hlb hc { assigned := assignedOfList prog, cfg := Cfg.fixed }
    hcs hcarve hwf hwfe hinv hex
  have hefs' : compileStmts { assigned := assignedOfList prog, cfg := Cfg.fixed } { imms := [], hyb := 0 } prog
      = .ok (efs, st) := hefs
  refine ⟨mkSeq (st.imms.map immSetEffect ++ efs), ?_, σIL', mkSeq_exec.2 (ExecSeqIL_append hpro hx),
    mkSeq_exec.2 (ExecSeqIL_append hpro hxF), hinv'.rel⟩
  unfold compileProg
  simp only [hefs', bind, Except.bind]

/-- **End to end on the semantic carve-out** (`prog_correct_asCode_closed` of Props/C05Compose.lean with `CarveSs`
    replaced by `CarveSsSem`): the lowering AS CODED preserves the C semantics of a whole behaviour (`StRel` of the final
    states: everything observable; not the immediates, see `certifiedSem_correct`). -/
theorem prog_correct_asCode_sem_closed_low {ms : MacroSem} (hms : MsOK ms) {lb : Bool} (hlb : lb = true → MsLow ms) {c : Ctx} (hc : c.ok = true)
    {prog : List CStmt} {eff : ILEffect}
    (hcarve : CarveSsSem { assigned := assignedOfList prog, cfg := Cfg.fixed } prog lb = true)
    (hcomp : compileProg Cfg.asCode prog = .ok eff)
    (himms : ∀ l, l ∈ c.imms ↔ l ∈ progImms prog)
    (hwf : WFStmts c prog = true) (hwfe : (exprsOfList prog).all (WFES c) = true)
    {σ0 σC' : MState} (hloc : σ0.locals = []) (hsrcs : ∀ ov ∈ c.srcs, σ0.written ov = false)
    (hex : ExecCs ms prog σ0 σC') :
    ∃ σIL', ExecIL ms eff σ0 σIL' ∧ StRel σC' σIL' := by
  obtain ⟨_, _, σIL', hx, _, hrel⟩ := prog_sem_both_low hms hlb hc hcarve hcomp himms hwf hwfe hloc hsrcs hex
  exact ⟨σIL', hx, hrel⟩

/-- the same for the hybrid lowering model `compileProgH` (the model the harness compares the real compiler with), on
    hybrid-free programs satisfying the side condition `HSameProg Cfg.asCode` of `Props/CompileHEqv.lean`.
    (`HSameProg_of_carve` derives that side condition from the SYNTACTIC carve-out and `NoDeadVarlProg`; its proof uses
    the carve-out only to exclude a folded comparison as operand of a foldable operator.  Here the side condition is a
    hypothesis, checked by evaluation in the certificate.)  `StRel` does not relate the immediates, see
    `certifiedSem_correct`. -/
theorem progH_correct_asCode_sem_closed_low {ms : MacroSem} (hms : MsOK ms) {lb : Bool} (hlb : lb = true → MsLow ms) {c : Ctx} (hc : c.ok = true)
    {prog : List CStmt} {eff : ILEffect}
    (hcarve : CarveSsSem { assigned := assignedOfList prog, cfg := Cfg.fixed } prog lb = true)
    (hfree : HybFreeSs prog = true) (hsame : HSameProg Cfg.asCode prog = true)
    (hcomp : compileProgH Cfg.asCode prog = .ok eff)
    (himms : ∀ l, l ∈ c.imms ↔ l ∈ progImms prog)
    (hwf : WFStmts c prog = true) (hwfe : (exprsOfList prog).all (WFES c) = true)
    {σ0 σC' : MState} (hloc : σ0.locals = []) (hsrcs : ∀ ov ∈ c.srcs, σ0.written ov = false)
    (hex : ExecCs ms prog σ0 σC') :
    ∃ σIL', ExecIL ms eff σ0 σIL' ∧ StRel σC' σIL' :=
  prog_correct_asCode_sem_closed_low hms hlb hc hcarve
    (by rw [← compileProgH_eq_compileProg_asCode prog hfree hsame]; exact hcomp) himms hwf hwfe hloc hsrcs hex

/-! ### … without the low-bits flag -/

/-- on the semantic carve-out the two lowerings register the same immediates: `progImms` (defined through the repaired
    lowering) is what the lowering as coded registers -/
theorem progImms_asCode {ms : MacroSem} (hms : MsOK ms) {c : Ctx} (hc : c.ok = true) {prog : List CStmt}
    (hcarve : CarveProgSem prog = true) (hwf : WFStmts c prog = true) (hwfe : (exprsOfList prog).all (WFES c) = true)
    {es : List ILEffect} {st : TSt}
    (hcs : compileStmts { assigned := assignedOfList prog, cfg := Cfg.asCode } { imms := [], hyb := 0 } prog = .ok (es, st)) :
    progImms prog = st.imms.map (·.1) :=
  progImms_asCode_low hms (lb := false) (fun h => nomatch h) hc hcarve hwf hwfe hcs

/-- **T2-semantic for whole behaviours**: on the semantic carve-out the repaired lowering succeeds whenever the lowering
    as coded does, and from every initial state in which the C behaviour terminates the two effects (each with its
    `imm_assign` prologue) run to the SAME IL state, which is related to the final C state (`StRel`: everything
    observable; not the immediates, see `certifiedSem_correct`). -/
theorem prog_sem_both {ms : MacroSem} (hms : MsOK ms) {c : Ctx} (hc : c.ok = true)
    {prog : List CStmt} {eff : ILEffect}
    (hcarve : CarveSsSem { assigned := assignedOfList prog, cfg := Cfg.fixed } prog = true)
    (hcomp : compileProg Cfg.asCode prog = .ok eff)
    (himms : ∀ l, l ∈ c.imms ↔ l ∈ progImms prog)
    (hwf : WFStmts c prog = true) (hwfe : (exprsOfList prog).all (WFES c) = true)
    {σ0 σC' : MState} (hloc : σ0.locals = []) (hsrcs : ∀ ov ∈ c.srcs, σ0.written ov = false)
    (hex : ExecCs ms prog σ0 σC') :
    ∃ ef, compileProg Cfg.fixed prog = .ok ef ∧
      ∃ σIL', ExecIL ms eff σ0 σIL' ∧ ExecIL ms ef σ0 σIL' ∧ StRel σC' σIL' :=
  prog_sem_both_low hms (lb := false) (fun h => nomatch h) hc hcarve hcomp himms hwf hwfe hloc hsrcs hex

/-- **End to end on the semantic carve-out** (`prog_correct_asCode_closed` of Props/C05Compose.lean with `CarveSs`
    replaced by `CarveSsSem`): the lowering AS CODED preserves the C semantics of a whole behaviour (`StRel` of the final
    states: everything observable; not the immediates, see `certifiedSem_correct`). -/
theorem prog_correct_asCode_sem_closed {ms : MacroSem} (hms : MsOK ms) {c : Ctx} (hc : c.ok = true)
    {prog : List CStmt} {eff : ILEffect}
    (hcarve : CarveSsSem { assigned := assignedOfList prog, cfg := Cfg.fixed } prog = true)
    (hcomp : compileProg Cfg.asCode prog = .ok eff)
    (himms : ∀ l, l ∈ c.imms ↔ l ∈ progImms prog)
    (hwf : WFStmts c prog = true) (hwfe : (exprsOfList prog).all (WFES c) = true)
    {σ0 σC' : MState} (hloc : σ0.locals = []) (hsrcs : ∀ ov ∈ c.srcs, σ0.written ov = false)
    (hex : ExecCs ms prog σ0 σC') :
    ∃ σIL', ExecIL ms eff σ0 σIL' ∧ StRel σC' σIL' :=
  prog_correct_asCode_sem_closed_low hms (lb := false) (fun h => nomatch h) hc hcarve hcomp himms hwf hwfe hloc hsrcs hex

/-- the same for the hybrid lowering model `compileProgH` (the model the harness compares the real compiler with), on
    hybrid-free programs satisfying the side condition `HSameProg Cfg.asCode` of `Props/CompileHEqv.lean`.
    (`HSameProg_of_carve` derives that side condition from the SYNTACTIC carve-out and `NoDeadVarlProg`; its proof uses
    the carve-out only to exclude a folded comparison as operand of a foldable operator.  Here the side condition is a
    hypothesis, checked by evaluation in the certificate.)  `StRel` does not relate the immediates, see
    `certifiedSem_correct`. -/
theorem progH_correct_asCode_sem_closed {ms : MacroSem} (hms : MsOK ms) {c : Ctx} (hc : c.ok = true)
    {prog : List CStmt} {eff : ILEffect}
    (hcarve : CarveSsSem { assigned := assignedOfList prog, cfg := Cfg.fixed } prog = true)
    (hfree : HybFreeSs prog = true) (hsame : HSameProg Cfg.asCode prog = true)
    (hcomp : compileProgH Cfg.asCode prog = .ok eff)
    (himms : ∀ l, l ∈ c.imms ↔ l ∈ progImms prog)
    (hwf : WFStmts c prog = true) (hwfe : (exprsOfList prog).all (WFES c) = true)
    {σ0 σC' : MState} (hloc : σ0.locals = []) (hsrcs : ∀ ov ∈ c.srcs, σ0.written ov = false)
    (hex : ExecCs ms prog σ0 σC') :
    ∃ σIL', ExecIL ms eff σ0 σIL' ∧ StRel σC' σIL' :=
  progH_correct_asCode_sem_closed_low hms (lb := false) (fun h => nomatch h) hc hcarve hfree hsame hcomp himms hwf hwfe hloc hsrcs hex

/-- **End to end, as coded, all states, certificate with the low-bits macro arguments** (`certifiedSemX`): the
    statement of `certifiedSem_correct` under the ADDITIONAL assumption `MsLow ms` on the macro interpretation —
    `extract64(v, start, len)` / `sextract64(v, start, len)` do not depend on the bits of `v` from `start + len` upwards
    (true of QEMU's functions).  It covers QEMU's `fSXTN(N, M, VAL)` = `((N) != 0) ? sextract64(VAL, 0, N) : 0LL` applied
    to a 32-bit or 16-bit signed `VAL`: the `uint64_t` parameter makes the code zero-extend `VAL` where C sign-extends
    it, a difference above bit `N` which the macro does not read.  Final states: as in `certifiedSem_correct`. -/
theorem certifiedSemX_correct {ms : MacroSem} (hms : MsOK ms) (hlow : MsLow ms) {prog : List CStmt} {eff : ILEffect}
    (hcert : certifiedSemX prog = true) (hcomp : compileProgH Cfg.asCode prog = .ok eff)
    {σ0 σC' : MState} (hloc : σ0.locals = []) (hsrcs : ∀ ov ∈ (ctxOf prog).srcs, σ0.written ov = false)
    (hex : ExecCs ms prog σ0 σC') :
    ∃ σIL', ExecIL ms eff σ0 σIL' ∧ StRel σC' σIL' := by
  simp only [certifiedSemX, CarveProgSem, Bool.and_eq_true] at hcert
  obtain ⟨⟨⟨⟨⟨hok, hwf⟩, hwfe⟩, hcarve⟩, hfree⟩, hsame⟩ := hcert
  exact progH_correct_asCode_sem_closed_low hms (lb := true) (fun _ => hlow) hok hcarve hfree hsame hcomp (fun _ => Iff.rfl) hwf hwfe
    hloc hsrcs hex

/-- `certifiedSemX_correct` with equal immediates of the final states, for a behaviour that assigns to no immediate -/
theorem certifiedSemX_correct_imm {ms : MacroSem} (hms : MsOK ms) (hlow : MsLow ms) {prog : List CStmt} {eff : ILEffect}
    (hcert : certifiedSemX prog = true) (hnoimm : noImmTargets prog = true) (hcomp : compileProgH Cfg.asCode prog = .ok eff)
    {σ0 σC' : MState} (hloc : σ0.locals = []) (hsrcs : ∀ ov ∈ (ctxOf prog).srcs, σ0.written ov = false)
    (hex : ExecCs ms prog σ0 σC') :
    ∃ σIL', ExecIL ms eff σ0 σIL' ∧ StRel σC' σIL' ∧ σC'.imm = σIL'.imm := by
  obtain ⟨σIL', hx, hrel⟩ := certifiedSemX_correct hms hlow hcert hcomp hloc hsrcs hex
  exact ⟨σIL', hx, hrel, imm_eq_of_noImmTargets hnoimm hex hx⟩

/-- for behaviours certified with the low-bits flag the two lowering models coincide as well -/
theorem certifiedSemX_models_agree {prog : List CStmt} (hcert : certifiedSemX prog = true) :
    compileProgH Cfg.asCode prog = compileProg Cfg.asCode prog := by
  simp only [certifiedSemX, Bool.and_eq_true] at hcert
  obtain ⟨⟨_, hfree⟩, hsame⟩ := hcert
  exact compileProgH_eq_compileProg_asCode prog hfree hsame

/-- **End to end, as coded, all states, semantic certificate** (`C01.certified_correct` with `certified` replaced by
    `certifiedSem`): if the semantic certificate of a behaviour holds and the lowering as coded returns an effect, then
    from every initial machine state (no locals yet, source operands unwritten) in which the C behaviour terminates,
    the effect executes to a state with the same registers, `.new` bank, memory, store log, jump flag/target and
    slot-cancel flag.
    The final-state relation `StRel` does NOT relate the immediates (`MState.imm`): they are an input of the instruction,
    not an observable output, and a behaviour may assign to them (`riV = riV & ~3`: the C side then holds the new value
    in `imm`, the IL side in the local of the letter).  For behaviours without such an assignment equal immediates
    follow separately (`C05.imm_eq_of_noImmTargets`). -/
theorem certifiedSem_correct {ms : MacroSem} (hms : MsOK ms) {prog : List CStmt} {eff : ILEffect}
    (hcert : certifiedSem prog = true) (hcomp : compileProgH Cfg.asCode prog = .ok eff)
    {σ0 σC' : MState} (hloc : σ0.locals = []) (hsrcs : ∀ ov ∈ (ctxOf prog).srcs, σ0.written ov = false)
    (hex : ExecCs ms prog σ0 σC') :
    ∃ σIL', ExecIL ms eff σ0 σIL' ∧ StRel σC' σIL' := by
  simp only [certifiedSem, CarveProgSem, Bool.and_eq_true] at hcert
  obtain ⟨⟨⟨⟨⟨hok, hwf⟩, hwfe⟩, hcarve⟩, hfree⟩, hsame⟩ := hcert
  exact progH_correct_asCode_sem_closed hms hok hcarve hfree hsame hcomp (fun _ => Iff.rfl) hwf hwfe hloc hsrcs hex

/-- `certifiedSem_correct` with the conclusion it had before immediates became assignable: for a behaviour that assigns
    to no immediate the two final states also have the same immediates. -/
theorem certifiedSem_correct_imm {ms : MacroSem} (hms : MsOK ms) {prog : List CStmt} {eff : ILEffect}
    (hcert : certifiedSem prog = true) (hnoimm : noImmTargets prog = true) (hcomp : compileProgH Cfg.asCode prog = .ok eff)
    {σ0 σC' : MState} (hloc : σ0.locals = []) (hsrcs : ∀ ov ∈ (ctxOf prog).srcs, σ0.written ov = false)
    (hex : ExecCs ms prog σ0 σC') :
    ∃ σIL', ExecIL ms eff σ0 σIL' ∧ StRel σC' σIL' ∧ σC'.imm = σIL'.imm := by
  obtain ⟨σIL', hx, hrel⟩ := certifiedSem_correct hms hcert hcomp hloc hsrcs hex
  exact ⟨σIL', hx, hrel, imm_eq_of_noImmTargets hnoimm hex hx⟩

/-- for semantically certified behaviours the two lowering models coincide -/
theorem certifiedSem_models_agree {prog : List CStmt} (hcert : certifiedSem prog = true) :
    compileProgH Cfg.asCode prog = compileProg Cfg.asCode prog := by
  simp only [certifiedSem, Bool.and_eq_true] at hcert
  obtain ⟨⟨_, hfree⟩, hsame⟩ := hcert
  exact compileProgH_eq_compileProg_asCode prog hfree hsame

/-- **End to end, as coded, all states, modulo bare immediate statements** (`riV; riV = riV & ~3; …`, the shape of
    every direct jump and call).  `certifiedSemB prog` is the semantic certificate of `dropBare prog`, the behaviour
    without the bare reads `riV;` that stand directly in front of an assignment to the same immediate.  The lowering
    model emits the SAME effect for `prog` and `dropBare prog` (`Bare.compileProgH_dropBare`) and the C semantics of
    the bare statement is "evaluate and discard" (`Bare.ExecCs_dropBare`), so the statement is about `prog` itself:
    its effect as coded and its C semantics.  Final states: as in `certifiedSem_correct` (registers, `.new` bank,
    memory, store log, jump flag/target, slot-cancel; NOT the immediates, which such a behaviour assigns). -/
theorem certifiedSemB_correct {ms : MacroSem} (hms : MsOK ms) {prog : List CStmt} {eff : ILEffect}
    (hcert : certifiedSemB prog = true) (hcomp : compileProgH Cfg.asCode prog = .ok eff)
    {σ0 σC' : MState} (hloc : σ0.locals = []) (hsrcs : ∀ ov ∈ (ctxOf (dropBare prog)).srcs, σ0.written ov = false)
    (hex : ExecCs ms prog σ0 σC') :
    ∃ σIL', ExecIL ms eff σ0 σIL' ∧ StRel σC' σIL' := by
  have hfree : HybFreeSs (dropBare prog) = true := by
    have h := hcert
    simp only [certifiedSemB, certifiedSem, Bool.and_eq_true] at h
    exact h.1.2
  rw [Bare.compileProgH_dropBare _ _ hfree] at hcomp
  exact certifiedSem_correct hms hcert hcomp hloc hsrcs (Bare.ExecCs_dropBare hex)

/-- `certifiedSemB_correct` for the certificate with the low-bits macro arguments (assumption `MsLow ms`) -/
theorem certifiedSemXB_correct {ms : MacroSem} (hms : MsOK ms) (hlow : MsLow ms) {prog : List CStmt} {eff : ILEffect}
    (hcert : certifiedSemX (dropBare prog) = true) (hcomp : compileProgH Cfg.asCode prog = .ok eff)
    {σ0 σC' : MState} (hloc : σ0.locals = []) (hsrcs : ∀ ov ∈ (ctxOf (dropBare prog)).srcs, σ0.written ov = false)
    (hex : ExecCs ms prog σ0 σC') :
    ∃ σIL', ExecIL ms eff σ0 σIL' ∧ StRel σC' σIL' := by
  have hfree : HybFreeSs (dropBare prog) = true := by
    have h := hcert
    simp only [certifiedSemX, Bool.and_eq_true] at h
    exact h.1.2
  rw [Bare.compileProgH_dropBare _ _ hfree] at hcomp
  exact certifiedSemX_correct hms hlow hcert hcomp hloc hsrcs (Bare.ExecCs_dropBare hex)

/-! ### the assumption `MsLow` holds of the interpretation the driver executes with -/

/-- bits `s … s+l-1` of `v` depend on the bits of `v` below `s + l` only -/
theorem low_raw_eq {v v' : BitVec 64} {s l : Nat} (h : ∀ i, i < s + l → v.getLsbD i = v'.getLsbD i) :
    (v.toNat >>> s) % 2 ^ l = (v'.toNat >>> s) % 2 ^ l := by
  apply Nat.eq_of_testBit_eq
  intro i
  simp only [Nat.testBit_mod_two_pow, Nat.testBit_shiftRight]
  by_cases hi : i < l
  · have := h (s + i) (by omega)
    simp only [BitVec.getLsbD] at this
    simp [hi, this]
  · simp [hi]

theorem and_mask (a n : Nat) : a &&& mask n = a % 2 ^ n := by
  unfold mask; exact Nat.and_two_pow_sub_one_eq_mod a n

/-- `macroSem` (Model/DriverSem.lean), the interpretation of `extract64`/`sextract64` the DRIVER uses when it executes
    the C text and the real effect on the sampled states, satisfies the assumption of `certifiedSemX_correct` -/
theorem msLow_macroSem : MsLow macroSem := by
  intro name hname v v' ws wl s l h
  have hraw : (v.toNat >>> (s.toNat % 64)) % 2 ^ (l.toNat % 65) = (v'.toNat >>> (s.toNat % 64)) % 2 ^ (l.toNat % 65) :=
    low_raw_eq (fun i hi => h i (by
      have h1 := Nat.mod_le s.toNat 64
      have h2 := Nat.mod_le l.toNat 65
      omega))
  simp only [lowMacros, List.mem_cons, List.not_mem_nil, or_false] at hname
  rcases hname with rfl | rfl
  · have hk : (macroRzName "extract64").toLower = "extract64" := by decide +kernel
    simp only [macroSem, hk, and_mask, hraw]
  · have hk : (macroRzName "sextract64").toLower = "sextract64" := by decide +kernel
    simp only [macroSem, hk, and_mask, hraw]

/-- **End to end, as coded, all states, behaviours with bare PURE value statements** (`siV; EA = RsV + siV; …`, `RsV;`,
    `uiV;` — QEMU's shortcode starts most behaviours with such "touch the operand" statements; they may stand anywhere:
    top level, `if`/`else` arms, loop bodies).  Route: the simulation itself accepts the statement —
    `compileStmt (.exprstmt e)` compiles the value, registers its immediates (`addImms`, the order of first occurrence,
    exactly what `compileStmtH` does through `compileExprH`: `compileStmtH_eq`) and emits nothing (`compileStmts` does
    not list it, as `compileStmtsH` does not: `compileStmtsH_eq` is still an equality of effect LISTS); on the C side
    `execC (.exprstmt e)` evaluates `e` and discards the value.  If `e` is undefined in C for the initial state (an
    out-of-range shift, a division by zero) the C behaviour is undefined there and the hypothesis `ExecCs ms prog σ0 σC'`
    fails: nothing is assumed away.  Same hypotheses and conclusion as `certifiedSem_correct` (of which this is the
    restatement under the certificate's second name: `certifiedSemP_eq`). -/
theorem certifiedSemP_correct {ms : MacroSem} (hms : MsOK ms) {prog : List CStmt} {eff : ILEffect}
    (hcert : certifiedSemP prog = true) (hcomp : compileProgH Cfg.asCode prog = .ok eff)
    {σ0 σC' : MState} (hloc : σ0.locals = []) (hsrcs : ∀ ov ∈ (ctxOf prog).srcs, σ0.written ov = false)
    (hex : ExecCs ms prog σ0 σC') :
    ∃ σIL', ExecIL ms eff σ0 σIL' ∧ StRel σC' σIL' :=
  certifiedSem_correct hms (by rw [← certifiedSemP_eq]; exact hcert) hcomp hloc hsrcs hex

/-- `certifiedSemP_correct` with equal immediates of the final states, for a behaviour that assigns to no immediate -/
theorem certifiedSemP_correct_imm {ms : MacroSem} (hms : MsOK ms) {prog : List CStmt} {eff : ILEffect}
    (hcert : certifiedSemP prog = true) (hnoimm : noImmTargets prog = true) (hcomp : compileProgH Cfg.asCode prog = .ok eff)
    {σ0 σC' : MState} (hloc : σ0.locals = []) (hsrcs : ∀ ov ∈ (ctxOf prog).srcs, σ0.written ov = false)
    (hex : ExecCs ms prog σ0 σC') :
    ∃ σIL', ExecIL ms eff σ0 σIL' ∧ StRel σC' σIL' ∧ σC'.imm = σIL'.imm := by
  obtain ⟨σIL', hx, hrel⟩ := certifiedSemP_correct hms hcert hcomp hloc hsrcs hex
  exact ⟨σIL', hx, hrel, imm_eq_of_noImmTargets hnoimm hex hx⟩

/-- the C side does evaluate a bare value: where the value is undefined the behaviour is (no final state) -/
theorem bare_undefined_not_ignored {ms : MacroSem} {e : CExpr} {rest : List CStmt} {σ σ' : MState} {m : Stuck}
    (hundef : evalC ms σ e = .error m) : ¬ ExecCs ms (.exprstmt e :: rest) σ σ' := by
  intro h
  obtain ⟨f, hf⟩ := ExecCs_iff.1 h
  cases f with
  | zero => simp [execCs] at hf
  | succ f =>
    rw [execCs] at hf
    obtain ⟨σ1, h1, _⟩ := bind_ok hf
    cases f with
    | zero => simp [execC] at h1
    | succ f =>
      simp only [execC] at h1
      obtain ⟨v, hv, _⟩ := bind_ok h1
      rw [hundef] at hv
      cases hv

end Sem

/-! ## non-vacuity and witnesses -/
namespace Sem.Witness
open C05

/-- `EA = RsV + siV; mem_store_u8(EA, RtV);` (S2_storerb_io shape): excluded by the syntactic certificate, … -/
example : certified C01.store_io = false := by decide +kernel
/-- … certified by the semantic one -/
theorem store_io_certifiedSem : certifiedSem C01.store_io = true := by decide +kernel

/-- the two lowerings of `store_io` really differ (so the syntactic T2 cannot apply) -/
theorem store_io_differs : compileProg Cfg.asCode C01.store_io ≠ compileProg Cfg.fixed C01.store_io := by
  intro h
  have : sizeOfRes (compileProg Cfg.asCode C01.store_io) = sizeOfRes (compileProg Cfg.fixed C01.store_io) := by rw [h]
  revert this
  decide +kernel

/-- a WIDENING signed → unsigned conversion is still excluded: `uint64_t x = RsV;` -/
def widen : List CStmt := [.decl ⟨false, 64⟩ "x" (some (.reg "RsV" .src ⟨true, 32⟩))]
theorem widen_not_carved : CarveProgSem widen = false := by decide +kernel
theorem widen_not_certified : certifiedSem widen = false := by decide +kernel
/-- the explicit cast `(uint64_t)RsV` (class 4 of C02's T3) is outside `CarveESem` as well -/
theorem widen_cast_not_carved : CarveESem [] T3.eCast = false := by decide +kernel
/-- … while the narrowing / same-width ones are inside: `(uint8_t)RsV`, `(uint32_t)RsV`, `RsV + uiV` -/
example : CarveESem [] (.cast ⟨false, 8⟩ T3.rs) = true ∧ CarveE [] (.cast ⟨false, 8⟩ T3.rs) = false := by decide +kernel
example : CarveESem [] (.cast ⟨false, 32⟩ T3.rs) = true ∧ CarveE [] (.cast ⟨false, 32⟩ T3.rs) = false := by decide +kernel
example : CarveESem [] (.bin "+" T3.rs (.imm "u" false)) = true ∧ CarveE [] (.bin "+" T3.rs (.imm "u" false)) = false := by
  decide +kernel
example : CastSafeSem ⟨false, 8, 1⟩ { il := .varl "a", ty := ⟨true, 32, 1⟩, kind := .plain } = true := by decide
example : CastSafeSem ⟨false, 64, 1⟩ { il := .varl "a", ty := ⟨true, 32, 1⟩, kind := .plain } = false := by decide

/-- all hypotheses of `certifiedSem_correct` hold together for `store_io` (initial state: no locals, nothing written),
    and its conclusion follows -/
example : ∃ eff σC' σIL', compileProgH Cfg.asCode C01.store_io = .ok eff ∧ ExecCs noMacros C01.store_io default σC' ∧
    ExecIL noMacros eff default σIL' ∧ StRel σC' σIL' := by
  obtain ⟨eff, hcomp⟩ := isOk_elim (x := compileProgH Cfg.asCode C01.store_io) (by decide +kernel)
  obtain ⟨σC', hC⟩ := isOk_elim (x := execCs noMacros 5 C01.store_io default) (by decide +kernel)
  have hex : ExecCs noMacros C01.store_io default σC' := ExecCs_iff.2 ⟨5, hC⟩
  obtain ⟨σIL', hx, hrel⟩ := Sem.certifiedSem_correct T3.msOK_trivial store_io_certifiedSem hcomp rfl (fun _ _ => rfl) hex
  exact ⟨eff, σC', σIL', hcomp, hex, hx, hrel⟩

/-- all hypotheses of `prog_sem_both` hold together for `store_io`: the two (different) effects reach one IL state -/
example : ∃ eff ef σC' σIL', compileProg Cfg.asCode C01.store_io = .ok eff ∧ compileProg Cfg.fixed C01.store_io = .ok ef ∧
    eff ≠ ef ∧ ExecIL noMacros eff default σIL' ∧ ExecIL noMacros ef default σIL' ∧ StRel σC' σIL' := by
  obtain ⟨eff, hcomp⟩ := isOk_elim (x := compileProg Cfg.asCode C01.store_io) (by decide +kernel)
  obtain ⟨σC', hC⟩ := isOk_elim (x := execCs noMacros 5 C01.store_io default) (by decide +kernel)
  have hex : ExecCs noMacros C01.store_io default σC' := ExecCs_iff.2 ⟨5, hC⟩
  have hcert := store_io_certifiedSem
  simp only [certifiedSem, CarveProgSem, Bool.and_eq_true] at hcert
  obtain ⟨⟨⟨⟨⟨hok, hwf⟩, hwfe⟩, hcarve⟩, _⟩, _⟩ := hcert
  obtain ⟨ef, hF, σIL', hx, hxF, hrel⟩ := Sem.prog_sem_both T3.msOK_trivial hok hcarve hcomp (fun _ => Iff.rfl) hwf hwfe rfl
    (fun _ _ => rfl) hex
  refine ⟨eff, ef, σC', σIL', hcomp, hF, ?_, hx, hxF, hrel⟩
  intro h
  apply store_io_differs
  rw [hcomp, hF, h]

/-! ### an assignable immediate: the behaviour of `J2_jump` -/

/-- `{ riV; riV = (riV & (~(4 - 1))); JUMP((HEX_REG_ALIAS_PC + riV)); ; }` as the elaborator delivers it -/
def j2_jump : List CStmt :=
  [.exprstmt (.imm "r" true),
   .assign (.imm "r" true) "=" (.bin "&" (.imm "r" true) (.un "~" (.bin "-" (.lit 4 false "") (.lit 1 false "")))),
   .jump (.bin "+" (.reg "HEX_REG_ALIAS_PC" .pc ⟨false, 32⟩) (.imm "r" true))]

/-- without the bare read it is an assignment to the immediate and the jump -/
example : dropBare j2_jump = j2_jump.tail := by rfl

/-- the certificate holds: the assignment to the immediate `riV` is inside `WFStmts` (`lhsOK`) -/
theorem j2_jump_certified : certifiedSemB j2_jump = true := by decide +kernel
example : certifiedSem j2_jump.tail = true := by decide +kernel
example : WFStmts (ctxOf j2_jump.tail) j2_jump.tail = true ∧ (ctxOf j2_jump.tail).imms = ["r"] := by decide +kernel

def finalImm (l : String) : Except Stuck MState → Option Nat
  | .ok σ => some (σ.imm l)
  | .error _ => none

/-- an initial state with a non-aligned immediate: `riV = 7`, packet address `0x100`, no locals -/
def j2_state : MState := { (default : MState) with imm := fun _ => 7, pktAddr := 0x100 }

/-- all hypotheses of `certifiedSemB_correct` hold together for `J2_jump` from `j2_state`; its conclusion follows, and
    the jump target the EMITTED effect computes is `0x100 + (7 & ~3) = 0x104` -/
example : ∃ eff σC' σIL', compileProgH Cfg.asCode j2_jump = .ok eff ∧ ExecCs noMacros j2_jump j2_state σC' ∧
    ExecIL noMacros eff j2_state σIL' ∧ StRel σC' σIL' ∧ σC'.imm "r" = 4 ∧
    lookupS "jump_target" σIL'.locals = some (.bv 32 0x104) := by
  obtain ⟨eff, hcomp⟩ := isOk_elim (x := compileProgH Cfg.asCode j2_jump) (by decide +kernel)
  obtain ⟨σC', hC⟩ := isOk_elim (x := execCs noMacros 5 j2_jump j2_state) (by decide +kernel)
  have hex : ExecCs noMacros j2_jump j2_state σC' := ExecCs_iff.2 ⟨5, hC⟩
  obtain ⟨σIL', hx, hrel⟩ := Sem.certifiedSemB_correct T3.msOK_trivial j2_jump_certified hcomp rfl (fun _ _ => rfl) hex
  have himm : finalImm "r" (execCs noMacros 5 j2_jump j2_state) = some 4 := by decide +kernel
  have htgt : finalLocal "jump_target" (execCs noMacros 5 j2_jump j2_state) = some (.bv 32 0x104) := by decide +kernel
  rw [hC] at himm htgt
  exact ⟨eff, σC', σIL', hcomp, hex, hx, hrel, Option.some.inj himm, hrel.locals _ _ htgt⟩

/-! ### bare pure value statements: the behaviour of `L2_loadri_io` -/

/-- `{ siV; EA = (RsV + siV); RdV = ((int32_t)mem_load_s32(EA)); }` (the shape of the `L2_load*_io` family; the shipped
    `L2_loadri_io` itself loads unsigned: `l2_loadri_io_shipped` below) -/
def l2_loadri_io : List CStmt :=
  [.exprstmt (.imm "s" true),
   .assign (.var "EA" utT) "=" (.bin "+" (.reg "RsV" .src ⟨true, 32⟩) (.imm "s" true)),
   .assign (.reg "RdV" .dst ⟨true, 32⟩) "=" (.load true 32 ⟨true, 32⟩)]

/-- the certificate holds for it (kernel-checked), it does contain a bare statement, and `dropBare` does not touch it
    (the next statement is no assignment to the immediate) -/
theorem l2_loadri_io_certified : certifiedSemP l2_loadri_io = true := by decide +kernel
example : hasBare l2_loadri_io = true ∧ dropBare l2_loadri_io = l2_loadri_io := ⟨by decide +kernel, by rfl⟩
/-- the syntactic certificate does not hold (`EA = RsV + siV` converts a signed value to the unsigned `EA`) -/
example : certified l2_loadri_io = false := by decide +kernel
/-- the bare statement is what registers the immediate (first in the prologue), and it yields no effect of its own -/
example : (ctxOf l2_loadri_io).imms = ["s"] ∧ (exprsOfList l2_loadri_io).length = 3 := by decide +kernel

/-- `{ siV; EA = (RsV + siV); ; RdV = ((size4u_t)mem_load_u32(EA)); }`: the shipped `L2_loadri_io` exactly as
    `harness/elab.py` delivers it today (with the empty statement of the macro expansion) -/
def l2_loadri_io_shipped : List CStmt :=
  [.exprstmt (.imm "s" true),
   .assign (.var "EA" utT) "=" (.bin "+" (.reg "RsV" .src ⟨true, 32⟩) (.imm "s" true)),
   .skip ";",
   .assign (.reg "RdV" .dst ⟨true, 32⟩) "=" (.load false 32 ⟨false, 32⟩)]
theorem l2_loadri_io_shipped_certified : certifiedSemP l2_loadri_io_shipped = true := by decide +kernel

/-- `siV = 8`, every register `0x1000`, the byte `0x2a` at `0x1008` -/
def l2_state : MState :=
  { (default : MState) with imm := fun _ => 8, cur := fun _ => 0x1000, mem := fun a => if a == 0x1008 then 0x2a else 0 }

def finalNew (ov : String) : Except Stuck MState → Option Nat
  | .ok σ => if σ.written ov then some (σ.new ov) else none
  | .error _ => none

/-- all hypotheses of `certifiedSemP_correct` hold together for `L2_loadri_io` from `l2_state`; its conclusion follows,
    and the EMITTED effect writes the loaded word `0x2a` to `Rd` -/
example : ∃ eff σC' σIL', compileProgH Cfg.asCode l2_loadri_io = .ok eff ∧ ExecCs noMacros l2_loadri_io l2_state σC' ∧
    ExecIL noMacros eff l2_state σIL' ∧ StRel σC' σIL' ∧ σIL'.written "Rd_op" = true ∧ σIL'.new "Rd_op" = 0x2a := by
  obtain ⟨eff, hcomp⟩ := isOk_elim (x := compileProgH Cfg.asCode l2_loadri_io) (by decide +kernel)
  obtain ⟨σC', hC⟩ := isOk_elim (x := execCs noMacros 5 l2_loadri_io l2_state) (by decide +kernel)
  have hex : ExecCs noMacros l2_loadri_io l2_state σC' := ExecCs_iff.2 ⟨5, hC⟩
  obtain ⟨σIL', hx, hrel⟩ := Sem.certifiedSemP_correct T3.msOK_trivial l2_loadri_io_certified hcomp rfl (fun _ _ => rfl) hex
  have hnew : finalNew "Rd_op" (execCs noMacros 5 l2_loadri_io l2_state) = some 0x2a := by decide +kernel
  rw [hC] at hnew
  simp only [finalNew] at hnew
  split at hnew
  · rename_i hw
    refine ⟨eff, σC', σIL', hcomp, hex, hx, hrel, ?_, ?_⟩
    · rw [← hrel.written]; exact hw
    · rw [← hrel.new]; exact Option.some.inj hnew
  · cases hnew

/-- a bare statement inside an `if` arm and inside a loop body is accepted as well:
    `{ int i; for (i = 0; i < 2; i++) { uiV; } if (RsV) { siV; RdV = siV; } else { RsV; } }` -/
def bare_nested : List CStmt :=
  [.decl ⟨true, 32⟩ "i" none,
   .for_ "i" (.cmp "<" (.var "i" utT) (.lit 2 false "")) 0 [.exprstmt (.imm "u" false)],
   .ite (.reg "RsV" .src ⟨true, 32⟩)
     [.exprstmt (.imm "s" true), .assign (.reg "RdV" .dst ⟨true, 32⟩) "=" (.imm "s" true)]
     (some [.exprstmt (.reg "RsV" .src ⟨true, 32⟩)])]
example : certifiedSemP bare_nested = true ∧ (ctxOf bare_nested).imms = ["u", "s"] := by decide +kernel

/-- a bare value with a side effect is NOT accepted (`i++;`), nor is a bare value whose lowering differs between the
    code and the repaired lowering (`(uint64_t)RsV;`: outside `CarveESem`) -/
example : certifiedSemP [.decl ⟨true, 32⟩ "i" none, .exprstmt (.post "i" ⟨true, 32⟩ "++")] = false := by decide +kernel
example : certifiedSemP [.exprstmt (.cast ⟨false, 64⟩ (.reg "RsV" .src ⟨true, 32⟩))] = false := by decide +kernel

/-- an undefined bare value makes the C behaviour undefined, it is not skipped: `(1 << siV);` with `siV = 40` -/
example : ∀ σ', ¬ ExecCs noMacros [.exprstmt (.shift "<<" (.lit 1 false "") (.imm "s" true))]
    { (default : MState) with imm := fun _ => 40 } σ' := by
  intro σ'
  obtain ⟨m, hm⟩ : ∃ m, evalC noMacros { (default : MState) with imm := fun _ => 40 }
      (.shift "<<" (.lit 1 false "") (.imm "s" true)) = .error m := by
    cases h : evalC noMacros { (default : MState) with imm := fun _ => 40 } (.shift "<<" (.lit 1 false "") (.imm "s" true)) with
    | error m => exact ⟨m, rfl⟩
    | ok v =>
      have : isOk (evalC noMacros { (default : MState) with imm := fun _ => 40 }
          (.shift "<<" (.lit 1 false "") (.imm "s" true))) = false := by decide +kernel
      rw [h] at this; cases this
  exact Sem.bare_undefined_not_ignored hm

/-! ### the widened carve-out (branch `carve-wider`): conditions `!x` / `a && b` / `a || b`, constant `?:` -/

/-- `{ uiV; EA = (RsV + uiV); if ((!(PvV & 1))) { mem_store_u8(EA, ((int8_t)((RtV >> (0 * 8)) & 0xff))); } else { {
    STORE_SLOT_CANCELLED(pkt, slot); } } }`: the shipped `S2_pstorerbf_io` as `harness/elab.py` delivers it (the nested
    block of the else-arm is spliced) — the shape of every predicated store/load with a negated predicate -/
def s2_pstorerbf_io : List CStmt :=
  [.exprstmt (.imm "u" false),
   .assign (.var "EA" utT) "=" (.bin "+" (.reg "RsV" .src ⟨true, 32⟩) (.imm "u" false)),
   .ite (.not (.bin "&" (.reg "PvV" .src ⟨true, 8⟩) (.lit 1 false "")))
     [.store 8 (.cast ⟨true, 8⟩ (.bin "&" (.shift ">>" (.reg "RtV" .src ⟨true, 32⟩) (.bin "*" (.lit 0 false "") (.lit 8 false "")))
        (.lit 255 true "")))]
     (some [.skip "STORE_SLOT_CANCELLED(pkt, slot);"])]

/-- the condition `!(PvV & 1)`: outside the VALUE carve-out (the code types it `int8`-promoted-to-`int` like its operand,
    the repaired lowering as a BOOL), inside the CONDITION carve-out; the two lowerings do give it different types -/
def notPv : CExpr := .not (.bin "&" (.reg "PvV" .src ⟨true, 8⟩) (.lit 1 false ""))
def envW : CEnv := { assigned := [], cfg := Cfg.fixed }
example : CarveESem [] notPv = false ∧ CarveCSem envW notPv = true := by decide +kernel
example : (compileExpr (codeEnv envW) notPv).toOption.map (·.ty) = some ⟨true, 32, 1⟩ ∧
    (compileExpr (fixedEnv envW) notPv).toOption.map (·.ty) = some ⟨false, 1, gBool⟩ := by decide +kernel
/-- `&&` / `||` of two such operands, or of two comparisons, are conditions too; as values they stay outside.  (A `&&`
    whose operands get DIFFERENT types from the code — a comparison and a `!x` — is excluded as before: `logSafeSem`.) -/
def notPt : CExpr := .not (.bin "&" (.reg "PtV" .src ⟨true, 8⟩) (.lit 1 false ""))
example : CarveCSem envW (.log "&&" notPv notPt) = true ∧
    CarveCSem envW (.log "||" (.cmp "==" T3.rs T3.rt) (.cmp "<" T3.rs (.imm "u" false))) = true ∧
    CarveCSem envW (.not (.log "||" (.cmp "==" T3.rs T3.rt) (.cmp "<" T3.rs (.imm "u" false)))) = true ∧
    CarveESem [] (.log "||" (.cmp "==" T3.rs T3.rt) (.cmp "<" T3.rs (.imm "u" false))) = false ∧
    CarveCSem envW (.log "&&" notPv (.cmp "<" T3.rs (.imm "u" false))) = false := by decide +kernel
/-- what `if`/`for` accepted before is still accepted (`Sem.carveCSem_of_carveESem`); a condition that is not a
    `BooleanOp`/`CompareOp` object but carries the copied BOOL flag is still excluded: `if ((RsV < uiV) + 0)`-like values
    are outside already as values; a widening conversion inside the condition is outside: `if (!((uint64_t)RsV))` -/
example : CarveCSem envW (.cmp "<" T3.rs (.imm "u" false)) = true ∧ CarveCSem envW T3.rs = true ∧
    CarveCSem envW (.not T3.eCast) = false := by decide +kernel

/-- the certificate holds for the predicated store (it was false before: `CarveProgSem` failed on the condition) -/
theorem s2_pstorerbf_io_certified : certifiedSem s2_pstorerbf_io = true := by decide +kernel
example : certified s2_pstorerbf_io = false := by decide +kernel

/-- `uiV = 8`, predicate register `Pv = 2` (bit 0 clear: the store happens), every other register `0x1234` -/
def pstore_state : MState :=
  { (default : MState) with imm := fun _ => 8, cur := fun k => if k == "Pv_op" then 2 else 0x1234 }
/-- the same with `Pv = 1`: the slot is cancelled -/
def pstore_state_t : MState :=
  { (default : MState) with imm := fun _ => 8, cur := fun k => if k == "Pv_op" then 1 else 0x1234 }

def finalMem (a : Nat) : Except Stuck MState → Option Nat
  | .ok σ => some (σ.mem a)
  | .error _ => none

/-- all hypotheses of `certifiedSem_correct` hold together for `S2_pstorerbf_io` from `pstore_state`; its conclusion
    follows, and the EMITTED effect stores the byte `0x34` at `0x1234 + 8` -/
example : ∃ eff σC' σIL', compileProgH Cfg.asCode s2_pstorerbf_io = .ok eff ∧ ExecCs noMacros s2_pstorerbf_io pstore_state σC' ∧
    ExecIL noMacros eff pstore_state σIL' ∧ StRel σC' σIL' ∧ σIL'.mem 0x123c = 0x34 ∧ σIL'.stores = [0x123c] := by
  obtain ⟨eff, hcomp⟩ := isOk_elim (x := compileProgH Cfg.asCode s2_pstorerbf_io) (by decide +kernel)
  obtain ⟨σC', hC⟩ := isOk_elim (x := execCs noMacros 6 s2_pstorerbf_io pstore_state) (by decide +kernel)
  have hex : ExecCs noMacros s2_pstorerbf_io pstore_state σC' := ExecCs_iff.2 ⟨6, hC⟩
  obtain ⟨σIL', hx, hrel⟩ := Sem.certifiedSem_correct T3.msOK_trivial s2_pstorerbf_io_certified hcomp rfl (fun _ _ => rfl) hex
  have hmem : finalMem 0x123c (execCs noMacros 6 s2_pstorerbf_io pstore_state) = some 0x34 := by decide +kernel
  have hst : (match execCs noMacros 6 s2_pstorerbf_io pstore_state with | .ok σ => some σ.stores | .error _ => none) = some [0x123c] := by
    decide +kernel
  rw [hC] at hmem hst
  simp only [finalMem, Option.some.injEq] at hmem hst
  exact ⟨eff, σC', σIL', hcomp, hex, hx, hrel, by rw [← hrel.mem]; exact hmem, by rw [← hrel.stores]; exact hst⟩

/-- … and from `pstore_state_t` (predicate true) the emitted effect cancels the slot and stores nothing -/
example : ∃ eff σC' σIL', compileProgH Cfg.asCode s2_pstorerbf_io = .ok eff ∧ ExecCs noMacros s2_pstorerbf_io pstore_state_t σC' ∧
    ExecIL noMacros eff pstore_state_t σIL' ∧ StRel σC' σIL' ∧ σIL'.stores = [] ∧
    lookupS "$slot_cancelled" σIL'.locals = some (.bool true) := by
  obtain ⟨eff, hcomp⟩ := isOk_elim (x := compileProgH Cfg.asCode s2_pstorerbf_io) (by decide +kernel)
  obtain ⟨σC', hC⟩ := isOk_elim (x := execCs noMacros 6 s2_pstorerbf_io pstore_state_t) (by decide +kernel)
  have hex : ExecCs noMacros s2_pstorerbf_io pstore_state_t σC' := ExecCs_iff.2 ⟨6, hC⟩
  obtain ⟨σIL', hx, hrel⟩ := Sem.certifiedSem_correct T3.msOK_trivial s2_pstorerbf_io_certified hcomp rfl (fun _ _ => rfl) hex
  have hst : (match execCs noMacros 6 s2_pstorerbf_io pstore_state_t with | .ok σ => some σ.stores | .error _ => none) = some [] := by
    decide +kernel
  have hsl : finalLocal "$slot_cancelled" (execCs noMacros 6 s2_pstorerbf_io pstore_state_t) = some (.bool true) := by decide +kernel
  rw [hC] at hst hsl
  simp only [Option.some.injEq] at hst
  exact ⟨eff, σC', σIL', hcomp, hex, hx, hrel, by rw [← hrel.stores]; exact hst, hrel.locals _ _ hsl⟩

/-- a loop whose condition is a `&&`: `{ int i; for (i = 0; ((i < 2) && (RsV != RtV)); i++) { RdV = i; } }` -/
def for_and : List CStmt :=
  [.decl ⟨false, 32⟩ "i" none,
   .for_ "i" (.log "&&" (.cmp "<" (.var "i" utT) (.lit 2 false "")) (.cmp "!=" T3.rs T3.rt)) 0
     [.assign (.reg "RdV" .dst ⟨true, 32⟩) "=" (.var "i" utT)]]
example : certifiedSem for_and = true := by decide +kernel

/-! #### constant-condition `?:` (QEMU's `fSXTN(N, M, VAL)` = `((N) != 0) ? sextract64(VAL, 0, N) : 0LL`, `fZXTN` with
    `extract64`): accepted when the live arm already has the common type of both arms (`liveKeepsTy`) -/

/-- `{ RddV = ((16 != 0) ? sextract64(RssV, 0, 16) : 0LL); }` — both arms `int64_t` (accepted before as well) -/
def fsxtn : List CStmt :=
  [.assign (.reg "RddV" .dst ⟨true, 64⟩) "=" (.tern (.cmp "!=" (.lit 16 false "") (.lit 0 false ""))
     (.macro "sextract64" [.reg "RssV" .src ⟨true, 64⟩, .lit 0 false "", .lit 16 false ""] ⟨true, 64⟩ [⟨false, 64⟩, ⟨true, 32⟩, ⟨true, 32⟩])
     (.lit 0 false "LL"))]
theorem fsxtn_certified : certifiedSem fsxtn = true := by decide +kernel

/-- `{ RddV = ((8 != 0) ? extract64(RssV, 0, 8) : 0LL); }` — live arm `uint64_t`, dead arm `int64_t`: the common type is
    the live arm's, nothing is dropped; NEW (the arms have different types) -/
def fzxtn : List CStmt :=
  [.assign (.reg "RddV" .dst ⟨true, 64⟩) "=" (.tern (.cmp "!=" (.lit 8 false "") (.lit 0 false ""))
     (.macro "extract64" [.reg "RssV" .src ⟨true, 64⟩, .lit 0 false "", .lit 8 false ""] ⟨false, 64⟩ [⟨false, 64⟩, ⟨true, 32⟩, ⟨true, 32⟩])
     (.lit 0 false "LL"))]
theorem fzxtn_certified : certifiedSem fzxtn = true := by decide +kernel

/-- the shipped `S2_insertp_rp` exactly as `harness/elab.py` delivers it — `{ int width = ((6 != 0) ? extract64(((int64_t)
    ((int32_t)((RttV >> (1 * 32)) & 0x0ffffffffLL))), 0, 6) : 0LL); int offset = ((7 != 0) ? sextract64(…, 0, 7) : 0LL);
    size8u_t mask = ((1LL << width) - 1); if ((offset < 0)) { RxxV = 0; } else { RxxV &= (~(mask << offset)); RxxV |=
    ((RssV & mask) << offset); } }` — is certified now (`fZXTN`: live `uint64_t`, dead `int64_t`) -/
def s2_insertp_rp : List CStmt :=
  [.decl ⟨true, 32⟩ "width" (some (.tern (.cmp "!=" (.lit 6 false "") (.lit 0 false ""))
     (.macro "extract64" [.cast ⟨true, 64⟩ (.cast ⟨true, 32⟩ (.bin "&" (.shift ">>" (.reg "RttV" .src ⟨true, 64⟩)
        (.bin "*" (.lit 1 false "") (.lit 32 false ""))) (.lit 4294967295 true "LL"))), .lit 0 false "", .lit 6 false ""]
        ⟨false, 64⟩ [⟨false, 64⟩, ⟨true, 32⟩, ⟨true, 32⟩]) (.lit 0 false "LL"))),
   .decl ⟨true, 32⟩ "offset" (some (.tern (.cmp "!=" (.lit 7 false "") (.lit 0 false ""))
     (.macro "sextract64" [.cast ⟨true, 64⟩ (.cast ⟨true, 32⟩ (.bin "&" (.shift ">>" (.reg "RttV" .src ⟨true, 64⟩)
        (.bin "*" (.lit 0 false "") (.lit 32 false ""))) (.lit 4294967295 true "LL"))), .lit 0 false "", .lit 7 false ""]
        ⟨true, 64⟩ [⟨false, 64⟩, ⟨true, 32⟩, ⟨true, 32⟩]) (.lit 0 false "LL"))),
   .decl ⟨false, 64⟩ "mask" (some (.bin "-" (.shift "<<" (.lit 1 false "LL") (.var "width" ⟨true, 32⟩)) (.lit 1 false ""))),
   .ite (.cmp "<" (.var "offset" ⟨true, 32⟩) (.lit 0 false ""))
     [.assign (.reg "RxxV" .rw ⟨true, 64⟩) "=" (.lit 0 false "")]
     (some [.assign (.reg "RxxV" .rw ⟨true, 64⟩) "&=" (.un "~" (.shift "<<" (.var "mask" ⟨false, 64⟩) (.var "offset" ⟨true, 32⟩))),
      .assign (.reg "RxxV" .rw ⟨true, 64⟩) "|=" (.shift "<<" (.bin "&" (.reg "RssV" .src ⟨true, 64⟩) (.var "mask" ⟨false, 64⟩))
        (.var "offset" ⟨true, 32⟩))])]
theorem s2_insertp_rp_certified : certifiedSem s2_insertp_rp = true := by decide +kernel

/-- the side condition on the compiled arms: live `uint64_t` / dead `int64_t` is inside, live `int32_t` / dead
    `uint64_t` (`1 ? RsV : 1ULL`, the listed finding) and live `int64_t` / dead `uint64_t` are outside, arms narrower than
    `int` are outside -/
example :
    liveKeepsTy true { il := .btrue, ty := ⟨false, 64, 1⟩, kind := .plain } { il := .btrue, ty := ⟨true, 64, 1⟩, kind := .lit 0 } = true ∧
    liveKeepsTy false { il := .btrue, ty := ⟨false, 64, 1⟩, kind := .plain } { il := .btrue, ty := ⟨true, 64, 1⟩, kind := .lit 0 } = false ∧
    liveKeepsTy true { il := .btrue, ty := ⟨true, 32, 1⟩, kind := .plain } { il := .btrue, ty := ⟨false, 64, 1⟩, kind := .lit 1 } = false ∧
    liveKeepsTy true { il := .btrue, ty := ⟨true, 64, 1⟩, kind := .plain } { il := .btrue, ty := ⟨true, 32, 1⟩, kind := .lit 1 } = true ∧
    liveKeepsTy true { il := .btrue, ty := ⟨true, 16, 1⟩, kind := .plain } { il := .btrue, ty := ⟨true, 16, 1⟩, kind := .plain } = false := by
  decide
example : certifiedSem [.assign (.reg "RddV" .dst ⟨true, 64⟩) "=" (.tern (.lit 1 false "") (.reg "RsV" .src ⟨true, 32⟩) (.lit 1 false "ULL"))]
    = false := by decide +kernel

/-- NOT certified, and rightly so: `((16 != 0) ? sextract64(RsV, 0, 16) : 0LL)` with the 32-bit `RsV`.  The `?:` is fine
    (both arms `int64_t`); what differs is the ARGUMENT: `sextract64` takes a `uint64_t`, the code zero-extends the signed
    `RsV` (`CAST(64, IL_FALSE, …)`), C sign-extends it.  The macro is uninterpreted in the theorems (`MacroSem`), so the
    two calls cannot be shown equal (they are, for the real `sextract64`, because only bits 0…15 are read). -/
def fsxtn32 : List CStmt :=
  [.assign (.reg "RdV" .dst ⟨true, 32⟩) "=" (.tern (.cmp "!=" (.lit 16 false "") (.lit 0 false ""))
     (.macro "sextract64" [.reg "RsV" .src ⟨true, 32⟩, .lit 0 false "", .lit 16 false ""] ⟨true, 64⟩ [⟨false, 64⟩, ⟨true, 32⟩, ⟨true, 32⟩])
     (.lit 0 false "LL"))]
example : certifiedSem fsxtn32 = false ∧
    CarveNsSem [] [.reg "RsV" .src ⟨true, 32⟩] [⟨false, 64⟩] = false ∧
    ternSafeSem (.lit 1 false "") { il := .btrue, ty := ⟨false, 1, gBool⟩, kind := .boolLit true }
      { il := .btrue, ty := ⟨true, 64, 1⟩, kind := .plain } { il := .btrue, ty := ⟨true, 64, 1⟩, kind := .lit 0 } = true := by
  decide +kernel

/-! an interpretation of `extract64` / `sextract64` (the theorems are stated for EVERY interpretation satisfying `MsOK`;
    with `noMacros` a macro call is undefined in C, so the instances below need a defined one) -/

/-- macros are told apart by their RzIL name, so that the C name and the RzIL name mean the same -/
def xKey (name : String) : Nat :=
  if macroRzName name == "EXTRACT64" then 1 else if macroRzName name == "SEXTRACT64" then 2 else 0

/-- `extract64(v, s, l)` = bits `s … s+l-1` of `v`; `sextract64` sign-extends them from bit `l-1` -/
def msX : MacroSem := fun name vs =>
  match xKey name, vs with
  | 1, [.bv _ v, .bv _ st, .bv _ l] => some (.bv 64 (BitVec.ofNat 64 ((v.toNat >>> st.toNat) % 2 ^ l.toNat)))
  | 2, [.bv _ v, .bv _ st, .bv _ l] => some (.bv 64 ((BitVec.ofNat l.toNat (v.toNat >>> st.toNat)).signExtend 64))
  | _, _ => none

/-- the macros of the table that return a bit-vector, with the width -/
def bvRows : List (String × Nat) :=
  Gen.macroRows.filterMap (fun r => match r with | (n, _, some (.bv w), _) => some (n, w) | _ => none)

theorem mem_bvRows {name : String} {w : Nat} (h : macroRetW name = some w) : (name, w) ∈ bvRows := by
  unfold macroRetW at h
  split at h
  · next n rz w' ps hf =>
    simp only [Option.some.injEq] at h
    subst h
    have hm := List.mem_of_find?_eq_some hf
    have hn := List.find?_some hf
    simp only [beq_iff_eq] at hn
    subst hn
    unfold bvRows
    rw [List.mem_filterMap]
    exact ⟨_, hm, rfl⟩
  · cases h

theorem bvRows_ok : bvRows.all (fun p => xKey (macroRzName p.1) == xKey p.1 && (xKey p.1 == 0 || p.2 == 64)) = true := by
  decide +kernel

theorem msOK_msX : MsOK msX := by
  intro name w h
  have hrow := List.all_eq_true.1 bvRows_ok _ (mem_bvRows h)
  simp only [Bool.and_eq_true, Bool.or_eq_true, beq_iff_eq] at hrow
  obtain ⟨hk, hw⟩ := hrow
  refine ⟨fun vs => by unfold msX; rw [hk], fun vs v hv => ?_⟩
  unfold msX at hv
  split at hv
  · next hkey =>
    have : w = 64 := by rcases hw with h0 | h0; · rw [hkey] at h0; cases h0
                        · exact h0
    subst this
    simp only [Option.some.injEq] at hv
    exact ⟨_, hv.symm⟩
  · next hkey =>
    have : w = 64 := by rcases hw with h0 | h0; · rw [hkey] at h0; cases h0
                        · exact h0
    subst this
    simp only [Option.some.injEq] at hv
    exact ⟨_, hv.symm⟩
  · cases hv

/-- the interpretation also satisfies the low-bits assumption -/
theorem msLow_msX : MsLow msX := by
  intro name hname v v' ws wl s l h
  have hraw := Sem.low_raw_eq h
  simp only [lowMacros, List.mem_cons, List.not_mem_nil, or_false] at hname
  rcases hname with rfl | rfl
  · have hk : xKey (macroRzName "extract64") = 1 := by decide +kernel
    simp only [msX, hk, hraw]
  · have hk : xKey (macroRzName "sextract64") = 2 := by decide +kernel
    simp only [msX, hk]
    have : BitVec.ofNat l.toNat (v.toNat >>> s.toNat) = BitVec.ofNat l.toNat (v'.toNat >>> s.toNat) := by
      apply BitVec.eq_of_toNat_eq
      simp only [BitVec.toNat_ofNat]
      exact hraw
    rw [this]

/-- every register `0x8234` (bit 15 set) -/
def fxtn_state : MState := { (default : MState) with cur := fun _ => 0x8234 }

/-- all hypotheses of `certifiedSem_correct` hold together for `fzxtn` from `fxtn_state` under `msX`; its conclusion
    follows, and the EMITTED effect writes `extract64(0x8234, 0, 8) = 0x34` to `Rdd` -/
example : ∃ eff σC' σIL', compileProgH Cfg.asCode fzxtn = .ok eff ∧ ExecCs msX fzxtn fxtn_state σC' ∧
    ExecIL msX eff fxtn_state σIL' ∧ StRel σC' σIL' ∧ σIL'.written "Rdd_op" = true ∧ σIL'.new "Rdd_op" = 0x34 := by
  obtain ⟨eff, hcomp⟩ := isOk_elim (x := compileProgH Cfg.asCode fzxtn) (by decide +kernel)
  obtain ⟨σC', hC⟩ := isOk_elim (x := execCs msX 5 fzxtn fxtn_state) (by decide +kernel)
  have hex : ExecCs msX fzxtn fxtn_state σC' := ExecCs_iff.2 ⟨5, hC⟩
  obtain ⟨σIL', hx, hrel⟩ := Sem.certifiedSem_correct msOK_msX fzxtn_certified hcomp rfl (fun _ _ => rfl) hex
  have hnew : finalNew "Rdd_op" (execCs msX 5 fzxtn fxtn_state) = some 0x34 := by decide +kernel
  rw [hC] at hnew
  simp only [finalNew] at hnew
  split at hnew
  · rename_i hw
    refine ⟨eff, σC', σIL', hcomp, hex, hx, hrel, ?_, ?_⟩
    · rw [← hrel.written]; exact hw
    · rw [← hrel.new]; exact Option.some.inj hnew
  · cases hnew

/-- the same for `fsxtn` (`fSXTN(16, 64, RssV)`): the emitted effect writes the sign-extended half-word -/
example : ∃ eff σC' σIL', compileProgH Cfg.asCode fsxtn = .ok eff ∧ ExecCs msX fsxtn fxtn_state σC' ∧
    ExecIL msX eff fxtn_state σIL' ∧ StRel σC' σIL' ∧ σIL'.written "Rdd_op" = true ∧ σIL'.new "Rdd_op" = 0xffffffffffff8234 := by
  obtain ⟨eff, hcomp⟩ := isOk_elim (x := compileProgH Cfg.asCode fsxtn) (by decide +kernel)
  obtain ⟨σC', hC⟩ := isOk_elim (x := execCs msX 5 fsxtn fxtn_state) (by decide +kernel)
  have hex : ExecCs msX fsxtn fxtn_state σC' := ExecCs_iff.2 ⟨5, hC⟩
  obtain ⟨σIL', hx, hrel⟩ := Sem.certifiedSem_correct msOK_msX fsxtn_certified hcomp rfl (fun _ _ => rfl) hex
  have hnew : finalNew "Rdd_op" (execCs msX 5 fsxtn fxtn_state) = some 0xffffffffffff8234 := by decide +kernel
  rw [hC] at hnew
  simp only [finalNew] at hnew
  split at hnew
  · rename_i hw
    refine ⟨eff, σC', σIL', hcomp, hex, hx, hrel, ?_, ?_⟩
    · rw [← hrel.written]; exact hw
    · rw [← hrel.new]; exact Option.some.inj hnew
  · cases hnew

/-! #### `fSXTN` of a 32-bit operand: the certificate with the low-bits macro arguments (`certifiedSemX`, assumption `MsLow`) -/

/-- `((16 != 0) ? sextract64(RsV, 0, 16) : 0LL)` with the 32-bit `RsV` is certified by `certifiedSemX` (not by
    `certifiedSem`, see `fsxtn32` above): bits 0…15 are read, `RsV` is 32 bits wide -/
theorem fsxtn32_certifiedX : certifiedSemX fsxtn32 = true := by decide +kernel
example : lowBitsOf [] "sextract64" [.reg "RsV" .src ⟨true, 32⟩, .lit 0 false "", .lit 16 false ""] [⟨false, 64⟩, ⟨true, 32⟩, ⟨true, 32⟩]
    = some 16 := by decide +kernel
/-- reading above the width of the argument is NOT accepted (`sextract64(RsV, 0, 40)`, `sextract64(RsV, 20, 16)`), nor is a
    non-constant length (`extract64(RsV, 0, uiV)`: the shipped `A4_bitspliti`), nor another macro -/
example : CarveNSem [] (.macro "sextract64" [.reg "RsV" .src ⟨true, 32⟩, .lit 0 false "", .lit 40 false ""] ⟨true, 64⟩
      [⟨false, 64⟩, ⟨true, 32⟩, ⟨true, 32⟩]) true = false ∧
    CarveNSem [] (.macro "sextract64" [.reg "RsV" .src ⟨true, 32⟩, .lit 20 false "", .lit 16 false ""] ⟨true, 64⟩
      [⟨false, 64⟩, ⟨true, 32⟩, ⟨true, 32⟩]) true = false ∧
    CarveNSem [] (.macro "extract64" [.reg "RsV" .src ⟨true, 32⟩, .lit 0 false "", .imm "u" false] ⟨false, 64⟩
      [⟨false, 64⟩, ⟨true, 32⟩, ⟨true, 32⟩]) true = false ∧
    CarveNSem [] (.macro "deposit64" [.reg "RsV" .src ⟨true, 32⟩, .lit 0 false "", .lit 8 false "", .reg "RssV" .src ⟨true, 64⟩]
      ⟨false, 64⟩ [⟨false, 64⟩, ⟨true, 32⟩, ⟨true, 32⟩, ⟨false, 64⟩]) true = false ∧
    CarveNSem [] (.macro "sextract64" [.reg "RsV" .src ⟨true, 32⟩, .lit 0 false "", .lit 32 false ""] ⟨true, 64⟩
      [⟨false, 64⟩, ⟨true, 32⟩, ⟨true, 32⟩]) true = true := by decide +kernel

/-- the shipped `A4_psxthtnew`: `{ if ((PuN & 1)) { RdV = ((16 != 0) ? sextract64(RsV, 0, 16) : 0LL); } else { cancel_slot; } }` -/
def a4_psxthtnew : List CStmt :=
  [.ite (.bin "&" (.reg "PuN" .new ⟨true, 8⟩) (.lit 1 false ""))
     [.assign (.reg "RdV" .dst ⟨true, 32⟩) "=" (.tern (.cmp "!=" (.lit 16 false "") (.lit 0 false ""))
        (.macro "sextract64" [.reg "RsV" .src ⟨true, 32⟩, .lit 0 false "", .lit 16 false ""] ⟨true, 64⟩ [⟨false, 64⟩, ⟨true, 32⟩, ⟨true, 32⟩])
        (.lit 0 false "LL"))]
     (some [.skip "cancel_slot;"])]
theorem a4_psxthtnew_certifiedX : certifiedSemX a4_psxthtnew = true := by decide +kernel
example : certifiedSem a4_psxthtnew = false := by decide +kernel

/-- every register `0xffff8234`: as a 32-bit signed value negative, so the code's zero-extension `0x00000000ffff8234` and
    C's sign-extension `0xffffffffffff8234` of the macro argument DIFFER -/
def fxtn32_state : MState := { (default : MState) with cur := fun _ => 0xffff8234 }

/-- all hypotheses of `certifiedSemX_correct` hold together for `fsxtn32` from `fxtn32_state` under `msX` (`MsOK`, `MsLow`);
    its conclusion follows, and the EMITTED effect writes the sign-extended half-word `0xffff8234` to `Rd` -/
example : ∃ eff σC' σIL', compileProgH Cfg.asCode fsxtn32 = .ok eff ∧ ExecCs msX fsxtn32 fxtn32_state σC' ∧
    ExecIL msX eff fxtn32_state σIL' ∧ StRel σC' σIL' ∧ σIL'.written "Rd_op" = true ∧ σIL'.new "Rd_op" = 0xffff8234 := by
  obtain ⟨eff, hcomp⟩ := isOk_elim (x := compileProgH Cfg.asCode fsxtn32) (by decide +kernel)
  obtain ⟨σC', hC⟩ := isOk_elim (x := execCs msX 5 fsxtn32 fxtn32_state) (by decide +kernel)
  have hex : ExecCs msX fsxtn32 fxtn32_state σC' := ExecCs_iff.2 ⟨5, hC⟩
  obtain ⟨σIL', hx, hrel⟩ := Sem.certifiedSemX_correct msOK_msX msLow_msX fsxtn32_certifiedX hcomp rfl (fun _ _ => rfl) hex
  have hnew : finalNew "Rd_op" (execCs msX 5 fsxtn32 fxtn32_state) = some 0xffff8234 := by decide +kernel
  rw [hC] at hnew
  simp only [finalNew] at hnew
  split at hnew
  · rename_i hw
    refine ⟨eff, σC', σIL', hcomp, hex, hx, hrel, ?_, ?_⟩
    · rw [← hrel.written]; exact hw
    · rw [← hrel.new]; exact Option.some.inj hnew
  · cases hnew

/-- `MsLow` is a genuine restriction: an interpretation of `sextract64` that reads the UPPER half of its first argument
    does not satisfy it (and under such an interpretation the code's zero-extension and C's sign-extension of a negative
    32-bit argument would give different results) -/
def msAll : MacroSem := fun name vs =>
  match xKey name, vs with
  | 2, [.bv _ v, _, _] => some (.bv 64 (BitVec.ofNat 64 (v.toNat >>> 32)))
  | _, _ => none
example : ¬ MsLow msAll := by
  intro h
  have := h "sextract64" (by decide) (0 : BitVec 64) (BitVec.ofNat 64 (2 ^ 40)) 32 32 (0 : BitVec 32) (16 : BitVec 32)
    (by
      intro i hi
      have hi' : i < 16 := hi
      have e : (BitVec.ofNat 64 (2 ^ 40)) = (1#64 <<< 40) := by decide
      rw [e]
      simp only [BitVec.getLsbD_zero, BitVec.getLsbD_shiftLeft]
      have : decide (i < 40) = true := by simp; omega
      simp [this])
  revert this
  decide +kernel

/-! #### an explicit / alias register as the target of a plain `=` (`lhsCarveSem`) -/

/-- `{ P0 = ((RsV == RtV) ? 0xff : 0x00); ; }`: part 0 of the shipped `J4_cmpeq_tp0_jump_t` (the shape of every compound
    compare-and-jump: 86 parts of the corpus).  `P0` is assigned, so the code would READ it through the `.new` value
    (`assignedRegsReadNew`) — but the target of `=` is not read. -/
def j4_cmpeq_tp0 : List CStmt :=
  [.assign (.reg "P0" .explicit ⟨true, 8⟩) "=" (.tern (.cmp "==" (.reg "RsV" .src ⟨true, 32⟩) (.reg "RtV" .src ⟨true, 32⟩))
     (.lit 255 true "") (.lit 0 true "")),
   .skip ";"]
theorem j4_cmpeq_tp0_certified : certifiedSem j4_cmpeq_tp0 = true := by decide +kernel
/-- as a VALUE the assigned `P0` stays outside; as the target of `=` it is inside, as the target of `|=` it is not -/
example : CarveESem ["P0_op"] (.reg "P0" .explicit ⟨true, 8⟩) = false ∧
    lhsCarveSem ["P0_op"] "=" (.reg "P0" .explicit ⟨true, 8⟩) = true ∧
    lhsCarveSem ["P0_op"] "|=" (.reg "P0" .explicit ⟨true, 8⟩) = false ∧
    lhsCarveSem ["P0_op"] "=" (.reg "P0" .explicit ⟨true, 32⟩) = false := by decide +kernel
/-- the two lowerings do compile the target differently (the read of it), and still emit effects with one meaning -/
def readsNew : Except String CE → Option Bool
  | .ok ce => (match ce.il with | .readReg _ b => some b | _ => none)
  | .error _ => none
example : readsNew (compileExpr ⟨["P0_op"], Cfg.asCode⟩ (.reg "P0" .explicit ⟨true, 8⟩)) = some true ∧
    readsNew (compileExpr ⟨["P0_op"], Cfg.fixed⟩ (.reg "P0" .explicit ⟨true, 8⟩)) = some false := by decide +kernel
/-- `{ P0 = RsV; RdV = P0; }` (the assigned register is READ: the listed finding `assigned-explicit-register-read-as-new`)
    and `{ P0 |= RsV; }` are NOT certified -/
example : certifiedSem [.assign (.reg "P0" .explicit ⟨true, 8⟩) "=" (.reg "RsV" .src ⟨true, 32⟩),
    .assign (.reg "RdV" .dst ⟨true, 32⟩) "=" (.reg "P0" .explicit ⟨true, 8⟩)] = false ∧
    certifiedSem [.assign (.reg "P0" .explicit ⟨true, 8⟩) "|=" (.reg "RsV" .src ⟨true, 32⟩)] = false := by decide +kernel

/-- the shipped `J2_loop1i`: `{ riV; riV = (riV & (~(4 - 1))); HEX_REG_ALIAS_SA1 = (HEX_REG_ALIAS_PC + riV);
    HEX_REG_ALIAS_LC1 = UiV; }` (alias registers as targets; the bare `riV;` in front of the assignment to `riV`) -/
def j2_loop1i : List CStmt :=
  [.exprstmt (.imm "r" true),
   .assign (.imm "r" true) "=" (.bin "&" (.imm "r" true) (.un "~" (.bin "-" (.lit 4 false "") (.lit 1 false "")))),
   .assign (.reg "HEX_REG_ALIAS_SA1" .alias ⟨false, 32⟩) "=" (.bin "+" (.reg "HEX_REG_ALIAS_PC" .pc ⟨false, 32⟩) (.imm "r" true)),
   .assign (.reg "HEX_REG_ALIAS_LC1" .alias ⟨false, 32⟩) "=" (.imm "U" false)]
theorem j2_loop1i_certified : certifiedSem j2_loop1i = true := by decide +kernel

/-- all hypotheses of `certifiedSem_correct` hold together for `j4_cmpeq_tp0` from a state with equal registers; its
    conclusion follows, and the EMITTED effect writes `0xff` to `P0` -/
example : ∃ eff σC' σIL', compileProgH Cfg.asCode j4_cmpeq_tp0 = .ok eff ∧ ExecCs noMacros j4_cmpeq_tp0 l2_state σC' ∧
    ExecIL noMacros eff l2_state σIL' ∧ StRel σC' σIL' ∧ σIL'.written "P0_op" = true ∧ σIL'.new "P0_op" = 0xff := by
  obtain ⟨eff, hcomp⟩ := isOk_elim (x := compileProgH Cfg.asCode j4_cmpeq_tp0) (by decide +kernel)
  obtain ⟨σC', hC⟩ := isOk_elim (x := execCs noMacros 5 j4_cmpeq_tp0 l2_state) (by decide +kernel)
  have hex : ExecCs noMacros j4_cmpeq_tp0 l2_state σC' := ExecCs_iff.2 ⟨5, hC⟩
  obtain ⟨σIL', hx, hrel⟩ := Sem.certifiedSem_correct T3.msOK_trivial j4_cmpeq_tp0_certified hcomp rfl (fun _ _ => rfl) hex
  have hnew : finalNew "P0_op" (execCs noMacros 5 j4_cmpeq_tp0 l2_state) = some 0xff := by decide +kernel
  rw [hC] at hnew
  simp only [finalNew] at hnew
  split at hnew
  · rename_i hw
    refine ⟨eff, σC', σIL', hcomp, hex, hx, hrel, ?_, ?_⟩
    · rw [← hrel.written]; exact hw
    · rw [← hrel.new]; exact Option.some.inj hnew
  · cases hnew

/-- non-vacuity of the expression- and statement-level theorems (`sortOK_fixed`, `expr_sem`, `cond_sem`, `decl_sem`,
    `assign_sem`, `store_sem`, `jump_sem`, `stmt_sem_both`): a consistent context, a typed state, and carved,
    well-formed expressions and statements that are OUTSIDE the syntactic carve-out -/
def c0 : Ctx := { types := [("EA", utT), ("x", ⟨false, 8⟩)], imms := ["u", "s"],
                  srcs := [opvarOf "RsV" .src, opvarOf "RtV" .src] }
def env0 : CEnv := { assigned := [], cfg := Cfg.fixed }

example : c0.ok = true ∧ SInv c0 (typedState c0) := ⟨by decide +kernel, typedState_SInv (by decide +kernel)⟩

example : CarveESem env0.assigned (.cast ⟨false, 8⟩ T3.rs) = true ∧ WFES c0 (.cast ⟨false, 8⟩ T3.rs) = true ∧
    CarveESem env0.assigned (.bin "+" T3.rs (.imm "u" false)) = true ∧ WFES c0 (.bin "+" T3.rs (.imm "u" false)) = true ∧
    CarveESem env0.assigned (.cmp "<" T3.rs (.imm "u" false)) = true ∧ WFES c0 (.cmp "<" T3.rs (.imm "u" false)) = true := by
  decide +kernel

example :
    CarveSSem env0 (.decl ⟨false, 8⟩ "x" (some T3.rs)) = true ∧ WFStmt c0 (.decl ⟨false, 8⟩ "x" (some T3.rs)) = true ∧
    CarveS (CarveE env0.assigned) env0 (.decl ⟨false, 8⟩ "x" (some T3.rs)) = false ∧
    CarveSSem env0 (.assign (.var "EA" utT) "=" (.bin "+" T3.rs (.imm "s" true))) = true ∧
    WFStmt c0 (.assign (.var "EA" utT) "=" (.bin "+" T3.rs (.imm "s" true))) = true ∧
    CarveSSem env0 (.store 8 T3.rt) = true ∧ WFStmt c0 (.store 8 T3.rt) = true ∧
    CarveS (CarveE env0.assigned) env0 (.store 8 T3.rt) = false ∧
    CarveSSem env0 (.jump (.bin "+" T3.rs (.imm "s" true))) = true ∧
    CarveSSem env0 (.ite (.cmp "<" T3.rs (.imm "u" false)) [.store 8 T3.rt] none) = true := by
  decide +kernel

end Sem.Witness
end Rzil
