import RzilVerif.Lemmas.HEqvStmt
import RzilVerif.Lemmas.HEqvCarve
import RzilVerif.Props.C05Compose
/-!
# The hybrid lowering model (`CompileH.lean`) agrees with the pure lowering model (`Compile.lean`) on hybrid-free programs

The theorems about preservation of the C semantics (C02, C05, C05Compose) are stated about `compileProg`; the
differential tie to the Python compiler is on `compileProgH`.  This file closes the gap:

* `compileExprH_eq_compileExpr` (expression level, side condition `HSame`), `compileExprH_eq_compileExpr_fixed`
  (no side condition when `literalTypeBySuffixOnly` is off, in particular for `Cfg.fixed`);
* `compileExprH_imms`, `compileStmtsH_state` (the immediates of the hybrid model are the `addImms` of the
  syntactic `immsOfExpr`);
* `chk_nil`, `compileStmtH_eq_compileStmt`, `compileStmtsH_eq_compileStmts` (statement level);
* `compileProgH_eq_compileProg` (any configuration, side condition `HSameProg`),
  `compileProgH_eq_compileProg_fixed` (no side condition), `compileProgH_eq_compileProg_asCode`;
* `carve_not_imp_HSame` (the statement carve-out does NOT imply `HSameS`: refuted by `heqvCex`, where the two models
  differ), `HSameProg_of_carve` (it does imply part (a); part (b) = `NoDeadVarlProg` is the missing hypothesis),
  `progH_correct_asCode_closed` (T1 + T2 transferred to `compileProgH Cfg.asCode`, with `HSameProg` and
  `HybFreeSs` as additional decidable hypotheses), `progH_correct_asCode_closed'` (with `NoDeadVarlProg` instead).

Differences between the two models that were found (all are excluded by `HybFree`/`HSame`, see the report in the
comments at the definitions in `Model/HybFree.lean`):
 1. folded comparison as operand of a foldable operator under `literalTypeBySuffixOnly` (`foldVal`);
 2. constant `?:` whose dead arm is a bare immediate read, under `literalTypeBySuffixOnly` (the immediate is
    registered twice);
 3. source names in the namespace `h_tmp…` (any configuration): a pending postfix step of an enclosing `v++` loop
    is popped by a statement that names it, or removed by a constant `?:` whose dead arm names it;
 4. the text of the arity error (`"macro arity"` / `"arity"`);
 5. `return` and expression statements with a side effect exist in the hybrid model only (a bare PURE value
    statement `siV;` is in both: no effect, its immediates registered);
 6. immediates of an assignment target are registered by the pure model only (such targets are rejected by both);
 7. a `for` loop whose counter is declared with another type than ut32 (`int i; for (i = 0; …)`): the hybrid model
    initialises and steps the counter in its declared type (`loopVarTy`, `forInitH`), the pure model hardcodes the
    undeclared special identifiers' ut32 (`HybFreeS` requires `loopVarTy v c == utT`; witness in `Props/LoopTy.lean`).
-/
namespace Rzil
open HEqv

/-! ## no side condition unless `literalTypeBySuffixOnly` -/

mutual
theorem HSame_of_noSuffix (env : CEnv) (h : env.cfg.literalTypeBySuffixOnly = false) :
    (e : CExpr) → HSame env e = true
  | .reg _ _ _ => by simp only [HSame]
  | .imm _ _ => by simp only [HSame]
  | .lit _ _ _ => by simp only [HSame]
  | .var _ _ => by simp only [HSame]
  | .cast _ e => by simp only [HSame, HSame_of_noSuffix env h e]
  | .un _ e => by simp only [HSame, HSame_of_noSuffix env h e, h, Bool.false_and, Bool.not_false, Bool.and_self]
  | .not e => by simp only [HSame, HSame_of_noSuffix env h e]
  | .bin _ a b => by
      simp only [HSame, HSame_of_noSuffix env h a, HSame_of_noSuffix env h b, h, Bool.false_and, Bool.not_false,
        Bool.and_self]
  | .shift _ a b => by simp only [HSame, HSame_of_noSuffix env h a, HSame_of_noSuffix env h b, Bool.and_self]
  | .cmp _ a b => by
      simp only [HSame, HSame_of_noSuffix env h a, HSame_of_noSuffix env h b, h, Bool.false_and, Bool.not_false,
        Bool.and_self]
  | .log _ a b => by simp only [HSame, HSame_of_noSuffix env h a, HSame_of_noSuffix env h b, Bool.and_self]
  | .tern c a b => by
      simp only [HSame, HSame_of_noSuffix env h c, HSame_of_noSuffix env h a, HSame_of_noSuffix env h b, h,
        Bool.false_and, Bool.not_false, Bool.and_self]
  | .macro _ args _ _ => by simp only [HSame, HSameL_of_noSuffix env h args]
  | .load _ _ _ => by simp only [HSame]
  | .post _ _ _ => by simp only [HSame]
  | .call _ _ _ _ => by simp only [HSame]
  | .stmtexpr _ _ _ => by simp only [HSame]
  | .seqexpr _ _ _ _ _ => by simp only [HSame]
  | .callx _ _ _ _ _ => by simp only [HSame]
  | .xmacro _ _ _ => by simp only [HSame]
theorem HSameL_of_noSuffix (env : CEnv) (h : env.cfg.literalTypeBySuffixOnly = false) :
    (as : List CExpr) → HSameL env as = true
  | [] => by simp only [HSameL]
  | a :: as => by simp only [HSameL, HSame_of_noSuffix env h a, HSameL_of_noSuffix env h as, Bool.and_self]
end

mutual
theorem HSameS_of_noSuffix (env : CEnv) (h : env.cfg.literalTypeBySuffixOnly = false) :
    (s : CStmt) → HSameS env s = true
  | .decl _ _ none => by simp only [HSameS]
  | .decl _ _ (some e) => by simp only [HSameS, HSame_of_noSuffix env h e]
  | .assign _ _ e => by simp only [HSameS, HSame_of_noSuffix env h e]
  | .chain _ _ _ e => by simp only [HSameS, HSame_of_noSuffix env h e]
  | .store _ e => by simp only [HSameS, HSame_of_noSuffix env h e]
  | .ite c t none => by simp only [HSameS, HSame_of_noSuffix env h c, HSameSs_of_noSuffix env h t, Bool.and_self]
  | .ite c t (some e) => by
      simp only [HSameS, HSame_of_noSuffix env h c, HSameSs_of_noSuffix env h t, HSameSs_of_noSuffix env h e,
        Bool.and_self]
  | .for_ _ c _ b => by simp only [HSameS, HSame_of_noSuffix env h c, HSameSs_of_noSuffix env h b, Bool.and_self]
  | .jump e => by simp only [HSameS, HSame_of_noSuffix env h e]
  | .skip _ => by simp only [HSameS]
  | .exprstmt e => by simp only [HSameS, HSame_of_noSuffix env h e]
  | .ret e => by simp only [HSameS, HSame_of_noSuffix env h e]
  | .vcall _ _ args _ => by simp only [HSameS, HSameL_of_noSuffix env h args]
theorem HSameSs_of_noSuffix (env : CEnv) (h : env.cfg.literalTypeBySuffixOnly = false) :
    (ss : List CStmt) → HSameSs env ss = true
  | [] => by simp only [HSameSs]
  | s :: ss => by simp only [HSameSs, HSameS_of_noSuffix env h s, HSameSs_of_noSuffix env h ss, Bool.and_self]
end

/-- the hypothesis holds for the repaired configuration (and fails for the code's) -/
example : Cfg.fixed.literalTypeBySuffixOnly = false ∧ Cfg.asCode.literalTypeBySuffixOnly = true := ⟨rfl, rfl⟩

/-- `Cfg.fixed`: no side condition -/
theorem HSameProg_fixed (prog : List CStmt) : HSameProg Cfg.fixed prog = true :=
  HSameSs_of_noSuffix _ rfl prog

/-! ## expression level -/

/-- **Expression level.** For a hybrid-free `e` satisfying the side condition `HSame env e`, from any state whose
    registered immediates are all live and none of whose pending entries belongs to a statement-expression,
    `compileExprH` returns what `compileExpr` returns, and the state `stAdd st (immsOfExpr e)`, which differs from `st`
    only in `imms`/`live` (`stAdd_pending`, `stAdd_hyb`). -/
theorem compileExprH_eq_compileExpr (env : CEnv) (e : CExpr) (st : HSt)
    (hfree : HybFree e = true) (hsame : HSame env e = true)
    (hlive : st.live = st.imms.map (·.1)) (hgcc : ∀ p ∈ st.pending, p.gcc = false) :
    compileExprH env st e = (compileExpr env e).map (fun ce => (ce, stAdd st (immsOfExpr e))) :=
  compileExprH_eq env e st hfree hsame hlive hgcc

/-- non-vacuity: a constant `?:` over an immediate and a literal sum, under the code's configuration -/
example : HybFree (.tern (.lit 1 false "") (.imm "s" true) (.bin "+" (.lit 2 false "") (.lit 3 false ""))) = true ∧
    HSame ⟨[], Cfg.asCode⟩ (.tern (.lit 1 false "") (.imm "s" true) (.bin "+" (.lit 2 false "") (.lit 3 false ""))) = true ∧
    (({ imms := [], live := [], hyb := 0, pending := [] } : HSt).live =
      ({ imms := [], live := [], hyb := 0, pending := [] } : HSt).imms.map (·.1)) := by decide

/-- pending entries and the temporary counter are untouched, the immediates are those of the pure model -/
theorem stAdd_spec (st : HSt) (xs : List (String × Bool)) :
    (stAdd st xs).pending = st.pending ∧ (stAdd st xs).hyb = st.hyb ∧
    (stAdd st xs).imms = (addImms ⟨st.imms, st.hyb⟩ xs).imms ∧
    (stAdd st xs).live = (stAdd st xs).imms.map (·.1) := ⟨rfl, rfl, rfl, rfl⟩

/-- **Expression level, repaired configuration**: no side condition at all -/
theorem compileExprH_eq_compileExpr_fixed (env : CEnv) (hcfg : env.cfg.literalTypeBySuffixOnly = false)
    (e : CExpr) (st : HSt) (hfree : HybFree e = true)
    (hlive : st.live = st.imms.map (·.1)) (hgcc : ∀ p ∈ st.pending, p.gcc = false) :
    compileExprH env st e = (compileExpr env e).map (fun ce => (ce, stAdd st (immsOfExpr e))) :=
  compileExprH_eq env e st hfree (HSame_of_noSuffix env hcfg e) hlive hgcc

example : Cfg.fixed.literalTypeBySuffixOnly = false ∧
    HybFree (.un "-" (.cmp "<" (.lit 1 false "") (.lit 2 false ""))) = true := by decide

/-! ## immediates -/

/-- **Immediates, expression level**: with `live = imms.map (·.1)` as invariant, adding per leaf in evaluation order
    is `addImms` of the syntactic `immsOfExpr` -/
theorem compileExprH_imms (env : CEnv) (e : CExpr) (st : HSt) (ce : CE) (st' : HSt)
    (hfree : HybFree e = true) (hsame : HSame env e = true)
    (hlive : st.live = st.imms.map (·.1)) (hgcc : ∀ p ∈ st.pending, p.gcc = false)
    (h : compileExprH env st e = .ok (ce, st')) :
    st'.imms = (addImms ⟨st.imms, st.hyb⟩ (immsOfExpr e)).imms ∧ st'.live = st'.imms.map (·.1) ∧
      st'.pending = st.pending ∧ st'.hyb = st.hyb := by
  rw [compileExprH_eq env e st hfree hsame hlive hgcc] at h
  cases hc : compileExpr env e with
  | error m => rw [hc] at h; cases h
  | ok c =>
    rw [hc] at h
    simp only [map_ok, Except.ok.injEq, Prod.mk.injEq] at h
    obtain ⟨_, rfl⟩ := h
    exact ⟨rfl, rfl, rfl, rfl⟩

example : compileExprH ⟨[], Cfg.asCode⟩ { imms := [], live := [], hyb := 0, pending := [] }
      (.bin "+" (.imm "s" true) (.bin "+" (.imm "u" false) (.imm "s" true))) =
    .ok ({ il := .bin .add (.cast 32 .bfalse (.varl "s"))
                 (.bin .add (.varl "u") (.cast 32 .bfalse (.varl "s"))),
           ty := ⟨false, 32, 1⟩, kind := .plain },
         { imms := [("s", true), ("u", false)], live := ["s", "u"], hyb := 0, pending := [] }) := by rfl

/-! ## statement level -/

/-- `chk` is the identity when nothing is pending -/
theorem chk_nil (st : HSt) (e : ILEffect) (bare : List String) (after : Bool) (h : st.pending = []) :
    chk st e bare after = (e, st) := HEqv.chk_nil st e bare after h

example : ({ imms := [], live := [], hyb := 3, pending := [] } : HSt).pending = [] := rfl

/-- **Statement level.** From a state whose immediates are all live and whose pending entries are postfix steps of
    enclosing loops (numbered below `st.hyb`, not statement-expressions), a hybrid-free statement satisfying `HSameS`
    is lowered by `compileStmtH` to the effect of `compileStmt` (`effOpt`: to NO effect when it is a bare pure value
    statement `e;`, whose pure-model effect `EMPTY` is not listed by `compileStmts` either), it carries no bare
    temporaries, and the final state is the pure model's (`fromT`: same `imms` and `hyb`, all immediates live,
    `pending` as before). -/
theorem compileStmtH_eq_compileStmt (env : CEnv) (s : CStmt) (st : HSt)
    (hfree : HybFreeS s = true) (hsame : HSameS env s = true) (hlive : st.live = st.imms.map (·.1))
    (hpend : ∀ p ∈ st.pending, p.gcc = false ∧ ∃ i, i < st.hyb ∧ p.tmp = s!"h_tmp{i}") :
    compileStmtH env st s =
      (compileStmt env ⟨st.imms, st.hyb⟩ s).map (fun r => (effOpt s r.1, [], fromT st r.2)) :=
  compileStmtH_eq env s st hfree hsame hlive hpend

/-- a statement other than a bare value is never lowered to "no effect" (the previous form of the statement) -/
theorem compileStmtH_eq_compileStmt_effect (env : CEnv) (s : CStmt) (st : HSt) (hbare : isBare s = false)
    (hfree : HybFreeS s = true) (hsame : HSameS env s = true) (hlive : st.live = st.imms.map (·.1))
    (hpend : ∀ p ∈ st.pending, p.gcc = false ∧ ∃ i, i < st.hyb ∧ p.tmp = s!"h_tmp{i}") :
    compileStmtH env st s =
      (compileStmt env ⟨st.imms, st.hyb⟩ s).map (fun r => (some r.1, [], fromT st r.2)) := by
  rw [compileStmtH_eq env s st hfree hsame hlive hpend]
  simp only [effOpt, hbare, Bool.false_eq_true, ↓reduceIte]
  rfl

theorem compileStmtsH_eq_compileStmts (env : CEnv) (ss : List CStmt) (st : HSt)
    (hfree : HybFreeSs ss = true) (hsame : HSameSs env ss = true) (hlive : st.live = st.imms.map (·.1))
    (hpend : ∀ p ∈ st.pending, p.gcc = false ∧ ∃ i, i < st.hyb ∧ p.tmp = s!"h_tmp{i}") :
    compileStmtsH env st ss =
      (compileStmts env ⟨st.imms, st.hyb⟩ ss).map (fun r => (r.1, [], fromT st r.2)) :=
  compileStmtsH_eq env ss st hfree hsame hlive hpend

/-- the hypotheses hold for a state in the middle of a `v++` loop (one pending step) -/
example : let st : HSt := { imms := [("s", true)], live := ["s"], hyb := 1, pending := [postPend "i" 32 "++" 0] }
    st.live = st.imms.map (·.1) ∧ ∀ p ∈ st.pending, p.gcc = false ∧ ∃ i, i < st.hyb ∧ p.tmp = s!"h_tmp{i}" := by
  refine ⟨rfl, ?_⟩
  intro p hp
  simp only [List.mem_singleton] at hp
  subst hp
  exact ⟨rfl, 0, Nat.zero_lt_one, rfl⟩

/-- … and a loop statement satisfying the static hypotheses under the code's configuration -/
example : HybFreeS (.for_ "i" (.cmp "<" (.var "i" ⟨false, 32⟩) (.imm "u" false)) 0
      [.assign (.var "a" ⟨true, 32⟩) "+=" (.imm "s" true)]) = true ∧
    HSameS ⟨[], Cfg.asCode⟩ (.for_ "i" (.cmp "<" (.var "i" ⟨false, 32⟩) (.imm "u" false)) 0
      [.assign (.var "a" ⟨true, 32⟩) "+=" (.imm "s" true)]) = true := by decide

/-- **Immediates, statement level**: after hybrid-free statements `HSt.imms` equals `TSt.imms` -/
theorem compileStmtsH_state (env : CEnv) (ss : List CStmt) (st : HSt) (es : List ILEffect) (bare : List String)
    (st' : HSt) (hfree : HybFreeSs ss = true) (hsame : HSameSs env ss = true)
    (hlive : st.live = st.imms.map (·.1))
    (hpend : ∀ p ∈ st.pending, p.gcc = false ∧ ∃ i, i < st.hyb ∧ p.tmp = s!"h_tmp{i}")
    (h : compileStmtsH env st ss = .ok (es, bare, st')) :
    ∃ t' : TSt, compileStmts env ⟨st.imms, st.hyb⟩ ss = .ok (es, t') ∧ bare = [] ∧
      st'.imms = t'.imms ∧ st'.live = t'.imms.map (·.1) ∧ st'.hyb = t'.hyb ∧ st'.pending = st.pending := by
  rw [compileStmtsH_eq env ss st hfree hsame hlive hpend] at h
  cases hc : compileStmts env (toT st) ss with
  | error m => rw [hc] at h; cases h
  | ok r =>
    obtain ⟨es0, t0⟩ := r
    rw [hc] at h
    simp only [map_ok, Except.ok.injEq, Prod.mk.injEq] at h
    obtain ⟨rfl, rfl, rfl⟩ := h
    exact ⟨t0, hc, rfl, rfl, rfl, rfl, rfl⟩

set_option maxRecDepth 20000 in
/-- the hypotheses of `compileStmtsH_state` hold for a statement list that compiles -/
example : let ss : List CStmt := [.decl ⟨true, 32⟩ "a" (some (.imm "s" true)), .store 32 (.bin "+" (.imm "u" false) (.imm "s" true))]
    HybFreeSs ss = true ∧ HSameSs ⟨[], Cfg.asCode⟩ ss = true ∧
    (compileStmtsH ⟨[], Cfg.asCode⟩ { imms := [], live := [], hyb := 0, pending := [] } ss).toOption.map (·.2.2.imms)
      = some [("s", true), ("u", false)] := by decide

/-! ## program level -/

/-- **Program level.** On hybrid-free programs satisfying the side condition for the configuration the two models
    compute the same result (the same tree or the same error). `compileProgH` with its default `hyb0 := 0`. -/
theorem compileProgH_eq_compileProg (cfg : Cfg) (prog : List CStmt)
    (hfree : HybFreeSs prog = true) (hsame : HSameProg cfg prog = true) :
    compileProgH cfg prog = compileProg cfg prog := by
  unfold compileProgH compileProg
  simp only
  rw [compileStmtsH_eq _ prog { imms := [], live := [], hyb := 0, pending := [] } hfree hsame rfl
    (fun _ hp => by cases hp)]
  show (Except.map _ (compileStmts _ { imms := [], hyb := 0 } prog) >>= _) = _
  cases compileStmts { assigned := assignedOfList prog, cfg := cfg } { imms := [], hyb := 0 } prog with
  | error m => rfl
  | ok r =>
    simp only [map_ok, bind, Except.bind, fromT, List.map_nil, List.append_nil]

/-- **Program level, repaired configuration**: no side condition -/
theorem compileProgH_eq_compileProg_fixed (prog : List CStmt) (hfree : HybFreeSs prog = true) :
    compileProgH Cfg.fixed prog = compileProg Cfg.fixed prog :=
  compileProgH_eq_compileProg Cfg.fixed prog hfree (HSameProg_fixed prog)

/-- **Program level, the code's configuration**: under the decidable side condition `HSameProg Cfg.asCode` -/
theorem compileProgH_eq_compileProg_asCode (prog : List CStmt) (hfree : HybFreeSs prog = true)
    (hsame : HSameProg Cfg.asCode prog = true) :
    compileProgH Cfg.asCode prog = compileProg Cfg.asCode prog :=
  compileProgH_eq_compileProg Cfg.asCode prog hfree hsame

/-! ## non-vacuity: a five-statement program with a loop and immediates -/

/-- `int a = siV + RsV; int i; for (i = 0; i < uiV; i += 2) { a += siV; }  RdV = a; if (a) { mem_store_u32(EA, uiV); } else { ; }` -/
def heqvDemo5 : List CStmt :=
  [.decl ⟨true, 32⟩ "a" (some (.bin "+" (.imm "s" true) (.reg "RsV" .src ⟨true, 32⟩))),
   .decl ⟨true, 32⟩ "i" none,
   .for_ "i" (.cmp "<" (.var "i" ⟨false, 32⟩) (.imm "u" false)) 2 [.assign (.var "a" ⟨true, 32⟩) "+=" (.imm "s" true)],
   .assign (.reg "RdV" .dst ⟨true, 32⟩) "=" (.var "a" ⟨true, 32⟩),
   .ite (.var "a" ⟨true, 32⟩) [.store 32 (.imm "u" false)] (some [.skip ";"])]

def heqvDemo5Tree : ILEffect := .seqn
  [.setl "s" (.imm true 32 "st32" "s"),
   .setl "u" (.imm false 32 "ut32" "u"),
   .setl "a" (.bin .add (.varl "s") (.readReg { opvar := "Rs_op", deref := false } false)),
   .seqn
     [.setl "i" (.cast 32 .bfalse (.const true 32 0)),
      .repeat_ (.bin .ult (.varl "i") (.varl "u"))
        (.seqn
          [.setl "a" (.bin .add (.varl "a") (.varl "s")),
           .setl "i" (.bin .add (.varl "i") (.cast 32 .bfalse (.const true 32 2)))])],
   .writeReg "bundle" { opvar := "Rd_op", deref := false } (.varl "a"),
   .branch (.un .nonZero (.varl "a"))
     (.storew (.varl "EA") (.cast 32 .bfalse (.varl "u")))
     .empty]

set_option maxRecDepth 20000 in
/-- the hypotheses of `compileProgH_eq_compileProg_asCode` hold for `heqvDemo5` -/
example : HybFreeSs heqvDemo5 = true ∧ HSameProg Cfg.asCode heqvDemo5 = true := by decide

set_option maxRecDepth 20000 in
/-- both sides, computed -/
example : compileProgH Cfg.asCode heqvDemo5 = .ok heqvDemo5Tree ∧ compileProg Cfg.asCode heqvDemo5 = .ok heqvDemo5Tree :=
  ⟨by rfl, by rfl⟩

set_option maxRecDepth 20000 in
/-- the same program with the postfix step `i++`: the hybrid model goes through `resolve_hybrid` / `chk_hybrid_dep`
    (one pending entry, popped behind the loop body), the pure model builds the step sequence directly -/
def heqvDemo5pp : List CStmt :=
  [.decl ⟨true, 32⟩ "a" (some (.bin "+" (.imm "s" true) (.reg "RsV" .src ⟨true, 32⟩))),
   .decl ⟨true, 32⟩ "i" none,
   .for_ "i" (.cmp "<" (.var "i" ⟨false, 32⟩) (.imm "u" false)) 0 [.assign (.var "a" ⟨true, 32⟩) "+=" (.imm "s" true)],
   .assign (.reg "RdV" .dst ⟨true, 32⟩) "=" (.var "a" ⟨true, 32⟩),
   .ite (.var "a" ⟨true, 32⟩) [.store 32 (.imm "u" false)] (some [.skip ";"])]

def heqvDemo5ppTree : ILEffect := .seqn
  [.setl "s" (.imm true 32 "st32" "s"),
   .setl "u" (.imm false 32 "ut32" "u"),
   .setl "a" (.bin .add (.varl "s") (.readReg { opvar := "Rs_op", deref := false } false)),
   .seqn
     [.setl "i" (.cast 32 .bfalse (.const true 32 0)),
      .repeat_ (.bin .ult (.varl "i") (.varl "u"))
        (.seqn
          [.setl "a" (.bin .add (.varl "a") (.varl "s")),
           .seqn [.setl "h_tmp0" (.varl "i"), .setl "i" (.inc (.varl "i") 32)]])],
   .writeReg "bundle" { opvar := "Rd_op", deref := false } (.varl "a"),
   .branch (.un .nonZero (.varl "a"))
     (.storew (.varl "EA") (.cast 32 .bfalse (.varl "u")))
     .empty]

set_option maxRecDepth 20000 in
/-- the pure side computed; the hybrid side by the theorem (the kernel does not evaluate `String.startsWith` on
    `"h_tmp0"`) -/
example : compileProgH Cfg.asCode heqvDemo5pp = .ok heqvDemo5ppTree := by
  rw [compileProgH_eq_compileProg_asCode heqvDemo5pp (by decide) (by decide)]
  rfl

/-! ## the carve-out of T2 does not imply the side condition -/

/-- `int a = 1 ? x : siV;  int b = siV;` -/
def heqvCex : List CStmt :=
  [.decl ⟨true, 32⟩ "a" (some (.tern (.lit 1 false "") (.var "x" ⟨true, 32⟩) (.imm "s" true))),
   .decl ⟨true, 32⟩ "b" (some (.imm "s" true))]

set_option maxRecDepth 20000 in
/-- `heqvCex` is hybrid-free and in the statement carve-out of T2, but violates the side condition -/
theorem heqvCex_hyps : HybFreeSs heqvCex = true ∧
    CarveSs (CarveE (assignedOfList heqvCex)) { assigned := assignedOfList heqvCex, cfg := Cfg.fixed } heqvCex = true ∧
    HSameProg Cfg.asCode heqvCex = false := by decide

set_option maxRecDepth 20000 in
/-- the hybrid model (as the code: `rm_op_by_name` on the dead arm) sets the immediate twice -/
theorem heqvCex_H : compileProgH Cfg.asCode heqvCex = .ok (.seqn
    [.setl "s" (.imm true 32 "st32" "s"), .setl "s" (.imm true 32 "st32" "s"),
     .setl "a" (.varl "x"), .setl "b" (.varl "s")]) := by rfl

set_option maxRecDepth 20000 in
theorem heqvCex_pure : compileProg Cfg.asCode heqvCex = .ok (.seqn
    [.setl "s" (.imm true 32 "st32" "s"), .setl "a" (.varl "x"), .setl "b" (.varl "s")]) := by rfl

/-- **refuted**: on the T2 carve-out the two models need not agree under `Cfg.asCode` -/
theorem heqvCex_ne : compileProgH Cfg.asCode heqvCex ≠ compileProg Cfg.asCode heqvCex := by
  rw [heqvCex_H, heqvCex_pure]
  intro h
  simp only [Except.ok.injEq, ILEffect.seqn.injEq, List.cons.injEq, ILEffect.setl.injEq] at h
  exact absurd h.2.1.1 (by decide)

set_option maxRecDepth 20000 in
/-- **refuted**: `CarveS (CarveE env.assigned) env s = true → HSameS env s = true` -/
theorem carve_not_imp_HSame :
    ¬ (∀ (env : CEnv) (s : CStmt), CarveS (CarveE env.assigned) env s = true → HSameS env s = true) := by
  intro h
  have := h ⟨[], Cfg.asCode⟩ (.decl ⟨true, 32⟩ "a" (some (.tern (.lit 1 false "") (.var "x" ⟨true, 32⟩) (.imm "s" true))))
    (by decide)
  revert this
  decide

/-- **what the carve-out does give**: part (a) of the side condition (no folded comparison as operand of a foldable
    operator).  With part (b) (`NoDeadVarlProg`: no constant `?:` whose dead arm is a bare variable read) as the
    only additional hypothesis the side condition holds. -/
theorem HSameProg_of_carve (prog : List CStmt) (hfree : HybFreeSs prog = true)
    (hcarve : CarveSs (CarveE (assignedOfList prog)) { assigned := assignedOfList prog, cfg := Cfg.fixed } prog = true)
    (hdead : NoDeadVarlProg Cfg.asCode prog = true) : HSameProg Cfg.asCode prog = true :=
  HSameSs_of_carve { assigned := assignedOfList prog, cfg := Cfg.fixed } prog hfree hcarve hdead

/-- the same per statement, in the form asked for: `CarveS (CarveE env.assigned) env s = true → HSameS env s = true`
    holds for `env.cfg = Cfg.asCode` on hybrid-free statements without a dead bare-variable arm -/
theorem HSameS_of_carve_asCode (env : CEnv) (henv : env.cfg = Cfg.asCode) (s : CStmt) (hfree : HybFreeS s = true)
    (hcarve : CarveS (CarveE env.assigned) env s = true) (hdead : NoDeadVarlS env s = true) : HSameS env s = true := by
  obtain ⟨asg, cfg⟩ := env
  simp only at henv; subst henv
  exact HSameS_of_carve ⟨asg, Cfg.asCode⟩ s hfree hcarve hdead

set_option maxRecDepth 20000 in
/-- the counterexample violates exactly part (b) -/
example : NoDeadVarlProg Cfg.asCode heqvCex = false := by decide

/-! ## witnesses of the other differences -/

/-- difference 1, `-(1 < 2)` under the code's configuration: the hybrid model folds (`isinstance(True, int)`),
    the pure model negates the converted comparison -/
example :
    (compileExprH ⟨[], Cfg.asCode⟩ { imms := [], live := [], hyb := 0, pending := [] }
      (.un "-" (.cmp "<" (.lit 1 false "") (.lit 2 false "")))).toOption.map (·.1.kind) = some (.lit (-1)) ∧
    (compileExpr ⟨[], Cfg.asCode⟩ (.un "-" (.cmp "<" (.lit 1 false "") (.lit 2 false "")))).toOption.map (·.kind)
      = some .plain ∧
    HSame ⟨[], Cfg.asCode⟩ (.un "-" (.cmp "<" (.lit 1 false "") (.lit 2 false ""))) = false ∧
    HSame ⟨[], Cfg.fixed⟩ (.un "-" (.cmp "<" (.lit 1 false "") (.lit 2 false ""))) = true := by decide

/-- difference 1, `1 + (1 < 2)` and `1 == (1 < 2)` -/
example :
    (compileExprH ⟨[], Cfg.asCode⟩ { imms := [], live := [], hyb := 0, pending := [] }
      (.bin "+" (.lit 1 false "") (.cmp "<" (.lit 1 false "") (.lit 2 false "")))).toOption.map (·.1.kind) = some (.lit 2) ∧
    (compileExpr ⟨[], Cfg.asCode⟩ (.bin "+" (.lit 1 false "") (.cmp "<" (.lit 1 false "") (.lit 2 false "")))).toOption.map (·.kind)
      = some .plain ∧
    (compileExprH ⟨[], Cfg.asCode⟩ { imms := [], live := [], hyb := 0, pending := [] }
      (.cmp "==" (.lit 1 false "") (.cmp "<" (.lit 1 false "") (.lit 2 false "")))).toOption.map (·.1.kind) = some (.boolLit true) ∧
    (compileExpr ⟨[], Cfg.asCode⟩ (.cmp "==" (.lit 1 false "") (.cmp "<" (.lit 1 false "") (.lit 2 false "")))).toOption.map (·.kind)
      = some .boolObj := by decide

/-- difference 4: a macro call with more arguments than parameters is rejected by both models, with different texts
    (`HybFree` excludes it) -/
example :
    compileProgH Cfg.fixed [.decl ⟨true, 32⟩ "a" (some (.macro "fabs" [.var "x" ⟨true, 32⟩] ⟨true, 32⟩ []))] = .error "arity" ∧
    compileProg Cfg.fixed [.decl ⟨true, 32⟩ "a" (some (.macro "fabs" [.var "x" ⟨true, 32⟩] ⟨true, 32⟩ []))] = .error "macro arity" ∧
    HybFreeSs [.decl ⟨true, 32⟩ "a" (some (.macro "fabs" [.var "x" ⟨true, 32⟩] ⟨true, 32⟩ []))] = false :=
  ⟨by rfl, by rfl, by decide⟩

/-- the reserved namespace of `HybFree` (`isHTmp`, `String.startsWith`) is the one of the static context
    (`isTmp`, `Ctx.ok`) -/
theorem isHTmp_eq_isTmp (n : String) : isHTmp n = isTmp n := by
  rw [Bool.eq_iff_iff, isHTmp_iff, List.prefix_iff_eq_take]
  simp only [isTmp, beq_iff_eq]
  constructor
  · intro h; exact h.symm
  · intro h; exact h.symm

/-! ## the semantic theorems transferred to the hybrid model -/

open C05 in
/-- **T1 transferred**: `prog_correct_fixed_closed` for `compileProgH Cfg.fixed` on hybrid-free programs (final states:
    `StRel`, which does not relate the immediates, see `C05.prog_correct_fixed`) -/
theorem progH_correct_fixed_closed {ms : MacroSem} (hms : MsOK ms) {c : Ctx} (hc : c.ok = true)
    {prog : List CStmt} {eff : ILEffect} (hfree : HybFreeSs prog = true)
    (hcomp : compileProgH Cfg.fixed prog = .ok eff)
    (himms : ∀ l, l ∈ c.imms ↔ l ∈ progImms prog)
    (hwf : WFStmts c prog = true) (hwfe : (exprsOfList prog).all (WFES c) = true)
    {σ0 σC' : MState} (hloc : σ0.locals = []) (hsrcs : ∀ ov ∈ c.srcs, σ0.written ov = false)
    (hex : ExecCs ms prog σ0 σC') :
    ∃ σIL', ExecIL ms eff σ0 σIL' ∧ StRel σC' σIL' :=
  prog_correct_fixed_closed hms hc (by rw [← compileProgH_eq_compileProg_fixed prog hfree]; exact hcomp)
    himms hwf hwfe hloc hsrcs hex

open C05 in
/-- **T1 + T2 transferred**: `prog_correct_asCode_closed` for `compileProgH Cfg.asCode`.  Two decidable hypotheses
    are added: the program is hybrid-free, and it satisfies the side condition `HSameProg Cfg.asCode` (which the
    carve-out does not imply: `heqvCex_hyps`, `heqvCex_ne`).  Final states: `StRel`, which does not relate the
    immediates, see `C05.prog_correct_fixed`. -/
theorem progH_correct_asCode_closed {ms : MacroSem} (hms : MsOK ms) {c : Ctx} (hc : c.ok = true)
    {prog : List CStmt} {eff : ILEffect}
    (hcarve : CarveSs (CarveE (assignedOfList prog)) { assigned := assignedOfList prog, cfg := Cfg.fixed } prog = true)
    (hfree : HybFreeSs prog = true) (hsame : HSameProg Cfg.asCode prog = true)
    (hcomp : compileProgH Cfg.asCode prog = .ok eff)
    (himms : ∀ l, l ∈ c.imms ↔ l ∈ progImms prog)
    (hwf : WFStmts c prog = true) (hwfe : (exprsOfList prog).all (WFES c) = true)
    {σ0 σC' : MState} (hloc : σ0.locals = []) (hsrcs : ∀ ov ∈ c.srcs, σ0.written ov = false)
    (hex : ExecCs ms prog σ0 σC') :
    ∃ σIL', ExecIL ms eff σ0 σIL' ∧ StRel σC' σIL' :=
  prog_correct_asCode_closed hms hc hcarve
    (by rw [← compileProgH_eq_compileProg_asCode prog hfree hsame]; exact hcomp) himms hwf hwfe hloc hsrcs hex

open C05 in
/-- the same with part (b) of the side condition only (part (a) is implied by the carve-out); final states: `StRel`,
    which does not relate the immediates -/
theorem progH_correct_asCode_closed' {ms : MacroSem} (hms : MsOK ms) {c : Ctx} (hc : c.ok = true)
    {prog : List CStmt} {eff : ILEffect}
    (hcarve : CarveSs (CarveE (assignedOfList prog)) { assigned := assignedOfList prog, cfg := Cfg.fixed } prog = true)
    (hfree : HybFreeSs prog = true) (hdead : NoDeadVarlProg Cfg.asCode prog = true)
    (hcomp : compileProgH Cfg.asCode prog = .ok eff)
    (himms : ∀ l, l ∈ c.imms ↔ l ∈ progImms prog)
    (hwf : WFStmts c prog = true) (hwfe : (exprsOfList prog).all (WFES c) = true)
    {σ0 σC' : MState} (hloc : σ0.locals = []) (hsrcs : ∀ ov ∈ c.srcs, σ0.written ov = false)
    (hex : ExecCs ms prog σ0 σC') :
    ∃ σIL', ExecIL ms eff σ0 σIL' ∧ StRel σC' σIL' :=
  progH_correct_asCode_closed hms hc hcarve hfree (HSameProg_of_carve prog hfree hcarve hdead) hcomp himms hwf hwfe
    hloc hsrcs hex

/-- `int b = a; a = b; a += b; a &= b; if (a) { b = a; } for (i = 0; a; i++) { a = b; }` (the T2 demo of C05) -/
def heqvDemoT2 : List CStmt :=
  [.decl ⟨true, 32⟩ "b" (some (.var "a" ⟨true, 32⟩)),
   .assign (.var "a" ⟨true, 32⟩) "=" (.var "b" ⟨true, 32⟩),
   .assign (.var "a" ⟨true, 32⟩) "+=" (.var "b" ⟨true, 32⟩),
   .assign (.var "a" ⟨true, 32⟩) "&=" (.var "b" ⟨true, 32⟩),
   .ite (.var "a" ⟨true, 32⟩) [.assign (.var "b" ⟨true, 32⟩) "=" (.var "a" ⟨true, 32⟩)] none,
   .for_ "i" (.var "a" ⟨true, 32⟩) 0 [.assign (.var "a" ⟨true, 32⟩) "=" (.var "b" ⟨true, 32⟩)]]

def heqvDemoT2Ctx : Ctx := { types := [("a", ⟨true, 32⟩), ("b", ⟨true, 32⟩), ("i", ⟨false, 32⟩)], imms := [], srcs := [] }

set_option maxRecDepth 20000 in
/-- the decidable hypotheses of `progH_correct_asCode_closed` hold for `heqvDemoT2` -/
example : heqvDemoT2Ctx.ok = true ∧
    CarveSs (CarveE (assignedOfList heqvDemoT2)) { assigned := assignedOfList heqvDemoT2, cfg := Cfg.fixed } heqvDemoT2 = true ∧
    HybFreeSs heqvDemoT2 = true ∧ HSameProg Cfg.asCode heqvDemoT2 = true ∧ NoDeadVarlProg Cfg.asCode heqvDemoT2 = true ∧
    WFStmts heqvDemoT2Ctx heqvDemoT2 = true ∧ (exprsOfList heqvDemoT2).all (WFES heqvDemoT2Ctx) = true := by decide

end Rzil
