import RzilVerif.Lemmas.ExprFold
import RzilVerif.Props.C02
/-!
# C09 — compile-time evaluation (constant folding)

* `normInt_spec` (in `Lemmas/ExprBits.lean`): `BitVec.ofInt w (normInt t v) = BitVec.ofInt w v`; `normInt_inRange`,
  `normInt_of_inRange`.
* `fold_sound_fixed`: whatever the repaired lowering reports as a folded literal (`PKind.lit r` / `PKind.boolLit r`)
  IS the C value of the expression, in the C type of the expression.
* `fold_un_sound`, `fold_bin_sound`, `fold_cmp_sound`, `fold_tern_sound`: at each of the four folding sites the folded
  result evaluates to the same value, and has the same type, as the unfolded run-time evaluation.
* `fold_asCode_eq_fixed_*` under `FoldSafe*`: where the code's folding (on unbounded Python integers, types by
  suffix only) coincides with the repaired one; T3 witnesses for each excluded class.
-/
namespace Rzil

/-! ## soundness of the folded results (repaired lowering) -/

/-- **C09** a reported literal is the C value: if the lowering of `e` is a `Number` of value `r`, then `e` evaluates
    in C to `r` (in the type of `e`, in whose range `r` lies), and the IL is the constant `r` of that type. -/
theorem fold_sound_fixed (ms : MacroSem) (σ : MState) (asg : List String) (e : CExpr) (vC : Val) (ce : CE) (r : Int)
    (hms : MsOK ms) (hwf : WFE σ e = true) (hC : evalC ms σ e = .ok vC)
    (hI : compileExpr ⟨asg, Cfg.fixed⟩ e = .ok ce) (hk : ce.kind = .lit r) :
    ce.il = .const ce.ty.signed ce.ty.width r ∧ vtCT ce.ty = typeOfC e ∧
    vC = .bv (typeOfC e).width (BitVec.ofInt (typeOfC e).width r) ∧
    InRangeI (typeOfC e).signed (typeOfC e).width r ∧
    evalPure ms σ [] ce.il = .ok vC := by
  have hs := (good_all ms σ asg hms e hwf vC ce hC hI).1
  obtain ⟨x, hx⟩ := hs.bv
  subst hx
  obtain ⟨hf, ht, hw, hr, hxv, hil⟩ := hs.lit_inv hk
  obtain ⟨-, hev, -⟩ := hs.int_inv hf
  exact ⟨hil, ht, by rw [hxv], hr, hev⟩

/-- …and a folded comparison (`Bool` object) is the C truth value -/
theorem fold_sound_fixed_bool (ms : MacroSem) (σ : MState) (asg : List String) (e : CExpr) (vC : Val) (ce : CE) (r : Bool)
    (hms : MsOK ms) (hwf : WFE σ e = true) (hC : evalC ms σ e = .ok vC)
    (hI : compileExpr ⟨asg, Cfg.fixed⟩ e = .ok ce) (hk : ce.kind = .boolLit r) :
    ce.il = (if r then .btrue else .bfalse) ∧ vC = .bv 32 (if r then 1 else 0) := by
  have hs := (good_all ms σ asg hms e hwf vC ce hC hI).1
  have hko := hs.kindOK
  simp only [KindOK, hk] at hko
  refine ⟨hko.1, ?_⟩
  cases hs with
  | int x hf => rw [hf] at hko; cases hko.2
  | bool b hf hw hs' ht hev hv hk' =>
    rw [hko.1] at hev
    rw [hv]
    cases b <;> cases r <;> simp_all [evalPure, boolVal]

/-- non-vacuity: `-(1 + 2)` folds to −3 -/
example : ∃ ce, compileExpr ⟨[], Cfg.fixed⟩ (.un "-" (.bin "+" (.lit 1 false "") (.lit 2 false ""))) = .ok ce ∧ ce.kind = .lit (-3) := by
  refine ⟨_, by simp [compileExpr_un, compileExpr_bin, compileExpr_lit, bind, Except.bind, cfgsimp, binBody, foldBin]; rfl, ?_⟩
  simp [unOfCE, litTypeC, CT.toVT, VT.c11Cast, VT.promoted, cfgsimp, normInt]

/-! ## the four folding sites: folded = unfolded run-time evaluation -/

/-- site 1, unary `-`/`~` of a literal -/
theorem fold_un_sound {ms σ ce te v0} {x : BitVec te.width} (op : String) (hs : Sim ms σ ce te (.bv te.width x))
    (hk : ce.kind = .lit v0) :
    evalPure ms σ [] (unOfCE Cfg.fixed op ce).il = evalPure ms σ [] (unRun Cfg.fixed op ce).il ∧
    vtCT (unOfCE Cfg.fixed op ce).ty = vtCT (unRun Cfg.fixed op ce).ty := by
  have h1 := sim_unFold op hs hk
  have h2 := sim_unRun op hs
  exact h1.1.agree h2.1 (by rw [h1.2, h2.2])

/-- site 2, `+ - *` of two literals: the folded `Number` equals what `compileBin` (promotion, usual arithmetic
    conversions, run-time operator) computes -/
theorem fold_bin_sound {ms σ asg op ca cb ta tb va vb cr vC} {x : BitVec ta.width} {y : BitVec tb.width}
    (ha : Sim ms σ ca ta (.bv ta.width x)) (hb : Sim ms σ cb tb (.bv tb.width y))
    (hka : ca.kind = .lit va) (hkb : cb.kind = .lit vb)
    (hop : (op == "+" || op == "-" || op == "*") = true)
    (hrun : compileBin ⟨asg, Cfg.fixed⟩ op ca cb = .ok cr)
    (hC : binC op (.bv (ta.common tb).width (convBits ta (ta.common tb) x))
                  (.bv (ta.common tb).width (convBits tb (ta.common tb) y)) = .ok vC) :
    evalPure ms σ [] (foldBin Cfg.fixed op ca cb va vb).il = evalPure ms σ [] cr.il ∧
    vtCT (foldBin Cfg.fixed op ca cb va vb).ty = vtCT cr.ty := by
  have h1 := foldBin_good ha hb hka hkb hop hC
  have h2 := compileBin_good ha hb hrun hC
  exact h1.1.agree h2.1 (by rw [h1.2, h2.2])

/-- site 3, a comparison of two literals -/
theorem fold_cmp_sound {ms σ ca cb ta tb va0 vb0} {x : BitVec ta.width} {y : BitVec tb.width} (op : String)
    (hsa : Sim ms σ ca ta (.bv ta.width x)) (hsb : Sim ms σ cb tb (.bv tb.width y))
    (hka : ca.kind = .lit va0) (hkb : cb.kind = .lit vb0) :
    evalPure ms σ [] (foldCmp Cfg.fixed op ca cb va0 vb0).il = evalPure ms σ [] (cmpOfCE Cfg.fixed op ca cb).il ∧
    vtCT (foldCmp Cfg.fixed op ca cb va0 vb0).ty = vtCT (cmpOfCE Cfg.fixed op ca cb).ty :=
  (sim_cmpFold op hsa hsb hka hkb).agree (sim_cmpRun op hsa hsb) rfl

/-- site 4, `?:` with a constant condition: the selected arm, converted to the common type of BOTH arms -/
theorem fold_tern_sound {ms σ cc ca cb tc ta tb vc bc} {x : BitVec ta.width} {y : BitVec tb.width}
    (hsc : Sim ms σ cc tc vc) (hbc : truthy vc = .ok bc)
    (hsa : Sim ms σ ca ta (.bv ta.width x)) (hsb : Sim ms σ cb tb (.bv tb.width y))
    (hk : (∃ v, cc.kind = .lit v) ∨ (∃ r, cc.kind = .boolLit r)) :
    evalPure ms σ [] (ternOfCE Cfg.fixed cc ca cb).il = evalPure ms σ [] (ternRun Cfg.fixed cc ca cb).il ∧
    vtCT (ternOfCE Cfg.fixed cc ca cb).ty = vtCT (ternRun Cfg.fixed cc ca cb).ty := by
  have h1 := sim_ternFold hsc hbc hsa hsb hk
  have h2 := sim_ternRun hsc hbc hsa hsb
  exact h1.1.agree h2.1 (by rw [h1.2, h2.2])

/-- non-vacuity of the site theorems: a literal operand satisfies `Sim` with its kind `lit` -/
example (ms : MacroSem) (σ : MState) :
    Sim ms σ { il := numberIL ⟨true, 32, 1⟩ 5, ty := ⟨true, 32, 1⟩, kind := .lit 5 } ⟨true, 32⟩ (.bv 32 5) :=
  Sim.int (t := ⟨true, 32⟩) 5 (by decide) rfl (by simp [numberIL, evalPure]) rfl
    (by simp only [KindOK, numberIL, true_and]; exact ⟨by decide, by decide, by decide⟩)

/-! ## T2 for folding: where the code's folding equals the repaired one -/

/-- unary: the literal is in the range of its (promoted) type, unary minus only on a signed literal, result in range -/
def FoldSafeUn (op : String) (ce : CE) : Bool := unSafe op ce
/-- `+ - *`: both literals and the result are in the range of the common type -/
def FoldSafeBin (op : String) (ca cb : CE) (va vb : Int) : Bool :=
  inRangeVT (VT.c11Cast ca.ty cb.ty).1 va && inRangeVT (VT.c11Cast ca.ty cb.ty).1 vb &&
  inRangeVT (VT.c11Cast ca.ty cb.ty).1 (if op == "+" then va + vb else if op == "-" then va - vb else va * vb)
/-- comparison: both literals are in the range of the common type (e.g. literals of the same type) -/
def FoldSafeCmp (ca cb : CE) (va vb : Int) : Bool :=
  inRangeVT (VT.c11Cast ca.ty cb.ty).1 va && inRangeVT (VT.c11Cast ca.ty cb.ty).1 vb
/-- constant `?:`: both arms at least `int` wide and of equal type -/
def FoldSafeTern (ca cb : CE) : Bool := decide (32 ≤ ca.ty.width) && decide (32 ≤ cb.ty.width) && ca.ty.eqv cb.ty

theorem fold_asCode_eq_fixed_un (op : String) (ce : CE) (h : FoldSafeUn op ce = true) :
    unOfCE Cfg.asCode op ce = unOfCE Cfg.fixed op ce := unOfCE_asCode_eq_fixed op ce h

theorem fold_asCode_eq_fixed_bin (op : String) (ca cb : CE) (va vb : Int) (h : FoldSafeBin op ca cb va vb = true) :
    foldBin Cfg.asCode op ca cb va vb = foldBin Cfg.fixed op ca cb va vb := foldBin_asCode_eq_fixed op ca cb va vb h

theorem fold_asCode_eq_fixed_cmp (op : String) (ca cb : CE) (va vb : Int) (h : FoldSafeCmp ca cb va vb = true) :
    foldCmp Cfg.asCode op ca cb va vb = foldCmp Cfg.fixed op ca cb va vb := foldCmp_asCode_eq_fixed op ca cb va vb h

theorem fold_asCode_eq_fixed_tern (cc ca cb : CE) (hk : (∃ v, cc.kind = .lit v) ∨ (∃ r, cc.kind = .boolLit r))
    (h : FoldSafeTern ca cb = true) :
    ternOfCE Cfg.asCode cc ca cb = ternOfCE Cfg.fixed cc ca cb := by
  have hs : ternSafe (.imm "" false) cc ca cb = true := by
    unfold ternSafe
    rcases hk with ⟨v, hk⟩ | ⟨r, hk⟩ <;> simp only [hk] <;> exact liveKeepsTy_of_eqv _ h
  have := ternOfCE_asCode_eq_fixed (.imm "" false) cc ca cb hs
  rw [normTy_of_not rfl] at this
  exact this.symm

/-- constant `?:`, widened (branch `carve-wider`): both arms at least `int` wide and the LIVE arm (`first`: the first
    one) already of the common type of both — `(8 != 0) ? extract64(x, 0, 8) : 0LL` (live `uint64_t`, dead `int64_t`) -/
def FoldSafeTernLive (first : Bool) (ca cb : CE) : Bool := liveKeepsTy first ca cb

/-- which arm a constant condition selects -/
def liveFirst (cc : CE) : Bool :=
  match cc.kind with
  | .lit v => v != 0
  | .boolLit r => r
  | _ => true

theorem fold_asCode_eq_fixed_tern_live (cc ca cb : CE) (hk : (∃ v, cc.kind = .lit v) ∨ (∃ r, cc.kind = .boolLit r))
    (h : FoldSafeTernLive (liveFirst cc) ca cb = true) :
    ternOfCE Cfg.asCode cc ca cb = ternOfCE Cfg.fixed cc ca cb := by
  have hs : ternSafe (.imm "" false) cc ca cb = true := by
    unfold ternSafe
    unfold FoldSafeTernLive liveFirst at h
    rcases hk with ⟨v, hk⟩ | ⟨r, hk⟩ <;> simp only [hk] at h ⊢ <;> exact h
  have := ternOfCE_asCode_eq_fixed (.imm "" false) cc ca cb hs
  rw [normTy_of_not rfl] at this
  exact this.symm

/-- the old side condition implies the widened one -/
theorem foldSafeTernLive_of_foldSafeTern (first : Bool) {ca cb : CE} (h : FoldSafeTern ca cb = true) :
    FoldSafeTernLive first ca cb = true := liveKeepsTy_of_eqv first h

/-- **C09 T2** at the level of expressions: `FoldSafe` is the restriction of the carve-out `CarveE` (C02) to the
    folding sites — literal values in range of their suffix-only type = their C11 type (`litTypeCode = litTypeC`),
    unary minus only on signed literals, no wrapping (`inRangeVT`), comparisons of literals in range of the common
    type, constant `?:` whose arms have equal types at least `int` wide. -/
def FoldSafe (asg : List String) (e : CExpr) : Bool := CarveE asg e

theorem fold_asCode_eq_fixed (env : CEnv) (e : CExpr) (h : FoldSafe env.assigned e = true) :
    compileExpr { env with cfg := Cfg.asCode } e = compileExpr { env with cfg := Cfg.fixed } e :=
  expr_asCode_eq_fixed env e h

/-- literals: the suffix-only type is the C11 type -/
theorem fold_asCode_eq_fixed_lit (env : CEnv) (v : Nat) (h : Bool) (sfx : String) (hs : litTypeCode sfx = litTypeC v h sfx) :
    compileExpr { env with cfg := Cfg.asCode } (.lit v h sfx) = compileExpr { env with cfg := Cfg.fixed } (.lit v h sfx) := by
  simp only [compileExpr_lit, cfgsimp, if_true, Bool.false_eq_true, if_false, hs]

example : FoldSafeBin "+" { il := .btrue, ty := ⟨true, 32, 1⟩, kind := .lit 1 } { il := .btrue, ty := ⟨true, 32, 1⟩, kind := .lit 2 } 1 2 = true := by
  decide
example : FoldSafeUn "-" { il := .btrue, ty := ⟨true, 32, 1⟩, kind := .lit 1 } = true := by decide
example : FoldSafeCmp { il := .btrue, ty := ⟨true, 32, 1⟩, kind := .lit 1 } { il := .btrue, ty := ⟨true, 32, 1⟩, kind := .lit 2 } 1 2 = true := by
  decide
example : FoldSafeTern { il := .btrue, ty := ⟨true, 32, 1⟩, kind := .plain } { il := .btrue, ty := ⟨true, 32, 1⟩, kind := .lit 2 } = true := by
  decide
example : litTypeCode "" = litTypeC 5 false "" := by decide

/-- whole expressions: T2 of C02 (`expr_asCode_eq_fixed`) applies; literal arithmetic within range is carved in -/
example : CarveE [] (.bin "+" (.un "-" (.lit 1 false "")) (.bin "*" (.lit 3 false "") (.lit 4 false "LL"))) = true := by decide
example : CarveE [] (.tern (.cmp "<" (.lit 1 false "") (.lit 2 false "")) (.lit 3 false "") (.lit 4 false "")) = true := by decide

/-! ## T3: witnesses for each excluded class -/
namespace T3
open Rzil.T3

/-- `0x100000000` unsuffixed: `long long` in C (value 2³²), a 32-bit `st32` of value 0 for the code -/
theorem lit_big_C (ms σ) : evalC ms σ (.lit 0x100000000 true "") = .ok (.bv 64 0x100000000) := by
  have h : litTypeC 0x100000000 true "" = ⟨true, 64⟩ := by decide
  rw [evalC_lit, h]; rfl
theorem lit_big_asCode (ms σ) : ∃ ce, compileExpr (A []) (.lit 0x100000000 true "") = .ok ce ∧
    evalPure ms σ [] ce.il = .ok (.bv 32 0) := by
  refine ⟨_, by simp [A, compileExpr_lit, cfgsimp]; rfl, ?_⟩
  simp [numberIL, evalPure, litTypeCode, CT.toVT]

/-- `-1U`: `UINT_MAX` (unsigned) in C; the code folds to the signed literal −1 (type `st32`) -/
def eNegU := CExpr.un "-" (.lit 1 false "U")
theorem negU_carved : CarveE [] eNegU = false := by decide
theorem negU_C_type : typeOfC eNegU = ⟨false, 32⟩ := by decide
theorem negU_asCode_type : ∃ ce, compileExpr (A []) eNegU = .ok ce ∧ ce.ty.signed = true ∧ ce.kind = .lit (-1) := by
  refine ⟨_, by simp [A, eNegU, compileExpr_un, compileExpr_lit, bind, Except.bind, cfgsimp]; rfl, ?_⟩
  simp [unOfCE, litTypeCode, CT.toVT, VT.promoted, cfgsimp]
theorem negU_fixed_type : ∃ ce, compileExpr (F []) eNegU = .ok ce ∧ ce.ty.signed = false ∧ ce.kind = .lit 4294967295 := by
  refine ⟨_, by simp [F, eNegU, compileExpr_un, compileExpr_lit, bind, Except.bind, cfgsimp]; rfl, ?_⟩
  simp [unOfCE, litTypeC, CT.toVT, VT.promoted, cfgsimp, normInt]

/-- `-1 < 1U`: false in C (−1 converts to `UINT_MAX`); the code compares the Python integers: true -/
def eCmpMixed := CExpr.cmp "<" (.un "-" (.lit 1 false "")) (.lit 1 false "U")
theorem cmpMixed_carved : CarveE [] eCmpMixed = false := by decide
theorem cmpMixed_asCode : ∃ ce, compileExpr (A []) eCmpMixed = .ok ce ∧ ce.il = .btrue := by
  refine ⟨_, by simp [A, eCmpMixed, compileExpr_cmp, compileExpr_un, compileExpr_lit, bind, Except.bind, cfgsimp]; rfl, ?_⟩
  simp [cmpBody, foldCmp, unOfCE, litTypeCode, CT.toVT, VT.promoted, cfgsimp]
theorem cmpMixed_fixed : ∃ ce, compileExpr (F []) eCmpMixed = .ok ce ∧ ce.il = .bfalse := by
  refine ⟨_, by simp [F, eCmpMixed, compileExpr_cmp, compileExpr_un, compileExpr_lit, bind, Except.bind, cfgsimp]; rfl, ?_⟩
  simp [cmpBody, foldCmp, unOfCE, litTypeC, CT.toVT, VT.promoted, VT.c11Cast, cfgsimp, normInt]
theorem cmpMixed_C (ms σ) : evalC ms σ eCmpMixed = .ok (.bv 32 0) := by
  simp [eCmpMixed, evalC_cmp, evalC_un, evalC_lit, bind, Except.bind, convC, convBits, litTypeC, typeOfC, CT.common,
    CT.promote, cmpVals, cmpC, boolVal]
  decide

/-- `1 ? RsV : 1ULL`: C converts the live arm `RsV` (int) to `unsigned long long`; the code returns it as it is -/
def eTernConst := CExpr.tern (.lit 1 false "") rs (.lit 1 false "ULL")
theorem ternConst_carved : CarveE [] eTernConst = false := by decide
theorem ternConst_C_type : typeOfC eTernConst = ⟨false, 64⟩ := by decide
theorem ternConst_asCode_type : ∃ ce, compileExpr (A []) eTernConst = .ok ce ∧ ce.ty = ⟨true, 32, 1⟩ := by
  refine ⟨_, by simp [A, eTernConst, rs, compileExpr_tern, compileExpr_reg, compileExpr_lit, bind, Except.bind, cfgsimp]; rfl, ?_⟩
  simp [ternOfCE, cfgsimp, regVT, s32, CT.toVT]
theorem ternConst_fixed_type : ∃ ce, compileExpr (F []) eTernConst = .ok ce ∧ ce.ty = ⟨false, 64, 1⟩ := by
  refine ⟨_, by simp [F, eTernConst, rs, compileExpr_tern, compileExpr_reg, compileExpr_lit, bind, Except.bind, cfgsimp]; rfl, ?_⟩
  simp [ternOfCE, cfgsimp, regVT, s32, CT.toVT, litTypeC, promotionCast, VT.promoted, castOperands, VT.eqv, VT.c11Cast,
    initACast, VT.hasFlag, VT.gBOOL]

end T3
end Rzil
