import RzilVerif.Model.Compile
/-!
# C09 — compile-time evaluation (first version; the fold-soundness theorems are being proved separately)
-/
namespace Rzil

/-- C11 6.4.4.1 versus the code's suffix-only typing: they agree on small literals … -/
theorem litType_agree_small (v : Nat) (hex : Bool) (h : v < 2 ^ 31) : litTypeC v hex "" = litTypeCode "" := by
  simp [litTypeC, litTypeCode, h]

/-- … and differ on an unsuffixed literal that does not fit `int` (known finding). -/
example : litTypeC 0x100000000 true "" = ⟨true, 64⟩ ∧ litTypeCode "" = ⟨true, 32⟩ := by decide
example : litTypeC 0xffffffff true "" = ⟨false, 32⟩ ∧ litTypeC 4294967295 false "" = ⟨true, 64⟩ := by decide

/-- `normInt` is the identity on values already in range (unsigned). -/
example : normInt ⟨false, 32, 1⟩ 5 = 5 ∧ normInt ⟨false, 32, 1⟩ (-1) = 4294967295 ∧ normInt ⟨true, 32, 1⟩ 4294967295 = -1 := by decide

end Rzil
