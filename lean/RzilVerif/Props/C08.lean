import RzilVerif.Model.CompileH
/-!
# C08 — first version: facts about the hybrid machinery of the lowering model (full theorems in progress)
-/
namespace Rzil

/-- Popping never invents entries: what is popped was pending. -/
theorem popPending_nil_C08 (leaves : List String) : popPending [] leaves = ([], []) := by
  induction leaves with
  | nil => rfl
  | cons l ls ih =>
    simp only [popPending, List.foldl_cons, List.find?_nil] at ih ⊢
    exact ih

/-- A postfix hybrid sets its temporary BEFORE executing (old value), a call AFTER (return value). -/
example : (Pend.render { tmp := "h_tmp0", deps := [], exec := .setl "i" (.inc (.varl "i") 32), setTmp := .setl "h_tmp0" (.varl "i"), setFirst := true, gcc := false })
    = .seqn [.setl "h_tmp0" (.varl "i"), .setl "i" (.inc (.varl "i") 32)] := rfl
example : (Pend.render { tmp := "h_tmp0", deps := [], exec := .call "hex_f" [], setTmp := .setl "h_tmp0" (.unsigned 32 (.varl "ret_val")), setFirst := false, gcc := false })
    = .seqn [.call "hex_f" [], .setl "h_tmp0" (.unsigned 32 (.varl "ret_val"))] := rfl

end Rzil
