import RzilVerif.Lemmas.CallSim
import RzilVerif.Lemmas.CallNest
/-!
# C08 — sub-routine calls

Property: "A call to a registered sub-routine behaves like the C call: each value argument is converted to its
parameter type, register/packet/enum arguments are passed through as operands, the callee's compiled body computes
what its C source computes, and the caller receives the return value converted to the declared return type.  Apart
from its return value and its by-reference register operands the callee changes nothing the caller can observe - in
particular it never overwrites a caller variable or a caller temporary that is still live - and this holds for
nested calls and for sub-routines registered through the public API at any time."

What is proved here, on the lowering model `compileExprH`/`compileArgsH` (`Model/CompileH.lean`), the IL semantics
`execIL` (`Model/ILSem.lean`) and the C semantics `evalCH` (`Model/CSemH.lean`):

1. `args_length`, `args_converted`        — argument conversion (repaired lowering `Cfg.fixed`).
2. `call_entry`, `return_value_IL`, `return_value_C`, `return_value_agree`, `return_roundtrip`, `return_stmt_IL`,
   `return_then_read`                      — the pending entry of a call and the return conversion.
3. `frame`, `frame_locals`, `call_preserves_disjoint_locals`, `call_restores_params`, `call_regs_mem`, `C_call_isolates`
                                           — isolation, the part that HOLDS: nothing outside the syntactic footprint
                                             `writes`/`writtenLocals` (`Model/CallFrame.lean`) changes.
4. `witness_IL`, `witness_C`, `witness_not_disjoint`, `witness_ret_val_clobbered`, `call_value_protected`,
   `later_call_tmp_ne`                     — isolation, the part that is VIOLATED (flat namespace): a callee body that
                                             sets `h_tmp0` overwrites the caller's live temporary; what IS protected.
5. `callEntry_pulls`, `nested_call`        — nested calls: render order.
6. `call_correct_builtin`, `call_correct_sub` (instances `clz32_call_correct`, `id32_call_correct`) — end-to-end simulation of a call with side-effect free arguments, the
                                             callee's body assumed to simulate its C meaning.
-/
namespace Rzil

/-- Popping never invents entries: what is popped was pending. -/
theorem popPending_nil_C08 (leaves : List String) : popPending [] leaves = ([], []) := by
  induction leaves with
  | nil => rfl
  | cons l ls ih =>
    simp only [popPending, List.foldl_cons, List.find?_nil] at ih ⊢
    exact ih

namespace C08

open C05 (Sim)

/-! ## fixtures for the non-vacuity examples and the witnesses -/

def u32 : CT := ⟨false, 32⟩
def u64 : CT := ⟨false, 64⟩
def envF : CEnv := { assigned := [], cfg := Cfg.fixed }
def st0 : HSt := { imms := [], live := [], hyb := 0, pending := [] }
def noMacros : MacroSem := fun _ _ => none

def isOk {ε α : Type} : Except ε α → Bool
  | .ok _ => true
  | .error _ => false

theorem isOk_elim {ε α : Type} {x : Except ε α} (h : isOk x = true) : ∃ a, x = .ok a := by
  cases x with
  | ok a => exact ⟨a, rfl⟩
  | error e => simp [isOk] at h

def finalLocal (n : String) : Except Stuck MState → Option Val
  | .ok σ => lookupS n σ.locals
  | .error _ => none

/-- one normalisation step of the bundled `clz32` -/
def clzStep (m : Int) (k : Int) : ILEffect :=
  .branch (.bin .ule (.varl "clz32_x") (.const false 32 m))
    (.seqn [.setl "clz32_n" (.bin .add (.varl "clz32_n") (.const false 32 k)),
            .setl "clz32_x" (.bin .shiftl0 (.varl "clz32_x") (.const false 32 k))])
    .empty

/-- The compiled body of the bundled `clz32` (`Resources/Hexagon/sub_routines.json`; hand-transcribed in the shape the
    compiler emits): the parameter is a borrowed pure, the result goes to `ret_val`, and the postfix increment
    `clz32_n++` of its last step is a hybrid of the BODY's own transformer, i.e. it sets `h_tmp0`. -/
def clz32Body : ILEffect :=
  .seqn [
    .setl "clz32_x" (.param "t"),
    .branch (.bin .eq (.varl "clz32_x") (.const false 32 0))
      (.setl "ret_val" (.const false 64 32))
      (.seqn [
        .setl "clz32_n" (.const false 32 0),
        clzStep 0x0000ffff 16, clzStep 0x00ffffff 8, clzStep 0x0fffffff 4, clzStep 0x3fffffff 2,
        .branch (.bin .ule (.varl "clz32_x") (.const false 32 0x7fffffff))
          (.seqn [.setl "h_tmp0" (.varl "clz32_n"), .setl "clz32_n" (.inc (.varl "clz32_n") 32)])
          .empty,
        .setl "ret_val" (.cast 64 .bfalse (.varl "clz32_n"))])]

def wSubs : SubEnv := [("clz32", (["t"], clz32Body))]

/-- a state with `a = 0x10000` (15 leading zeros) and `b = 1` (31 leading zeros) -/
def σ0 : MState := { (default : MState) with locals := [("a", .bv 32 0x00010000), ("b", .bv 32 1)] }

/-- a variable bound to a value of its type is a good argument (`ArgsOK` is satisfiable) -/
theorem argsOK_var {ms : MacroSem} {csubs : CSubEnv} {env : CEnv} {σ : MState} {n : String} {t : CT}
    {x : BitVec t.width} {as : List CExpr} {vs : List Val}
    (hl : lookupS n σ.locals = some (.bv t.width x)) (hrest : ArgsOK ms csubs env σ as vs) :
    ArgsOK ms csubs env σ (.var n t :: as) (.bv t.width x :: vs) := by
  refine ArgsOK.cons ⟨1, ?_⟩ ?_ hrest
  · intro f hf
    obtain ⟨f', rfl⟩ : ∃ f', f = f' + 1 := ⟨f - 1, by omega⟩
    rw [evalCH]
    simp only [hl]
  · intro st ce st' h
    simp only [compileExprH, compileExpr, bind, Except.bind] at h
    injection h with h; injection h with h _; subst h
    exact C05.Sim.of_bv (t := t) (by simp [CT.toVT, VT.hasFlag, VT.gBOOL]) (by simp only [evalPure, hl]) rfl rfl

theorem argsOK_a : ArgsOK noMacros [] envF σ0 [.var "a" u32] [.bv 32 0x00010000] :=
  argsOK_var (t := u32) (by decide) ArgsOK.nil

/-! ## 1. argument conversion -/

/-- **C08.1a** one compiled argument per argument; compilation fails ("arity") if there are fewer parameters. -/
theorem args_length {env : CEnv} {st st' : HSt} {args : List CExpr} {params : List CT} {ils : List ILPure}
    (h : compileArgsH env st args params = .ok (ils, st')) :
    ils.length = args.length ∧ args.length ≤ params.length :=
  compileArgsH_length h

example : compileArgsH envF st0 [.var "a" u32] [u64] = .ok ([.cast 64 .bfalse (.varl "a")], st0) := rfl

/-- **C08.1b** Under the repaired lowering, if every argument's compiled form simulates its C value (`ArgsOK`:
    hybrid-free arguments), the compiled arguments evaluate (`evalPures`) to exactly the values
    `convC (typeOfC a) p v` that `evalCHArgs` passes to the callee (`convArgs` spells them out).
    Side condition: no parameter is 1 bit wide (`sim_convTo`). -/
theorem args_converted {ms : MacroSem} {csubs : CSubEnv} {env : CEnv} {σ : MState} (hcfg : env.cfg = Cfg.fixed)
    {args : List CExpr} {vCs : List Val} (hargs : ArgsOK ms csubs env σ args vCs)
    {st st' : HSt} {params : List CT} {ils : List ILPure}
    (hc : compileArgsH env st args params = .ok (ils, st')) (hp : ∀ p ∈ params, p.width ≠ 1) :
    ∃ vs, convArgs args params vCs = .ok vs ∧ evalPures ms σ [] ils = .ok vs ∧
      ∃ F, ∀ f, F ≤ f → evalCHArgs ms csubs f σ args params = .ok (vs, σ) :=
  compileArgsH_sim hcfg hargs hc hp

/-- non-vacuity: `f(a)` with `uint32_t a`, parameter type `uint64_t` -/
example : envF.cfg = Cfg.fixed ∧ ArgsOK noMacros [] envF σ0 [.var "a" u32] [.bv 32 0x00010000] ∧
    compileArgsH envF st0 [.var "a" u32] [u64] = .ok ([.cast 64 .bfalse (.varl "a")], st0) ∧
    (∀ p ∈ [u64], p.width ≠ 1) :=
  ⟨rfl, argsOK_a, rfl, by decide⟩

/-! ## 2. the entry of a call and the return conversion -/

/-- **C08.2a** The `.call` case creates one pending entry `P = callEntry st1 name cargs ret`, the last of the list:
    it calls `hex_<name>` on the compiled arguments, THEN sets its fresh temporary to
    `SIGNED/UNSIGNED(ret.width, VARL "ret_val")` (chosen by the signedness of the return type); the consumer gets
    `VARL h_tmpN`, typed with the declared return type. -/
theorem call_entry {env : CEnv} {st st' : HSt} {name : String} {args : List CExpr} {ret : CT} {params : List CT} {ce : CE}
    (h : compileExprH env st (.call name args ret params) = .ok (ce, st')) :
    ∃ (cargs : List ILPure) (st1 : HSt) (P : Pend) (rest : List Pend),
      compileArgsH env st args params = .ok (cargs, st1) ∧ P = callEntry st1 name cargs ret ∧
      st'.pending = rest ++ [P] ∧ rest = (popPending st1.pending (tmpsOfPures cargs)).2 ∧ st'.hyb = st1.hyb + 1 ∧
      P.tmp = tmpName st1.hyb ∧
      P.exec = .call ("hex_" ++ name) cargs ∧
      P.setTmp = .setl P.tmp (if ret.signed then .signed ret.width (.varl "ret_val")
                              else .unsigned ret.width (.varl "ret_val")) ∧
      P.setFirst = false ∧
      P.render = mkSeq (P.deps ++ [.seqn [P.exec, P.setTmp]]) ∧
      ce.il = .varl P.tmp ∧ ce.ty = ret.toVT := by
  obtain ⟨cargs, st1, h1, rfl, rfl⟩ := compileExprH_call h
  exact ⟨cargs, st1, _, _, h1, rfl, rfl, rfl, rfl, rfl, rfl, rfl, rfl, rfl, rfl, rfl⟩

example : ∃ ce st', compileExprH envF st0 (.call "clz32" [.var "a" u32] u32 [u32]) = .ok (ce, st') :=
  ⟨_, _, compileExprH_call_of (show compileArgsH envF st0 [.var "a" u32] [u32] = .ok ([.varl "a"], st0) from rfl)⟩

/-- **C08.2b** IL side: if the callee left `ret_val ↦ bv 64 r`, executing `setTmp` leaves
    `h_tmpN ↦ bv ret.width (r truncated)` (return types of at most 64 bit), changes no other local, and the value
    handed to the consumer simulates that C value at the return type. -/
theorem return_value_IL {ms : MacroSem} {subs : SubEnv} {f : Nat} {σ : MState} (st1 : HSt) (name : String)
    (cargs : List ILPure) (ret : CT) {r : BitVec 64} (h : lookupS "ret_val" σ.locals = some (.bv 64 r))
    (hw : ret.width ≤ 64) :
    ∃ σ', execIL ms subs (f+1) (callEntry st1 name cargs ret).setTmp σ = .ok σ' ∧
      lookupS (tmpName st1.hyb) σ'.locals = some (.bv ret.width (BitVec.ofNat ret.width r.toNat)) ∧
      (∀ n, n ≠ tmpName st1.hyb → lookupS n σ'.locals = lookupS n σ.locals) ∧
      Sim ms σ' { il := .varl (tmpName st1.hyb), ty := ret.toVT, kind := .plain } ret
        (.bv ret.width (BitVec.ofNat ret.width r.toNat)) := by
  refine ⟨_, exec_setTmp st1 name cargs ret h, ?_, ?_, ?_⟩
  · rw [convBits_trunc _ _ _ hw]; exact C05.lookupS_setLocal_self _ _ _
  · intro n hn; exact C05.lookupS_setLocal_ne hn _ _
  · rw [convBits_trunc _ _ _ hw]; exact sim_callValue _ _ _

example : lookupS "ret_val" ({ σ0 with locals := [("ret_val", .bv 64 15)] } : MState).locals = some (.bv 64 15) ∧
    u32.width ≤ 64 := ⟨by decide, by decide⟩

/-- **C08.2c** C side: a bundled routine yields `bv ret.width (ofNat ret.width …)`; the state is the one after the arguments. -/
theorem return_value_C {ms : MacroSem} {csubs : CSubEnv} {f : Nat} {σ σ' : MState} {name : String}
    {args : List CExpr} {ret : CT} {params : List CT} {vs : List Val} {v : Val}
    (hargs : evalCHArgs ms csubs f σ args params = .ok (vs, σ')) (hsub : lookupS name csubs = none)
    (hb : builtinSub name vs = some v) :
    evalCH ms csubs (f+1) σ (.call name args ret params) =
      .ok (.bv ret.width (BitVec.ofNat ret.width (natOfVal v)), σ') :=
  evalCH_call_builtin hargs hsub hb

example : evalCHArgs noMacros [] 2 σ0 [.var "a" u32] [u32] = .ok ([.bv 32 0x00010000], σ0) ∧
    lookupS "clz32" ([] : CSubEnv) = none ∧ builtinSub "clz32" [.bv 32 0x00010000] = some (.bv 32 15) :=
  ⟨rfl, rfl, by decide +kernel⟩

/-- **C08.2d** the two sides agree when the callee stored the routine's value (as a 64-bit pattern) in `ret_val` -/
theorem return_value_agree (sg : Bool) (ret : CT) (n : Nat) (hw : ret.width ≤ 64) :
    convBits ⟨sg, 64⟩ ret (BitVec.ofNat 64 n) = BitVec.ofNat ret.width n :=
  convBits_ofNat64 sg ret n hw

/-- **C08.2e** `return e;` stores `e` widened to 64 bit (`compileStmtH`, case `.ret`), the caller narrows with
    `SIGNED/UNSIGNED`: together the C conversion of `e`'s value to the declared return type. -/
theorem return_roundtrip (t ret : CT) (sg : Bool) {n : Nat} (x : BitVec n) (hn : n ≤ 64) (hr : ret.width ≤ 64) :
    convBits ⟨sg, 64⟩ ret (convBits t ⟨false, 64⟩ x) = convBits t ret x :=
  convBits_via_u64 t ret sg x hn hr

example : (8 : Nat) ≤ 64 ∧ (⟨true, 16⟩ : CT).width ≤ 64 := by decide

example : u32.width ≤ 64 := by decide

/-- **C08.2f** the callee's `return e;` under the repaired lowering: `ret_val` receives the value of `e` converted to
    `uint64_t` (`e` side-effect free: its compiled form simulates its value `x`) -/
theorem return_stmt_IL {ms : MacroSem} {subs : SubEnv} {env : CEnv} {σ : MState} {st st' : HSt} {e : CExpr}
    {eff : ILEffect} {bare : List String} {f : Nat} {x : BitVec (typeOfC e).width}
    (hcfg : env.cfg = Cfg.fixed)
    (h : compileStmtH env st (.ret e) = .ok (some eff, bare, st'))
    (hsim : ∀ ce st1, compileExprH env st e = .ok (ce, st1) → Sim ms σ ce (typeOfC e) (.bv (typeOfC e).width x)) :
    execIL ms subs (f+1) eff σ =
      .ok { σ with locals := setLocal σ.locals "ret_val" (.bv 64 (convBits (typeOfC e) ⟨false, 64⟩ x)) } :=
  ret_stmt_sets_ret_val hcfg h hsim

/-- **C08.2g** callee's `return e;` followed by the caller's `setTmp`: the call's temporary holds the value of `e`
    converted to the declared return type (types of at most 64 bit), as C11 6.8.6.4p3 asks -/
theorem return_then_read {ms : MacroSem} {subs : SubEnv} {env : CEnv} {σ σ1 σ2 : MState} {st st' : HSt} {e : CExpr}
    {eff : ILEffect} {bare : List String} {f g : Nat} {x : BitVec (typeOfC e).width}
    (st1 : HSt) (name : String) (cargs : List ILPure) (ret : CT)
    (hcfg : env.cfg = Cfg.fixed)
    (h : compileStmtH env st (.ret e) = .ok (some eff, bare, st'))
    (hsim : ∀ ce s, compileExprH env st e = .ok (ce, s) → Sim ms σ ce (typeOfC e) (.bv (typeOfC e).width x))
    (he : (typeOfC e).width ≤ 64) (hr : ret.width ≤ 64)
    (h1 : execIL ms subs (f+1) eff σ = .ok σ1)
    (h2 : execIL ms subs (g+1) (callEntry st1 name cargs ret).setTmp σ1 = .ok σ2) :
    lookupS (tmpName st1.hyb) σ2.locals = some (.bv ret.width (convBits (typeOfC e) ret x)) := by
  rw [ret_stmt_sets_ret_val hcfg h hsim] at h1
  injection h1 with h1; subst h1
  rw [exec_setTmp st1 name cargs ret (C05.lookupS_setLocal_self _ _ _)] at h2
  injection h2 with h2; subst h2
  rw [convBits_via_u64 _ _ _ _ he hr]
  exact C05.lookupS_setLocal_self _ _ _

/-- non-vacuity: `return a;` with `uint32_t a` -/
example : ∃ eff bare st', compileStmtH envF st0 (.ret (.var "a" u32)) = .ok (some eff, bare, st') ∧
    (∀ ce s, compileExprH envF st0 (.var "a" u32) = .ok (ce, s) →
      Sim noMacros σ0 ce (typeOfC (.var "a" u32)) (.bv (typeOfC (.var "a" u32)).width (0x00010000 : BitVec 32))) := by
  refine ⟨_, _, _, rfl, ?_⟩
  have := argsOK_a
  cases this with
  | cons _ hs _ => exact hs st0

/-! ## 3. the frame lemma: isolation, the part that holds -/

/-- **C08.3 (frame lemma)** for ALL effects, fuels and states: `execIL` changes no resource outside the syntactic
    footprint `writes subs fuel e` (locals set by SETL - transitively through the bodies of called routines -,
    registers written by WRITE_REG, memory by STOREW), restores `params`, keeps `cur`, `imm`, `pktAddr`. -/
theorem frame {ms : MacroSem} {subs : SubEnv} {f : Nat} {e : ILEffect} {σ σ' : MState}
    (h : execIL ms subs f e σ = .ok σ') : Frame (writes subs f e) σ σ' :=
  execIL_frame h

/-- the locals part, as asked: a local that `e` does not write (transitively) has the same lookup afterwards -/
theorem frame_locals {ms : MacroSem} {subs : SubEnv} {f : Nat} {e : ILEffect} {σ σ' : MState}
    (h : execIL ms subs f e σ = .ok σ') (n : String) (hn : n ∉ writtenLocals subs f e) :
    lookupS n σ'.locals = lookupS n σ.locals :=
  (execIL_frame h).locals n (fun hm => hn (mem_writtenLocals.mpr hm))

/-- … also judged with any larger fuel for the footprint (it is monotone) -/
theorem frame_locals_fuel {ms : MacroSem} {subs : SubEnv} {f F : Nat} {e : ILEffect} {σ σ' : MState}
    (h : execIL ms subs f e σ = .ok σ') (hF : f ≤ F) (n : String) (hn : n ∉ writtenLocals subs F e) :
    lookupS n σ'.locals = lookupS n σ.locals :=
  (execIL_frame h).locals n (fun hm => hn (mem_writtenLocals.mpr (writes_mono hF e hm)))

/-- `params` are restored after a call (after any effect) -/
theorem call_restores_params {ms : MacroSem} {subs : SubEnv} {f : Nat} {e : ILEffect} {σ σ' : MState}
    (h : execIL ms subs f e σ = .ok σ') : σ'.params = σ.params :=
  (execIL_frame h).params

/-- registers and memory change only by the body's own `WRITE_REG`/`STOREW` -/
theorem call_regs_mem {ms : MacroSem} {subs : SubEnv} {f : Nat} {σ σ' : MState} {name : String}
    {args : List ILPure} {ps : List String} {body : ILEffect}
    (h : execIL ms subs (f+1) (.call ("hex_" ++ name) args) σ = .ok σ')
    (hsub : lookupS name subs = some (ps, body)) :
    (∀ k, k ∉ writtenRegs subs f body → σ'.new k = σ.new k ∧ σ'.written k = σ.written k) ∧
    (storesMem subs f body = false → σ'.mem = σ.mem ∧ σ'.stores = σ.stores) :=
  call_preserves_regs_mem h hsub

/-- non-vacuity of the frame lemma and of the corollary (stated in `Lemmas/CallSim.lean`:
    `call_preserves_disjoint_locals`): calling the `clz32` body from `σ0` succeeds; it writes none of
    `a`, `b`, `r`, `h_tmp1`, no register, no memory -/
example : isOk (execIL noMacros wSubs 20 (.call "hex_clz32" [.varl "b"]) σ0) = true ∧
    calleeDisjoint wSubs 19 "clz32" ["a", "b", "r", "h_tmp1"] = true ∧
    writtenRegs wSubs 19 clz32Body = [] ∧ storesMem wSubs 19 clz32Body = false := by
  refine ⟨by decide +kernel, by decide +kernel, by decide +kernel, by decide +kernel⟩

/-- instance of the corollary: the call of `clz32` leaves `a`, `b`, `r`, `h_tmp1` alone -/
theorem clz32_keeps_disjoint {σ' : MState}
    (h : execIL noMacros wSubs 20 (.call ("hex_" ++ "clz32") [.varl "b"]) σ0 = .ok σ') :
    ∀ n ∈ ["a", "b", "r", "h_tmp1"], lookupS n σ'.locals = lookupS n σ0.locals :=
  call_preserves_disjoint_locals' h (by decide +kernel)

example : isOk (execIL noMacros wSubs 20 (.call ("hex_" ++ "clz32") [.varl "b"]) σ0) = true := by decide +kernel

/-- the C side of the isolation clause holds without any side condition: a call changes no local of the caller
    beyond what evaluating its arguments does (`evalCH`, case `.call`: the routine runs in a scope of its own) -/
theorem C_call_isolates {ms : MacroSem} {csubs : CSubEnv} {f : Nat} {σ σ2 : MState} {name : String}
    {args : List CExpr} {ret : CT} {params : List CT} {v : Val}
    (h : evalCH ms csubs (f+1) σ (.call name args ret params) = .ok (v, σ2)) :
    ∃ vs σ1, evalCHArgs ms csubs f σ args params = .ok (vs, σ1) ∧ σ2.locals = σ1.locals ∧ σ2.params = σ1.params :=
  evalCH_call_locals h

example : isOk (evalCH noMacros [] 3 σ0 (.call "clz32" [.var "a" u32] u32 [u32])) = true := by decide +kernel

/-! ## 4. the violated clause: flat namespace -/

/-- `uint32_t r = clz32(a) + clz32(b);` -/
def callerProg : List CStmt :=
  [.decl u32 "r" (some (.bin "+" (.call "clz32" [.var "a" u32] u32 [u32]) (.call "clz32" [.var "b" u32] u32 [u32])))]

def runILH (cfg : Cfg) (p : List CStmt) (subs : SubEnv) (fuel : Nat) (σ : MState) : Except Stuck MState :=
  match compileProgH cfg p with
  | .ok eff => execIL noMacros subs fuel eff σ
  | .error _ => .error (.undef "compile")

/-- **C08.4 (witness, IL)** The caller keeps the value of `clz32(a)` (15) in its temporary `h_tmp0` while the second
    call runs; the body of `clz32` (its own `clz32_n++`) sets `h_tmp0` to 30: the caller's live temporary is
    overwritten and `r` becomes 30 + 31 = 61.  Both configurations of the lowering. -/
theorem witness_IL :
    finalLocal "r" (runILH Cfg.asCode callerProg wSubs 40 σ0) = some (.bv 32 61) ∧
    finalLocal "r" (runILH Cfg.fixed callerProg wSubs 40 σ0) = some (.bv 32 61) ∧
    finalLocal "h_tmp0" (runILH Cfg.asCode callerProg wSubs 40 σ0) = some (.bv 32 30) := by
  refine ⟨by decide +kernel, by decide +kernel, by decide +kernel⟩

/-- **C08.4 (witness, C)** C isolates the callee: `r = 15 + 31 = 46`. -/
theorem witness_C : finalLocal "r" (execCHs noMacros [] 40 callerProg σ0) = some (.bv 32 46) := by
  decide +kernel

/-- the side condition of `call_preserves_disjoint_locals` is what fails: `h_tmp0` is in the callee's footprint
    (and so is `ret_val`, which every callee sets) -/
theorem witness_not_disjoint :
    calleeDisjoint wSubs 19 "clz32" ["h_tmp0"] = false ∧ "h_tmp0" ∈ writtenLocals wSubs 19 clz32Body ∧
    "ret_val" ∈ writtenLocals wSubs 19 clz32Body := by
  refine ⟨by decide +kernel, by decide +kernel, by decide +kernel⟩

/-- `ret_val` is shared too: after `clz32(a)` it holds 15, the second call overwrites it with 31 … -/
theorem witness_ret_val_clobbered :
    finalLocal "ret_val" (execIL noMacros wSubs 20 (.call "hex_clz32" [.varl "a"]) σ0) = some (.bv 64 15) ∧
    finalLocal "ret_val" (runILH Cfg.asCode callerProg wSubs 40 σ0) = some (.bv 64 31) := by
  refine ⟨by decide +kernel, by decide +kernel⟩

/-- … which is harmless, because of the render order (`call_entry`: `P.render = mkSeq (deps ++ [SEQN [call, setTmp]])`):
    each call's value is copied to the call's OWN temporary directly after the call.  What is protected, precisely:
    once `h_tmpN` is set, any later effect `e` - another call included, although it overwrites `ret_val` - leaves it
    alone PROVIDED `h_tmpN` is not in the footprint of `e`, i.e. the later callee's body (transitively) uses no
    temporary of that name.  (`witness_not_disjoint`: the bundled bodies do.) -/
theorem call_value_protected {ms : MacroSem} {subs : SubEnv} {f : Nat} {e : ILEffect} {σ1 σ2 : MState} {k : Nat} {v : Val}
    (hset : lookupS (tmpName k) σ1.locals = some v)
    (h : execIL ms subs f e σ1 = .ok σ2) (hk : tmpName k ∉ writtenLocals subs f e) :
    lookupS (tmpName k) σ2.locals = some v := by
  rw [frame_locals h _ hk]; exact hset

/-- the second call of the witness, run on a state where the first call's value sits in `h_tmp1` instead: kept -/
example : ∃ σ2, execIL noMacros wSubs 20 (.call "hex_clz32" [.varl "b"])
      { σ0 with locals := (tmpName 1, .bv 32 15) :: σ0.locals } = .ok σ2 ∧
    tmpName 1 ∉ writtenLocals wSubs 20 (.call "hex_clz32" [.varl "b"]) := by
  obtain ⟨σ2, h⟩ := isOk_elim (x := execIL noMacros wSubs 20 (.call "hex_clz32" [.varl "b"])
      { σ0 with locals := (tmpName 1, .bv 32 15) :: σ0.locals }) (by decide +kernel)
  exact ⟨σ2, h, by decide +kernel⟩

/-- two calls never share their temporary: a call compiled later (from any extension of the state the first one
    left) gets another `h_tmpN` -/
theorem later_call_tmp_ne {env : CEnv} {st st' st2 st3 : HSt} {n1 n2 : String} {a1 a2 : List CExpr} {r1 r2 : CT}
    {p1 p2 : List CT} {ce1 ce2 : CE}
    (h1 : compileExprH env st (.call n1 a1 r1 p1) = .ok (ce1, st'))
    (hext : Ext st' st2)
    (h2 : compileExprH env st2 (.call n2 a2 r2 p2) = .ok (ce2, st3)) : ce1.il ≠ ce2.il := by
  obtain ⟨c1, s1, _, rfl, rfl⟩ := compileExprH_call h1
  obtain ⟨c2, s2, ha2, rfl, rfl⟩ := compileExprH_call h2
  have h3 := (compileArgsH_ext env a2 _ _ _ _ ha2).hyb
  have h4 := hext.hyb
  simp only at h4
  intro he
  injection he with he
  have := tmpName_inj he
  omega

/-- non-vacuity: the two calls of `callerProg` -/
example : ∃ ce1 st' ce2 st3, compileExprH envF st0 (.call "clz32" [.var "a" u32] u32 [u32]) = .ok (ce1, st') ∧
    Ext st' st' ∧ compileExprH envF st' (.call "clz32" [.var "b" u32] u32 [u32]) = .ok (ce2, st3) :=
  ⟨_, _, _, _, compileExprH_call_of (show compileArgsH envF st0 [.var "a" u32] [u32] = .ok ([.varl "a"], st0) from rfl),
    Ext.refl _, compileExprH_call_of rfl⟩

/-! ## 5. nested calls -/

/-- **C08.5** `f(pre…, g(gargs…))` compiled from a state satisfying the naming invariant `PInv` (every pending entry
    is named `h_tmp<k>`, `k` below the counter: true initially, kept by `compileExprH`/`compileArgsH` -
    `compileExprH_ext`): the entry of `g` does not stay pending on its own, its rendered sequence stands inside
    the entry of `f` in front of `SEQN [hex_f(…), SETL h_tmpN …]`.  For all argument lists `pre`, `gargs`.
    (General position: `callEntry_pulls` in `Lemmas/CallPend.lean`, for any pending entry whose temporary an
    argument uses.) -/
theorem nested_call {env : CEnv} {st st' : HSt} {f g : String} {pre gargs : List CExpr} {gret fret : CT}
    {gparams fparams : List CT} {ce : CE} (hinv : PInv st)
    (h : compileExprH env st (.call f (pre ++ [.call g gargs gret gparams]) fret fparams) = .ok (ce, st')) :
    ∃ (stp stg st1 : HSt) (gc fc : List ILPure) (pre' post' : List ILEffect),
      compileArgsH env stp gargs gparams = .ok (gc, stg) ∧
      compileArgsH env st (pre ++ [.call g gargs gret gparams]) fparams = .ok (fc, st1) ∧
      st'.pending = (popPending st1.pending (tmpsOfPures fc)).2 ++ [callEntry st1 f fc fret] ∧
      callEntry stg g gc gret ∉ (popPending st1.pending (tmpsOfPures fc)).2 ∧
      (callEntry st1 f fc fret).render =
        mkSeq (pre' ++ (callEntry stg g gc gret).render :: post' ++
          [.seqn [.call ("hex_" ++ f) fc, .setl (tmpName st1.hyb) (retRead fret)]]) :=
  nested_call_order hinv h

/-- non-vacuity: the nesting `clz32(clz32(a))` (as in `clo32(x) = clz32(~x)` called with a call) from the initial state -/
example : PInv st0 ∧ ∃ ce st', compileExprH envF st0
    (.call "clz32" ([] ++ [.call "clz32" [.var "a" u32] u32 [u32]]) u32 [u32]) = .ok (ce, st') := by
  refine ⟨PInv.init _ _ _, ?_⟩
  obtain ⟨⟨ce, st'⟩, h⟩ := isOk_elim (x := compileExprH envF st0
    (.call "clz32" ([] ++ [.call "clz32" [.var "a" u32] u32 [u32]]) u32 [u32])) (by decide +kernel)
  exact ⟨ce, st', h⟩

/-- the names in a rendered list of the shape
    `[SEQN [SEQN [f1(VARL a1), SETL t1 (UNSIGNED 32 (VARL r1))], SEQN [f2(VARL a2), SETL t2 (UNSIGNED 32 (VARL r2))]]]` -/
def nestedShape : Except String (CE × HSt) → Option (List String)
  | .ok (_, st') =>
    match st'.pending.map Pend.render with
    | [.seqn [.seqn [.call f1 [.varl a1], .setl t1 (.unsigned 32 (.varl r1))],
              .seqn [.call f2 [.varl a2], .setl t2 (.unsigned 32 (.varl r2))]]] =>
        some [f1, a1, t1, r1, f2, a2, t2, r2]
    | _ => none
  | .error _ => none

/-- … and what is left pending renders as one sequence: the inner call and its copy first, then the outer call
    on the inner temporary -/
example : nestedShape (compileExprH envF st0
    (.call "clz32" ([] ++ [.call "clz32" [.var "a" u32] u32 [u32]]) u32 [u32])) =
    some ["hex_clz32", "a", "h_tmp0", "ret_val", "hex_clz32", "h_tmp0", "h_tmp1", "ret_val"] := by
  decide +kernel

/-! ## 6. end-to-end -/

/-- **C08.6a** (stretch) A call with side-effect free arguments to a bundled routine, repaired lowering: if the
    routine's compiled body, started on the converted arguments, leaves in `ret_val` the routine's closed-form value
    (modulo the width of the return type) and writes no register or memory, then executing the rendered pair
    `SEQN [hex_<name>(args), SETL h_tmpN …]` hands the consumer exactly the value `evalCH` computes for the call,
    and (`CallPost`) the two final states agree on registers, memory, and on every local outside the callee's
    footprint (C leaves ALL the caller's locals alone). -/
theorem call_correct_builtin {ms : MacroSem} {csubs : CSubEnv} {subs : SubEnv} {env : CEnv} {σ σb : MState} {st st' : HSt}
    {name : String} {args : List CExpr} {ret : CT} {params : List CT} {ce : CE} {vCs vs : List Val}
    {ps : List String} {body : ILEffect} {fB : Nat} {r : BitVec 64} {v : Val}
    (hcfg : env.cfg = Cfg.fixed)
    (hc : compileExprH env st (.call name args ret params) = .ok (ce, st'))
    (hp : ∀ p ∈ params, p.width ≠ 1)
    (hargs : ArgsOK ms csubs env σ args vCs)
    (hvs : convArgs args params vCs = .ok vs)
    (hsub : lookupS name subs = some (ps, body))
    (hbody : execIL ms subs fB body { σ with params := ps.zip vs } = .ok σb)
    (hret : lookupS "ret_val" σb.locals = some (.bv 64 r))
    (hcsub : lookupS name csubs = none) (hb : builtinSub name vs = some v)
    (hw : ret.width ≤ 64)
    (hval : BitVec.ofNat ret.width r.toNat = BitVec.ofNat ret.width (natOfVal v))
    (hnew : σb.new = σ.new) (hwr : σb.written = σ.written) (hmem : σb.mem = σ.mem) (hst : σb.stores = σ.stores) :
    ∃ (P : Pend) (rest : List Pend) (σ' : MState) (xC : BitVec ret.width),
      st'.pending = rest ++ [P] ∧
      (∃ F, ∀ f, F ≤ f → evalCH ms csubs f σ (.call name args ret params) = .ok (.bv ret.width xC, σ)) ∧
      (∃ F, ∀ f, F ≤ f → execIL ms subs f (.seqn [P.exec, P.setTmp]) σ = .ok σ') ∧
      Sim ms σ' ce ret (.bv ret.width xC) ∧
      CallPost subs fB body P.tmp σ σ σ' :=
  call_sim_builtin hcfg hc hp hargs hvs hsub hbody hret hcsub hb hw hval hnew hwr hmem hst

/-- non-vacuity of **C08.6a**, and an end-to-end instance: `clz32(a)` in `σ0` against the transcribed body.  The
    register/memory hypotheses are discharged by the frame lemma. -/
theorem clz32_call_correct :
    ∃ (ce : CE) (st' : HSt) (P : Pend) (rest : List Pend) (σ' : MState) (xC : BitVec 32),
      compileExprH envF st0 (.call "clz32" [.var "a" u32] u32 [u32]) = .ok (ce, st') ∧
      st'.pending = rest ++ [P] ∧
      (∃ F, ∀ f, F ≤ f → evalCH noMacros [] f σ0 (.call "clz32" [.var "a" u32] u32 [u32]) = .ok (.bv 32 xC, σ0)) ∧
      (∃ F, ∀ f, F ≤ f → execIL noMacros wSubs f (.seqn [P.exec, P.setTmp]) σ0 = .ok σ') ∧
      Sim noMacros σ' ce u32 (.bv 32 xC) ∧ xC = 15 := by
  have hc := compileExprH_call_of (env := envF) (name := "clz32") (ret := u32)
    (show compileArgsH envF st0 [.var "a" u32] [u32] = .ok ([.varl "a"], st0) from rfl)
  obtain ⟨σb, hbody⟩ := isOk_elim (x := execIL noMacros wSubs 19 clz32Body
    { σ0 with params := ["t"].zip [.bv 32 0x00010000] }) (by decide +kernel)
  have hret : lookupS "ret_val" σb.locals = some (.bv 64 15) := by
    have : finalLocal "ret_val" (execIL noMacros wSubs 19 clz32Body
      { σ0 with params := ["t"].zip [.bv 32 0x00010000] }) = some (.bv 64 15) := by decide +kernel
    rw [hbody] at this; exact this
  have fr := execIL_frame hbody
  have hregs : ∀ k, Res.reg k ∉ writes wSubs 19 clz32Body := by
    intro k hk
    have : k ∈ writtenRegs wSubs 19 clz32Body := mem_writtenRegs.mpr hk
    rw [show writtenRegs wSubs 19 clz32Body = [] by decide +kernel] at this
    simp at this
  have hmem : Res.mem ∉ writes wSubs 19 clz32Body :=
    storesMem_false.mp (by decide +kernel)
  obtain ⟨P, rest, σ', xC, h1, h2, h3, h4, _⟩ :=
    call_correct_builtin (ms := noMacros) (csubs := []) (subs := wSubs) (σ := σ0) (v := .bv 32 15) rfl hc (by decide)
      argsOK_a rfl rfl hbody hret rfl (by decide +kernel) (by decide) (by decide)
      (funext fun k => (fr.regs k (hregs k)).1) (funext fun k => (fr.regs k (hregs k)).2)
      (fr.mem hmem).1 (fr.mem hmem).2
  refine ⟨_, _, P, rest, σ', xC, hc, h1, h2, h3, h4, ?_⟩
  -- the C value is determined: 15
  obtain ⟨F, hF⟩ := h2
  have hx := hF (F + 3) (by omega)
  have hx' : evalCH noMacros [] (F + 2 + 1) σ0 (.call "clz32" [.var "a" u32] u32 [u32]) =
      .ok (.bv 32 (BitVec.ofNat 32 (natOfVal (.bv 32 15))), σ0) :=
    evalCH_call_builtin (vs := [.bv 32 0x00010000]) (by rw [evalCHArgs, evalCH]; rfl) rfl (by decide +kernel)
  rw [hx'] at hx
  injection hx with hx; injection hx with hx _; injection hx with _ hx
  rw [← hx]; decide

/-- **C08.6b** (stretch) the same for a generated routine with a C body: the hypothesis is that the compiled body
    simulates the C body (same registers and memory, `ret_val` converts to the C return value). -/
theorem call_correct_sub {ms : MacroSem} {csubs : CSubEnv} {subs : SubEnv} {env : CEnv} {σ σb σr : MState} {st st' : HSt}
    {name : String} {args : List CExpr} {ret : CT} {params : List CT} {ce : CE} {vCs vs : List Val}
    {ps : List String} {body : ILEffect} {fB : Nat} {r : BitVec 64} {sub : CSub} {xC : BitVec ret.width}
    (hcfg : env.cfg = Cfg.fixed)
    (hc : compileExprH env st (.call name args ret params) = .ok (ce, st'))
    (hp : ∀ p ∈ params, p.width ≠ 1)
    (hargs : ArgsOK ms csubs env σ args vCs)
    (hvs : convArgs args params vCs = .ok vs)
    (hsub : lookupS name subs = some (ps, body))
    (hbody : execIL ms subs fB body { σ with params := ps.zip vs } = .ok σb)
    (hret : lookupS "ret_val" σb.locals = some (.bv 64 r))
    (hcsub : lookupS name csubs = some sub)
    (hCbody : ∃ F, ∀ f, F ≤ f →
      execCHs ms csubs f sub.body { σ with locals := (sub.params.map (·.1)).zip vs } = .ok σr)
    -- the C body leaves its returned value (extended to 64 bit by its own signedness) in `$ret`; the call converts it to the
    -- routine's declared return type
    {vr : Val} (hCret : lookupS "$ret" σr.locals = some vr)
    (hCconv : convC { signed := false, width := 64 } sub.ret vr = .ok (.bv ret.width xC))
    (hval : convBits ⟨ret.signed, 64⟩ ret r = xC)
    (hnew : σb.new = σr.new) (hwr : σb.written = σr.written) (hmem : σb.mem = σr.mem) (hst : σb.stores = σr.stores) :
    ∃ (P : Pend) (rest : List Pend) (σ' σC : MState),
      st'.pending = rest ++ [P] ∧
      (∃ F, ∀ f, F ≤ f → evalCH ms csubs f σ (.call name args ret params) = .ok (.bv ret.width xC, σC)) ∧
      (∃ F, ∀ f, F ≤ f → execIL ms subs f (.seqn [P.exec, P.setTmp]) σ = .ok σ') ∧
      Sim ms σ' ce ret (.bv ret.width xC) ∧
      CallPost subs fB body P.tmp σ σC σ' :=
  call_sim_sub hcfg hc hp hargs hvs hsub hbody hret hcsub hCbody hCret hCconv hval hnew hwr hmem hst

/-- a generated routine `uint32_t id32(uint32_t x) { return x; }`: C side and compiled body -/
def idCSubs : CSubEnv := [("id32", { params := [("x", u32)], ret := u32, body := [.ret (.var "x" u32)] })]
def idSubs : SubEnv := [("id32", (["x"], .setl "ret_val" (.cast 64 .bfalse (.param "x"))))]

/-- non-vacuity of **C08.6b**, and an end-to-end instance: `id32(a)` in `σ0` -/
theorem id32_call_correct :
    ∃ (ce : CE) (st' : HSt) (P : Pend) (rest : List Pend) (σ' σC : MState),
      compileExprH envF st0 (.call "id32" [.var "a" u32] u32 [u32]) = .ok (ce, st') ∧
      st'.pending = rest ++ [P] ∧
      (∃ F, ∀ f, F ≤ f →
        evalCH noMacros idCSubs f σ0 (.call "id32" [.var "a" u32] u32 [u32]) = .ok (.bv 32 0x00010000, σC)) ∧
      (∃ F, ∀ f, F ≤ f → execIL noMacros idSubs f (.seqn [P.exec, P.setTmp]) σ0 = .ok σ') ∧
      Sim noMacros σ' ce u32 (.bv 32 0x00010000) := by
  have hc := compileExprH_call_of (env := envF) (name := "id32") (ret := u32)
    (show compileArgsH envF st0 [.var "a" u32] [u32] = .ok ([.varl "a"], st0) from rfl)
  obtain ⟨σb, hbody⟩ := isOk_elim (x := execIL noMacros idSubs 1 (.setl "ret_val" (.cast 64 .bfalse (.param "x")))
    { σ0 with params := ["x"].zip [.bv 32 0x00010000] }) (by decide +kernel)
  have hret : lookupS "ret_val" σb.locals = some (.bv 64 0x00010000) := by
    have : finalLocal "ret_val" (execIL noMacros idSubs 1 (.setl "ret_val" (.cast 64 .bfalse (.param "x")))
      { σ0 with params := ["x"].zip [.bv 32 0x00010000] }) = some (.bv 64 0x00010000) := by decide +kernel
    rw [hbody] at this; exact this
  have fr := execIL_frame hbody
  have hregs : ∀ k, Res.reg k ∉ writes idSubs 1 (.setl "ret_val" (.cast 64 .bfalse (.param "x"))) := by
    intro k hk; simp [writes] at hk
  have hmem : Res.mem ∉ writes idSubs 1 (.setl "ret_val" (.cast 64 .bfalse (.param "x"))) := by
    intro hk; simp [writes] at hk
  let σc : MState := { σ0 with locals := [("x", .bv 32 0x00010000)] }
  have hCbody : ∃ F, ∀ f, F ≤ f → execCHs noMacros idCSubs f [.ret (.var "x" u32)]
      { σ0 with locals := ([("x", u32)].map (·.1)).zip [.bv 32 0x00010000] } =
      .ok { σc with locals := setLocal σc.locals "$ret" (.bv 64 0x00010000) } := by
    refine ⟨3, fun f hf => ?_⟩
    obtain ⟨k, rfl⟩ : ∃ k, f = k + 3 := ⟨f - 3, by omega⟩
    rw [execCHs, execCH, evalCH]
    rfl
  obtain ⟨P, rest, σ', σC, h1, h2, h3, h4, _⟩ :=
    call_correct_sub (ms := noMacros) (csubs := idCSubs) (subs := idSubs) (σ := σ0) (ret := u32)
      (xC := 0x00010000) rfl hc (by decide)
      (argsOK_var (t := u32) (x := 0x00010000) (n := "a") (by decide) ArgsOK.nil)
      rfl rfl hbody hret rfl hCbody (vr := .bv 64 0x00010000) (by decide +kernel) (by rfl) (by decide +kernel)
      (funext fun k => (fr.regs k (hregs k)).1) (funext fun k => (fr.regs k (hregs k)).2)
      (fr.mem hmem).1 (fr.mem hmem).2
  exact ⟨_, _, P, rest, σ', σC, hc, h1, h2, h3, h4⟩

end C08
end Rzil
