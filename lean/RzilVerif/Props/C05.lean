import RzilVerif.Lemmas.StmtLemmas
/-!
  # C05 — the lowering of statements preserves C semantics

  T1 (`Cfg.fixed`):
  * `stmt_main` (induction on the C fuel: statements, statement lists, loops with any trip count),
    `stmt_correct_fixed`, `stmts_correct_fixed`, `stmt_correct_fixed_rel`, `prog_correct_fixed`;
    the expression theorem enters as the hypothesis `ExprOK ms WF` (see `Lemmas/StmtConv.lean`) and is
    discharged in `Props/C05Compose.lean`.  All statement forms the model executes are covered:
    declaration, simple/compound assignment to locals and registers, chained assignment, memory store,
    `if`/`else`, `for` with step `v++` and `v += k`, `JUMP`, the skip statements, bare PURE value statements `e;`
    (`execC` evaluates and discards the value, the lowering emits nothing; `ret` and values with a side effect are
    rejected by `WFStmt`/`compileStmt`).
    Assignment targets: declared locals, registers, and immediates the lowering has registered (`riV = riV & ~3`).
  * the static side conditions are the computable `Ctx.ok`, `WFStmt` (`Model/StmtWF.lean`); dropping
    `WFStmt` is refuted: `stmt_correct_fixed_unrestricted_false` (`a = b += a`).
  T2: `stmt_asCode_eq_fixed`, `stmts_asCode_eq_fixed`, `prog_asCode_eq_fixed`,
      `prog_correct_asCode_on_carveout` (T1 + T2).
  T3: `t3_compound_narrow_differs`, `t3_not_carved`.
  Named facts: `mkSeq_exec` (in `Lemmas/StmtFuel.lean`), `if_exactly_one_arm`, `repeat_unfold`, `for_order`,
      `for_iteration`, `assign_updates_only_target`, `assignC_updates_only_target`.
  Non-vacuity: the `example`s at the end (all hypotheses of `prog_correct_fixed` and of T2 instantiated).
-/
namespace Rzil
namespace C05

section Main
variable {ms : MacroSem} {WF : MState → CExpr → Prop} (hE : ExprOK ms WF)
variable {c : Ctx} {env : CEnv} (henv : env.cfg = Cfg.fixed) (hc : c.ok = true)
include hE henv hc

/-- what the proof needs to know about one loop iteration's effect `loopBody`: it runs the compiled body
    `bs`, then a step effect `stepE` that increments the loop variable as the C loop does -/
structure LoopShape (ms : MacroSem) (c : Ctx) (v : String) (step : Nat) (bs : List ILEffect) (stepE loopBody : ILEffect) : Prop where
  body : ∀ σ σ1 σ2, ExecSeqIL ms bs σ σ1 → ExecIL ms stepE σ1 σ2 → ExecIL ms loopBody σ σ2
  step : ∀ σC σIL w (x : BitVec w), Inv c σC σIL → lookupS v σC.locals = some (.bv w x) →
    ∃ σIL', ExecIL ms stepE σIL σIL' ∧
      Inv c { σC with locals := setLocal σC.locals v (.bv w (x + BitVec.ofNat w (if step == 0 then 1 else step))) } σIL'

theorem stmt_main : ∀ f : Nat,
    (∀ s st eff st' σC σIL σC', compileStmt env st s = .ok (eff, st') → WFStmt c s = true →
        WFHyp ms WF c (exprsOf s) → Inv c σC σIL → execC ms f s σC = .ok σC' →
        ∃ σIL', ExecIL ms eff σIL σIL' ∧ Inv c σC' σIL') ∧
    (∀ ss st effs st' σC σIL σC', compileStmts env st ss = .ok (effs, st') → WFStmts c ss = true →
        WFHyp ms WF c (exprsOfList ss) → Inv c σC σIL → execCs ms f ss σC = .ok σC' →
        ∃ σIL', ExecSeqIL ms effs σIL σIL' ∧ Inv c σC' σIL') ∧
    (∀ v cond step body st bs st' cc stepE loopBody σC σIL σC', compileExpr env cond = .ok cc →
        compileStmts env st body = .ok (bs, st') → LoopShape ms c v step bs stepE loopBody →
        WFStmts c body = true → WFHyp ms WF c (cond :: exprsOfList body) → Inv c σC σIL →
        loopC ms f v cond step body σC = .ok σC' →
        ∃ σIL', ExecIL ms (.repeat_ (condIL Cfg.fixed cc) loopBody) σIL σIL' ∧ Inv c σC' σIL') := by
  intro f
  induction f with
  | zero =>
    refine ⟨?_, ?_, ?_⟩
    · intro s st eff st' σC σIL σC' _ _ _ _ h; simp [execC] at h
    · intro ss st effs st' σC σIL σC' _ _ _ _ h; simp [execCs] at h
    · intro v cond step body st bs st' cc stepE loopBody σC σIL σC' _ _ _ _ _ _ h; simp [loopC] at h
  | succ f ih =>
    obtain ⟨ihE, ihS, ihL⟩ := ih
    refine ⟨?_, ?_, ?_⟩
    · intro s st eff st' σC σIL σC' hcomp hwf hWF hinv hex
      cases s with
      | decl t n init =>
        cases init with
        | none =>
          simp only [compileStmt, Except.ok.injEq, Prod.mk.injEq] at hcomp
          simp only [execC, Except.ok.injEq] at hex
          obtain ⟨rfl, _⟩ := hcomp
          subst hex
          exact ⟨_, ExecIL_empty, hinv⟩
        | some e => exact decl_correct hE henv hc hcomp hwf hWF hinv hex
      | assign lhs op e => exact assign_correct hE henv hc hcomp hwf hWF hinv hex
      | store w e => exact store_correct hE henv hcomp hwf hWF hinv hex
      | jump e => exact jump_correct hE henv hc hcomp hwf hWF hinv hex
      | skip w => exact skip_correct henv hc hcomp hinv hex
      | ite cnd t e =>
        cases e with
        | none =>
          simp only [compileStmt] at hcomp
          obtain ⟨cc, hcc, hcomp1⟩ := bind_ok hcomp
          obtain ⟨⟨ts, st1⟩, hts, hcomp2⟩ := bind_ok hcomp1
          clear hcomp hcomp1
          simp only [Except.ok.injEq, Prod.mk.injEq] at hcomp2
          obtain ⟨rfl, _⟩ := hcomp2
          simp only [execC] at hex
          obtain ⟨vc, hvc, hex1⟩ := bind_ok hex
          obtain ⟨b, hb, hex2⟩ := bind_ok hex1
          clear hex hex1
          simp only [WFStmt, Bool.and_eq_true] at hwf
          simp only [exprsOf] at hWF
          have hsim := expr_sim hE henv (hinv.rel.agreeOn _ _ _) hinv.inv hinv.immVal (hWF.mono (by simp)) hvc hcc
          have hcond := sim_cond hsim hb
          rw [henv]
          cases b with
          | true =>
            simp only [↓reduceIte] at hex2
            obtain ⟨σIL', hx, hinv'⟩ := ihS t _ ts st1 σC σIL σC' hts hwf.1
              (hWF.mono (fun _ h => List.mem_cons_of_mem _ (List.mem_append_left _ h))) hinv hex2
            exact ⟨σIL', ExecIL_branch hcond (mkSeq_exec.2 hx), hinv'⟩
          | false =>
            simp only [Bool.false_eq_true, ↓reduceIte, Except.ok.injEq] at hex2
            subst hex2
            exact ⟨σIL, ExecIL_branch hcond ExecIL_empty, hinv⟩
        | some e =>
          simp only [compileStmt] at hcomp
          obtain ⟨cc, hcc, hcomp1⟩ := bind_ok hcomp
          obtain ⟨⟨ts, st1⟩, hts, hcomp2⟩ := bind_ok hcomp1
          obtain ⟨⟨es, st2⟩, hes, hcomp3⟩ := bind_ok hcomp2
          clear hcomp hcomp1 hcomp2
          simp only [Except.ok.injEq, Prod.mk.injEq] at hcomp3
          obtain ⟨rfl, _⟩ := hcomp3
          simp only [execC] at hex
          obtain ⟨vc, hvc, hex1⟩ := bind_ok hex
          obtain ⟨b, hb, hex2⟩ := bind_ok hex1
          clear hex hex1
          simp only [WFStmt, Bool.and_eq_true] at hwf
          simp only [exprsOf] at hWF
          have hsim := expr_sim hE henv (hinv.rel.agreeOn _ _ _) hinv.inv hinv.immVal (hWF.mono (by simp)) hvc hcc
          have hcond := sim_cond hsim hb
          rw [henv]
          cases b with
          | true =>
            simp only [↓reduceIte] at hex2
            obtain ⟨σIL', hx, hinv'⟩ := ihS t _ ts st1 σC σIL σC' hts hwf.1
              (hWF.mono (fun _ h => List.mem_cons_of_mem _ (List.mem_append_left _ h))) hinv hex2
            exact ⟨σIL', ExecIL_branch hcond (mkSeq_exec.2 hx), hinv'⟩
          | false =>
            simp only [Bool.false_eq_true, ↓reduceIte] at hex2
            obtain ⟨σIL', hx, hinv'⟩ := ihS e _ es st2 σC σIL σC' hes hwf.2
              (hWF.mono (fun _ h => List.mem_cons_of_mem _ (List.mem_append_right _ h))) hinv hex2
            exact ⟨σIL', ExecIL_branch hcond (mkSeq_exec.2 hx), hinv'⟩
      | chain l1 l2 op2 e => exact chain_correct hE henv hc hcomp hwf hWF hinv hex
      | exprstmt e =>
        -- a bare pure value: C evaluates and discards it (state unchanged), the lowering emits nothing
        simp only [compileStmt] at hcomp
        obtain ⟨ce, _, hcomp1⟩ := bind_ok hcomp
        simp only [Except.ok.injEq, Prod.mk.injEq] at hcomp1
        obtain ⟨rfl, _⟩ := hcomp1
        simp only [execC] at hex
        obtain ⟨v, _, hex1⟩ := bind_ok hex
        simp only [Except.ok.injEq] at hex1
        subst hex1
        exact ⟨_, ExecIL_empty, hinv⟩
      | ret e => simp [WFStmt] at hwf
      | vcall n x a p => simp [WFStmt] at hwf
      | for_ v cnd step body =>
        simp only [execC] at hex
        simp only [WFStmt, Bool.and_eq_true] at hwf
        simp only [exprsOf] at hWF
        obtain ⟨hv, hwfb⟩ := hwf
        cases hvt : lookupS v c.types with
        | none => rw [hvt] at hv; simp at hv
        | some t =>
          rw [hvt] at hv
          simp only [beq_iff_eq] at hv
          obtain ⟨σIL0, hx0, hinv0⟩ := for_init_correct (ms := ms) hc hinv hvt hv
          rw [compileStmt] at hcomp
          obtain ⟨cc, hcc, hcomp1⟩ := bind_ok hcomp
          clear hcomp
          by_cases hstep : step = 0
          · subst hstep
            simp only [beq_self_eq_true, ↓reduceIte] at hcomp1
            obtain ⟨⟨bs, st1⟩, hbs, hcomp2⟩ := bind_ok hcomp1
            clear hcomp1
            simp only [Except.ok.injEq, Prod.mk.injEq] at hcomp2
            obtain ⟨rfl, _⟩ := hcomp2
            have hshape : LoopShape ms c v 0 bs (.seqn [.setl s!"h_tmp{(addImms st (immsOfExpr cnd)).hyb}" (.varl v),
                .setl v (.inc (.varl v) 32)]) (.seqn [mkSeq bs, .seqn [.setl s!"h_tmp{(addImms st (immsOfExpr cnd)).hyb}" (.varl v),
                .setl v (.inc (.varl v) 32)]]) :=
              { body := fun σ σ1 σ2 h1 h2 => ExecIL_seqn.2 (ExecSeqIL_cons (mkSeq_exec.2 h1) (ExecSeqIL_cons h2 ExecSeqIL_nil))
                step := fun σC1 σIL1 w x hi hl => for_step_correct (ms := ms) hc hi hvt hv (isTmp_tmp _) hl }
            obtain ⟨σIL', hx, hinv'⟩ := ihL v cnd 0 body _ bs st1 cc _ _ _ σIL0 σC' hcc hbs hshape hwfb hWF hinv0 hex
            rw [henv]
            exact ⟨σIL', ExecIL_seqn.2 (ExecSeqIL_cons hx0 (ExecSeqIL_cons hx ExecSeqIL_nil)), hinv'⟩
          · have hs' : (step == 0) = false := by simp [hstep]
            simp only [hs', Bool.false_eq_true, ↓reduceIte] at hcomp1
            obtain ⟨⟨stepEff, src⟩, hse, hcomp2⟩ := bind_ok hcomp1
            obtain ⟨⟨bs, st1⟩, hbs, hcomp3⟩ := bind_ok hcomp2
            clear hcomp1 hcomp2
            simp only [Except.ok.injEq, Prod.mk.injEq] at hcomp3
            obtain ⟨rfl, _⟩ := hcomp3
            have hshape : LoopShape ms c v step bs stepEff (mkSeq (bs ++ [stepEff])) :=
              { body := fun σ σ1 σ2 h1 h2 => mkSeq_exec.2 (ExecSeqIL_append h1 (ExecSeqIL_cons h2 ExecSeqIL_nil))
                step := fun σC1 σIL1 w x hi hl => by
                  simp only [hs', Bool.false_eq_true, ↓reduceIte]
                  exact for_stepk_correct (ms := ms) henv hc hi hvt hv hse hl }
            obtain ⟨σIL', hx, hinv'⟩ := ihL v cnd step body _ bs st1 cc _ _ _ σIL0 σC' hcc hbs hshape hwfb hWF hinv0 hex
            rw [henv]
            exact ⟨σIL', ExecIL_seqn.2 (ExecSeqIL_cons hx0 (ExecSeqIL_cons hx ExecSeqIL_nil)), hinv'⟩
    · intro ss st effs st' σC σIL σC' hcomp hwf hWF hinv hex
      cases ss with
      | nil =>
        simp only [compileStmts, Except.ok.injEq, Prod.mk.injEq] at hcomp
        simp only [execCs, Except.ok.injEq] at hex
        obtain ⟨rfl, _⟩ := hcomp
        subst hex
        exact ⟨_, ExecSeqIL_nil, hinv⟩
      | cons s ss =>
        rw [compileStmts] at hcomp
        obtain ⟨⟨e, st1⟩, he, hcomp1⟩ := bind_ok hcomp
        obtain ⟨⟨es, st2⟩, hes, hcomp2⟩ := bind_ok hcomp1
        simp only [Except.ok.injEq, Prod.mk.injEq] at hcomp2
        obtain ⟨rfl, _⟩ := hcomp2
        rw [execCs] at hex
        obtain ⟨σ1, h1, h2⟩ := bind_ok hex
        simp only [WFStmts, Bool.and_eq_true] at hwf
        simp only [exprsOfList] at hWF
        obtain ⟨σIL1, hx1, hinv1⟩ := ihE s st e st1 σC σIL σ1 he hwf.1
          (hWF.mono (fun _ h => List.mem_append_left _ h)) hinv h1
        obtain ⟨σIL2, hx2, hinv2⟩ := ihS ss st1 es st2 σ1 σIL1 σC' hes hwf.2
          (hWF.mono (fun _ h => List.mem_append_right _ h)) hinv1 h2
        cases hb : isBare s
        · rw [consEff_eff hb]
          exact ⟨σIL2, ExecSeqIL_cons hx1 hx2, hinv2⟩
        · -- a bare value statement is not listed: its (empty) effect does not move the IL state
          rw [consEff_bare hb]
          have h0 := compileStmt_bare hb he
          subst h0
          have := ExecIL_det hx1 ExecIL_empty
          subst this
          exact ⟨σIL2, hx2, hinv2⟩
    · intro v cond step body st bs st' cc stepE loopBody σC σIL σC' hcc hbs hshape hwfb hWF hinv hex
      rw [loopC] at hex
      obtain ⟨vc, hvc, hex1⟩ := bind_ok hex
      obtain ⟨b, hb, hex2⟩ := bind_ok hex1
      clear hex hex1
      have hsim := expr_sim hE henv (hinv.rel.agreeOn _ _ _) hinv.inv hinv.immVal (hWF.mono (by simp)) hvc hcc
      have hcond := sim_cond hsim hb
      cases b with
      | false =>
        simp only [Bool.false_eq_true, ↓reduceIte, Except.ok.injEq] at hex2
        subst hex2
        exact ⟨σIL, ExecIL_repeat_false hcond, hinv⟩
      | true =>
        simp only [↓reduceIte] at hex2
        obtain ⟨σ1, hb1, hex3⟩ := bind_ok hex2
        obtain ⟨σIL1, hx1, hinv1⟩ := ihS body st bs st' σC σIL σ1 hbs hwfb
          (hWF.mono (fun _ h => List.mem_cons_of_mem _ h)) hinv hb1
        split at hex3
        · rename_i w x hl
          obtain ⟨σIL2, hx2, hinv2⟩ := hshape.step σ1 σIL1 w x hinv1 hl
          obtain ⟨σIL', hx3, hinv'⟩ := ihL v cond step body st bs st' cc stepE loopBody _ σIL2 σC' hcc hbs hshape hwfb hWF hinv2 hex3
          exact ⟨σIL', ExecIL_repeat_true hcond (hshape.body _ _ _ hx1 hx2) hx3, hinv'⟩
        · simp at hex3

/-- **C05 (T1), statements.** Under `Cfg.fixed`, if the C statement `s` runs from `σC` to `σC'` and the
    IL state `σIL` is related to `σC`, the compiled effect runs from `σIL` to a state related to `σC'`.
    `Inv c` is `StRel` plus the IL-side invariant (`SInv`: locals have their declared widths, every
    immediate letter of the behaviour is set to a 32-bit value, source operands are unwritten) plus `immVal` (the IL
    local of every registered immediate letter holds the 32-bit value of the C side's CURRENT immediate — so the
    invariant survives an assignment to an immediate, `riV = riV & ~3`) plus "no `h_tmpN` and no immediate letter is a
    local on the C side".  `StRel` itself does not relate the two `imm` components. -/
theorem stmt_correct_fixed {s : CStmt} {st st' : TSt} {eff : ILEffect}
    (hcomp : compileStmt env st s = .ok (eff, st')) (hwf : WFStmt c s = true)
    (hWF : WFHyp ms WF c (exprsOf s)) {σC σIL σC' : MState} (hinv : Inv c σC σIL)
    (hex : ExecC ms s σC σC') :
    ∃ σIL', ExecIL ms eff σIL σIL' ∧ Inv c σC' σIL' := by
  obtain ⟨f, hf⟩ := ExecC_iff.1 hex
  exact (stmt_main hE henv hc f).1 s st eff st' σC σIL σC' hcomp hwf hWF hinv hf

/-- the same for statement lists (blocks) -/
theorem stmts_correct_fixed {ss : List CStmt} {st st' : TSt} {effs : List ILEffect}
    (hcomp : compileStmts env st ss = .ok (effs, st')) (hwf : WFStmts c ss = true)
    (hWF : WFHyp ms WF c (exprsOfList ss)) {σC σIL σC' : MState} (hinv : Inv c σC σIL)
    (hex : ExecCs ms ss σC σC') :
    ∃ σIL', ExecSeqIL ms effs σIL σIL' ∧ Inv c σC' σIL' := by
  obtain ⟨f, hf⟩ := ExecCs_iff.1 hex
  exact (stmt_main hE henv hc f).2.1 ss st effs st' σC σIL σC' hcomp hwf hWF hinv hf

/-- the conclusion in the form of the specification: related final states (`StRel`: registers, `.new` bank, memory,
    store log, packet address, every C local; NOT the immediates — after `riV = e` the C side has a new `imm "r"`,
    the IL side a new LOCAL `r`; that correspondence is `Inv.immVal`, kept by `stmt_correct_fixed`) -/
theorem stmt_correct_fixed_rel {s : CStmt} {st st' : TSt} {eff : ILEffect}
    (hcomp : compileStmt env st s = .ok (eff, st')) (hwf : WFStmt c s = true)
    (hWF : WFHyp ms WF c (exprsOf s)) {σC σIL σC' : MState} (hinv : Inv c σC σIL)
    (hex : ExecC ms s σC σC') :
    ∃ σIL', ExecIL ms eff σIL σIL' ∧ StRel σC' σIL' := by
  obtain ⟨σIL', h1, h2⟩ := stmt_correct_fixed hE henv hc hcomp hwf hWF hinv hex
  exact ⟨σIL', h1, h2.rel⟩

end Main

/-! ## whole behaviours -/

/-- **C05 (T1), whole behaviour.** Both sides start from the same state without locals (in particular with the SAME
    immediates: the prologue reads them); the C program and the compiled effect (prologue setting all immediates, then
    the statements) end in related states.  `StRel` does not relate the immediates of the final states: they are not an
    observable output, and the behaviour may assign to them.  For behaviours that do not, `imm_eq_of_noImmTargets`
    (Lemmas/ImmFrame.lean) adds `σC'.imm = σIL'.imm`. -/
theorem prog_correct_fixed {ms : MacroSem} {WF : MState → CExpr → Prop} (hE : ExprOK ms WF)
    {c : Ctx} (hc : c.ok = true) {prog : List CStmt} {eff : ILEffect}
    (hcomp : compileProg Cfg.fixed prog = .ok eff)
    (himms : ∀ l, l ∈ c.imms ↔ l ∈ progImms prog)
    (hwf : WFStmts c prog = true) (hWF : WFHyp ms WF c (exprsOfList prog))
    {σ0 σC' : MState} (hloc : σ0.locals = []) (hsrcs : ∀ ov ∈ c.srcs, σ0.written ov = false)
    (hex : ExecCs ms prog σ0 σC') :
    ∃ σIL', ExecIL ms eff σ0 σIL' ∧ StRel σC' σIL' := by
  unfold compileProg at hcomp
  obtain ⟨⟨es, st⟩, hcs, h⟩ := bind_ok hcomp
  simp only [Except.ok.injEq] at h
  subst h
  have hpi : progImms prog = st.imms.map (·.1) := by simp only [progImms, hcs]
  obtain ⟨σ1, hpro, h1, h2, h3, h4, h5, h6, h7, hout, hin⟩ := prologue_exec ms st.imms σ0
  have hnone : ∀ n, lookupS n σ0.locals = none := by intro n; rw [hloc]; rfl
  have hinv : Inv c σ0 σ1 := by
    refine ⟨⟨h1.symm, h2.symm, h3.symm, h4.symm, h6.symm, h7.symm, ?_⟩, ⟨?_, ?_, ?_⟩, ?_, ?_, ?_⟩
    · intro n v hn; rw [hnone] at hn; cases hn
    · intro n t v hn hv
      have hni : n ∉ st.imms.map (·.1) := by
        rw [← hpi]; intro hm
        exact (Ctx.ok_types hc hn).2.2 ((himms n).2 hm)
      rw [hout n hni, hnone] at hv; cases hv
    · intro l hl
      exact ⟨_, hin l (hpi ▸ (himms l).1 hl)⟩
    · intro ov hov; rw [h3]; exact hsrcs ov hov
    · intro l hl
      exact hin l (hpi ▸ (himms l).1 hl)
    · intro n _; exact hnone n
    · intro l _; exact hnone l
  obtain ⟨σIL', hx, hinv'⟩ := stmts_correct_fixed hE (env := { assigned := assignedOfList prog, cfg := Cfg.fixed })
    rfl hc hcs hwf hWF hinv hex
  exact ⟨σIL', mkSeq_exec.2 (ExecSeqIL_append hpro hx), hinv'.rel⟩

/-! ## T2: on the carve-out the lowering as coded is the repaired lowering -/

/-- **C05 (T2).** Given the expression-level T2 for `CarveE`, a statement in the carve-out `CarveS`
    (all its expressions in `CarveE`; every conversion the statement applies emits the same cast under
    both configurations; conditions wrapped alike; `+= -= *= <<= >>=` only on targets of at least 32 bit;
    `for` with step `v++`) is lowered to the same effect by `Cfg.asCode` and `Cfg.fixed`. -/
theorem stmt_asCode_eq_fixed {CarveE : CExpr → Bool} {env : CEnv} (hT2 : ExprT2 env CarveE) (st : TSt) (s : CStmt)
    (h : CarveS CarveE env s = true) :
    compileStmt { env with cfg := Cfg.asCode } st s = compileStmt { env with cfg := Cfg.fixed } st s :=
  T2_stmt hT2 s st h

theorem stmts_asCode_eq_fixed {CarveE : CExpr → Bool} {env : CEnv} (hT2 : ExprT2 env CarveE) (st : TSt)
    (ss : List CStmt) (h : CarveSs CarveE env ss = true) :
    compileStmts { env with cfg := Cfg.asCode } st ss = compileStmts { env with cfg := Cfg.fixed } st ss :=
  T2_stmts hT2 ss st h

/-- T2 for whole behaviours -/
theorem prog_asCode_eq_fixed {CarveE : CExpr → Bool} (prog : List CStmt)
    (hT2 : ExprT2 { assigned := assignedOfList prog, cfg := Cfg.fixed } CarveE)
    (h : CarveSs CarveE { assigned := assignedOfList prog, cfg := Cfg.fixed } prog = true) :
    compileProg Cfg.asCode prog = compileProg Cfg.fixed prog := by
  unfold compileProg
  have := T2_stmts hT2 prog { imms := [], hyb := 0 } h
  simp only [codeEnv, fixedEnv] at this
  simp only [this]

/-- T1 + T2: on the carve-out the lowering AS CODED preserves the C semantics (final states: `StRel`, which does not
    relate the immediates, see `prog_correct_fixed`) -/
theorem prog_correct_asCode_on_carveout {ms : MacroSem} {WF : MState → CExpr → Prop} (hE : ExprOK ms WF)
    {CarveE : CExpr → Bool} {prog : List CStmt}
    (hT2 : ExprT2 { assigned := assignedOfList prog, cfg := Cfg.fixed } CarveE)
    {c : Ctx} (hc : c.ok = true) {eff : ILEffect}
    (hcarve : CarveSs CarveE { assigned := assignedOfList prog, cfg := Cfg.fixed } prog = true)
    (hcomp : compileProg Cfg.asCode prog = .ok eff)
    (himms : ∀ l, l ∈ c.imms ↔ l ∈ progImms prog)
    (hwf : WFStmts c prog = true) (hWF : WFHyp ms WF c (exprsOfList prog))
    {σ0 σC' : MState} (hloc : σ0.locals = []) (hsrcs : ∀ ov ∈ c.srcs, σ0.written ov = false)
    (hex : ExecCs ms prog σ0 σC') :
    ∃ σIL', ExecIL ms eff σ0 σIL' ∧ StRel σC' σIL' := by
  rw [prog_asCode_eq_fixed prog hT2 hcarve] at hcomp
  exact prog_correct_fixed hE hc hcomp himms hwf hWF hloc hsrcs hex

/-! ## T3: outside the carve-out the two lowerings differ -/

mutual
def pureSize : ILPure → Nat
  | .un _ a => pureSize a + 1
  | .bin _ a b => pureSize a + pureSize b + 1
  | .cast _ f a => pureSize f + pureSize a + 1
  | .signed _ a => pureSize a + 1
  | .unsigned _ a => pureSize a + 1
  | .ite c a b => pureSize c + pureSize a + pureSize b + 1
  | .let_ _ v b => pureSize v + pureSize b + 1
  | .loadw _ a => pureSize a + 1
  | .inc a _ => pureSize a + 1
  | .dec a _ => pureSize a + 1
  | .macro _ args => puresSize args + 1
  | _ => 1
def puresSize : List ILPure → Nat
  | [] => 0
  | a :: as => pureSize a + puresSize as
end
mutual
def effSize : ILEffect → Nat
  | .setl _ v => pureSize v + 1
  | .writeReg _ _ v => pureSize v + 1
  | .storew a v => pureSize a + pureSize v + 1
  | .seqn es => effsSize es + 1
  | .branch c t e => pureSize c + effSize t + effSize e + 1
  | .repeat_ c b => pureSize c + effSize b + 1
  | .call _ args => puresSize args + 1
  | _ => 1
def effsSize : List ILEffect → Nat
  | [] => 0
  | e :: es => effSize e + effsSize es
end

def sizeOfRes : Except String ILEffect → Option Nat
  | .ok e => some (effSize e)
  | .error _ => none

/-- `int16_t a = RsV; a += 100000; RdV = a;` -/
def t3prog : List CStmt :=
  [.decl ⟨true, 16⟩ "a" (some (.reg "RsV" .src ⟨true, 32⟩)),
   .assign (.var "a" ⟨true, 16⟩) "+=" (.lit 100000 false ""),
   .assign (.reg "RdV" .dst ⟨true, 32⟩) "=" (.var "a" ⟨true, 16⟩)]

set_option maxRecDepth 4000 in
/-- **C05 (T3).** Compound assignment to a 16-bit local: the code does not convert the 32-bit sum back
    to `int16_t` (`compoundNoConvertBack`), the repaired lowering does — the emitted trees differ
    (27 against 44 nodes) -/
theorem t3_compound_narrow_differs : compileProg Cfg.asCode t3prog ≠ compileProg Cfg.fixed t3prog := by
  intro h
  have : sizeOfRes (compileProg Cfg.asCode t3prog) = sizeOfRes (compileProg Cfg.fixed t3prog) := by rw [h]
  revert this
  decide

/-- the witness is outside the carve-out, for every expression carve-out -/
theorem t3_not_carved (CarveE : CExpr → Bool) :
    CarveSs CarveE { assigned := assignedOfList t3prog, cfg := Cfg.fixed } t3prog = false := by
  have h2 : ∀ env, CarveS CarveE env (.assign (.var "a" ⟨true, 16⟩) "+=" (.lit 100000 false "")) = false := by
    intro env
    simp (config := { decide := true }) [CarveS, compileExpr, fixedEnv, assignCarve, CT.toVT, Cfg.fixed]
  simp only [t3prog, CarveSs, h2, Bool.false_and, Bool.and_false]

/-! ## named facts of the property (semantics of the emitted shapes) -/

/-- `if_exactly_one_arm`: a `BRANCH` runs exactly one of its arms, selected by the condition -/
theorem if_exactly_one_arm {ms : MacroSem} {c : ILPure} {t e : ILEffect} {σ σ' : MState}
    (h : ExecIL ms (.branch c t e) σ σ') :
    (evalPure ms σ [] c = .ok (.bool true) ∧ ExecIL ms t σ σ') ∨
    (evalPure ms σ [] c = .ok (.bool false) ∧ ExecIL ms e σ σ') := by
  obtain ⟨F, h⟩ := h
  have h' := h (F+1) (by omega)
  rw [execIL] at h'
  obtain ⟨vc, hvc, h2⟩ := bind_ok h'
  split at h2
  · exact Or.inl ⟨hvc, ⟨F, execIL_mono h2⟩⟩
  · exact Or.inr ⟨hvc, ⟨F, execIL_mono h2⟩⟩
  · simp at h2

/-- the two alternatives exclude each other (the condition has one value) -/
theorem if_arms_exclusive {ms : MacroSem} {c : ILPure} {σ : MState} :
    ¬ (evalPure ms σ [] c = .ok (.bool true) ∧ evalPure ms σ [] c = .ok (.bool false)) := by
  rintro ⟨h1, h2⟩; rw [h1] at h2; cases h2

/-- one unfolding of `REPEAT` -/
theorem repeat_unfold {ms : MacroSem} {c : ILPure} {b : ILEffect} {σ σ' : MState} :
    ExecIL ms (.repeat_ c b) σ σ' ↔
      (evalPure ms σ [] c = .ok (.bool false) ∧ σ' = σ) ∨
      (evalPure ms σ [] c = .ok (.bool true) ∧ ∃ σ1, ExecIL ms b σ σ1 ∧ ExecIL ms (.repeat_ c b) σ1 σ') := by
  constructor
  · rintro ⟨F, h⟩
    have h' := h (F+1) (by omega)
    rw [execIL] at h'
    obtain ⟨vc, hvc, h2⟩ := bind_ok h'
    split at h2
    · obtain ⟨σ1, h3, h4⟩ := bind_ok h2
      exact Or.inr ⟨hvc, σ1, ⟨F, execIL_mono h3⟩, ⟨F, execIL_mono h4⟩⟩
    · exact Or.inl ⟨hvc, (Except.ok.inj h2).symm⟩
    · simp at h2
  · rintro (⟨hc, rfl⟩ | ⟨hc, σ1, h1, h2⟩)
    · exact ExecIL_repeat_false hc
    · exact ExecIL_repeat_true hc h1 h2

/-- `for_order`: the emitted loop `SEQN(init, REPEAT(cond, SEQN(body, step)))` runs `init` exactly once and
    then, while the condition holds, `body` followed by `step` -/
theorem for_order {ms : MacroSem} {init body step : ILEffect} {c : ILPure} {σ σ' : MState} :
    ExecIL ms (.seqn [init, .repeat_ c (.seqn [body, step])]) σ σ' ↔
      ∃ σ0, ExecIL ms init σ σ0 ∧ ExecIL ms (.repeat_ c (.seqn [body, step])) σ0 σ' := by
  rw [ExecIL_seqn]
  constructor
  · intro h
    obtain ⟨σ0, h1, h2⟩ := ExecSeqIL_cons_inv h
    obtain ⟨σ1, h3, h4⟩ := ExecSeqIL_cons_inv h2
    rw [ExecSeqIL_nil_inv h4]
    exact ⟨σ0, h1, h3⟩
  · rintro ⟨σ0, h1, h2⟩
    exact ExecSeqIL_cons h1 (ExecSeqIL_cons h2 ExecSeqIL_nil)

theorem for_iteration {ms : MacroSem} {body step : ILEffect} {σ σ2 : MState} :
    ExecIL ms (.seqn [body, step]) σ σ2 ↔ ∃ σ1, ExecIL ms body σ σ1 ∧ ExecIL ms step σ1 σ2 := by
  rw [ExecIL_seqn]
  constructor
  · intro h
    obtain ⟨σ1, h1, h2⟩ := ExecSeqIL_cons_inv h
    obtain ⟨σ3, h3, h4⟩ := ExecSeqIL_cons_inv h2
    rw [ExecSeqIL_nil_inv h4]
    exact ⟨σ1, h1, h3⟩
  · rintro ⟨σ1, h1, h2⟩
    exact ExecSeqIL_cons h1 (ExecSeqIL_cons h2 ExecSeqIL_nil)

theorem ExecIL_setl_inv {ms : MacroSem} {n : String} {v : ILPure} {σ σ' : MState} (h : ExecIL ms (.setl n v) σ σ') :
    ∃ vv, evalPure ms σ [] v = .ok vv ∧ σ' = { σ with locals := setLocal σ.locals n vv } := by
  obtain ⟨F, h⟩ := h
  have h' := h (F+1) (by omega)
  rw [execIL] at h'
  obtain ⟨vv, hvv, h2⟩ := bind_ok h'
  exact ⟨vv, hvv, (Except.ok.inj h2).symm⟩

theorem ExecIL_writeReg_inv {ms : MacroSem} {ctx : String} {r : RegRef} {v : ILPure} {σ σ' : MState}
    (h : ExecIL ms (.writeReg ctx r v) σ σ') :
    ∃ (w : Nat) (x : BitVec w), evalPure ms σ [] v = .ok (.bv w x) ∧
      σ' = { σ with new := fun k => if k == r.opvar then x.toNat else σ.new k,
                    written := fun k => if k == r.opvar then true else σ.written k } := by
  obtain ⟨F, h⟩ := h
  have h' := h (F+1) (by omega)
  rw [execIL] at h'
  obtain ⟨vv, hvv, h2⟩ := bind_ok h'
  split at h2
  · rename_i w x wr _
    split at h2
    · exact ⟨w, x, hvv, (Except.ok.inj h2).symm⟩
    · simp at h2
  · simp at h2

/-- `assign_updates_only_target` (IL side): the effect emitted for an assignment changes only its target:
    a local target leaves registers, memory and every other local alone; a register target leaves locals,
    memory and every other operand alone -/
theorem assign_updates_only_target {ms : MacroSem} {env : CEnv} {lhs : CExpr} {op : String} {ce : CE}
    {eff : ILEffect} {src : CE} (hcomp : compileAssign env lhs op ce = .ok (eff, src))
    {σ σ' : MState} (hx : ExecIL ms eff σ σ') :
    σ'.mem = σ.mem ∧ σ'.cur = σ.cur ∧ σ'.imm = σ.imm ∧ σ'.pktAddr = σ.pktAddr ∧ σ'.stores = σ.stores ∧
    (match (generalizing := false) lhs with
     | .var n _ => σ'.new = σ.new ∧ σ'.written = σ.written ∧ ∀ k, k ≠ n → lookupS k σ'.locals = lookupS k σ.locals
     | .reg n k _ => σ'.locals = σ.locals ∧
         ∀ q, q ≠ opvarOf n k → σ'.new q = σ.new q ∧ σ'.written q = σ.written q
     | _ => True) := by
  unfold compileAssign at hcomp
  obtain ⟨cd, _, h1⟩ := bind_ok hcomp
  obtain ⟨s0, _, h2⟩ := bind_ok h1
  obtain ⟨eff', hdw, h3⟩ := bind_ok h2
  simp only [Except.ok.injEq, Prod.mk.injEq] at h3
  obtain ⟨rfl, _⟩ := h3
  cases lhs with
  | var n t =>
    simp only [destWrite, Except.ok.injEq] at hdw
    subst hdw
    obtain ⟨vv, _, rfl⟩ := ExecIL_setl_inv hx
    refine ⟨rfl, rfl, rfl, rfl, rfl, rfl, rfl, ?_⟩
    intro k hk
    exact lookupS_setLocal_ne hk _ _
  | reg n k t =>
    simp only [destWrite, Except.ok.injEq] at hdw
    subst hdw
    obtain ⟨w, x, _, rfl⟩ := ExecIL_writeReg_inv hx
    refine ⟨rfl, rfl, rfl, rfl, rfl, rfl, ?_⟩
    intro q hq
    simp [hq]
  | imm l s =>
    simp only [destWrite, Except.ok.injEq] at hdw
    subst hdw
    obtain ⟨vv, _, rfl⟩ := ExecIL_setl_inv hx
    exact ⟨rfl, rfl, rfl, rfl, rfl, trivial⟩
  | _ => simp [destWrite] at hdw

/-- the same on the C side: `writeLhsC` changes only the target -/
theorem assignC_updates_only_target {lhs : CExpr} {v : Val} {σ σ' : MState} (h : writeLhsC σ lhs v = .ok σ') :
    σ'.mem = σ.mem ∧ σ'.cur = σ.cur ∧ σ'.pktAddr = σ.pktAddr ∧ σ'.stores = σ.stores ∧
    (match (generalizing := false) lhs with
     | .var n _ => σ'.imm = σ.imm ∧ σ'.new = σ.new ∧ σ'.written = σ.written ∧
         ∀ k, k ≠ n → lookupS k σ'.locals = lookupS k σ.locals
     | .reg n k _ => σ'.imm = σ.imm ∧ σ'.locals = σ.locals ∧
         ∀ q, q ≠ opvarOf n k → σ'.new q = σ.new q ∧ σ'.written q = σ.written q
     | .imm l _ => σ'.new = σ.new ∧ σ'.written = σ.written ∧ σ'.locals = σ.locals ∧
         ∀ q, q ≠ l → σ'.imm q = σ.imm q        -- an assignable immediate (`riV = riV & ~3`)
     | _ => True) := by
  cases lhs with
  | var n t =>
    simp only [writeLhsC, Except.ok.injEq] at h
    subst h
    exact ⟨rfl, rfl, rfl, rfl, rfl, rfl, rfl, fun k hk => lookupS_setLocal_ne hk _ _⟩
  | reg n k t =>
    cases v with
    | bv w x =>
      simp only [writeLhsC, writeRegC, Except.ok.injEq] at h
      subst h
      refine ⟨rfl, rfl, rfl, rfl, rfl, rfl, ?_⟩
      intro q hq
      simp [hq]
    | _ => simp [writeLhsC, writeRegC] at h
  | imm l s =>
    cases v with
    | bv w x =>
      simp only [writeLhsC, Except.ok.injEq] at h
      subst h
      refine ⟨rfl, rfl, rfl, rfl, rfl, rfl, rfl, ?_⟩
      intro q hq
      simp [hq]
    | _ => simp [writeLhsC] at h
  | _ => simp [writeLhsC] at h

/-! ## the side condition of chained assignment is necessary (model finding) -/

def noMacros : MacroSem := fun _ _ => none
def i32 : CT := ⟨true, 32⟩

/-- `int a = 1; int b = 2; a = b += a;` — the outer target `a` is read by the inner source -/
def chainProg : List CStmt :=
  [.decl i32 "a" (some (.lit 1 false "")), .decl i32 "b" (some (.lit 2 false "")),
   .chain (.var "a" i32) (.var "b" i32) "+=" (.var "a" i32)]

def finalLocal (n : String) : Except Stuck MState → Option Val
  | .ok σ => lookupS n σ.locals
  | .error _ => none

def runIL (cfg : Cfg) (p : List CStmt) (fuel : Nat) (σ : MState) : Except Stuck MState :=
  match compileProg cfg p with
  | .ok eff => execIL noMacros [] fuel eff σ
  | .error _ => .error (.undef "compile")

set_option maxRecDepth 8000 in
/-- C: `b += a` uses the old `a`: `b = 3` -/
theorem chain_counterexample_C : finalLocal "b" (execCs noMacros 10 chainProg default) = some (.bv 32 3) := by
  decide

set_option maxRecDepth 8000 in
/-- lowering (both configurations): `SEQN(SETL(a, b + a), SETL(b, b + a))` — the inner source is evaluated
    after `a` was overwritten: `b = 5`.  Hence `targetIndep lhs1 [lhs2, e]` in `WFStmt` cannot be dropped. -/
theorem chain_counterexample_IL :
    finalLocal "b" (runIL Cfg.fixed chainProg 10 default) = some (.bv 32 5) ∧
    finalLocal "b" (runIL Cfg.asCode chainProg 10 default) = some (.bv 32 5) := by
  decide

/-! ## non-vacuity: a concrete instance of all hypotheses of `prog_correct_fixed` and of T2 -/

/-- a small instance of the expression theorem, proved here directly: locals (bound to a value of their
    width) and literals -/
def WFSimple (σ : MState) : CExpr → Prop
  | .var n t => ∃ x : BitVec t.width, lookupS n σ.locals = some (.bv t.width x)
  | .lit _ _ _ => True
  | _ => False

theorem exprOK_simple (ms : MacroSem) : ExprOK ms WFSimple := by
  intro σ env e ce vC henv hwf hev hce
  cases e with
  | var n t =>
    obtain ⟨x, hx⟩ := hwf
    simp only [evalC, hx, Except.ok.injEq] at hev
    simp only [compileExpr, Except.ok.injEq] at hce
    subst hev; subst hce
    have hb : (CT.toVT t).hasFlag VT.gBOOL = false := by simp [CT.toVT, VT.hasFlag, VT.gBOOL]
    refine ⟨.bv t.width x, by simp only [evalPure, hx], ?_, ?_⟩
    · simp [Rel, hb]
    · simp only [TyOK, hb, Bool.false_eq_true, ↓reduceIte]
      exact ⟨rfl, rfl, x, rfl⟩
  | lit v h sfx =>
    simp only [evalC, Except.ok.injEq] at hev
    simp only [compileExpr, henv, Cfg.fixed, Bool.false_eq_true, ↓reduceIte, Except.ok.injEq] at hce
    subst hev; subst hce
    have hb : (CT.toVT (litTypeC v h sfx)).hasFlag VT.gBOOL = false := by simp [CT.toVT, VT.hasFlag, VT.gBOOL]
    refine ⟨.bv (litTypeC v h sfx).width (BitVec.ofInt _ v), by simp only [numberIL, evalPure, CT.toVT], ?_, ?_⟩
    · simp [Rel, hb, BitVec.ofInt_natCast]
    · simp only [TyOK, hb, Bool.false_eq_true, ↓reduceIte, typeOfC]
      exact ⟨rfl, rfl, _, rfl⟩
  | _ => exact absurd hwf (by simp [WFSimple])

/-- `int c = 1; int i; for (i = 0; c; i++) { c = 0; }  int16_t b = c; b += c; if (b) { c = b; } else { ; }`
    (one loop iteration, data dependent) -/
def demoProg : List CStmt :=
  [.decl i32 "c" (some (.lit 1 false "")),
   .decl i32 "i" none,
   .for_ "i" (.var "c" i32) 0 [.assign (.var "c" i32) "=" (.lit 0 false "")],
   .decl ⟨true, 16⟩ "b" (some (.var "c" i32)),
   .assign (.var "b" ⟨true, 16⟩) "+=" (.var "c" i32),
   .ite (.var "b" ⟨true, 16⟩) [.assign (.var "c" i32) "=" (.var "b" ⟨true, 16⟩)] (some [.skip ";"])]

def demoCtx : Ctx := { types := [("c", i32), ("i", i32), ("b", ⟨true, 16⟩)], imms := [], srcs := [] }

def isOk {ε α : Type} : Except ε α → Bool
  | .ok _ => true
  | .error _ => false

theorem isOk_elim {ε α : Type} {x : Except ε α} (h : isOk x = true) : ∃ a, x = .ok a := by
  cases x with
  | ok a => exact ⟨a, rfl⟩
  | error e => simp [isOk] at h

set_option maxRecDepth 8000 in
/-- every hypothesis of `prog_correct_fixed` holds for `demoProg` (so the theorem is not vacuous), and its
    conclusion follows -/
example : ∃ eff σC' σIL', compileProg Cfg.fixed demoProg = .ok eff ∧ ExecCs noMacros demoProg default σC' ∧
    ExecIL noMacros eff default σIL' ∧ StRel σC' σIL' := by
  obtain ⟨eff, hcomp⟩ := isOk_elim (x := compileProg Cfg.fixed demoProg) (by decide)
  obtain ⟨σC', hC⟩ := isOk_elim (x := execCs noMacros 12 demoProg default) (by decide)
  have hex : ExecCs noMacros demoProg default σC' := ExecCs_iff.2 ⟨12, hC⟩
  have hc : demoCtx.ok = true := by decide
  have hwf : WFStmts demoCtx demoProg = true := by decide
  have himms : ∀ l, l ∈ demoCtx.imms ↔ l ∈ progImms demoProg := by
    have : progImms demoProg = [] := by decide
    intro l; rw [this]; simp [demoCtx]
  have hWF : WFHyp noMacros WFSimple demoCtx (exprsOfList demoProg) := by
    intro e he σ vC hinv _ hev
    simp (config := { decide := true }) [demoProg, exprsOfList, exprsOf] at he
    have hvar : ∀ n t, lookupS n demoCtx.types = some t → evalC noMacros σ (.var n t) = .ok vC →
        WFSimple σ (.var n t) := by
      intro n t ht hv
      simp only [evalC] at hv
      cases hl : lookupS n σ.locals with
      | none => rw [hl] at hv; simp at hv
      | some w =>
        obtain ⟨x, rfl⟩ := hinv.typed n t w ht hl
        exact ⟨x, hl⟩
    rcases he with rfl | rfl | rfl | rfl | rfl | rfl | rfl
    all_goals first
      | exact trivial
      | exact hvar _ _ (by decide) hev
  obtain ⟨σIL', hx, hrel⟩ := prog_correct_fixed (exprOK_simple noMacros) hc hcomp himms hwf hWF rfl
    (fun ov h => by simp [demoCtx] at h) hex
  exact ⟨eff, σC', σIL', hcomp, hex, hx, hrel⟩

/-- T2 instance: expression carve-out "locals only" (their lowering does not look at the configuration) -/
def carveVar : CExpr → Bool
  | .var _ _ => true
  | _ => false

theorem exprT2_var (env : CEnv) : ExprT2 env carveVar := by
  intro e h
  cases e <;> simp [carveVar] at h
  simp only [compileExpr]

/-- `int32_t b = a; a = b; a += b; a &= b; if (a) { b = a; } for (i = 0; a; i++) { a = b; }` -/
def demoProgT2 : List CStmt :=
  [.decl i32 "b" (some (.var "a" i32)),
   .assign (.var "a" i32) "=" (.var "b" i32),
   .assign (.var "a" i32) "+=" (.var "b" i32),
   .assign (.var "a" i32) "&=" (.var "b" i32),
   .ite (.var "a" i32) [.assign (.var "b" i32) "=" (.var "a" i32)] none,
   .for_ "i" (.var "a" i32) 0 [.assign (.var "a" i32) "=" (.var "b" i32)]]

set_option maxRecDepth 8000 in
/-- the hypotheses of T2 hold for `demoProgT2`; hence both configurations emit the same effect -/
example : compileProg Cfg.asCode demoProgT2 = compileProg Cfg.fixed demoProgT2 :=
  prog_asCode_eq_fixed demoProgT2 (exprT2_var _) (by decide)

/-! ## the theorem without the static side conditions `WFStmt` (NOT claimed: refuted) -/

/-- `stmt_correct_fixed` with the hypothesis `WFStmt c s = true` dropped -/
def stmt_correct_fixed_unrestricted_statement : Prop :=
  ∀ (ms : MacroSem) (WF : MState → CExpr → Prop), ExprOK ms WF →
  ∀ (c : Ctx) (env : CEnv), env.cfg = Cfg.fixed → c.ok = true →
  ∀ (s : CStmt) (st st' : TSt) (eff : ILEffect), compileStmt env st s = .ok (eff, st') →
    WFHyp ms WF c (exprsOf s) →
  ∀ (σC σIL σC' : MState), Inv c σC σIL → ExecC ms s σC σC' →
    ∃ σIL', ExecIL ms eff σIL σIL' ∧ StRel σC' σIL'

def chainStmt : CStmt := .chain (.var "a" i32) (.var "b" i32) "+=" (.var "a" i32)
def chainCtx : Ctx := { types := [("a", i32), ("b", i32)], imms := [], srcs := [] }
def chainEnv : CEnv := { assigned := [], cfg := Cfg.fixed }
def chainState : MState := { (default : MState) with locals := [("a", .bv 32 1), ("b", .bv 32 2)] }

def runStmtIL (s : CStmt) (fuel : Nat) (σ : MState) : Except Stuck MState :=
  match compileStmt chainEnv { imms := [], hyb := 0 } s with
  | .ok (eff, _) => execIL noMacros [] fuel eff σ
  | .error _ => .error (.undef "compile")

theorem lookupS_two {α : Type} {n a b : String} {x y v : α} (h : lookupS n [(a, x), (b, y)] = some v) :
    (n = a ∧ v = x) ∨ (n = b ∧ v = y) := by
  simp only [lookupS] at h
  by_cases h1 : n = a
  · simp [h1] at h; exact Or.inl ⟨h1, h.symm⟩
  · by_cases h2 : n = b
    · subst h2
      simp [h1] at h; exact Or.inr ⟨rfl, h.symm⟩
    · simp [h1, h2] at h

set_option maxRecDepth 8000 in
/-- `a = b += a` (targets and operands all locals): the statement theorem fails without `WFStmt`, which for
    chained assignment demands that the outer target is read neither by the inner target nor by `e` -/
theorem stmt_correct_fixed_unrestricted_false : ¬ stmt_correct_fixed_unrestricted_statement := by
  intro H
  obtain ⟨⟨eff, st'⟩, hcomp⟩ := isOk_elim (x := compileStmt chainEnv { imms := [], hyb := 0 } chainStmt) (by decide)
  obtain ⟨σC', hC⟩ := isOk_elim (x := execC noMacros 5 chainStmt chainState) (by decide)
  have hWF : WFHyp noMacros WFSimple chainCtx (exprsOf chainStmt) := by
    intro e he σ vC hinv _ hev
    simp (config := { decide := true }) [chainStmt, exprsOf] at he
    have hvar : ∀ n t, lookupS n chainCtx.types = some t → evalC noMacros σ (.var n t) = .ok vC →
        WFSimple σ (.var n t) := by
      intro n t ht hv
      simp only [evalC] at hv
      cases hl : lookupS n σ.locals with
      | none => rw [hl] at hv; simp at hv
      | some w =>
        obtain ⟨x, rfl⟩ := hinv.typed n t w ht hl
        exact ⟨x, hl⟩
    rcases he with rfl | rfl <;> exact hvar _ _ (by decide) hev
  have hinv : Inv chainCtx chainState chainState := by
    refine ⟨StRel.refl _, ⟨?_, ?_, ?_⟩, ?_, ?_, ?_⟩
    · intro n t v hn hv
      rcases lookupS_two hn with ⟨rfl, rfl⟩ | ⟨rfl, rfl⟩ <;>
        rcases lookupS_two hv with ⟨h, rfl⟩ | ⟨h, rfl⟩ <;> first | exact ⟨_, rfl⟩ | (revert h; decide)
    · intro l hl; simp [chainCtx] at hl
    · intro ov hov; simp [chainCtx] at hov
    · intro l hl; simp [chainCtx] at hl
    · intro n hn
      cases hl : lookupS n chainState.locals with
      | none => rfl
      | some v =>
        exfalso
        rcases lookupS_two hl with ⟨rfl, _⟩ | ⟨rfl, _⟩ <;> (revert hn; decide)
    · intro l hl; simp [chainCtx] at hl
  obtain ⟨σIL', hx, hrel⟩ := H noMacros WFSimple (exprOK_simple _) chainCtx chainEnv rfl (by decide)
    chainStmt _ st' eff hcomp hWF chainState chainState σC' hinv (ExecC_iff.2 ⟨5, hC⟩)
  -- the C side ends with b = 3
  have hbC : lookupS "b" σC'.locals = some (.bv 32 3) := by
    have : finalLocal "b" (execC noMacros 5 chainStmt chainState) = some (.bv 32 3) := by decide
    rw [hC] at this; exact this
  -- the IL side ends with b = 5
  have hIL : runStmtIL chainStmt 5 chainState = execIL noMacros [] 5 eff chainState := by
    simp only [runStmtIL, hcomp]
  obtain ⟨σX, hX⟩ := isOk_elim (x := runStmtIL chainStmt 5 chainState) (by decide)
  have hbX : lookupS "b" σX.locals = some (.bv 32 5) := by
    have : finalLocal "b" (runStmtIL chainStmt 5 chainState) = some (.bv 32 5) := by decide
    rw [hX] at this; exact this
  rw [hIL] at hX
  have : σIL' = σX := ExecIL_det hx (ExecIL_iff.2 ⟨5, hX⟩)
  subst this
  have := hrel.locals _ _ hbC
  rw [hbX] at this
  revert this; decide

end C05
end Rzil
