import RzilVerif.Model.Compile
/-!
# C05 — statements (first version; the full preservation theorem is being proved separately)
-/
namespace Rzil

/-- `Sequence` drops `EMPTY()` members. -/
theorem mkSeq_nil : mkSeq [] = .empty := rfl
theorem mkSeq_empty_only : mkSeq [.empty, .empty] = .empty := rfl
theorem mkSeq_single (e : ILEffect) (h : e ≠ .empty) : mkSeq [e] = e := by
  cases e <;> simp_all [mkSeq]

/-- A compound assignment is the simple assignment of the operator applied to the target. -/
theorem compound_is_assign_of_op (lhs e : CExpr) : compoundExpr lhs "+=" e = .bin "+" lhs e := rfl

end Rzil
