import RzilVerif.Lemmas.C10Lemmas
/-!
# C10 — every emitted effect is well-sorted on every execution path

The per-output checker is `wfEffect` (`Model/ILSort.lean`); it is run on the compiler's real output.
This file gives the checker its meaning: **soundness** w.r.t. the executable semantics of
`Model/ILSem.lean` — a term accepted by the checker never hits a sort error (`Stuck.sort`) when it is
evaluated/executed, on any path, for any fuel.

Vocabulary (definitions in `Lemmas/C10Lemmas.lean`, `Model/ILSortAux.lean`):

* `LocalsAgree Γ vals`  — strong agreement: every statically known name is bound, with its sort;
* `WeakAgree Γ vals`    — every *bound* name that is statically known has its static sort;
* `ParamsAgree P vals`  — the run-time parameter list has exactly the declared names and sorts;
* `MacroOk al ms macros`— oracle contract of the uninterpreted plugin macros (`al` = tolerated errors);
* `SubsOk macros sigs subs` — sub-routine bodies are accepted under their signatures;
* `SlotOk Δ`            — `$slot_cancelled`, if known statically, is boolean.

Deviations from the literal task statement, all forced by counter-examples proved below:

* for effects the invariant is **weak** agreement with the checker's *final* locals `Γ'`:
  strong agreement with `Γ'` is false after a `REPEAT` that runs zero times or a `BRANCH` that sets a
  local in one arm only (`wfEffect_sound_strong_statement_false`), and weak agreement with the
  *initial* `Γ` only is not enough because an untracked garbage local can later be read at another
  sort (`wfEffect_sound_weak_hyp_statement_false`). `wfEffect_sound_tracked` gives the statement
  with a hypothesis on `Γ` only (`LocalsTracked`, trivially true for the empty local store);
* parameters need exact agreement (`ParamsAgree`): with `LocalsAgree env.params σ.params` only, a
  run-time parameter named `hi` would shadow the external `hi` the checker types as `.ext`.
-/
namespace Rzil

/-! ## 1. Operators -/

/-- `unSort`/`binSort` are literally the operator rules of `sortOf`. -/
theorem sortOf_un_eq (env : SortEnv) (Γ Λ : Locals) (op : UnOp) (a : ILPure) :
    sortOf env Γ Λ (.un op a) = (sortOf env Γ Λ a >>= unSort op) := sortOf_un env Γ Λ op a

theorem sortOf_bin_eq (env : SortEnv) (Γ Λ : Locals) (op : BinOp) (a b : ILPure) :
    sortOf env Γ Λ (.bin op a b) =
      (sortOf env Γ Λ a >>= fun sa => sortOf env Γ Λ b >>= fun sb => binSort op sa sb) :=
  sortOf_bin env Γ Λ op a b

/-- A unary operator accepted on an operand sort evaluates, on any value of that sort, to a value
    of the computed sort. -/
theorem evalUn_sound {op : UnOp} {a : Val} {sa s : ILSort} (ha : a.sort = sa)
    (h : unSort op sa = .ok s) : ∃ v, evalUn op a = .ok v ∧ v.sort = s := evalUn_ok ha h

example : (Val.bv 32 5#32).sort = .bv 32 ∧ unSort .msb (.bv 32) = .ok .bool := ⟨rfl, rfl⟩

/-- Same for binary operators (arithmetic and comparisons need equal widths, shifts do not,
    `AND`/`OR` are boolean). -/
theorem evalBin_sound {op : BinOp} {a b : Val} {sa sb s : ILSort} (ha : a.sort = sa) (hb : b.sort = sb)
    (h : binSort op sa sb = .ok s) : ∃ v, evalBin op a b = .ok v ∧ v.sort = s := evalBin_ok ha hb h

example : (Val.bv 32 5#32).sort = .bv 32 ∧ (Val.bv 8 1#8).sort = .bv 8 ∧
    binSort .shiftl0 (.bv 32) (.bv 8) = .ok (.bv 32) ∧ binSort .slt (.bv 32) (.bv 32) = .ok .bool :=
  ⟨rfl, rfl, rfl, rfl⟩

/-! ## 2. Pures -/

/-- The macro contract is satisfiable for every macro table and every error tolerance, by the
    computable oracle `oracleOf` (non-vacuity of `MacroOk` in all theorems below). -/
theorem macroOk_oracle (al : Stuck → Prop) (macros : List (String × MacroSig)) :
    MacroOk al (oracleOf macros) macros := macroOk_oracleOf al macros

/-- **Soundness of `sortOf` (progress + preservation)**: under strong agreement of locals and
    LET-bound names a pure accepted at sort `s` evaluates to a value of sort `s`. -/
theorem sortOf_sound {ms : MacroSem} {env : SortEnv} {σ : MState} {Γ Λ : Locals}
    {lets : List (String × Val)} {p : ILPure} {s : ILSort}
    (hs : sortOf env Γ Λ p = .ok s) (hΓ : LocalsAgree Γ σ.locals) (hΛ : LocalsAgree Λ lets)
    (hP : ParamsAgree env.params σ.params) (hM : MacroOk NoError ms env.macros) :
    ∃ v, evalPure ms σ lets p = .ok v ∧ v.sort = s :=
  ResOk.noError.mp (sortOf_sound_gen NoError ms env σ Γ hP hM ((LocalsAgree_iff _ _).mp hΓ) p Λ lets s hs
    ((LocalsAgree_iff _ _).mp hΛ))

/-- The same for argument lists. -/
theorem sortsOf_sound {ms : MacroSem} {env : SortEnv} {σ : MState} {Γ Λ : Locals}
    {lets : List (String × Val)} {ps : List ILPure} {ss : List ILSort}
    (hs : sortsOf env Γ Λ ps = .ok ss) (hΓ : LocalsAgree Γ σ.locals) (hΛ : LocalsAgree Λ lets)
    (hP : ParamsAgree env.params σ.params) (hM : MacroOk NoError ms env.macros) :
    ∃ vs, evalPures ms σ lets ps = .ok vs ∧ vs.map Val.sort = ss := by
  have := sortsOf_sound_gen NoError ms env σ Γ hP hM ((LocalsAgree_iff _ _).mp hΓ) ps Λ lets ss hs
    ((LocalsAgree_iff _ _).mp hΛ)
  cases h : evalPures ms σ lets ps with
  | error e => rw [h] at this; exact this.elim
  | ok vs => rw [h] at this; exact ⟨vs, rfl, this⟩

/-- **Safety of `sortOf` under weak agreement** (the form the effect theorem uses: locals set on
    one path only may be unbound): no sort error, and any value has the computed sort. -/
theorem sortOf_safe {ms : MacroSem} {env : SortEnv} {σ : MState} {Γ Λ : Locals}
    {lets : List (String × Val)} {p : ILPure} {s : ILSort}
    (hs : sortOf env Γ Λ p = .ok s) (hΓ : WeakAgree Γ σ.locals) (hΛ : WeakAgree Λ lets)
    (hP : ParamsAgree env.params σ.params) (hM : MacroOk NotSort ms env.macros) :
    (∀ msg, evalPure ms σ lets p ≠ .error (.sort msg)) ∧
    (∀ v, evalPure ms σ lets p = .ok v → v.sort = s) :=
  ResOk.notSort.mp (sortOf_sound_gen NotSort ms env σ Γ hP hM ((WeakAgree_iff _ _).mp hΓ) p Λ lets s hs
    ((WeakAgree_iff _ _).mp hΛ))

namespace C10
/-- A concrete instance of all hypotheses of `sortOf_sound`/`sortOf_safe`. -/
def exEnv : SortEnv := { params := [("a", .bv 32)], macros := [("f", ⟨some (.bv 8), [some (.bv 32)]⟩)], subs := [] }
def exState : MState :=
  { (default : MState) with locals := [("x", .bv 32 7#32)], params := [("a", .bv 32 1#32)] }
def exPure : ILPure :=
  .let_ "t" (.bin .add (.varl "x") (.param "a")) (.macro "f" [.cast 32 .bfalse (.varlp "t")])

example : sortOf exEnv [("x", .bv 32)] [] exPure = .ok (.bv 8) := by with_unfolding_all rfl
example : LocalsAgree [("x", .bv 32)] exState.locals := by
  intro n s h
  simp only [lookupS_cons, lookupS_nil] at h
  split at h
  · next hn => cases h; subst hn; exact ⟨_, rfl, rfl⟩
  · cases h
example : LocalsAgree [] ([] : List (String × Val)) := fun n s h => by simp at h
example : ParamsAgree exEnv.params exState.params := by
  intro n
  simp only [exEnv, exState, lookupS_cons, lookupS_nil]
  split <;> rfl
example : MacroOk NoError (oracleOf exEnv.macros) exEnv.macros := macroOk_oracle _ _
/-- … and the conclusion on it, computed. -/
example : ∃ v, evalPure (oracleOf exEnv.macros) exState [] exPure = .ok v ∧ v.sort = .bv 8 :=
  ⟨.bv 8 0#8, by with_unfolding_all rfl, rfl⟩
end C10

/-! ## 3. Effects -/

/-- Every local bound at run time is known statically, with its sort (true of the empty store). -/
def LocalsTracked (Γ : Locals) (vals : List (String × Val)) : Prop :=
  ∀ n v, lookupS n vals = some v → lookupS n Γ = some v.sort

theorem LocalsTracked.nil (Γ : Locals) : LocalsTracked Γ [] := fun n v h => by simp at h

theorem LocalsTracked.weak {Γ Δ : Locals} {vals : List (String × Val)} (h : LocalsTracked Γ vals)
    (hs : Sub Γ Δ) : WeakAgree Δ vals := by
  intro n s v hn hv
  have := hs _ _ (h n v hv)
  rw [hn] at this; cases this; rfl

/-- The checker only ever adds locals. -/
theorem wfEffect_locals_mono {env : SortEnv} {Γ Γ' : Locals} {e : ILEffect}
    (h : wfEffect env Γ e = .ok Γ') : Sub Γ Γ' := wfEffect_mono env e Γ Γ' h

/-- **Soundness of `wfEffect`, general form.** `Δ` is any static map containing the checker's final
    locals; the store weakly agrees with `Δ` before, hence after, and execution never raises a sort
    error — for every fuel, every path, through loops (invariant: weak agreement with `Δ`) and
    through calls of sub-routines whose bodies satisfy `SubsOk`. -/
theorem wfEffect_sound_gen {ms : MacroSem} {subs : SubEnv} {env : SortEnv} {Γ Γ' Δ : Locals}
    {e : ILEffect} {σ : MState} (fuel : Nat)
    (hwf : wfEffect env Γ e = .ok Γ') (hΔ : Sub Γ' Δ) (hW : WeakAgree Δ σ.locals)
    (hP : ParamsAgree env.params σ.params) (hM : MacroOk NotSort ms env.macros)
    (hS : SubsOk env.macros env.subs subs) (hslot : SlotOk Δ) :
    (∀ msg, execIL ms subs fuel e σ ≠ .error (.sort msg)) ∧
    (∀ σ', execIL ms subs fuel e σ = .ok σ' → WeakAgree Δ σ'.locals ∧ σ'.params = σ.params) :=
  ExecOk.spec ((exec_sound_aux ms subs env.macros env.subs Δ hM fuel).1 e env Γ Γ' σ rfl rfl
    (Or.inr ⟨hS, hslot⟩) hwf hΔ hW hP)

/-- **Soundness of `wfEffect`** (with calls): `Δ := Γ'`. -/
theorem wfEffect_sound {ms : MacroSem} {subs : SubEnv} {env : SortEnv} {Γ Γ' : Locals}
    {e : ILEffect} {σ : MState} (fuel : Nat)
    (hwf : wfEffect env Γ e = .ok Γ') (hW : WeakAgree Γ' σ.locals)
    (hP : ParamsAgree env.params σ.params) (hM : MacroOk NotSort ms env.macros)
    (hS : SubsOk env.macros env.subs subs) (hslot : SlotOk Γ') :
    (∀ msg, execIL ms subs fuel e σ ≠ .error (.sort msg)) ∧
    (∀ σ', execIL ms subs fuel e σ = .ok σ' → WeakAgree Γ' σ'.locals ∧ σ'.params = σ.params) :=
  wfEffect_sound_gen fuel hwf (Sub.refl _) hW hP hM hS hslot

/-- **Soundness of `wfEffect` for call-free effects**: no contract on sub-routines, no `SlotOk`. -/
theorem wfEffect_sound_partial {ms : MacroSem} {subs : SubEnv} {env : SortEnv} {Γ Γ' : Locals}
    {e : ILEffect} {σ : MState} (fuel : Nat) (hnc : noCalls e = true)
    (hwf : wfEffect env Γ e = .ok Γ') (hW : WeakAgree Γ' σ.locals)
    (hP : ParamsAgree env.params σ.params) (hM : MacroOk NotSort ms env.macros) :
    (∀ msg, execIL ms subs fuel e σ ≠ .error (.sort msg)) ∧
    (∀ σ', execIL ms subs fuel e σ = .ok σ' → WeakAgree Γ' σ'.locals ∧ σ'.params = σ.params) :=
  ExecOk.spec ((exec_sound_aux ms subs env.macros env.subs Γ' hM fuel).1 e env Γ Γ' σ rfl rfl
    (Or.inl hnc) hwf (Sub.refl _) hW hP)

/-- The statement with a hypothesis on the *initial* locals only: a store all of whose locals are
    tracked by `Γ` (in particular the empty store an instruction starts from). -/
theorem wfEffect_sound_tracked {ms : MacroSem} {subs : SubEnv} {env : SortEnv} {Γ Γ' : Locals}
    {e : ILEffect} {σ : MState} (fuel : Nat)
    (hwf : wfEffect env Γ e = .ok Γ') (hT : LocalsTracked Γ σ.locals)
    (hP : ParamsAgree env.params σ.params) (hM : MacroOk NotSort ms env.macros)
    (hS : SubsOk env.macros env.subs subs) (hslot : SlotOk Γ') :
    (∀ msg, execIL ms subs fuel e σ ≠ .error (.sort msg)) ∧
    (∀ σ', execIL ms subs fuel e σ = .ok σ' → WeakAgree Γ' σ'.locals ∧ σ'.params = σ.params) :=
  wfEffect_sound fuel hwf (hT.weak (wfEffect_locals_mono hwf)) hP hM hS hslot

/-- Sequences. -/
theorem wfEffects_sound {ms : MacroSem} {subs : SubEnv} {env : SortEnv} {Γ Γ' : Locals}
    {es : List ILEffect} {σ : MState} (fuel : Nat)
    (hwf : wfEffects env Γ es = .ok Γ') (hW : WeakAgree Γ' σ.locals)
    (hP : ParamsAgree env.params σ.params) (hM : MacroOk NotSort ms env.macros)
    (hS : SubsOk env.macros env.subs subs) (hslot : SlotOk Γ') :
    (∀ msg, execSeq ms subs fuel es σ ≠ .error (.sort msg)) ∧
    (∀ σ', execSeq ms subs fuel es σ = .ok σ' → WeakAgree Γ' σ'.locals ∧ σ'.params = σ.params) :=
  ExecOk.spec ((exec_sound_aux ms subs env.macros env.subs Γ' hM fuel).2 es env Γ Γ' σ rfl rfl
    (Or.inr ⟨hS, hslot⟩) hwf (Sub.refl _) hW hP)

namespace C10
/-- A concrete instance of all hypotheses of `wfEffect_sound`/`wfEffect_sound_tracked`: a loop whose
    body sets a local on one path only, a sub-routine call and `HEX_STORE_SLOT_CANCELLED`. -/
def exSigs : List (String × SubSig) := [("sub", ⟨none, [some (.bv 32)], [("r", .bv 32)]⟩)]
def exSubs : SubEnv := [("sub", (["p"], .setl "r" (.bin .add (.param "p") (.const false 32 1))))]
def exEnvE : SortEnv := { params := [], macros := [], subs := exSigs }
def exEff : ILEffect :=
  .seqn [.setl "i" (.const false 32 0),
         .repeat_ (.bin .ult (.varl "i") (.const false 32 3))
           (.seqn [.setl "i" (.inc (.varl "i") 32),
                   .branch (.un .msb (.varl "i")) (.setl "t" .btrue) .nop]),
         .call "hex_sub" [.varl "i"],
         .call "HEX_STORE_SLOT_CANCELLED" []]
def exLocals : Locals := [("r", .bv 32), ("t", .bool), ("i", .bv 32)]

example : wfEffect exEnvE [] exEff = .ok exLocals := by with_unfolding_all rfl
example : LocalsTracked [] (default : MState).locals := LocalsTracked.nil _
example : ParamsAgree exEnvE.params (default : MState).params := fun _ => rfl
example : MacroOk NotSort (oracleOf exEnvE.macros) exEnvE.macros := macroOk_oracle _ _
theorem exSubsOk : SubsOk exEnvE.macros exEnvE.subs exSubs := by
  intro name sig ps body h1 h2
  simp only [exEnvE, exSigs, exSubs, lookupS_cons, lookupS_nil] at h1 h2
  split at h1
  · cases h1
    rw [if_pos (by assumption)] at h2
    cases h2
    exact ⟨[], [("r", .bv 32)], by with_unfolding_all rfl, Sub.refl _⟩
  · cases h1
theorem exSlotOk : SlotOk exLocals := by
  intro s h
  simp [exLocals, lookupS_cons] at h
/-- … and the conclusion on it, computed: the run ends in a store where `t` (known to the checker)
    is unbound and `$slot_cancelled` (unknown to the checker) is bound — weak agreement holds. -/
example : (execIL (oracleOf []) exSubs 20 exEff default).map (fun σ => σ.locals) =
    .ok [("$slot_cancelled", .bool true), ("r", .bv 32 4#32), ("i", .bv 32 3#32)] := by
  with_unfolding_all rfl
/-- A call-free instance for `wfEffect_sound_partial`. -/
example : noCalls (.repeat_ .bfalse (.setl "x" (.const true 32 1))) = true ∧
    wfEffect exEnvE [] (.repeat_ .bfalse (.setl "x" (.const true 32 1))) = .ok [("x", .bv 32)] :=
  ⟨by with_unfolding_all rfl, by with_unfolding_all rfl⟩
end C10

/-! ### Why the invariant is weak agreement with the final locals -/

/-- The literal statement of the task (strong agreement with the checker's resulting locals).
    Stated, type-checked, and **refuted** below. -/
def wfEffect_sound_strong_statement : Prop :=
  ∀ (ms : MacroSem) (subs : SubEnv) (fuel : Nat) (env : SortEnv) (Γ Γ' : Locals) (e : ILEffect)
    (σ σ' : MState),
    wfEffect env Γ e = .ok Γ' → LocalsAgree Γ σ.locals → ParamsAgree env.params σ.params →
    MacroOk NotSort ms env.macros → SubsOk env.macros env.subs subs →
    execIL ms subs fuel e σ = .ok σ' → LocalsAgree Γ' σ'.locals

/-- `REPEAT(IL_FALSE, SETL("x", SN(32, 1)))` is accepted with final locals `[x : bv32]`, runs zero
    iterations and leaves `x` unbound. -/
theorem wfEffect_sound_strong_statement_false : ¬ wfEffect_sound_strong_statement := by
  intro h
  have := h (oracleOf []) [] 2 ⟨[], [], []⟩ [] [("x", .bv 32)]
    (.repeat_ .bfalse (.setl "x" (.const true 32 1))) default default
    (by with_unfolding_all rfl) (fun n s hn => by simp at hn) (fun _ => rfl) (macroOk_oracle _ _)
    (fun name sig ps body h1 _ => by simp at h1) (by with_unfolding_all rfl)
  obtain ⟨v, hv, _⟩ := this "x" (.bv 32) (by simp [lookupS_cons])
  have hn : lookupS "x" (default : MState).locals = none := by with_unfolding_all rfl
  rw [hn] at hv
  cases hv

/-- The statement with weak agreement on the *initial* locals only. Stated and **refuted** below. -/
def wfEffect_sound_weak_hyp_statement : Prop :=
  ∀ (ms : MacroSem) (subs : SubEnv) (fuel : Nat) (env : SortEnv) (Γ Γ' : Locals) (e : ILEffect)
    (σ : MState),
    wfEffect env Γ e = .ok Γ' → noCalls e = true → WeakAgree Γ σ.locals →
    ParamsAgree env.params σ.params → MacroOk NotSort ms env.macros →
    ∀ msg, execIL ms subs fuel e σ ≠ .error (.sort msg)

/-- With a garbage boolean `x` in the store (unknown to `Γ = []`),
    `SEQN(BRANCH(IL_FALSE, SETL x bv32, NOP), SETL y (ADD (VARL x) (SN 32 1)))` is accepted and
    raises a sort error. -/
theorem wfEffect_sound_weak_hyp_statement_false : ¬ wfEffect_sound_weak_hyp_statement := by
  intro h
  refine h (oracleOf []) [] 5 ⟨[], [], []⟩ [] [("y", .bv 32), ("x", .bv 32)]
    (.seqn [.branch .bfalse (.setl "x" (.const true 32 1)) .nop,
            .setl "y" (.bin .add (.varl "x") (.const true 32 1))])
    { (default : MState) with locals := [("x", .bool true)] }
    (by with_unfolding_all rfl) (by with_unfolding_all rfl) (fun n s v hn => by simp at hn)
    (fun _ => rfl) (macroOk_oracle _ _) s!"{BinOp.add.name} on mixed sorts" ?_
  with_unfolding_all rfl

/-! ## 4. Checker facts used by the harness -/

/-- `SEQN(n, …)` with a wrong count is rejected, also when nested; a right count is accepted. -/
example : seqnCountsOk (.app "SEQN" [.num 3, .app "NOP" [], .app "EMPTY" []]) = false := by
  with_unfolding_all rfl
example : seqnCountsOk (.app "SEQN" [.num 2, .app "NOP" [], .app "EMPTY" []]) = true := by
  with_unfolding_all rfl
example : seqnCountsOk (.app "BRANCH" [.id "c", .app "SEQN" [.num 1, .app "NOP" [], .app "NOP" []],
    .app "EMPTY" []]) = false := by with_unfolding_all rfl
example : seqnCountsOk (.app "SEQN" [.app "NOP" []]) = false := by with_unfolding_all rfl

/-- A wrong count is always rejected. -/
theorem seqnCountsOk_wrong_count (n : Int) (es : List Term) (h : n ≠ (es.length : Int)) :
    seqnCountsOk (.app "SEQN" (.num n :: es)) = false := by
  rw [seqnCountsOk]
  simp [h]
example : (3 : Int) ≠ (([.app "NOP" [], .app "NOP" []] : List Term).length : Int) := by decide

def c10FactEnv : SortEnv := { params := [], macros := [], subs := [] }
def c10FactLocals : Locals := [("a", .bv 32), ("b", .bv 32), ("x", .bv 32), ("y", .bv 32)]

/-- `CAST(32, IL_FALSE, SLT(a, b))` — CAST of a boolean. -/
theorem reject_cast_of_bool :
    sortOf c10FactEnv c10FactLocals [] (.cast 32 .bfalse (.bin .slt (.varl "a") (.varl "b"))) =
      .error "CAST(fill: bool, value: bool)" := by with_unfolding_all rfl

/-- `ADD(AND(NON_ZERO x, NON_ZERO y), SN(32, 1))` — arithmetic on a boolean. -/
theorem reject_add_of_bool :
    sortOf c10FactEnv c10FactLocals []
      (.bin .add (.bin .and (.un .nonZero (.varl "x")) (.un .nonZero (.varl "y"))) (.const true 32 1)) =
      .error "ADD applied to bool and bv32" := by with_unfolding_all rfl

/-- A local `SETL`'d with two different widths. -/
theorem reject_two_widths :
    wfEffect c10FactEnv [] (.seqn [.setl "t" (.const true 32 0), .setl "t" (.const true 64 0)]) =
      .error "local \"t\" is set with sort bv64 but has sort bv32" := by with_unfolding_all rfl

/-- … also across the arms of a `BRANCH`. -/
theorem reject_two_widths_branch :
    (wfEffect c10FactEnv [] (.branch .btrue (.setl "t" (.const true 32 0)) (.setl "t" (.const true 64 0)))).isOk
      = false := by with_unfolding_all rfl

/-- `ITE` with arms of different widths. -/
theorem reject_ite_widths :
    sortOf c10FactEnv c10FactLocals [] (.ite .btrue (.varl "a") (.const true 64 0)) =
      .error "ITE arms are bv32 and bv64" := by with_unfolding_all rfl

/-- `VARLP` out of scope (the LET binds another name / no LET at all). -/
theorem reject_varlp_out_of_scope :
    (sortOf c10FactEnv c10FactLocals [] (.let_ "u" (.varl "a") (.bin .add (.varlp "u") (.varlp "w")))).isOk = false ∧
    (sortOf c10FactEnv c10FactLocals [] (.varlp "u")).isOk = false :=
  ⟨by with_unfolding_all rfl, by with_unfolding_all rfl⟩

/-- The well-sorted variants are accepted (the checker is not trivially rejecting). -/
example : sortOf c10FactEnv c10FactLocals [] (.cast 32 .bfalse (.varl "a")) = .ok (.bv 32) := by
  with_unfolding_all rfl
example : sortOf c10FactEnv c10FactLocals [] (.let_ "u" (.varl "a") (.bin .add (.varlp "u") (.varl "b"))) =
    .ok (.bv 32) := by with_unfolding_all rfl

end Rzil
