import RzilVerif.Model.CompileH
import RzilVerif.Model.CSemH
import RzilVerif.Model.HybWF
import RzilVerif.Model.HybFree
import RzilVerif.Lemmas.ExprBits
/-!
  Declared loop counters (`int i; for (i = 0; i < 2; i++) …`) in the hybrid lowering model.

  `loopVarTy v cond` is the type of the first `.var v t` node of the loop condition (`utT` = ut32 if there is none:
  the undeclared special identifiers `i`, `j`, `k`).  `compileStmtH` emits for the loop's `v = 0` what an ordinary
  assignment to that typed local gives (`forInitH`), steps with `INC(VARL(v), <width of v>)` resp. an ordinary
  compound assignment, and `execCH` starts the counter as 0 in that type.  For `utT` counters nothing changed.
-/
namespace Rzil
namespace LoopTy

/-! ## 1. the counter's type -/

mutual
theorem varTyIn_none_of_not_mem (v : String) : (e : CExpr) → v ∉ exprNames e → varTyIn v e = none
  | .reg _ _ _, _ => by simp only [varTyIn]
  | .imm _ _, _ => by simp only [varTyIn]
  | .lit _ _ _, _ => by simp only [varTyIn]
  | .var n t, h => by
      simp only [exprNames, List.mem_singleton] at h
      have : (n == v) = false := by simpa using fun e => h e.symm
      simp only [varTyIn, this, Bool.false_eq_true, ↓reduceIte]
  | .cast _ e, h => by simp only [exprNames] at h; simp only [varTyIn, varTyIn_none_of_not_mem v e h]
  | .un _ e, h => by simp only [exprNames] at h; simp only [varTyIn, varTyIn_none_of_not_mem v e h]
  | .not e, h => by simp only [exprNames] at h; simp only [varTyIn, varTyIn_none_of_not_mem v e h]
  | .bin _ a b, h => by
      simp only [exprNames, List.mem_append, not_or] at h
      simp only [varTyIn, varTyIn_none_of_not_mem v a h.1, varTyIn_none_of_not_mem v b h.2, Option.orElse_none]
  | .shift _ a b, h => by
      simp only [exprNames, List.mem_append, not_or] at h
      simp only [varTyIn, varTyIn_none_of_not_mem v a h.1, varTyIn_none_of_not_mem v b h.2, Option.orElse_none]
  | .cmp _ a b, h => by
      simp only [exprNames, List.mem_append, not_or] at h
      simp only [varTyIn, varTyIn_none_of_not_mem v a h.1, varTyIn_none_of_not_mem v b h.2, Option.orElse_none]
  | .log _ a b, h => by
      simp only [exprNames, List.mem_append, not_or] at h
      simp only [varTyIn, varTyIn_none_of_not_mem v a h.1, varTyIn_none_of_not_mem v b h.2, Option.orElse_none]
  | .tern c a b, h => by
      simp only [exprNames, List.mem_append, not_or] at h
      simp only [varTyIn, varTyIn_none_of_not_mem v c h.1.1, varTyIn_none_of_not_mem v a h.1.2,
        varTyIn_none_of_not_mem v b h.2, Option.orElse_none]
  | .macro _ args _ _, h => by simp only [exprNames] at h; simp only [varTyIn, varTyInL_none_of_not_mem v args h]
  | .load _ _ _, _ => by simp only [varTyIn]
  | .post _ _ _, _ => by simp only [varTyIn]
  | .call _ args _ _, h => by simp only [exprNames] at h; simp only [varTyIn, varTyInL_none_of_not_mem v args h]
  | .stmtexpr _ _ e, h => by
      simp only [exprNames, List.mem_cons, not_or] at h
      simp only [varTyIn, varTyIn_none_of_not_mem v e h.2]
  | .seqexpr _ _ args _ val, h => by
      simp only [exprNames, List.mem_append, not_or] at h
      simp only [varTyIn, varTyInL_none_of_not_mem v args h.1, varTyIn_none_of_not_mem v val h.2, Option.orElse_none]
  | .callx _ _ args _ _, h => by simp only [exprNames] at h; simp only [varTyIn, varTyInL_none_of_not_mem v args h]
  | .xmacro _ _ _, _ => by simp only [varTyIn]
theorem varTyInL_none_of_not_mem (v : String) : (es : List CExpr) → v ∉ exprsNames es → varTyInL v es = none
  | [], _ => by simp only [varTyInL]
  | a :: as, h => by
      simp only [exprsNames, List.mem_append, not_or] at h
      simp only [varTyInL, varTyIn_none_of_not_mem v a h.1, varTyInL_none_of_not_mem v as h.2, Option.orElse_none]
end

/-- If the loop condition does not mention the counter, the counter is one of the special ut32 identifiers. -/
theorem loopVarTy_utT_of_no_var {v : String} {cond : CExpr} (h : v ∉ exprNames cond) : loopVarTy v cond = utT := by
  simp only [loopVarTy, varTyIn_none_of_not_mem v cond h, Option.getD_none]

/-- non-vacuity: `for (i = 0; RsV < 2; …)` -/
example : "i" ∉ exprNames (.cmp "<" (.reg "RsV" .src ⟨true, 32⟩) (.lit 2 false "")) := by simp [exprNames]

/-- The usual shape `v < bound`: the type written at the counter's occurrence. -/
theorem loopVarTy_cmp_var (v op : String) (t : CT) (b : CExpr) : loopVarTy v (.cmp op (.var v t) b) = t := by
  simp [loopVarTy, varTyIn]

/-- the first occurrence decides -/
example : loopVarTy "i" (.log "&&" (.cmp "<" (.var "i" ⟨true, 64⟩) (.lit 2 false "")) (.var "i" ⟨false, 8⟩)) = ⟨true, 64⟩ := by
  decide +kernel
example : loopVarTy "i" (.cmp "<" (.var "j" ⟨true, 64⟩) (.lit 2 false "")) = utT := by decide +kernel
example : loopVarTy "i" (.macro "fMAX" [.lit 1 false "", .var "i" ⟨true, 16⟩] ⟨true, 32⟩ [⟨true, 32⟩, ⟨true, 32⟩]) = ⟨true, 16⟩ := by
  decide +kernel

/-! ## 2. the init effect -/

/-- the literal `0` of `v = 0` as the assignment's compiled source -/
def zeroCE : CE := { il := numberIL ⟨true, 32, 1⟩ 0, ty := ⟨true, 32, 1⟩, kind := .lit 0 }

/-- the special ut32 identifiers keep the shape tied to the code, whatever the configuration -/
theorem forInitH_undeclared (env : CEnv) (v : String) :
    forInitH env v utT = .ok (.setl v (.cast 32 .bfalse (.const true 32 0))) := by
  unfold forInitH
  rw [if_pos (by decide)]

/-- The value a declared counter of type `t` is initialised with: `SN(32, 0)` itself for `int`, otherwise
    `CAST(width, fill, SN(32, 0))`, `fill` as `init_a_cast` chooses it. -/
def initVal (cfg : Cfg) (t : CT) : ILPure :=
  if t.width = 32 ∧ t.signed = true then .const true 32 0
  else .cast t.width
    (if cfg.castFillNeedsBothSigned then (if t.signed then .un .msb (.const true 32 0) else .bfalse)
     else .un .msb (.const true 32 0))
    (.const true 32 0)

/-- a declared counter: what the ordinary assignment `v = 0` to a local of that type gives -/
theorem forInitH_declared (env : CEnv) (v : String) (t : CT) (h : t ≠ utT) :
    forInitH env v t = .ok (.setl v (initVal env.cfg t)) := by
  obtain ⟨s, w⟩ := t
  have hne : ((⟨s, w⟩ : CT) == utT) = false := by simpa using h
  have e1 : ("=" == "<<=") = false := by decide
  have e2 : ("=" == ">>=") = false := by decide
  unfold forInitH
  simp only [hne, Bool.false_eq_true, ↓reduceIte, compileAssign, compileExpr, bind, Except.bind, e1, e2, Bool.or_self,
    beq_self_eq_true, Bool.or_true, destWrite, initVal, CT.toVT, VT.eqv, numberIL]
  by_cases h32 : w = 32
  · subst h32
    cases s
    · exact absurd rfl h
    · simp
  · have : (w == 32) = false := by simpa using h32
    simp only [this, Bool.false_and, Bool.false_eq_true, ↓reduceIte, initACast, VT.eqv, VT.hasFlag, VT.gBOOL]
    cases s <;> simp [h32]

/-- non-vacuity -/
example : (⟨true, 32⟩ : CT) ≠ utT := by decide

/-- `int i`: `SETL("i", SN(32, 0))`, under every configuration -/
theorem forInitH_int (env : CEnv) (v : String) : forInitH env v ⟨true, 32⟩ = .ok (.setl v (.const true 32 0)) := by
  rw [forInitH_declared env v _ (by decide)]; rfl

/-- the code's configuration, `uint16_t i`: `SETL("i", CAST(16, IL_FALSE, SN(32, 0)))` -/
theorem forInitH_u16_asCode (a : List String) (v : String) :
    forInitH ⟨a, Cfg.asCode⟩ v ⟨false, 16⟩ = .ok (.setl v (.cast 16 .bfalse (.const true 32 0))) := by
  rw [forInitH_declared _ v _ (by decide)]; rfl

/-- the code's configuration, `int64_t i`: `SETL("i", CAST(64, MSB(SN(32, 0)), SN(32, 0)))` -/
theorem forInitH_s64_asCode (a : List String) (v : String) :
    forInitH ⟨a, Cfg.asCode⟩ v ⟨true, 64⟩ = .ok (.setl v (.cast 64 (.un .msb (.const true 32 0)) (.const true 32 0))) := by
  rw [forInitH_declared _ v _ (by decide)]; rfl

/-- the init effect never fails -/
theorem forInitH_ok (env : CEnv) (v : String) (t : CT) : ∃ x, forInitH env v t = .ok (.setl v x) := by
  by_cases h : t = utT
  · subst h; exact ⟨_, forInitH_undeclared env v⟩
  · exact ⟨_, forInitH_declared env v t h⟩

/-- Whatever the configuration and the counter's type: the emitted init stores 0 in the counter's width, which is
    what `execCH` starts the counter with. -/
theorem forInitH_eval (ms : MacroSem) (σ : MState) (env : CEnv) (v : String) (t : CT) {x : ILPure}
    (h : forInitH env v t = .ok (.setl v x)) : evalPure ms σ [] x = .ok (.bv t.width 0) := by
  have hz : ∀ w, ilCast w false (BitVec.ofInt 32 0) = (0 : BitVec w) := by
    intro w; rw [Rzil.ilCast_false_eq_setWidth]; simp
  have hm : (BitVec.ofInt 32 0).msb = false := by decide
  by_cases ht : t = utT
  · subst ht
    rw [forInitH_undeclared] at h
    simp only [Except.ok.injEq, ILEffect.setl.injEq, true_and] at h
    subst h
    simp only [evalPure, bind, Except.bind, hz]; rfl
  · rw [forInitH_declared env v t ht] at h
    simp only [Except.ok.injEq, ILEffect.setl.injEq, true_and] at h
    subst h
    unfold initVal
    split
    · rename_i h32
      rw [h32.1]; simp only [evalPure]; rfl
    · split
      · split <;> simp only [evalPure, evalUn, bind, Except.bind, hm, hz]
      · simp only [evalPure, evalUn, bind, Except.bind, hm, hz]

/-- non-vacuity -/
example : forInitH ⟨[], Cfg.fixed⟩ "i" ⟨true, 64⟩ =
    .ok (.setl "i" (.cast 64 (.un .msb (.const true 32 0)) (.const true 32 0))) := by
  rw [forInitH_declared _ _ _ (by decide)]; rfl

/-! ## 3. the C side -/

/-- `execCH` starts the counter as 0 in its declared type -/
theorem execCH_for_init (ms : MacroSem) (subs : CSubEnv) (f : Nat) (v : String) (c : CExpr) (k : Nat)
    (b : List CStmt) (σ : MState) :
    execCH ms subs (f+1) (.for_ v c k b) σ =
      loopCH ms subs f v c k b { σ with locals := setLocal σ.locals v (.bv (loopVarTy v c).width 0) } := by
  simp only [execCH]

/-! ## 4. whole programs -/

def s32 : CT := ⟨true, 32⟩

/-- `int i; for (i = 0; i < 2; i++) { RdV = i; }` -/
def progDeclInt : List CStmt :=
  [ .decl s32 "i" none,
    .for_ "i" (.cmp "<" (.var "i" s32) (.lit 2 false "")) 0 [ .assign (.reg "RdV" .dst s32) "=" (.var "i" s32) ] ]

/-- `for (i = 0; i < 2; i++) { RdV = i; }` with the undeclared special identifier `i` (ut32) -/
def progUndecl : List CStmt :=
  [ .for_ "i" (.cmp "<" (.var "i" utT) (.lit 2 false "")) 0 [ .assign (.reg "RdV" .dst s32) "=" (.var "i" utT) ] ]

/-- `int64_t j; for (j = 0; j < 2; j++) { RdV = 1; }` -/
def progDeclS64 : List CStmt :=
  [ .decl ⟨true, 64⟩ "j" none,
    .for_ "j" (.cmp "<" (.var "j" ⟨true, 64⟩) (.lit 2 false "")) 0 [ .assign (.reg "RdV" .dst s32) "=" (.lit 1 false "") ] ]

/-- `uint16_t i; for (i = 0; i < 8; i += 2) { RdV = 1; }` -/
def progDeclU16Step : List CStmt :=
  [ .decl ⟨false, 16⟩ "i" none,
    .for_ "i" (.cmp "<" (.var "i" ⟨false, 16⟩) (.lit 8 false "")) 2 [ .assign (.reg "RdV" .dst s32) "=" (.lit 1 false "") ] ]

/-- name and value of the loop's init `SETL` (first member of the emitted `SEQN(init, REPEAT(…))`) -/
def initOf : Except String ILEffect → Option (String × ILPure)
  | .ok (.seqn (.setl n x :: _)) => some (n, x)
  | _ => none

/-- width of the `INC` of the postfix step (last member of the loop body's sequence) -/
def stepIncWidth : Except String ILEffect → Option Nat
  | .ok (.seqn [_, .repeat_ _ (.seqn [_, .seqn [_, .setl _ (.inc _ w)]])]) => some w
  | _ => none

def isSN32_0 : ILPure → Bool
  | .const true 32 0 => true
  | _ => false

/-- `CAST(w, IL_FALSE, SN(32, 0))` -/
def isCastFalse0 (w : Nat) : ILPure → Bool
  | .cast w' .bfalse x => w' == w && isSN32_0 x
  | _ => false

/-- `CAST(w, MSB(SN(32, 0)), SN(32, 0))` -/
def isCastMsb0 (w : Nat) : ILPure → Bool
  | .cast w' (.un .msb y) x => w' == w && isSN32_0 x && isSN32_0 y
  | _ => false

def chkInit (r : Except String ILEffect) (n : String) (p : ILPure → Bool) : Bool :=
  match initOf r with
  | some (m, x) => m == n && p x
  | none => false

set_option maxRecDepth 100000 in
/-- declared `int i`: the emitted tree starts with `SETL("i", SN(32, 0))` and steps with `INC(VARL("i"), 32)` -/
example : chkInit (compileProgH Cfg.asCode progDeclInt) "i" isSN32_0 = true ∧
    stepIncWidth (compileProgH Cfg.asCode progDeclInt) = some 32 := by decide +kernel

set_option maxRecDepth 100000 in
/-- undeclared counter: the old shape `SETL("i", CAST(32, IL_FALSE, SN(32, 0)))` -/
example : chkInit (compileProgH Cfg.asCode progUndecl) "i" (isCastFalse0 32) = true ∧
    chkInit (compileProgH Cfg.asCode progUndecl) "i" isSN32_0 = false ∧
    stepIncWidth (compileProgH Cfg.asCode progUndecl) = some 32 := by decide +kernel

set_option maxRecDepth 100000 in
/-- declared `int64_t j`: `SETL("j", CAST(64, MSB(SN(32, 0)), SN(32, 0)))`, `INC(VARL("j"), 64)` -/
example : chkInit (compileProgH Cfg.asCode progDeclS64) "j" (isCastMsb0 64) = true ∧
    stepIncWidth (compileProgH Cfg.asCode progDeclS64) = some 64 := by decide +kernel

set_option maxRecDepth 100000 in
/-- declared `uint16_t i`, step `i += 2`: `SETL("i", CAST(16, IL_FALSE, SN(32, 0)))` -/
example : chkInit (compileProgH Cfg.asCode progDeclU16Step) "i" (isCastFalse0 16) = true := by decide +kernel

set_option maxRecDepth 100000 in
/-- sharpness of the side condition `loopVarTy v c == utT` of `HybFreeS`: on the declared `int i` the pure model
    (hardcoded ut32) still emits the `CAST` shape, the hybrid model `SN(32, 0)`: the two differ -/
example : chkInit (compileProg Cfg.asCode progDeclInt) "i" (isCastFalse0 32) = true ∧
    chkInit (compileProgH Cfg.asCode progDeclInt) "i" (isCastFalse0 32) = false := by decide +kernel

/-- a declared counter of another type than ut32 is outside the hybrid-free fragment (the pure model hardcodes
    ut32); an undeclared one, or one declared `uint32_t`, is inside -/
example : HybFreeSs progDeclInt = false ∧ HybFreeSs progUndecl = true := by decide +kernel

end LoopTy
end Rzil
