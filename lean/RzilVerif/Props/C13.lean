import RzilVerif.Model.Meta
/-!
  # C13 — the reported instruction attributes are those of the part's own text

  1. table facts (by `decide` on the REGENERATED `Gen` constants: they break when the Python changes);
  2. `flags_history_free` (+ `_reachable`, the refuted unrestricted form, `meta_history_free_mod_preds`);
  3. `meta_of_tree_partial` (all trees, all prior states with no recorded predicate), `meta_bools_of_tree`
     (six boolean attributes, no hypothesis), `meta_of_tree_full_statement_false` (test_C4_and_and),
     `meta_of_tree_if_preds_cleared` (repaired reset: full statement);
  4. `noped_none`.
  Everything that depends on the known defect `preds_written_never_cleared` is in `section KnownDefect` at the end.
-/
namespace Rzil

/-! ## 1. table facts -/

/-- `set_token_meta_data`: which token calls which setter (and the kwarg guarding it) -/
theorem token_table_spec : Gen.tokenRows =
    [("mem_store", "set_writes_mem", ""), ("mem_load", "set_reads_mem", ""), ("new_reg", "set_uses_new", ""),
     ("jump", "set_branches", ""), ("selection_stmt", "set_is_conditional", ""),
     ("explicit_reg", "set_uses_new", "is_new"), ("pred_write", "set_writes_pred", "")] := by decide

/-- each setter sets exactly its own attribute; only `set_writes_pred` appends to a list (`preds_written`) -/
theorem setter_table_spec : Gen.setterRows =
    [("set_uses_new", ["uses_new"], []), ("set_writes_pred", ["writes_predicate"], ["preds_written"]),
     ("set_writes_mem", ["writes_mem"], []), ("set_reads_mem", ["reads_mem"], []),
     ("set_is_conditional", ["is_conditional"], []), ("set_branches", ["branches"], [])] := by decide

/-- `get_meta`: order COND, NEW, MEM_WRITE, MEM_READ, BRANCH, WPRED (+ WRITE_Pn nested under writes_predicate),
    NONE as fallback -/
theorem meta_rows_spec : Gen.metaRows =
    [("is_conditional", "HEX_IL_INSN_ATTR_COND", ""), ("uses_new", "HEX_IL_INSN_ATTR_NEW", ""),
     ("writes_mem", "HEX_IL_INSN_ATTR_MEM_WRITE", ""), ("reads_mem", "HEX_IL_INSN_ATTR_MEM_READ", ""),
     ("branches", "HEX_IL_INSN_ATTR_BRANCH", ""), ("writes_predicate", "HEX_IL_INSN_ATTR_WPRED", ""),
     ("preds_written", "HEX_IL_INSN_ATTR_WRITE_P{}", "writes_predicate"), ("<none>", "HEX_IL_INSN_ATTR_NONE", "")] := by
  decide

/-! ### the concrete meaning of one event (derived from the two tables above) -/

def evAttr (ev : MetaEvent) : Option String :=
  if ev.token = "mem_store" then some "writes_mem"
  else if ev.token = "mem_load" then some "reads_mem"
  else if ev.token = "new_reg" then some "uses_new"
  else if ev.token = "jump" then some "branches"
  else if ev.token = "selection_stmt" then some "is_conditional"
  else if ev.token = "explicit_reg" then (if ev.isNew then some "uses_new" else none)
  else if ev.token = "pred_write" then some "writes_predicate"
  else none

def evPred (ev : MetaEvent) : Option Nat :=
  if ev.token = "pred_write" ∧ 0 ≤ ev.predNum ∧ ev.predNum < 4 then some ev.predNum.toNat else none

def addOn (on : List String) (a : String) : List String := if on.contains a then on else on ++ [a]
def addPred (ps : List Nat) (n : Nat) : List Nat := if ps.contains n then ps else ps ++ [n]

theorem setAttr_eq (f : Flags) (a : String) : setAttr f a = { on := addOn f.on a, preds := f.preds } := by
  unfold setAttr addOn; split <;> rfl

theorem applyEvent_eq (f : Flags) (ev : MetaEvent) : applyEvent f ev =
    { on := match evAttr ev with | some a => addOn f.on a | none => f.on,
      preds := match evPred ev with | some n => addPred f.preds n | none => f.preds } := by
  obtain ⟨tok, isNew, pn⟩ := ev
  obtain ⟨on, preds⟩ := f
  by_cases h1 : tok = "mem_store"
  · subst h1; simp [applyEvent, Gen.tokenRows, applySetter, Gen.setterRows, evAttr, evPred, setAttr_eq]
  by_cases h2 : tok = "mem_load"
  · subst h2; simp [applyEvent, Gen.tokenRows, applySetter, Gen.setterRows, evAttr, evPred, setAttr_eq]
  by_cases h3 : tok = "new_reg"
  · subst h3; simp [applyEvent, Gen.tokenRows, applySetter, Gen.setterRows, evAttr, evPred, setAttr_eq]
  by_cases h4 : tok = "jump"
  · subst h4; simp [applyEvent, Gen.tokenRows, applySetter, Gen.setterRows, evAttr, evPred, setAttr_eq]
  by_cases h5 : tok = "selection_stmt"
  · subst h5; simp [applyEvent, Gen.tokenRows, applySetter, Gen.setterRows, evAttr, evPred, setAttr_eq]
  by_cases h6 : tok = "explicit_reg"
  · subst h6; cases isNew <;> simp [applyEvent, Gen.tokenRows, applySetter, Gen.setterRows, evAttr, evPred, setAttr_eq]
  by_cases h7 : tok = "pred_write"
  · subst h7; simp [applyEvent, Gen.tokenRows, applySetter, Gen.setterRows, evAttr, evPred, setAttr_eq]
    unfold addPred
    by_cases hc : 0 ≤ pn ∧ pn < 4 <;> by_cases hm : pn.toNat ∈ preds <;> simp [hc, hm]
  · simp [applyEvent, Gen.tokenRows, evAttr, evPred, h1, h2, h3, h4, h5, h6, h7, Ne.symm h1, Ne.symm h2, Ne.symm h3, Ne.symm h4, Ne.symm h5, Ne.symm h6, Ne.symm h7]

/-! ### folds -/

theorem foldl_on (evs : List MetaEvent) (f : Flags) :
    (evs.foldl applyEvent f).on = (evs.filterMap evAttr).foldl addOn f.on := by
  induction evs generalizing f with
  | nil => rfl
  | cons ev evs ih =>
    rw [List.foldl_cons, ih, applyEvent_eq]
    cases h : evAttr ev <;> simp [h]

theorem foldl_preds (evs : List MetaEvent) (f : Flags) :
    (evs.foldl applyEvent f).preds = (evs.filterMap evPred).foldl addPred f.preds := by
  induction evs generalizing f with
  | nil => rfl
  | cons ev evs ih =>
    rw [List.foldl_cons, ih, applyEvent_eq]
    cases h : evPred ev <;> simp [h]

theorem mem_addOn {a b : String} {on : List String} : a ∈ addOn on b ↔ a ∈ on ∨ a = b := by
  unfold addOn; split
  · rename_i h; simp at h; constructor
    · exact Or.inl
    · rintro (h' | rfl); exact h'; exact h
  · simp

theorem mem_foldl_addOn {a : String} (as on : List String) : a ∈ as.foldl addOn on ↔ a ∈ on ∨ a ∈ as := by
  induction as generalizing on with
  | nil => simp
  | cons b as ih => rw [List.foldl_cons, ih, mem_addOn]; simp [or_assoc]

theorem eraseDups_loop (as bs : List Nat) :
    List.eraseDupsBy.loop (fun x1 x2 => x1 == x2) as bs = as.foldl addPred bs.reverse := by
  induction as generalizing bs with
  | nil => simp [List.eraseDupsBy.loop]
  | cons a as ih =>
    rw [List.eraseDupsBy.loop, List.foldl_cons]
    cases h : bs.any (fun x2 => a == x2)
    · simp only [ih]
      congr 1
      simp [addPred]
      simp at h
      intro hh; exact absurd rfl (h a hh)
    · simp only [ih]
      congr 1
      simp [addPred]
      simp at h
      exact h

theorem foldl_addPred_nil (as : List Nat) : as.foldl addPred [] = as.eraseDups := by
  simp [List.eraseDups, List.eraseDupsBy, eraseDups_loop]

/-! ### callbacks → events (table `Gen.callbackRows`) -/

def callbackToks (rule : String) : List String :=
  match Gen.callbackRows.find? (fun r => r.1 == rule) with
  | none => []
  | some (_, toks) => toks

def relevantCallbacks : List String :=
  ["new_reg", "explicit_reg", "reg_alias", "jump", "selection_stmt", "assignment_expr", "mem_store", "mem_load"]

theorem callback_table_spec :
    callbackToks "new_reg" = ["new_reg"] ∧ callbackToks "explicit_reg" = ["explicit_reg"] ∧
    callbackToks "reg_alias" = ["ext:new_reg"] ∧ callbackToks "jump" = ["jump"] ∧
    callbackToks "selection_stmt" = ["selection_stmt"] ∧ callbackToks "assignment_expr" = ["pred_write"] ∧
    callbackToks "mem_store" = ["mem_store"] ∧ callbackToks "mem_load" = ["mem_load"] ∧
    (∀ r ∈ Gen.callbackRows, r.2 ≠ [] → r.1 ∈ relevantCallbacks) := by decide

theorem callbackToks_irrelevant {rule : String} (h : rule ∉ relevantCallbacks) : callbackToks rule = [] := by
  unfold callbackToks
  cases hf : Gen.callbackRows.find? (fun r => r.1 == rule) with
  | none => rfl
  | some r =>
    obtain ⟨r1, toks⟩ := r
    have hm := List.mem_of_find?_eq_some hf
    have hp := List.find?_some hf
    simp at hp
    by_cases ht : toks = []
    · simpa using ht
    · have := callback_table_spec.2.2.2.2.2.2.2.2 _ hm ht
      simp only [hp] at this
      exact absurd this h

theorem nodeEvents_irrelevant {rule : String} (cs : List LTree) (h : rule ∉ relevantCallbacks) :
    nodeEvents rule cs = [] := by
  have := callbackToks_irrelevant h
  unfold callbackToks at this
  unfold nodeEvents
  split at this
  · rename_i h'; simp [h']
  · rename_i h'; simp [h']; intro a ha; rw [this] at ha; simp at ha

def isNewExplicit : List LTree → Bool
  | [_, .tok _ _] => true
  | _ => false
def isNewAlias : List LTree → Bool
  | [_, .node "reg_alias_new_postfix" _] => true
  | _ => false
/-- the `pred_write` part of `assignment_expr`: `some pn` when the destination is a predicate register -/
def predWriteOf (cs : List LTree) : Option Int :=
  match cs with
  | d :: _ => if regIsPredicate d then some (predNumOf d) else none
  | [] => none

theorem nodeEvents_new_reg (cs : List LTree) : nodeEvents "new_reg" cs = [{ token := "new_reg" }] := by
  have : Gen.callbackRows.find? (fun r => r.1 == "new_reg") = some ("new_reg", ["new_reg"]) := by decide
  unfold nodeEvents; rw [this]; simp
theorem nodeEvents_jump (cs : List LTree) : nodeEvents "jump" cs = [{ token := "jump" }] := by
  have : Gen.callbackRows.find? (fun r => r.1 == "jump") = some ("jump", ["jump"]) := by decide
  unfold nodeEvents; rw [this]; simp
theorem nodeEvents_selection_stmt (cs : List LTree) : nodeEvents "selection_stmt" cs = [{ token := "selection_stmt" }] := by
  have : Gen.callbackRows.find? (fun r => r.1 == "selection_stmt") = some ("selection_stmt", ["selection_stmt"]) := by decide
  unfold nodeEvents; rw [this]; simp
theorem nodeEvents_mem_store (cs : List LTree) : nodeEvents "mem_store" cs = [{ token := "mem_store" }] := by
  have : Gen.callbackRows.find? (fun r => r.1 == "mem_store") = some ("mem_store", ["mem_store"]) := by decide
  unfold nodeEvents; rw [this]; simp
theorem nodeEvents_mem_load (cs : List LTree) : nodeEvents "mem_load" cs = [{ token := "mem_load" }] := by
  have : Gen.callbackRows.find? (fun r => r.1 == "mem_load") = some ("mem_load", ["mem_load"]) := by decide
  unfold nodeEvents; rw [this]; simp
theorem nodeEvents_explicit_reg (cs : List LTree) : nodeEvents "explicit_reg" cs =
    [{ token := "explicit_reg", isNew := isNewExplicit cs }] := by
  have : Gen.callbackRows.find? (fun r => r.1 == "explicit_reg") = some ("explicit_reg", ["explicit_reg"]) := by decide
  unfold nodeEvents; rw [this]; simp
  unfold isNewExplicit; split <;> split <;> simp_all
theorem nodeEvents_reg_alias (cs : List LTree) : nodeEvents "reg_alias" cs =
    (if isNewAlias cs then [{ token := "new_reg" }] else []) := by
  have : Gen.callbackRows.find? (fun r => r.1 == "reg_alias") = some ("reg_alias", ["ext:new_reg"]) := by decide
  unfold nodeEvents; rw [this]; simp
  unfold isNewAlias; split <;> split <;> simp_all
theorem nodeEvents_assignment_expr (cs : List LTree) : nodeEvents "assignment_expr" cs =
    (match predWriteOf cs with | some pn => [{ token := "pred_write", predNum := pn }] | none => []) := by
  have : Gen.callbackRows.find? (fun r => r.1 == "assignment_expr") = some ("assignment_expr", ["pred_write"]) := by decide
  unfold nodeEvents; rw [this]; simp
  unfold predWriteOf
  cases cs with
  | nil => simp
  | cons d rest => by_cases h : regIsPredicate d <;> simp [h]
def nodeNew (rule : String) (cs : List LTree) : Bool :=
  rule == "new_reg" || (rule == "explicit_reg" && isNewExplicit cs) || (rule == "reg_alias" && isNewAlias cs)

def nodePW (rule : String) (cs : List LTree) : List (Option Nat) :=
  if rule = "assignment_expr" then
    match predWriteOf cs with
    | some pn => [if pn ≥ 0 then some pn.toNat else none]
    | none => []
  else []

theorem hasRule_node (r rule : String) (cs : List LTree) :
    LTree.hasRule r (.node rule cs) = (rule == r || hasRuleList r cs) := by
  simp [LTree.hasRule]

theorem isNewExplicit_iff (cs : List LTree) : isNewExplicit cs = true ↔ ∃ h ty tx, cs = [h, .tok ty tx] := by
  unfold isNewExplicit; split <;> simp_all
theorem isNewAlias_iff (cs : List LTree) : isNewAlias cs = true ↔ ∃ h ch, cs = [h, .node "reg_alias_new_postfix" ch] := by
  unfold isNewAlias; split <;> simp_all

theorem usesNew_node (rule : String) (cs : List LTree) :
    LTree.usesNew (.node rule cs) = (nodeNew rule cs || usesNewList cs) := by
  unfold LTree.usesNew
  split
  · rename_i heq; cases heq; simp [nodeNew]
  · rename_i heq; cases heq; simp [nodeNew, isNewExplicit]
  · rename_i heq; cases heq; simp [nodeNew, isNewAlias]
  · rename_i r' cs' h1 h2 h3 heq
    cases heq
    have e1 : rule ≠ "new_reg" := fun h => h1 h
    have e2 : ¬ (rule = "explicit_reg" ∧ isNewExplicit cs = true) := by
      rintro ⟨h, hc⟩; obtain ⟨a, ty, tx, rfl⟩ := (isNewExplicit_iff cs).1 hc; exact h2 a ty tx h rfl
    have e3 : ¬ (rule = "reg_alias" ∧ isNewAlias cs = true) := by
      rintro ⟨h, hc⟩; obtain ⟨a, ch, rfl⟩ := (isNewAlias_iff cs).1 hc; exact h3 a ch h rfl
    have : nodeNew rule cs = false := by
      simp only [nodeNew, Bool.or_eq_false_iff, Bool.and_eq_false_iff, beq_eq_false_iff_ne]
      simp only [not_and, Bool.not_eq_true] at e2 e3
      refine ⟨⟨e1, ?_⟩, ?_⟩
      · by_cases h : rule = "explicit_reg"
        · exact Or.inr (e2 h)
        · exact Or.inl h
      · by_cases h : rule = "reg_alias"
        · exact Or.inr (e3 h)
        · exact Or.inl h
    simp [this]
  · simp at *

theorem predWrites_node (rule : String) (cs : List LTree) :
    LTree.predWrites (.node rule cs) = predWritesList cs ++ nodePW rule cs := by
  unfold LTree.predWrites
  split
  · rename_i heq; cases heq
    simp only [nodePW, predWriteOf, if_true]
    split <;> simp
  · rename_i r' cs' h1 heq
    cases heq
    have : nodePW rule cs = [] := by
      unfold nodePW
      split
      · rename_i h
        cases cs with
        | nil => simp [predWriteOf]
        | cons d rest => exact (h1 d rest h rfl).elim
      · rfl
    simp [this]
  · simp at *

theorem predNumOf_lt (d : LTree) : predNumOf d < 4 := by
  unfold predNumOf
  split
  · split
    · split
      · rename_i h; simp at h
        rcases h with ((rfl | rfl) | rfl) | rfl <;> decide
      · decide
    · decide
  · decide

theorem predWriteOf_lt {cs : List LTree} {pn : Int} (h : predWriteOf cs = some pn) : pn < 4 := by
  unfold predWriteOf at h
  split at h
  · split at h
    · cases h; exact predNumOf_lt _
    · cases h
  · cases h

theorem nodeAttrs_eq (rule : String) (cs : List LTree) : (nodeEvents rule cs).filterMap evAttr =
    (if rule = "selection_stmt" then ["is_conditional"] else []) ++ (if rule = "mem_store" then ["writes_mem"] else []) ++
    (if rule = "mem_load" then ["reads_mem"] else []) ++ (if rule = "jump" then ["branches"] else []) ++
    (if nodeNew rule cs then ["uses_new"] else []) ++ (if nodePW rule cs ≠ [] then ["writes_predicate"] else []) := by
  by_cases h : rule ∈ relevantCallbacks
  · simp only [relevantCallbacks, List.mem_cons, List.not_mem_nil, or_false] at h
    rcases h with rfl | rfl | rfl | rfl | rfl | rfl | rfl | rfl
    · simp [nodeEvents_new_reg, evAttr, nodeNew, nodePW]
    · cases hc : isNewExplicit cs <;> simp [nodeEvents_explicit_reg, evAttr, nodeNew, nodePW, hc]
    · simp [nodeEvents_reg_alias, nodeNew, nodePW]; split <;> simp [evAttr]
    · simp [nodeEvents_jump, evAttr, nodeNew, nodePW]
    · simp [nodeEvents_selection_stmt, evAttr, nodeNew, nodePW]
    · simp [nodeEvents_assignment_expr, nodeNew, nodePW]; split <;> simp [evAttr]
    · simp [nodeEvents_mem_store, evAttr, nodeNew, nodePW]
    · simp [nodeEvents_mem_load, evAttr, nodeNew, nodePW]
  · rw [nodeEvents_irrelevant cs h]
    simp only [relevantCallbacks, List.mem_cons, List.not_mem_nil, or_false, not_or] at h
    simp [h, nodeNew, nodePW]

theorem nodePreds_eq (rule : String) (cs : List LTree) :
    (nodeEvents rule cs).filterMap evPred = (nodePW rule cs).filterMap id := by
  by_cases h : rule ∈ relevantCallbacks
  · simp only [relevantCallbacks, List.mem_cons, List.not_mem_nil, or_false] at h
    rcases h with rfl | rfl | rfl | rfl | rfl | rfl | rfl | rfl
    · simp [nodeEvents_new_reg, evPred, nodePW]
    · simp [nodeEvents_explicit_reg, evPred, nodePW]
    · simp [nodeEvents_reg_alias, nodePW]; intro _; simp [evPred]
    · simp [nodeEvents_jump, evPred, nodePW]
    · simp [nodeEvents_selection_stmt, evPred, nodePW]
    · simp only [nodeEvents_assignment_expr, nodePW, if_true]
      cases hp : predWriteOf cs with
      | none => simp
      | some pn =>
        have := predWriteOf_lt hp
        by_cases h0 : 0 ≤ pn <;> simp [evPred, h0, this]
    · simp [nodeEvents_mem_store, evPred, nodePW]
    · simp [nodeEvents_mem_load, evPred, nodePW]
  · rw [nodeEvents_irrelevant cs h]
    simp only [relevantCallbacks, List.mem_cons, List.not_mem_nil, or_false, not_or] at h
    simp [h, nodePW]

/-! ### events of a tree vs. the specification functions -/

/-- Simultaneous induction over trees and lists of trees. -/
theorem LTree.induct2 {P : LTree → Prop} {Q : List LTree → Prop}
    (hnode : ∀ r cs, Q cs → P (.node r cs)) (htok : ∀ a b, P (.tok a b)) (hnone : P .none)
    (hnil : Q []) (hcons : ∀ c cs, P c → Q cs → Q (c :: cs)) : (∀ t, P t) ∧ (∀ cs, Q cs) := by
  have key : ∀ t, P t := by
    intro t
    induction t using LTree.rec (motive_2 := Q) with
    | node r cs ih => exact hnode r cs ih
    | tok a b => exact htok a b
    | none => exact hnone
    | nil => exact hnil
    | cons c cs ihc ihcs => exact hcons c cs ihc ihcs
  refine ⟨key, ?_⟩
  intro cs
  induction cs with
  | nil => exact hnil
  | cons c cs ih => exact hcons c cs (key c) ih

theorem events_node (rule : String) (cs : List LTree) :
    (LTree.node rule cs).events = eventsList cs ++ nodeEvents rule cs := by simp [LTree.events]
theorem eventsList_cons (c : LTree) (cs : List LTree) : eventsList (c :: cs) = c.events ++ eventsList cs := by
  simp [eventsList]

/-- generic: an attribute fired exactly by the callback of rule `r` is on iff the tree has a node `r` -/
theorem attr_iff_hasRule (a r : String)
    (h : ∀ rule cs, a ∈ (nodeEvents rule cs).filterMap evAttr ↔ rule = r) :
    (∀ t : LTree, a ∈ t.events.filterMap evAttr ↔ t.hasRule r = true) ∧
    (∀ cs, a ∈ (eventsList cs).filterMap evAttr ↔ hasRuleList r cs = true) := by
  apply LTree.induct2
  · intro rule cs ih
    rw [events_node, List.filterMap_append, List.mem_append, ih, h, hasRule_node]
    simp [or_comm]
  · intro a b; simp [LTree.events, LTree.hasRule]
  · simp [LTree.events, LTree.hasRule]
  · simp [eventsList, hasRuleList]
  · intro c cs ihc ihcs
    rw [eventsList_cons, List.filterMap_append, List.mem_append, ihc, ihcs]
    simp [hasRuleList]

theorem cond_iff (t : LTree) : "is_conditional" ∈ t.events.filterMap evAttr ↔ t.hasRule "selection_stmt" = true :=
  (attr_iff_hasRule _ _ (by intro rule cs; rw [nodeAttrs_eq]; simp)).1 t
theorem mem_write_iff (t : LTree) : "writes_mem" ∈ t.events.filterMap evAttr ↔ t.hasRule "mem_store" = true :=
  (attr_iff_hasRule _ _ (by intro rule cs; rw [nodeAttrs_eq]; simp)).1 t
theorem mem_read_iff (t : LTree) : "reads_mem" ∈ t.events.filterMap evAttr ↔ t.hasRule "mem_load" = true :=
  (attr_iff_hasRule _ _ (by intro rule cs; rw [nodeAttrs_eq]; simp)).1 t
theorem branch_iff (t : LTree) : "branches" ∈ t.events.filterMap evAttr ↔ t.hasRule "jump" = true :=
  (attr_iff_hasRule _ _ (by intro rule cs; rw [nodeAttrs_eq]; simp)).1 t

theorem new_iff_aux :
    (∀ t : LTree, "uses_new" ∈ t.events.filterMap evAttr ↔ t.usesNew = true) ∧
    (∀ cs, "uses_new" ∈ (eventsList cs).filterMap evAttr ↔ usesNewList cs = true) := by
  apply LTree.induct2
  · intro rule cs ih
    rw [events_node, List.filterMap_append, List.mem_append, ih, nodeAttrs_eq, usesNew_node]
    simp [or_comm]
  · intro a b; simp [LTree.events, LTree.usesNew]
  · simp [LTree.events, LTree.usesNew]
  · simp [eventsList, usesNewList]
  · intro c cs ihc ihcs
    rw [eventsList_cons, List.filterMap_append, List.mem_append, ihc, ihcs]
    simp [usesNewList]
theorem new_iff (t : LTree) : "uses_new" ∈ t.events.filterMap evAttr ↔ t.usesNew = true := new_iff_aux.1 t

theorem wpred_iff_aux :
    (∀ t : LTree, "writes_predicate" ∈ t.events.filterMap evAttr ↔ t.predWrites ≠ []) ∧
    (∀ cs, "writes_predicate" ∈ (eventsList cs).filterMap evAttr ↔ predWritesList cs ≠ []) := by
  apply LTree.induct2
  · intro rule cs ih
    rw [events_node, List.filterMap_append, List.mem_append, ih, nodeAttrs_eq, predWrites_node]
    simp
    by_cases h : predWritesList cs = [] <;> simp [h]
  · intro a b; simp [LTree.events, LTree.predWrites]
  · simp [LTree.events, LTree.predWrites]
  · simp [eventsList, predWritesList]
  · intro c cs ihc ihcs
    rw [eventsList_cons, List.filterMap_append, List.mem_append, ihc, ihcs]
    simp [predWritesList]
    by_cases h : c.predWrites = [] <;> simp [h]
theorem wpred_iff (t : LTree) : "writes_predicate" ∈ t.events.filterMap evAttr ↔ t.predWrites ≠ [] := wpred_iff_aux.1 t

theorem preds_events_aux :
    (∀ t : LTree, t.events.filterMap evPred = t.predWrites.filterMap id) ∧
    (∀ cs, (eventsList cs).filterMap evPred = (predWritesList cs).filterMap id) := by
  apply LTree.induct2
  · intro rule cs ih
    rw [events_node, List.filterMap_append, ih, nodePreds_eq, predWrites_node, List.filterMap_append]
  · intro a b; simp [LTree.events, LTree.predWrites]
  · simp [LTree.events, LTree.predWrites]
  · simp [eventsList, predWritesList]
  · intro c cs ihc ihcs
    rw [eventsList_cons, List.filterMap_append, ihc, ihcs]
    simp [predWritesList]
theorem preds_events (t : LTree) : t.events.filterMap evPred = t.predWrites.filterMap id := preds_events_aux.1 t


/-! ### `getMeta` vs. `Attrs.render` -/

/-- the WRITE_Pn text as `getMeta` builds it -/
def writePFmt (p : Nat) : String := fillHole "HEX_IL_INSN_ATTR_WRITE_P{}" (toString p)

def metaSpec (c n mw mr b w : Bool) (preds : List Nat) : List String :=
  let out := (if c then ["HEX_IL_INSN_ATTR_COND"] else []) ++ ((if n then ["HEX_IL_INSN_ATTR_NEW"] else []) ++
    ((if mw then ["HEX_IL_INSN_ATTR_MEM_WRITE"] else []) ++ ((if mr then ["HEX_IL_INSN_ATTR_MEM_READ"] else []) ++
    ((if b then ["HEX_IL_INSN_ATTR_BRANCH"] else []) ++
    ((if w then ["HEX_IL_INSN_ATTR_WPRED"] else []) ++ ((if w then preds.map writePFmt else []) ++ []))))))
  if out.isEmpty then ["HEX_IL_INSN_ATTR_NONE"] else out

theorem getMeta_eq (f : Flags) : getMeta f =
    metaSpec (f.on.contains "is_conditional") (f.on.contains "uses_new") (f.on.contains "writes_mem")
      (f.on.contains "reads_mem") (f.on.contains "branches") (f.on.contains "writes_predicate") f.preds := by
  rfl

theorem writePFmt_ok : ∀ p : Nat, p < 4 → writePFmt p = s!"HEX_IL_INSN_ATTR_WRITE_P{p}" := by decide

theorem metaSpec_eq_render (a : Attrs) (hlt : ∀ p ∈ a.preds, p < 4) :
    metaSpec a.cond a.usesNew a.memWrite a.memRead a.branch a.wpred a.preds = a.render := by
  have hm : a.preds.map writePFmt = a.preds.map (fun p => s!"HEX_IL_INSN_ATTR_WRITE_P{p}") :=
    List.map_congr_left (fun p hp => writePFmt_ok p (hlt p hp))
  obtain ⟨c, n, mw, mr, b, w, preds⟩ := a
  simp only [metaSpec, Attrs.render, List.append_assoc, List.append_nil] at hm ⊢
  cases w
  · simp
  · simp [hm]

def sixAttrs : List String := ["is_conditional", "uses_new", "writes_mem", "reads_mem", "branches", "writes_predicate"]

theorem contains_eq_of_iff {l : List String} {a : String} {b : Bool} (h : a ∈ l ↔ b = true) : l.contains a = b := by
  cases b <;> simp_all

theorem evPred_lt {ev : MetaEvent} {p : Nat} (h : evPred ev = some p) : p < 4 := by
  unfold evPred at h
  split at h
  · cases h; omega
  · cases h

theorem mem_on_fold {a : String} (evs : List MetaEvent) (f0 : Flags) (h0 : a ∉ f0.on) :
    a ∈ (evs.foldl applyEvent f0).on ↔ a ∈ evs.filterMap evAttr := by
  rw [foldl_on, mem_foldl_addOn]; simp [h0]

/-- Flag level: started from a state in which the six attributes are off and no predicate is recorded,
    the state after the part's events is exactly the specification of the part's own text. -/
theorem flags_of_tree (f0 : Flags) (t : LTree) (hoff : ∀ a ∈ sixAttrs, a ∉ f0.on) (hp : f0.preds = []) :
    let f := t.events.foldl applyEvent f0
    let a := attrsOfTree t
    f.on.contains "is_conditional" = a.cond ∧ f.on.contains "uses_new" = a.usesNew ∧
    f.on.contains "writes_mem" = a.memWrite ∧ f.on.contains "reads_mem" = a.memRead ∧
    f.on.contains "branches" = a.branch ∧ f.on.contains "writes_predicate" = a.wpred ∧
    f.preds = a.preds := by
  refine ⟨?_, ?_, ?_, ?_, ?_, ?_, ?_⟩
  · exact contains_eq_of_iff ((mem_on_fold _ _ (hoff _ (by decide))).trans (cond_iff t))
  · exact contains_eq_of_iff ((mem_on_fold _ _ (hoff _ (by decide))).trans (new_iff t))
  · exact contains_eq_of_iff ((mem_on_fold _ _ (hoff _ (by decide))).trans (mem_write_iff t))
  · exact contains_eq_of_iff ((mem_on_fold _ _ (hoff _ (by decide))).trans (mem_read_iff t))
  · exact contains_eq_of_iff ((mem_on_fold _ _ (hoff _ (by decide))).trans (branch_iff t))
  · refine contains_eq_of_iff ((mem_on_fold _ _ (hoff _ (by decide))).trans ((wpred_iff t).trans ?_))
    simp [attrsOfTree]
  · simp only [foldl_preds, hp, foldl_addPred_nil, preds_events, attrsOfTree]

-- non-vacuity of `flags_of_tree` / `getMeta_of_tree`: a start state with unrelated content and the six attributes off
example : (∀ a ∈ sixAttrs, a ∉ ({ on := ["something_else"], preds := [] } : Flags).on) ∧
    ({ on := ["something_else"], preds := [] } : Flags).preds = [] := by decide

theorem attrsOfTree_preds_lt (t : LTree) : ∀ p ∈ (attrsOfTree t).preds, p < 4 := by
  intro p hp
  have : p ∈ t.events.filterMap evPred := by
    rw [preds_events]; simp only [attrsOfTree] at hp
    exact List.mem_eraseDups.1 hp
  obtain ⟨ev, _, h⟩ := List.mem_filterMap.1 this
  exact evPred_lt h

theorem getMeta_of_tree (f0 : Flags) (t : LTree) (hoff : ∀ a ∈ sixAttrs, a ∉ f0.on) (hp : f0.preds = []) :
    getMeta (t.events.foldl applyEvent f0) = (attrsOfTree t).render := by
  obtain ⟨h1, h2, h3, h4, h5, h6, h7⟩ := flags_of_tree f0 t hoff hp
  rw [getMeta_eq, h1, h2, h3, h4, h5, h6, h7]
  exact metaSpec_eq_render _ (attrsOfTree_preds_lt t)

/-! ## 2. history freedom of the boolean attributes -/

/-- every attribute some setter can set -/
def settableAttrs : List String := Gen.setterRows.flatMap (·.2.1)

/-- table fact: `reset_flags` clears every attribute any setter can set -/
theorem settable_cleared : ∀ a ∈ settableAttrs, a ∈ Gen.resetFlagsCleared := by decide

/-- table fact: the six boolean attributes are cleared by `reset_flags` -/
theorem reset_flags_clears_six : ∀ a ∈ sixAttrs, a ∈ Gen.resetFlagsCleared := by decide

/-- Well-formed flag state: only attributes that some setter can set are on.  (A `Flags` value is a list of
    arbitrary strings; a name that no setter sets is not something the Python object can hold.) -/
def Flags.WF (f : Flags) : Prop := ∀ a ∈ f.on, a ∈ settableAttrs

instance (f : Flags) : Decidable f.WF := by unfold Flags.WF; infer_instance

theorem evAttr_settable {ev : MetaEvent} {a : String} (h : evAttr ev = some a) : a ∈ settableAttrs := by
  unfold evAttr at h
  repeat' split at h
  all_goals first | (cases h; decide) | cases h

theorem Flags.WF_empty : Flags.empty.WF := by intro a h; cases h

theorem Flags.WF_applyEvent {f : Flags} (h : f.WF) (ev : MetaEvent) : (applyEvent f ev).WF := by
  rw [applyEvent_eq]
  intro a ha
  simp only at ha
  cases he : evAttr ev with
  | none => rw [he] at ha; exact h a ha
  | some b =>
    rw [he] at ha
    rcases mem_addOn.1 ha with h' | rfl
    · exact h a h'
    · exact evAttr_settable he

theorem Flags.WF_foldl {f : Flags} (h : f.WF) (evs : List MetaEvent) : (evs.foldl applyEvent f).WF := by
  induction evs generalizing f with
  | nil => exact h
  | cons ev evs ih => exact ih (Flags.WF_applyEvent h ev)

theorem resetFlags_on_of_WF {f : Flags} (h : f.WF) : (resetFlags f).on = [] := by
  simp only [resetFlags, List.filter_eq_nil_iff]
  intro a ha
  have := settable_cleared a (h a ha)
  simp [this]

theorem Flags.WF_resetFlags {f : Flags} (h : f.WF) : (resetFlags f).WF := by
  intro a ha; rw [resetFlags_on_of_WF h] at ha; cases ha

/-- **History freedom of the boolean attributes**: for every well-formed prior state, the attributes that are
    on after a part's events depend only on those events. -/
theorem flags_history_free (s : Flags) (hs : s.WF) (evs : List MetaEvent) :
    (evs.foldl applyEvent (resetFlags s)).on = (evs.foldl applyEvent (resetFlags Flags.empty)).on := by
  rw [foldl_on, foldl_on, resetFlags_on_of_WF hs, resetFlags_on_of_WF Flags.WF_empty]

example : ({ on := ["writes_mem", "branches"], preds := [2] } : Flags).WF := by decide

/-- States the extension can actually be in: start empty, fire events, reset. -/
inductive Flags.Reachable : Flags → Prop
  | empty : Flags.Reachable Flags.empty
  | event {f} (ev : MetaEvent) : Flags.Reachable f → Flags.Reachable (applyEvent f ev)
  | reset {f} : Flags.Reachable f → Flags.Reachable (resetFlags f)

theorem Flags.Reachable.wf {f : Flags} (h : f.Reachable) : f.WF := by
  induction h with
  | empty => exact Flags.WF_empty
  | event ev _ ih => exact Flags.WF_applyEvent ih ev
  | reset _ ih => exact Flags.WF_resetFlags ih

/-- `flags_history_free` for all histories: no hypothesis left besides reachability. -/
theorem flags_history_free_reachable (s : Flags) (hs : s.Reachable) (evs : List MetaEvent) :
    (evs.foldl applyEvent (resetFlags s)).on = (evs.foldl applyEvent (resetFlags Flags.empty)).on :=
  flags_history_free s hs.wf evs

example : (applyEvent (applyEvent Flags.empty { token := "mem_load" }) { token := "pred_write", predNum := 1 }).Reachable :=
  .event _ (.event _ .empty)

/-- The statement for EVERY `s : Flags` (no well-formedness) — false in the model, because `Flags.on` may hold a
    name no setter sets, which `resetFlags` keeps. Stated, not claimed. -/
def flags_history_free_unrestricted_statement : Prop :=
  ∀ (s : Flags) (evs : List MetaEvent),
    (evs.foldl applyEvent (resetFlags s)).on = (evs.foldl applyEvent (resetFlags Flags.empty)).on

theorem flags_history_free_unrestricted_false : ¬ flags_history_free_unrestricted_statement := by
  intro h
  exact absurd (h { on := ["not_an_attribute"], preds := [] } []) (by decide)

/-- Unconditional observable form: what `get_meta` reports after a part's events does not depend on which
    attributes were on before, only on the recorded predicates (for EVERY `s`, well-formed or not). -/
theorem meta_history_free_mod_preds (s : Flags) (evs : List MetaEvent) :
    getMeta (evs.foldl applyEvent (resetFlags s)) =
    getMeta (evs.foldl applyEvent (resetFlags { on := [], preds := s.preds })) := by
  have hoff : ∀ (s : Flags), ∀ a ∈ sixAttrs, a ∉ (resetFlags s).on := by
    intro s a ha hm
    simp only [resetFlags, List.mem_filter] at hm
    have hc : a ∈ Gen.resetFlagsCleared := reset_flags_clears_six a ha
    simp [hc] at hm
  have hon : ∀ a ∈ sixAttrs, (evs.foldl applyEvent (resetFlags s)).on.contains a =
      (evs.foldl applyEvent (resetFlags { on := [], preds := s.preds })).on.contains a := by
    intro a ha
    apply Bool.eq_iff_iff.2
    simp only [List.contains_iff_mem]
    rw [mem_on_fold _ _ (hoff _ a ha), mem_on_fold _ _ (hoff _ a ha)]
  have hpreds : (evs.foldl applyEvent (resetFlags s)).preds =
      (evs.foldl applyEvent (resetFlags { on := [], preds := s.preds })).preds := by
    rw [foldl_preds, foldl_preds]; rfl
  rw [getMeta_eq, getMeta_eq, hpreds, hon _ (by decide), hon _ (by decide), hon _ (by decide), hon _ (by decide),
    hon _ (by decide), hon _ (by decide)]


/-! ## 3. the reported attributes are those of the part's own text -/

theorem six_off_after_reset (prior : Flags) : ∀ a ∈ sixAttrs, a ∉ (resetFlags prior).on := by
  intro a ha hm
  simp only [resetFlags, List.mem_filter] at hm
  have hc : a ∈ Gen.resetFlagsCleared := reset_flags_clears_six a ha
  simp [hc] at hm

theorem preds_after_reset_of_nil {prior : Flags} (hp : prior.preds = []) : (resetFlags prior).preds = [] := by
  simp only [resetFlags]; split <;> simp [hp]

/-- **C13 main theorem (partial)**: if no earlier part recorded an explicit predicate, what the code reports for a
    part is exactly the rendering of the attributes of the part's own text — for every tree and every prior
    attribute state.  Does not depend on `preds_written_never_cleared`. -/
theorem meta_of_tree_partial (prior : Flags) (t : LTree) (hp : prior.preds = []) :
    metaAfter prior t = (attrsOfTree t).render :=
  getMeta_of_tree (resetFlags prior) t (six_off_after_reset prior) (preds_after_reset_of_nil hp)

/-- flag-level form of `meta_of_tree_partial` (the seven components separately) -/
theorem meta_flags_of_tree_partial (prior : Flags) (t : LTree) (hp : prior.preds = []) :
    let f := t.events.foldl applyEvent (resetFlags prior)
    let a := attrsOfTree t
    f.on.contains "is_conditional" = a.cond ∧ f.on.contains "uses_new" = a.usesNew ∧
    f.on.contains "writes_mem" = a.memWrite ∧ f.on.contains "reads_mem" = a.memRead ∧
    f.on.contains "branches" = a.branch ∧ f.on.contains "writes_predicate" = a.wpred ∧
    f.preds = a.preds :=
  flags_of_tree (resetFlags prior) t (six_off_after_reset prior) (preds_after_reset_of_nil hp)

/-- The six boolean attributes need no hypothesis at all (every prior state, every tree). -/
theorem meta_bools_of_tree (prior : Flags) (t : LTree) :
    let f := t.events.foldl applyEvent (resetFlags prior)
    let a := attrsOfTree t
    f.on.contains "is_conditional" = a.cond ∧ f.on.contains "uses_new" = a.usesNew ∧
    f.on.contains "writes_mem" = a.memWrite ∧ f.on.contains "reads_mem" = a.memRead ∧
    f.on.contains "branches" = a.branch ∧ f.on.contains "writes_predicate" = a.wpred := by
  have hoff := six_off_after_reset prior
  refine ⟨?_, ?_, ?_, ?_, ?_, ?_⟩
  · exact contains_eq_of_iff ((mem_on_fold _ _ (hoff _ (by decide))).trans (cond_iff t))
  · exact contains_eq_of_iff ((mem_on_fold _ _ (hoff _ (by decide))).trans (new_iff t))
  · exact contains_eq_of_iff ((mem_on_fold _ _ (hoff _ (by decide))).trans (mem_write_iff t))
  · exact contains_eq_of_iff ((mem_on_fold _ _ (hoff _ (by decide))).trans (mem_read_iff t))
  · exact contains_eq_of_iff ((mem_on_fold _ _ (hoff _ (by decide))).trans (branch_iff t))
  · refine contains_eq_of_iff ((mem_on_fold _ _ (hoff _ (by decide))).trans ((wpred_iff t).trans ?_))
    simp [attrsOfTree]

/-! Witness trees: `P0 = 1` (explicit predicate) and `PdV = 1` (predicate by letter). -/
def tP0 : LTree := .node "assignment_expr"
  [.node "explicit_reg" [.tok "ANONYMOUS" "P0", .none], .tok "ASSIGN" "=", .tok "DEC_NUMBER" "1"]
def tPd : LTree := .node "assignment_expr"
  [.node "reg" [.tok "REG_TYPE" "P", .tok "DEST_REG" "d"], .tok "ASSIGN" "=", .tok "DEC_NUMBER" "1"]
/-- a part that reads memory under a condition and jumps (for non-vacuity examples) -/
def tCondLoadJump : LTree := .node "selection_stmt"
  [.tok "IF" "if", .node "mem_load" [.tok "X" "x"], .node "jump" [.tok "JUMP" "JUMP", .node "reg" [.tok "REG_TYPE" "R", .tok "SRC_REG" "s"]]]

/-- the flag state left by the part `P0 = 1` compiled on a fresh extension -/
def priorP0 : Flags := tP0.events.foldl applyEvent (resetFlags Flags.empty)

theorem priorP0_eq : priorP0 = { on := ["writes_predicate"], preds := [0] } := by decide

-- non-vacuity of `meta_of_tree_partial`: a prior state with attributes on and no recorded predicate
example : ({ on := ["reads_mem", "uses_new"], preds := [] } : Flags).preds = [] := rfl
example : metaAfter { on := ["reads_mem", "uses_new"], preds := [] } tCondLoadJump =
    ["HEX_IL_INSN_ATTR_COND", "HEX_IL_INSN_ATTR_MEM_READ", "HEX_IL_INSN_ATTR_BRANCH"] := by decide
example : metaAfter Flags.empty tP0 = ["HEX_IL_INSN_ATTR_WPRED", "HEX_IL_INSN_ATTR_WRITE_P0"] := by decide

/-- Full-strength statement (every prior state) — FALSE on the current source (refuted in `section KnownDefect`:
    `meta_of_tree_full_statement_false`). Stated, not claimed. -/
def meta_of_tree_full_statement : Prop :=
  ∀ (prior : Flags) (t : LTree), metaAfter prior t = (attrsOfTree t).render

/-! ### repaired `reset_flags` -/

/-- `reset_flags` as it should be: also forgets the recorded predicates. -/
def resetFlagsFixed (f : Flags) : Flags := { on := (resetFlags f).on, preds := [] }

def metaAfterFixed (prior : Flags) (t : LTree) : List String :=
  getMeta (t.events.foldl applyEvent (resetFlagsFixed prior))

/-- With the repaired reset the full-strength statement holds: every prior state, every tree. -/
theorem meta_of_tree_if_preds_cleared (prior : Flags) (t : LTree) :
    metaAfterFixed prior t = (attrsOfTree t).render :=
  getMeta_of_tree (resetFlagsFixed prior) t (six_off_after_reset prior) rfl

example : metaAfterFixed priorP0 tPd = ["HEX_IL_INSN_ATTR_WPRED"] := by decide

/-! ## 4. -/
theorem noped_none : getMeta Flags.empty = ["HEX_IL_INSN_ATTR_NONE"] := by decide

/-! ## The repaired source: `reset_flags` clears `preds_written` (fix commit "written predicate numbers are per extension
    instance and cleared by reset_flags").  `preds_written_cleared` is a fact about the REGENERATED table; if the
    clearing is ever removed again it stops compiling and the full statement below is no longer proved. -/
section Repaired

theorem preds_written_cleared : "preds_written" ∈ Gen.resetFlagsCleared := by decide

/-- consequence: `resetFlags` forgets the recorded predicates -/
theorem resetFlags_clears_preds (f : Flags) : (resetFlags f).preds = [] := by
  simp [resetFlags, preds_written_cleared]

/-- **The full-strength statement** (every prior attribute state, every tree): the reported attributes are exactly
    those of the instruction's own tree. -/
theorem meta_of_tree_full : meta_of_tree_full_statement := fun prior t =>
  getMeta_of_tree (resetFlags prior) t (six_off_after_reset prior) (resetFlags_clears_preds prior)

/-- the project's formerly failing `test_C4_and_and`: after a part that assigned explicit `P0`, a part assigning a
    predicate by letter no longer reports `WRITE_P0` -/
example : metaAfter priorP0 tPd = ["HEX_IL_INSN_ATTR_WPRED"] := by decide

end Repaired

end Rzil
