import RzilVerif.Model.Compile
/-!
# C02 — operators (first version; the full preservation theorem is being proved separately)
-/
namespace Rzil

/-- The specification's common type is symmetric. -/
theorem CT.common_comm (a b : CT) : a.common b = b.common a := by
  obtain ⟨sa, wa⟩ := a; obtain ⟨sb, wb⟩ := b
  simp only [CT.common, CT.promote]
  cases sa <;> cases sb <;> (repeat' split) <;> simp_all [Nat.max_comm] <;> try omega

/-- Promotion never narrows and yields at least 32 bit. -/
theorem CT.promote_width (t : CT) : 32 ≤ t.promote.width := by
  unfold CT.promote; split <;> simp_all <;> omega

/-- The result of a shift has the promoted type of its left operand. -/
theorem shift_result_type (op : String) (a b : CExpr) : typeOfC (.shift op a b) = (typeOfC a).promote := rfl

/-- Comparisons and logical operators yield `int`. -/
theorem cmp_result_type (op : String) (a b : CExpr) : typeOfC (.cmp op a b) = intT := rfl
theorem log_result_type (op : String) (a b : CExpr) : typeOfC (.log op a b) = intT := rfl

/-- Comparison and logical results are 0 or 1. -/
theorem boolVal_01 (b : Bool) : boolVal b = .bv 32 0 ∨ boolVal b = .bv 32 1 := by
  cases b <;> simp [boolVal]

end Rzil
