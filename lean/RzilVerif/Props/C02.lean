import RzilVerif.Lemmas.ExprT2
/-!
# C02 — the lowering of expressions preserves C semantics (operators)

`expr_correct_fixed`: for every expression of the pure fragment (all constructors of `CExpr` except the
value-producing side effects `.post/.call/.stmtexpr`, which `evalC`/`compileExpr` reject), the IL the repaired
lowering (`Cfg.fixed`) produces evaluates to the C value (`Rel`) and has the C type (`TyOK`).
The per-constructor lemmas are in `RzilVerif/Lemmas/ExprCases.lean`.
-/
namespace Rzil

/-- all constructors at once (`Good` = the statement for one expression, `GoodArgs` for an argument list) -/
theorem good_all (ms : MacroSem) (σ : MState) (asg : List String) (hms : MsOK ms) (e : CExpr) : Good ms σ asg e := by
  refine CExpr.rec (motive_1 := Good ms σ asg) (motive_2 := GoodArgs ms σ asg)
    ?reg ?imm ?lit ?var ?cast ?un ?not ?bin ?shift ?cmp ?log ?tern ?macroc ?load ?post ?call ?stmtexpr ?seqexpr ?callx ?xmacro ?nil ?cons e
  case reg => exact fun n k t => good_reg ms σ asg n k t
  case imm => exact fun l s => good_imm ms σ asg l s
  case lit => exact fun v h s => good_lit ms σ asg v h s
  case var => exact fun n t => good_var ms σ asg n t
  case cast => exact fun t e ih => good_cast ms σ asg t e ih
  case un => exact fun op e ih => good_un ms σ asg op e ih
  case not => exact fun e ih => good_not ms σ asg e ih
  case bin => exact fun op a b iha ihb => good_bin ms σ asg op a b iha ihb
  case shift => exact fun op a b iha ihb => good_shift ms σ asg op a b iha ihb
  case cmp => exact fun op a b iha ihb => good_cmp ms σ asg op a b iha ihb
  case log => exact fun op a b iha ihb => good_log ms σ asg op a b iha ihb
  case tern => exact fun c a b ihc iha ihb => good_tern ms σ asg c a b ihc iha ihb
  case macroc => exact fun name args ret params ih => good_macro ms σ asg name args ret params hms ih
  case load => exact fun s w t => good_load ms σ asg s w t
  case post => intro v t op _ vC ce hC _; rw [evalC_post] at hC; cases hC
  case call => intro n a r p _ _ vC ce hC _; rw [evalC_call] at hC; cases hC
  case stmtexpr => intro t v e _ _ vC ce hC _; rw [evalC_stmtexpr] at hC; cases hC
  case seqexpr => intro n x a p v _ _ _ vC ce hC _; rw [evalC_seqexpr] at hC; cases hC
  case callx => intro n x a r p _ _ vC ce hC _; rw [evalC_callx] at hC; cases hC
  case xmacro => intro n x r _ vC ce hC _; rw [evalC_xmacro] at hC; cases hC
  case nil => exact goodArgs_nil ms σ asg
  case cons => exact fun a as iha ihas => goodArgs_cons ms σ asg a as iha ihas

/-- **C02 main theorem** (repaired lowering): if the C expression `e` evaluates to `vC` in state `σ` under the
    macro interpretation `ms`, and the lowering with `Cfg.fixed` produces `ce`, then `ce.il` evaluates (in the same
    state, no `LET` bindings) to a value related to `vC`, and the compiler type of `ce` is the C type of `e`.
    Side conditions: `WFE σ e` (computable, see `RzilVerif/Model/ExprWF.lean`) and `MsOK ms` (only used for
    `.macro` sub-expressions). -/
theorem expr_correct_fixed (ms : MacroSem) (σ : MState) (env : CEnv) (e : CExpr) (vC : Val) (ce : CE)
    (hcfg : env.cfg = Cfg.fixed) (hms : MsOK ms) (hwf : WFE σ e = true)
    (hC : evalC ms σ e = .ok vC) (hI : compileExpr env e = .ok ce) :
    ∃ vIL, evalPure ms σ [] ce.il = .ok vIL ∧ Rel ce.ty vIL vC ∧ TyOK ce.ty (typeOfC e) vC := by
  obtain ⟨asg, cfg⟩ := env
  simp only at hcfg
  subst hcfg
  exact (good_all ms σ asg hms e hwf vC ce hC hI).1.spec

/-- the same without macro calls: no hypothesis on the macro interpretation (`noMacro e`) -/
theorem expr_correct_fixed_sim (ms : MacroSem) (σ : MState) (asg : List String) (e : CExpr) (vC : Val) (ce : CE)
    (hms : MsOK ms) (hwf : WFE σ e = true)
    (hC : evalC ms σ e = .ok vC) (hI : compileExpr ⟨asg, Cfg.fixed⟩ e = .ok ce) :
    Sim ms σ ce (typeOfC e) vC ∧ (ce.ty.hasFlag VT.gBOOL = true → isBoolE e = true) :=
  good_all ms σ asg hms e hwf vC ce hC hI


/-! ## named facts of the property -/

/-- `shift_result_type`: the result of a shift has the promoted type of its LEFT operand, and the IL operator of
    `>>` is the arithmetic shift iff that type is signed. -/
theorem shift_result_type (ms : MacroSem) (σ : MState) (asg : List String) (op : String) (a b : CExpr) (vC : Val) (ce : CE)
    (hms : MsOK ms) (hwf : WFE σ (.shift op a b) = true)
    (hC : evalC ms σ (.shift op a b) = .ok vC) (hI : compileExpr ⟨asg, Cfg.fixed⟩ (.shift op a b) = .ok ce) :
    vtCT ce.ty = (typeOfC a).promote ∧
    ∃ ia ib, ce.il = .bin (if op == "<<" then .shiftl0 else if (typeOfC a).promote.signed then .shiftra else .shiftr0) ia ib := by
  have hg := (good_all ms σ asg hms _ hwf vC ce hC hI).1
  have hnb : ce.ty.hasFlag VT.gBOOL = false := by
    cases h : ce.ty.hasFlag VT.gBOOL
    · rfl
    · have := (good_all ms σ asg hms _ hwf vC ce hC hI).2 h; cases this
  obtain ⟨x, hx⟩ := hg.bv
  subst hx
  obtain ⟨ht, -, -⟩ := hg.int_inv hnb
  refine ⟨ht, ?_⟩
  simp only [compileExpr_shift, bind_ok_iff, cfgsimp, Bool.false_eq_true, if_false, Except.ok.injEq] at hI
  obtain ⟨ca, -, cb, -, hI⟩ := hI
  subst hI
  have hs : (promotionCast Cfg.fixed ca).ty.signed = (typeOfC a).promote.signed := by
    have := congrArg CT.signed ht; exact this
  exact ⟨_, _, by rw [hs]⟩

/-- `cmp_result_01`: a comparison yields the `int` value 0 or 1 in C and the corresponding `bool` in the IL. -/
theorem cmp_result_01 (ms : MacroSem) (σ : MState) (asg : List String) (op : String) (a b : CExpr) (vC : Val) (ce : CE)
    (hms : MsOK ms) (hwf : WFE σ (.cmp op a b) = true)
    (hC : evalC ms σ (.cmp op a b) = .ok vC) (hI : compileExpr ⟨asg, Cfg.fixed⟩ (.cmp op a b) = .ok ce) :
    ∃ r : Bool, vC = .bv 32 (if r then 1 else 0) ∧ evalPure ms σ [] ce.il = .ok (.bool r) ∧ ce.ty = gBoolT := by
  have hg := (good_all ms σ asg hms _ hwf vC ce hC hI).1
  have hty : ce.ty = gBoolT := by
    simp only [compileExpr_cmp, bind_ok_iff, Except.ok.injEq] at hI
    obtain ⟨ca, -, cb, -, hI⟩ := hI
    subst hI
    unfold cmpBody
    split
    · rfl
    · rfl
  cases hg with
  | int x hf => rw [hty] at hf; cases hf
  | bool r hf hw hs ht hev hv hk => exact ⟨r, hv, hev, hty⟩

/-- `cmp_signed_iff_common_signed`: the run-time comparison is the signed IL operator iff the common type of the
    two (promoted) operands is signed, and both operands are converted to that common type. -/
theorem cmp_signed_iff_common_signed {ms σ ca cb ta tb} {x : BitVec ta.width} {y : BitVec tb.width} (op : String)
    (ha : Sim ms σ ca ta (.bv ta.width x)) (hb : Sim ms σ cb tb (.bv tb.width y)) :
    ∃ ia ib, (cmpOfCE Cfg.fixed op ca cb).il = cmpIL op (ta.common tb).signed ia ib ∧
      evalPure ms σ [] ia = .ok (.bv (ta.common tb).width (convBits ta (ta.common tb) x)) ∧
      evalPure ms σ [] ib = .ok (.bv (ta.common tb).width (convBits tb (ta.common tb) y)) := by
  obtain ⟨h1, h2⟩ := sim_arith_operands ha hb
  refine ⟨_, _, ?_, h1.2.2.1, h2.2.2.1⟩
  rw [cmpOfCE_fixed]
  simp only
  have hs1 : (castOperands Cfg.fixed (promotionCast Cfg.fixed ca) (promotionCast Cfg.fixed cb)).1.ty.signed =
      (ta.common tb).signed := by rw [← h1.2.1]; rfl
  have hs2 : (castOperands Cfg.fixed (promotionCast Cfg.fixed ca) (promotionCast Cfg.fixed cb)).2.ty.signed =
      (ta.common tb).signed := by rw [← h2.2.1]; rfl
  rw [hs1, hs2, Bool.or_self]

/-! ## T2: where the lowering as coded equals the repaired lowering -/

theorem pn_all (asg : List String) (e : CExpr) : PN asg e := by
  refine CExpr.rec (motive_1 := PN asg) (motive_2 := PNs asg)
    ?reg ?imm ?lit ?var ?cast ?un ?not ?bin ?shift ?cmp ?log ?tern ?macroc ?load ?post ?call ?stmtexpr ?seqexpr ?callx ?xmacro ?nil ?cons e
  case reg => exact fun n k t => pn_reg asg n k t
  case imm => exact fun l s => pn_imm asg l s
  case lit => exact fun v h s => pn_lit asg v h s
  case var => exact fun n t => pn_var asg n t
  case cast => exact fun t e ih => pn_cast asg t e ih
  case un => exact fun op e ih => pn_un asg op e ih
  case not => exact fun e ih => pn_not asg e ih
  case bin => exact fun op a b iha ihb => pn_bin asg op a b iha ihb
  case shift => exact fun op a b iha ihb => pn_shift asg op a b iha ihb
  case cmp => exact fun op a b iha ihb => pn_cmp asg op a b iha ihb
  case log => exact fun op a b iha ihb => pn_log asg op a b iha ihb
  case tern => exact fun c a b ihc iha ihb => pn_tern asg c a b ihc iha ihb
  case macroc => exact fun name args ret params ih => pn_macro asg name args ret params ih
  case load => exact fun s w t => pn_load asg s w t
  case post => intro v t op hc; rw [CarveN] at hc; cases hc
  case call => intro n a r p _ hc; rw [CarveN] at hc; cases hc
  case stmtexpr => intro t v e _ hc; rw [CarveN] at hc; cases hc
  case seqexpr => intro n x a p v _ _ hc; rw [CarveN] at hc; cases hc
  case callx => intro n x a r p _ hc; rw [CarveN] at hc; cases hc
  case xmacro => intro n x r hc; rw [CarveN] at hc; cases hc
  case nil => exact pns_nil asg
  case cons => exact fun a as iha ihas => pns_cons asg a as iha ihas

/-- **T2 (node-wise)**: on a carved expression the two lowerings differ at most in the type of a `!`/`&&`/`||` at
    the top (`normTy`): same IL, same object kind. Usable for expressions in condition position. -/
theorem expr_asCode_eq_fixed_upto_boolTy (asg : List String) (e : CExpr) (h : CarveN asg e = true) :
    compileExpr ⟨asg, Cfg.fixed⟩ e = (compileExpr ⟨asg, Cfg.asCode⟩ e).map (normTy e) :=
  pn_all asg e h

theorem expr_asCode_il_eq_fixed (asg : List String) (e : CExpr) (h : CarveN asg e = true) :
    (compileExpr ⟨asg, Cfg.fixed⟩ e).map (fun ce => (ce.il, ce.kind)) =
    (compileExpr ⟨asg, Cfg.asCode⟩ e).map (fun ce => (ce.il, ce.kind)) := by
  rw [pn_all asg e h]
  cases compileExpr ⟨asg, Cfg.asCode⟩ e with
  | error x => rfl
  | ok ce => simp only [Except.map, normTy_il, normTy_kind]

/-- **T2**: on a carved expression used as a value the lowering as coded returns exactly the repaired result. -/
theorem expr_asCode_eq_fixed (env : CEnv) (e : CExpr) (h : CarveE env.assigned e = true) :
    compileExpr { env with cfg := Cfg.asCode } e = compileExpr { env with cfg := Cfg.fixed } e := by
  unfold CarveE at h
  simp only [Bool.and_eq_true, Bool.not_eq_true'] at h
  exact ((pn_all env.assigned e).val h.1 h.2).symm

/-- consequently the code is correct on carved expressions -/
theorem expr_correct_asCode_carved (ms : MacroSem) (σ : MState) (env : CEnv) (e : CExpr) (vC : Val) (ce : CE)
    (hcfg : env.cfg = Cfg.asCode) (hcarve : CarveE env.assigned e = true) (hms : MsOK ms) (hwf : WFE σ e = true)
    (hC : evalC ms σ e = .ok vC) (hI : compileExpr env e = .ok ce) :
    ∃ vIL, evalPure ms σ [] ce.il = .ok vIL ∧ Rel ce.ty vIL vC ∧ TyOK ce.ty (typeOfC e) vC := by
  have h := expr_asCode_eq_fixed env e hcarve
  have he : ({ env with cfg := Cfg.asCode } : CEnv) = env := by cases env; simp only at hcfg; subst hcfg; rfl
  rw [he] at h
  rw [h] at hI
  exact expr_correct_fixed ms σ { env with cfg := Cfg.fixed } e vC ce rfl hms hwf hC hI


/-! ## T3: one witness per excluded class (the two lowerings differ, and `CarveE` says so) -/
namespace T3
def s32 : CT := ⟨true, 32⟩
def s8 : CT := ⟨true, 8⟩
def u8 : CT := ⟨false, 8⟩
def u64 : CT := ⟨false, 64⟩
def s64 : CT := ⟨true, 64⟩
def rs := CExpr.reg "RsV" .src s32
def rt := CExpr.reg "RtV" .src s32
def one := CExpr.lit 1 false ""
def A (asg : List String) : CEnv := ⟨asg, Cfg.asCode⟩
def F (asg : List String) : CEnv := ⟨asg, Cfg.fixed⟩

/-- non-vacuity of T2: typical expressions are carved in -/
example : CarveE [] (.bin "+" rs (.tern (.log "&&" (.cmp "<" rs rt) (.cmp "==" rt one)) (.un "-" rs) (.cast s32 (.var "b" u64)))) = true := by
  decide
example : CarveE [] (.macro "extract64" [.var "b" u64, one, one] u64 [u64, s32, s32]) = true := by decide

/-- class 1: a shift whose left operand is narrower than 32 bit (`a << 1`, `int8_t a`) -/
def eShift := CExpr.shift "<<" (.var "a" s8) one
theorem shift_narrow_carved : CarveE [] eShift = false := by decide
theorem shift_narrow_differs : compileExpr (A []) eShift ≠ compileExpr (F []) eShift := by
  simp [eShift, one, s8, A, F, compileExpr_shift, compileExpr_var, compileExpr_lit, bind, Except.bind, cfgsimp, promotionCast,
    initACast, VT.promoted, VT.eqv, CT.toVT, VT.hasFlag, VT.gBOOL]

/-- class 2: a comparison whose operands C promotes but raw `c11_cast` does not (`a < b`, `int8_t a`, `uint8_t b`) -/
def eCmp := CExpr.cmp "<" (.var "a" s8) (.var "b" u8)
theorem cmp_unpromoted_carved : CarveE [] eCmp = false := by decide
theorem cmp_unpromoted_differs : compileExpr (A []) eCmp ≠ compileExpr (F []) eCmp := by
  simp [eCmp, s8, u8, A, F, compileExpr_cmp, compileExpr_var, bind, Except.bind, cmpBody, cmpOfCE, cfgsimp, promotionCast,
    castOperands, VT.c11Cast, initACast, VT.promoted, VT.eqv, CT.toVT, VT.hasFlag, VT.gBOOL]

/-- class 2': `?:` with narrow arms (`RsV ? a : a2`) -/
def eTern := CExpr.tern rs (.var "a" s8) (.var "a2" s8)
theorem tern_unpromoted_carved : CarveE [] eTern = false := by decide
theorem tern_unpromoted_differs : compileExpr (A []) eTern ≠ compileExpr (F []) eTern := by
  simp [eTern, rs, s8, s32, A, F, compileExpr_tern, compileExpr_var, compileExpr_reg, bind, Except.bind, ternOfCE, cfgsimp,
    promotionCast, castOperands, initACast, VT.promoted, VT.eqv, CT.toVT, VT.hasFlag, VT.gBOOL, regVT]

/-- class 3: a logical result used as a value (`!RsV + 1`): the code types `!RsV` as `RsV` -/
def eNotVal := CExpr.bin "+" (.not rs) one
theorem bool_as_value_carved : CarveE [] eNotVal = false := by decide
theorem bool_as_value_differs : compileExpr (A []) eNotVal ≠ compileExpr (F []) eNotVal := by
  simp [eNotVal, rs, one, s32, A, F, compileExpr_bin, compileExpr_not, compileExpr_reg, compileExpr_lit, bind, Except.bind,
    binBody, compileBin_eq, binOp?, cfgsimp, promotionCast, castOperands, initACast, VT.promoted, VT.eqv,
    CT.toVT, VT.hasFlag, VT.gBOOL, regVT, gBool, litTypeC, litTypeCode]

/-- class 4: conversion of a signed narrower source to a wider unsigned target (`(uint64_t)RsV`) -/
def eCast := CExpr.cast u64 rs
theorem cast_signed_to_unsigned_carved : CarveE [] eCast = false := by decide
theorem cast_signed_to_unsigned_differs : compileExpr (A []) eCast ≠ compileExpr (F []) eCast := by
  simp [eCast, rs, u64, s32, A, F, compileExpr_cast, compileExpr_reg, bind, Except.bind, cfgsimp, initACast, VT.eqv, CT.toVT,
    VT.hasFlag, VT.gBOOL, regVT]

/-- class 5: a literal whose C11 type differs from the suffix-only type (`0x100000000`) -/
def eLit := CExpr.lit 0x100000000 true ""
theorem literal_type_carved : CarveE [] eLit = false := by decide
theorem literal_type_differs : compileExpr (A []) eLit ≠ compileExpr (F []) eLit := by
  simp [eLit, A, F, compileExpr_lit, cfgsimp, litTypeC, litTypeCode, CT.toVT]

/-- class 5': literal folding that wraps (`0x7fffffff * 2`) -/
def eFold := CExpr.bin "*" (.lit 0x7fffffff true "") (.lit 2 false "")
theorem fold_wraps_carved : CarveE [] eFold = false := by decide
theorem fold_wraps_differs : compileExpr (A []) eFold ≠ compileExpr (F []) eFold := by
  simp [eFold, A, F, compileExpr_bin, compileExpr_lit, bind, Except.bind, binBody, foldBin, cfgsimp, litTypeC, litTypeCode,
    CT.toVT, VT.c11Cast, normInt]

/-- class 6: an explicit register pair (`R1:0`): typed by its class only (32 bit) -/
def ePair := CExpr.reg "R1:0" .explicit s64
theorem explicit_pair_carved : CarveE [] ePair = false := by decide
theorem explicit_pair_differs : compileExpr (A []) ePair ≠ compileExpr (F []) ePair := by
  simp [ePair, s64, A, F, compileExpr_reg, regVT, cfgsimp, CT.toVT]

/-- class 7: an alias register that is both read and assigned (`HEX_REG_ALIAS_SP` with its operand assigned) -/
def eAlias := CExpr.reg "HEX_REG_ALIAS_SP" .alias s32
def asgSP : List String := [opvarOf "HEX_REG_ALIAS_SP" .alias]
theorem alias_read_assigned_carved : CarveE asgSP eAlias = false := by
  simp [CarveE, CarveN, regSafe, eAlias, asgSP]
theorem alias_read_assigned_differs : compileExpr (A asgSP) eAlias ≠ compileExpr (F asgSP) eAlias := by
  simp only [eAlias, A, F, compileExpr_reg]
  unfold regRead
  simp [cfgsimp, asgSP]
/-- …and not excluded when it is only read -/
example : CarveE [] eAlias = true := by decide
/-- the explicit predicate register `P0` (8 bit, not a pair), not assigned: carved in -/
example : CarveE [] (.reg "P0" .explicit s8) = true := by decide

/-- a concrete state: immediate `s` = 5 (set as local), local `a : int8_t` = −1 -/
def σ0 : MState := { (default : MState) with imm := fun _ => 5, locals := [("s", .bv 32 5), ("a", .bv 8 0xff)] }
def e0 : CExpr := .bin "+" (.imm "s" true) (.tern (.cmp "<" (.var "a" s8) (.lit 0 false "")) (.cast u64 (.var "a" s8)) (.lit 1 false "U"))

theorem msOK_trivial : MsOK (fun _ _ => none) := by
  intro name w _
  exact ⟨fun _ => rfl, fun vs v h => by cases h⟩

example : WFE σ0 e0 = true := by decide
example : ∃ vC, evalC (fun _ _ => none) σ0 e0 = .ok vC := ⟨_, by
  simp [e0, σ0, s8, u64, evalC_bin, evalC_imm, evalC_tern, evalC_cmp, evalC_var, evalC_lit, evalC_cast, lookupS, bind, Except.bind]
  rfl⟩
example : (compileExpr ⟨[], Cfg.fixed⟩ e0).toBool = true := by decide
/-- hence `expr_correct_fixed` applies to `(σ0, e0)`: all its hypotheses are satisfiable together -/
example : ∃ vC ce, MsOK (fun _ _ => none) ∧ WFE σ0 e0 = true ∧ evalC (fun _ _ => none) σ0 e0 = .ok vC ∧
    compileExpr ⟨[], Cfg.fixed⟩ e0 = .ok ce := by
  have h : (compileExpr ⟨[], Cfg.fixed⟩ e0).toBool = true := by decide
  have hv : ∃ vC, evalC (fun _ _ => none) σ0 e0 = .ok vC := ⟨_, by
    simp [e0, σ0, s8, u64, evalC_bin, evalC_imm, evalC_tern, evalC_cmp, evalC_var, evalC_lit, evalC_cast, lookupS, bind,
      Except.bind]
    rfl⟩
  obtain ⟨vC, hv⟩ := hv
  cases hc : compileExpr ⟨[], Cfg.fixed⟩ e0 with
  | error x => rw [hc] at h; cases h
  | ok ce => exact ⟨vC, ce, msOK_trivial, by decide, hv, rfl⟩

/-! ### findings: constructs outside `WFE` on which the lowering (both configurations) is wrong or ill-sorted -/

/-- state with one local `x : int = 0` -/
def σx : MState := { (default : MState) with locals := [("x", .bv 32 0)] }

/-- **finding** a shift whose amount is a comparison result: C gives `x << 1`/`x << 0`, the lowering (as coded and
    repaired alike) emits `SHIFTL0(x, <bool>)`, which is ill-sorted (evaluation is stuck). Excluded by `WFE`. -/
def eShiftBool : CExpr := .shift "<<" (.var "x" s32) (.cmp "<" (.var "x" s32) (.lit 1 false ""))
theorem finding_shift_by_bool_C (ms) : evalC ms σx eShiftBool = .ok (.bv 32 0) := by
  simp [eShiftBool, σx, s32, evalC_shift, evalC_var, evalC_cmp, evalC_lit, lookupS, bind, Except.bind, convC, typeOfC]
  rfl
theorem finding_shift_by_bool_IL (ms) (cfg : Cfg) (h : cfg = Cfg.fixed ∨ cfg = Cfg.asCode) :
    ∃ ce, compileExpr ⟨[], cfg⟩ eShiftBool = .ok ce ∧ (evalPure ms σx [] ce.il).toBool = false := by
  rcases h with h | h <;> subst h
  · refine ⟨_, by simp [eShiftBool, compileExpr_shift, compileExpr_var, compileExpr_cmp, compileExpr_lit, bind, Except.bind, cfgsimp]; rfl, ?_⟩
    simp [s32, CT.toVT, promotionCast, VT.promoted, VT.eqv, cmpBody, cmpOfCE, cfgsimp, castOperands, litTypeC, evalPure, σx, lookupS,
      bind, Except.bind, evalBin, isShift, numberIL, Except.toBool]
  · refine ⟨_, by simp [eShiftBool, compileExpr_shift, compileExpr_var, compileExpr_cmp, compileExpr_lit, bind, Except.bind, cfgsimp]; rfl, ?_⟩
    simp [s32, CT.toVT, VT.eqv, cmpBody, cmpOfCE, cfgsimp, castOperands, litTypeCode, evalPure, σx, lookupS,
      bind, Except.bind, evalBin, isShift, numberIL, Except.toBool]
theorem finding_shift_by_bool_WFE : WFE σx eShiftBool = false := by decide

/-- **model artefact** a literal ≥ 2⁶⁴ (a constraint violation in C): `evalC` wraps it to 64 bit, the lowering folds a
    constant condition on the unwrapped value. Excluded by `WFE` (`v < 2^64`). -/
def eHuge : CExpr := .tern (.lit (2 ^ 64) false "") (.lit 1 false "") (.lit 2 false "")
theorem finding_huge_literal_WFE (σ : MState) : WFE σ eHuge = false := by
  simp [eHuge, WFE_tern, WFE_lit]
theorem finding_huge_literal_C (ms σ) : evalC ms σ eHuge = .ok (.bv 32 2) := by
  simp only [eHuge, evalC_tern, evalC_lit, bind, Except.bind, truthy, typeOfC]
  rfl
theorem finding_huge_literal_fixed : ∃ ce, compileExpr ⟨[], Cfg.fixed⟩ eHuge = .ok ce ∧ ce.kind = .lit 1 := by
  have h1 : litTypeC 1 false "" = ⟨true, 32⟩ := by decide
  have h2 : litTypeC 2 false "" = ⟨true, 32⟩ := by decide
  refine ⟨_, by simp [eHuge, compileExpr_tern, compileExpr_lit, bind, Except.bind, cfgsimp]; rfl, ?_⟩
  simp [ternOfCE, cfgsimp, h1, h2, CT.toVT, promotionCast, VT.promoted, VT.eqv, castOperands]

end T3

end Rzil
