import RzilVerif.Model.CompileH
import RzilVerif.Model.HybWF
import RzilVerif.Lemmas.HybProg
import RzilVerif.Lemmas.HybChk
import RzilVerif.Lemmas.HybSem
import RzilVerif.Lemmas.HybFragD
import RzilVerif.Lemmas.VCallSem
import RzilVerif.Props.C05Compose
/-!
# C06 — value-producing side effects (postfix `++`/`--`, sub-routine calls, statement-expressions)

Theorems about the hybrid machinery of the lowering model `CompileH` (`Pend`, `popPending`, `chk`,
`compileExprH`, `compileStmtH`, `compileProgH`) as it is, for ALL inputs, plus kernel-checked witnesses of the
classes in which the code (and hence the model under `Cfg.asCode`) violates the property.

1. `popPending_perm`            — popping loses and invents nothing
2. `compile*_fresh`, `*_pendOK` — temporaries are fresh; the invariant `PendOK` is preserved
3. `setTmps_nodup`, `setTmps_length_le`, `setTmps_perm`, `setTmps_length_eq`
                                — every temporary is set at exactly one place of the emitted tree
4. `chk_*`                      — where `chk` puts the popped entries: before their consumer (after, for a loop step)
5. `post_*`, `guard_*`, `stmtexpr_*` — values on the IL semantics
6. `witness_*`                  — violations (C result vs. result of the emitted IL)
7. `compileExprH_unhyb`, `evalCH_unhyb`, `decl_post_sim`, `assign_post_sim`, `*_closed`
                                — simulation for declarations / assignments whose right-hand side contains postfix
                                  operations on locals not otherwise mentioned (repaired configuration `Cfg.fixed`)
8. `vcall_in_place`, `seqexpr_creates`, `seq_entry_members`, `call_effect_writes_cell`, `seq_entry_value`,
   `seq_arm_guarded`, `vcall_usr_sim(_closed)`, `example_saturation_agrees`, `witness_inner_arm_call`
                                — void sub-routine call statements `f(exts…, args…);` and call statement-expressions
                                  `({ f(exts…, args…); val; })` (the saturation pattern of the shipped instructions)
-/
namespace Rzil
namespace C06
open C05 (ExecIL)

/-! ## 1. `popPending` -/

/-- Popping the entries named among `l`: what is popped (`a`) was pending and is named in `l`; what stays (`b`)
    is a sub-list of the pending entries, none of them named in `l` (no distinctness needed for that);
    every pending name survives on one of the two sides; and with pairwise distinct names `a ++ b` is a
    permutation of the pending entries: nothing invented, nothing lost. -/
theorem popPending_perm (p : List Pend) (l : List String) (a b : List Pend) (h : popPending p l = (a, b)) :
    (∀ x ∈ a, x ∈ p ∧ x.tmp ∈ l) ∧
    (b.Sublist p ∧ ∀ x ∈ b, x.tmp ∉ l) ∧
    (∀ x ∈ p, ∃ y ∈ a ++ b, y.tmp = x.tmp) ∧
    ((p.map (·.tmp)).Nodup → (a ++ b).Perm p) := by
  obtain ⟨h1, h2, h3, h4, h5, _, h7⟩ := popPending_spec p l
  rw [h] at h1 h2 h3 h4 h5 h7
  refine ⟨h1, ⟨h2, h3⟩, ?_, h7⟩
  intro x hx
  by_cases hm : x.tmp ∈ l
  · obtain ⟨y, hy, e⟩ := h4 x hx hm
    exact ⟨y, List.mem_append_left _ hy, e⟩
  · exact ⟨x, List.mem_append_right _ (h5 x hx hm), rfl⟩

/-- every entry whose name is among the leaves is popped (by name) -/
theorem popPending_complete (p : List Pend) (l : List String) :
    ∀ x ∈ p, x.tmp ∈ l → ∃ y ∈ (popPending p l).1, y.tmp = x.tmp :=
  (popPending_spec p l).2.2.2.1

private def exA : Pend := { tmp := "h_tmp0", deps := [], exec := .empty, setTmp := .setl "h_tmp0" .btrue, setFirst := true, gcc := false }
private def exB : Pend := { tmp := "h_tmp1", deps := [], exec := .nop, setTmp := .setl "h_tmp1" .bfalse, setFirst := false, gcc := false }
private def exA' : Pend := { exA with exec := .nop }

/-- non-vacuity: distinct names, one popped, one left -/
example : ([exA, exB].map (·.tmp)).Nodup ∧
    (popPending [exA, exB] ["h_tmp1", "x"]).1.map (·.tmp) = ["h_tmp1"] ∧
    (popPending [exA, exB] ["h_tmp1", "x"]).2.map (·.tmp) = ["h_tmp0"] := by decide

/-- without distinct names an entry can be lost (so the permutation claim needs the hypothesis):
    two entries named `h_tmp0`, one is popped, both are removed -/
example : ((popPending [exA, exA'] ["h_tmp0"]).1 ++ (popPending [exA, exA'] ["h_tmp0"]).2).length = 1 := by decide

/-! ## 2. Freshness -/

theorem tmpName_eq (n : Nat) : tmpName n = s!"h_tmp{n}" := rfl

/-- `s!"h_tmp{n}"` is injective in `n` -/
theorem tmpName_injective : ∀ a b : Nat, s!"h_tmp{a}" = s!"h_tmp{b}" → a = b := fun _ _ h => tmpName_inj h

/-- the freshness statement of the specification, derived from `Fresh` -/
theorem Fresh.spec {st st' : HSt} (h : Fresh st st') :
    st.hyb ≤ st'.hyb ∧
    ∀ p ∈ st'.pending, (∃ q ∈ st.pending, q.tmp = p.tmp) ∨ ∃ n, st.hyb ≤ n ∧ n < st'.hyb ∧ p.tmp = s!"h_tmp{n}" :=
  ⟨h.1, fun _ hp => h.mem hp⟩

/-- Compiling an expression: the counter only grows, and every pending entry afterwards carries the name of an
    entry pending before (`?:` may have wrapped its exec part in a BRANCH) or a new name `h_tmp{n}`,
    `st.hyb ≤ n < st'.hyb`. -/
theorem compileExprH_fresh {env : CEnv} {st st' : HSt} {e : CExpr} {ce : CE}
    (h : compileExprH env st e = .ok (ce, st')) :
    st.hyb ≤ st'.hyb ∧
    ∀ p ∈ st'.pending, (∃ q ∈ st.pending, q.tmp = p.tmp) ∨ ∃ n, st.hyb ≤ n ∧ n < st'.hyb ∧ p.tmp = s!"h_tmp{n}" :=
  (compileExprH_rel freshRelE env e (fun _ _ => trivial) (Or.inl trivial) h).spec

theorem compileArgsH_fresh {env : CEnv} {st st' : HSt} {as : List CExpr} {ps : List CT} {r : List ILPure}
    (h : compileArgsH env st as ps = .ok (r, st')) :
    st.hyb ≤ st'.hyb ∧
    ∀ p ∈ st'.pending, (∃ q ∈ st.pending, q.tmp = p.tmp) ∨ ∃ n, st.hyb ≤ n ∧ n < st'.hyb ∧ p.tmp = s!"h_tmp{n}" :=
  (compileArgsH_rel freshRelE env as ps (fun _ _ => trivial) (Or.inl trivial) h).spec

theorem compileStmtH_fresh {env : CEnv} {st st' : HSt} {s : CStmt} {eff : Option ILEffect} {b : List String}
    (h : compileStmtH env st s = .ok (eff, b, st')) :
    st.hyb ≤ st'.hyb ∧
    ∀ p ∈ st'.pending, (∃ q ∈ st.pending, q.tmp = p.tmp) ∨ ∃ n, st.hyb ≤ n ∧ n < st'.hyb ∧ p.tmp = s!"h_tmp{n}" :=
  (compileStmtH_rel freshRel env s (fun _ _ => trivial) (Or.inl trivial) h).spec

theorem compileStmtsH_fresh {env : CEnv} {st st' : HSt} {ss : List CStmt} {es : List ILEffect} {b : List String}
    (h : compileStmtsH env st ss = .ok (es, b, st')) :
    st.hyb ≤ st'.hyb ∧
    ∀ p ∈ st'.pending, (∃ q ∈ st.pending, q.tmp = p.tmp) ∨ ∃ n, st.hyb ≤ n ∧ n < st'.hyb ∧ p.tmp = s!"h_tmp{n}" :=
  (compileStmtsH_rel freshRel env ss (fun _ _ => trivial) (Or.inl trivial) h).spec

/-- the invariant in the words of the specification -/
theorem pendOK_iff (st : HSt) :
    PendOK st ↔ (st.pending.map (·.tmp)).Nodup ∧ ∀ p ∈ st.pending, ∃ n, n < st.hyb ∧ p.tmp = s!"h_tmp{n}" := by
  simp only [PendOK, tmpsOf, List.mem_map, forall_exists_index, and_imp, forall_apply_eq_imp_iff₂]
  rfl

/-- `PendOK` (pairwise distinct temporaries, all numbered below the counter) is preserved. -/
theorem compileExprH_pendOK {env : CEnv} {st st' : HSt} {e : CExpr} {ce : CE}
    (h : compileExprH env st e = .ok (ce, st')) (hok : PendOK st) : PendOK st' :=
  (compileExprH_rel freshRelE env e (fun _ _ => trivial) (Or.inl trivial) h).pendOK hok

theorem compileArgsH_pendOK {env : CEnv} {st st' : HSt} {as : List CExpr} {ps : List CT} {r : List ILPure}
    (h : compileArgsH env st as ps = .ok (r, st')) (hok : PendOK st) : PendOK st' :=
  (compileArgsH_rel freshRelE env as ps (fun _ _ => trivial) (Or.inl trivial) h).pendOK hok

theorem compileStmtH_pendOK {env : CEnv} {st st' : HSt} {s : CStmt} {eff : Option ILEffect} {b : List String}
    (h : compileStmtH env st s = .ok (eff, b, st')) (hok : PendOK st) : PendOK st' :=
  (compileStmtH_rel freshRel env s (fun _ _ => trivial) (Or.inl trivial) h).pendOK hok

theorem compileStmtsH_pendOK {env : CEnv} {st st' : HSt} {ss : List CStmt} {es : List ILEffect} {b : List String}
    (h : compileStmtsH env st ss = .ok (es, b, st')) (hok : PendOK st) : PendOK st' :=
  (compileStmtsH_rel freshRel env ss (fun _ _ => trivial) (Or.inl trivial) h).pendOK hok

/-- every pending entry sets exactly its own temporary (`setTmp = SETL(tmp, …)`, an `h_tmp` name): preserved -/
theorem compileStmtsH_shapeOK {env : CEnv} {st st' : HSt} {ss : List CStmt} {es : List ILEffect} {b : List String}
    (h : compileStmtsH env st ss = .ok (es, b, st')) (hok : ∀ p ∈ st.pending, shapeOK p) :
    ∀ p ∈ st'.pending, shapeOK p :=
  compileStmtsH_rel shapeRel env ss (fun _ _ => trivial) (Or.inl trivial) h hok

theorem compileExprH_shapeOK {env : CEnv} {st st' : HSt} {e : CExpr} {ce : CE}
    (h : compileExprH env st e = .ok (ce, st')) (hok : ∀ p ∈ st.pending, shapeOK p) :
    ∀ p ∈ st'.pending, shapeOK p :=
  compileExprH_rel shapeRelE env e (fun _ _ => trivial) (Or.inl trivial) h hok

/-- the counter advances by exactly the number of hybrids of the source -/
theorem compileStmtsH_counter {env : CEnv} {st st' : HSt} {ss : List CStmt} {es : List ILEffect} {b : List String}
    (h : compileStmtsH env st ss = .ok (es, b, st')) : st'.hyb = st.hyb + hybCountSs ss :=
  compileStmtsH_hyb env ss h

/-- non-vacuity for section 2: `x = i++ + j--` from the empty state -/
example : ∃ ce st', compileExprH (progEnv Cfg.asCode []) (initSt 0)
      (.bin "+" (.post "i" ⟨false, 32⟩ "++") (.post "j" ⟨false, 32⟩ "--")) = .ok (ce, st') ∧
    PendOK (initSt 0) ∧ st'.hyb = 2 ∧ st'.pending.map (·.tmp) = ["h_tmp0", "h_tmp1"] :=
  ⟨_, _, rfl, pendOK_init 0, rfl, by decide⟩

/-! ## 3. Exactly once, at tree level -/

/-- Every temporary is the target of at most one `SETL` in the emitted tree, and only the temporaries created
    by this compilation (`h_tmp{hyb0}` … ) are set: each created entry is rendered at most once — pulled in front
    of its consumer by `chk`, or left over and placed at the front by `compileProgH`. -/
theorem setTmps_count_le {cfg : Cfg} {prog : List CStmt} {hyb0 : Nat} {eff : ILEffect}
    (hn : namesOK prog = true) (h : compileProgH cfg prog hyb0 = .ok eff) (x : String) :
    (setTmps eff).count x ≤ (freshNames hyb0 (hyb0 + hybCountSs prog)).count x := by
  simpa using compileProgH_count false hn (Or.inl rfl) h x

theorem setTmps_nodup {cfg : Cfg} {prog : List CStmt} {hyb0 : Nat} {eff : ILEffect}
    (hn : namesOK prog = true) (h : compileProgH cfg prog hyb0 = .ok eff) : (setTmps eff).Nodup := by
  rw [List.nodup_iff_count]
  intro x
  exact Nat.le_trans (setTmps_count_le hn h x) (List.nodup_iff_count.mp (freshNames_nodup _ _) x)

/-- what is set are temporaries of this compilation -/
theorem setTmps_subset {cfg : Cfg} {prog : List CStmt} {hyb0 : Nat} {eff : ILEffect}
    (hn : namesOK prog = true) (h : compileProgH cfg prog hyb0 = .ok eff) :
    ∀ t ∈ setTmps eff, ∃ n, hyb0 ≤ n ∧ n < hyb0 + hybCountSs prog ∧ t = s!"h_tmp{n}" := by
  intro t ht
  have := setTmps_count_le hn h t
  have hpos := List.count_pos_iff.mpr ht
  exact mem_freshNames.mp (List.count_pos_iff.mp (by omega))

/-- at most one `SETL(h_tmp…)` per hybrid created -/
theorem setTmps_length_le {cfg : Cfg} {prog : List CStmt} {hyb0 : Nat} {eff : ILEffect}
    (hn : namesOK prog = true) (h : compileProgH cfg prog hyb0 = .ok eff) :
    (setTmps eff).length ≤ hybCountSs prog := by
  have := length_le_of_count_le _ _ (setTmps_count_le hn h)
  rw [length_freshNames] at this
  omega

/-- Without a `?:` whose condition can fold to a constant (no dead arm is removed) every created temporary is
    set EXACTLY once: the `SETL` targets of the emitted tree are a permutation of `h_tmp{hyb0}`, …,
    `h_tmp{hyb0 + #hybrids - 1}`. -/
theorem setTmps_perm {cfg : Cfg} {prog : List CStmt} {hyb0 : Nat} {eff : ILEffect}
    (hn : namesOK prog = true) (hc : noConstTernSs prog = true) (h : compileProgH cfg prog hyb0 = .ok eff) :
    (setTmps eff).Perm (freshNames hyb0 (hyb0 + hybCountSs prog)) := by
  rw [List.perm_iff_count]
  intro x
  simpa using compileProgH_count true hn (Or.inr hc) h x

theorem setTmps_length_eq {cfg : Cfg} {prog : List CStmt} {hyb0 : Nat} {eff : ILEffect}
    (hn : namesOK prog = true) (hc : noConstTernSs prog = true) (h : compileProgH cfg prog hyb0 = .ok eff) :
    (setTmps eff).length = hybCountSs prog := by
  rw [(setTmps_perm hn hc h).length_eq, length_freshNames]; omega

/-! ### non-vacuity and sharpness for section 3 -/

def u32 : CT := ⟨false, 32⟩
def s32 : CT := ⟨true, 32⟩

/-- `{ i = RsV; RdV = i; i++; ReV = i; }` (known finding C06-unused-value-hybrid-moved) -/
def progUnused : List CStmt :=
  [ .assign (.var "i" u32) "=" (.reg "RsV" .src s32),
    .assign (.reg "RdV" .dst s32) "=" (.var "i" u32),
    .exprstmt (.post "i" u32 "++"),
    .assign (.reg "ReV" .dst s32) "=" (.var "i" u32) ]

/-- `{ i = 0; RdV = (PuV ? i++ : 1); ReV = i; }` (known finding C06-hybrid-in-conditional-context) -/
def progTernArm : List CStmt :=
  [ .assign (.var "i" u32) "=" (.lit 0 false ""),
    .assign (.reg "RdV" .dst s32) "=" (.tern (.reg "PuV" .src ⟨true, 8⟩) (.post "i" u32 "++") (.lit 1 false "")),
    .assign (.reg "ReV" .dst s32) "=" (.var "i" u32) ]

/-- `{ j = 2; for (i = 0; (i + j++) < 5; i++) {} RdV = j; ReV = i; }` (hybrid in a loop condition) -/
def progLoopCond : List CStmt :=
  [ .assign (.var "j" u32) "=" (.lit 2 false ""),
    .for_ "i" (.cmp "<" (.bin "+" (.var "i" u32) (.post "j" u32 "++")) (.lit 5 false "")) 0 [],
    .assign (.reg "RdV" .dst s32) "=" (.var "j" u32),
    .assign (.reg "ReV" .dst s32) "=" (.var "i" u32) ]

/-- `{ RdV = (PuV ? ({ uint8_t x = RsV; x; }) : RtV); }` (known finding C06-stmtexpr-arm-value-read-unguarded) -/
def progGccArm : List CStmt :=
  [ .assign (.reg "RdV" .dst s32) "="
      (.tern (.reg "PuV" .src ⟨true, 8⟩) (.stmtexpr ⟨false, 8⟩ "x" (.reg "RsV" .src s32)) (.reg "RtV" .src s32)) ]

/-- `{ RdV = (1 ? 5 : i++); }`: the dead arm's entry is removed -/
def progDeadArm : List CStmt :=
  [ .assign (.reg "RdV" .dst s32) "=" (.tern (.lit 1 false "") (.lit 5 false "") (.post "i" u32 "++")) ]

def isOkE {ε α : Type} : Except ε α → Bool
  | .ok _ => true
  | .error _ => false

def setTmpsOf (r : Except String ILEffect) : List String :=
  match r with
  | .ok e => setTmps e
  | .error _ => []

set_option maxRecDepth 100000 in
/-- the hypotheses of `setTmps_perm` hold of concrete programs with hybrids (loop: two temporaries) -/
example : namesOK progLoopCond = true ∧ noConstTernSs progLoopCond = true ∧
    isOkE (compileProgH Cfg.asCode progLoopCond) = true ∧ hybCountSs progLoopCond = 2 ∧
    setTmpsOf (compileProgH Cfg.asCode progLoopCond) = ["h_tmp0", "h_tmp1"] := by decide +kernel

set_option maxRecDepth 100000 in
/-- sharpness: with a constant `?:` condition the inequality of `setTmps_length_le` is strict
    (one hybrid in the source, its entry removed with the dead arm, nothing set) -/
example : namesOK progDeadArm = true ∧ noConstTernSs progDeadArm = false ∧ hybCountSs progDeadArm = 1 ∧
    isOkE (compileProgH Cfg.asCode progDeadArm) = true ∧
    setTmpsOf (compileProgH Cfg.asCode progDeadArm) = [] := by decide +kernel

/-! ## 4. Written before read at the consumer (`chk`) -/

/-- `chk st e bare after`: if no pending entry is named among the leaves of `e` (or `bare`) nothing changes;
    otherwise the result is `SEQN(render p₁, …, render pₖ, e)` — the popped entries, in leaf order, BEFORE `e`
    (`after = false`), or `SEQN(e, render p₁, …)` for the loop step (`after = true`) — and exactly the popped
    entries leave the pending list. -/
theorem chk_consumer_shape (st : HSt) (e : ILEffect) (bare : List String) (after : Bool) :
    (chkPopped st e bare = [] ∧ chk st e bare after = (e, st)) ∨
    (chkPopped st e bare ≠ [] ∧
      (chk st e bare after).1 = (if after then .seqn (e :: (chkPopped st e bare).map Pend.render)
                                 else .seqn ((chkPopped st e bare).map Pend.render ++ [e])) ∧
      (chk st e bare after).2 = { st with pending := (popPending st.pending (bare ++ tmpsOfEffect e)).2 }) :=
  chk_shape st e bare after

/-- flattened view (`SEQN` nesting removed): the members of the popped entries, then the members of `e`,
    and nothing else -/
theorem chk_members_before (st : HSt) (e : ILEffect) (bare : List String) :
    flatE (chk st e bare false).1 = (chkPopped st e bare).flatMap (fun p => flatE p.render) ++ flatE e :=
  chk_flat_before st e bare

/-- the loop-step case: the popped entries come AFTER the body -/
theorem chk_members_after (st : HSt) (e : ILEffect) (bare : List String) :
    flatE (chk st e bare true).1 = flatE e ++ (chkPopped st e bare).flatMap (fun p => flatE p.render) :=
  chk_flat_after st e bare

/-- each popped entry's `SETL(tmp, …)` is among the members placed in front of `e` -/
theorem chk_setTmp_before (st : HSt) (e : ILEffect) (bare : List String) (hs : ∀ p ∈ st.pending, shapeOK p) :
    ∀ p ∈ chkPopped st e bare, ∃ pre post, flatE (chk st e bare false).1 = pre ++ p.setTmp :: post ++ flatE e := by
  intro p hp
  have hpp : p ∈ st.pending := ((popPending_spec st.pending (bare ++ tmpsOfEffect e)).1 p hp).1
  have hm : p.setTmp ∈ (chkPopped st e bare).flatMap (fun p => flatE p.render) :=
    List.mem_flatMap.mpr ⟨p, hp, setTmp_mem_render (hs p hpp)⟩
  obtain ⟨pre, post, hsplit⟩ := List.append_of_mem hm
  exact ⟨pre, post, by rw [chk_flat_before, hsplit]⟩

/-- every pending temporary that `e` reads (or a bare expression statement carries) is set in the prefix -/
theorem chk_written_before_read (st : HSt) (e : ILEffect) (bare : List String)
    (hs : ∀ p ∈ st.pending, shapeOK p) {t : String} (ht : t ∈ bare ++ tmpsOfEffect e)
    (hp : ∃ p ∈ st.pending, p.tmp = t) :
    t ∈ setTmpsL ((chkPopped st e bare).map Pend.render) :=
  chk_sets_what_is_read st e bare hs ht hp

/-- and no entry left pending is read by `e` -/
theorem chk_rest_not_read (st : HSt) (e : ILEffect) (bare : List String) (after : Bool) :
    ∀ p ∈ (chk st e bare after).2.pending, p.tmp ∉ bare ++ tmpsOfEffect e :=
  chk_rest_unread st e bare after

set_option maxRecDepth 100000 in
/-- non-vacuity: `RdV = h_tmp0` with the postfix entry pending: the entry is rendered in front -/
example : shapeOK (postPend 0 "i" u32 "++") ∧
    (chkPopped { (initSt 1) with pending := [postPend 0 "i" u32 "++"] } (.setl "x" (.varl "h_tmp0")) []).map (·.tmp)
      = ["h_tmp0"] :=
  ⟨⟨⟨_, rfl⟩, isHTmp_tmpName 0⟩, by decide +kernel⟩

/-! ## 5. Values, on the IL semantics -/

/-- what `v++` / `v--` leaves behind in the compiler state -/
theorem post_creates {env : CEnv} {st st' : HSt} {v : String} {t : CT} {op : String} {ce : CE}
    (h : compileExprH env st (.post v t op) = .ok (ce, st')) :
    ce.il = .varl s!"h_tmp{st.hyb}" ∧ st'.pending = st.pending ++ [postPend st.hyb v t op] ∧ st'.hyb = st.hyb + 1 := by
  obtain ⟨rfl, rfl⟩ := inv_post h
  exact ⟨rfl, rfl, rfl⟩

/-- (5a) Executing the rendered entry of `v++` / `v--` from a state where `v` holds `x`: the temporary ends up
    with the OLD value `x`, `v` with `x + 1` (`INC`) resp. `x - 1` (`DEC`), everything else is unchanged. -/
theorem post_old_value (ms : MacroSem) (hyb : Nat) (v : String) (t : CT) (op : String) (σ : MState)
    (x : BitVec t.width) (hv : lookupS v σ.locals = some (.bv t.width x)) (hne : isHTmp v = false) :
    ∃ σ', ExecIL ms (postPend hyb v t op).render σ σ' ∧
      lookupS s!"h_tmp{hyb}" σ'.locals = some (.bv t.width x) ∧
      lookupS v σ'.locals = some (.bv t.width (if op == "++" then x + 1 else x - 1)) ∧
      (∀ k, k ≠ s!"h_tmp{hyb}" → k ≠ v → lookupS k σ'.locals = lookupS k σ.locals) ∧
      σ'.mem = σ.mem ∧ σ'.new = σ.new ∧ σ'.written = σ.written :=
  post_render_exec_tmp ms hyb v t op σ x hv hne

/-- (5a) against the C side: the value C gives `v++` is what the temporary holds afterwards, and all other
    locals (in particular `v`) agree with C's state after the expression. -/
theorem post_value_is_C_value (ms : MacroSem) (subs : CSubEnv) (hyb : Nat) (v : String) (t : CT) (op : String)
    (σ σC : MState) (val : Val) (fuel : Nat) (x : BitVec t.width)
    (hv : lookupS v σ.locals = some (.bv t.width x)) (hne : isHTmp v = false)
    (hC : evalCH ms subs (fuel + 1) σ (.post v t op) = .ok (val, σC)) :
    ∃ σIL, ExecIL ms (postPend hyb v t op).render σ σIL ∧
      lookupS s!"h_tmp{hyb}" σIL.locals = some val ∧
      (∀ k, k ≠ s!"h_tmp{hyb}" → lookupS k σIL.locals = lookupS k σC.locals) :=
  post_agrees ms subs hyb v t op σ σC val fuel x hv hne hC

/-- non-vacuity of (5a) -/
example : ∃ σ : MState, lookupS "i" σ.locals = some (.bv (u32).width (7 : BitVec 32)) ∧ isHTmp "i" = false :=
  ⟨{ (default : MState) with locals := [("i", .bv 32 7)] }, rfl, by rw [isHTmp_eq]; decide⟩

/-- (5b) a statement-expression arm of `?:` is put under the guard by the compiler … -/
theorem tern_guards_then_arm {s : HSt} {ca cc : CE} {n : String} (hg : gccTmpOf s ca = some n) :
    (ternWrapThen s ca cc).pending =
      s.pending.map (fun p => if p.tmp == n then { p with exec := .branch (condILk cc) p.exec .empty } else p) :=
  ternWrapThen_guards hg

theorem tern_guards_else_arm {s : HSt} {cb cc : CE} {n : String} (hg : gccTmpOf s cb = some n) :
    (ternWrapElse s cb cc).pending =
      s.pending.map (fun p => if p.tmp == n then { p with exec := .branch (condILk cc) .empty p.exec } else p) :=
  ternWrapElse_guards hg

/-- … and `compileExprH` on `c ? a : b` with a non-constant condition ends in exactly that state -/
theorem tern_state {env : CEnv} {st st' : HSt} {c a b : CExpr} {ce : CE}
    (h : compileExprH env st (.tern c a b) = .ok (ce, st')) :
    ∃ cc s1 ca s2 cb s3, compileExprH env st c = .ok (cc, s1) ∧ compileExprH env s1 a = .ok (ca, s2) ∧
      compileExprH env s2 b = .ok (cb, s3) ∧
      (ternFold cc = none → st' = ternWrapElse (ternWrapThen s3 ca cc) cb cc) := by
  obtain ⟨cc, s1, ca, s2, cb, s3, h1, h2, h3, rfl, _⟩ := inv_tern h
  refine ⟨cc, s1, ca, s2, cb, s3, h1, h2, h3, fun hf => ?_⟩
  simp only [ternState, hf]

/-- (5b) … and a guarded statement runs only if its arm is selected: condition false → state unchanged -/
theorem guard_not_selected (ms : MacroSem) (c : ILPure) (ex : ILEffect) (σ : MState)
    (hc : evalPure ms σ [] c = .ok (.bool false)) : ExecIL ms (.branch c ex .empty) σ σ :=
  guard_then_false ms c ex σ hc

/-- condition true → exactly the statement runs -/
theorem guard_selected (ms : MacroSem) (c : ILPure) (ex : ILEffect) (σ σ' : MState)
    (hc : evalPure ms σ [] c = .ok (.bool true)) :
    ExecIL ms (.branch c ex .empty) σ σ' ↔ ExecIL ms ex σ σ' :=
  guard_then_true ms c ex σ σ' hc

theorem guard_else_not_selected (ms : MacroSem) (c : ILPure) (ex : ILEffect) (σ : MState)
    (hc : evalPure ms σ [] c = .ok (.bool true)) : ExecIL ms (.branch c .empty ex) σ σ :=
  guard_else_true ms c ex σ hc

theorem guard_else_selected (ms : MacroSem) (c : ILPure) (ex : ILEffect) (σ σ' : MState)
    (hc : evalPure ms σ [] c = .ok (.bool false)) :
    ExecIL ms (.branch c .empty ex) σ σ' ↔ ExecIL ms ex σ σ' :=
  guard_else_false ms c ex σ σ' hc

/-- non-vacuity of (5b) -/
example : evalPure (fun _ _ => none) default [] .bfalse = .ok (.bool false) := rfl

/-- what `({ T v = e; v; })` leaves behind in the compiler state -/
theorem stmtexpr_creates {env : CEnv} {st st' : HSt} {t : CT} {v : String} {e : CExpr} {ce : CE}
    (h : compileExprH env st (.stmtexpr t v e) = .ok (ce, st')) :
    ∃ c1 s1, compileExprH env st e = .ok (c1, s1) ∧
      st'.pending = (chk s1 (.setl v (gccSrc env.cfg t c1).il) []).2.pending ++
        [gccPend s1.hyb v (chk s1 (.setl v (gccSrc env.cfg t c1).il) []).1] ∧
      ce.il = .varl s!"h_tmp{s1.hyb}" := by
  obtain ⟨c1, s1, h1, rfl, rfl⟩ := inv_stmtexpr h
  refine ⟨c1, s1, h1, ?_, ?_⟩
  · simp only [gccState]; rw [(chk_snd _ _ _ _).1]
  · simp only; rw [(chk_snd _ _ _ _).1]; rfl

/-- (5c) rendering a statement-expression entry: the inner statement runs, then the temporary receives the
    value `v` holds at that point (the value of the last expression `v;`) -/
theorem stmtexpr_value (ms : MacroSem) (hyb : Nat) (v : String) (stmt : ILEffect) (σ σ1 : MState) (x : Val)
    (h1 : ExecIL ms stmt σ σ1) (hv : lookupS v σ1.locals = some x) :
    ∃ σ', ExecIL ms (gccPend hyb v stmt).render σ σ' ∧ lookupS s!"h_tmp{hyb}" σ'.locals = some x ∧
      (∀ k, k ≠ s!"h_tmp{hyb}" → lookupS k σ'.locals = lookupS k σ1.locals) :=
  ⟨_, gcc_render_exec ms hyb v stmt σ σ1 x h1 hv, C05.lookupS_setLocal_self _ _ _,
    fun _ hk => C05.lookupS_setLocal_ne hk _ _⟩

/-- (5c) with the plain inner declaration: the temporary (and `v`) hold the value of the initialiser -/
theorem stmtexpr_value_plain (ms : MacroSem) (hyb : Nat) (v : String) (il : ILPure) (σ : MState) (x : Val)
    (he : evalPure ms σ [] il = .ok x) (hne : isHTmp v = false) :
    ∃ σ', ExecIL ms (gccPend hyb v (.setl v il)).render σ σ' ∧
      lookupS s!"h_tmp{hyb}" σ'.locals = some x ∧ lookupS v σ'.locals = some x :=
  gcc_render_plain ms hyb v il σ x he hne

/-- non-vacuity of (5c) -/
example : evalPure (fun _ _ => none) default [] (.const false 8 5) = .ok (.bv 8 5) ∧ isHTmp "x" = false :=
  ⟨rfl, by rw [isHTmp_eq]; decide⟩

/-! ## 6. Witnesses of the violations (kernel-evaluated: C result vs. result of the emitted IL) -/

def noMacros : MacroSem := fun _ _ => none

/-- observation of a final state: the given locals (as naturals) and the `.new` values of the given operands;
    a stuck execution is reported as such -/
def obs (vars regs : List String) : Except Stuck MState → Stuck ⊕ (List (Option Nat) × List Nat)
  | .ok σ => .inr (vars.map (fun v => (lookupS v σ.locals).map (fun x =>
      match x with | .bv _ b => b.toNat | .bool b => b.toNat | _ => 0)), regs.map σ.new)
  | .error e => .inl e

/-- C side: `execCHs` on the source program -/
def runC (p : List CStmt) (fuel : Nat) (σ : MState) : Except Stuck MState := execCHs noMacros [] fuel p σ

/-- IL side: `execIL` on what `compileProgH Cfg.asCode` emits -/
def runIL (p : List CStmt) (fuel : Nat) (σ : MState) : Except Stuck MState :=
  match compileProgH Cfg.asCode p with
  | .ok eff => execIL noMacros [] fuel eff σ
  | .error _ => .error (.undef "compile")

/-- start state: `RsV = rs`, `PuV = pu`, `RtV = 77`, given locals -/
def startSt (rs pu : Nat) (locals : List (String × Val) := []) : MState :=
  { (default : MState) with
    cur := fun k => if k == "Rs_op" then rs else if k == "Pu_op" then pu else if k == "Rt_op" then 77 else 0,
    locals := locals }

/-- the order in which the emitted tree writes its targets -/
def emittedOrder (p : List CStmt) : List String :=
  match compileProgH Cfg.asCode p with
  | .ok e => writeOrder e
  | .error _ => []

set_option maxRecDepth 100000 in
/-- **unused expression statement moved to the front**: `{ i = RsV; RdV = i; i++; ReV = i; }`.
    The tree starts with the rendered `i++` (`h_tmp0 := i; i := INC(i)`), before `i = RsV`. -/
theorem witness_unused_tree : emittedOrder progUnused = ["h_tmp0", "i", "i", "Rd_op", "Re_op"] := by
  decide +kernel

set_option maxRecDepth 100000 in
/-- C: `RdV = 5`, `ReV = 6`, `i = 6`; the IL reads `i` before it is ever set and gets stuck. -/
theorem witness_unused_stuck :
    obs ["i"] ["Rd_op", "Re_op"] (runC progUnused 20 (startSt 5 0)) = .inr ([some 6], [5, 6]) ∧
    obs ["i"] ["Rd_op", "Re_op"] (runIL progUnused 20 (startSt 5 0)) = .inl (.unbound "i") := by decide +kernel

set_option maxRecDepth 100000 in
/-- same program with `i` already defined (40): the IL runs, but the increment is lost: `ReV = 5`, not 6. -/
theorem witness_unused_value :
    obs ["i"] ["Rd_op", "Re_op"] (runC progUnused 20 (startSt 5 0 [("i", .bv 32 40)])) = .inr ([some 6], [5, 6]) ∧
    obs ["i"] ["Rd_op", "Re_op"] (runIL progUnused 20 (startSt 5 0 [("i", .bv 32 40)])) = .inr ([some 5], [5, 5]) := by
  decide +kernel

set_option maxRecDepth 100000 in
/-- **postfix in a `?:` arm takes effect although the arm is not selected**:
    `{ i = 0; RdV = (PuV ? i++ : 1); ReV = i; }` with `PuV = 0`: C leaves `i = 0`, the IL increments. -/
theorem witness_tern_arm :
    obs ["i"] ["Rd_op", "Re_op"] (runC progTernArm 20 (startSt 5 0)) = .inr ([some 0], [1, 0]) ∧
    obs ["i"] ["Rd_op", "Re_op"] (runIL progTernArm 20 (startSt 5 0)) = .inr ([some 1], [1, 1]) := by decide +kernel

set_option maxRecDepth 100000 in
/-- **hybrid in a loop condition evaluated once, before the loop**:
    `{ j = 2; for (i = 0; (i + j++) < 5; i++) {} RdV = j; ReV = i; }`: C ends with `i = 2, j = 5`,
    the IL with `i = 3, j = 3`. -/
theorem witness_loop_cond :
    obs ["i", "j"] ["Rd_op", "Re_op"] (runC progLoopCond 40 (startSt 5 0)) = .inr ([some 2, some 5], [5, 2]) ∧
    obs ["i", "j"] ["Rd_op", "Re_op"] (runIL progLoopCond 40 (startSt 5 0)) = .inr ([some 3, some 3], [3, 3]) := by
  decide +kernel

set_option maxRecDepth 100000 in
/-- **value of a statement-expression arm read outside the guard**:
    `{ RdV = (PuV ? ({ uint8_t x = RsV; x; }) : RtV); }`: the arm's statement is under `BRANCH`, the copy
    `SETL(h_tmp0, VARL(x))` is not. With `PuV = 0` C gives `RdV = RtV = 77`; the IL reads the never-set `x`. -/
theorem witness_gcc_arm :
    obs ["x"] ["Rd_op"] (runC progGccArm 20 (startSt 5 0)) = .inr ([none], [77]) ∧
    obs ["x"] ["Rd_op"] (runIL progGccArm 20 (startSt 5 0)) = .inl (.unbound "x") ∧
    -- selected arm: both sides agree
    obs ["x"] ["Rd_op"] (runC progGccArm 20 (startSt 5 1)) = .inr ([some 5], [5]) ∧
    obs ["x"] ["Rd_op"] (runIL progGccArm 20 (startSt 5 1)) = .inr ([some 5], [5]) := by decide +kernel

/-- a hybrid in an `if` condition inside a loop body IS placed correctly (in front of the BRANCH, inside the
    body): `{ j = 0; for (i = 0; i < 3; i++) { if (j++ < 1) { RdV = j; } } ReV = j; }` -/
def progIfInLoop : List CStmt :=
  [ .assign (.var "j" u32) "=" (.lit 0 false ""),
    .for_ "i" (.cmp "<" (.var "i" u32) (.lit 3 false "")) 0
      [ .ite (.cmp "<" (.post "j" u32 "++") (.lit 1 false "")) [ .assign (.reg "RdV" .dst s32) "=" (.var "j" u32) ] none ],
    .assign (.reg "ReV" .dst s32) "=" (.var "j" u32) ]

set_option maxRecDepth 100000 in
theorem example_if_in_loop_agrees :
    obs ["i", "j"] ["Rd_op", "Re_op"] (runC progIfInLoop 40 (startSt 5 0)) = .inr ([some 3, some 3], [1, 3]) ∧
    obs ["i", "j"] ["Rd_op", "Re_op"] (runIL progIfInLoop 40 (startSt 5 0)) = .inr ([some 3, some 3], [1, 3]) := by
  decide +kernel

/-! ## 7. Simulation on a fragment (stretch)

Fragment: `T n = e;` / `n = e;` where `e` is built from leaves, casts, unary/binary arithmetic, shifts,
comparisons, `!` and postfix `v++` / `v--` (`postOnly e`), the postfix variables being pairwise distinct, declared
locals that `e` does not otherwise read (`postsIndep e`, `postsTyped c e`).  Under the repaired configuration
`Cfg.fixed`, from a compiler state without pending entries:
* compile side: `compileExprH` gives exactly what `compileExpr` gives for `unhyb k e` (each postfix operation
  replaced by a read of its temporary) and leaves exactly the postfix entries pending;
* C side: `evalCH` of `e` gives the value `evalC` gives for `unhyb k e` in a state binding the temporaries to the
  old values, and applies the postfix operations in order;
* the emitted effect (postfix entries rendered in front of the assignment, pulled there by `chk`) executed by
  `execIL` from an `Inv`-related state ends in a state `Inv`-related to the result of `execCH`.
  (`Inv` = `C05.Inv`, the two-state invariant of `Lemmas/StmtState.lean`, as re-stated for assignable immediates: the
  IL local of every registered immediate letter holds the C side's CURRENT immediate; the `imm` components of the two
  states are not related.  Hypothesis and conclusion of `decl_post_sim(_closed)`, `assign_post_sim(_closed)`,
  `vcall_usr_sim(_closed)` changed together.) -/

/-- compile side of the fragment -/
theorem compileExprH_unhyb {env : CEnv} (hcfg : env.cfg.literalTypeBySuffixOnly = false) {e : CExpr} {st st' : HSt}
    {ce : CE} (hp : postOnly e = true) (h : compileExprH env st e = .ok (ce, st')) :
    compileExpr env (unhyb st.hyb e) = .ok ce ∧
    st'.pending = st.pending ++ postPendsFrom st.hyb (postsOf e) ∧
    st'.hyb = st.hyb + (postsOf e).length :=
  let r := compileExprH_frag env hcfg e hp h
  ⟨r.plain, r.pending, r.hyb⟩

/-- and every temporary created is read by the compiled expression -/
theorem compileExprH_reads_tmps {env : CEnv} {e : CExpr} {st st' : HSt} {ce : CE} (hp : postOnly e = true)
    (h : compileExprH env st e = .ok (ce, st')) :
    ∀ p ∈ postPendsFrom st.hyb (postsOf e), p.tmp ∈ tmpsOfPure ce.il :=
  fun _ hp' => frag_tmps_read env e hp h _ (List.mem_map_of_mem hp')

/-- C side of the fragment -/
theorem evalCH_unhyb (ms : MacroSem) (subs : CSubEnv) {e : CExpr} (hp : postOnly e = true)
    (hind : postsIndep e = true) {f : Nat} {σ σ' : MState} {v : Val}
    (h : evalCH ms subs f σ e = .ok (v, σ')) :
    σ' = applyPosts (postsOf e) σ ∧
    ∀ (k : Nat) (σ2 : MState), Ext k (readVars e) (postsOf e) σ σ2 → evalC ms σ2 (unhyb k e) = .ok v := by
  obtain ⟨hnd, hdis, _⟩ := postsIndep_spec hind
  obtain ⟨h1, _, h3⟩ := evalCH_frag ms subs e hp hnd (fun v hv => (hdis v hv).2) f σ σ' v h
  exact ⟨h1, h3⟩

section
variable {ms : MacroSem} {WF : MState → CExpr → Prop} {c : Ctx} {env : CEnv}

/-- `T n = e;` on the fragment, relative to the expression theorem `ExprOK ms WF` -/
theorem decl_post_sim (hE : C05.ExprOK ms WF) (henv : env.cfg = Cfg.fixed) (hc : c.ok = true)
    {st st' : HSt} {t : CT} {n : String} {e : CExpr} {eff : Option ILEffect} {b : List String}
    (hst : st.pending = [])
    (hcomp : compileStmtH env st (.decl t n (some e)) = .ok (eff, b, st'))
    (hdecl : lookupS n c.types = some t) (hw : t.width ≠ 1)
    (hfrag : postOnly e = true) (hind : postsIndep e = true) (hty : postsTyped c e = true)
    (hWF : WFHypT ms WF c st.hyb e)
    {subs : CSubEnv} {σC σIL σC' : MState} {f : Nat}
    (hinv : C05.Inv c σC σIL) (hex : execCH ms subs (f+1) (.decl t n (some e)) σC = .ok σC') :
    ∃ effIL σIL', eff = some effIL ∧ ExecIL ms effIL σIL σIL' ∧ C05.Inv c σC' σIL' ∧ st'.pending = [] :=
  decl_post_correct hE henv hc hst hcomp hdecl hw hfrag hind hty hWF hinv hex

/-- `n = e;` on the fragment -/
theorem assign_post_sim (hE : C05.ExprOK ms WF) (henv : env.cfg = Cfg.fixed) (hc : c.ok = true)
    {st st' : HSt} {tn : CT} {n : String} {e : CExpr} {eff : Option ILEffect} {b : List String}
    (hst : st.pending = [])
    (hcomp : compileStmtH env st (.assign (.var n tn) "=" e) = .ok (eff, b, st'))
    (hdecl : lookupS n c.types = some tn) (hw : tn.width ≠ 1)
    (hfrag : postOnly e = true) (hind : postsIndep e = true) (hty : postsTyped c e = true)
    (hWF : WFHypT ms WF c st.hyb e)
    {subs : CSubEnv} {σC σIL σC' : MState} {f : Nat}
    (hinv : C05.Inv c σC σIL) (hex : execCH ms subs (f+1) (.assign (.var n tn) "=" e) σC = .ok σC') :
    ∃ effIL σIL', eff = some effIL ∧ ExecIL ms effIL σIL σIL' ∧ C05.Inv c σC' σIL' ∧ st'.pending = [] :=
  assign_post_correct hE henv hc hst hcomp hdecl hw hfrag hind hty hWF hinv hex

end

/-! ### closed forms: the expression theorem of C02 plugged in, side conditions static -/

theorem lookupS_append {α : Type} (n : String) (a b : List (String × α)) :
    lookupS n (a ++ b) = match lookupS n a with | some v => some v | none => lookupS n b := by
  induction a with
  | nil => rfl
  | cons p a ih =>
    obtain ⟨k, v⟩ := p
    simp only [List.cons_append, lookupS]
    split
    · rfl
    · exact ih

theorem lookupS_tmpTypes {k : Nat} {posts : List (String × CT × String)} {n : String} {t : CT}
    (h : lookupS n (tmpTypes k posts) = some t) : ∃ j q, posts[j]? = some q ∧ n = tmpName (k + j) ∧ t = q.2.1 := by
  induction posts generalizing k with
  | nil => simp [tmpTypes, lookupS] at h
  | cons q ps ih =>
    obtain ⟨v, t', op⟩ := q
    simp only [tmpTypes, lookupS] at h
    split at h
    · rename_i hn
      simp only [Option.some.injEq] at h
      exact ⟨0, (v, t', op), by simp, by simpa using hn, h.symm⟩
    · obtain ⟨j, q, hj, hn, ht⟩ := ih h
      exact ⟨j + 1, q, by simpa using hj, by rw [hn]; congr 1; omega, ht⟩

/-- the invariant for the context extended by the (typed) temporaries -/
theorem sinv_withTmps {c : Ctx} {σ : MState} {k : Nat} {posts : List (String × CT × String)}
    (hs : C05.SInv c σ) (ht : TmpsTyped k posts σ) : C05.SInv (ctxWithTmps c k posts) σ := by
  refine ⟨?_, hs.imms, hs.srcs⟩
  intro n t v hn hv
  simp only [ctxWithTmps, lookupS_append] at hn
  split at hn
  · rename_i t' ht'
    simp only [Option.some.injEq] at hn; subst hn
    exact hs.typed n _ v ht' hv
  · obtain ⟨j, q, hj, rfl, rfl⟩ := lookupS_tmpTypes hn
    obtain ⟨x, hx⟩ := ht j q hj
    rw [hx] at hv
    simp only [Option.some.injEq] at hv
    exact ⟨x, hv.symm⟩

/-- the static check `WFES` in the extended context discharges the well-formedness hypothesis -/
theorem wfHypT_of_static (ms : MacroSem) {c : Ctx} {k : Nat} {e : CExpr}
    (h : WFES (ctxWithTmps c k (postsOf e)) (unhyb k e) = true) :
    WFHypT ms (fun σ e => WFE σ e = true) c k e :=
  fun _ _ hs hi ht hev => C05.WFE_of_static ms (sinv_withTmps hs ht) hi _ h hev

/-- `T n = e;` on the fragment, closed: all side conditions are decidable checks on the program text -/
theorem decl_post_sim_closed {ms : MacroSem} (hms : MsOK ms) {c : Ctx} {env : CEnv}
    (henv : env.cfg = Cfg.fixed) (hc : c.ok = true)
    {st st' : HSt} {t : CT} {n : String} {e : CExpr} {eff : Option ILEffect} {b : List String}
    (hst : st.pending = [])
    (hcomp : compileStmtH env st (.decl t n (some e)) = .ok (eff, b, st'))
    (hdecl : lookupS n c.types = some t) (hw : t.width ≠ 1)
    (hfrag : postOnly e = true) (hind : postsIndep e = true) (hty : postsTyped c e = true)
    (hwf : WFES (ctxWithTmps c st.hyb (postsOf e)) (unhyb st.hyb e) = true)
    {subs : CSubEnv} {σC σIL σC' : MState} {f : Nat}
    (hinv : C05.Inv c σC σIL) (hex : execCH ms subs (f+1) (.decl t n (some e)) σC = .ok σC') :
    ∃ effIL σIL', eff = some effIL ∧ ExecIL ms effIL σIL σIL' ∧ C05.Inv c σC' σIL' ∧ st'.pending = [] :=
  decl_post_correct (C05.exprOK_of_C02 hms) henv hc hst hcomp hdecl hw hfrag hind hty
    (wfHypT_of_static ms hwf) hinv hex

theorem assign_post_sim_closed {ms : MacroSem} (hms : MsOK ms) {c : Ctx} {env : CEnv}
    (henv : env.cfg = Cfg.fixed) (hc : c.ok = true)
    {st st' : HSt} {tn : CT} {n : String} {e : CExpr} {eff : Option ILEffect} {b : List String}
    (hst : st.pending = [])
    (hcomp : compileStmtH env st (.assign (.var n tn) "=" e) = .ok (eff, b, st'))
    (hdecl : lookupS n c.types = some tn) (hw : tn.width ≠ 1)
    (hfrag : postOnly e = true) (hind : postsIndep e = true) (hty : postsTyped c e = true)
    (hwf : WFES (ctxWithTmps c st.hyb (postsOf e)) (unhyb st.hyb e) = true)
    {subs : CSubEnv} {σC σIL σC' : MState} {f : Nat}
    (hinv : C05.Inv c σC σIL) (hex : execCH ms subs (f+1) (.assign (.var n tn) "=" e) σC = .ok σC') :
    ∃ effIL σIL', eff = some effIL ∧ ExecIL ms effIL σIL σIL' ∧ C05.Inv c σC' σIL' ∧ st'.pending = [] :=
  assign_post_correct (C05.exprOK_of_C02 hms) henv hc hst hcomp hdecl hw hfrag hind hty
    (wfHypT_of_static ms hwf) hinv hex

/-! ### non-vacuity of section 7: `uint32_t x = (i++ + j--) + 1;` from `i = 7, j = 3` -/

def fragCtx : Ctx := { types := [("i", u32), ("j", u32), ("x", u32)], imms := [], srcs := [] }
def fragEnv : CEnv := { assigned := [], cfg := Cfg.fixed }
def fragRhs : CExpr := .bin "+" (.bin "+" (.post "i" u32 "++") (.post "j" u32 "--")) (.lit 1 false "")
def fragStmt : CStmt := .decl u32 "x" (some fragRhs)
def fragState : MState := { (default : MState) with locals := [("i", .bv 32 7), ("j", .bv 32 3)] }

theorem fragInv : C05.Inv fragCtx fragState fragState := by
  refine ⟨C05.StRel.refl _, ⟨?_, ?_, ?_⟩, ?_, ?_, ?_⟩
  · intro n t v hn hv
    rcases C05.lookupS_two hv with ⟨rfl, rfl⟩ | ⟨rfl, rfl⟩
    · have : t = u32 := by revert hn; simp [fragCtx, lookupS]; exact fun h => h.symm
      subst this; exact ⟨_, rfl⟩
    · have : t = u32 := by revert hn; simp [fragCtx, lookupS]; exact fun h => h.symm
      subst this; exact ⟨_, rfl⟩
  · intro l hl; cases hl
  · intro ov ho; cases ho
  · intro l hl; cases hl
  · intro n hn
    cases hl : lookupS n fragState.locals with
    | none => rfl
    | some v =>
      rcases C05.lookupS_two hl with ⟨rfl, _⟩ | ⟨rfl, _⟩
      · have : isTmp "i" = false := by decide
        rw [this] at hn; cases hn
      · have : isTmp "j" = false := by decide
        rw [this] at hn; cases hn
  · intro l hl; cases hl

theorem msOK_noMacros : MsOK noMacros :=
  fun _ _ _ => ⟨fun _ => rfl, fun _ _ h => by cases h⟩

def finalLocalNat (n : String) : Except Stuck MState → Option Nat
  | .ok σ => (lookupS n σ.locals).map (fun x => match x with | .bv _ b => b.toNat | _ => 0)
  | .error _ => none

set_option maxRecDepth 100000 in
/-- every hypothesis of `decl_post_sim_closed` holds for this statement, the conclusion follows, and C's result
    is `x = 11, i = 8, j = 2` -/
example : ∃ eff b st' σC', compileStmtH fragEnv (initSt 0) fragStmt = .ok (eff, b, st') ∧
    execCH noMacros [] 10 fragStmt fragState = .ok σC' ∧
    (∃ effIL σIL', eff = some effIL ∧ ExecIL noMacros effIL fragState σIL' ∧ C05.Inv fragCtx σC' σIL' ∧
      st'.pending = []) ∧
    [finalLocalNat "x" (.ok σC'), finalLocalNat "i" (.ok σC'), finalLocalNat "j" (.ok σC')] = [some 11, some 8, some 2] := by
  obtain ⟨⟨eff, b, st'⟩, hcomp⟩ := C05.isOk_elim (x := compileStmtH fragEnv (initSt 0) fragStmt) (by decide +kernel)
  obtain ⟨σC', hC⟩ := C05.isOk_elim (x := execCH noMacros [] 10 fragStmt fragState) (by decide +kernel)
  refine ⟨eff, b, st', σC', hcomp, hC, ?_, ?_⟩
  · exact decl_post_sim_closed msOK_noMacros (c := fragCtx) rfl (by decide) rfl hcomp (by decide) (by decide)
      (by decide) (by decide +kernel) (by decide) (by decide +kernel) fragInv hC
  · have : [finalLocalNat "x" (execCH noMacros [] 10 fragStmt fragState),
            finalLocalNat "i" (execCH noMacros [] 10 fragStmt fragState),
            finalLocalNat "j" (execCH noMacros [] 10 fragStmt fragState)] = [some 11, some 8, some 2] := by
      decide +kernel
    rw [hC] at this; exact this

/-! ## 8. Void sub-routine call statements and call statement-expressions

`set_usr_field(bundle, FIELD, v);` and `({ set_usr_field(bundle, FIELD, v); val; })`.  The routine is read at the
level of its specification on both sides (`ILSem.lean: writeUsr`, `CSemH.lean: voidCallC`): it writes the 32-bit value
to the abstract cell `usr:FIELD` of the machine state; the compiled body of `hex_set_usr_field` is not interpreted
(it stays checked per output). -/

/-- (8a) **a void call statement stays where it stands**: the statement's effect is exactly the call
    `hex_<name>(exts…, converted arguments…)`; it carries no bare temporaries, and the compiler state afterwards is
    the state after compiling the arguments (the call itself creates no temporary and pops nothing). -/
theorem vcall_in_place {env : CEnv} {st st' : HSt} {eff : Option ILEffect} {b : List String}
    {name : String} {exts : List String} {args : List CExpr} {params : List CT}
    (h : compileStmtH env st (.vcall name exts args params) = .ok (eff, b, st')) :
    ∃ cargs, compileArgsH env st args params = .ok (cargs, st') ∧
      eff = some (.call ("hex_" ++ name) (exts.map (fun x => ILPure.ext (.id x)) ++ cargs)) ∧ b = [] :=
  invS_vcall h

/-- (8a) the counter advances by the hybrids of the arguments only -/
theorem vcall_counter {env : CEnv} {st st' : HSt} {eff : Option ILEffect} {b : List String}
    {name : String} {exts : List String} {args : List CExpr} {params : List CT}
    (h : compileStmtH env st (.vcall name exts args params) = .ok (eff, b, st')) :
    st'.hyb = st.hyb + hybCountEs args := by
  simpa [hybCountS] using compileStmtH_hyb env (.vcall name exts args params) h

/-- (8b) what `({ f(exts…, args…); val; })` leaves behind in the compiler state: one fresh temporary, typed like the
    value, and one pending entry — appended after the entries that stay pending — whose dependencies are the popped
    entries of the arguments' and the value's temporaries -/
theorem seqexpr_creates {env : CEnv} {st st' : HSt} {ce : CE} {name : String} {exts : List String}
    {args : List CExpr} {params : List CT} {val : CExpr}
    (h : compileExprH env st (.seqexpr name exts args params val) = .ok (ce, st')) :
    ∃ cargs s1 cv s2, compileArgsH env st args params = .ok (cargs, s1) ∧ compileExprH env s1 val = .ok (cv, s2) ∧
      ce.il = .varl s!"h_tmp{s2.hyb}" ∧ ce.ty = cv.ty ∧ st'.hyb = s2.hyb + 1 ∧
      st'.pending = (popPending s2.pending (tmpsOfPures cargs ++ tmpsOfPure cv.il)).2 ++
        [seqPend s2 name exts cargs cv.il] := by
  obtain ⟨cargs, s1, cv, s2, h1, h2, rfl, rfl⟩ := inv_seqexpr h
  exact ⟨cargs, s1, cv, s2, h1, h2, rfl, rfl, rfl, rfl⟩

/-- (8b) the entry belongs to a statement-expression (so a `?:` arm wraps its effect part in a `BRANCH`),
    its effect part is the call, its value part `SETL(h_tmpN, val)`, in the order effect-then-value -/
theorem seq_entry_shape (st : HSt) (name : String) (exts : List String) (cargs : List ILPure) (v : ILPure) :
    (seqPend st name exts cargs v).gcc = true ∧ (seqPend st name exts cargs v).setFirst = false ∧
    (seqPend st name exts cargs v).exec = .call ("hex_" ++ name) (exts.map (fun x => ILPure.ext (.id x)) ++ cargs) ∧
    (seqPend st name exts cargs v).setTmp = .setl s!"h_tmp{st.hyb}" v :=
  ⟨rfl, rfl, rfl, rfl⟩

/-- (8b) **the call occurs exactly once in the rendered entry**, after the pulled-in dependencies and directly in
    front of the `SETL` of the temporary (flattened view) -/
theorem seq_entry_members (st : HSt) (name : String) (exts : List String) (cargs : List ILPure) (v : ILPure) :
    flatE (seqPend st name exts cargs v).render =
      flatEs ((popPending st.pending (tmpsOfPures cargs ++ tmpsOfPure v)).1.map Pend.render) ++
        [vcallEffect name exts cargs, .setl (tmpName st.hyb) v] := by
  rw [flatE_render]
  simp [seqPend, vcallEffect, flatE]

/-- (8c) **IL meaning of the call effect**: `hex_set_usr_field(b, FIELD, c)` writes the 32-bit value of `c` to the
    cell of FIELD (which then counts as written) and changes nothing else -/
theorem call_effect_writes_cell (ms : MacroSem) (σ : MState) (b fld : String) (carg : ILPure) (x : BitVec 32)
    (h : evalPure ms σ [] carg = .ok (.bv 32 x)) :
    ∃ σ', ExecIL ms (vcallEffect "set_usr_field" [b, fld] [carg]) σ σ' ∧
      σ'.new (usrCell fld) = x.toNat ∧ σ'.written (usrCell fld) = true ∧
      (∀ k, k ≠ usrCell fld → σ'.new k = σ.new k ∧ σ'.written k = σ.written k) ∧
      σ'.locals = σ.locals ∧ σ'.mem = σ.mem ∧ σ'.cur = σ.cur ∧ σ'.imm = σ.imm :=
  ⟨_, ExecIL_vcall_usr h, (usrState_cell σ fld x).1, (usrState_cell σ fld x).2.1, (usrState_cell σ fld x).2.2,
    rfl, rfl, rfl, rfl⟩

/-- (8c) rendering the entry of `({ set_usr_field(b, FIELD, c); val; })` with nothing pending inside: the cell is
    written FIRST, then the temporary receives the value `val` has in the state after the call -/
theorem seq_entry_value (ms : MacroSem) (st : HSt) (b fld : String) (carg v : ILPure) (σ : MState) (x : BitVec 32) (y : Val)
    (hdeps : (popPending st.pending (tmpsOfPures [carg] ++ tmpsOfPure v)).1 = [])
    (hc : evalPure ms σ [] carg = .ok (.bv 32 x)) (hv : evalPure ms (usrState σ fld x) [] v = .ok y) :
    ∃ σ', ExecIL ms (seqPend st "set_usr_field" [b, fld] [carg] v).render σ σ' ∧
      lookupS s!"h_tmp{st.hyb}" σ'.locals = some y ∧ σ'.new (usrCell fld) = x.toNat ∧
      σ'.written (usrCell fld) = true ∧
      (∀ k, k ≠ s!"h_tmp{st.hyb}" → lookupS k σ'.locals = lookupS k σ.locals) :=
  ⟨_, seq_render_exec ms st b fld carg v σ x y hdeps hc hv, C05.lookupS_setLocal_self _ _ _,
    (usrState_cell σ fld x).1, (usrState_cell σ fld x).2.1, fun _ hk => C05.lookupS_setLocal_ne hk _ _⟩

/-- (8c) as an arm of `?:` the call is put under the guard (`wrapThen`/`wrapElse` act on every entry that belongs to a
    statement-expression, `seq_entry_shape`); a guarded call does not run when its arm is not selected: the cell is
    untouched -/
theorem seq_arm_guarded (ms : MacroSem) (c : ILPure) (b fld : String) (carg : ILPure) (σ : MState)
    (hc : evalPure ms σ [] c = .ok (.bool true)) :
    ExecIL ms (.branch c .empty (vcallEffect "set_usr_field" [b, fld] [carg])) σ σ :=
  guard_else_true ms c _ σ hc

section
variable {ms : MacroSem} {WF : MState → CExpr → Prop} {c : Ctx} {env : CEnv}

/-- (8d) **fragment simulation for the void call statement** `set_usr_field(b, FIELD, a);`, relative to the expression
    theorem `ExprOK ms WF`: `a` built from leaves, casts, unary/binary arithmetic, shifts, comparisons and `!` without
    value-producing side effects (`postOnly a`, `postsOf a = []`), repaired configuration.  The effect the statement
    lowers to — executed with NO compiled sub-routine body, i.e. under the specification-level reading — takes an
    `Inv`-related state to a state `Inv`-related to C's result; both sides have written the same value to the cell. -/
theorem vcall_usr_sim (hE : C05.ExprOK ms WF) (henv : env.cfg = Cfg.fixed)
    {st st' : HSt} {b fld : String} {a : CExpr} {eff : Option ILEffect} {bare : List String}
    (hcomp : compileStmtH env st (.vcall "set_usr_field" [b, fld] [a] [utT]) = .ok (eff, bare, st'))
    (hfrag : postOnly a = true) (hnop : postsOf a = [])
    (hWF : C05.WFHyp ms WF c [a]) (hsrc : usrCell fld ∉ c.srcs)
    {subs : CSubEnv} {σC σIL σC' : MState} {f : Nat}
    (hinv : C05.Inv c σC σIL)
    (hex : execCH ms subs (f+1) (.vcall "set_usr_field" [b, fld] [a] [utT]) σC = .ok σC') :
    ∃ effIL σIL', eff = some effIL ∧ bare = [] ∧ ExecIL ms effIL σIL σIL' ∧ C05.Inv c σC' σIL' ∧
      st'.pending = st.pending :=
  vcall_usr_correct hE henv hcomp hfrag hnop hWF hsrc hinv hex

end

/-- (8d) closed: the expression theorem of C02 plugged in, side conditions static -/
theorem vcall_usr_sim_closed {ms : MacroSem} (hms : MsOK ms) {c : Ctx} {env : CEnv} (henv : env.cfg = Cfg.fixed)
    {st st' : HSt} {b fld : String} {a : CExpr} {eff : Option ILEffect} {bare : List String}
    (hcomp : compileStmtH env st (.vcall "set_usr_field" [b, fld] [a] [utT]) = .ok (eff, bare, st'))
    (hfrag : postOnly a = true) (hnop : postsOf a = []) (hwf : WFES c a = true) (hsrc : usrCell fld ∉ c.srcs)
    {subs : CSubEnv} {σC σIL σC' : MState} {f : Nat}
    (hinv : C05.Inv c σC σIL)
    (hex : execCH ms subs (f+1) (.vcall "set_usr_field" [b, fld] [a] [utT]) σC = .ok σC') :
    ∃ effIL σIL', eff = some effIL ∧ bare = [] ∧ ExecIL ms effIL σIL σIL' ∧ C05.Inv c σC' σIL' ∧
      st'.pending = st.pending := by
  refine vcall_usr_correct (C05.exprOK_of_C02 hms) henv hcomp hfrag hnop ?_ hsrc hinv hex
  intro e he σ vC hs hi hev
  simp only [List.mem_singleton] at he
  subst he
  exact C05.WFE_of_static ms hs hi e hwf hev

/-! ### non-vacuity and witnesses for section 8 -/

def ovf : String := "HEX_REG_FIELD_USR_OVF"
def setOvf (val : CExpr) : CExpr := .seqexpr "set_usr_field" ["bundle", ovf] [.lit 1 false ""] [utT] val

/-- observation including the abstract cell: (`.new`, written) of `usr:HEX_REG_FIELD_USR_OVF` -/
def obsUsr (regs : List String) : Except Stuck MState → Stuck ⊕ (List Nat × Nat × Bool)
  | .ok σ => .inr (regs.map σ.new, σ.new (usrCell ovf), σ.written (usrCell ovf))
  | .error e => .inl e

/-- the saturation pattern `{ RdV = (RsV < 100) ? RsV : ({ set_usr_field(bundle, HEX_REG_FIELD_USR_OVF, 1); 100; }); }` -/
def progSat : List CStmt :=
  [ .assign (.reg "RdV" .dst s32) "=" (.tern (.cmp "<" (.reg "RsV" .src s32) (.lit 100 false ""))
      (.reg "RsV" .src s32) (setOvf (.lit 100 false ""))) ]

set_option maxRecDepth 100000 in
/-- the emitted tree: the guarded call, the unconditional `SETL` of the temporary, the register write — the call
    occurs exactly once -/
theorem example_saturation_tree :
    emittedOrder progSat = ["hex_set_usr_field", "h_tmp0", "Rd_op"] := by decide +kernel

set_option maxRecDepth 100000 in
/-- C and the emitted IL agree on both paths: no saturation (`RsV = 5`: `RdV = 5`, cell untouched) and saturation
    (`RsV = 500`: `RdV = 100`, cell = 1 and written) -/
theorem example_saturation_agrees :
    obsUsr ["Rd_op"] (runC progSat 20 (startSt 5 0)) = .inr ([5], 0, false) ∧
    obsUsr ["Rd_op"] (runIL progSat 20 (startSt 5 0)) = .inr ([5], 0, false) ∧
    obsUsr ["Rd_op"] (runC progSat 20 (startSt 500 0)) = .inr ([100], 1, true) ∧
    obsUsr ["Rd_op"] (runIL progSat 20 (startSt 500 0)) = .inr ([100], 1, true) := by decide +kernel

/-- `{ RdV = (PuV ? (RsV ? ({ set_usr_field(bundle, HEX_REG_FIELD_USR_OVF, 1); 7; }) : 8) : RtV); }`: the
    statement-expression is an arm of the INNER `?:` (shape of the shipped `S2_asl_r_r_sat` / `S2_asr_r_r_sat`) -/
def progInnerArm : List CStmt :=
  [ .assign (.reg "RdV" .dst s32) "=" (.tern (.reg "PuV" .src ⟨true, 8⟩)
      (.tern (.reg "RsV" .src s32) (setOvf (.lit 7 false "")) (.lit 8 false "")) (.reg "RtV" .src s32)) ]

set_option maxRecDepth 100000 in
/-- **a call statement-expression as an arm of an inner `?:` is guarded by the inner condition only**: with `PuV = 0`
    (outer arm not selected) and `RsV ≠ 0`, C leaves the cell alone and gives `RdV = RtV = 77`; the emitted IL gives
    the same `RdV` but HAS written the cell.  (Class `hybrid_in_ternary_arm` of the known findings.) -/
theorem witness_inner_arm_call :
    obsUsr ["Rd_op"] (runC progInnerArm 20 (startSt 5 0)) = .inr ([77], 0, false) ∧
    obsUsr ["Rd_op"] (runIL progInnerArm 20 (startSt 5 0)) = .inr ([77], 1, true) ∧
    -- outer arm selected: both sides agree
    obsUsr ["Rd_op"] (runC progInnerArm 20 (startSt 5 1)) = .inr ([7], 1, true) ∧
    obsUsr ["Rd_op"] (runIL progInnerArm 20 (startSt 5 1)) = .inr ([7], 1, true) := by decide +kernel

/-- non-vacuity of (8d): `set_usr_field(bundle, HEX_REG_FIELD_USR_OVF, i + 1);` from `i = 7` -/
def vcStmt : CStmt := .vcall "set_usr_field" ["bundle", ovf] [.bin "+" (.var "i" u32) (.lit 1 false "")] [utT]

set_option maxRecDepth 100000 in
example : ∃ eff b st' σC', compileStmtH fragEnv (initSt 0) vcStmt = .ok (eff, b, st') ∧
    execCH noMacros [] 10 vcStmt fragState = .ok σC' ∧
    (∃ effIL σIL', eff = some effIL ∧ b = [] ∧ ExecIL noMacros effIL fragState σIL' ∧ C05.Inv fragCtx σC' σIL' ∧
      st'.pending = []) ∧
    (σC'.new (usrCell ovf), σC'.written (usrCell ovf)) = (8, true) := by
  obtain ⟨⟨eff, b, st'⟩, hcomp⟩ := C05.isOk_elim (x := compileStmtH fragEnv (initSt 0) vcStmt) (by decide +kernel)
  obtain ⟨σC', hC⟩ := C05.isOk_elim (x := execCH noMacros [] 10 vcStmt fragState) (by decide +kernel)
  refine ⟨eff, b, st', σC', hcomp, hC, ?_, ?_⟩
  · exact vcall_usr_sim_closed msOK_noMacros (c := fragCtx) rfl hcomp (by decide) (by decide) (by decide +kernel)
      (by decide) fragInv hC
  · have : (match execCH noMacros [] 10 vcStmt fragState with
        | .ok σ => (σ.new (usrCell ovf), σ.written (usrCell ovf)) | .error _ => (0, false)) = (8, true) := by
      decide +kernel
    rw [hC] at this; exact this

end C06
end Rzil
