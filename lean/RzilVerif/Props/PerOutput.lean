import RzilVerif.Props.C11
import RzilVerif.Props.C12
import RzilVerif.Props.C16
/-!
# The per-output theorems composed

Three checkers run on every emitted text: `wfBodyProblems` (C11), `linearProblems` (C12) and the layout relation
(C16).  The theorems of C12 and C16 carry side hypotheses (`ilNamesDistinct`; `namesDistinct`, `noForwardRef`) which
are consequences of an empty `wfBodyProblems` report.  Here they are discharged.
-/
namespace Rzil

/-! ## 1. The two notions of "declared IL names are distinct" -/

/-- The types the heap model gives an ownership class are the types `buildEnvIL` inlines. -/
theorem isILTy_of_ilKind {ty : String} {k : Bool} (h : ilKind ty = some k) : isILTy ty = true := by
  simp only [isILTy, Bool.or_eq_true]
  simp only [ilKind] at h
  split at h
  · rename_i h1
    simp only [Bool.or_eq_true] at h1
    rcases h1 with h1 | h1
    · exact Or.inl (Or.inl h1)
    · exact Or.inr h1
  · split at h
    · rename_i h2
      exact Or.inl (Or.inr h2)
    · cases h

/-- Every name of `heapDecls` is the name of an inlined declaration. -/
theorem mem_heapDecls_names (items : List Item) (x : String) (hx : x ∈ (heapDecls items).map Prod.fst) :
    ∃ d ∈ items.filter Item.isILDecl, d.name = x := by
  induction items with
  | nil => simp [heapDecls] at hx
  | cons it rest ih =>
    cases it with
    | comment s =>
      obtain ⟨d, hd, hn⟩ := ih (by simpa [heapDecls] using hx)
      exact ⟨d, by simpa [List.filter_cons, Item.isILDecl] using hd, hn⟩
    | ret t =>
      obtain ⟨d, hd, hn⟩ := ih (by simpa [heapDecls] using hx)
      exact ⟨d, by simpa [List.filter_cons, Item.isILDecl] using hd, hn⟩
    | decl ty n rhs =>
      rw [heapDecls_cons_decl] at hx
      cases hk : ilKind ty with
      | none =>
        rw [hk] at hx
        obtain ⟨d, hd, hn⟩ := ih hx
        exact ⟨d, List.mem_filter.2 ⟨List.mem_cons_of_mem _ (List.mem_filter.1 hd).1, (List.mem_filter.1 hd).2⟩, hn⟩
      | some k =>
        rw [hk] at hx
        simp only [List.map_cons, List.mem_cons] at hx
        rcases hx with hx | hx
        · exact ⟨.decl ty n rhs, List.mem_filter.2 ⟨List.mem_cons_self, isILTy_of_ilKind hk⟩, hx.symm⟩
        · obtain ⟨d, hd, hn⟩ := ih hx
          exact ⟨d, List.mem_filter.2 ⟨List.mem_cons_of_mem _ (List.mem_filter.1 hd).1, (List.mem_filter.1 hd).2⟩, hn⟩

/-- `namesDistinct` (Lemmas/LayoutPerm.lean, Boolean, on the items) gives `ilNamesDistinct` (Model/Heap.lean,
    `Nodup` of the names of `heapDecls`). -/
theorem ilNamesDistinct_of_namesDistinct (items : List Item) (h : namesDistinct items = true) :
    ilNamesDistinct items := by
  unfold ilNamesDistinct
  induction items with
  | nil => simp [heapDecls]
  | cons it rest ih =>
    simp only [namesDistinct, Bool.and_eq_true, Bool.or_eq_true, Bool.not_eq_true'] at h
    cases it with
    | comment s => simpa [heapDecls] using ih h.2
    | ret t => simpa [heapDecls] using ih h.2
    | decl ty n rhs =>
      rw [heapDecls_cons_decl]
      cases hk : ilKind ty with
      | none => exact ih h.2
      | some k =>
        simp only [List.map_cons, List.nodup_cons]
        refine ⟨?_, ih h.2⟩
        intro hmem
        obtain ⟨d, hd, hn⟩ := mem_heapDecls_names rest n hmem
        rcases h.1 with h1 | h1
        · have := isILTy_of_ilKind hk
          simp only [Item.isILDecl] at h1
          rw [this] at h1
          cases h1
        · have := List.all_eq_true.1 h1 d hd
          have hne : (d.name != n) = true := this
          rw [hn] at hne
          simp at hne

/-- **Goal 1.**  Well-formedness gives the hypothesis of `linear_no_double_free_no_leak`. -/
theorem wf_ilNamesDistinct (ctx : BodyCtx) (b : Body) (h : wfBodyProblems ctx b = []) : ilNamesDistinct b.items :=
  ilNamesDistinct_of_namesDistinct b.items (wf_layout' ctx b h).1

/-! ## 2. C11 + C12 -/

/-- **Goal 2.**  A text accepted by both `wfBodyProblems` and `linearProblems` consumes no node twice and leaves no
    node unconsumed. -/
theorem accepted_text_is_linear_on_the_heap (ctx : BodyCtx) (b : Body) (hwf : wfBodyProblems ctx b = [])
    (hlin : linearProblems b = []) : NoDoubleFree (run b.items) ∧ NoLeak (run b.items) :=
  linear_no_double_free_no_leak b (wf_ilNamesDistinct ctx b hwf) hlin

/-! ## 3. C11 + C16 -/

/-- The permutation / same-return part of `permEqual`, without its `namesDistinct` / `noForwardRef` conjuncts. -/
def permOnly (rs ec : List Item) : Bool :=
  isPermB (ilDecls rs) (ilDecls ec) && optTermEqb (returned rs) (returned ec)

/-- `permEqual` is `permOnly` plus the side conditions. -/
theorem permEqual_eq (rs ec : List Item) :
    permEqual rs ec = (namesDistinct rs && noForwardRef rs && noForwardRef ec && permOnly rs ec) := by
  simp only [permEqual, permOnly, Bool.and_assoc]

/-- Well-formedness of both texts gives `permEqual` from `permOnly`. -/
theorem wf_permEqual (ctx : BodyCtx) (rs ec : Body) (hrs : wfBodyProblems ctx rs = [])
    (hec : wfBodyProblems ctx ec = []) (hperm : permOnly rs.items ec.items = true) :
    permEqual rs.items ec.items = true := by
  rw [permEqual_eq, (wf_layout' ctx rs hrs).1, (wf_layout' ctx rs hrs).2, (wf_layout' ctx ec hec).2, hperm]
  rfl

/-- **Goal 3.**  Two well-formed texts whose inlined declarations are permutations of each other and which return the
    same term denote the same term. -/
theorem accepted_layouts_agree (ctx : BodyCtx) (rs ec : Body) (hrs : wfBodyProblems ctx rs = [])
    (hec : wfBodyProblems ctx ec = []) (hperm : permOnly rs.items ec.items = true) :
    denoteIL ec = denoteIL rs :=
  layout_rel_sound_perm_raw rs ec (wf_permEqual ctx rs ec hrs hec hperm)

/-- The two contexts may differ (each text is checked in its own). -/
theorem accepted_layouts_agree' (ctxR ctxE : BodyCtx) (rs ec : Body) (hrs : wfBodyProblems ctxR rs = [])
    (hec : wfBodyProblems ctxE ec = []) (hperm : permOnly rs.items ec.items = true) :
    denoteIL ec = denoteIL rs := by
  have h : permEqual rs.items ec.items = true := by
    rw [permEqual_eq, (wf_layout' ctxR rs hrs).1, (wf_layout' ctxR rs hrs).2, (wf_layout' ctxE ec hec).2, hperm]
    rfl
  exact layout_rel_sound_perm_raw rs ec h

/-! ## 4. Kernel-checked examples -/

/-- Context of `exHeapLinear`: the operands `Rs_op`, `Rd_op` are given, `Rs` is declared by the body. -/
def exPOCtxH : BodyCtx := { given := ["bundle", "hi", "pkt", "Rs_op", "Rd_op"], callees := [] }
/-- Context of `exPermRS` / `exPermEC`: the register values `Rs`, `Rt` are given, `Rd_op` is declared by the bodies. -/
def exPOCtx : BodyCtx := { given := ["bundle", "hi", "pkt", "Rs", "Rt"], callees := [] }

example : wfBodyProblems exPOCtxH exHeapLinear = [] ∧ linearProblems exHeapLinear = [] := by decide +kernel

example : NoDoubleFree (run exHeapLinear.items) ∧ NoLeak (run exHeapLinear.items) :=
  accepted_text_is_linear_on_the_heap exPOCtxH exHeapLinear (by decide +kernel) (by decide +kernel)

example : wfBodyProblems exPOCtx { header := none, items := exPermRS } = [] ∧
    wfBodyProblems exPOCtx { header := none, items := exPermEC } = [] ∧
    permOnly exPermRS exPermEC = true := by decide +kernel

example : denoteIL { header := none, items := exPermEC } = denoteIL { header := none, items := exPermRS } :=
  accepted_layouts_agree exPOCtx { header := none, items := exPermRS } { header := none, items := exPermEC }
    (by decide +kernel) (by decide +kernel) (by decide +kernel)

end Rzil
