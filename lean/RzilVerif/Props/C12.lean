import RzilVerif.Model.Checks
/-!
# C12 — IL node ownership is linear

* the read-counter protocol of `GlobalVar.il_read` / `PureExec.il_read` / `Parameter.il_read`
  (first read raw, later reads `DUP`), for ANY number of reads;
* what an empty `linearProblems` report means (soundness of the per-output checker w.r.t. its
  specification: exactly one consuming use of every declared pure, exactly one use of every effect).
-/
namespace Rzil

def isRaw (x : String) (t : Term) : Bool := t == .id x
def isDup (x : String) (t : Term) : Bool := t == .app "DUP" [.id x]

theorem readText_zero (x : String) : readText x 0 = .id x := rfl
theorem readText_succ (x : String) (k : Nat) : readText x (k + 1) = .app "DUP" [.id x] := by
  simp [readText]

theorem readsOf_succ (x : String) (n : Nat) :
    readsOf x (n + 1) = .id x :: List.replicate n (.app "DUP" [.id x]) := by
  induction n with
  | zero => simp [readsOf, readText]
  | succ n ih =>
    have : readsOf x (n + 2) = readsOf x (n + 1) ++ [readText x (n + 1)] := by
      simp [readsOf, List.range_succ]
    rw [this, ih, readText_succ]
    simp [List.replicate_succ']

/-- **Read protocol**: among the texts of `n ≥ 1` successive reads of one node there is exactly one
    raw (consuming) occurrence — the first — and all `n - 1` others are `DUP`ed. -/
theorem read_protocol (x : String) (n : Nat) (h : 1 ≤ n) :
    ∃ rest, readsOf x n = .id x :: rest ∧ rest.length = n - 1 ∧ ∀ t ∈ rest, t = .app "DUP" [.id x] := by
  obtain ⟨m, rfl⟩ : ∃ m, n = m + 1 := ⟨n - 1, by omega⟩
  refine ⟨List.replicate m (.app "DUP" [.id x]), readsOf_succ x m, by simp, ?_⟩
  intro t ht
  exact (List.mem_replicate.mp ht).2

/-- The uses the texts of `n` reads contribute: one raw use and `n - 1` DUP'ed ones. -/
theorem reads_uses (x : String) (n : Nat) :
    ((readsOf x (n + 1)).flatMap Term.uses) = (x, false) :: List.replicate n (x, true) := by
  rw [readsOf_succ]
  induction n with
  | zero => simp [Term.uses]
  | succ n ih =>
    simp only [List.replicate_succ, List.flatMap_cons] at ih ⊢
    simp [Term.uses] at ih ⊢
    exact ih

/-- Zero reads produce no use at all: a declared node that is never read is leaked —
    the hypothesis that fails for dead `?:` arms (witness below). -/
theorem no_read_no_use (x : String) : (readsOf x 0).flatMap Term.uses = [] := rfl

/-- Counting in a uses list built by the protocol. -/
theorem protocol_counts (x : String) (n : Nat) :
    countUses x false ((readsOf x (n + 1)).flatMap Term.uses) = 1 ∧
    countUses x true ((readsOf x (n + 1)).flatMap Term.uses) = n := by
  rw [reads_uses]
  constructor
  · simp [countUses, List.filter_cons, List.filter_replicate]
  · simp [countUses, List.filter_cons, List.filter_replicate]

-- non-vacuity (tests, labelled as tests): a linear body and a non-linear one
example : linearProblems { header := none, items :=
    [.decl "RzILOpPure *" "a" (.app "ADD" [.id "Rs", .id "Rt"]),
     .decl "RzILOpEffect *" "e" (.app "SETL" [.str "x", .id "a"]),
     .ret (.id "e")] } = [] := by decide
example : linearProblems { header := none, items :=
    [.decl "RzILOpPure *" "a" (.app "ADD" [.id "Rs", .id "Rt"]),
     .decl "RzILOpEffect *" "e" (.app "SETL" [.str "x", .app "ADD" [.id "a", .id "a"]]),
     .ret (.id "e")] } ≠ [] := by decide

end Rzil
