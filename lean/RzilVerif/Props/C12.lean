import RzilVerif.Model.Checks
import RzilVerif.Lemmas.HeapLinear
import RzilVerif.Model.DriverHeap
/-!
# C12 — IL node ownership is linear

* the read-counter protocol of `GlobalVar.il_read` / `PureExec.il_read` / `Parameter.il_read`
  (first read raw, later reads `DUP`), for ANY number of reads;
* what an empty `linearProblems` report means (soundness of the per-output checker w.r.t. its
  specification: exactly one consuming use of every declared pure, exactly one use of every effect).
-/
namespace Rzil

def isRaw (x : String) (t : Term) : Bool := t == .id x
def isDup (x : String) (t : Term) : Bool := t == .app "DUP" [.id x]

theorem readText_zero (x : String) : readText x 0 = .id x := rfl
theorem readText_succ (x : String) (k : Nat) : readText x (k + 1) = .app "DUP" [.id x] := by
  simp [readText]

theorem readsOf_succ (x : String) (n : Nat) :
    readsOf x (n + 1) = .id x :: List.replicate n (.app "DUP" [.id x]) := by
  induction n with
  | zero => simp [readsOf, readText]
  | succ n ih =>
    have : readsOf x (n + 2) = readsOf x (n + 1) ++ [readText x (n + 1)] := by
      simp [readsOf, List.range_succ]
    rw [this, ih, readText_succ]
    simp [List.replicate_succ']

/-- **Read protocol**: among the texts of `n ≥ 1` successive reads of one node there is exactly one
    raw (consuming) occurrence — the first — and all `n - 1` others are `DUP`ed. -/
theorem read_protocol (x : String) (n : Nat) (h : 1 ≤ n) :
    ∃ rest, readsOf x n = .id x :: rest ∧ rest.length = n - 1 ∧ ∀ t ∈ rest, t = .app "DUP" [.id x] := by
  obtain ⟨m, rfl⟩ : ∃ m, n = m + 1 := ⟨n - 1, by omega⟩
  refine ⟨List.replicate m (.app "DUP" [.id x]), readsOf_succ x m, by simp, ?_⟩
  intro t ht
  exact (List.mem_replicate.mp ht).2

/-- The uses the texts of `n` reads contribute: one raw use and `n - 1` DUP'ed ones. -/
theorem reads_uses (x : String) (n : Nat) :
    ((readsOf x (n + 1)).flatMap Term.uses) = (x, false) :: List.replicate n (x, true) := by
  rw [readsOf_succ]
  induction n with
  | zero => simp [Term.uses]
  | succ n ih =>
    simp only [List.replicate_succ, List.flatMap_cons] at ih ⊢
    simp [Term.uses] at ih ⊢
    exact ih

/-- Zero reads produce no use at all: a declared node that is never read is leaked —
    the hypothesis that fails for dead `?:` arms (witness below). -/
theorem no_read_no_use (x : String) : (readsOf x 0).flatMap Term.uses = [] := rfl

/-- Counting in a uses list built by the protocol. -/
theorem protocol_counts (x : String) (n : Nat) :
    countUses x false ((readsOf x (n + 1)).flatMap Term.uses) = 1 ∧
    countUses x true ((readsOf x (n + 1)).flatMap Term.uses) = n := by
  rw [reads_uses]
  constructor
  · simp [countUses, List.filter_cons, List.filter_replicate]
  · simp [countUses, List.filter_cons, List.filter_replicate]

/-! ## What linearity buys: no double free, no leak (heap model `Model/Heap.lean`) -/

theorem run_vars (items : List Item) : (run items).nodes.map HNode.var = (heapDecls items).map Prod.fst := by
  rw [← run_nodes, List.map_map]; rfl

/-- Under distinct declared names the model's consumption count of a node is the checker's count:
    raw uses, plus DUP'ed uses for an effect. -/
theorem run_consumptions (items : List Item) (hdistinct : ilNamesDistinct items) (n : HNode)
    (hn : n ∈ (run items).nodes) :
    (run items).consumptions n =
      countUses n.var false (allUses items) + (if n.eff then countUses n.var true (allUses items) else 0) := by
  have hd : ((run items).nodes.map HNode.var).Nodup := by rw [run_vars]; exact hdistinct
  rw [consumptions_eq _ hd n hn, run_moves]

/-- An empty `linearProblems` report: every node owned by a declared variable is consumed exactly once. -/
theorem linear_consumed_once (b : Body) (hdistinct : ilNamesDistinct b.items) (h : linearProblems b = [])
    (n : HNode) (hn : n ∈ (run b.items).nodes) : (run b.items).consumptions n = 1 := by
  rw [linearProblems_eq] at h
  have hdecl := declProblems_nil _ _ (List.append_eq_nil_iff.mp h).1
  have hk : (n.var, n.eff) ∈ heapDecls b.items := by
    rw [← run_nodes]; exact List.mem_map.mpr ⟨n, hn, rfl⟩
  have := hdecl _ _ hk
  rw [run_consumptions _ hdistinct n hn]
  cases hne : n.eff
  · simpa using this.1 hne
  · simpa using this.2 hne

/-- **C12, the "consequently"**: if the counting checker reports nothing (and the declared IL names are
    pairwise distinct, which `wfBody` checks), running the body consumes no node twice and leaves no node
    unconsumed. -/
theorem linear_no_double_free_no_leak (b : Body) (hdistinct : ilNamesDistinct b.items)
    (h : linearProblems b = []) : NoDoubleFree (run b.items) ∧ NoLeak (run b.items) :=
  ⟨fun n hn => Nat.le_of_eq (linear_consumed_once b hdistinct h n hn),
   fun n hn => Nat.le_of_eq (linear_consumed_once b hdistinct h n hn).symm⟩

/-- The parameter clause: a borrowed pure parameter is passed raw (consumed by a constructor) at most once. -/
theorem linear_borrowed_param (b : Body) (h : linearProblems b = []) (f : String) (ps : List Param)
    (hh : b.header = some (f, ps)) (p : Param) (hp : p ∈ ps) (hty : p.ty = "RZ_BORROW RzILOpPure *") :
    (run b.items).rawMoves p.name ≤ 1 := by
  rw [linearProblems_eq, hh] at h
  have := paramProblems_nil _ _ (List.append_eq_nil_iff.mp h).2 p hp hty
  simpa [HeapState.rawMoves, run_moves] using this

/-- Converse for pures: a pure node consumed twice or more in the model is reported by the checker. -/
theorem double_free_reported (b : Body) (hdistinct : ilNamesDistinct b.items) (n : HNode)
    (hn : n ∈ (run b.items).nodes) (hpure : n.eff = false) (h2 : 2 ≤ (run b.items).consumptions n) :
    s!"pure {n.var} is consumed {countUses n.var false (allUses b.items)} times without DUP (double free)"
      ∈ linearProblems b := by
  rw [run_consumptions _ hdistinct n hn, hpure] at h2
  have hk : (n.var, false) ∈ heapDecls b.items := by
    rw [← run_nodes, ← hpure]; exact List.mem_map.mpr ⟨n, hn, rfl⟩
  rw [linearProblems_eq]
  exact List.mem_append_left _ (declProblems_double_free _ _ _ hk (by simpa using h2))

/-- Contrapositive reading: without the distinct-names hypothesis nothing is claimed; with it, a model-level
    double free of a pure makes the report non-empty. -/
theorem double_free_not_linear (b : Body) (hdistinct : ilNamesDistinct b.items) (n : HNode)
    (hn : n ∈ (run b.items).nodes) (hpure : n.eff = false) (h2 : 2 ≤ (run b.items).consumptions n) :
    linearProblems b ≠ [] := by
  intro h
  have := double_free_reported b hdistinct n hn hpure h2
  rw [h] at this
  cases this

/-! ### kernel-checked examples for the heap model -/

/-- `Rd = Rs + Rs`: the register value is read once, the second use goes through `DUP`. -/
def exHeapLinear : Body := { header := none, items :=
  [.decl "RzILOpPure *" "Rs" (.app "READ_REG" [.id "pkt", .id "Rs_op", .id "false"]),
   .decl "RzILOpPure *" "op_ADD_2" (.app "ADD" [.id "Rs", .app "DUP" [.id "Rs"]]),
   .decl "RzILOpEffect *" "op_ASSIGN_3" (.app "WRITE_REG" [.id "bundle", .id "Rd_op", .id "op_ADD_2"]),
   .decl "RzILOpEffect *" "instruction_sequence" (.id "op_ASSIGN_3"),
   .ret (.id "instruction_sequence")] }

example : ilNamesDistinct exHeapLinear.items ∧ linearProblems exHeapLinear = [] := by decide
example : NoDoubleFree (run exHeapLinear.items) ∧ NoLeak (run exHeapLinear.items) := by decide
example : (run exHeapLinear.items).nodes.map HNode.id = [0, 1, 2, 3] := by decide

/-- Two raw uses of `Rs`: the node is handed to `ADD` twice. -/
def exHeapDouble : Body := { header := none, items :=
  [.decl "RzILOpPure *" "Rs" (.app "READ_REG" [.id "pkt", .id "Rs_op", .id "false"]),
   .decl "RzILOpPure *" "op_ADD_2" (.app "ADD" [.id "Rs", .id "Rs"]),
   .decl "RzILOpEffect *" "op_ASSIGN_3" (.app "WRITE_REG" [.id "bundle", .id "Rd_op", .id "op_ADD_2"]),
   .ret (.id "op_ASSIGN_3")] }

example : ¬ NoDoubleFree (run exHeapDouble.items) ∧ NoLeak (run exHeapDouble.items) := by decide
example : linearProblems exHeapDouble = ["pure Rs is consumed 2 times without DUP (double free)"] := by decide

/-- An initialised pure that nothing uses (the dead `?:` arm shape). -/
def exHeapLeak : Body := { header := none, items :=
  [.decl "RzILOpPure *" "Rs" (.app "READ_REG" [.id "pkt", .id "Rs_op", .id "false"]),
   .decl "RzILOpPure *" "Rt" (.app "READ_REG" [.id "pkt", .id "Rt_op", .id "false"]),
   .decl "RzILOpEffect *" "op_ASSIGN_3" (.app "WRITE_REG" [.id "bundle", .id "Rd_op", .id "Rs"]),
   .ret (.id "op_ASSIGN_3")] }

example : NoDoubleFree (run exHeapLeak.items) ∧ ¬ NoLeak (run exHeapLeak.items) := by decide
example : linearProblems exHeapLeak = ["pure Rt is initialised but never used (leak)"] := by decide

/-- Only `DUP`ed: the clone is consumed, the original leaks. -/
example : ¬ NoLeak (run [.decl "RzILOpPure *" "a" (.app "VARL" [.str "x"]),
                         .ret (.app "SETL" [.str "y", .app "DUP" [.id "a"]])]) := by decide

/-- The distinct-names hypothesis is needed: `a` declared twice, one raw use — the checker counts one use
    of the NAME and is content, the model sees two nodes and one consumption. -/
def exHeapDupName : Body := { header := none, items :=
  [.decl "RzILOpPure *" "a" (.app "VARL" [.str "x"]),
   .decl "RzILOpPure *" "a" (.app "VARL" [.str "y"]),
   .ret (.app "SETL" [.str "z", .id "a"])] }

example : linearProblems exHeapDupName = [] ∧ ¬ ilNamesDistinct exHeapDupName.items ∧
    ¬ NoLeak (run exHeapDupName.items) := by decide

-- non-vacuity (tests, labelled as tests): a linear body and a non-linear one
example : linearProblems { header := none, items :=
    [.decl "RzILOpPure *" "a" (.app "ADD" [.id "Rs", .id "Rt"]),
     .decl "RzILOpEffect *" "e" (.app "SETL" [.str "x", .id "a"]),
     .ret (.id "e")] } = [] := by decide
example : linearProblems { header := none, items :=
    [.decl "RzILOpPure *" "a" (.app "ADD" [.id "Rs", .id "Rt"]),
     .decl "RzILOpEffect *" "e" (.app "SETL" [.str "x", .app "ADD" [.id "a", .id "a"]]),
     .ret (.id "e")] } ≠ [] := by decide

/-! ### the driver request `heap` (Model/DriverHeap.lean) reports the model's own predicates -/

example (b : Body) : (heapReport b).noDoubleFree = decide (NoDoubleFree (run b.items)) ∧
    (heapReport b).noLeak = decide (NoLeak (run b.items)) ∧
    (heapReport b).distinct = decide (ilNamesDistinct b.items) := ⟨rfl, rfl, rfl⟩
example : heapReport exHeapLinear =
  { nodes := 4, distinct := true, noDoubleFree := true, noLeak := true,
    linearProblems := 0, double := [], leaked := [] } := by decide
example : heapReport exHeapDouble =
  { nodes := 3, distinct := true, noDoubleFree := false, noLeak := true,
    linearProblems := 1, double := ["Rs"], leaked := [] } := by decide
example : heapReport exHeapLeak =
  { nodes := 3, distinct := true, noDoubleFree := true, noLeak := false,
    linearProblems := 1, double := [], leaked := ["Rt"] } := by decide

end Rzil
