import RzilVerif.Model.Pool
/-!
# C18 — pooled parsing equals sequential parsing and isolates failures

Python under test: `Parser.py` (`parse_single`, `Parser.parse` with `Pool().imap` and
`result.update(res)`).  Model: `RzilVerif/Model/Pool.lean`.

A *schedule* is any permutation `order` of `List.range ts.length`: the order in which the workers
finish the tasks.  Every pool size, chunk size and worker speed gives such a permutation, so a
theorem quantified over all of them covers every possible run of the pool.

Main results
* `pool_eq_seq_imap`       — with `imap` the pooled result is *equal* (same dict, same insertion
                             order) to the sequential in-process fold, for every schedule;
* `pool_eq_seq_unordered`  — with `imap_unordered` the pooled result is the same finite map provided
                             the instruction names are distinct; `unordered_differs_on_duplicate_names`
                             is the counterexample without that proviso;
* `one_entry_per_name`     — the result has exactly one entry per task name and no other keys;
* `parts_kept`, `failure_empties` — what `parse_single` returns;
* `failure_isolated`       — the entry of task `i` does not change when another task is replaced.
-/
namespace Rzil.Pool

/-! ## Association-list toolbox -/

theorem lookup_cons_ite {α β : Type} [DecidableEq α] (a k : α) (b : β) (as : List (α × β)) :
    List.lookup a ((k, b) :: as) = if a = k then some b else List.lookup a as := by
  rw [List.lookup_cons]
  by_cases h : a = k
  · subst h; simp
  · have : (a == k) = false := by simpa using h
    simp [this, h]

theorem filterMap_congr' {α β : Type} {f g : α → Option β} {l : List α}
    (h : ∀ x ∈ l, f x = g x) : l.filterMap f = l.filterMap g := by
  induction l with
  | nil => rfl
  | cons a rest ih =>
    have ha : f a = g a := h a (List.mem_cons_self ..)
    have hr : rest.filterMap f = rest.filterMap g :=
      ih (fun x hx => h x (List.mem_cons_of_mem _ hx))
    simp only [List.filterMap_cons, ha, hr]

/-- A successful lookup returns a pair of the list. -/
theorem mem_of_lookup_eq_some {α β : Type} [DecidableEq α] {l : List (α × β)} {k : α} {v : β}
    (h : l.lookup k = some v) : (k, v) ∈ l := by
  induction l with
  | nil => simp at h
  | cons a rest ih =>
    obtain ⟨k0, v0⟩ := a
    rw [lookup_cons_ite] at h
    by_cases hk : k = k0
    · subst hk
      simp only [if_true, Option.some.injEq] at h
      subst h
      exact List.mem_cons_self ..
    · simp only [hk, if_false] at h
      exact List.mem_cons_of_mem _ (ih h)

/-- With distinct keys every pair of the list is found by lookup. -/
theorem lookup_eq_some_of_mem {α β : Type} [DecidableEq α] {l : List (α × β)} {k : α} {v : β}
    (hnd : (l.map (·.1)).Nodup) (h : (k, v) ∈ l) : l.lookup k = some v := by
  induction l with
  | nil => cases h
  | cons a rest ih =>
    obtain ⟨k0, v0⟩ := a
    rw [lookup_cons_ite]
    simp only [List.map_cons, List.nodup_cons] at hnd
    by_cases hk : k = k0
    · subst hk
      simp only [if_true]
      cases h with
      | head => rfl
      | tail _ h' =>
        exact absurd (List.mem_map.mpr ⟨(k, v), h', rfl⟩) hnd.1
    · simp only [hk, if_false]
      cases h with
      | head => exact absurd rfl hk
      | tail _ h' => exact ih hnd.2 h'

theorem lookup_eq_none_iff_not_mem_keys {α β : Type} [DecidableEq α] {l : List (α × β)} {k : α} :
    l.lookup k = none ↔ k ∉ l.map (·.1) := by
  induction l with
  | nil => simp
  | cons a rest ih =>
    obtain ⟨k0, v0⟩ := a
    rw [lookup_cons_ite]
    by_cases hk : k = k0
    · subst hk; simp
    · simp [hk, ih]

theorem lookup_isSome_iff_mem_keys {α β : Type} [DecidableEq α] {l : List (α × β)} {k : α} :
    (l.lookup k).isSome ↔ k ∈ l.map (·.1) := by
  cases h : l.lookup k with
  | none => simpa using lookup_eq_none_iff_not_mem_keys.mp h
  | some v =>
    simp only [Option.isSome_some, true_iff]
    exact List.mem_map.mpr ⟨(k, v), mem_of_lookup_eq_some h, rfl⟩

/-- Lookup is invariant under permutation when the keys are distinct. -/
theorem lookup_perm {α β : Type} [DecidableEq α] {l₁ l₂ : List (α × β)} (k : α)
    (hnd : (l₁.map (·.1)).Nodup) (hp : l₁.Perm l₂) : l₁.lookup k = l₂.lookup k := by
  have hnd₂ : (l₂.map (·.1)).Nodup := (hp.map (·.1)).nodup_iff.mp hnd
  cases h₁ : l₁.lookup k with
  | some v =>
    exact (lookup_eq_some_of_mem hnd₂ (hp.mem_iff.mp (mem_of_lookup_eq_some h₁))).symm
  | none =>
    cases h₂ : l₂.lookup k with
    | none => rfl
    | some v =>
      have := lookup_eq_some_of_mem hnd (hp.mem_iff.mpr (mem_of_lookup_eq_some h₂))
      rw [h₁] at this
      cases this

/-- Only the pairs with key `k` matter for `lookup k`. -/
theorem lookup_filter_key {α β : Type} [DecidableEq α] (l : List (α × β)) (k : α) :
    (l.filter (fun kv => kv.1 == k)).lookup k = l.lookup k := by
  induction l with
  | nil => rfl
  | cons a rest ih =>
    obtain ⟨k0, v0⟩ := a
    by_cases hk : k0 = k
    · subst hk
      simp
    · have hk' : ¬ k = k0 := fun h => hk h.symm
      simp [lookup_cons_ite, hk, hk', ih]

theorem filter_set_of_false {α : Type} (q : α → Bool) (l : List α) (j : Nat) (a : α)
    (hj : j < l.length) (ha : q a = false) (hl : q l[j] = false) :
    (l.set j a).filter q = l.filter q := by
  induction l generalizing j with
  | nil => rfl
  | cons x rest ih =>
    cases j with
    | zero =>
      simp only [List.getElem_cons_zero] at hl
      simp [ha, hl]
    | succ j =>
      simp only [List.getElem_cons_succ] at hl
      simp only [List.set_cons_succ, List.filter_cons]
      rw [ih j (by simpa using hj) hl]

theorem filterMap_range_take {α β : Type} (F : α → β) (ts : List α) (n : Nat) :
    (List.range n).filterMap (fun i => ts[i]?.map F) = (ts.take n).map F := by
  induction n with
  | zero => simp
  | succ n ih =>
    rw [List.range_succ, List.filterMap_append, ih, List.take_add_one, List.map_append]
    cases h : ts[n]? <;> simp [h]

theorem filterMap_range_length {α β : Type} (F : α → β) (ts : List α) :
    (List.range ts.length).filterMap (fun i => ts[i]?.map F) = ts.map F := by
  rw [filterMap_range_take, List.take_length]

/-! ## `dict.update` -/

theorem lookup_dictInsert (d : Dict) (k : String) (v : Entry) (k' : String) :
    (dictInsert d k v).lookup k' = if k' = k then some v else d.lookup k' := by
  induction d with
  | nil => simp [dictInsert, lookup_cons_ite]
  | cons a rest ih =>
    obtain ⟨k0, v0⟩ := a
    simp only [dictInsert]
    split
    · rename_i h
      have h0 : k0 = k := by simpa using h
      subst h0
      simp only [lookup_cons_ite]
      by_cases hk : k' = k0 <;> simp [hk]
    · rename_i h
      have h0 : k0 ≠ k := by simpa using h
      simp only [lookup_cons_ite, ih]
      by_cases hk : k' = k0
      · subst hk; simp [h0]
      · simp [hk]

/-- Python `dict` insertion order: an existing key keeps its slot, a new key goes last. -/
theorem keys_dictInsert (d : Dict) (k : String) (v : Entry) :
    keys (dictInsert d k v) = if k ∈ keys d then keys d else keys d ++ [k] := by
  unfold keys
  induction d with
  | nil => simp [dictInsert]
  | cons a rest ih =>
    obtain ⟨k0, v0⟩ := a
    simp only [dictInsert]
    split
    · rename_i h
      have h0 : k0 = k := by simpa using h
      simp [h0]
    · rename_i h
      have h0 : k0 ≠ k := by simpa using h
      simp only [List.map_cons, ih, List.mem_cons]
      by_cases hk : k ∈ rest.map (·.1)
      · simp [hk]
      · simp [hk, Ne.symm h0]

theorem mem_keys_dictInsert (d : Dict) (k : String) (v : Entry) (k' : String) :
    k' ∈ keys (dictInsert d k v) ↔ k' ∈ keys d ∨ k' = k := by
  rw [keys_dictInsert]
  by_cases hk : k ∈ keys d
  · simp only [hk, if_true]
    constructor
    · exact Or.inl
    · rintro (h | h)
      · exact h
      · exact h ▸ hk
  · simp [hk]

theorem nodup_keys_dictInsert (d : Dict) (k : String) (v : Entry) (h : (keys d).Nodup) :
    (keys (dictInsert d k v)).Nodup := by
  rw [keys_dictInsert]
  by_cases hk : k ∈ keys d
  · simpa [hk] using h
  · simp only [hk, if_false]
    rw [List.nodup_append]
    refine ⟨h, by simp, ?_⟩
    intro a ha b hb
    simp only [List.mem_singleton] at hb
    subst hb
    exact fun hab => hk (hab ▸ ha)

theorem dictUpdate_nil (d : Dict) : dictUpdate d [] = d := rfl

theorem dictUpdate_cons (d : Dict) (kv : String × Entry) (rest : Dict) :
    dictUpdate d (kv :: rest) = dictUpdate (dictInsert d kv.1 kv.2) rest := rfl

/-- **Last writer wins**: after `d.update(kvs)` a key maps to the value of its last occurrence in
    `kvs`, and to its old value if it does not occur in `kvs`. -/
theorem lookup_dictUpdate (d kvs : Dict) (k : String) :
    (dictUpdate d kvs).lookup k = (kvs.reverse.lookup k).or (d.lookup k) := by
  induction kvs generalizing d with
  | nil => simp [dictUpdate_nil]
  | cons kv rest ih =>
    rw [dictUpdate_cons, ih, lookup_dictInsert, List.reverse_cons, List.lookup_append]
    obtain ⟨k0, v0⟩ := kv
    by_cases hk : k = k0
    · subst hk; cases h : List.lookup k rest.reverse <;> simp
    · cases h : List.lookup k rest.reverse <;> simp [lookup_cons_ite, hk]

theorem mem_keys_dictUpdate (d kvs : Dict) (k : String) :
    k ∈ keys (dictUpdate d kvs) ↔ k ∈ keys d ∨ k ∈ keys kvs := by
  induction kvs generalizing d with
  | nil => simp [dictUpdate_nil, keys]
  | cons kv rest ih =>
    rw [dictUpdate_cons, ih, mem_keys_dictInsert]
    simp only [keys, List.map_cons, List.mem_cons]
    constructor
    · rintro ((h | h) | h)
      · exact Or.inl h
      · exact Or.inr (Or.inl h)
      · exact Or.inr (Or.inr h)
    · rintro (h | h | h)
      · exact Or.inl (Or.inl h)
      · exact Or.inl (Or.inr h)
      · exact Or.inr h

theorem nodup_keys_dictUpdate (d kvs : Dict) (h : (keys d).Nodup) :
    (keys (dictUpdate d kvs)).Nodup := by
  induction kvs generalizing d with
  | nil => exact h
  | cons kv rest ih =>
    rw [dictUpdate_cons]
    exact ih _ (nodup_keys_dictInsert d kv.1 kv.2 h)

/-- `lookup k` after an update only depends on the pairs with key `k`. -/
theorem lookup_dictUpdate_congr (d ys ys' : Dict) (k : String)
    (h : ys.filter (fun kv => kv.1 == k) = ys'.filter (fun kv => kv.1 == k)) :
    (dictUpdate d ys).lookup k = (dictUpdate d ys').lookup k := by
  rw [lookup_dictUpdate, lookup_dictUpdate]
  rw [← lookup_filter_key ys.reverse, ← lookup_filter_key ys'.reverse,
    List.filter_reverse, List.filter_reverse, h]

/-- `dictEqb` decides `dictEquiv`. -/
theorem dictEqb_iff (a b : Dict) : dictEqb a b = true ↔ dictEquiv a b := by
  unfold dictEqb dictEquiv
  simp only [List.all_eq_true, List.mem_append, beq_iff_eq]
  constructor
  · intro h k
    by_cases hk : k ∈ a.map (·.1) ∨ k ∈ b.map (·.1)
    · exact h k hk
    · have ha : k ∉ a.map (·.1) := fun x => hk (Or.inl x)
      have hb : k ∉ b.map (·.1) := fun x => hk (Or.inr x)
      rw [lookup_eq_none_iff_not_mem_keys.mpr ha, lookup_eq_none_iff_not_mem_keys.mpr hb]
  · intro h k _
    exact h k

theorem isSchedule_iff (order : List Nat) (n : Nat) :
    isSchedule order n = true ↔ order.Perm (List.range n) := List.isPerm_iff

/-! ## The three runs as one `dict.update` of a pair list -/

theorem foldl_dictUpdate_singletons (d ys : Dict) :
    (ys.map (fun kv => [kv])).foldl dictUpdate d = dictUpdate d ys := by
  induction ys generalizing d with
  | nil => rfl
  | cons kv rest ih => simp only [List.map_cons, List.foldl_cons, ih]; rfl

theorem collect_singletons (ys : Dict) : collect (ys.map (fun kv => [kv])) = dictUpdate [] ys :=
  foldl_dictUpdate_singletons [] ys

theorem seqRun_eq (p : ParseOne) (ts : List Task) :
    seqRun p ts = dictUpdate [] (ts.map (pairOf p)) := by
  rw [← collect_singletons, List.map_map]; rfl

theorem unorderedYields_eq (p : ParseOne) (order : List Nat) (ts : List Task) :
    unorderedYields p order ts =
      (order.filterMap (fun i => ts[i]?.map (pairOf p))).map (fun kv => [kv]) := by
  simp only [unorderedYields, produced, List.map_filterMap]
  congr 1
  funext i
  cases ts[i]? <;> rfl

theorem poolRunUnordered_eq (p : ParseOne) (order : List Nat) (ts : List Task) :
    poolRunUnordered p order ts =
      dictUpdate [] (order.filterMap (fun i => ts[i]?.map (pairOf p))) := by
  rw [poolRunUnordered, unorderedYields_eq, collect_singletons]

/-- The result buffer holds, for every index that has completed, that task's result. -/
theorem lookup_produced (p : ParseOne) (order : List Nat) (ts : List Task) (i : Nat) :
    (produced p order ts).lookup i = if i ∈ order then ts[i]?.map (workerResult p) else none := by
  induction order with
  | nil => simp [produced]
  | cons j rest ih =>
    simp only [produced, List.filterMap_cons] at ih ⊢
    by_cases hj : i = j
    · subst hj
      cases h : ts[i]? with
      | none => simp [ih, h]
      | some t => simp
    · cases h : ts[j]? with
      | none => simp [ih, hj]
      | some t => simp [lookup_cons_ite, hj, ih]

/-- `imap` hands the results back in task order as soon as every task has completed at least once;
    the completion order is irrelevant. -/
theorem imapYields_eq_of_cover (p : ParseOne) (order : List Nat) (ts : List Task)
    (hcover : ∀ i, i < ts.length → i ∈ order) :
    imapYields p order ts = ts.map (workerResult p) := by
  unfold imapYields
  rw [← filterMap_range_length (workerResult p) ts]
  apply filterMap_congr'
  intro i hi
  rw [lookup_produced, if_pos (hcover i (List.mem_range.mp hi))]

theorem cover_of_perm {order : List Nat} {n : Nat} (h : order.Perm (List.range n)) :
    ∀ i, i < n → i ∈ order :=
  fun _ hi => h.mem_iff.mpr (List.mem_range.mpr hi)

/-! ## 1. `imap`: pooled = sequential, as dicts (including insertion order) -/

/-- **C18.1** For every schedule, `Parser.parse` (with `pool.imap`) returns exactly the dict the
    sequential loop `for a in args: result.update(parse_single(a))` returns. -/
theorem pool_eq_seq_imap (p : ParseOne) (order : List Nat) (ts : List Task)
    (h : order.Perm (List.range ts.length)) : poolRunImap p order ts = seqRun p ts := by
  unfold poolRunImap seqRun
  rw [imapYields_eq_of_cover p order ts (cover_of_perm h)]

/-- non-vacuity / concrete instance: three tasks, the last one finishes first. -/
example : [2, 0, 1].Perm (List.range 3) := by decide

/-! ## 2. `imap_unordered`: same finite map iff names are distinct -/

/-- The pairs yielded in completion order are a permutation of the pairs in task order. -/
theorem unordered_pairs_perm (p : ParseOne) (order : List Nat) (ts : List Task)
    (h : order.Perm (List.range ts.length)) :
    (order.filterMap (fun i => ts[i]?.map (pairOf p))).Perm (ts.map (pairOf p)) := by
  have := h.filterMap (fun i => ts[i]?.map (pairOf p))
  rwa [filterMap_range_length] at this

theorem keys_pairs (p : ParseOne) (ts : List Task) :
    (ts.map (pairOf p)).map (·.1) = ts.map (·.name) := by
  simp [List.map_map, Function.comp_def, pairOf]

/-- **C18.2** With distinct instruction names the completion order is irrelevant:
    `imap_unordered` would give the same finite map as the sequential loop. -/
theorem pool_eq_seq_unordered (p : ParseOne) (order : List Nat) (ts : List Task)
    (hnd : (ts.map (·.name)).Nodup) (h : order.Perm (List.range ts.length)) :
    ∀ k, (poolRunUnordered p order ts).lookup k = (seqRun p ts).lookup k := by
  intro k
  rw [poolRunUnordered_eq, seqRun_eq, lookup_dictUpdate, lookup_dictUpdate]
  have hp := unordered_pairs_perm p order ts h
  have hp' : (order.filterMap (fun i => ts[i]?.map (pairOf p))).reverse.Perm
      (ts.map (pairOf p)).reverse :=
    ((List.reverse_perm _).trans hp).trans (List.reverse_perm _).symm
  have hnd' : ((ts.map (pairOf p)).reverse.map (·.1)).Nodup := by
    rw [List.map_reverse, (List.reverse_perm _).nodup_iff, keys_pairs]; exact hnd
  rw [lookup_perm k ((hp'.map (·.1)).nodup_iff.mpr hnd') hp']

theorem pool_eq_seq_unordered_equiv (p : ParseOne) (order : List Nat) (ts : List Task)
    (hnd : (ts.map (·.name)).Nodup) (h : order.Perm (List.range ts.length)) :
    dictEquiv (poolRunUnordered p order ts) (seqRun p ts) :=
  pool_eq_seq_unordered p order ts hnd h

/-- A toy parser for the examples: the part `"bad"` raises, everything else parses to its length. -/
def demoParser : ParseOne :=
  fun s => if s == "bad" then .error "UnexpectedCharacters" else .ok s.length

def demoTasks : List Task :=
  [⟨"A2_add", ["x", "yy"]⟩, ⟨"A2_sub", ["x", "bad", "zzz"]⟩, ⟨"A2_and", ["www"]⟩]

/-- non-vacuity of `pool_eq_seq_unordered`. -/
example : (demoTasks.map (·.name)).Nodup ∧ [2, 0, 1].Perm (List.range demoTasks.length) := by
  decide

/-- Two tasks with the same name (cannot come out of a Python dict, but nothing in
    `parse_single` prevents it). -/
def dupTasks : List Task := [⟨"a", ["x"]⟩, ⟨"a", ["yy"]⟩]

/-- **Counterexample**: with a duplicated name, `imap_unordered` under the schedule "task 1 finishes
    first" disagrees with the sequential loop (last writer wins, and the last writer differs) … -/
theorem unordered_differs_on_duplicate_names :
    [1, 0].Perm (List.range dupTasks.length) ∧
    (poolRunUnordered demoParser [1, 0] dupTasks).lookup "a" ≠
      (seqRun demoParser dupTasks).lookup "a" := by
  decide

/-- … whereas `imap` (what the code uses) still agrees, as `pool_eq_seq_imap` says. -/
example : poolRunImap demoParser [1, 0] dupTasks = seqRun demoParser dupTasks := by decide

/-! ## 3. One entry per name -/

theorem parseSingle_name (p : ParseOne) (t : Task) : (parseSingle p t).name = t.name := by
  unfold parseSingle; split <;> rfl

theorem parseSingle_behaviours (p : ParseOne) (t : Task) :
    (parseSingle p t).behaviours = t.parts := by
  unfold parseSingle; split <;> rfl

theorem mem_keys_seqRun (p : ParseOne) (ts : List Task) (k : String) :
    k ∈ keys (seqRun p ts) ↔ k ∈ ts.map (·.name) := by
  rw [seqRun_eq, mem_keys_dictUpdate]
  simp only [keys, keys_pairs]
  simp

theorem nodup_keys_seqRun (p : ParseOne) (ts : List Task) : (keys (seqRun p ts)).Nodup := by
  rw [seqRun_eq]; exact nodup_keys_dictUpdate [] _ (by simp [keys])

/-- Whatever is stored under `k` is the `parse_single` result of some task named `k`. -/
theorem lookup_seqRun_sound (p : ParseOne) (ts : List Task) (k : String) (e : Entry)
    (h : (seqRun p ts).lookup k = some e) :
    ∃ t ∈ ts, t.name = k ∧ e = parseSingle p t := by
  rw [seqRun_eq, lookup_dictUpdate] at h
  simp only [List.lookup_nil, Option.or_none] at h
  have hm := mem_of_lookup_eq_some h
  rw [List.mem_reverse, List.mem_map] at hm
  obtain ⟨t, ht, hpair⟩ := hm
  simp only [pairOf, Prod.mk.injEq] at hpair
  exact ⟨t, ht, hpair.1, hpair.2.symm⟩

/-- With distinct names, every task finds its own `parse_single` result under its name. -/
theorem lookup_seqRun_of_nodup (p : ParseOne) (ts : List Task) (hnd : (ts.map (·.name)).Nodup)
    (t : Task) (ht : t ∈ ts) : (seqRun p ts).lookup t.name = some (parseSingle p t) := by
  rw [seqRun_eq, lookup_dictUpdate]
  simp only [List.lookup_nil, Option.or_none]
  apply lookup_eq_some_of_mem
  · rw [List.map_reverse, (List.reverse_perm _).nodup_iff, keys_pairs]; exact hnd
  · rw [List.mem_reverse]
    exact List.mem_map.mpr ⟨t, ht, rfl⟩

/-- **C18.3** (sequential run, hence by `pool_eq_seq_imap` the pooled run): the result dict has
    * pairwise distinct keys — *at most* one entry per name,
    * exactly the task names as keys — *at least* one entry per task name, no foreign names,
    * so every task name occurs exactly once among the keys and every other string not at all,
    * `lookup` is `some` exactly on the task names,
    * and the entry stored under `k` is the `parse_single` result of a task named `k`
      (in particular its `name` field is `k`). -/
theorem one_entry_per_name (p : ParseOne) (ts : List Task) :
    (keys (seqRun p ts)).Nodup ∧
    (∀ k, k ∈ keys (seqRun p ts) ↔ k ∈ ts.map (·.name)) ∧
    (∀ k, (keys (seqRun p ts)).count k = if k ∈ ts.map (·.name) then 1 else 0) ∧
    (∀ k, ((seqRun p ts).lookup k).isSome ↔ k ∈ ts.map (·.name)) ∧
    (∀ k e, (seqRun p ts).lookup k = some e → e.name = k ∧ ∃ t ∈ ts, t.name = k ∧ e = parseSingle p t) := by
  refine ⟨nodup_keys_seqRun p ts, mem_keys_seqRun p ts, ?_, ?_, ?_⟩
  · intro k
    rw [(nodup_keys_seqRun p ts).count]
    simp only [mem_keys_seqRun]
  · intro k
    rw [lookup_isSome_iff_mem_keys]
    exact mem_keys_seqRun p ts k
  · intro k e h
    obtain ⟨t, ht, hk, he⟩ := lookup_seqRun_sound p ts k e h
    exact ⟨by rw [he, parseSingle_name, hk], t, ht, hk, he⟩

/-- **C18.3** for the pooled run with `imap`, for every schedule. -/
theorem one_entry_per_name_imap (p : ParseOne) (order : List Nat) (ts : List Task)
    (h : order.Perm (List.range ts.length)) :
    (keys (poolRunImap p order ts)).Nodup ∧
    (∀ k, (keys (poolRunImap p order ts)).count k = if k ∈ ts.map (·.name) then 1 else 0) ∧
    (∀ k, ((poolRunImap p order ts).lookup k).isSome ↔ k ∈ ts.map (·.name)) ∧
    (∀ k e, (poolRunImap p order ts).lookup k = some e →
      e.name = k ∧ ∃ t ∈ ts, t.name = k ∧ e = parseSingle p t) := by
  rw [pool_eq_seq_imap p order ts h]
  obtain ⟨h1, _, h3, h4, h5⟩ := one_entry_per_name p ts
  exact ⟨h1, h3, h4, h5⟩

/-- **C18.3** for the pooled run with `imap_unordered`, for every schedule (names need not be
    distinct for this one). -/
theorem one_entry_per_name_unordered (p : ParseOne) (order : List Nat) (ts : List Task)
    (h : order.Perm (List.range ts.length)) :
    (keys (poolRunUnordered p order ts)).Nodup ∧
    (∀ k, (keys (poolRunUnordered p order ts)).count k = if k ∈ ts.map (·.name) then 1 else 0) ∧
    (∀ k, ((poolRunUnordered p order ts).lookup k).isSome ↔ k ∈ ts.map (·.name)) := by
  have hnd : (keys (poolRunUnordered p order ts)).Nodup := by
    rw [poolRunUnordered_eq]; exact nodup_keys_dictUpdate [] _ (by simp [keys])
  have hmem : ∀ k, k ∈ keys (poolRunUnordered p order ts) ↔ k ∈ ts.map (·.name) := by
    intro k
    rw [poolRunUnordered_eq, mem_keys_dictUpdate]
    have hp := (unordered_pairs_perm p order ts h).map (·.1)
    rw [keys_pairs] at hp
    simp only [keys, List.map_nil, List.not_mem_nil, false_or]
    exact hp.mem_iff
  refine ⟨hnd, ?_, ?_⟩
  · intro k
    rw [hnd.count]
    simp only [hmem]
  · intro k
    rw [lookup_isSome_iff_mem_keys]
    exact hmem k

/-- With distinct names the dict has as many entries as there were tasks, in task order. -/
theorem keys_seqRun_of_nodup (p : ParseOne) (ts : List Task) (hnd : (ts.map (·.name)).Nodup) :
    keys (seqRun p ts) = ts.map (·.name) := by
  rw [seqRun_eq]
  suffices H : ∀ (d : Dict) (l : List Task), (keys d ++ l.map (·.name)).Nodup →
      keys (dictUpdate d (l.map (pairOf p))) = keys d ++ l.map (·.name) by
    simpa [keys] using H [] ts (by simpa [keys] using hnd)
  intro d l
  induction l generalizing d with
  | nil => intro _; simp [dictUpdate_nil]
  | cons t rest ih =>
    intro h
    have hnot : t.name ∉ keys d := by
      intro hmem
      rw [List.nodup_append] at h
      exact h.2.2 _ hmem _ (by simp) rfl
    rw [List.map_cons, dictUpdate_cons]
    have hk : keys (dictInsert d (pairOf p t).1 (pairOf p t).2) = keys d ++ [t.name] := by
      rw [keys_dictInsert]; simp [pairOf, hnot]
    rw [ih, hk]
    · simp
    · rw [hk]; simpa using h

/-! ## 4. What `parse_single` returns -/

theorem parseParts_ok_of_all (p : ParseOne) (parts : List String)
    (h : ∀ s ∈ parts, ∃ n, p s = .ok n) :
    ∃ trees, parseParts p parts = .ok trees ∧ parts.map p = trees.map .ok := by
  induction parts with
  | nil => exact ⟨[], rfl, rfl⟩
  | cons s rest ih =>
    obtain ⟨n, hn⟩ := h s (List.mem_cons_self ..)
    obtain ⟨trees, ht, hf⟩ := ih (fun x hx => h x (List.mem_cons_of_mem _ hx))
    refine ⟨n :: trees, ?_, ?_⟩
    · simp only [parseParts, hn, ht]
    · simp only [List.map_cons, hn, hf]

/-- The loop fails exactly with the error of the first failing part. -/
theorem parseParts_error_iff (p : ParseOne) (parts : List String) (e : String) :
    parseParts p parts = .error e ↔ firstError p parts = some e := by
  induction parts with
  | nil => simp [parseParts, firstError]
  | cons s rest ih =>
    simp only [parseParts, firstError]
    cases hs : p s with
    | error e' => simp
    | ok n =>
      simp only
      rw [← ih]
      cases parseParts p rest <;> simp

theorem firstError_eq_none_iff (p : ParseOne) (parts : List String) :
    firstError p parts = none ↔ ∀ s ∈ parts, ∃ n, p s = .ok n := by
  induction parts with
  | nil => simp [firstError]
  | cons s rest ih =>
    simp only [firstError, List.mem_cons, forall_eq_or_imp]
    cases hs : p s with
    | error e' => simp
    | ok n => simp [ih]

/-- `firstError` really is the error of the *first* failing part. -/
theorem firstError_eq_some_iff (p : ParseOne) (parts : List String) (e : String) :
    firstError p parts = some e ↔
      ∃ pre s post, parts = pre ++ s :: post ∧ (∀ x ∈ pre, ∃ n, p x = .ok n) ∧ p s = .error e := by
  induction parts with
  | nil => simp [firstError]
  | cons s rest ih =>
    simp only [firstError]
    cases hs : p s with
    | error e' =>
      simp only [Option.some.injEq]
      constructor
      · intro h
        subst h
        exact ⟨[], s, rest, rfl, by simp, hs⟩
      · rintro ⟨pre, s', post, heq, hpre, hs'⟩
        cases pre with
        | nil =>
          simp only [List.nil_append, List.cons.injEq] at heq
          rw [← heq.1, hs] at hs'
          exact Except.error.inj hs'
        | cons x pre' =>
          simp only [List.cons_append, List.cons.injEq] at heq
          obtain ⟨n, hn⟩ := hpre x (List.mem_cons_self ..)
          rw [← heq.1, hs] at hn
          cases hn
    | ok n =>
      simp only
      rw [ih]
      constructor
      · rintro ⟨pre, s', post, heq, hpre, hs'⟩
        refine ⟨s :: pre, s', post, by rw [heq]; rfl, ?_, hs'⟩
        intro x hx
        cases hx with
        | head => exact ⟨n, hs⟩
        | tail _ hx' => exact hpre x hx'
      · rintro ⟨pre, s', post, heq, hpre, hs'⟩
        cases pre with
        | nil =>
          simp only [List.nil_append, List.cons.injEq] at heq
          rw [← heq.1, hs] at hs'
          cases hs'
        | cons x pre' =>
          simp only [List.cons_append, List.cons.injEq] at heq
          exact ⟨pre', s', post, heq.2, fun y hy => hpre y (List.mem_cons_of_mem _ hy), hs'⟩

/-- **C18.4a** All parts parse ⇒ one tree per part (`parts.map p = trees.map ok`: the part's own tree, in order), no exception,
    name and behaviours kept. -/
theorem parts_kept (p : ParseOne) (t : Task) (h : ∀ part ∈ t.parts, ∃ n, p part = .ok n) :
    (parseSingle p t).trees.length = t.parts.length ∧
    (parseSingle p t).exc = none ∧
    t.parts.map p = (parseSingle p t).trees.map .ok ∧
    (parseSingle p t).behaviours = t.parts ∧
    (parseSingle p t).name = t.name := by
  obtain ⟨trees, ht, hf⟩ := parseParts_ok_of_all p t.parts h
  have hps : parseSingle p t = ⟨t.name, trees, t.parts, none⟩ := by
    simp only [parseSingle, ht]
  rw [hps]
  have hlen := congrArg List.length hf
  simp only [List.length_map] at hlen
  exact ⟨hlen.symm, rfl, hf, rfl, rfl⟩

/-- **C18.4b** Some part fails ⇒ no trees at all (the trees of the earlier, successful parts are
    dropped), the exception recorded is the one of the FIRST failing part, behaviours and name are
    kept. -/
theorem failure_empties (p : ParseOne) (t : Task)
    (h : ∃ part ∈ t.parts, ∃ e, p part = .error e) :
    (parseSingle p t).trees = [] ∧
    (parseSingle p t).behaviours = t.parts ∧
    (parseSingle p t).name = t.name ∧
    ∃ pre s post e, t.parts = pre ++ s :: post ∧ (∀ x ∈ pre, ∃ n, p x = .ok n) ∧
      p s = .error e ∧ (parseSingle p t).exc = some e := by
  have hne : firstError p t.parts ≠ none := by
    intro hnone
    obtain ⟨part, hmem, e, he⟩ := h
    obtain ⟨n, hn⟩ := (firstError_eq_none_iff p t.parts).mp hnone part hmem
    rw [he] at hn
    cases hn
  obtain ⟨e, he⟩ := Option.ne_none_iff_exists'.mp hne
  have hpe := (parseParts_error_iff p t.parts e).mpr he
  obtain ⟨pre, s, post, heq, hpre, hs⟩ := (firstError_eq_some_iff p t.parts e).mp he
  have hps : parseSingle p t = ⟨t.name, [], t.parts, some e⟩ := by
    simp only [parseSingle, hpe]
  rw [hps]
  exact ⟨rfl, rfl, rfl, pre, s, post, e, heq, hpre, hs, rfl⟩

/-- Unconditional form: the recorded exception is always `firstError`. -/
theorem parseSingle_exc (p : ParseOne) (t : Task) :
    (parseSingle p t).exc = firstError p t.parts := by
  cases h : firstError p t.parts with
  | some e =>
    have := (parseParts_error_iff p t.parts e).mpr h
    simp only [parseSingle, this]
  | none =>
    obtain ⟨trees, ht, _⟩ := parseParts_ok_of_all p t.parts ((firstError_eq_none_iff _ _).mp h)
    simp only [parseSingle, ht]

/-- The entry of a task only depends on what the parser does on that task's own parts. -/
theorem parseSingle_congr (p p' : ParseOne) (t : Task) (h : ∀ s ∈ t.parts, p s = p' s) :
    parseSingle p t = parseSingle p' t := by
  have hp : ∀ parts : List String, (∀ s ∈ parts, p s = p' s) →
      parseParts p parts = parseParts p' parts := by
    intro parts
    induction parts with
    | nil => intro _; rfl
    | cons s rest ih =>
      intro hh
      simp only [parseParts, hh s (List.mem_cons_self ..),
        ih (fun x hx => hh x (List.mem_cons_of_mem _ hx))]
  simp only [parseSingle, hp t.parts h]

/-- non-vacuity of `parts_kept`: task 0 of the demo parses completely. -/
example : (∀ part ∈ (demoTasks[0]).parts, ∃ n, demoParser part = .ok n) ∧
    parseSingle demoParser demoTasks[0] = ⟨"A2_add", [1, 2], ["x", "yy"], none⟩ := by
  refine ⟨?_, by decide⟩
  intro part hpart
  have : part = "x" ∨ part = "yy" := by simpa [demoTasks] using hpart
  rcases this with rfl | rfl
  · exact ⟨1, by simp [demoParser]; decide⟩
  · exact ⟨2, by simp [demoParser]; decide⟩

/-- non-vacuity of `failure_empties`: task 1 of the demo has a failing middle part; the tree of
    its first part is dropped, the third part is never parsed. -/
example : (∃ part ∈ (demoTasks[1]).parts, ∃ e, demoParser part = .error e) ∧
    parseSingle demoParser demoTasks[1] =
      ⟨"A2_sub", [], ["x", "bad", "zzz"], some "UnexpectedCharacters"⟩ :=
  ⟨⟨"bad", by decide, "UnexpectedCharacters", by simp [demoParser]⟩, by decide⟩

/-! ## 5. Failures (and everything else) are isolated per task -/

/-- Replacing task `j` by `t'` does not change what is stored under any key `k` different from
    both the old and the new name of task `j` — sequential run. -/
theorem lookup_seqRun_set (p : ParseOne) (ts : List Task) (j : Nat) (t' : Task) (k : String)
    (hj : j < ts.length) (hold : ts[j].name ≠ k) (hnew : t'.name ≠ k) :
    (seqRun p (ts.set j t')).lookup k = (seqRun p ts).lookup k := by
  rw [seqRun_eq, seqRun_eq]
  apply lookup_dictUpdate_congr
  rw [List.map_set]
  exact filter_set_of_false _ _ j _ (by simpa using hj) (by simpa [pairOf] using hnew)
    (by simpa [pairOf] using hold)

/-- The same for the pooled run with `imap_unordered`, for ANY completion order. -/
theorem lookup_poolRunUnordered_set (p : ParseOne) (order : List Nat) (ts : List Task) (j : Nat)
    (t' : Task) (k : String) (hj : j < ts.length) (hold : ts[j].name ≠ k) (hnew : t'.name ≠ k) :
    (poolRunUnordered p order (ts.set j t')).lookup k = (poolRunUnordered p order ts).lookup k := by
  rw [poolRunUnordered_eq, poolRunUnordered_eq]
  apply lookup_dictUpdate_congr
  rw [List.filter_filterMap, List.filter_filterMap]
  apply filterMap_congr'
  intro m _
  rw [List.getElem?_set]
  by_cases hm : j = m
  · subst hm
    have hget : ts[j]? = some ts[j] := List.getElem?_eq_getElem hj
    simp [hj, pairOf, hold, hnew, Option.filter]
  · simp [hm]

/-- The same for the pooled run with `imap`, for every schedule. -/
theorem lookup_poolRunImap_set (p : ParseOne) (order : List Nat) (ts : List Task) (j : Nat)
    (t' : Task) (k : String) (h : order.Perm (List.range ts.length))
    (hj : j < ts.length) (hold : ts[j].name ≠ k) (hnew : t'.name ≠ k) :
    (poolRunImap p order (ts.set j t')).lookup k = (poolRunImap p order ts).lookup k := by
  rw [pool_eq_seq_imap p order ts h,
    pool_eq_seq_imap p order (ts.set j t') (by simpa using h)]
  exact lookup_seqRun_set p ts j t' k hj hold hnew

/-- **C18.5** The entry for task `i` depends only on task `i`: replacing any other task `j` (whose
    old and new names differ from task `i`'s) by an arbitrary task `t'` — e.g. one that fails to
    parse, or one that parses — leaves `lookup ts[i].name` unchanged, in the sequential run and in
    both pooled runs under every schedule. -/
theorem failure_isolated (p : ParseOne) (order : List Nat) (ts : List Task) (i j : Nat) (t' : Task)
    (h : order.Perm (List.range ts.length)) (hi : i < ts.length) (hj : j < ts.length)
    (hold : ts[j].name ≠ ts[i].name) (hnew : t'.name ≠ ts[i].name) :
    (seqRun p (ts.set j t')).lookup ts[i].name = (seqRun p ts).lookup ts[i].name ∧
    (poolRunImap p order (ts.set j t')).lookup ts[i].name =
      (poolRunImap p order ts).lookup ts[i].name ∧
    (poolRunUnordered p order (ts.set j t')).lookup ts[i].name =
      (poolRunUnordered p order ts).lookup ts[i].name :=
  ⟨lookup_seqRun_set p ts j t' _ hj hold hnew,
   lookup_poolRunImap_set p order ts j t' _ h hj hold hnew,
   lookup_poolRunUnordered_set p order ts j t' _ hj hold hnew⟩

/-- With distinct names the isolated entry is the task's own `parse_single` result, under every
    schedule and for both collectors; by `parseSingle_congr` it only depends on what the parser does
    on that task's parts. -/
theorem entry_is_own_result (p : ParseOne) (order : List Nat) (ts : List Task) (i : Nat)
    (hnd : (ts.map (·.name)).Nodup) (h : order.Perm (List.range ts.length)) (hi : i < ts.length) :
    (poolRunImap p order ts).lookup ts[i].name = some (parseSingle p ts[i]) ∧
    (poolRunUnordered p order ts).lookup ts[i].name = some (parseSingle p ts[i]) := by
  have hs := lookup_seqRun_of_nodup p ts hnd ts[i] (List.getElem_mem hi)
  exact ⟨by rw [pool_eq_seq_imap p order ts h]; exact hs,
         by rw [pool_eq_seq_unordered p order ts hnd h]; exact hs⟩

/-- non-vacuity of `failure_isolated`: in the demo, replace the failing task 1 by a parsing one and
    look at task 0. -/
example : [2, 0, 1].Perm (List.range demoTasks.length) ∧ 0 < demoTasks.length ∧
    1 < demoTasks.length ∧ (demoTasks[1]).name ≠ (demoTasks[0]).name ∧
    (⟨"A2_sub", ["x"]⟩ : Task).name ≠ (demoTasks[0]).name := by decide

/-- … and the concrete instance itself: task 1 failing or not, task 0 keeps its entry. -/
example :
    (poolRunImap demoParser [2, 0, 1] demoTasks).lookup "A2_add" =
      some ⟨"A2_add", [1, 2], ["x", "yy"], none⟩ ∧
    (poolRunImap demoParser [2, 0, 1] (demoTasks.set 1 ⟨"A2_sub", ["x"]⟩)).lookup "A2_add" =
      some ⟨"A2_add", [1, 2], ["x", "yy"], none⟩ ∧
    ((poolRunImap demoParser [2, 0, 1] demoTasks).lookup "A2_sub").map (·.exc) =
      some (some "UnexpectedCharacters") := by decide

end Rzil.Pool
