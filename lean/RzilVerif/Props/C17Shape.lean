import RzilVerif.Model.GrammarShape
/-!
# C17 (shape facts about the regenerated grammar; kernel `decide`)
These theorems are re-checked against `Gen/GrammarGen.lean`, which the translator rewrites from
`Resources/Hexagon/grammar.lark` on every run: swapping two tower levels, changing the recursion side,
adding or removing an operator alternative or respelling an operator terminal breaks them.
-/
namespace Rzil.GrammarShape

theorem tower_shape : towerOk = true := by decide
theorem tower_operators_agree_with_reference_parser : opsAgree = true := by decide
theorem ternary_assignment_cast_unary_shape : restOk = true := by decide

/-- `&` vs `&&`: distinct terminals at the C levels; unary `&` needs a non-`&` character on both sides. -/
theorem and_terminals : termPattern "BIT_AND_OP" = some "&" ∧ termPattern "AND_OP" = some "&&" ∧
    termPattern "UNARY_OP" = some "(?:[^&]&[^&]|\\*|\\+|\\-|\\~|!)" := by decide

/-- Priorities that decide token classification: keywords for loads/stores/jumps win over identifiers. -/
theorem terminal_priorities :
    (Gen.terminalRows.find? (fun r => r.1 == "IDENTIFIER")).map (fun r => r.2.2.2) = some 0 ∧
    (Gen.terminalRows.find? (fun r => r.1 == "MEM_LOAD")).map (fun r => r.2.2.2) = some 10 ∧
    (Gen.terminalRows.find? (fun r => r.1 == "MEM_STORE")).map (fun r => r.2.2.2) = some 10 ∧
    (Gen.terminalRows.find? (fun r => r.1 == "JUMP")).map (fun r => r.2.2.2) = some 10 := by decide

/-- `++` / `--` outrank the one-character operators they are made of: with Lark's dynamic lexer nothing else makes
    `a++ - b` read as `(a++) - b` rather than `a + (+(-b))` (C's maximal munch; repaired in /repo, the witness texts are
    replayed by the check on every run). -/
theorem incdec_outrank_single_char_operators :
    (Gen.terminalRows.find? (fun r => r.1 == "INC_OP")).map (fun r => r.2.2.2) = some 2 ∧
    (Gen.terminalRows.find? (fun r => r.1 == "DEC_OP")).map (fun r => r.2.2.2) = some 2 ∧
    (Gen.terminalRows.find? (fun r => r.1 == "ADD_OP")).map (fun r => r.2.2.2) = some 0 ∧
    (Gen.terminalRows.find? (fun r => r.1 == "SUB_OP")).map (fun r => r.2.2.2) = some 0 ∧
    (Gen.terminalRows.find? (fun r => r.1 == "UNARY_OP")).map (fun r => r.2.2.2) = some 0 := by decide

/-- The statement grammar has both `if` forms with a plain `stmt` body: `if (a) if (b) s; else t` has two
    derivations (dangling else), so its outcome rests on Lark's ambiguity resolution. -/
theorem dangling_else_two_alternatives :
    selectionRules.contains ["IF", "LPAR", "expr", "RPAR", "stmt", "ELSE", "stmt"] = true ∧
    selectionRules.contains ["IF", "LPAR", "expr", "RPAR", "stmt"] = true := by decide

end Rzil.GrammarShape
