import RzilVerif.Model.IL
/-
  RzIL sort checker implementing exactly the rules enumerated in property C10, on ALL arms of every
  BRANCH/ITE and on loop bodies (not on one path).
-/
namespace Rzil

inductive ILSort where
  | bv (w : Nat)
  | bool
  | float (w : Nat)
  | ext
deriving Repr, DecidableEq, Inhabited

def ILSort.render : ILSort → String
  | .bv w => s!"bv{w}" | .bool => "bool" | .float w => s!"float{w}" | .ext => "ext"

structure SubSig where
  ret : Option ILSort                    -- none = void
  params : List (Option ILSort)          -- none = external (non-IL) parameter
  locals : List (String × ILSort)        -- locals the callee's body sets (flat namespace), incl. ret_val
deriving Repr, Inhabited

structure MacroSig where
  ret : Option ILSort
  params : List (Option ILSort)
deriving Repr, Inhabited

structure SortEnv where
  params : List (String × ILSort)        -- pure parameters of the body being checked
  macros : List (String × MacroSig)      -- by RZIL macro name
  subs   : List (String × SubSig)        -- by routine name (without the hex_ prefix)
deriving Repr, Inhabited

abbrev Locals := List (String × ILSort)

/-- Documented operand widths, from the operand variable's name (class letter, pair, alias). -/
def regWidthOfOpvar (opvar : String) : Option Nat :=
  let n := if opvar.endsWith "_op" then (opvar.dropEnd 3).toString else opvar
  let n := if n.endsWith "_new" then (n.dropEnd 4).toString else n
  match n.toList with
  | [] => none
  | c :: rest =>
    if c.isUpper then
      let base : Option Nat :=
        if c == 'R' || c == 'C' || c == 'M' || c == 'N' then some 32
        else if c == 'P' then some 8
        else if c == 'V' then some 1024
        else if c == 'Q' then some 128
        else none
      let isPair :=
        (match rest with
         | [a, b] => a == b && a.isLower
         | _ => false) || (rest.contains '_' && rest.all (fun d => d.isDigit || d == '_'))
      base.map (fun b => if isPair then 2 * b else b)
    else
      if n == "upcycle" || n == "pktcount" || n == "utimer" then some 64 else some 32

def lookupS (k : String) : List (String × α) → Option α
  | [] => none
  | (k', v) :: rest => if k == k' then some v else lookupS k rest

def isArith : BinOp → Bool
  | .add | .sub | .mul | .div | .mod | .logand | .logor | .logxor => true
  | _ => false
def isShift : BinOp → Bool
  | .shiftl0 | .shiftr0 | .shiftra => true
  | _ => false
def isCmp : BinOp → Bool
  | .eq | .ult | .ule | .ugt | .uge | .slt | .sle | .sgt | .sge => true
  | _ => false

def floatFmtWidth (t : ILPure) : Option Nat :=
  match t with
  | .ext (.id s) => if (s.splitOn "BIN_32").length > 1 then some 32 else if (s.splitOn "BIN_64").length > 1 then some 64 else none
  | _ => none

mutual
/-- Sort of a pure, or a description of the first ill-sorted sub-term. -/
def sortOf (env : SortEnv) (locals : Locals) (lets : Locals) : ILPure → Except String ILSort
  | .const _ w _ => if w == 0 then .error "constant of width 0" else .ok (.bv w)
  | .imm _ w _ _ => .ok (.bv w)
  | .btrue => .ok .bool
  | .bfalse => .ok .bool
  | .varl n => match lookupS n locals with
      | some s => .ok s
      | none => .error s!"VARL(\"{n}\"): local is read but never set before"
  | .varlp n => match lookupS n lets with
      | some s => .ok s
      | none => .error s!"VARLP(\"{n}\"): LET-bound name not in scope"
  | .readReg r _ => match regWidthOfOpvar r.opvar with
      | some w => .ok (.bv w)
      | none => .error s!"READ_REG of operand {r.opvar} with unknown width"
  | .pktAddr => .ok (.bv 32)
  | .param n => match lookupS n env.params with
      | some s => .ok s
      | none => if n == "hi" || n == "pkt" || n == "bundle" || isPluginConst n || n.endsWith "_op" then .ok .ext
                else .error s!"identifier {n} is not a declared pure"
  | .un op a => do
      let sa ← sortOf env locals lets a
      match op, sa with
      | .lognot, .bv w => .ok (.bv w)
      | .neg, .bv w => .ok (.bv w)
      | .msb, .bv _ => .ok .bool
      | .nonZero, .bv _ => .ok .bool
      | .inv, .bool => .ok .bool
      | op, s => .error s!"{op.name} applied to {s.render}"
  | .bin op a b => do
      let sa ← sortOf env locals lets a
      let sb ← sortOf env locals lets b
      match sa, sb with
      | .bv wa, .bv wb =>
          if isArith op then (if wa == wb then .ok (.bv wa) else .error s!"{op.name} on widths {wa} and {wb}")
          else if isShift op then .ok (.bv wa)
          else if isCmp op then (if wa == wb then .ok .bool else .error s!"{op.name} on widths {wa} and {wb}")
          else .error s!"{op.name} applied to bitvectors"
      | .bool, .bool =>
          if op == .and || op == .or then .ok .bool else .error s!"{op.name} applied to booleans"
      | sa, sb => .error s!"{op.name} applied to {sa.render} and {sb.render}"
  | .cast w f a => do
      let sf ← sortOf env locals lets f
      let sa ← sortOf env locals lets a
      match sf, sa with
      | .bool, .bv _ => if w == 0 then .error "CAST to width 0" else .ok (.bv w)
      | sf, sa => .error s!"CAST(fill: {sf.render}, value: {sa.render})"
  | .signed w a => do
      let sa ← sortOf env locals lets a
      match sa with
      | .bv _ => .ok (.bv w)
      | s => .error s!"SIGNED applied to {s.render}"
  | .unsigned w a => do
      let sa ← sortOf env locals lets a
      match sa with
      | .bv _ => .ok (.bv w)
      | s => .error s!"UNSIGNED applied to {s.render}"
  | .ite c a b => do
      let sc ← sortOf env locals lets c
      let sa ← sortOf env locals lets a
      let sb ← sortOf env locals lets b
      if sc != .bool then .error s!"ITE condition is {sc.render}"
      else if sa != sb then .error s!"ITE arms are {sa.render} and {sb.render}"
      else .ok sa
  | .let_ n v body => do
      let sv ← sortOf env locals lets v
      sortOf env locals ((n, sv) :: lets) body
  | .loadw n a => do
      let sa ← sortOf env locals lets a
      match sa with
      | .bv _ => if n == 0 then .error "LOADW of width 0" else .ok (.bv n)
      | s => .error s!"LOADW address is {s.render}"
  | .inc a w => do
      let sa ← sortOf env locals lets a
      if sa == .bv w then .ok (.bv w) else .error s!"INC(_, {w}) applied to {sa.render}"
  | .dec a w => do
      let sa ← sortOf env locals lets a
      if sa == .bv w then .ok (.bv w) else .error s!"DEC(_, {w}) applied to {sa.render}"
  | .macro f args => do
      let sargs ← sortsOf env locals lets args
      -- float operators: F<arith>(rmode, a, b), F<cmp>(a, b)
      match f, sargs, args with
      | "BV2F", [.ext, .bv w], [fmt, _] =>
          (match floatFmtWidth fmt with
           | some fw => if fw == w then .ok (.float w) else .error s!"BV2F format {fw} on bv{w}"
           | none => .ok (.float w))
      | "F2BV", [.float w], _ => .ok (.bv w)
      | _, _, _ =>
        let fop : Option BinOp := if f.startsWith "F" then
            (match binOpOfName (f.drop 1).toString with
             | some op => some op
             | none => binOpOfName ("S" ++ (f.drop 1).toString)) else none
        if fop.isSome then
          match fop, sargs with
          | some op, [.ext, .float wa, .float wb] =>
              if isArith op && wa == wb then .ok (.float wa) else .error s!"{f} on float{wa}, float{wb}"
          | some op, [.float wa, .float wb] =>
              if isCmp op && wa == wb then .ok .bool else .error s!"{f} on float{wa}, float{wb}"
          | _, _ => .error s!"{f} applied to {" ".intercalate (sargs.map ILSort.render)}"
        else
        match lookupS f env.macros with
        | none => .error s!"unknown macro {f}"
        | some sig =>
          if sig.params.length != sargs.length then .error s!"{f}: {sargs.length} arguments for {sig.params.length} parameters"
          else
            let bad := (sig.params.zip sargs).find? (fun (p, s) => match p with
              | none => false
              | some ps => ps != s)
            match bad with
            | some (some ps, s) => .error s!"{f}: argument of sort {s.render} for parameter of sort {ps.render}"
            | _ => match sig.ret with
              | some r => .ok r
              | none => .ok .ext
  | .ext _ => .ok .ext
def sortsOf (env : SortEnv) (locals : Locals) (lets : Locals) : List ILPure → Except String (List ILSort)
  | [] => .ok []
  | a :: as => do
      let s ← sortOf env locals lets a
      let ss ← sortsOf env locals lets as
      .ok (s :: ss)
end

/-- Add or confirm a local's sort ("a local variable keeps a single width for its whole life"). -/
def bindLocal (locals : Locals) (n : String) (s : ILSort) : Except String Locals :=
  match lookupS n locals with
  | some s' => if s' == s then .ok locals else .error s!"local \"{n}\" is set with sort {s.render} but has sort {s'.render}"
  | none => .ok ((n, s) :: locals)

def mergeLocals (a : Locals) : Locals → Except String Locals
  | [] => .ok a
  | (n, s) :: rest => do
      let a' ← bindLocal a n s
      mergeLocals a' rest

/-- the locals a call of `f` leaves behind: those the signature of the compiled body lists; `hex_get_usr_field` may run
    under its specification-level reading (`ILSem.lean: getUsrFieldIL`), which sets `ret_val` (64 bit) -/
def callLocals (f : String) (sigLocals : Locals) : Locals :=
  if f == "hex_get_usr_field" then sigLocals ++ [("ret_val", .bv 64)] else sigLocals

mutual
def wfEffect (env : SortEnv) (locals : Locals) : ILEffect → Except String Locals
  | .setl n v => do
      let s ← sortOf env locals [] v
      match s with
      | .ext => .error s!"SETL(\"{n}\", non-IL value)"
      | s => bindLocal locals n s
  | .writeReg _ r v => do
      let s ← sortOf env locals [] v
      match regWidthOfOpvar r.opvar with
      | none => .error s!"WRITE_REG to operand {r.opvar} with unknown width"
      | some w => if s == .bv w then .ok locals else .error s!"WRITE_REG({r.opvar}: bv{w}) receives {s.render}"
  | .storew a v => do
      let sa ← sortOf env locals [] a
      let sv ← sortOf env locals [] v
      match sa, sv with
      | .bv _, .bv _ => .ok locals
      | sa, sv => .error s!"STOREW(address: {sa.render}, value: {sv.render})"
  | .seqn es => wfEffects env locals es
  | .branch c t e => do
      let sc ← sortOf env locals [] c
      if sc != .bool then .error s!"BRANCH condition is {sc.render}" else
      let lt ← wfEffect env locals t
      let le ← wfEffect env locals e
      mergeLocals lt le
  | .repeat_ c body => do
      let sc ← sortOf env locals [] c
      if sc != .bool then .error s!"REPEAT condition is {sc.render}" else
      let l1 ← wfEffect env locals body
      -- a second iteration starts from the locals the first one left
      let sc2 ← sortOf env l1 [] c
      if sc2 != .bool then .error s!"REPEAT condition is {sc2.render}" else
      wfEffect env l1 body
  | .empty => .ok locals
  | .nop => .ok locals
  | .call f args => do
      let sargs ← sortsOf env locals [] args
      if f.startsWith "hex_" then
        match lookupS (f.drop 4).toString env.subs with
        | none => .error s!"call of unknown sub-routine {f}"
        | some sig =>
          if sig.params.length != sargs.length then .error s!"{f}: {sargs.length} arguments for {sig.params.length} parameters"
          else
            let bad := (sig.params.zip sargs).find? (fun (p, s) => match p with
              | none => s != .ext
              | some ps => ps != s)
            match bad with
            | some (p, s) => .error s!"{f}: argument of sort {s.render} for parameter {(p.map ILSort.render).getD "external"}"
            | none => mergeLocals locals (callLocals f sig.locals)
      else if f == "HEX_GET_NPC" then bindLocal locals "ret_val" (.bv 64)
      else if f == "HEX_STORE_SLOT_CANCELLED" || f == "HEX_SETROUND" || f == "WRITE_REG" || f == "HEX_TRAP" then .ok locals
      else .error s!"unknown effect {f}"
def wfEffects (env : SortEnv) (locals : Locals) : List ILEffect → Except String Locals
  | [] => .ok locals
  | e :: es => do
      let l ← wfEffect env locals e
      wfEffects env l es
end

end Rzil
