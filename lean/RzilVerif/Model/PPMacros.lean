/-
  C20 — string helpers of `rzilcompiler/Preprocessor/Hexagon/PreprocessorHexagon.py`, modelled over
  `List Char` (core Lean only, total, executable):

  * `macroName`           `re.search(r"^#define\s+([\w_]*).*", line).group(1)`
  * `dictOfPatchLines`    the `patches` dict built in `patch_macros`
  * `patchMacros`         the patch loop + the final prepending of `patch_macros`
  * `joinContinuations`   the `while i != len(res)` loop at the end of `cleanup_macros`
  * `replaceDoWhile0`     `replace_do_while_0`

  Regex facts used (Python `re`, `str` patterns, no flags):
  * `\s` = `Py_UNICODE_ISSPACE` (`pySpace` below, the same set `str.strip()` removes);
  * `\w` = alphanumeric or `_`; the model uses the ASCII set (`isWordChar`), i.e. it agrees with
    Python on every input without non-ASCII alphanumerics;
  * `.` matches everything except `'\n'`;
  * `$` matches at the end or before a final `'\n'`; in `\\\s*$` the `\s*` can swallow that newline,
    so `\\\s*$` matches iff the text minus trailing whitespace ends in a backslash, and the (only)
    match starts at that LAST backslash.
-/
namespace Rzil.PPM

abbrev Line := List Char
abbrev Name := List Char
/-- An insertion-ordered Python `dict` name ↦ patch line. -/
abbrev Dict := List (Name × Line)

/-- `Py_UNICODE_ISSPACE`: what `\s` matches and what `str.strip()` strips. -/
def pySpace (c : Char) : Bool :=
  let n := c.toNat
  (9 ≤ n && n ≤ 13) || (28 ≤ n && n ≤ 32) || n == 0x85 || n == 0xA0 || n == 0x1680 ||
  (0x2000 ≤ n && n ≤ 0x200A) || n == 0x2028 || n == 0x2029 || n == 0x202F || n == 0x205F ||
  n == 0x3000

/-- `[\w_]` restricted to ASCII. -/
def isWordChar (c : Char) : Bool := c.isAlphanum || c == '_'

/-- `dropPrefix? p s = some r` iff `s = p ++ r` (a literal at the head of `s`). -/
def dropPrefix? : List Char → List Char → Option (List Char)
  | [], s => some s
  | _ :: _, [] => none
  | a :: p, b :: s => if a = b then dropPrefix? p s else none

def kwDefine : List Char := ['#', 'd', 'e', 'f', 'i', 'n', 'e']
def kwDo : List Char := ['d', 'o']
def kwWhile : List Char := ['w', 'h', 'i', 'l', 'e']
def kwZero : List Char := ['(', '0', ')']

/-! ## 1. macro names -/

/-- `re.search(r"^#define\s+([\w_]*).*", line)`: `none` when there is no match, else group 1.
    (`^` anchors at position 0; `\s+` and `[\w_]*` are greedy and never need to backtrack because
    `.*` matches the empty string.) -/
def macroName (line : Line) : Option Name :=
  match dropPrefix? kwDefine line with
  | none => none
  | some r =>
    match r with
    | [] => none
    | c :: r' =>
      if pySpace c then some ((r'.dropWhile pySpace).takeWhile isWordChar) else none

/-- `re.search(r"^#define", line)` -/
def startsWithDefine (line : Line) : Bool := (dropPrefix? kwDefine line).isSome

/-! ## 2. the patch dictionary and `patch_macros` -/

def dictGet : Dict → Name → Option Line
  | [], _ => none
  | (k, v) :: d, n => if k = n then some v else dictGet d n

/-- `patches.pop(n)` -/
def dictErase (d : Dict) (n : Name) : Dict := d.filter (fun e => decide (e.1 ≠ n))

/-- `patches[n] = l`: overwrite in place (keeps the first position) or append. -/
def dictSet : Dict → Name → Line → Dict
  | [], n, l => [(n, l)]
  | (k, v) :: d, n, l => if k = n then (k, l) :: d else (k, v) :: dictSet d n l

def dictOfPatchLinesAux : List Line → Dict → Option Dict
  | [], d => some d
  | l :: ls, d =>
    if startsWithDefine l then
      match macroName l with
      | none => none                                   -- `raise ValueError`
      | some n => dictOfPatchLinesAux ls (dictSet d n l)
    else dictOfPatchLinesAux ls d

/-- The `patches` dict of `patch_macros` from the lines `cont.split("\n")`.
    `none` = the Python raises `ValueError` (a `#define` line without whitespace after it). -/
def dictOfPatchLines (lines : List Line) : Option Dict := dictOfPatchLinesAux lines []

/-- `re.sub(r"\\\s*\n", "", cont)`: a backslash, its whitespace run up to the LAST newline of the run
    is deleted. State: `none` = scanning; `some buf` = inside the whitespace run after a backslash,
    `buf` (reversed) = the characters that are kept if no further newline follows. -/
def removeContNl : Option (List Char) → List Char → List Char
  | none, [] => []
  | some buf, [] => buf.reverse
  | none, c :: t => if c = '\\' then removeContNl (some ['\\']) t else c :: removeContNl none t
  | some buf, c :: t =>
    if c = '\n' then removeContNl (some []) t
    else if pySpace c then removeContNl (some (c :: buf)) t
    else buf.reverse ++
      (if c = '\\' then removeContNl (some ['\\']) t else c :: removeContNl none t)

/-- `s.split("\n")` -/
def splitNl : List Char → List Line
  | [] => [[]]
  | c :: t =>
    if c = '\n' then [] :: splitNl t
    else
      match splitNl t with
      | l :: ls => (c :: l) :: ls
      | [] => [[c]]

/-- The lines `cont.split("\n")` of `patch_macros` from the content of the patch file. -/
def patchLinesOfFile (cont : List Char) : List Line := splitNl (removeContNl none cont)

/-- The `for macro in macros` loop. State: the (shrinking) `patches` dict and the `succ_patched`
    key list. Result: the appended lines, the remaining patches, the final `succ_patched`.
    `none` = a macro line without a name (`AttributeError` on `None.group`). -/
def patchLoop (P : Dict) (S : List Name) : List Line → Option (List Line × Dict × List Name)
  | [] => some ([], P, S)
  | m :: ms =>
    match macroName m with
    | none => none
    | some n =>
      if n ∈ S then patchLoop P S ms
      else
        match dictGet P n with
        | some p => (patchLoop (dictErase P n) (n :: S) ms).map (fun r => (p :: r.1, r.2))
        | none => (patchLoop P S ms).map (fun r => (m :: r.1, r.2))

/-- `patch_macros` (after the dict has been built): the loop, then every remaining patch is
    inserted at the front one by one, so the remaining patches end up reversed in front. -/
def patchMacros (patches : Dict) (macros : List Line) : Option (List Line) :=
  (patchLoop patches [] macros).map (fun r => (r.2.1.map (·.2)).reverse ++ r.1)

/-! ## 3. continuation joining -/

/-- `re.search(r"\\\s*$", l)` is not `None`. -/
def endsCont (l : Line) : Bool :=
  match l.reverse.dropWhile pySpace with
  | c :: _ => c == '\\'
  | [] => false

/-- The text before the matched (last) backslash. -/
def contPrefix (l : Line) : Line := ((l.reverse.dropWhile pySpace).drop 1).reverse

/-- `str.strip()` -/
def strip (l : Line) : Line := ((l.dropWhile pySpace).reverse.dropWhile pySpace).reverse

/-- `re.sub(r"\\\s*$", " ", l).strip() + next` for a line `l` with `endsCont l`. -/
def mergeLine (l next : Line) : Line := strip (contPrefix l ++ [' ']) ++ next

/-- The loop with `res[i] = cur` and `rest = res[i+1:]`. -/
def joinFrom : Line → List Line → Option (List Line)
  | cur, [] => if endsCont cur then none else some [cur]
  | cur, nx :: rest =>
    if endsCont cur then joinFrom (mergeLine cur nx) rest
    else (joinFrom nx rest).map (cur :: ·)

/-- The continuation-joining loop of `cleanup_macros`; `none` = `IndexError` (the last line ends
    with a backslash). -/
def joinContinuations : List Line → Option (List Line)
  | [] => some []
  | l :: ls => joinFrom l ls

/-! ## 4. `replace_do_while_0` -/

/-- `}\s*while\s*\(0\)` anchored at the head of `t`; returns what follows `(0)`.
    (`\s*` is followed by a non-space literal, so it takes the maximal run.) -/
def closeAt (t : List Char) : Option (List Char) :=
  match t with
  | [] => none
  | c :: r =>
    if c = '}' then
      match dropPrefix? kwWhile (r.dropWhile pySpace) with
      | none => none
      | some r2 => dropPrefix? kwZero (r2.dropWhile pySpace)
    else none

/-- `(.*)}\s*while\s*\(0\)` anchored at the head of `t`: greedy `.*` (no newline) = the LAST `}` on
    the line at which `closeAt` succeeds. Returns (group 2, text after `(0)`). -/
def lastClose : List Char → Option (List Char × List Char)
  | [] => none
  | c :: t =>
    if c = '\n' then none
    else
      match lastClose t with
      | some (g, r) => some (c :: g, r)
      | none =>
        match closeAt (c :: t) with
        | some r => some ([], r)
        | none => none

/-- `do\s*\{(.*)}\s*while\s*\(0\)(.*)` anchored at the head of `t`: (group 2, group 3). -/
def openAt (t : List Char) : Option (List Char × List Char) :=
  match dropPrefix? kwDo t with
  | none => none
  | some r =>
    match r.dropWhile pySpace with
    | [] => none
    | c :: r2 =>
      if c = '{' then
        match lastClose r2 with
        | some (g2, r4) => some (g2, r4.takeWhile (fun c => decide (c ≠ '\n')))
        | none => none
      else none

/-- The whole regex anchored at the head of `t` (`re.match`): greedy group 1 = the LAST position on
    the first line at which `openAt` succeeds. Returns (group 1, group 2, group 3). -/
def lastOpen : List Char → Option (List Char × List Char × List Char)
  | [] => none
  | c :: t =>
    match (if c = '\n' then none else lastOpen t) with
    | some (g1, g2, g3) => some (c :: g1, g2, g3)
    | none =>
      match openAt (c :: t) with
      | some (g2, g3) => some ([], g2, g3)
      | none => none

/-- `re.search`, literally: the anchored match at the first start position that has one. -/
def reSearchNaive : List Char → Option (List Char × List Char × List Char)
  | [] => none
  | c :: t =>
    match lastOpen (c :: t) with
    | some r => some r
    | none => reSearchNaive t

/-- `re.search` trying only line starts (`atStart`): an anchored match that fails at a position
    fails at all later positions of the same line (`reSearch_eq_naive` in `Props/C20.lean`). -/
def reSearchGo : Bool → List Char → Option (List Char × List Char × List Char)
  | _, [] => none
  | atStart, c :: t =>
    match (if atStart then lastOpen (c :: t) else none) with
    | some r => some r
    | none => reSearchGo (c == '\n') t

def reSearch (s : List Char) : Option (List Char × List Char × List Char) := reSearchGo true s

/-- The `while m:` loop, `fuel` rounds at most. -/
def dwIter : Nat → List Char → List Char
  | 0, s => s
  | f + 1, s =>
    match reSearch s with
    | none => s
    | some (a, b, c) => dwIter f (a ++ b ++ c)

/-- `replace_do_while_0`. Each round strictly shortens the text, so `code.length` rounds suffice
    (`replaceDoWhile0_fixpoint`). -/
def replaceDoWhile0 (code : List Char) : List Char :=
  match reSearch code with
  | none => code
  | some (a, b, c) => dwIter code.length (a ++ b ++ c) ++ ['\n']

/-! ## `String` wrappers for the driver -/

def macroNameS (line : String) : Option String := (macroName line.toList).map String.ofList

def dictOfPatchLinesS (lines : List String) : Option (List (String × String)) :=
  (dictOfPatchLines (lines.map String.toList)).map
    (fun d => d.map (fun e => (String.ofList e.1, String.ofList e.2)))

def patchMacrosS (patches : List (String × String)) (macros : List String) : Option (List String) :=
  (patchMacros (patches.map (fun e => (e.1.toList, e.2.toList))) (macros.map String.toList)).map
    (fun o => o.map String.ofList)

/-- `patch_macros` from the patch lines (`cont.split("\n")`) and the macro lines. -/
def patchMacrosFromLinesS (patchLines macros : List String) : Option (List String) :=
  match dictOfPatchLines (patchLines.map String.toList) with
  | none => none
  | some d => (patchMacros d (macros.map String.toList)).map (fun o => o.map String.ofList)

/-- `patch_macros` from the content of the patch file and the macro lines. -/
def patchMacrosFromFileS (cont : String) (macros : List String) : Option (List String) :=
  match dictOfPatchLines (patchLinesOfFile cont.toList) with
  | none => none
  | some d => (patchMacros d (macros.map String.toList)).map (fun o => o.map String.ofList)

def joinContinuationsS (lines : List String) : Option (List String) :=
  (joinContinuations (lines.map String.toList)).map (fun o => o.map String.ofList)

def replaceDoWhile0S (code : String) : String := String.ofList (replaceDoWhile0 code.toList)

end Rzil.PPM
