import RzilVerif.Model.ILSort
/-
  Semantics of the emitted RzIL (DESIGN.md section 3.2): the specification side the theorems are about.
  Values are non-dependent (`Val.bv w x`), evaluators return `Except Stuck _`.
-/
namespace Rzil

inductive Val where
  | bv (w : Nat) (x : BitVec w)
  | bool (b : Bool)
  | flt (w : Nat) (x : BitVec w)
  | ext
deriving Repr, Inhabited, DecidableEq

inductive Stuck where
  | sort (msg : String)     -- ill-sorted operation
  | unbound (n : String)    -- read of an undefined local / LET name / parameter
  | fuel                    -- out of fuel
  | undef (msg : String)    -- unmodelled
deriving Repr, Inhabited, DecidableEq

def Val.sort : Val → ILSort
  | .bv w _ => .bv w
  | .bool _ => .bool
  | .flt w _ => .float w
  | .ext => .ext

/-- Machine state shared by the C side and the IL side. Registers are addressed by the operand
    variable's name (which names the architectural operand slot), values are stored as naturals and
    truncated to the operand's width on access. -/
structure MState where
  cur : String → Nat                      -- register values before the instruction
  new : String → Nat                      -- values written by this instruction (or initial temporaries)
  written : String → Bool
  mem : Nat → Nat                         -- byte-addressed memory (values < 256)
  locals : List (String × Val)
  imm : String → Nat                      -- immediate by letter
  pktAddr : Nat
  params : List (String × Val)            -- pure parameters (sub-routine bodies)
  stores : List Nat := []                 -- addresses stored to (observation aid: which cells to compare)

instance : Inhabited MState := ⟨⟨fun _ => 0, fun _ => 0, fun _ => false, fun _ => 0, [], fun _ => 0, 0, [], []⟩⟩

/-- Uninterpreted plugin macros: a function of the argument values (shared with the C side). -/
abbrev MacroSem := String → List Val → Option Val

/-- `CAST(w, fill, x)`: truncate, or extend filling the high part with `fill`. -/
def ilCast {n : Nat} (w : Nat) (fill : Bool) (x : BitVec n) : BitVec w :=
  if w ≤ n then x.setWidth w
  else if fill then x.setWidth w ||| (BitVec.allOnes w <<< n)
  else x.setWidth w

def ilDiv {w : Nat} (x y : BitVec w) : BitVec w := if y = 0 then BitVec.allOnes w else x / y
def ilMod {w : Nat} (x y : BitVec w) : BitVec w := if y = 0 then x else x % y

/-- `x <<< n`, computed without materialising `x.toNat <<< n` when the amount exceeds the width (an IL shift amount
    is an arbitrary bitvector value: the run-time `Nat.shiftLeft` cannot allocate 2^64 bits). -/
def shl {w : Nat} (x : BitVec w) (n : Nat) : BitVec w := if w ≤ n then 0#w else x <<< n

@[simp] theorem shl_eq {w : Nat} (x : BitVec w) (n : Nat) : shl x n = x <<< n := by
  unfold shl
  split
  · next h => exact (BitVec.shiftLeft_eq_zero h).symm
  · rfl

def evalBin (op : BinOp) (a b : Val) : Except Stuck Val :=
  match a, b with
  | .bv wa x, .bv wb y =>
    if isShift op then
      match op with
      | .shiftl0 => .ok (.bv wa (shl x y.toNat))
      | .shiftr0 => .ok (.bv wa (x >>> y.toNat))
      | _ => .ok (.bv wa (x.sshiftRight y.toNat))
    else if h : wa = wb then
      let y' : BitVec wa := h ▸ y
      match op with
      | .add => .ok (.bv wa (x + y'))
      | .sub => .ok (.bv wa (x - y'))
      | .mul => .ok (.bv wa (x * y'))
      | .div => .ok (.bv wa (ilDiv x y'))
      | .mod => .ok (.bv wa (ilMod x y'))
      | .logand => .ok (.bv wa (x &&& y'))
      | .logor => .ok (.bv wa (x ||| y'))
      | .logxor => .ok (.bv wa (x ^^^ y'))
      | .eq => .ok (.bool (x == y'))
      | .ult => .ok (.bool (x.ult y'))
      | .ule => .ok (.bool (x.ule y'))
      | .ugt => .ok (.bool (y'.ult x))
      | .uge => .ok (.bool (y'.ule x))
      | .slt => .ok (.bool (x.slt y'))
      | .sle => .ok (.bool (x.sle y'))
      | .sgt => .ok (.bool (y'.slt x))
      | .sge => .ok (.bool (y'.sle x))
      | op => .error (.sort s!"{op.name} on bitvectors")
    else .error (.sort s!"{op.name} on widths {wa} and {wb}")
  | .bool x, .bool y =>
    match op with
    | .and => .ok (.bool (x && y))
    | .or => .ok (.bool (x || y))
    | op => .error (.sort s!"{op.name} on booleans")
  | _, _ => .error (.sort s!"{op.name} on mixed sorts")

def evalUn (op : UnOp) (a : Val) : Except Stuck Val :=
  match op, a with
  | .lognot, .bv w x => .ok (.bv w (~~~x))
  | .neg, .bv w x => .ok (.bv w (-x))
  | .msb, .bv _ x => .ok (.bool x.msb)
  | .nonZero, .bv _ x => .ok (.bool (x.toNat != 0))
  | .inv, .bool b => .ok (.bool (!b))
  | op, _ => .error (.sort s!"{op.name}")

/-- little-endian load of `nbytes` bytes -/
def loadBytes (mem : Nat → Nat) (addr : Nat) : Nat → Nat
  | 0 => 0
  | k+1 => (mem addr % 256) + 256 * loadBytes mem (addr + 1) k

def storeBytes (mem : Nat → Nat) (addr : Nat) (v : Nat) : Nat → (Nat → Nat)
  | 0 => mem
  | k+1 => storeBytes (fun a => if a = addr then v % 256 else mem a) (addr + 1) (v / 256) k

mutual
def evalPure (ms : MacroSem) (σ : MState) (lets : List (String × Val)) : ILPure → Except Stuck Val
  | .const _ w v => .ok (.bv w (BitVec.ofInt w v))
  | .imm _ w _ l => .ok (.bv w (BitVec.ofNat w (σ.imm l)))
  | .btrue => .ok (.bool true)
  | .bfalse => .ok (.bool false)
  | .varl n => match lookupS n σ.locals with
      | some v => .ok v
      | none => .error (.unbound n)
  | .varlp n => match lookupS n lets with
      | some v => .ok v
      | none => .error (.unbound n)
  | .readReg r nw => match regWidthOfOpvar r.opvar with
      | some w =>
          let v := if nw || σ.written r.opvar then σ.new r.opvar else σ.cur r.opvar
          .ok (.bv w (BitVec.ofNat w v))
      | none => .error (.sort s!"operand {r.opvar}")
  | .pktAddr => .ok (.bv 32 (BitVec.ofNat 32 σ.pktAddr))
  | .param n => match lookupS n σ.params with
      | some v => .ok v
      | none => if n == "hi" || n == "pkt" || n == "bundle" || isPluginConst n || n.endsWith "_op" then .ok .ext
                else .error (.unbound n)
  | .un op a => do
      let va ← evalPure ms σ lets a
      evalUn op va
  | .bin op a b => do
      let va ← evalPure ms σ lets a
      let vb ← evalPure ms σ lets b
      evalBin op va vb
  | .cast w f a => do
      let vf ← evalPure ms σ lets f
      let va ← evalPure ms σ lets a
      match vf, va with
      | .bool fb, .bv _ x => .ok (.bv w (ilCast w fb x))
      | _, _ => .error (.sort "CAST")
  | .signed w a => do
      let va ← evalPure ms σ lets a
      match va with
      | .bv _ x => .ok (.bv w (ilCast w x.msb x))
      | _ => .error (.sort "SIGNED")
  | .unsigned w a => do
      let va ← evalPure ms σ lets a
      match va with
      | .bv _ x => .ok (.bv w (ilCast w false x))
      | _ => .error (.sort "UNSIGNED")
  | .ite c a b => do
      let vc ← evalPure ms σ lets c
      let va ← evalPure ms σ lets a
      let vb ← evalPure ms σ lets b
      match vc with
      | .bool cb => if va.sort == vb.sort then .ok (if cb then va else vb) else .error (.sort "ITE arms")
      | _ => .error (.sort "ITE condition")
  | .let_ n v body => do
      let vv ← evalPure ms σ lets v
      evalPure ms σ ((n, vv) :: lets) body
  | .loadw n a => do
      let va ← evalPure ms σ lets a
      match va with
      | .bv _ x => .ok (.bv n (BitVec.ofNat n (loadBytes σ.mem x.toNat (n / 8))))
      | _ => .error (.sort "LOADW")
  | .inc a w => do
      let va ← evalPure ms σ lets a
      match va with
      | .bv w' x => if w' = w then .ok (.bv w' (x + 1)) else .error (.sort "INC")
      | _ => .error (.sort "INC")
  | .dec a w => do
      let va ← evalPure ms σ lets a
      match va with
      | .bv w' x => if w' = w then .ok (.bv w' (x - 1)) else .error (.sort "DEC")
      | _ => .error (.sort "DEC")
  | .macro f args => do
      let vs ← evalPures ms σ lets args
      match ms f vs with
      | some v => .ok v
      | none => .error (.undef f)
  | .ext _ => .ok .ext
def evalPures (ms : MacroSem) (σ : MState) (lets : List (String × Val)) : List ILPure → Except Stuck (List Val)
  | [] => .ok []
  | a :: as => do
      let v ← evalPure ms σ lets a
      let vs ← evalPures ms σ lets as
      .ok (v :: vs)
end

def setLocal (locals : List (String × Val)) (n : String) (v : Val) : List (String × Val) :=
  (n, v) :: locals.filter (fun p => p.1 != n)

/-! ### specification-level sub-routines

  `set_usr_field(bundle, FIELD, v)` is read at the level of its specification: it writes the 32-bit value `v` to an
  abstract cell of the machine state named after the field (`"usr:" ++ FIELD`, kept in `new`/`written` like an operand
  slot).  The compiled body of `hex_set_usr_field` itself (a `deposit64` into the USR register through `REGFIELD`)
  is NOT interpreted here; it keeps being checked per output only (sort / well-formedness / ownership).
  `Val.ext` carries no payload, so the field is read from the SYNTAX of the pass-through argument. -/

def usrCell (field : String) : String := "usr:" ++ field

/-- the identifier a pass-through (non-IL) argument consists of: `bundle`, `HEX_REG_FIELD_USR_OVF`
    (`.param` is what reading the emitted text gives, `.ext (.id _)` what the lowering model builds) -/
def extName : ILPure → Option String
  | .param n => some n
  | .ext (.id n) => some n
  | _ => none

/-- the write of `v` (32 bit) to the abstract cell of `field`.  A value of another sort is outside this reading
    (`undef`, not a sort error of the IL: the prototype of the routine is checked per output by `wfEffect` against
    the signature of the compiled body). -/
def writeUsr (σ : MState) (field : String) (v : Val) : Except Stuck MState :=
  match v with
  | .bv w x =>
      if w = 32 then
        .ok { σ with new := fun k => if k == usrCell field then x.toNat else σ.new k,
                     written := fun k => if k == usrCell field then true else σ.written k }
      else .error (.undef "set_usr_field: value is not 32 bit wide")
  | _ => .error (.undef "set_usr_field: value is not a bit-vector")

/-- `hex_set_usr_field(bundle, FIELD, v)` on evaluated arguments -/
def setUsrFieldIL (σ : MState) (args : List ILPure) (vs : List Val) : Except Stuck MState :=
  match args.map extName, vs with
  | [_, some n, _], [_, _, v] => writeUsr σ n v
  | _, _ => .error (.undef "set_usr_field: argument list")

/-! `get_usr_field(bundle, FIELD)` is read at the same specification level (TRUSTED, not verified against the compiled
  body of `hex_get_usr_field`, an `extract64` from USR through `REGFIELD`): it returns the 32-bit content of the
  abstract cell of the field — what this instruction wrote to it (`set_usr_field`), else its value before the
  instruction (the reading the operand slots of read-write registers have, `readReg`). -/

/-- the content of the abstract cell of `field` -/
def readUsr (σ : MState) (field : String) : Nat :=
  if σ.written (usrCell field) then σ.new (usrCell field) else σ.cur (usrCell field)

/-- the value `get_usr_field(bundle, field)` returns (`uint32_t`) -/
def usrVal (σ : MState) (field : String) : BitVec 32 := BitVec.ofNat 32 (readUsr σ field)

/-- `hex_get_usr_field(bundle, FIELD)`: the return value goes to `ret_val` (64 bit, like the `set_return_val` of a
    compiled body: `CAST(64, IL_FALSE, …)`) -/
def getUsrFieldIL (σ : MState) (args : List ILPure) : Except Stuck MState :=
  match args.map extName with
  | [_, some n] => .ok { σ with locals := setLocal σ.locals "ret_val" (.bv 64 ((usrVal σ n).setWidth 64)) }
  | _ => .error (.undef "get_usr_field: argument list")

/-- Compiled sub-routine bodies: name ↦ (parameter names, body). -/
abbrev SubEnv := List (String × (List String × ILEffect))

mutual
/-- Execution with fuel (consumed by loop iterations and calls). -/
def execIL (ms : MacroSem) (subs : SubEnv) : Nat → ILEffect → MState → Except Stuck MState
  | 0, _, _ => .error .fuel
  | fuel+1, e, σ =>
    match e with
    | .setl n v => do
        let vv ← evalPure ms σ [] v
        .ok { σ with locals := setLocal σ.locals n vv }
    | .writeReg _ r v => do
        let vv ← evalPure ms σ [] v
        match vv, regWidthOfOpvar r.opvar with
        | .bv w x, some wr =>
            if w = wr then
              .ok { σ with new := fun k => if k == r.opvar then x.toNat else σ.new k,
                           written := fun k => if k == r.opvar then true else σ.written k }
            else .error (.sort s!"WRITE_REG width {w} to {wr}")
        | _, _ => .error (.sort "WRITE_REG")
    | .storew a v => do
        let va ← evalPure ms σ [] a
        let vv ← evalPure ms σ [] v
        match va, vv with
        | .bv _ x, .bv w y => .ok { σ with mem := storeBytes σ.mem x.toNat y.toNat (w / 8), stores := x.toNat :: σ.stores }
        | _, _ => .error (.sort "STOREW")
    | .seqn es => execSeq ms subs fuel es σ
    | .branch c t e => do
        let vc ← evalPure ms σ [] c
        match vc with
        | .bool true => execIL ms subs fuel t σ
        | .bool false => execIL ms subs fuel e σ
        | _ => .error (.sort "BRANCH condition")
    | .repeat_ c body => do
        let vc ← evalPure ms σ [] c
        match vc with
        | .bool true => do
            let σ' ← execIL ms subs fuel body σ
            execIL ms subs fuel (.repeat_ c body) σ'
        | .bool false => .ok σ
        | _ => .error (.sort "REPEAT condition")
    | .empty => .ok σ
    | .nop => .ok σ
    | .call f args => do
        let vs ← evalPures ms σ [] args
        if f.startsWith "hex_" then
          match lookupS (f.drop 4).toString subs with
          | some (ps, body) => do
              let σ' ← execIL ms subs fuel body { σ with params := ps.zip vs }
              .ok { σ' with params := σ.params }
          | none =>
              -- no compiled body supplied: the specification-level routines
              if f == "hex_set_usr_field" then setUsrFieldIL σ args vs
              else if f == "hex_get_usr_field" then getUsrFieldIL σ args
              else .error (.undef f)
        else if f == "HEX_STORE_SLOT_CANCELLED" then
          .ok { σ with locals := setLocal σ.locals "$slot_cancelled" (.bool true) }
        else if f == "HEX_GET_NPC" then
          -- `get_npc(pkt)`: specification-level reading (TRUSTED), the address behind the packet, taken as the
          -- packet address + 4 on both sides (`CSemH.lean: specCallC`)
          .ok { σ with locals := setLocal σ.locals "ret_val" (.bv 64 (BitVec.ofNat 64 (σ.pktAddr + 4))) }
        else .error (.undef f)
def execSeq (ms : MacroSem) (subs : SubEnv) : Nat → List ILEffect → MState → Except Stuck MState
  | 0, _, _ => .error .fuel
  | _+1, [], σ => .ok σ
  | fuel+1, e :: es, σ => do
      let σ' ← execIL ms subs fuel e σ
      execSeq ms subs fuel es σ'
end

end Rzil
