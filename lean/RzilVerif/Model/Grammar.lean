/-!
# C17 — reference precedence parser / minimal-parenthesis printer for the expression tower
of `Resources/Hexagon/grammar.lark` (a modified C11 grammar).

Numbering of the precedence levels used by printer and parser (`0` = loosest):

| level | grammar rule            | shape                                              |
|-------|-------------------------|----------------------------------------------------|
| 0     | `assignment_expr`       | `unary_expr ASSIGN_OP assignment_expr` (right)     |
| 1     | `conditional_expr`      | `logical_or_expr ? expr : conditional_expr` (right)|
| 2..11 | `logical_or` … `multiplicative` | `L : N | L OP N` (left), level = `binLevel op + 2` |
| 12    | `cast_expr`             | `( type ) cast_expr`                               |
| 13    | `unary_expr`            | `UNARY_OP cast_expr`                               |
| 14    | `postfix_expr`          | `postfix_expr INC_OP/DEC_OP`                       |
| 15    | `primary_expr`, `sub_routine` | atom, `( expr )`, `f ( args )`               |

Core Lean only; everything is total and executable.
-/
namespace Rzil.Grammar

/-- Expression trees.  Parentheses are not represented: the printer re-inserts the minimal ones. -/
inductive CExpr where
  | atom (s : String)
  | call (f : String) (args : List CExpr)
  | post (op : String) (a : CExpr)
  | un (op : String) (a : CExpr)
  | cast (ty : String) (a : CExpr)
  | bin (op : String) (a b : CExpr)
  | tern (c a b : CExpr)
  | assign (op : String) (a b : CExpr)
  deriving Repr, Inhabited

mutual
/-- Structural equality test (`DecidableEq` cannot be derived for the nested inductive). -/
def CExpr.beq : CExpr → CExpr → Bool
  | .atom s, .atom t => s == t
  | .call f as, .call g bs => f == g && CExpr.beqs as bs
  | .post o a, .post o' a' => o == o' && CExpr.beq a a'
  | .un o a, .un o' a' => o == o' && CExpr.beq a a'
  | .cast t a, .cast t' a' => t == t' && CExpr.beq a a'
  | .bin o a b, .bin o' a' b' => o == o' && CExpr.beq a a' && CExpr.beq b b'
  | .tern c a b, .tern c' a' b' => CExpr.beq c c' && CExpr.beq a a' && CExpr.beq b b'
  | .assign o a b, .assign o' a' b' => o == o' && CExpr.beq a a' && CExpr.beq b b'
  | _, _ => false
def CExpr.beqs : List CExpr → List CExpr → Bool
  | [], [] => true
  | a :: as, b :: bs => CExpr.beq a b && CExpr.beqs as bs
  | _, _ => false
end

mutual
theorem CExpr.eq_of_beq : ∀ (a b : CExpr), CExpr.beq a b = true → a = b
  | .atom s, .atom t, h => by simp [CExpr.beq] at h; simp [h]
  | .call f as, .call g bs, h => by
      simp [CExpr.beq] at h; simp [h.1, CExpr.eqs_of_beqs as bs h.2]
  | .post o a, .post o' a', h => by
      simp [CExpr.beq] at h; simp [h.1, CExpr.eq_of_beq a a' h.2]
  | .un o a, .un o' a', h => by
      simp [CExpr.beq] at h; simp [h.1, CExpr.eq_of_beq a a' h.2]
  | .cast o a, .cast o' a', h => by
      simp [CExpr.beq] at h; simp [h.1, CExpr.eq_of_beq a a' h.2]
  | .bin o a b, .bin o' a' b', h => by
      simp [CExpr.beq] at h
      simp [h.1.1, CExpr.eq_of_beq a a' h.1.2, CExpr.eq_of_beq b b' h.2]
  | .tern c a b, .tern c' a' b', h => by
      simp [CExpr.beq] at h
      simp [CExpr.eq_of_beq c c' h.1.1, CExpr.eq_of_beq a a' h.1.2, CExpr.eq_of_beq b b' h.2]
  | .assign o a b, .assign o' a' b', h => by
      simp [CExpr.beq] at h
      simp [h.1.1, CExpr.eq_of_beq a a' h.1.2, CExpr.eq_of_beq b b' h.2]
  | .atom _, .call .., h | .atom _, .post .., h | .atom _, .un .., h | .atom _, .cast .., h
  | .atom _, .bin .., h | .atom _, .tern .., h | .atom _, .assign .., h => by simp [CExpr.beq] at h
  | .call .., .atom _, h | .call .., .post .., h | .call .., .un .., h | .call .., .cast .., h
  | .call .., .bin .., h | .call .., .tern .., h | .call .., .assign .., h => by simp [CExpr.beq] at h
  | .post .., .atom _, h | .post .., .call .., h | .post .., .un .., h | .post .., .cast .., h
  | .post .., .bin .., h | .post .., .tern .., h | .post .., .assign .., h => by simp [CExpr.beq] at h
  | .un .., .atom _, h | .un .., .call .., h | .un .., .post .., h | .un .., .cast .., h
  | .un .., .bin .., h | .un .., .tern .., h | .un .., .assign .., h => by simp [CExpr.beq] at h
  | .cast .., .atom _, h | .cast .., .call .., h | .cast .., .post .., h | .cast .., .un .., h
  | .cast .., .bin .., h | .cast .., .tern .., h | .cast .., .assign .., h => by simp [CExpr.beq] at h
  | .bin .., .atom _, h | .bin .., .call .., h | .bin .., .post .., h | .bin .., .un .., h
  | .bin .., .cast .., h | .bin .., .tern .., h | .bin .., .assign .., h => by simp [CExpr.beq] at h
  | .tern .., .atom _, h | .tern .., .call .., h | .tern .., .post .., h | .tern .., .un .., h
  | .tern .., .cast .., h | .tern .., .bin .., h | .tern .., .assign .., h => by simp [CExpr.beq] at h
  | .assign .., .atom _, h | .assign .., .call .., h | .assign .., .post .., h | .assign .., .un .., h
  | .assign .., .cast .., h | .assign .., .bin .., h | .assign .., .tern .., h => by simp [CExpr.beq] at h
theorem CExpr.eqs_of_beqs : ∀ (as bs : List CExpr), CExpr.beqs as bs = true → as = bs
  | [], [], _ => rfl
  | a :: as, b :: bs, h => by
      simp [CExpr.beqs] at h; simp [CExpr.eq_of_beq a b h.1, CExpr.eqs_of_beqs as bs h.2]
  | [], _ :: _, h | _ :: _, [], h => by simp [CExpr.beqs] at h
end

mutual
theorem CExpr.beq_refl : ∀ (a : CExpr), CExpr.beq a a = true
  | .atom _ => by simp [CExpr.beq]
  | .call _ as => by simp [CExpr.beq, CExpr.beqs_refl as]
  | .post _ a | .un _ a | .cast _ a => by simp [CExpr.beq, CExpr.beq_refl a]
  | .bin _ a b | .assign _ a b => by simp [CExpr.beq, CExpr.beq_refl a, CExpr.beq_refl b]
  | .tern c a b => by simp [CExpr.beq, CExpr.beq_refl a, CExpr.beq_refl b, CExpr.beq_refl c]
theorem CExpr.beqs_refl : ∀ (as : List CExpr), CExpr.beqs as as = true
  | [] => rfl
  | a :: as => by simp [CExpr.beqs, CExpr.beq_refl a, CExpr.beqs_refl as]
end

instance : DecidableEq CExpr := fun a b =>
  if h : CExpr.beq a b = true then isTrue (CExpr.eq_of_beq a b h)
  else isFalse (fun e => h (e ▸ CExpr.beq_refl a))

/-- Tokens.  A cast `( T )` is the three tokens `lp, ty T, rp`; `?`, `:` and `,` are `op "?"`,
    `op ":"`, `op ","`. -/
inductive GTok where
  | atom (s : String)
  | op (s : String)
  | lp
  | rp
  | ty (s : String)
  deriving DecidableEq, Repr, Inhabited

/-- Classification of operator strings that may FOLLOW a complete operand. -/
inductive OpKind where
  | bin (l : Nat)
  | assign
  | post
  | quest
  | other
  deriving DecidableEq, Repr

def opKind : String → OpKind
  | "||" => .bin 0
  | "&&" => .bin 1
  | "|" => .bin 2
  | "^" => .bin 3
  | "&" => .bin 4
  | "==" | "!=" => .bin 5
  | "<" | ">" | "<=" | ">=" => .bin 6
  | "<<" | ">>" => .bin 7
  | "+" | "-" => .bin 8
  | "*" | "/" | "%" => .bin 9
  | "=" | "+=" | "-=" | "*=" | "/=" | "%=" | "<<=" | ">>=" | "&=" | "^=" | "|=" => .assign
  | "++" | "--" => .post
  | "?" => .quest
  | _ => .other

/-- Level of a binary operator: `0` = `||` … `9` = multiplicative; `none` for non-binary strings. -/
def binLevel (s : String) : Option Nat :=
  match opKind s with
  | .bin l => some l
  | _ => none

def isAssignOp (s : String) : Bool := opKind s == .assign
def isPostOp (s : String) : Bool := opKind s == .post
/-- Prefix operators (`UNARY_OP`). -/
def isUnOp (s : String) : Bool := s == "-" || s == "~" || s == "!" || s == "+"

/-- Precedence level of the top constructor (see the table in the module doc). -/
def prec : CExpr → Nat
  | .atom _ => 15
  | .call _ _ => 15
  | .post _ _ => 14
  | .un _ _ => 13
  | .cast _ _ => 12
  | .bin op _ _ => (match binLevel op with | some l => l + 2 | none => 2)
  | .tern _ _ _ => 1
  | .assign _ _ _ => 0

/-- Parenthesise token list `l` of an expression of level `p` when the context requires level `c`. -/
def paren (c p : Nat) (l : List GTok) : List GTok :=
  if c ≤ p then l else .lp :: l ++ [.rp]

mutual
/-- Tokens of `e` WITHOUT outer parentheses. -/
def body : CExpr → List GTok
  | .atom s => [.atom s]
  | .call f args => .atom f :: .lp :: bodyArgs args ++ [.rp]
  | .post op a => paren 14 (prec a) (body a) ++ [.op op]
  | .un op a => .op op :: paren 12 (prec a) (body a)
  | .cast t a => .lp :: .ty t :: .rp :: paren 12 (prec a) (body a)
  | .bin op a b =>
      paren (prec (.bin op a b)) (prec a) (body a) ++ .op op ::
        paren (prec (.bin op a b) + 1) (prec b) (body b)
  | .tern c a b =>
      paren 2 (prec c) (body c) ++ .op "?" :: paren 0 (prec a) (body a) ++ .op ":" ::
        paren 1 (prec b) (body b)
  | .assign op a b => paren 13 (prec a) (body a) ++ .op op :: paren 0 (prec b) (body b)
/-- Comma separated argument list (each argument is an `assignment_expr`, level 0). -/
def bodyArgs : List CExpr → List GTok
  | [] => []
  | [a] => body a
  | a :: b :: rest => body a ++ .op "," :: bodyArgs (b :: rest)
end

/-- Print `e` in a context that requires level `c`: parentheses exactly when `prec e < c`. -/
def pr (c : Nat) (e : CExpr) : List GTok := paren c (prec e) (body e)

/-- Minimal-parenthesis printer. -/
def printE (e : CExpr) : List GTok := pr 0 e

/-- Parser result: tree, "was derived as a `unary_expr`" flag (needed for the left side of an
    assignment), remaining tokens. -/
abbrev PRes := CExpr × Bool × List GTok

mutual
/-- `pExpr fuel k ts`: parse one expression of level `k` (see table) from the front of `ts`. -/
def pExpr : Nat → Nat → List GTok → Option PRes
  | 0, _, _ => none
  | f + 1, k, ts =>
    if k = 0 then
      -- assignment_expr : conditional_expr | unary_expr ASSIGN_OP assignment_expr
      match pExpr f 1 ts with
      | some (x, u, .op s :: r) =>
          if u && isAssignOp s then
            match pExpr f 0 r with
            | some (y, _, r') => some (.assign s x y, false, r')
            | none => none
          else some (x, u, .op s :: r)
      | res => res
    else if k = 1 then
      -- conditional_expr : logical_or_expr | logical_or_expr "?" expr ":" conditional_expr
      match pExpr f 2 ts with
      | some (x, u, .op s :: r) =>
          if s = "?" then
            match pExpr f 0 r with
            | some (a, _, .op s' :: r') =>
                if s' = ":" then
                  match pExpr f 1 r' with
                  | some (b, _, r'') => some (.tern x a b, false, r'')
                  | none => none
                else none
            | _ => none
          else some (x, u, .op s :: r)
      | res => res
    else if k ≤ 11 then
      -- binary level : next level, then the loop of this level
      match pExpr f (k + 1) ts with
      | some (x, u, r) => pMany f k x u r
      | none => none
    else if k = 12 then
      -- cast_expr : unary_expr | "(" type_name ")" cast_expr
      match ts with
      | .lp :: .ty t :: .rp :: r =>
          (match pExpr f 12 r with
           | some (a, _, r') => some (.cast t a, false, r')
           | none => none)
      | _ => pExpr f 13 ts
    else if k = 13 then
      -- unary_expr : postfix_expr | UNARY_OP cast_expr
      match ts with
      | .op s :: r =>
          if isUnOp s then
            match pExpr f 12 r with
            | some (a, _, r') => some (.un s a, true, r')
            | none => none
          else none
      | _ => pExpr f 14 ts
    else if k = 14 then
      -- postfix_expr : primary_expr | postfix_expr INC_OP | postfix_expr DEC_OP
      match pExpr f 15 ts with
      | some (x, u, r) => pPost f x u r
      | none => none
    else
      -- primary_expr : atom | "(" expr ")"      sub_routine : identifier "(" [args] ")"
      match ts with
      | .atom s :: .lp :: .rp :: r => some (.call s [], true, r)
      | .atom s :: .lp :: r =>
          (match pArgs f r with
           | some (es, r') => some (.call s es, true, r')
           | none => none)
      | .atom s :: r => some (.atom s, true, r)
      | .lp :: r =>
          (match pExpr f 0 r with
           | some (x, _, .rp :: r') => some (x, true, r')
           | _ => none)
      | _ => none
/-- Loop of binary level `k` (2..11): consume `op` of that level and a level-`k+1` operand. -/
def pMany : Nat → Nat → CExpr → Bool → List GTok → Option PRes
  | 0, _, _, _, _ => none
  | f + 1, k, lhs, u, ts =>
    match ts with
    | .op s :: r =>
        if binLevel s = some (k - 2) then
          match pExpr f (k + 1) r with
          | some (b, _, r') => pMany f k (.bin s lhs b) false r'
          | none => none
        else some (lhs, u, ts)
    | _ => some (lhs, u, ts)
/-- Postfix loop. -/
def pPost : Nat → CExpr → Bool → List GTok → Option PRes
  | 0, _, _, _ => none
  | f + 1, lhs, u, ts =>
    match ts with
    | .op s :: r => if isPostOp s then pPost f (.post s lhs) true r else some (lhs, u, ts)
    | _ => some (lhs, u, ts)
/-- Non-empty argument list up to and including the closing parenthesis. -/
def pArgs : Nat → List GTok → Option (List CExpr × List GTok)
  | 0, _ => none
  | f + 1, ts =>
    match pExpr f 0 ts with
    | some (e, _, .op s :: r) =>
        if s = "," then
          match pArgs f r with
          | some (es, r') => some (e :: es, r')
          | none => none
        else none
    | some (e, _, .rp :: r) => some ([e], r)
    | _ => none
end

/-- Recursive-descent reference parser: one `assignment_expr` from the front of the token list. -/
def refParse (fuel : Nat) (ts : List GTok) : Option (CExpr × List GTok) :=
  match pExpr fuel 0 ts with
  | some (e, _, r) => some (e, r)
  | none => none

/-- Fuel that is always sufficient for printer output (theorem `refParse_print`). -/
def fuelFor (ts : List GTok) : Nat := ts.length * 20 + 20

/-- Parse a complete token list (all input must be consumed). -/
def refParseAll (ts : List GTok) : Option CExpr :=
  match refParse (fuelFor ts) ts with
  | some (e, []) => some e
  | _ => none

mutual
/-- Well-formedness: operator strings come from the tables. -/
def WF : CExpr → Bool
  | .atom _ => true
  | .call _ args => WFs args
  | .post op a => isPostOp op && WF a
  | .un op a => isUnOp op && WF a
  | .cast _ a => WF a
  | .bin op a b => (binLevel op).isSome && WF a && WF b
  | .tern c a b => WF c && WF a && WF b
  | .assign op a b => isAssignOp op && WF a && WF b
def WFs : List CExpr → Bool
  | [] => true
  | a :: rest => WF a && WFs rest
end

end Rzil.Grammar
