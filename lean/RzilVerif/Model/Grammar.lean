/-!
# C17 — reference parser / minimal printer for the expression tower and the statement level
of `Resources/Hexagon/grammar.lark` (a modified C11 grammar).

Numbering of the precedence levels used by printer and parser (`0` = loosest):

| level | grammar rule            | shape                                              |
|-------|-------------------------|----------------------------------------------------|
| 0     | `assignment_expr`       | `unary_expr ASSIGN_OP assignment_expr` (right)     |
| 1     | `conditional_expr`      | `logical_or_expr ? expr : conditional_expr` (right)|
| 2..11 | `logical_or` … `multiplicative` | `L : N | L OP N` (left), level = `binLevel op + 2` |
| 12    | `cast_expr`             | `( type ) cast_expr`                               |
| 13    | `unary_expr`            | `UNARY_OP cast_expr`                               |
| 14    | `postfix_expr`          | `postfix_expr INC_OP/DEC_OP`                       |
| 15    | `primary_expr`, `sub_routine` | atom, `( expr )`, `f ( args )`, `( { block_item* expr ; } )` |

Statement level (`CStmt`, `prS`, `pStmt`/`pItem`/`pItems`, `refParseStmt`):

| grammar rule        | shape                                                                  |
|---------------------|------------------------------------------------------------------------|
| `expr_stmt`         | `expr ;`  or the empty statement `;`                                   |
| `compound_stmt`     | `{ block_item* }`, `block_item : declaration | stmt`                   |
| `selection_stmt`    | `if ( expr ) stmt [else stmt]` — an `else` belongs to the NEAREST `if` |
| `iteration_stmt`    | `for ( expr ; expr ; expr ) stmt`                                      |
| `declaration`       | `T x ;`  or  `T x = assignment_expr ;` (block item only; `T` a `ty` token) |
| `gcc_extended_expr` | `( { block_item* expr ; } )` as a primary expression                   |

Expressions and statements are mutually recursive (types, printers, parsers, well-formedness).
C's rules, not Lark's ambiguity resolution, are implemented: nearest-`if` else binding, no optional
`;` after `}`, declarations recognised by the leading type token.

Core Lean only; everything is total and executable.
-/
namespace Rzil.Grammar

mutual
/-- Expression trees.  Parentheses are not represented: the printer re-inserts the minimal ones.
    `stmtExpr items e` is the GCC statement-expression `({ items e; })` (a primary expression), so
    expressions and statements are mutually recursive. -/
inductive CExpr where
  | atom (s : String)
  | call (f : String) (args : List CExpr)
  | post (op : String) (a : CExpr)
  | un (op : String) (a : CExpr)
  | cast (ty : String) (a : CExpr)
  | bin (op : String) (a b : CExpr)
  | tern (c a b : CExpr)
  | assign (op : String) (a b : CExpr)
  | stmtExpr (items : List CStmt) (e : CExpr)
  deriving Repr, Inhabited
/-- Statement trees.  `decl`/`declInit` are block items (`T x;`, `T x = e;`), not statements: the
    parser accepts them only directly inside `{ }` (predicate `SWFp`). -/
inductive CStmt where
  | expr (e : CExpr)
  | empty
  | block (items : List CStmt)
  | if_ (c : CExpr) (t : CStmt)
  | ifElse (c : CExpr) (t e : CStmt)
  | for_ (i c s : CExpr) (b : CStmt)
  | decl (ty x : String)
  | declInit (ty x : String) (e : CExpr)
  deriving Repr, Inhabited
end

/-- Induction principle for the mutual, nested inductives `CExpr` / `CStmt`. -/
theorem CExpr.ind2 {P : CExpr → Prop} {S : CStmt → Prop}
    (atom : ∀ s, P (.atom s))
    (call : ∀ f args, (∀ a ∈ args, P a) → P (.call f args))
    (post : ∀ o a, P a → P (.post o a))
    (un : ∀ o a, P a → P (.un o a))
    (cast : ∀ t a, P a → P (.cast t a))
    (bin : ∀ o a b, P a → P b → P (.bin o a b))
    (tern : ∀ c a b, P c → P a → P b → P (.tern c a b))
    (assign : ∀ o a b, P a → P b → P (.assign o a b))
    (stmtExpr : ∀ items e, (∀ s ∈ items, S s) → P e → P (.stmtExpr items e))
    (expr : ∀ e, P e → S (.expr e))
    (empty : S .empty)
    (block : ∀ items, (∀ s ∈ items, S s) → S (.block items))
    (if_ : ∀ c t, P c → S t → S (.if_ c t))
    (ifElse : ∀ c t e, P c → S t → S e → S (.ifElse c t e))
    (for_ : ∀ i c s b, P i → P c → P s → S b → S (.for_ i c s b))
    (decl : ∀ t x, S (.decl t x))
    (declInit : ∀ t x e, P e → S (.declInit t x e)) : (∀ e, P e) ∧ (∀ s, S s) := by
  have hnilE : ∀ a ∈ ([] : List CExpr), P a := by intro a h; cases h
  have hnilS : ∀ a ∈ ([] : List CStmt), S a := by intro a h; cases h
  have hconsE : ∀ hd tl, P hd → (∀ a ∈ tl, P a) → ∀ a ∈ hd :: tl, P a := by
    intro hd tl h1 h2 a ha
    cases ha with
    | head => exact h1
    | tail _ h => exact h2 a h
  have hconsS : ∀ hd tl, S hd → (∀ a ∈ tl, S a) → ∀ a ∈ hd :: tl, S a := by
    intro hd tl h1 h2 a ha
    cases ha with
    | head => exact h1
    | tail _ h => exact h2 a h
  exact ⟨fun e => CExpr.rec (motive_1 := P) (motive_2 := S) (motive_3 := fun l => ∀ a ∈ l, P a)
      (motive_4 := fun l => ∀ a ∈ l, S a)
      atom call post un cast bin tern assign stmtExpr expr empty block if_ ifElse for_ decl declInit
      hnilE hconsE hnilS hconsS e,
    fun s => CStmt.rec (motive_1 := P) (motive_2 := S) (motive_3 := fun l => ∀ a ∈ l, P a)
      (motive_4 := fun l => ∀ a ∈ l, S a)
      atom call post un cast bin tern assign stmtExpr expr empty block if_ ifElse for_ decl declInit
      hnilE hconsE hnilS hconsS s⟩

mutual
/-- Structural equality test (`DecidableEq` cannot be derived for the nested inductives). -/
def CExpr.beq : CExpr → CExpr → Bool
  | .atom s, .atom t => s == t
  | .call f as, .call g bs => f == g && CExpr.beqs as bs
  | .post o a, .post o' a' => o == o' && CExpr.beq a a'
  | .un o a, .un o' a' => o == o' && CExpr.beq a a'
  | .cast t a, .cast t' a' => t == t' && CExpr.beq a a'
  | .bin o a b, .bin o' a' b' => o == o' && CExpr.beq a a' && CExpr.beq b b'
  | .tern c a b, .tern c' a' b' => CExpr.beq c c' && CExpr.beq a a' && CExpr.beq b b'
  | .assign o a b, .assign o' a' b' => o == o' && CExpr.beq a a' && CExpr.beq b b'
  | .stmtExpr is e, .stmtExpr is' e' => CStmt.beqs is is' && CExpr.beq e e'
  | _, _ => false
termination_by structural a => a
def CExpr.beqs : List CExpr → List CExpr → Bool
  | [], [] => true
  | a :: as, b :: bs => CExpr.beq a b && CExpr.beqs as bs
  | _, _ => false
def CStmt.beq : CStmt → CStmt → Bool
  | .expr e, .expr e' => CExpr.beq e e'
  | .empty, .empty => true
  | .block is, .block is' => CStmt.beqs is is'
  | .if_ c t, .if_ c' t' => CExpr.beq c c' && CStmt.beq t t'
  | .ifElse c t e, .ifElse c' t' e' => CExpr.beq c c' && CStmt.beq t t' && CStmt.beq e e'
  | .for_ i c s b, .for_ i' c' s' b' =>
      CExpr.beq i i' && CExpr.beq c c' && CExpr.beq s s' && CStmt.beq b b'
  | .decl t x, .decl t' x' => t == t' && x == x'
  | .declInit t x e, .declInit t' x' e' => t == t' && x == x' && CExpr.beq e e'
  | _, _ => false
def CStmt.beqs : List CStmt → List CStmt → Bool
  | [], [] => true
  | a :: as, b :: bs => CStmt.beq a b && CStmt.beqs as bs
  | _, _ => false
end

theorem CExpr.eqs_of {as : List CExpr} (h : ∀ a ∈ as, ∀ b, CExpr.beq a b = true → a = b) :
    ∀ bs, CExpr.beqs as bs = true → as = bs := by
  induction as with
  | nil => intro bs hb; cases bs <;> simp [CExpr.beqs] at hb ⊢
  | cons a as ih =>
    intro bs hb
    cases bs with
    | nil => simp [CExpr.beqs] at hb
    | cons b bs =>
      simp [CExpr.beqs] at hb
      rw [h a (by simp) b hb.1, ih (fun x hx => h x (by simp [hx])) bs hb.2]

theorem CStmt.eqs_of {as : List CStmt} (h : ∀ a ∈ as, ∀ b, CStmt.beq a b = true → a = b) :
    ∀ bs, CStmt.beqs as bs = true → as = bs := by
  induction as with
  | nil => intro bs hb; cases bs <;> simp [CStmt.beqs] at hb ⊢
  | cons a as ih =>
    intro bs hb
    cases bs with
    | nil => simp [CStmt.beqs] at hb
    | cons b bs =>
      simp [CStmt.beqs] at hb
      rw [h a (by simp) b hb.1, ih (fun x hx => h x (by simp [hx])) bs hb.2]

theorem CExpr.beq_sound : (∀ a b : CExpr, CExpr.beq a b = true → a = b) ∧
    (∀ a b : CStmt, CStmt.beq a b = true → a = b) := by
  apply CExpr.ind2
  · intro s b h; cases b <;> simp [CExpr.beq] at h ⊢; exact h
  · intro f args ih b h; cases b <;> simp [CExpr.beq] at h ⊢
    exact ⟨h.1, CExpr.eqs_of ih _ h.2⟩
  · intro o a ih b h; cases b <;> simp [CExpr.beq] at h ⊢
    exact ⟨h.1, ih _ h.2⟩
  · intro o a ih b h; cases b <;> simp [CExpr.beq] at h ⊢
    exact ⟨h.1, ih _ h.2⟩
  · intro o a ih b h; cases b <;> simp [CExpr.beq] at h ⊢
    exact ⟨h.1, ih _ h.2⟩
  · intro o a b iha ihb x h; cases x <;> simp [CExpr.beq] at h ⊢
    exact ⟨h.1.1, iha _ h.1.2, ihb _ h.2⟩
  · intro c a b ihc iha ihb x h; cases x <;> simp [CExpr.beq] at h ⊢
    exact ⟨ihc _ h.1.1, iha _ h.1.2, ihb _ h.2⟩
  · intro o a b iha ihb x h; cases x <;> simp [CExpr.beq] at h ⊢
    exact ⟨h.1.1, iha _ h.1.2, ihb _ h.2⟩
  · intro items e ihs ihe x h; cases x <;> simp [CExpr.beq] at h ⊢
    exact ⟨CStmt.eqs_of ihs _ h.1, ihe _ h.2⟩
  · intro e ih x h; cases x <;> simp [CStmt.beq] at h ⊢
    exact ih _ h
  · intro x h; cases x <;> simp [CStmt.beq] at h ⊢
  · intro items ih x h; cases x <;> simp [CStmt.beq] at h ⊢
    exact CStmt.eqs_of ih _ h
  · intro c t ihc iht x h; cases x <;> simp [CStmt.beq] at h ⊢
    exact ⟨ihc _ h.1, iht _ h.2⟩
  · intro c t e ihc iht ihe x h; cases x <;> simp [CStmt.beq] at h ⊢
    exact ⟨ihc _ h.1.1, iht _ h.1.2, ihe _ h.2⟩
  · intro i c s b ihi ihc ihs ihb x h; cases x <;> simp [CStmt.beq] at h ⊢
    exact ⟨ihi _ h.1.1.1, ihc _ h.1.1.2, ihs _ h.1.2, ihb _ h.2⟩
  · intro t x y h; cases y <;> simp [CStmt.beq] at h ⊢
    exact h
  · intro t x e ih y h; cases y <;> simp [CStmt.beq] at h ⊢
    exact ⟨h.1.1, h.1.2, ih _ h.2⟩

theorem CExpr.eq_of_beq (a b : CExpr) : CExpr.beq a b = true → a = b := CExpr.beq_sound.1 a b
theorem CStmt.eq_of_beq (a b : CStmt) : CStmt.beq a b = true → a = b := CExpr.beq_sound.2 a b

theorem CExpr.beqs_refl_of {as : List CExpr} (h : ∀ a ∈ as, CExpr.beq a a = true) :
    CExpr.beqs as as = true := by
  induction as with
  | nil => simp [CExpr.beqs]
  | cons a as ih => simp [CExpr.beqs, h a (by simp), ih (fun x hx => h x (by simp [hx]))]

theorem CStmt.beqs_refl_of {as : List CStmt} (h : ∀ a ∈ as, CStmt.beq a a = true) :
    CStmt.beqs as as = true := by
  induction as with
  | nil => simp [CStmt.beqs]
  | cons a as ih => simp [CStmt.beqs, h a (by simp), ih (fun x hx => h x (by simp [hx]))]

theorem CExpr.beq_refl2 : (∀ a : CExpr, CExpr.beq a a = true) ∧ (∀ a : CStmt, CStmt.beq a a = true) := by
  apply CExpr.ind2 <;> intros <;> simp_all [CExpr.beq, CStmt.beq, CExpr.beqs_refl_of, CStmt.beqs_refl_of]

theorem CExpr.beq_refl (a : CExpr) : CExpr.beq a a = true := CExpr.beq_refl2.1 a
theorem CStmt.beq_refl (a : CStmt) : CStmt.beq a a = true := CExpr.beq_refl2.2 a

instance : DecidableEq CExpr := fun a b =>
  if h : CExpr.beq a b = true then isTrue (CExpr.eq_of_beq a b h)
  else isFalse (fun e => h (e ▸ CExpr.beq_refl a))

instance : DecidableEq CStmt := fun a b =>
  if h : CStmt.beq a b = true then isTrue (CStmt.eq_of_beq a b h)
  else isFalse (fun e => h (e ▸ CStmt.beq_refl a))

/-- Tokens.  A cast `( T )` is the three tokens `lp, ty T, rp`; `?`, `:` and `,` are `op "?"`,
    `op ":"`, `op ","`.  The statement level adds the punctuation `op "{"`, `op "}"`, `op ";"` and the
    reserved words `op "if"`, `op "else"`, `op "for"` (none of them is in an operator table, so none
    of them starts or continues an expression); the type name of a declaration is a `ty` token. -/
inductive GTok where
  | atom (s : String)
  | op (s : String)
  | lp
  | rp
  | ty (s : String)
  deriving DecidableEq, Repr, Inhabited

/-- Classification of operator strings that may FOLLOW a complete operand. -/
inductive OpKind where
  | bin (l : Nat)
  | assign
  | post
  | quest
  | other
  deriving DecidableEq, Repr

def opKind : String → OpKind
  | "||" => .bin 0
  | "&&" => .bin 1
  | "|" => .bin 2
  | "^" => .bin 3
  | "&" => .bin 4
  | "==" | "!=" => .bin 5
  | "<" | ">" | "<=" | ">=" => .bin 6
  | "<<" | ">>" => .bin 7
  | "+" | "-" => .bin 8
  | "*" | "/" | "%" => .bin 9
  | "=" | "+=" | "-=" | "*=" | "/=" | "%=" | "<<=" | ">>=" | "&=" | "^=" | "|=" => .assign
  | "++" | "--" => .post
  | "?" => .quest
  | _ => .other

/-- Level of a binary operator: `0` = `||` … `9` = multiplicative; `none` for non-binary strings. -/
def binLevel (s : String) : Option Nat :=
  match opKind s with
  | .bin l => some l
  | _ => none

def isAssignOp (s : String) : Bool := opKind s == .assign
def isPostOp (s : String) : Bool := opKind s == .post
/-- Prefix operators (`UNARY_OP`). -/
def isUnOp (s : String) : Bool := s == "-" || s == "~" || s == "!" || s == "+"

/-- Precedence level of the top constructor (see the table in the module doc). -/
def prec : CExpr → Nat
  | .atom _ => 15
  | .call _ _ => 15
  | .post _ _ => 14
  | .un _ _ => 13
  | .cast _ _ => 12
  | .bin op _ _ => (match binLevel op with | some l => l + 2 | none => 2)
  | .tern _ _ _ => 1
  | .assign _ _ _ => 0
  | .stmtExpr _ _ => 15

/-- `s` ends in an `if` without `else` (following else branches and loop bodies): an `else` token
    right after the text of `s` would be taken by that `if`. -/
def CStmt.openIf : CStmt → Bool
  | .if_ _ _ => true
  | .ifElse _ _ e => e.openIf
  | .for_ _ _ _ b => b.openIf
  | _ => false

/-- Parenthesise token list `l` of an expression of level `p` when the context requires level `c`. -/
def paren (c p : Nat) (l : List GTok) : List GTok :=
  if c ≤ p then l else .lp :: l ++ [.rp]

mutual
/-- Tokens of `e` WITHOUT outer parentheses. -/
def body : CExpr → List GTok
  | .atom s => [.atom s]
  | .call f args => .atom f :: .lp :: bodyArgs args ++ [.rp]
  | .post op a => paren 14 (prec a) (body a) ++ [.op op]
  | .un op a => .op op :: paren 12 (prec a) (body a)
  | .cast t a => .lp :: .ty t :: .rp :: paren 12 (prec a) (body a)
  | .bin op a b =>
      paren (prec (.bin op a b)) (prec a) (body a) ++ .op op ::
        paren (prec (.bin op a b) + 1) (prec b) (body b)
  | .tern c a b =>
      paren 2 (prec c) (body c) ++ .op "?" :: paren 0 (prec a) (body a) ++ .op ":" ::
        paren 1 (prec b) (body b)
  | .assign op a b => paren 13 (prec a) (body a) ++ .op op :: paren 0 (prec b) (body b)
  | .stmtExpr items e =>
      .lp :: .op "{" :: prItems items ++ (body e ++ [.op ";", .op "}", .rp])
termination_by structural e => e
/-- Comma separated argument list (each argument is an `assignment_expr`, level 0). -/
def bodyArgs : List CExpr → List GTok
  | [] => []
  | [a] => body a
  | a :: b :: rest => body a ++ .op "," :: bodyArgs (b :: rest)
/-- Tokens of a statement / block item.  The then-branch of an `if … else` is wrapped in braces
    exactly when it ends in an else-less `if` (otherwise the `else` would be read as belonging to
    that inner `if`: C binds an `else` to the nearest `if`). -/
def prS : CStmt → List GTok
  | .expr e => body e ++ [.op ";"]
  | .empty => [.op ";"]
  | .block items => .op "{" :: prItems items ++ [.op "}"]
  | .if_ c t => .op "if" :: .lp :: body c ++ .rp :: prS t
  | .ifElse c t e =>
      .op "if" :: .lp :: body c ++ .rp ::
        (if t.openIf then .op "{" :: prS t ++ [.op "}"] else prS t) ++ .op "else" :: prS e
  | .for_ i c s b =>
      .op "for" :: .lp :: body i ++ .op ";" :: body c ++ .op ";" :: body s ++ .rp :: prS b
  | .decl t x => [.ty t, .atom x, .op ";"]
  | .declInit t x e => .ty t :: .atom x :: .op "=" :: body e ++ [.op ";"]
def prItems : List CStmt → List GTok
  | [] => []
  | s :: rest => prS s ++ prItems rest
end

/-- Print `e` in a context that requires level `c`: parentheses exactly when `prec e < c`. -/
def pr (c : Nat) (e : CExpr) : List GTok := paren c (prec e) (body e)

/-- Minimal-parenthesis printer. -/
def printE (e : CExpr) : List GTok := pr 0 e

/-- Statement printer (minimal parentheses in the expressions, braces only where the tree has a
    `block` or where the else binding requires them). -/
def printStmt (s : CStmt) : List GTok := prS s

/-- Split `items ++ [expr e]` (the body of a statement-expression ends in its value). -/
def unsnocExpr : List CStmt → Option (List CStmt × CExpr)
  | [] => none
  | [.expr e] => some ([], e)
  | s :: rest =>
      match unsnocExpr rest with
      | some (its, e) => some (s :: its, e)
      | none => none

/-- Turn the result of parsing an `expr` into an expression statement: the next token must be `;`. -/
def exprStmtOf : Option (CExpr × Bool × List GTok) → Option (CStmt × List GTok)
  | some (e, _, .op s :: r) => if s = ";" then some (.expr e, r) else none
  | _ => none

/-- Parser result: tree, "was derived as a `unary_expr`" flag (needed for the left side of an
    assignment), remaining tokens. -/
abbrev PRes := CExpr × Bool × List GTok

mutual
/-- `pExpr fuel k ts`: parse one expression of level `k` (see table) from the front of `ts`. -/
def pExpr : Nat → Nat → List GTok → Option PRes
  | 0, _, _ => none
  | f + 1, k, ts =>
    if k = 0 then
      -- assignment_expr : conditional_expr | unary_expr ASSIGN_OP assignment_expr
      match pExpr f 1 ts with
      | some (x, u, .op s :: r) =>
          if u && isAssignOp s then
            match pExpr f 0 r with
            | some (y, _, r') => some (.assign s x y, false, r')
            | none => none
          else some (x, u, .op s :: r)
      | res => res
    else if k = 1 then
      -- conditional_expr : logical_or_expr | logical_or_expr "?" expr ":" conditional_expr
      match pExpr f 2 ts with
      | some (x, u, .op s :: r) =>
          if s = "?" then
            match pExpr f 0 r with
            | some (a, _, .op s' :: r') =>
                if s' = ":" then
                  match pExpr f 1 r' with
                  | some (b, _, r'') => some (.tern x a b, false, r'')
                  | none => none
                else none
            | _ => none
          else some (x, u, .op s :: r)
      | res => res
    else if k ≤ 11 then
      -- binary level : next level, then the loop of this level
      match pExpr f (k + 1) ts with
      | some (x, u, r) => pMany f k x u r
      | none => none
    else if k = 12 then
      -- cast_expr : unary_expr | "(" type_name ")" cast_expr
      match ts with
      | .lp :: .ty t :: .rp :: r =>
          (match pExpr f 12 r with
           | some (a, _, r') => some (.cast t a, false, r')
           | none => none)
      | _ => pExpr f 13 ts
    else if k = 13 then
      -- unary_expr : postfix_expr | UNARY_OP cast_expr
      match ts with
      | .op s :: r =>
          if isUnOp s then
            match pExpr f 12 r with
            | some (a, _, r') => some (.un s a, true, r')
            | none => none
          else none
      | _ => pExpr f 14 ts
    else if k = 14 then
      -- postfix_expr : primary_expr | postfix_expr INC_OP | postfix_expr DEC_OP
      match pExpr f 15 ts with
      | some (x, u, r) => pPost f x u r
      | none => none
    else
      -- primary_expr : atom | "(" expr ")"      sub_routine : identifier "(" [args] ")"
      match ts with
      | .atom s :: .lp :: .rp :: r => some (.call s [], true, r)
      | .atom s :: .lp :: r =>
          (match pArgs f r with
           | some (es, r') => some (.call s es, true, r')
           | none => none)
      | .atom s :: r => some (.atom s, true, r)
      | .lp :: r =>
          if r.head? = some (.op "{") then
            -- "(" gcc_extended_expr ")" : "(" "{" block_item* expr ";" "}" ")"
            (match pItems f r.tail with
             | some (items, .rp :: r') =>
                 (match unsnocExpr items with
                  | some (its, e) => some (.stmtExpr its e, true, r')
                  | none => none)
             | _ => none)
          else
            (match pExpr f 0 r with
             | some (x, _, .rp :: r') => some (x, true, r')
             | _ => none)
      | _ => none
/-- Loop of binary level `k` (2..11): consume `op` of that level and a level-`k+1` operand. -/
def pMany : Nat → Nat → CExpr → Bool → List GTok → Option PRes
  | 0, _, _, _, _ => none
  | f + 1, k, lhs, u, ts =>
    match ts with
    | .op s :: r =>
        if binLevel s = some (k - 2) then
          match pExpr f (k + 1) r with
          | some (b, _, r') => pMany f k (.bin s lhs b) false r'
          | none => none
        else some (lhs, u, ts)
    | _ => some (lhs, u, ts)
/-- Postfix loop. -/
def pPost : Nat → CExpr → Bool → List GTok → Option PRes
  | 0, _, _, _ => none
  | f + 1, lhs, u, ts =>
    match ts with
    | .op s :: r => if isPostOp s then pPost f (.post s lhs) true r else some (lhs, u, ts)
    | _ => some (lhs, u, ts)
/-- Non-empty argument list up to and including the closing parenthesis. -/
def pArgs : Nat → List GTok → Option (List CExpr × List GTok)
  | 0, _ => none
  | f + 1, ts =>
    match pExpr f 0 ts with
    | some (e, _, .op s :: r) =>
        if s = "," then
          match pArgs f r with
          | some (es, r') => some (e :: es, r')
          | none => none
        else none
    | some (e, _, .rp :: r) => some ([e], r)
    | _ => none
/-- One statement from the front of `ts` (C's rules: an `else` belongs to the nearest `if`). -/
def pStmt : Nat → List GTok → Option (CStmt × List GTok)
  | 0, _ => none
  | f + 1, ts =>
    match ts with
    | .op s :: r =>
        if s = ";" then some (.empty, r)
        else if s = "{" then
          (match pItems f r with
           | some (items, r') => some (.block items, r')
           | none => none)
        else if s = "if" then
          (match r with
           | .lp :: r1 =>
               (match pExpr f 0 r1 with
                | some (c, _, .rp :: r2) =>
                    (match pStmt f r2 with
                     | some (t, r3) =>
                         if r3.head? = some (.op "else") then
                           (match pStmt f r3.tail with
                            | some (e, r4) => some (.ifElse c t e, r4)
                            | none => none)
                         else some (.if_ c t, r3)
                     | none => none)
                | _ => none)
           | _ => none)
        else if s = "for" then
          (match r with
           | .lp :: r1 =>
               (match pExpr f 0 r1 with
                | some (i, _, .op s1 :: r2) =>
                    if s1 = ";" then
                      (match pExpr f 0 r2 with
                       | some (c, _, .op s2 :: r3) =>
                           if s2 = ";" then
                             (match pExpr f 0 r3 with
                              | some (st, _, .rp :: r4) =>
                                  (match pStmt f r4 with
                                   | some (b, r5) => some (.for_ i c st b, r5)
                                   | none => none)
                              | _ => none)
                           else none
                       | _ => none)
                    else none
                | _ => none)
           | _ => none)
        else exprStmtOf (pExpr f 0 ts)
    | _ => exprStmtOf (pExpr f 0 ts)
/-- One block item: a declaration when the first token is a type name, else a statement. -/
def pItem : Nat → List GTok → Option (CStmt × List GTok)
  | 0, _ => none
  | f + 1, ts =>
    match ts with
    | .ty t :: r =>
        (match r with
         | .atom x :: .op s :: r' =>
             if s = ";" then some (.decl t x, r')
             else if s = "=" then
               (match pExpr f 0 r' with
                | some (e, _, .op s' :: r'') => if s' = ";" then some (.declInit t x e, r'') else none
                | _ => none)
             else none
         | _ => none)
    | _ => pStmt f ts
/-- Block items up to and including the closing brace. -/
def pItems : Nat → List GTok → Option (List CStmt × List GTok)
  | 0, _ => none
  | f + 1, ts =>
    if ts.head? = some (.op "}") then some ([], ts.tail)
    else
      match pItem f ts with
      | some (s, r) =>
          (match pItems f r with
           | some (ss, r') => some (s :: ss, r')
           | none => none)
      | none => none
end

/-- Recursive-descent reference parser: one `assignment_expr` from the front of the token list. -/
def refParse (fuel : Nat) (ts : List GTok) : Option (CExpr × List GTok) :=
  match pExpr fuel 0 ts with
  | some (e, _, r) => some (e, r)
  | none => none

/-- Fuel that is always sufficient for printer output (theorem `refParse_print`). -/
def fuelFor (ts : List GTok) : Nat := ts.length * 20 + 20

/-- Parse a complete token list (all input must be consumed). -/
def refParseAll (ts : List GTok) : Option CExpr :=
  match refParse (fuelFor ts) ts with
  | some (e, []) => some e
  | _ => none

/-- Statement-level reference parser: one statement, all input must be consumed. -/
def refParseStmt (ts : List GTok) : Option CStmt :=
  match pStmt (fuelFor ts) ts with
  | some (s, []) => some s
  | _ => none

mutual
/-- Well-formedness: operator strings come from the tables; declarations occur only as block items;
    the then-branch of an `if … else` does not end in an else-less `if` (such a tree is not the parse
    of any text: the text needs braces there, i.e. a `block` node). -/
def WF : CExpr → Bool
  | .atom _ => true
  | .call _ args => WFs args
  | .post op a => isPostOp op && WF a
  | .un op a => isUnOp op && WF a
  | .cast _ a => WF a
  | .bin op a b => (binLevel op).isSome && WF a && WF b
  | .tern c a b => WF c && WF a && WF b
  | .assign op a b => isAssignOp op && WF a && WF b
  | .stmtExpr items e => IWFs items && WF e
termination_by structural e => e
def WFs : List CExpr → Bool
  | [] => true
  | a :: rest => WF a && WFs rest
/-- `SWFp item s`: `s` is well formed in statement position (`item = false`) or as a block item
    (`item = true`: declarations allowed). -/
def SWFp : Bool → CStmt → Bool
  | _, .expr e => WF e
  | _, .empty => true
  | _, .block items => IWFs items
  | _, .if_ c t => WF c && SWFp false t
  | _, .ifElse c t e => WF c && SWFp false t && !t.openIf && SWFp false e
  | _, .for_ i c s b => WF i && WF c && WF s && SWFp false b
  | item, .decl _ _ => item
  | item, .declInit _ _ e => item && WF e
def IWFs : List CStmt → Bool
  | [] => true
  | s :: rest => SWFp true s && IWFs rest
end

/-- Well-formed statement. -/
def SWF (s : CStmt) : Bool := SWFp false s

end Rzil.Grammar
