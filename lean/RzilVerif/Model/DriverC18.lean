import RzilVerif.Model.Sexp
import RzilVerif.Model.Pool
namespace Rzil
open Sexp Pool

/-- request `(pool <mode> (order i…) (task name (part "text" (ok id) | (err Name))…)…)`
    mode ∈ imap | unordered | seq.  The per-part outcome table instantiates `ParseOne`. -/
def handleC18 : List Sexp → Option Sexp
  | (.atom "pool" :: .atom mode :: .list (.atom "order" :: order) :: tasks) => do
      let order ← order.mapM Sexp.asNat?
      let parsed ← tasks.mapM (fun t => match t with
        | .list (.atom "task" :: name :: parts) => do
            let name ← name.asAtom?
            let ps ← parts.mapM (fun p => match p with
              | .list [.atom "part", .str txt, .list [.atom "ok", id]] => do
                  let id ← id.asNat?; pure (txt, (Except.ok id : Except String Nat))
              | .list [.atom "part", .str txt, .list [.atom "err", e]] => do
                  let e ← e.asAtom?; pure (txt, (Except.error e : Except String Nat))
              | _ => none)
            pure (name, ps)
        | _ => none)
      let table : List (String × Except String Nat) := parsed.flatMap (·.2)
      let p : ParseOne := fun s => match table.lookup s with
        | some r => r
        | none => .error "NoOutcome"
      let ts : List Pool.Task := parsed.map (fun (n, ps) => { name := n, parts := ps.map (·.1) })
      let d : Dict := match mode with
        | "imap" => poolRunImap p order ts
        | "unordered" => poolRunUnordered p order ts
        | _ => seqRun p ts
      pure (.list (d.map (fun (k, e) => .list [.str k, .str e.name, .list (e.trees.map ofNat),
              ofNat e.behaviours.length, (match e.exc with | none => .atom "none" | some x => .str x)])))
  | _ => none

end Rzil
