import RzilVerif.Model.ExprWF
/-
  Computable carve-out predicates of the T2 theorems (C02/C03/C09): on which expressions the lowering as coded
  (`Cfg.asCode`) builds exactly the IL of the repaired lowering (`Cfg.fixed`).  Evaluated by the driver.
-/
namespace Rzil

/-- `!`, `&&`, `||`: the code types the result as its (first) operand, the repaired lowering as `ut1` BOOL -/
def isNotLog : CExpr → Bool
  | .not _ => true
  | .log _ _ _ => true
  | _ => false

/-- the only difference the two lowerings may show on a carved expression: the type of a `!`/`&&`/`||` node -/
def normTy (e : CExpr) (ce : CE) : CE := if isNotLog e then { ce with ty := gBoolT } else ce

/-- `Cast.il_exec` as coded builds the same IL as the repaired one: the types are equal (no cast), or a BOOL source
    is a `BooleanOp`/`CompareOp` object, or the fill bit is chosen the same way (source unsigned, or target signed
    too).  Excludes: conversion of a signed source to an unsigned target of another width. -/
def CastSafe (target : VT) (p : CE) : Bool :=
  target.eqv p.ty ||
  (if p.ty.hasFlag VT.gBOOL && !(target.hasFlag VT.gBOOL) then p.kind == .boolObj
   else (!p.ty.signed || target.signed))

def promoSafe (p : CE) : Bool := CastSafe p.ty.promoted p

/-- `cast_operands`: no cast, or the converted types carry no copied flag and both casts are safe -/
def castOpsSafe (a b : CE) : Bool :=
  a.ty.eqv b.ty ||
  ((VT.c11Cast a.ty b.ty).1.group == 1 && (VT.c11Cast a.ty b.ty).2.group == 1 &&
   CastSafe (VT.c11Cast a.ty b.ty).1 a && CastSafe (VT.c11Cast a.ty b.ty).2 b)

/-- arithmetic/bitwise operands: promotion and the usual arithmetic conversions -/
def arithSafe (a b : CE) : Bool :=
  promoSafe a && promoSafe b && castOpsSafe (promotionCast Cfg.fixed a) (promotionCast Cfg.fixed b)

/-- comparison / `?:` operands: the code does not promote them, so both must be at least `int` wide already -/
def wideSafe (a b : CE) : Bool :=
  decide (32 ≤ a.ty.width) && decide (32 ≤ b.ty.width) && castOpsSafe a b

/-- an operand in condition position (`!x`, `x && y`, `x ? :`): wrapped in `NON_ZERO` by the code iff by the repair -/
def condSafe (e : CExpr) (ce : CE) : Bool :=
  (ce.kind == .boolObj) == (isNotLog e || ce.ty.hasFlag VT.gBOOL)

/-- the literal value is representable in the type: folding on unbounded integers does not wrap -/
def inRangeVT (t : VT) (v : Int) : Bool := normInt t v == v

def regSafe (asg : List String) (n : String) (k : RegKind) (t : CT) : Bool :=
  -- an explicit/alias register must not be "read and assigned"
  (if k = .explicit ∨ k = .alias then !asg.contains (opvarOf n k) else true) &&
  -- the class-only type of an explicit register is the declared one (excludes register pairs)
  (if k = .explicit ∨ k = .explicitNew then
     t.signed && t.width == (if n.toList.head? == some 'P' then 8 else 32)
   else true)

def unSafe (op : String) (ce : CE) : Bool :=
  match ce.kind with
  | .lit v =>
      let pt := VT.promoted ce.ty
      inRangeVT pt v && (if op == "-" then pt.signed && inRangeVT pt (-v) else inRangeVT pt (-v - 1))
  | _ => promoSafe ce

def binSafe (op : String) (ca cb : CE) : Bool :=
  match ca.kind, cb.kind with
  | .lit va, .lit vb =>
      if op == "+" || op == "-" || op == "*" then
        let t := (VT.c11Cast ca.ty cb.ty).1
        inRangeVT t va && inRangeVT t vb &&
          inRangeVT t (if op == "+" then va + vb else if op == "-" then va - vb else va * vb)
      else arithSafe ca cb
  | _, _ => arithSafe ca cb

def cmpSafe (ca cb : CE) : Bool :=
  match ca.kind, cb.kind with
  | .lit va, .lit vb =>
      let t := (VT.c11Cast ca.ty cb.ty).1
      inRangeVT t va && inRangeVT t vb
  | _, _ => wideSafe ca cb

def logSafe (a b : CExpr) (ca cb : CE) : Bool :=
  condSafe a ca && condSafe b cb &&
  (if isNotLog a || isNotLog b then ca.ty.eqv cb.ty && (normTy a ca).ty.eqv (normTy b cb).ty
   else castOpsSafe ca cb)

/-- constant-condition `?:`: the code returns the LIVE arm as it is (`first`: the first arm is the live one), C converts it
    to the common type of the two promoted arms.  Nothing is dropped when both arms are at least `int` wide (no
    promotion) and `c11_cast` leaves width and sign of the live arm alone — the type the code gives the result (the live
    arm's own) IS the common type.  Arms of equal type are the special case `c11_cast a b = (a, b)`
    (`liveKeepsTy_of_eqv`).  Not covered: `1 ? RsV : 1ULL` (live `int32_t`, common type `uint64_t`). -/
def liveKeepsTy (first : Bool) (ca cb : CE) : Bool :=
  decide (32 ≤ ca.ty.width) && decide (32 ≤ cb.ty.width) &&
  (if first then (VT.c11Cast ca.ty cb.ty).1.eqv ca.ty else (VT.c11Cast ca.ty cb.ty).2.eqv cb.ty)

def ternSafe (c : CExpr) (cc ca cb : CE) : Bool :=
  match cc.kind with
  | .lit v => liveKeepsTy (v != 0) ca cb
  | .boolLit r => liveKeepsTy r ca cb
  | _ => condSafe c cc && wideSafe ca cb

/-- run `f` on the code's result for a sub-expression (a compile error is the same error in both lowerings) -/
def onA (asg : List String) (e : CExpr) (f : CE → Bool) : Bool :=
  match compileExpr ⟨asg, Cfg.asCode⟩ e with
  | .ok ce => f ce
  | .error _ => true

mutual
/-- node-wise carve-out: every node of `e` is lowered identically by `Cfg.asCode` and `Cfg.fixed`, up to the type
    of `!`/`&&`/`||` nodes (`normTy`). `asg`: operand variables assigned anywhere in the behaviour. -/
def CarveN (asg : List String) : CExpr → Bool
  | .reg n k t => regSafe asg n k t
  | .imm _ _ => true
  | .lit v h sfx => litTypeCode sfx == litTypeC v h sfx
  | .var _ _ => true
  | .cast t e => CarveN asg e && !isNotLog e && onA asg e (fun ce => CastSafe t.toVT ce)
  | .un op e => CarveN asg e && !isNotLog e && onA asg e (fun ce => unSafe op ce)
  | .not e => CarveN asg e && onA asg e (fun ce => condSafe e ce)
  | .bin op a b => CarveN asg a && CarveN asg b && !isNotLog a && !isNotLog b &&
      onA asg a (fun ca => onA asg b (fun cb => binSafe op ca cb))
  | .shift _ a b => CarveN asg a && CarveN asg b && !isNotLog a &&
      onA asg a (fun ca => decide (32 ≤ ca.ty.width))
  | .cmp _ a b => CarveN asg a && CarveN asg b && !isNotLog a && !isNotLog b &&
      onA asg a (fun ca => onA asg b (fun cb => cmpSafe ca cb))
  | .log _ a b => CarveN asg a && CarveN asg b &&
      onA asg a (fun ca => onA asg b (fun cb => logSafe a b ca cb))
  | .tern c a b => CarveN asg c && CarveN asg a && CarveN asg b && !isNotLog a && !isNotLog b &&
      onA asg c (fun cc => onA asg a (fun ca => onA asg b (fun cb => ternSafe c cc ca cb)))
  | .macro _ args _ params => CarveNs asg args params
  | .load s _ t => !s || t.signed
  | .post _ _ _ => false
  | .call _ _ _ _ => false
  | .stmtexpr _ _ _ => false
  | .seqexpr _ _ _ _ _ => false
  | .callx _ _ _ _ _ => false
  | .xmacro _ _ _ => false
def CarveNs (asg : List String) : List CExpr → List CT → Bool
  | [], _ => true
  | _ :: _, [] => true
  | a :: as, p :: ps => CarveN asg a && !isNotLog a && onA asg a (fun ca => CastSafe p.toVT ca) && CarveNs asg as ps
end

/-- carve-out for an expression used as a VALUE (its compiled type matters): the two lowerings return the same
    result. A `!`/`&&`/`||` at the top is excluded here (the code mistypes it); in condition position use `CarveN`. -/
def CarveE (asg : List String) (e : CExpr) : Bool := CarveN asg e && !isNotLog e

end Rzil
