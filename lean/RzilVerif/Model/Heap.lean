import RzilVerif.Model.Checks
/-!
# What an emitted body does with the IL heap (used by C12)

An executable model of running the C body that builds an effect.

* A declaration `T *x = rhs;` with `T` one of `RzILOpPure`, `RzILOpBool`, `RzILOpEffect` ALLOCATES one node
  (fresh id) owned by the variable `x`.  A bare-identifier initialiser (`RzILOpEffect *seq_then_6 = op_ASSIGN_5;`)
  is handled uniformly: `x` is a fresh owner and the raw occurrence of `y` moves `y`'s node into it.
* Every occurrence of an identifier in an initialiser or in the returned term is a pointer-passing event
  `(y, underDup)`: a raw occurrence hands `y`'s node over to the constructor call (or to the caller, for `return`),
  i.e. CONSUMES it; `DUP(y)` clones a pure and consumes nothing.  An effect cannot be cloned: any event on an
  effect variable consumes it.
* Nested constructor calls and clones are temporaries consumed at once by their parent; they get no id.
* Events are attributed to nodes through the environment: the owner of `y` is the first node allocated for a
  variable called `y`.
-/
namespace Rzil

/-- The ownership class of a declared type: `some false` pure, `some true` effect, `none` not an IL node. -/
def ilKind (ty : String) : Option Bool :=
  if ty == "RzILOpPure *" || ty == "RzILOpBool *" then some false
  else if ty == "RzILOpEffect *" then some true
  else none

structure HNode where
  id : Nat
  var : String
  eff : Bool
deriving Repr, DecidableEq, Inhabited

structure HeapState where
  /-- next fresh node id -/
  next : Nat
  /-- nodes owned by declared variables, in allocation order -/
  nodes : List HNode
  /-- pointer-passing events `(variable, underDup)` in program order -/
  moves : List (String × Bool)
deriving Repr, Inhabited

def HeapState.init : HeapState := { next := 0, nodes := [], moves := [] }

def heapStep (st : HeapState) : Item → HeapState
  | .comment _ => st
  | .ret t => { st with moves := st.moves ++ t.uses }
  | .decl ty x rhs =>
      match ilKind ty with
      | some k => { next := st.next + 1, nodes := st.nodes ++ [{ id := st.next, var := x, eff := k }],
                    moves := st.moves ++ rhs.uses }
      | none => { st with moves := st.moves ++ rhs.uses }

def runFrom (st : HeapState) (items : List Item) : HeapState := items.foldl heapStep st

/-- Run a body from the empty heap. -/
def run (items : List Item) : HeapState := runFrom .init items

/-- The node a variable name refers to. -/
def HeapState.owner (st : HeapState) (y : String) : Option HNode := st.nodes.find? (fun n => n.var == y)

/-- How many times the node `n` is consumed (handed over to a parent node or to the caller). -/
def HeapState.consumptions (st : HeapState) (n : HNode) : Nat :=
  (st.moves.filter (fun e => decide (st.owner e.1 = some n) && (!e.2 || n.eff))).length

/-- How many times the variable `x` is passed raw. -/
def HeapState.rawMoves (st : HeapState) (x : String) : Nat := countUses x false st.moves

/-- No node owned by a declared variable is consumed twice. -/
def NoDoubleFree (st : HeapState) : Prop := ∀ n ∈ st.nodes, st.consumptions n ≤ 1
/-- Every node owned by a declared variable is consumed (the returned root: by the caller). -/
def NoLeak (st : HeapState) : Prop := ∀ n ∈ st.nodes, 1 ≤ st.consumptions n

instance (st : HeapState) : Decidable (NoDoubleFree st) := by unfold NoDoubleFree; infer_instance
instance (st : HeapState) : Decidable (NoLeak st) := by unfold NoLeak; infer_instance

/-- `(name, isEffect)` of the IL declarations of a body, in order. -/
def heapDecls (items : List Item) : List (String × Bool) :=
  items.filterMap (fun it => match it with
    | .decl ty x _ => (ilKind ty).map (fun k => (x, k))
    | _ => none)

/-- The declared IL names are pairwise distinct. -/
def ilNamesDistinct (items : List Item) : Prop := ((heapDecls items).map Prod.fst).Nodup

instance (items : List Item) : Decidable (ilNamesDistinct items) := by unfold ilNamesDistinct; infer_instance

end Rzil
