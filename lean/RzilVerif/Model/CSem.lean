import RzilVerif.Model.CAst
import RzilVerif.Model.ILSem
/-
  C side (DESIGN.md 3.1): typing and semantics of the dialect under C11 integer rules with QEMU's
  conventions (two's complement, wrap-around, arithmetic >> of signed values).  The specification side.
-/
namespace Rzil

def CT.promote (t : CT) : CT := if t.width < 32 then { signed := true, width := 32 } else t

/-- C11 6.3.1.8 with rank = width, after promotion. -/
def CT.common (a b : CT) : CT :=
  let a := a.promote
  let b := b.promote
  if a.signed == b.signed then { signed := a.signed, width := max a.width b.width }
  else
    let s := if a.signed then a else b
    let u := if a.signed then b else a
    if u.width ≥ s.width then { signed := false, width := u.width } else { signed := true, width := s.width }

def intT : CT := { signed := true, width := 32 }

/-- C11 6.4.4.1: the type of an integer constant is the first of the list for its base and suffix in
    which its value fits (int = 32 bit, long long = 64 bit). -/
def litTypeC (v : Nat) (hex : Bool) (suffix : String) : CT :=
  let fitsS (w : Nat) := v < 2 ^ (w - 1)
  let fitsU (w : Nat) := v < 2 ^ w
  match suffix with
  | "" => if fitsS 32 then ⟨true, 32⟩ else if hex && fitsU 32 then ⟨false, 32⟩ else if fitsS 64 then ⟨true, 64⟩ else ⟨false, 64⟩
  | "U" => if fitsU 32 then ⟨false, 32⟩ else ⟨false, 64⟩
  | "LL" => if fitsS 64 then ⟨true, 64⟩ else ⟨false, 64⟩
  | _ => ⟨false, 64⟩

/-- The type the code gives a literal: by the suffix only (`get_value_type_by_c_number`). -/
def litTypeCode (suffix : String) : CT :=
  match suffix with
  | "" => ⟨true, 32⟩ | "U" => ⟨false, 32⟩ | "LL" => ⟨true, 64⟩
  | "SZ" => ⟨true, 32⟩     -- `sizeof(x)`: the code's `Sizeof` is a LetVar of type st32; C gives it `size_t` (`litTypeC`: 64 bit unsigned)
  | _ => ⟨false, 64⟩

def typeOfC : CExpr → CT
  | .reg _ _ t => t
  | .imm _ s => { signed := s, width := 32 }
  | .lit v h sfx => litTypeC v h sfx
  | .var _ t => t
  | .cast t _ => t
  | .un _ e => (typeOfC e).promote
  | .not _ => intT
  | .bin _ a b => (typeOfC a).common (typeOfC b)
  | .shift _ a _ => (typeOfC a).promote
  | .cmp _ _ _ => intT
  | .log _ _ _ => intT
  | .tern _ a b => (typeOfC a).common (typeOfC b)
  | .macro _ _ ret _ => ret
  | .load _ _ t => t
  | .post _ t _ => t
  | .call _ _ ret _ => ret
  | .stmtexpr t _ _ => t
  | .seqexpr _ _ _ _ val => typeOfC val
  | .callx _ _ _ ret _ => ret
  | .xmacro _ _ ret => ret

/-- 6.3.1.3 on bit patterns: narrowing keeps the low bits, widening sign-extends iff the SOURCE is signed. -/
def convBits (src dst : CT) {n : Nat} (x : BitVec n) : BitVec dst.width :=
  if dst.width ≤ n then x.setWidth dst.width
  else if src.signed then x.signExtend dst.width else x.setWidth dst.width

def convC (src dst : CT) : Val → Except Stuck Val
  | .bv _ x => .ok (.bv dst.width (convBits src dst x))
  | _ => .error (.sort "conversion of a non-integer")

/-- Operand variable of a register token (shared naming convention with the emitted code). -/
def dropLast (s : String) : String := String.ofList (s.toList.dropLast)

def opvarOf (name : String) (k : RegKind) : String :=
  let colon := fun (s : String) => String.ofList (s.toList.map (fun c => if c == ':' then '_' else c))
  match k with
  | .src | .dst | .rw => dropLast name ++ "_op"
  | .new => dropLast name ++ "_new_op"
  | .explicit => colon name ++ "_op"
  | .explicitNew => colon (String.ofList (name.toList.take (name.length - 4))) ++ "_new_op"
  | .alias => (String.ofList (name.toList.drop 14)).toLower ++ "_op"
  | .aliasNew => (String.ofList ((name.toList.drop 14).take (name.length - 14 - 4))).toLower ++ "_new_op"
  | .pc => "pc_op"

def readRegC (σ : MState) (name : String) (k : RegKind) (t : CT) : Val :=
  let ov := opvarOf name k
  let raw := match k with
    | .src => σ.cur ov
    | .new | .explicitNew | .aliasNew | .dst => σ.new ov
    | .rw | .explicit | .alias => if σ.written ov then σ.new ov else σ.cur ov
    | .pc => σ.pktAddr
  .bv t.width (BitVec.ofNat t.width raw)

def cmpC (op : String) (signed : Bool) {w : Nat} (x y : BitVec w) : Bool :=
  match op with
  | "<" => if signed then x.slt y else x.ult y
  | ">" => if signed then y.slt x else y.ult x
  | "<=" => if signed then x.sle y else x.ule y
  | ">=" => if signed then y.sle x else y.ule x
  | "==" => x == y
  | _ => x != y

def boolVal (b : Bool) : Val := .bv 32 (if b then 1 else 0)

def truthy : Val → Except Stuck Bool
  | .bv _ x => .ok (x.toNat != 0)
  | _ => .error (.sort "truth value of a non-integer")

mutual
def evalC (ms : MacroSem) (σ : MState) : CExpr → Except Stuck Val
  | .reg n k t => .ok (readRegC σ n k t)
  | .imm l _ => .ok (.bv 32 (BitVec.ofNat 32 (σ.imm l)))
  | .lit v h sfx => let t := litTypeC v h sfx; .ok (.bv t.width (BitVec.ofNat t.width v))
  | .var n _ => match lookupS n σ.locals with
      | some v => .ok v
      | none => .error (.unbound n)
  | .cast t e => do
      let v ← evalC ms σ e
      convC (typeOfC e) t v
  | .un op e => do
      let v ← evalC ms σ e
      let t := (typeOfC e).promote
      let v ← convC (typeOfC e) t v
      match v with
      | .bv w x => if op == "-" then .ok (.bv w (-x)) else .ok (.bv w (~~~x))
      | _ => .error (.sort "unary")
  | .not e => do
      let v ← evalC ms σ e
      let b ← truthy v
      .ok (boolVal (!b))
  | .bin op a b => do
      let va ← evalC ms σ a
      let vb ← evalC ms σ b
      let t := (typeOfC a).common (typeOfC b)
      let va ← convC (typeOfC a) t va
      let vb ← convC (typeOfC b) t vb
      match op with
      | "+" => evalBin .add va vb
      | "-" => evalBin .sub va vb
      | "*" => evalBin .mul va vb
      | "&" => evalBin .logand va vb
      | "|" => evalBin .logor va vb
      | "^" => evalBin .logxor va vb
      | _ => .error (.undef op)
  | .shift op a b => do
      let va ← evalC ms σ a
      let vb ← evalC ms σ b
      let t := (typeOfC a).promote
      let va ← convC (typeOfC a) t va
      match va, vb with
      | .bv w x, .bv wb y =>
          -- amount: negative (signed right operand with msb set) or ≥ width is undefined in C
          let tb := typeOfC b
          if (tb.signed && y.msb) || y.toNat ≥ w then .error (.undef "shift amount")
          else if op == "<<" then .ok (.bv w (x <<< y.toNat))
          else if t.signed then .ok (.bv w (x.sshiftRight y.toNat)) else .ok (.bv w (x >>> y.toNat))
      | _, _ => .error (.sort "shift")
  | .cmp op a b => do
      let va ← evalC ms σ a
      let vb ← evalC ms σ b
      let t := (typeOfC a).common (typeOfC b)
      let va ← convC (typeOfC a) t va
      let vb ← convC (typeOfC b) t vb
      match va, vb with
      | .bv wa x, .bv wb y =>
          if h : wa = wb then .ok (boolVal (cmpC op t.signed x (h ▸ y))) else .error (.sort "compare")
      | _, _ => .error (.sort "compare")
  | .log op a b => do
      let va ← evalC ms σ a
      let vb ← evalC ms σ b
      let ba ← truthy va
      let bb ← truthy vb
      .ok (boolVal (if op == "&&" then ba && bb else ba || bb))
  | .tern c a b => do
      let vc ← evalC ms σ c
      let bc ← truthy vc
      let t := (typeOfC a).common (typeOfC b)
      -- pure arms: evaluating both and selecting equals evaluating the selected one
      let va ← evalC ms σ a
      let vb ← evalC ms σ b
      if bc then convC (typeOfC a) t va else convC (typeOfC b) t vb
  | .macro name args ret params => do
      let vs ← evalCArgs ms σ args params
      match ms name vs with
      | some v => .ok v
      | none => .error (.undef name)
  | .load s w t => do
      match lookupS "EA" σ.locals with
      | some (.bv _ ea) =>
          let raw : Val := .bv w (BitVec.ofNat w (loadBytes σ.mem ea.toNat (w / 8)))
          convC { signed := s, width := w } t raw
      | _ => .error (.unbound "EA")
  | .post _ _ _ => .error (.undef "hybrid: use evalCH")
  | .call _ _ _ _ => .error (.undef "hybrid: use evalCH")
  | .stmtexpr _ _ _ => .error (.undef "hybrid: use evalCH")
  | .seqexpr _ _ _ _ _ => .error (.undef "hybrid: use evalCH")
  | .callx _ _ _ _ _ => .error (.undef "hybrid: use evalCH")
  | .xmacro _ _ _ => .error (.undef "pass-through macro: use evalCH")
def evalCArgs (ms : MacroSem) (σ : MState) : List CExpr → List CT → Except Stuck (List Val)
  | [], _ => .ok []
  | _ :: _, [] => .error (.sort "macro arity")
  | a :: as, p :: ps => do
      let v ← evalC ms σ a
      let v ← convC (typeOfC a) p v
      let vs ← evalCArgs ms σ as ps
      .ok (v :: vs)
end

def writeRegC (σ : MState) (name : String) (k : RegKind) (v : Val) : Except Stuck MState :=
  match v with
  | .bv _ x =>
      let ov := opvarOf name k
      .ok { σ with new := fun q => if q == ov then x.toNat else σ.new q,
                   written := fun q => if q == ov then true else σ.written q }
  | _ => .error (.sort "register write")

/-- `a op= e` as `a = a op e`. -/
def compoundExpr (lhs : CExpr) (op : String) (e : CExpr) : CExpr :=
  match op with
  | "=" => e
  | "+=" => .bin "+" lhs e | "-=" => .bin "-" lhs e | "*=" => .bin "*" lhs e
  | "&=" => .bin "&" lhs e | "|=" => .bin "|" lhs e | "^=" => .bin "^" lhs e
  | "<<=" => .shift "<<" lhs e | ">>=" => .shift ">>" lhs e
  | _ => e

def utT : CT := { signed := false, width := 32 }

mutual
def execC (ms : MacroSem) : Nat → CStmt → MState → Except Stuck MState
  | 0, _, _ => .error .fuel
  | fuel+1, s, σ =>
    match s with
    | .decl _ _ none => .ok σ
    | .decl t n (some e) => do
        let v ← evalC ms σ e
        let v ← convC (typeOfC e) t v
        .ok { σ with locals := setLocal σ.locals n v }
    | .assign lhs op e => do
        let rhs := compoundExpr lhs op e
        let v ← evalC ms σ rhs
        let v ← convC (typeOfC rhs) (typeOfC lhs) v
        match lhs with
        | .var n _ => .ok { σ with locals := setLocal σ.locals n v }
        | .reg n k _ => writeRegC σ n k v
        | .imm l _ => (match v with
            -- the immediate is an ordinary variable of the behaviour, initialised from the encoding
            | .bv _ x => .ok { σ with imm := fun q => if q == l then x.toNat else σ.imm q }
            | _ => .error (.sort "immediate write"))
        | _ => .error (.undef "assignment target")
    | .store w e => do
        let v ← evalC ms σ e
        let v ← convC (typeOfC e) { signed := false, width := w } v
        match lookupS "EA" σ.locals, v with
        | some (.bv _ ea), .bv _ x =>
            .ok { σ with mem := storeBytes σ.mem ea.toNat x.toNat (w / 8), stores := ea.toNat :: σ.stores }
        | _, _ => .error (.unbound "EA")
    | .ite c t e => do
        let vc ← evalC ms σ c
        let b ← truthy vc
        if b then execCs ms fuel t σ else
          match e with
          | some e => execCs ms fuel e σ
          | none => .ok σ
    | .for_ v cond step body => do
        let σ0 := { σ with locals := setLocal σ.locals v (.bv 32 0) }
        loopC ms fuel v cond step body σ0
    | .chain lhs1 lhs2 op2 e => do
        -- the inner assignment, then the outer one receives the value of the inner assignment expression
        let σ1 ← execC ms fuel (.assign lhs2 op2 e) σ
        execC ms fuel (.assign lhs1 "=" lhs2) σ1
    | .jump e => do
        let v ← evalC ms σ e
        let v ← convC (typeOfC e) utT v
        .ok { σ with locals := setLocal (setLocal σ.locals "jump_flag" (.bool true)) "jump_target" v }
    | .exprstmt e => do
        -- a bare value (`riV;`): evaluated and discarded, the state is unchanged (as in `execCH`); a value with a side
        -- effect (`i++;`) is outside the pure semantics: `evalC` rejects it
        let _ ← evalC ms σ e
        .ok σ
    | .ret _ => .error (.undef "hybrid: use execCH")
    | .vcall _ _ _ _ => .error (.undef "hybrid: use execCH")
    | .skip w =>
        if w == "STORE_SLOT_CANCELLED(pkt, slot);" then
          .ok { σ with locals := setLocal σ.locals "$slot_cancelled" (.bool true) }
        else .ok σ
def execCs (ms : MacroSem) : Nat → List CStmt → MState → Except Stuck MState
  | 0, _, _ => .error .fuel
  | _+1, [], σ => .ok σ
  | fuel+1, s :: ss, σ => do
      let σ' ← execC ms fuel s σ
      execCs ms fuel ss σ'
def loopC (ms : MacroSem) : Nat → String → CExpr → Nat → List CStmt → MState → Except Stuck MState
  | 0, _, _, _, _, _ => .error .fuel
  | fuel+1, v, cond, step, body, σ => do
      let vc ← evalC ms σ cond
      let b ← truthy vc
      if b then do
        let σ1 ← execCs ms fuel body σ
        match lookupS v σ1.locals with
        | some (.bv w x) =>
            loopC ms fuel v cond step body { σ1 with locals := setLocal σ1.locals v (.bv w (x + BitVec.ofNat w (if step == 0 then 1 else step))) }
        | _ => .error (.unbound v)
      else .ok σ
end

end Rzil
