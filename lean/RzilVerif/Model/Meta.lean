import RzilVerif.Model.LarkTree
import RzilVerif.Gen.CallbacksGen
/-
  Layer W (attributes): the flag state of `HexagonTransformerExtension`, driven by the REGENERATED
  tables (`Gen/CallbacksGen.lean`): which callback fires which token, which token sets which flag,
  which flags `reset_flags` clears, in which order `get_meta` reports them.
-/
namespace Rzil

/-- Flag state: boolean attributes by name, and the `preds_written` list. -/
structure Flags where
  on : List String        -- attributes currently True
  preds : List Nat        -- preds_written (class-level list in the code)
deriving Repr, Inhabited, DecidableEq

def Flags.empty : Flags := { on := [], preds := [] }

/-- One `set_token_meta_data(token, **kwargs)` call. -/
structure MetaEvent where
  token : String
  isNew : Bool := false        -- kwarg is_new (explicit_reg)
  predNum : Int := -1          -- kwarg pred_num (pred_write)
deriving Repr, Inhabited, DecidableEq

def setAttr (f : Flags) (a : String) : Flags := if f.on.contains a then f else { f with on := f.on ++ [a] }

/-- A setter method of the extension, by the regenerated `setterRows`. -/
def applySetter (f : Flags) (setter : String) (ev : MetaEvent) : Flags :=
  match Gen.setterRows.find? (fun r => r.1 == setter) with
  | some (_, sets, appends) =>
      let f := sets.foldl setAttr f
      if appends.isEmpty then f
      else -- set_writes_pred: `if num in range(4) and num not in self.preds_written: append`
        if 0 ≤ ev.predNum && ev.predNum < 4 && !(f.preds.contains ev.predNum.toNat)
        then { f with preds := f.preds ++ [ev.predNum.toNat] } else f
  | none => f

/-- `set_token_meta_data`, by the regenerated `tokenRows` (first matching `elif`). -/
def applyEvent (f : Flags) (ev : MetaEvent) : Flags :=
  match Gen.tokenRows.find? (fun r => r.1 == ev.token) with
  | some (_, setter, guard) =>
      if guard == "" then applySetter f setter ev
      else if guard == "is_new" then (if ev.isNew then applySetter f setter ev else f)
      else f
  | none => f

/-- `reset_flags`, by the regenerated `resetFlagsCleared`. -/
def resetFlags (f : Flags) : Flags :=
  { on := f.on.filter (fun a => !(Gen.resetFlagsCleared.contains a)),
    preds := if Gen.resetFlagsCleared.contains "preds_written" then [] else f.preds }

/-- Fill the `{}` hole of a format row (kernel-evaluable replacement for `String.replace`). -/
def fillHoleL : List Char → List Char → List Char
  | '{' :: '}' :: rest, v => v ++ fillHoleL rest v
  | c :: rest, v => c :: fillHoleL rest v
  | [], _ => []
def fillHole (s v : String) : String := String.ofList (fillHoleL s.toList v.toList)

/-- `get_meta`, by the regenerated `metaRows` (source order; nested rows only under their guard). -/
def getMeta (f : Flags) : List String :=
  let rows := Gen.metaRows.filter (fun r => r.1 != "<none>")
  let out := rows.flatMap (fun (attr, s, under) =>
    if under == "" then (if f.on.contains attr then [s] else [])
    else if f.on.contains under then f.preds.map (fun p => fillHole s (toString p)) else [])
  if out.isEmpty then (Gen.metaRows.filter (fun r => r.1 == "<none>")).map (·.2.1) else out

/-! ### events fired by a tree (bottom-up, as Lark's Transformer calls the callbacks) -/

def regIsPredicate : LTree → Bool
  | .node "reg" (.tok "REG_TYPE" t :: _) => t == "P"
  | .node "explicit_reg" (.tok _ name :: _) => name.toList.head? == some 'P'
  | _ => false

/-- `pred_num` as `assignment_expr` computes it: the first digit of an explicit name whose second
    character is one of 0..3, else -1. -/
def predNumOf : LTree → Int
  | .node "explicit_reg" (.tok _ name :: _) =>
      match name.toList with
      | _ :: d :: _ => if d == '0' || d == '1' || d == '2' || d == '3' then (d.toNat - '0'.toNat : Nat) else -1
      | _ => -1
  | _ => -1

/-- The tokens the callback of a node fires itself (children already handled). -/
def nodeEvents (rule : String) (cs : List LTree) : List MetaEvent :=
  match Gen.callbackRows.find? (fun r => r.1 == rule) with
  | none => []
  | some (_, toks) =>
    toks.flatMap (fun t =>
      if t == "explicit_reg" then
        [{ token := "explicit_reg", isNew := (match cs with | [_, .tok _ _] => true | _ => false) }]
      else if t == "pred_write" then
        (match cs.head? with
         | some d => if regIsPredicate d then [{ token := "pred_write", predNum := predNumOf d }] else []
         | Option.none => [])
      else if t == "ext:new_reg" then
        -- reg_alias fires new_reg only when the `_NEW` postfix is present (items[1] truthy)
        (match cs with
         | [_, .node "reg_alias_new_postfix" _] => [{ token := "new_reg" }]
         | _ => [])
      else [{ token := t }])

mutual
def LTree.events : LTree → List MetaEvent
  | .node rule cs => eventsList cs ++ nodeEvents rule cs
  | _ => []
def eventsList : List LTree → List MetaEvent
  | [] => []
  | c :: cs => c.events ++ eventsList cs
end

/-! ### specification: the attributes implied by the part's own text -/

structure Attrs where
  cond : Bool
  usesNew : Bool
  memWrite : Bool
  memRead : Bool
  branch : Bool
  wpred : Bool
  preds : List Nat
deriving Repr, DecidableEq, Inhabited

mutual
def LTree.usesNew : LTree → Bool
  | .node "new_reg" _ => true
  | .node "explicit_reg" [_, .tok _ _] => true
  | .node "reg_alias" [_, .node "reg_alias_new_postfix" _] => true
  | .node _ cs => usesNewList cs
  | _ => false
def usesNewList : List LTree → Bool
  | [] => false
  | c :: cs => c.usesNew || usesNewList cs
end

mutual
/-- predicate registers assigned, in source (post-order) order: `some n` explicit P0..P3, `none` other -/
def LTree.predWrites : LTree → List (Option Nat)
  | .node "assignment_expr" (d :: rest) =>
      predWritesList (d :: rest) ++
      (if regIsPredicate d then [if predNumOf d ≥ 0 then some (predNumOf d).toNat else Option.none] else [])
  | .node _ cs => predWritesList cs
  | _ => []
def predWritesList : List LTree → List (Option Nat)
  | [] => []
  | c :: cs => c.predWrites ++ predWritesList cs
end

def attrsOfTree (t : LTree) : Attrs :=
  let pw := t.predWrites
  { cond := t.hasRule "selection_stmt", usesNew := t.usesNew, memWrite := t.hasRule "mem_store",
    memRead := t.hasRule "mem_load", branch := t.hasRule "jump", wpred := !pw.isEmpty,
    preds := (pw.filterMap id).eraseDups }

def Attrs.render (a : Attrs) : List String :=
  let out := (if a.cond then ["HEX_IL_INSN_ATTR_COND"] else []) ++ (if a.usesNew then ["HEX_IL_INSN_ATTR_NEW"] else []) ++
    (if a.memWrite then ["HEX_IL_INSN_ATTR_MEM_WRITE"] else []) ++ (if a.memRead then ["HEX_IL_INSN_ATTR_MEM_READ"] else []) ++
    (if a.branch then ["HEX_IL_INSN_ATTR_BRANCH"] else []) ++
    (if a.wpred then "HEX_IL_INSN_ATTR_WPRED" :: a.preds.map (fun p => s!"HEX_IL_INSN_ATTR_WRITE_P{p}") else [])
  if out.isEmpty then ["HEX_IL_INSN_ATTR_NONE"] else out

/-- What the code reports for a part compiled when the flag state was `prior`. -/
def metaAfter (prior : Flags) (t : LTree) : List String :=
  getMeta (t.events.foldl applyEvent (resetFlags prior))

end Rzil
