import RzilVerif.Model.CompileH
/-
  The hybrid-free fragment (`HybFree`, `HybFreeS`) on which the pure lowering model (`Compile.lean`) is defined,
  and the decidable side condition (`HSame`, `HSameS`) under which the hybrid lowering model (`CompileH.lean`)
  computes the same tree as the pure one.  Evaluated by the driver; theorems in `Props/CompileHEqv.lean`.
-/
namespace Rzil

/-! ### hybrid-free programs -/

mutual
/-- No value-producing side effect (`v++`, sub-routine call, statement-expression) anywhere in the expression,
    no source name (local, immediate letter) in the reserved namespace `h_tmp…` of the hybrid temporaries,
    and no macro call with more arguments than parameters (both models reject those, with different texts:
    `"macro arity"` / `"arity"`). -/
def HybFree : CExpr → Bool
  | .reg _ _ _ => true
  | .imm l _ => !isHTmp l
  | .lit _ _ _ => true
  | .var n _ => !isHTmp n
  | .cast _ e => HybFree e
  | .un _ e => HybFree e
  | .not e => HybFree e
  | .bin _ a b => HybFree a && HybFree b
  | .shift _ a b => HybFree a && HybFree b
  | .cmp _ a b => HybFree a && HybFree b
  | .log _ a b => HybFree a && HybFree b
  | .tern c a b => HybFree c && HybFree a && HybFree b
  | .macro _ args _ params => HybFreeL args params
  | .load _ _ _ => true
  | .post _ _ _ => false
  | .call _ _ _ _ => false
  | .stmtexpr _ _ _ => false
  | .seqexpr _ _ _ _ _ => false
  | .callx _ _ _ _ _ => false
  | .xmacro _ _ _ => false
def HybFreeL : List CExpr → List CT → Bool
  | [], _ => true
  | _ :: _, [] => false
  | a :: as, _ :: ps => HybFree a && HybFreeL as ps
end

mutual
/-- Hybrid-free statements: all expressions (assignment targets included) hybrid-free, declared names and loop
    variables outside `h_tmp…`, loop counters of type ut32 (the pure model hardcodes the undeclared special
    identifiers' type; a declared counter of another type is lowered by the hybrid model only), expression
    statements only of a hybrid-free (pure) value, no `return`. -/
def HybFreeS : CStmt → Bool
  | .decl _ n none => !isHTmp n
  | .decl _ n (some e) => !isHTmp n && HybFree e
  | .assign lhs _ e => HybFree lhs && HybFree e
  | .chain lhs1 lhs2 _ e => HybFree lhs1 && HybFree lhs2 && HybFree e
  | .store _ e => HybFree e
  | .ite c t e => HybFree c && HybFreeSs t && (match e with | some e => HybFreeSs e | none => true)
  | .for_ v c _ b => !isHTmp v && HybFree c && HybFreeSs b && loopVarTy v c == utT
  | .jump e => HybFree e
  | .skip _ => true
  | .exprstmt e => HybFree e
  | .ret _ => false
  | .vcall _ _ _ _ => false
def HybFreeSs : List CStmt → Bool
  | [] => true
  | s :: ss => HybFreeS s && HybFreeSs ss
end

/-! ### where the two models agree -/

def PKind.isBoolLit : PKind → Bool
  | .boolLit _ => true
  | _ => false

/-- kind of the compiled operand (`plain` if it does not compile) -/
def kindOfE (env : CEnv) (e : CExpr) : PKind :=
  match compileExpr env e with
  | .ok ce => ce.kind
  | .error _ => .plain

/-- the compiled operand is a bare local/immediate read -/
def isVarlE (env : CEnv) (e : CExpr) : Bool :=
  match compileExpr env e with
  | .ok ce => (match ce.il with | .varl _ => true | _ => false)
  | .error _ => false

/-- both operands have a Python `int` value and at least one of them is a folded comparison (`Bool`):
    `compileExprH` folds (as the code does: `isinstance(True, int)`), `compileExpr` does not -/
def mixedFold (ka kb : PKind) : Bool :=
  ka.litVal.isSome && kb.litVal.isSome && (ka.isBoolLit || kb.isBoolLit)

def isFoldOp (op : String) : Bool := op == "+" || op == "-" || op == "*"

/-- the `?:` has a constant condition and its dead arm is a bare local/immediate read
    (`rm_op_by_name` un-registers an immediate of that name: a later use registers it a second time) -/
def deadIsVarl (env : CEnv) (c a b : CExpr) : Bool :=
  match kindOfE env c with
  | .lit v => if v != 0 then isVarlE env b else isVarlE env a
  | .boolLit r => if r then isVarlE env b else isVarlE env a
  | _ => false

mutual
/-- Side condition of the expression-level agreement. Trivially true unless `cfg.literalTypeBySuffixOnly`
    (so: no side condition for `Cfg.fixed`).  Under `literalTypeBySuffixOnly` it excludes
    (a) a folded comparison as the operand of a foldable `-`/`~`, `+ - *` or comparison whose other operand has a
        constant value too, and
    (b) a constant-condition `?:` whose dead arm is a bare variable read. -/
def HSame (env : CEnv) : CExpr → Bool
  | .cast _ e => HSame env e
  | .un _ e => HSame env e && !(env.cfg.literalTypeBySuffixOnly && (kindOfE env e).isBoolLit)
  | .not e => HSame env e
  | .bin op a b => HSame env a && HSame env b &&
      !(env.cfg.literalTypeBySuffixOnly && isFoldOp op && mixedFold (kindOfE env a) (kindOfE env b))
  | .shift _ a b => HSame env a && HSame env b
  | .cmp _ a b => HSame env a && HSame env b &&
      !(env.cfg.literalTypeBySuffixOnly && mixedFold (kindOfE env a) (kindOfE env b))
  | .log _ a b => HSame env a && HSame env b
  | .tern c a b => HSame env c && HSame env a && HSame env b &&
      !(env.cfg.literalTypeBySuffixOnly && deadIsVarl env c a b)
  | .macro _ args _ _ => HSameL env args
  | _ => true
def HSameL (env : CEnv) : List CExpr → Bool
  | [] => true
  | a :: as => HSame env a && HSameL env as
end

mutual
/-- `HSame` for every expression the statement evaluates (assignment targets are compiled by the pure
    `compileExpr` in both models) -/
def HSameS (env : CEnv) : CStmt → Bool
  | .decl _ _ none => true
  | .decl _ _ (some e) => HSame env e
  | .assign _ _ e => HSame env e
  | .chain _ _ _ e => HSame env e
  | .store _ e => HSame env e
  | .ite c t e => HSame env c && HSameSs env t && (match e with | some e => HSameSs env e | none => true)
  | .for_ _ c _ b => HSame env c && HSameSs env b
  | .jump e => HSame env e
  | .skip _ => true
  | .exprstmt e => HSame env e
  | .ret e => HSame env e
  | .vcall _ _ args _ => HSameL env args
def HSameSs (env : CEnv) : List CStmt → Bool
  | [] => true
  | s :: ss => HSameS env s && HSameSs env ss
end

/-! ### part (b) of the side condition on its own (part (a) follows from the carve-out of T2) -/

mutual
/-- no constant-condition `?:` whose dead arm is a bare local/immediate read -/
def NoDeadVarl (env : CEnv) : CExpr → Bool
  | .cast _ e => NoDeadVarl env e
  | .un _ e => NoDeadVarl env e
  | .not e => NoDeadVarl env e
  | .bin _ a b => NoDeadVarl env a && NoDeadVarl env b
  | .shift _ a b => NoDeadVarl env a && NoDeadVarl env b
  | .cmp _ a b => NoDeadVarl env a && NoDeadVarl env b
  | .log _ a b => NoDeadVarl env a && NoDeadVarl env b
  | .tern c a b => NoDeadVarl env c && NoDeadVarl env a && NoDeadVarl env b && !deadIsVarl env c a b
  | .macro _ args _ _ => NoDeadVarlL env args
  | _ => true
def NoDeadVarlL (env : CEnv) : List CExpr → Bool
  | [] => true
  | a :: as => NoDeadVarl env a && NoDeadVarlL env as
end

mutual
def NoDeadVarlS (env : CEnv) : CStmt → Bool
  | .decl _ _ none => true
  | .decl _ _ (some e) => NoDeadVarl env e
  | .assign _ _ e => NoDeadVarl env e
  | .chain _ _ _ e => NoDeadVarl env e
  | .store _ e => NoDeadVarl env e
  | .ite c t e => NoDeadVarl env c && NoDeadVarlSs env t && (match e with | some e => NoDeadVarlSs env e | none => true)
  | .for_ _ c _ b => NoDeadVarl env c && NoDeadVarlSs env b
  | .jump e => NoDeadVarl env e
  | .skip _ => true
  | .exprstmt e => NoDeadVarl env e
  | .ret e => NoDeadVarl env e
  | .vcall _ _ args _ => NoDeadVarlL env args
def NoDeadVarlSs (env : CEnv) : List CStmt → Bool
  | [] => true
  | s :: ss => NoDeadVarlS env s && NoDeadVarlSs env ss
end

def NoDeadVarlProg (cfg : Cfg) (prog : List CStmt) : Bool :=
  NoDeadVarlSs { assigned := assignedOfList prog, cfg := cfg } prog

/-- the whole behaviour: the side condition for the configuration -/
def HSameProg (cfg : Cfg) (prog : List CStmt) : Bool :=
  HSameSs { assigned := assignedOfList prog, cfg := cfg } prog

end Rzil
