import RzilVerif.Model.Meta
/-
  Layer W (session): the compiler instance as a state machine over its public entry points.
  What `reset()` clears, where the entry points call it, and which attributes are class-level are
  REGENERATED facts (`Gen/CallbacksGen.lean`).  The per-behaviour lowering is abstracted: a behaviour
  contributes operands, immediates, pending hybrids, meta events and temporaries, and may fail after a
  prefix of its work; what is emitted is a function of everything present in the mutable state when
  the behaviour ends — which is how stale state becomes visible in the real output.
-/
namespace Rzil

/-- Mutable state reachable from one `RZILTransformer` (+ the class-level `preds_written`). -/
structure TState where
  ops : List String          -- il_ops_holder.read_ops/exec_ops/write_ops/let_ops (names, insertion order)
  opCount : Nat              -- il_ops_holder.op_count
  hybCount : Nat             -- il_ops_holder.hybrid_op_count (never reset)
  pending : List String      -- il_ops_holder.hybrid_effect_dict
  immSets : List String      -- imm_set_effect_list
  flags : Flags              -- extension flags; flags.preds is class-level (shared by every instance)
deriving Repr, Inhabited, DecidableEq

def TState.fresh : TState := { ops := [], opCount := 0, hybCount := 0, pending := [], immSets := [], flags := Flags.empty }

/-- Clean = what a fresh instance looks like, up to the temporary counter (renaming) and preds. -/
def TState.clean (s : TState) : Bool :=
  s.ops.isEmpty && s.opCount == 0 && s.pending.isEmpty && s.immSets.isEmpty && s.flags.on.isEmpty

/-- `RZILTransformer.reset()` as the regenerated tables describe it. -/
def tReset (s : TState) : TState :=
  let holderCleared := Gen.resetCalls.contains "il_ops_holder.clear"
  let clearsOps := holderCleared && ["read_ops", "exec_ops", "write_ops", "let_ops"].all Gen.holderClearCleared.contains
  { ops := if clearsOps then [] else s.ops,
    opCount := if holderCleared && Gen.holderClearCleared.contains "op_count" then 0 else s.opCount,
    hybCount := if holderCleared && Gen.holderClearCleared.contains "hybrid_op_count" then 0 else s.hybCount,
    pending := if Gen.resetCalls.contains "il_ops_holder.hybrid_effect_dict.clear" || (holderCleared && Gen.holderClearCleared.contains "hybrid_effect_dict") then [] else s.pending,
    immSets := if Gen.resetCalls.contains "imm_set_effect_list.clear" then [] else s.immSets,
    flags := if Gen.resetCalls.contains "ext.reset_flags" then resetFlags s.flags else s.flags }

/-- What one behaviour does to the state (abstract lowering). -/
structure Beh where
  ops : List String
  imms : List String
  pendingLeft : List String   -- hybrids still pending when the behaviour ends
  tmps : Nat                  -- temporaries allocated
  events : List MetaEvent
  failsAfter : Option Nat     -- `some k`: an exception is raised after the first k ops were added
deriving Repr, Inhabited, DecidableEq

/-- Emitted code + attributes: everything in the mutable state when the behaviour ends. Temporaries are
    reported relative to the counter at entry (consistent renaming). -/
structure Output where
  ops : List String
  immSets : List String
  leftover : List String
  tmps : Nat
  attrs : List String
deriving Repr, Inhabited, DecidableEq

/-- Run a behaviour on a state: `Except` = the exception path (state left as the failure leaves it). -/
def runBeh (s : TState) (b : Beh) : TState × Option Output :=
  match b.failsAfter with
  | some k =>
      ({ s with ops := s.ops ++ b.ops.take k, opCount := s.opCount + min k b.ops.length,
                immSets := s.immSets ++ b.imms.take k,
                flags := (b.events.take k).foldl applyEvent s.flags }, none)
  | none =>
      let s' : TState := { ops := s.ops ++ b.ops, opCount := s.opCount + b.ops.length, hybCount := s.hybCount + b.tmps,
                           pending := s.pending ++ b.pendingLeft, immSets := s.immSets ++ b.imms,
                           flags := b.events.foldl applyEvent s.flags }
      (s', some { ops := s'.ops, immSets := s'.immSets, leftover := s'.pending, tmps := b.tmps, attrs := getMeta s'.flags })

/-- Public entry points. -/
inductive Call where
  | cStmt (b : Beh)                 -- Compiler.compile_c_stmt
  | insn (parts : List Beh)         -- Compiler.transform_insn / compile_insn
  | subRoutine (b : Beh)            -- Compiler.compile_sub_routine / add_sub_routine (fresh transformer)
deriving Repr, Inhabited

/-- compile_c_stmt: transform, then reset — only after success unless the reset sits in a `finally`. -/
def stepCStmt (s : TState) (b : Beh) : TState × List (Option Output) :=
  let (s', out) := runBeh s b
  match out with
  | some o => (if Gen.cStmtResetAfterSuccess || Gen.cStmtResetInFinally then tReset s' else s', [some o])
  | none => (if Gen.cStmtResetInFinally then tReset s' else s', [none])

/-- transform_insn: per part reset (if the loop does it), transform; reset in `finally`. -/
def stepInsnParts (s : TState) : List Beh → TState × List (Option Output)
  | [] => (s, [])
  | b :: rest =>
      let s0 := if Gen.insnResetBeforeEachPart then tReset s else s
      let (s', out) := runBeh s0 b
      match out with
      | none => (s', [none])                       -- exception leaves the loop
      | some o =>
          let (s'', outs) := stepInsnParts s' rest
          (s'', some o :: outs)

def stepInsn (s : TState) (parts : List Beh) : TState × List (Option Output) :=
  let (s', outs) := stepInsnParts s parts
  (if Gen.insnResetInFinally then tReset s' else s', outs)

/-- `preds_written` is shared between instances only while it is a class-level list that no `__init__` shadows
    (regenerated facts). -/
def predsShared : Bool :=
  Gen.extClassAttrs.any (fun a => a.1 == "preds_written") && !(Gen.extInitAttrs.contains "preds_written")

def stepSub (s : TState) (b : Beh) : TState × List (Option Output) :=
  if Gen.subRoutineFreshTransformer then
    let (t, out) := runBeh { TState.fresh with flags := { on := [], preds := if predsShared then s.flags.preds else [] } } b
    ({ s with flags := { s.flags with preds := if predsShared then t.flags.preds else s.flags.preds } }, [out])
  else
    let (s', out) := runBeh s b
    (s', [out])

def step (s : TState) : Call → TState × List (Option Output)
  | .cStmt b => stepCStmt s b
  | .insn ps => stepInsn s ps
  | .subRoutine b => stepSub s b

/-- Run a history; returns the final state and all outputs. -/
def runHistory (s : TState) : List Call → TState × List (List (Option Output))
  | [] => (s, [])
  | c :: cs =>
      let (s', o) := step s c
      let (s'', os) := runHistory s' cs
      (s'', o :: os)

/-- The outputs of the LAST call of a history started on a fresh instance. -/
def lastOutputs (h : List Call) (c : Call) : List (Option Output) :=
  (step (runHistory TState.fresh h).1 c).2

end Rzil
