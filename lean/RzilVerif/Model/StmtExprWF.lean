import RzilVerif.Model.ExprWF
import RzilVerif.Model.StmtWF
/-
  Static (state-independent) version of the expression well-formedness `WFE`, relative to the static
  context `Ctx` of a behaviour: what remains to be checked on the program text once the state invariant
  `SInv` is known (composition layer of C02 and C05).
-/
namespace Rzil

def wfRegS (c : Ctx) (n : String) (k : RegKind) (t : CT) : Bool :=
  if k = .pc then t.width == 32
  else regWidthOfOpvar (opvarOf n k) == some t.width && (k != .src || c.srcs.contains (opvarOf n k))

def wfVarS (c : Ctx) (n : String) (t : CT) : Bool :=
  match lookupS n c.types with
  | some t' => t'.width == t.width
  | none => false

mutual
/-- `WFE` with the state replaced by the context: source registers are registered in `c.srcs`, immediates
    in `c.imms`, locals declared in `c.types` with the width the expression node carries -/
def WFES (c : Ctx) : CExpr → Bool
  | .reg n k t => wfRegS c n k t
  | .imm l _ => c.imms.contains l
  | .lit v _ _ => decide (v < 2 ^ 64)
  | .var n t => wfVarS c n t
  | .cast t e => WFES c e && !(isBoolE e && t.isU1)
  | .un _ e => WFES c e
  | .not e => WFES c e
  | .bin _ a b => WFES c a && WFES c b
  | .shift _ a b => WFES c a && WFES c b && !isBoolE b
  | .cmp _ a b => WFES c a && WFES c b
  | .log _ a b => WFES c a && WFES c b
  | .tern x a b => WFES c x && WFES c a && WFES c b
  | .macro name args ret params => WFESs c args params && macroRetOK name ret
  | .load _ _ _ => true
  | .post _ _ _ => false
  | .call _ _ _ _ => false
  | .stmtexpr _ _ _ => false
  | .seqexpr _ _ _ _ _ => false
  | .callx _ _ _ _ _ => false
  | .xmacro _ _ _ => false
def WFESs (c : Ctx) : List CExpr → List CT → Bool
  | [], _ => true
  | _ :: _, [] => true
  | a :: as, p :: ps => WFES c a && !(isBoolE a && p.isU1) && WFESs c as ps
end

end Rzil
