import RzilVerif.Model.Compile
import RzilVerif.Model.LoopTy
/-
  Layer A with the hybrid machinery (`resolve_hybrid`, `chk_hybrid_dep`, `hybrid_effect_dict`):
  postfix increment/decrement on locals, calls of registered sub-routines, statement-expressions.
  Superset of `compileExpr`/`compileStmt`: on hybrid-free programs it produces the same tree.
-/
namespace Rzil

/-- One entry of `hybrid_effect_dict`: the sequence is rendered when it is popped, so that
    `GCCStmtDeclExpr.update_stmt` (the BRANCH wrapper of a `?:` arm) can still change the exec part. -/
structure Pend where
  tmp : String
  deps : List ILEffect        -- pending sequences this one pulled in front of itself
  exec : ILEffect             -- the hybrid's effect part
  setTmp : ILEffect           -- SETL(h_tmpN, value)
  setFirst : Bool             -- SET_VAL_THEN_EXEC (postfix) vs EXEC_THEN_SET_VAL
  gcc : Bool                  -- owner is a statement-expression
deriving Repr, Inhabited

def Pend.render (p : Pend) : ILEffect :=
  let core := ILEffect.seqn (if p.setFirst then [p.setTmp, p.exec] else [p.exec, p.setTmp])
  mkSeq (p.deps ++ [core])

structure HSt where
  imms : List (String × Bool)     -- `imm_set_effect_list`: one entry per Immediate object created (duplicates possible)
  live : List String              -- immediates currently registered in `read_ops`
  hyb : Nat
  pending : List Pend
deriving Repr, Inhabited

def isHTmp (s : String) : Bool := s.startsWith "h_tmp"

/-- The Python `int` value of a LetVar: a folded comparison (`Bool`) counts as 0/1 (`isinstance(True, int)`),
    so the code also folds `literal + (1 < 2)` and the like. -/
def PKind.litVal : PKind → Option Int
  | .lit v => some v
  | .boolLit b => some (if b then 1 else 0)
  | _ => none

/-- `simplify_unary_expr` on a compiled operand with int value `v` (same arithmetic as `compileExpr`). -/
def foldUnCE (cfg : Cfg) (op : String) (ce : CE) (v : Int) : CE :=
  let pt := VT.promoted ce.ty
  if cfg.literalTypeBySuffixOnly then
    if op == "-" then
      let t : VT := { pt with signed := true }
      { il := numberIL t (-v), ty := t, kind := .lit (-v) }
    else { il := numberIL pt (-v - 1), ty := pt, kind := .lit (-v - 1) }
  else
    let r := normInt pt (if op == "-" then -(normInt pt v) else -(normInt pt v) - 1)
    { il := numberIL pt r, ty := pt, kind := .lit r }

/-- `simplify_arithmetic_expr` on compiled operands (only + - *; bit operations are not folded). -/
def foldBinCE (cfg : Cfg) (op : String) (ca cb : CE) (va vb : Int) : Option CE :=
  if op == "+" || op == "-" || op == "*" then
    let t := (VT.c11Cast ca.ty cb.ty).1
    let (va, vb) := if cfg.literalTypeBySuffixOnly then (va, vb) else (normInt t va, normInt t vb)
    let r := if op == "+" then va + vb else if op == "-" then va - vb else va * vb
    let r := if cfg.literalTypeBySuffixOnly then r else normInt t r
    some { il := numberIL t r, ty := t, kind := .lit r }
  else none

/-- `simplify_compare_expr` on compiled operands. -/
def foldCmpCE (cfg : Cfg) (op : String) (ca cb : CE) (va vb : Int) : CE :=
  let t := (VT.c11Cast ca.ty cb.ty).1
  let (va, vb) := if cfg.literalTypeBySuffixOnly then (va, vb) else (normInt t va, normInt t vb)
  let r := if op == "<" then decide (va < vb) else if op == ">" then decide (va > vb)
           else if op == "<=" then decide (va ≤ vb) else if op == ">=" then decide (va ≥ vb)
           else if op == "==" then decide (va = vb) else decide (va ≠ vb)
  { il := if r then .btrue else .bfalse, ty := { signed := false, width := 1, group := gBool }, kind := .boolLit r }

/-- The int value the code's `isinstance(x.get_val(), int)` test sees: under the code's configuration a folded
    comparison counts too; the repaired configuration folds plain literals only. -/
def foldVal (cfg : Cfg) (c : CE) : Option Int :=
  match c.kind with
  | .lit v => some v
  | k => if cfg.literalTypeBySuffixOnly then k.litVal else none

mutual
def tmpsOfPure : ILPure → List String
  | .varl n => if isHTmp n then [n] else []
  | .un _ a => tmpsOfPure a
  | .bin _ a b => tmpsOfPure a ++ tmpsOfPure b
  | .cast _ f a => tmpsOfPure f ++ tmpsOfPure a
  | .signed _ a => tmpsOfPure a
  | .unsigned _ a => tmpsOfPure a
  | .ite c a b => tmpsOfPure c ++ tmpsOfPure a ++ tmpsOfPure b
  | .let_ _ v b => tmpsOfPure v ++ tmpsOfPure b
  | .loadw _ a => tmpsOfPure a
  | .inc a _ => tmpsOfPure a
  | .dec a _ => tmpsOfPure a
  | .macro _ args => tmpsOfPures args
  | _ => []
def tmpsOfPures : List ILPure → List String
  | [] => []
  | a :: as => tmpsOfPure a ++ tmpsOfPures as
end

mutual
def tmpsOfEffect : ILEffect → List String
  | .setl n v => (if isHTmp n then [n] else []) ++ tmpsOfPure v
  | .writeReg _ _ v => tmpsOfPure v
  | .storew a v => tmpsOfPure a ++ tmpsOfPure v
  | .seqn es => tmpsOfEffects es
  | .branch c t e => tmpsOfPure c ++ tmpsOfEffect t ++ tmpsOfEffect e
  | .repeat_ c b => tmpsOfPure c ++ tmpsOfEffect b
  | .call _ args => tmpsOfPures args
  | _ => []
def tmpsOfEffects : List ILEffect → List String
  | [] => []
  | e :: es => tmpsOfEffect e ++ tmpsOfEffects es
end

/-- Pop the pending entries named among `leaves` (in leaf order). -/
def popPending (pending : List Pend) (leaves : List String) : List Pend × List Pend :=
  leaves.foldl (fun (acc : List Pend × List Pend) n =>
    match acc.2.find? (fun p => p.tmp == n) with
    | some p => (acc.1 ++ [p], acc.2.filter (fun q => q.tmp != n))
    | none => acc) ([], pending)

/-- `chk_hybrid_dep(effect)` with extra dependency carriers (bare temporaries of expression statements). -/
def chk (st : HSt) (e : ILEffect) (bare : List String) (after : Bool := false) : ILEffect × HSt :=
  let (popped, rest) := popPending st.pending (bare ++ tmpsOfEffect e)
  if popped.isEmpty then (e, st)
  else
    let deps := popped.map Pend.render
    -- the effect itself is never an `Empty` instance here (a Sequence that renders as EMPTY() is kept)
    ((if after then .seqn ([e] ++ deps) else .seqn (deps ++ [e])), { st with pending := rest })

/-- the pass-through arguments of a call (`bundle`, `HEX_REG_FIELD_USR_OVF`): printed verbatim -/
def extArgs (exts : List String) : List ILPure := exts.map (fun x => .ext (.id x))

/-- the effect of a call of a void sub-routine: `hex_<name>(exts…, args…)` -/
def vcallEffect (name : String) (exts : List String) (cargs : List ILPure) : ILEffect :=
  .call ("hex_" ++ name) (extArgs exts ++ cargs)

/-- the name of the effect a value call is lowered to: `get_npc` goes through the legacy `c_call` path
    (`HEX_GET_NPC`), every registered sub-routine is `hex_<name>` -/
def callxName (name : String) : String :=
  if name == "get_npc" then "HEX_GET_NPC" else "hex_" ++ name

/-- the effect of a value call with pass-through arguments: `hex_<name>(exts…, args…)` / `HEX_GET_NPC(pkt)` -/
def callxEffect (name : String) (exts : List String) (cargs : List ILPure) : ILEffect :=
  .call (callxName name) (extArgs exts ++ cargs)

def gccTmpOf (st : HSt) (c : CE) : Option String :=
  match c.il with
  | .varl n => if st.pending.any (fun p => p.tmp == n && p.gcc) then some n else none
  | _ => none

mutual
def compileExprH (env : CEnv) (st : HSt) : CExpr → Except String (CE × HSt)
  | .imm l s => do
      -- `imm`: an Immediate that is not (or no longer) in `read_ops` is created anew, with its own `imm_assign`
      let r ← compileExpr env (.imm l s)
      .ok (r, if st.live.contains l then st else { st with imms := st.imms ++ [(l, s)], live := st.live ++ [l] })
  | .cast t e => do
      let (ce, st) ← compileExprH env st e
      .ok ((if ce.ty.eqv t.toVT then ce else initACast env.cfg t.toVT ce), st)
  | .un op e => do
      let (ce, st) ← compileExprH env st e
      match foldVal env.cfg ce with
      | some v => .ok (foldUnCE env.cfg op ce v, st)
      | none =>
          let a := promotionCast env.cfg ce
          .ok ({ il := .un (if op == "-" then .neg else .lognot) a.il, ty := a.ty, kind := .plain }, st)
  | .not e => do
      let (ce, st) ← compileExprH env st e
      .ok ({ il := .un .inv (condIL env.cfg ce),
             ty := if env.cfg.boolOpTypedAsOperand then ce.ty else { signed := false, width := 1, group := gBool }, kind := .boolObj }, st)
  | .bin op a b => do
      let (ca, st) ← compileExprH env st a
      let (cb, st) ← compileExprH env st b
      match foldVal env.cfg ca, foldVal env.cfg cb with
      | some va, some vb =>
          (match foldBinCE env.cfg op ca cb va vb with
           | some r => .ok (r, st)
           | none => do let r ← compileBin env op ca cb; .ok (r, st))
      | _, _ => do let r ← compileBin env op ca cb; .ok (r, st)
  | .shift op a b => do
      let (ca, st) ← compileExprH env st a
      let (cb, st) ← compileExprH env st b
      let ca := if env.cfg.shiftLeftUnpromoted then ca else promotionCast env.cfg ca
      let o : BinOp := if op == "<<" then .shiftl0 else if ca.ty.signed then .shiftra else .shiftr0
      .ok ({ il := .bin o ca.il cb.il, ty := ca.ty, kind := .plain }, st)
  | .cmp op a b => do
      let (ca, st) ← compileExprH env st a
      let (cb, st) ← compileExprH env st b
      match foldVal env.cfg ca, foldVal env.cfg cb with
      | some va, some vb => .ok (foldCmpCE env.cfg op ca cb va vb, st)
      | _, _ =>
          let (ca, cb) := if env.cfg.cmpUnpromoted then (ca, cb) else (promotionCast env.cfg ca, promotionCast env.cfg cb)
          let (ca, cb) := castOperands env.cfg ca cb
          let sg := ca.ty.signed || cb.ty.signed
          let il : ILPure := match op with
            | "<" => .bin (if sg then .slt else .ult) ca.il cb.il
            | ">" => .bin (if sg then .sgt else .ugt) ca.il cb.il
            | "<=" => .bin (if sg then .sle else .ule) ca.il cb.il
            | ">=" => .bin (if sg then .sge else .uge) ca.il cb.il
            | "==" => .bin .eq ca.il cb.il
            | _ => .un .inv (.bin .eq ca.il cb.il)
          .ok ({ il := il, ty := { signed := false, width := 1, group := gBool }, kind := .boolObj }, st)
  | .log op a b => do
      let (ca, st) ← compileExprH env st a
      let (cb, st) ← compileExprH env st b
      let (ca, cb) := castOperands env.cfg ca cb
      .ok ({ il := .bin (if op == "&&" then .and else .or) (condIL env.cfg ca) (condIL env.cfg cb),
             ty := if env.cfg.boolOpTypedAsOperand then ca.ty else { signed := false, width := 1, group := gBool }, kind := .boolObj }, st)
  | .tern c a b => do
      let (cc, st) ← compileExprH env st c
      let (ca, st) ← compileExprH env st a
      let (cb, st) ← compileExprH env st b
      let fold : Option Bool := match cc.kind with
        | .lit v => some (v != 0)
        | .boolLit r => some r
        | _ => none
      match fold with
      | some live =>
          -- simplify_conditional_expr: the dead arm's top operand is removed by name; a pending temporary
          -- whose last reference goes takes its sequence with it
          let dead := if live then cb else ca
          let st := match dead.il with
            | .varl n => if isHTmp n then { st with pending := st.pending.filter (fun p => p.tmp != n) }
                         else if env.cfg.literalTypeBySuffixOnly then { st with live := st.live.filter (· != n) }   -- rm_op_by_name on an Immediate
                         else st
            | _ => st
          let (fa, fb) := if env.cfg.literalTypeBySuffixOnly then (ca, cb)
                          else castOperands env.cfg (promotionCast env.cfg ca) (promotionCast env.cfg cb)
          .ok ((if live then fa else fb), st)
      | none =>
          -- statement-expression arms get their statement wrapped in BRANCH(cond, stmt, EMPTY) / (…, EMPTY, stmt)
          let condB : ILPure := condILk cc
          let st := match gccTmpOf st ca with
            | some n => { st with pending := st.pending.map (fun p => if p.tmp == n then { p with exec := .branch condB p.exec .empty } else p) }
            | none => st
          let st := match gccTmpOf st cb with
            | some n => { st with pending := st.pending.map (fun p => if p.tmp == n then { p with exec := .branch condB .empty p.exec } else p) }
            | none => st
          let (ca, cb) := if env.cfg.cmpUnpromoted then (ca, cb) else (promotionCast env.cfg ca, promotionCast env.cfg cb)
          let (ca, cb) := castOperands env.cfg ca cb
          .ok ({ il := .ite (condIL env.cfg cc) ca.il cb.il, ty := ca.ty, kind := .plain }, st)
  | .macro name args _ params => do
      let (cargs, st) ← compileArgsH env st args params
      let ret : VT := match Gen.macroRows.find? (fun r => r.1 == name) with
        | some (_, _, some (.bv w), _) => { signed := (name == "sextract64"), width := w, group := 1 }
        | _ => { signed := false, width := 32, group := 1 }
      .ok ({ il := .macro (macroRzName name) cargs, ty := ret, kind := .plain }, st)
  | .post v t op => do
      let tmp := s!"h_tmp{st.hyb}"
      let exec : ILEffect := .setl v (if op == "++" then .inc (.varl v) t.width else .dec (.varl v) t.width)
      let p : Pend := { tmp := tmp, deps := [], exec := exec, setTmp := .setl tmp (.varl v), setFirst := true, gcc := false }
      .ok ({ il := .varl tmp, ty := t.toVT, kind := .plain }, { st with hyb := st.hyb + 1, pending := st.pending ++ [p] })
  | .call name args ret params => do
      let (cargs, st) ← compileArgsH env st args params
      let tmp := s!"h_tmp{st.hyb}"
      let st := { st with hyb := st.hyb + 1 }
      let exec : ILEffect := .call ("hex_" ++ name) cargs
      let rv : ILPure := if ret.signed then .signed ret.width (.varl "ret_val") else .unsigned ret.width (.varl "ret_val")
      -- chk_hybrid_dep on [exec, set_tmp]: pending sequences of the arguments are pulled in front
      let (popped, rest) := popPending st.pending (tmpsOfPures cargs)
      let p : Pend := { tmp := tmp, deps := popped.map Pend.render, exec := exec, setTmp := .setl tmp rv, setFirst := false, gcc := false }
      .ok ({ il := .varl tmp, ty := ret.toVT, kind := .plain }, { st with pending := rest ++ [p] })
  | .stmtexpr t v e => do
      let (ce, st) ← compileExprH env st e
      let ce := if ce.ty.eqv t.toVT then ce else initACast env.cfg t.toVT ce
      -- the inner declaration `T v = e;` (an Assignment, chk_hybrid_dep'ed), then the hybrid
      let (stmt, st) := chk st (.setl v ce.il) []
      let tmp := s!"h_tmp{st.hyb}"
      let st := { st with hyb := st.hyb + 1 }
      let p : Pend := { tmp := tmp, deps := [], exec := stmt, setTmp := .setl tmp (.varl v), setFirst := false, gcc := true }
      .ok ({ il := .varl tmp, ty := t.toVT, kind := .plain }, { st with pending := st.pending ++ [p] })
  | .seqexpr name exts args params val => do
      -- `({ name(exts…, args…); val; })`: a GCCStmtDeclExpr whose statement is the void call (an Effect that is
      -- not `chk_hybrid_dep`'ed on its own) and whose value is `val`; children are transformed left to right
      let (cargs, st) ← compileArgsH env st args params
      let (cv, st) ← compileExprH env st val
      let tmp := s!"h_tmp{st.hyb}"
      let st := { st with hyb := st.hyb + 1 }
      -- chk_hybrid_dep on [hybrid, set_tmp]: pending sequences of the arguments and of the value are pulled in front
      let (popped, rest) := popPending st.pending (tmpsOfPures cargs ++ tmpsOfPure cv.il)
      let p : Pend := { tmp := tmp, deps := popped.map Pend.render, exec := vcallEffect name exts cargs,
                        setTmp := .setl tmp cv.il, setFirst := false, gcc := true }
      .ok ({ il := .varl tmp, ty := cv.ty, kind := .plain }, { st with pending := rest ++ [p] })
  | .callx name exts args ret params => do
      -- a value call like `.call`, the pass-through tokens printed verbatim in front of the converted arguments
      -- (`hex_get_usr_field(bundle, HEX_REG_FIELD_USR_LPCFG)`, `HEX_GET_NPC(pkt)`, `hex_fcirc_add(bundle, Rx_op, …)`)
      let (cargs, st) ← compileArgsH env st args params
      let tmp := s!"h_tmp{st.hyb}"
      let st := { st with hyb := st.hyb + 1 }
      let rv : ILPure := if ret.signed then .signed ret.width (.varl "ret_val") else .unsigned ret.width (.varl "ret_val")
      let (popped, rest) := popPending st.pending (tmpsOfPures cargs)
      let p : Pend := { tmp := tmp, deps := popped.map Pend.render, exec := callxEffect name exts cargs, setTmp := .setl tmp rv,
                        setFirst := false, gcc := false }
      .ok ({ il := .varl tmp, ty := ret.toVT, kind := .plain }, { st with pending := rest ++ [p] })
  | .xmacro name exts ret =>
      -- a plugin macro of pass-through tokens only (`HEX_GET_CORRESPONDING_CS(pkt, Mu_op)`): a pure leaf
      .ok ({ il := .macro (macroRzName name) (extArgs exts), ty := ret.toVT, kind := .plain }, st)
  | e => do
      -- leaves and loads: no side effects
      let r ← compileExpr env e
      .ok (r, st)
def compileArgsH (env : CEnv) (st : HSt) : List CExpr → List CT → Except String (List ILPure × HSt)
  | [], _ => .ok ([], st)
  | _ :: _, [] => .error "arity"
  | a :: as, p :: ps => do
      let (ca, st) ← compileExprH env st a
      let ca := if ca.ty.eqv p.toVT then ca else initACast env.cfg p.toVT ca
      let (rest, st) ← compileArgsH env st as ps
      .ok (ca.il :: rest, st)
end

/-- The init effect `v = 0` of a `for` loop whose counter has type `lvt` (`loopVarTy`): the undeclared special
    identifiers (ut32) keep the shape tied to the code; a declared counter gets what the ordinary assignment
    `v = 0` to that typed local gives (`SETL(v, SN(32, 0))` for `int`, a `CAST` of it otherwise). -/
def forInitH (env : CEnv) (v : String) (lvt : CT) : Except String ILEffect :=
  if lvt == utT then .ok (.setl v (.cast 32 .bfalse (.const true 32 0)))
  else do
    let (eff, _) ← compileAssign env (.var v lvt) "=" { il := numberIL ⟨true, 32, 1⟩ 0, ty := ⟨true, 32, 1⟩, kind := .lit 0 }
    .ok eff

/-- The assignment target is visited before the source: an assignable immediate (`riV = riV & ~3`) is an
    `Immediate` object like any other occurrence of the letter and registers its `imm_assign`. -/
def regLhsH (st : HSt) : CExpr → HSt
  | .imm l s => if st.live.contains l then st else { st with imms := st.imms ++ [(l, s)], live := st.live ++ [l] }
  | _ => st

@[simp] theorem regLhsH_hyb (st : HSt) (lhs : CExpr) : (regLhsH st lhs).hyb = st.hyb := by
  cases lhs <;> simp only [regLhsH] <;> split <;> rfl

@[simp] theorem regLhsH_pending (st : HSt) (lhs : CExpr) : (regLhsH st lhs).pending = st.pending := by
  cases lhs <;> simp only [regLhsH] <;> split <;> rfl

/-- for a register or local target the visit of the target changes nothing -/
theorem regLhsH_of_not_imm (st : HSt) {lhs : CExpr} (h : ∀ l s, lhs ≠ .imm l s) : regLhsH st lhs = st := by
  cases lhs <;> first | rfl | exact absurd rfl (h _ _)

def assignSrcH (env : CEnv) (lhs : CExpr) (op : String) (ce : CE) : Except String (ILEffect × CE) :=
  compileAssign env lhs op ce

mutual
/-- Returns the statement's effect (`none`: the statement is a bare value, e.g. `i++;`) and the temporaries
    such a bare value carries. -/
def compileStmtH (env : CEnv) (st : HSt) : CStmt → Except String (Option ILEffect × List String × HSt)
  | .decl _ _ none => .ok (some .empty, [], st)
  | .decl t n (some e) => do
      let (ce, st) ← compileExprH env st e
      let ce := if ce.ty.eqv t.toVT then ce else initACast env.cfg t.toVT ce
      let (eff, st) := chk st (.setl n ce.il) []
      .ok (some eff, [], st)
  | .assign lhs op e => do
      let st := regLhsH st lhs
      let (ce, st) ← compileExprH env st e
      let (eff, _) ← compileAssign env lhs op ce
      let (eff, st) := chk st eff []
      .ok (some eff, [], st)
  | .chain lhs1 lhs2 op2 e => do
      let st := regLhsH (regLhsH st lhs1) lhs2
      let (ce, st) ← compileExprH env st e
      let (effInner, srcInner) ← compileAssign env lhs2 op2 ce
      let (effInner, st) := chk st effInner []
      let (effOuter, _) ← compileAssign env lhs1 "=" srcInner
      let (effOuter, st) := chk st effOuter []
      let (eff, st) := chk st (mkSeq [effOuter, effInner]) []
      .ok (some eff, [], st)
  | .store w e => do
      let (ce, st) ← compileExprH env st e
      let target : VT := { signed := false, width := w, group := 1 }
      let data : CE :=
        if ce.ty.hasFlag VT.gBOOL then (if target.eqv ce.ty then boolToInt env.cfg target ce else initACast env.cfg target ce)
        else { il := .cast w (if env.cfg.castFillNeedsBothSigned then .bfalse else (if ce.ty.signed then .un .msb ce.il else .bfalse)) ce.il,
               ty := target, kind := .plain }
      let (eff, st) := chk st (.storew (.varl "EA") data.il) []
      .ok (some eff, [], st)
  | .ite c t e => do
      let (cc, st) ← compileExprH env st c
      let (ts, tb, st) ← compileStmtsH env st t
      let (thenSeq, st) := chk st (mkSeq ts) tb
      match e with
      | none =>
          let (eff, st) := chk st (.branch (condIL env.cfg cc) thenSeq .empty) []
          .ok (some eff, [], st)
      | some e => do
          let (es, eb, st) ← compileStmtsH env st e
          let (elseSeq, st) := chk st (mkSeq es) eb
          let (eff, st) := chk st (.branch (condIL env.cfg cc) thenSeq elseSeq) []
          .ok (some eff, [], st)
  | .for_ v cond step body => do
      -- the counter's declared type (first `.var v t` of the condition; none: the special ut32 identifiers)
      let lvt := loopVarTy v cond
      let initEff ← forInitH env v lvt
      let (init, st) := chk st initEff []
      let (cc, st) ← compileExprH env st cond
      if step == 0 then do
        let (stepCE, st) ← compileExprH env st (.post v lvt "++")
        let stepTmp := match stepCE.il with | .varl n => [n] | _ => []
        let (bs, bb, st) ← compileStmtsH env st body
        let (compound, st) := chk st (mkSeq bs) (bb ++ stepTmp) true
        let (eff, st) := chk st (.seqn [init, .repeat_ (condIL env.cfg cc) compound]) []
        .ok (some eff, [], st)
      else do
        let (stepEff, _) ← compileAssign env (.var v lvt) "+=" { il := numberIL ⟨true, 32, 1⟩ step, ty := ⟨true, 32, 1⟩, kind := .lit step }
        let (bs, bb, st) ← compileStmtsH env st body
        let (compound, st) := chk st (mkSeq (bs ++ [stepEff])) bb true
        let (eff, st) := chk st (.seqn [init, .repeat_ (condIL env.cfg cc) compound]) []
        .ok (some eff, [], st)
  | .jump e => do
      let (ce, st) ← compileExprH env st e
      let ta := if ce.ty.width != 32 then initACast env.cfg { signed := false, width := 32, group := 1 } ce else ce
      let (eff, st) := chk st (.seqn [.setl "jump_flag" .btrue, .setl "jump_target" ta.il]) []
      .ok (some eff, [], st)
  | .exprstmt e => do
      let (ce, st) ← compileExprH env st e
      -- the statement is the value itself (not an Effect): it only carries its temporaries as dependencies
      .ok (none, tmpsOfPure ce.il, st)
  | .ret e => do
      let (ce, st) ← compileExprH env st e
      let src := if ce.ty.width != 64 then initACast env.cfg { signed := false, width := 64, group := 1 } ce else ce
      .ok (some (.setl "ret_val" src.il), [], st)
  | .vcall name exts args params => do
      -- a void SubRoutineCall is returned by `resolve_hybrid` as it is: an ordinary effect at the place of the
      -- statement; no `chk_hybrid_dep` of its own (pending temporaries of its arguments are pulled by the enclosing
      -- block's check, or stay pending until the end of the behaviour)
      let (cargs, st) ← compileArgsH env st args params
      .ok (some (vcallEffect name exts cargs), [], st)
  | .skip w =>
      if w == "cancel_slot;" then .ok (some .nop, [], st)
      else if w == "STORE_SLOT_CANCELLED(pkt, slot);" then
        .ok (some (.call "HEX_STORE_SLOT_CANCELLED" [.ext (.id "pkt"), .ext (.arrow (.id "hi") "slot")]), [], st)
      else .ok (some .empty, [], st)
def compileStmtsH (env : CEnv) (st : HSt) : List CStmt → Except String (List ILEffect × List String × HSt)
  | [] => .ok ([], [], st)
  | s :: ss => do
      let (e, b, st) ← compileStmtH env st s
      let (es, bs, st) ← compileStmtsH env st ss
      .ok ((match e with | some e => e :: es | none => es), b ++ bs, st)
end

/-- The whole behaviour: imm assignments, leftover pending hybrids (dict order), the statements' effects. -/
def compileProgH (cfg : Cfg) (prog : List CStmt) (hyb0 : Nat := 0) : Except String ILEffect := do
  let env : CEnv := { assigned := assignedOfList prog, cfg := cfg }
  let (es, _, st) ← compileStmtsH env { imms := [], live := [], hyb := hyb0, pending := [] } prog
  .ok (mkSeq (st.imms.map immSetEffect ++ st.pending.map Pend.render ++ es))

end Rzil
