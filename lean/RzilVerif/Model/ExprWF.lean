import RzilVerif.Model.Compile
/-
  Computable side conditions of the expression-lowering theorems (C02/C03/C09), to be evaluated by the driver
  on (state, expression) pairs: `WFE` (well-formedness of an expression in a state, hypothesis of
  `expr_correct_fixed`).
-/
namespace Rzil

/-- the type of comparison / logical results in the repaired lowering: `ut1` with the BOOL flag -/
def gBoolT : VT := { signed := false, width := 1, group := gBool }

/-- expressions whose compiled type carries the BOOL flag in the repaired lowering: `!`, comparisons, `&&`/`||` -/
def isBoolE : CExpr → Bool
  | .not _ => true
  | .cmp _ _ _ => true
  | .log _ _ _ => true
  | _ => false

/-- the 1-bit unsigned C type: a cast of a comparison result to it is returned unchanged (still BOOL-flagged) -/
def CT.isU1 (t : CT) : Bool := t.width == 1 && !t.signed

/-- register read: the operand's documented width is the declared C width; `RsV` not written -/
def wfReg (σ : MState) (n : String) (k : RegKind) (t : CT) : Bool :=
  if k = .pc then t.width == 32
  else regWidthOfOpvar (opvarOf n k) == some t.width && (k != .src || !σ.written (opvarOf n k))

/-- local variable: bound to a bit-vector of its declared width -/
def wfVar (σ : MState) (n : String) (t : CT) : Bool :=
  match lookupS n σ.locals with
  | some (.bv w _) => w == t.width
  | _ => false

/-- bit-vector return width of a macro by the macro table (`Gen.macroRows`), if it has one -/
def macroRetW (name : String) : Option Nat :=
  match Gen.macroRows.find? (fun r => r.1 == name) with
  | some (_, _, some (.bv w), _) => some w
  | _ => none

/-- the macro is in the table with a bit-vector result and the declared C return type is the table's -/
def macroRetOK (name : String) (ret : CT) : Bool :=
  match macroRetW name with
  | some w => ret.signed == (name == "sextract64") && ret.width == w
  | none => false

mutual
/-- Well-formedness of expression `e` in state `σ` (what `expr_correct_fixed` needs):
    * register: the operand's documented width (`regWidthOfOpvar`) is the declared C width (`pc`: 32 bit);
      a source register (`RsV`) has not been written by this instruction;
    * immediate: its local `VARL(letter)` holds the 32-bit immediate of the state;
    * literal: value below `2^64`;
    * local variable: bound to a bit-vector of its declared width;
    * cast: a comparison/logical result is not cast to a 1-bit unsigned type;
    * shift: the shift amount is not a comparison/logical result (`SHIFTL0(x, <bool>)` is ill-sorted);
    * macro call: see `WFEs` (arguments) — macro calls additionally need `MacroOK`. -/
def WFE (σ : MState) : CExpr → Bool
  | .reg n k t => wfReg σ n k t
  | .imm l _ => decide (lookupS l σ.locals = some (.bv 32 (BitVec.ofNat 32 (σ.imm l))))
  | .lit v _ _ => decide (v < 2 ^ 64)
  | .var n t => wfVar σ n t
  | .cast t e => WFE σ e && !(isBoolE e && t.isU1)
  | .un _ e => WFE σ e
  | .not e => WFE σ e
  | .bin _ a b => WFE σ a && WFE σ b
  | .shift _ a b => WFE σ a && WFE σ b && !isBoolE b
  | .cmp _ a b => WFE σ a && WFE σ b
  | .log _ a b => WFE σ a && WFE σ b
  | .tern c a b => WFE σ c && WFE σ a && WFE σ b
  | .macro name args ret params =>
      WFEs σ args params && macroRetOK name ret
  | .load _ _ _ => true
  | .post _ _ _ => false      -- value-producing side effects are outside the pure fragment
  | .call _ _ _ _ => false
  | .stmtexpr _ _ _ => false
  | .seqexpr _ _ _ _ _ => false
  | .callx _ _ _ _ _ => false
  | .xmacro _ _ _ => false
def WFEs (σ : MState) : List CExpr → List CT → Bool
  | [], _ => true
  | _ :: _, [] => true
  | a :: as, p :: ps => WFE σ a && !(isBoolE a && p.isU1) && WFEs σ as ps
end

end Rzil
