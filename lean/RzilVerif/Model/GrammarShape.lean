import RzilVerif.Model.Grammar
import RzilVerif.Gen.GrammarGen
/-
  Shape facts about the REGENERATED grammar: the expression tower of grammar.lark has C's levels, in C's
  order, left-recursive, with C's operators — and agrees with the operator table of the reference parser.
-/
namespace Rzil.GrammarShape

def rulesFor (name : String) : List (List String) :=
  (Gen.grammarRules.filter (fun r => r.1 == name)).map (fun r => r.2.1)

def termPattern (t : String) : Option String :=
  (Gen.terminalRows.find? (fun r => r.1 == t)).map (fun r => r.2.1)

/-- (level rule, next tighter rule, operator terminals), loosest first — C11 6.5.5 … 6.5.14 -/
def expectedTower : List (String × String × List String) :=
  [("logical_or_expr", "logical_and_expr", ["OR_OP"]),
   ("logical_and_expr", "inclusive_or_expr", ["AND_OP"]),
   ("inclusive_or_expr", "exclusive_or_expr", ["BIT_OR_OP"]),
   ("exclusive_or_expr", "and_expr", ["BIT_XOR_OP"]),
   ("and_expr", "equality_expr", ["BIT_AND_OP"]),
   ("equality_expr", "relational_expr", ["EQ_OP", "NE_OP"]),
   ("relational_expr", "shift_expr", ["LT_OP", "GT_OP", "LE_OP", "GE_OP"]),
   ("shift_expr", "additive_expr", ["LEFT_OP", "RIGHT_OP"]),
   ("additive_expr", "multiplicative_expr", ["ADD_OP", "SUB_OP"]),
   ("multiplicative_expr", "cast_expr", ["MUL_OP", "DIV_OP", "MOD_OP"])]

/-- level `L: N | L OP N | …` exactly (left recursive, in this order) -/
def levelOk (l : String × String × List String) : Bool :=
  rulesFor l.1 == [l.2.1] :: l.2.2.map (fun o => [l.1, o, l.2.1])

def towerOk : Bool := expectedTower.all levelOk

/-- every operator terminal of level k has the spelling the reference parser files under level k -/
def opsAgree : Bool :=
  (expectedTower.zipIdx).all (fun (l, k) =>
    l.2.2.all (fun o => match termPattern o with
      | some p => Grammar.binLevel p == some k
      | none => false))

def restOk : Bool :=
  rulesFor "conditional_expr" == [["logical_or_expr"], ["logical_or_expr", "QMARK", "expr", "COLON", "conditional_expr"]] &&
  rulesFor "assignment_expr" == [["conditional_expr"], ["unary_expr", "ASSIGN_OP", "assignment_expr"]] &&
  rulesFor "cast_expr" == [["unary_expr"], ["LPAR", "type_name", "RPAR", "cast_expr"]] &&
  (rulesFor "unary_expr").contains ["UNARY_OP", "cast_expr"] &&
  (rulesFor "postfix_expr").contains ["postfix_expr", "INC_OP"] && (rulesFor "postfix_expr").contains ["postfix_expr", "DEC_OP"] &&
  (rulesFor "primary_expr").contains ["LPAR", "expr", "RPAR"]

/-- statement rules: the two `if` alternatives (the grammar is ambiguous on dangling else) -/
def selectionRules : List (List String) := rulesFor "selection_stmt"

end Rzil.GrammarShape
