import RzilVerif.Model.CText
/-
  RzIL abstract syntax as emitted by the compiler (structured), conversion from the generic `Term`
  of the emitted text (`ofTerm`) and back (`toTerm`).
-/
namespace Rzil

inductive UnOp where
  | lognot | neg | msb | nonZero | inv
deriving Repr, DecidableEq, Inhabited

inductive BinOp where
  | add | sub | mul | div | mod | logand | logor | logxor
  | shiftl0 | shiftr0 | shiftra
  | eq | ult | ule | ugt | uge | slt | sle | sgt | sge
  | and | or
deriving Repr, DecidableEq, Inhabited

def UnOp.name : UnOp → String
  | .lognot => "LOGNOT" | .neg => "NEG" | .msb => "MSB" | .nonZero => "NON_ZERO" | .inv => "INV"

def BinOp.name : BinOp → String
  | .add => "ADD" | .sub => "SUB" | .mul => "MUL" | .div => "DIV" | .mod => "MOD"
  | .logand => "LOGAND" | .logor => "LOGOR" | .logxor => "LOGXOR"
  | .shiftl0 => "SHIFTL0" | .shiftr0 => "SHIFTR0" | .shiftra => "SHIFTRA"
  | .eq => "EQ" | .ult => "ULT" | .ule => "ULE" | .ugt => "UGT" | .uge => "UGE"
  | .slt => "SLT" | .sle => "SLE" | .sgt => "SGT" | .sge => "SGE"
  | .and => "AND" | .or => "OR"

def unOpOfName : String → Option UnOp
  | "LOGNOT" => some .lognot | "NEG" => some .neg | "MSB" => some .msb
  | "NON_ZERO" => some .nonZero | "INV" => some .inv | _ => none

def binOpOfName : String → Option BinOp
  | "ADD" => some .add | "SUB" => some .sub | "MUL" => some .mul | "DIV" => some .div | "MOD" => some .mod
  | "LOGAND" => some .logand | "LOGOR" => some .logor | "LOGXOR" => some .logxor
  | "SHIFTL0" => some .shiftl0 | "SHIFTR0" => some .shiftr0 | "SHIFTRA" => some .shiftra
  | "EQ" => some .eq | "ULT" => some .ult | "ULE" => some .ule | "UGT" => some .ugt | "UGE" => some .uge
  | "SLT" => some .slt | "SLE" => some .sle | "SGT" => some .sgt | "SGE" => some .sge
  | "AND" => some .and | "OR" => some .or | _ => none

/-- A register operand as the text names it: the C variable holding the `HexOp` (its name encodes
    class/letters, e.g. `Rss_op`), whether it is used through `&`, and the slot look-up term. -/
structure RegRef where
  opvar : String
  deref : Bool
deriving Repr, DecidableEq, Inhabited

inductive ILPure where
  | const (sn : Bool) (w : Nat) (v : Int)                 -- SN(w, v) / UN(w, v)
  | imm (sn : Bool) (w : Nat) (cty : String) (letter : String)   -- SN(32, (st32) ISA2IMM(hi, 's'))
  | btrue | bfalse
  | varl (n : String) | varlp (n : String)
  | readReg (r : RegRef) (new : Bool)                     -- READ_REG(pkt, op, new)
  | pktAddr                                               -- U32(pkt->pkt_addr)
  | param (n : String)                                    -- borrowed pure parameter / bare C variable
  | un (op : UnOp) (a : ILPure)
  | bin (op : BinOp) (a b : ILPure)
  | cast (w : Nat) (fill a : ILPure)
  | signed (w : Nat) (a : ILPure) | unsigned (w : Nat) (a : ILPure)
  | ite (c a b : ILPure)
  | let_ (n : String) (v body : ILPure)
  | loadw (n : Nat) (addr : ILPure)
  | inc (a : ILPure) (w : Nat) | dec (a : ILPure) (w : Nat)
  | macro (name : String) (args : List ILPure)            -- plugin macro / function of pures
  | ext (t : Term)                                        -- non-IL operand (hi, pkt, enum constants, &op, strings)
deriving Repr, Inhabited, BEq

inductive ILEffect where
  | setl (n : String) (v : ILPure)
  | writeReg (ctx : String) (r : RegRef) (v : ILPure)     -- WRITE_REG(bundle|pkt, op, v)
  | storew (a v : ILPure)
  | seqn (es : List ILEffect)
  | branch (c : ILPure) (t e : ILEffect)
  | repeat_ (c : ILPure) (body : ILEffect)
  | empty | nop
  | call (name : String) (args : List ILPure)             -- hex_<name>(args) or HEX_*/other effectful macro
deriving Repr, Inhabited, BEq

/-- Upper-case plugin constants (enum members, TRUE/FALSE macros). -/
def isPluginConst (x : String) : Bool :=
  x == "true" || x == "false" || x == "IL_TRUE" || x == "IL_FALSE" || x == "NULL" ||
  ((x.startsWith "HEX_" || x.startsWith "RZ_") && x.all (fun c => c.isUpper || c.isDigit || c == '_'))

/-! ### Term → IL -/

def regRefOfTerm : Term → Option RegRef
  | .id x => some { opvar := x, deref := false }
  | .addr (.id x) => some { opvar := x, deref := true }
  | _ => none

def boolOfTerm : Term → Option Bool
  | .id "true" => some true | .id "false" => some false | _ => none

def natOfTerm : Term → Option Nat
  | .num n => if n ≥ 0 then some n.toNat else none
  | _ => none

mutual
def pureOfTerm : Term → ILPure
  | .app "SN" [w, .ccast cty (.app "ISA2IMM" [.id "hi", .chr l])] =>
      match natOfTerm w with | some w => .imm true w cty l | none => .ext (.id "?")
  | .app "UN" [w, .ccast cty (.app "ISA2IMM" [.id "hi", .chr l])] =>
      match natOfTerm w with | some w => .imm false w cty l | none => .ext (.id "?")
  | .app "SN" [.num w, .num v] => .const true w.toNat v
  | .app "UN" [.num w, .num v] => .const false w.toNat v
  | .id "IL_TRUE" => .btrue
  | .id "IL_FALSE" => .bfalse
  | .app "VARL" [.str n] => .varl n
  | .app "VARLP" [.str n] => .varlp n
  | .app "READ_REG" [.id "pkt", r, nw] =>
      match regRefOfTerm r, boolOfTerm nw with
      | some r, some nw => .readReg r nw
      | _, _ => .ext (.app "READ_REG" [.id "pkt", r, nw])
  | .app "U32" [.arrow (.id "pkt") "pkt_addr"] => .pktAddr
  | .app "CAST" [.num w, fill, a] => .cast w.toNat (pureOfTerm fill) (pureOfTerm a)
  | .app "SIGNED" [.num w, a] => .signed w.toNat (pureOfTerm a)
  | .app "UNSIGNED" [.num w, a] => .unsigned w.toNat (pureOfTerm a)
  | .app "ITE" [c, a, b] => .ite (pureOfTerm c) (pureOfTerm a) (pureOfTerm b)
  | .app "LET" [.str n, v, b] => .let_ n (pureOfTerm v) (pureOfTerm b)
  | .app "LOADW" [.num n, a] => .loadw n.toNat (pureOfTerm a)
  | .app "INC" [a, .num w] => .inc (pureOfTerm a) w.toNat
  | .app "DEC" [a, .num w] => .dec (pureOfTerm a) w.toNat
  | .app f [a] =>
      match unOpOfName f with
      | some op => .un op (pureOfTerm a)
      | none => .macro f [pureOfTerm a]
  | .app f [a, b] =>
      match binOpOfName f with
      | some op => .bin op (pureOfTerm a) (pureOfTerm b)
      | none => .macro f [pureOfTerm a, pureOfTerm b]
  | .app f args => .macro f (puresOfTerms args)
  | .id x => .param x
  | t => .ext t
def puresOfTerms : List Term → List ILPure
  | [] => []
  | t :: ts => pureOfTerm t :: puresOfTerms ts
end

mutual
def effectOfTerm : Term → ILEffect
  | .app "SETL" [.str n, v] => .setl n (pureOfTerm v)
  | .app "WRITE_REG" [.id c, r, v] =>
      match regRefOfTerm r with
      | some r => .writeReg c r (pureOfTerm v)
      | none => .call "WRITE_REG" [.ext (.id c), .ext r, pureOfTerm v]
  | .app "STOREW" [a, v] => .storew (pureOfTerm a) (pureOfTerm v)
  | .app "SEQN" (_ :: es) => .seqn (effectsOfTerms es)
  | .app "SEQ2" [a, b] => .seqn [effectOfTerm a, effectOfTerm b]
  | .app "BRANCH" [c, t, e] => .branch (pureOfTerm c) (effectOfTerm t) (effectOfTerm e)
  | .app "REPEAT" [c, b] => .repeat_ (pureOfTerm c) (effectOfTerm b)
  | .app "EMPTY" [] => .empty
  | .app "NOP" [] => .nop
  | .app f args => .call f (puresOfTerms args)
  | t => .call "?" [.ext t]
def effectsOfTerms : List Term → List ILEffect
  | [] => []
  | t :: ts => effectOfTerm t :: effectsOfTerms ts
end

-- The `SEQN(n, …)` count rule of C10, checked on the raw term (the structured form forgets `n`).
mutual
def seqnCountsOk : Term → Bool
  | .app "SEQN" (.num n :: es) => (n == (es.length : Int)) && seqnCountsOkList es
  | .app "SEQN" _ => false
  | .app _ args => seqnCountsOkList args
  | .addr t => seqnCountsOk t
  | .ccast _ t => seqnCountsOk t
  | .arrow t _ => seqnCountsOk t
  | _ => true
def seqnCountsOkList : List Term → Bool
  | [] => true
  | t :: ts => seqnCountsOk t && seqnCountsOkList ts
end

/-! ### IL → Term (printer used for the model's outputs) -/

def RegRef.toTerm (r : RegRef) : Term := if r.deref then .addr (.id r.opvar) else .id r.opvar
def boolTerm (b : Bool) : Term := .id (if b then "true" else "false")

mutual
def ILPure.toTerm : ILPure → Term
  | .const sn w v => .app (if sn then "SN" else "UN") [.num w, .num v]
  | .imm sn w cty l => .app (if sn then "SN" else "UN") [.num w, .ccast cty (.app "ISA2IMM" [.id "hi", .chr l])]
  | .btrue => .id "IL_TRUE"
  | .bfalse => .id "IL_FALSE"
  | .varl n => .app "VARL" [.str n]
  | .varlp n => .app "VARLP" [.str n]
  | .readReg r nw => .app "READ_REG" [.id "pkt", r.toTerm, boolTerm nw]
  | .pktAddr => .app "U32" [.arrow (.id "pkt") "pkt_addr"]
  | .param n => .id n
  | .un op a => .app op.name [a.toTerm]
  | .bin op a b => .app op.name [a.toTerm, b.toTerm]
  | .cast w f a => .app "CAST" [.num w, f.toTerm, a.toTerm]
  | .signed w a => .app "SIGNED" [.num w, a.toTerm]
  | .unsigned w a => .app "UNSIGNED" [.num w, a.toTerm]
  | .ite c a b => .app "ITE" [c.toTerm, a.toTerm, b.toTerm]
  | .let_ n v b => .app "LET" [.str n, v.toTerm, b.toTerm]
  | .loadw n a => .app "LOADW" [.num n, a.toTerm]
  | .inc a w => .app "INC" [a.toTerm, .num w]
  | .dec a w => .app "DEC" [a.toTerm, .num w]
  | .macro f args => .app f (puresToTerms args)
  | .ext t => t
def puresToTerms : List ILPure → List Term
  | [] => []
  | p :: ps => p.toTerm :: puresToTerms ps
end

mutual
def ILEffect.toTerm : ILEffect → Term
  | .setl n v => .app "SETL" [.str n, v.toTerm]
  | .writeReg c r v => .app "WRITE_REG" [.id c, r.toTerm, v.toTerm]
  | .storew a v => .app "STOREW" [a.toTerm, v.toTerm]
  | .seqn es => .app "SEQN" (.num es.length :: effectsToTerms es)
  | .branch c t e => .app "BRANCH" [c.toTerm, t.toTerm, e.toTerm]
  | .repeat_ c b => .app "REPEAT" [c.toTerm, b.toTerm]
  | .empty => .app "EMPTY" []
  | .nop => .app "NOP" []
  | .call f args => .app f (puresToTerms args)
def effectsToTerms : List ILEffect → List Term
  | [] => []
  | e :: es => e.toTerm :: effectsToTerms es
end

end Rzil
