import RzilVerif.Model.CSem
import RzilVerif.Model.LoopTy
/-
  C side with value-producing side effects (postfix increment and decrement, sub-routine calls, statement-expressions):
  expressions thread the machine state, sub-expressions are evaluated left to right (the theorems and
  the search only judge programs without interference between unsequenced side effects).
  Superset of `evalC`/`execC`: on hybrid-free programs both coincide.
-/
namespace Rzil

/-- C-side meaning of the bundled sub-routines (independent reference implementations) and of generated
    routines (their own AST): name ↦ (parameter names, parameter types, return type, body). -/
structure CSub where
  params : List (String × CT)
  ret : CT
  body : List CStmt
  -- register operands the routine takes BY REFERENCE (`const HexOp *RxV`), as operand variables (`Rx_op`): the
  -- routine's own `RxV` names the operand slot handed over by the caller
  refs : List String := []
deriving Repr, Inhabited

abbrev CSubEnv := List (String × CSub)

def clzNat (w : Nat) (x : Nat) : Nat :=
  (List.range w).foldl (fun acc i => if x / 2 ^ (w - 1 - i) % 2 == 1 && acc == w then i else acc) w |> fun r => if x % 2 ^ w == 0 then w else r

def revBits (w : Nat) (x : Nat) : Nat :=
  (List.range w).foldl (fun acc i => acc + (x / 2 ^ i % 2) * 2 ^ (w - 1 - i)) 0

/-- Reference meaning of the bundled routines that have a closed form. -/
def builtinSub (name : String) (args : List Val) : Option Val :=
  let nat := fun (v : Val) => match v with | .bv _ x => x.toNat | _ => 0
  match name, args with
  | "clz32", [a] => some (.bv 32 (BitVec.ofNat 32 (clzNat 32 (nat a % 2 ^ 32))))
  | "clz64", [a] => some (.bv 64 (BitVec.ofNat 64 (clzNat 64 (nat a % 2 ^ 64))))
  | "clo32", [a] => some (.bv 32 (BitVec.ofNat 32 (clzNat 32 ((2 ^ 32 - 1 - nat a % 2 ^ 32)))))
  | "clo64", [a] => some (.bv 64 (BitVec.ofNat 64 (clzNat 64 ((2 ^ 64 - 1 - nat a % 2 ^ 64)))))
  | "revbit16", [a] => some (.bv 16 (BitVec.ofNat 16 (revBits 16 (nat a % 2 ^ 16))))
  | "revbit32", [a] => some (.bv 32 (BitVec.ofNat 32 (revBits 32 (nat a % 2 ^ 32))))
  | "revbit64", [a] => some (.bv 64 (BitVec.ofNat 64 (revBits 64 (nat a % 2 ^ 64))))
  | "fbrev", [a] =>
      let x := nat a % 2 ^ 32
      some (.bv 32 (BitVec.ofNat 32 ((x / 2 ^ 16) * 2 ^ 16 + revBits 16 (x % 2 ^ 16))))
  | _, _ => none

/-- C-side meaning of the void sub-routines, on converted arguments.  `set_usr_field(bundle, FIELD, v)` is read at
    the level of its specification (`ILSem.lean`, `writeUsr`): the 32-bit value goes to the abstract cell of the field;
    `trap(type, imm)` has no observable effect (its bundled body computes an unused local). -/
def voidCallC (name : String) (exts : List String) (vs : List Val) (σ : MState) : Except Stuck MState :=
  match name, exts, vs with
  | "set_usr_field", [_, fld], [v] => writeUsr σ fld v
  | "trap", [], [_, _] => .ok σ
  | _, _, _ => .error (.undef name)

/-- C-side meaning of the value calls that are read at the level of their specification (TRUSTED; the IL side reads
    them the same way, `ILSem.lean`: `getUsrFieldIL`, `HEX_GET_NPC`):
    `get_usr_field(bundle, FIELD)` is the 32-bit content of the abstract cell of the field (what this instruction wrote
    to it, else its value before the instruction); `get_npc(pkt)` is the address behind the packet, taken as the packet
    address + 4. -/
def specCallC (name : String) (exts : List String) (σ : MState) : Option Val :=
  match name, exts with
  | "get_usr_field", [_, fld] => some (.bv 32 (usrVal σ fld))
  | "get_npc", [_] => some (.bv 32 (BitVec.ofNat 32 (σ.pktAddr + 4)))
  | _, _ => none

/-- the pass-through tokens of a call that hand a register operand over by reference (operand variables) -/
def refArgs (exts : List String) : List String := exts.filter (fun x => x.endsWith "_op")

mutual
/-- Effectful expression evaluation (fuel bounds calls into generated routines). -/
def evalCH (ms : MacroSem) (subs : CSubEnv) : Nat → MState → CExpr → Except Stuck (Val × MState)
  | 0, _, _ => .error .fuel
  | fuel+1, σ, e =>
    match e with
    | .reg n k t => .ok (readRegC σ n k t, σ)
    | .imm l _ => .ok (.bv 32 (BitVec.ofNat 32 (σ.imm l)), σ)
    | .lit v h sfx => let t := litTypeC v h sfx; .ok (.bv t.width (BitVec.ofNat t.width v), σ)
    | .var n _ => match lookupS n σ.locals with
        | some v => .ok (v, σ)
        | none => .error (.unbound n)
    | .cast t e => do
        let (v, σ) ← evalCH ms subs fuel σ e
        let v ← convC (typeOfC e) t v
        .ok (v, σ)
    | .un op e => do
        let (v, σ) ← evalCH ms subs fuel σ e
        let t := (typeOfC e).promote
        let v ← convC (typeOfC e) t v
        match v with
        | .bv w x => if op == "-" then .ok (.bv w (-x), σ) else .ok (.bv w (~~~x), σ)
        | _ => .error (.sort "unary")
    | .not e => do
        let (v, σ) ← evalCH ms subs fuel σ e
        let b ← truthy v
        .ok (boolVal (!b), σ)
    | .bin op a b => do
        let (va, σ) ← evalCH ms subs fuel σ a
        let (vb, σ) ← evalCH ms subs fuel σ b
        let t := (typeOfC a).common (typeOfC b)
        let va ← convC (typeOfC a) t va
        let vb ← convC (typeOfC b) t vb
        let r ← (match op with
          | "+" => evalBin .add va vb
          | "-" => evalBin .sub va vb
          | "*" => evalBin .mul va vb
          | "&" => evalBin .logand va vb
          | "|" => evalBin .logor va vb
          | "^" => evalBin .logxor va vb
          | _ => .error (.undef op))
        .ok (r, σ)
    | .shift op a b => do
        let (va, σ) ← evalCH ms subs fuel σ a
        let (vb, σ) ← evalCH ms subs fuel σ b
        let t := (typeOfC a).promote
        let va ← convC (typeOfC a) t va
        match va, vb with
        | .bv w x, .bv _ y =>
            let tb := typeOfC b
            if (tb.signed && y.msb) || y.toNat ≥ w then .error (.undef "shift amount")
            else if op == "<<" then .ok (.bv w (x <<< y.toNat), σ)
            else if t.signed then .ok (.bv w (x.sshiftRight y.toNat), σ) else .ok (.bv w (x >>> y.toNat), σ)
        | _, _ => .error (.sort "shift")
    | .cmp op a b => do
        let (va, σ) ← evalCH ms subs fuel σ a
        let (vb, σ) ← evalCH ms subs fuel σ b
        let t := (typeOfC a).common (typeOfC b)
        let va ← convC (typeOfC a) t va
        let vb ← convC (typeOfC b) t vb
        match va, vb with
        | .bv wa x, .bv wb y =>
            if h : wa = wb then .ok (boolVal (cmpC op t.signed x (h ▸ y)), σ) else .error (.sort "compare")
        | _, _ => .error (.sort "compare")
    | .log op a b => do
        -- short circuit: the right operand is evaluated only when needed
        let (va, σ) ← evalCH ms subs fuel σ a
        let ba ← truthy va
        if op == "&&" && !ba then .ok (boolVal false, σ)
        else if op == "||" && ba then .ok (boolVal true, σ)
        else do
          let (vb, σ) ← evalCH ms subs fuel σ b
          let bb ← truthy vb
          .ok (boolVal bb, σ)
    | .tern c a b => do
        let (vc, σ) ← evalCH ms subs fuel σ c
        let bc ← truthy vc
        let t := (typeOfC a).common (typeOfC b)
        if bc then do
          let (va, σ) ← evalCH ms subs fuel σ a
          let va ← convC (typeOfC a) t va
          .ok (va, σ)
        else do
          let (vb, σ) ← evalCH ms subs fuel σ b
          let vb ← convC (typeOfC b) t vb
          .ok (vb, σ)
    | .macro name args _ params => do
        let (vs, σ) ← evalCHArgs ms subs fuel σ args params
        match ms name vs with
        | some v => .ok (v, σ)
        | none => .error (.undef name)
    | .load s w t => do
        match lookupS "EA" σ.locals with
        | some (.bv _ ea) =>
            let raw : Val := .bv w (BitVec.ofNat w (loadBytes σ.mem ea.toNat (w / 8)))
            let v ← convC { signed := s, width := w } t raw
            .ok (v, σ)
        | _ => .error (.unbound "EA")
    | .post v _ op => do
        match lookupS v σ.locals with
        | some (.bv w x) =>
            .ok (.bv w x, { σ with locals := setLocal σ.locals v (.bv w (if op == "++" then x + 1 else x - 1)) })
        | _ => .error (.unbound v)
    | .call name args ret params => do
        let (vs, σ) ← evalCHArgs ms subs fuel σ args params
        match lookupS name subs with
        | some sub =>
            -- call by value into the routine's own scope; only its return value comes back
            let σc : MState := { σ with locals := (sub.params.map (·.1)).zip vs }
            let σr ← execCHs ms subs fuel sub.body σc
            match lookupS "$ret" σr.locals with
            | some v => do
                let v ← convC { signed := false, width := 64 } sub.ret v
                .ok (v, { σ with mem := σr.mem, stores := σr.stores, new := σr.new, written := σr.written })
            | none => .error (.undef "routine without return value")
        | none =>
          match builtinSub name vs with
          | some v => .ok (.bv ret.width (BitVec.ofNat ret.width (match v with | .bv _ x => x.toNat | _ => 0)), σ)
          | none => .error (.undef name)
    | .stmtexpr t v e => do
        let (x, σ) ← evalCH ms subs fuel σ e
        let x ← convC (typeOfC e) t x
        .ok (x, { σ with locals := setLocal σ.locals v x })
    | .seqexpr name exts args params val => do
        -- the call statement (arguments converted to the parameter types, left to right), then the value
        let (vs, σ) ← evalCHArgs ms subs fuel σ args params
        let σ ← voidCallC name exts vs σ
        evalCH ms subs fuel σ val
    | .callx name exts args ret params => do
        let (vs, σ) ← evalCHArgs ms subs fuel σ args params
        match specCallC name exts σ with
        | some v => .ok (v, σ)
        | none =>
          match lookupS name subs with
          | some sub =>
              -- by-reference operands: the routine's body names the operand slot by its OWN parameter (`RxV`), so the
              -- call is given a meaning only when the caller hands over the operand of that very name (then the
              -- routine's reads and writes of `RxV` are reads and writes of the caller's slot: `new`/`written` come back)
              if refArgs exts != sub.refs then .error (.undef "by-reference operand handed over under another name")
              else
                let σc : MState := { σ with locals := (sub.params.map (·.1)).zip vs }
                let σr ← execCHs ms subs fuel sub.body σc
                match lookupS "$ret" σr.locals with
                | some v => do
                    let v ← convC { signed := false, width := 64 } sub.ret v
                    .ok (v, { σ with mem := σr.mem, stores := σr.stores, new := σr.new, written := σr.written })
                | none => .error (.undef "routine without return value")
          | none => .error (.undef name)
    | .xmacro name exts _ =>
        -- an uninterpreted function of its (payload-free) pass-through arguments, shared with the IL side
        match ms name (exts.map (fun _ => Val.ext)) with
        | some v => .ok (v, σ)
        | none => .error (.undef name)
def evalCHArgs (ms : MacroSem) (subs : CSubEnv) : Nat → MState → List CExpr → List CT → Except Stuck (List Val × MState)
  | 0, _, _, _ => .error .fuel
  | _+1, σ, [], _ => .ok ([], σ)
  | _+1, _, _ :: _, [] => .error (.sort "arity")
  | fuel+1, σ, a :: as, p :: ps => do
      let (v, σ) ← evalCH ms subs fuel σ a
      let v ← convC (typeOfC a) p v
      let (vs, σ) ← evalCHArgs ms subs fuel σ as ps
      .ok (v :: vs, σ)
def execCH (ms : MacroSem) (subs : CSubEnv) : Nat → CStmt → MState → Except Stuck MState
  | 0, _, _ => .error .fuel
  | fuel+1, s, σ =>
    match s with
    | .decl _ _ none => .ok σ
    | .decl t n (some e) => do
        let (v, σ) ← evalCH ms subs fuel σ e
        let v ← convC (typeOfC e) t v
        .ok { σ with locals := setLocal σ.locals n v }
    | .assign lhs op e => do
        let rhs := compoundExpr lhs op e
        let (v, σ) ← evalCH ms subs fuel σ rhs
        let v ← convC (typeOfC rhs) (typeOfC lhs) v
        match lhs with
        | .var n _ => .ok { σ with locals := setLocal σ.locals n v }
        | .reg n k _ => writeRegC σ n k v
        | .imm l _ => (match v with
            -- the immediate is an ordinary variable of the behaviour, initialised from the encoding
            | .bv _ x => .ok { σ with imm := fun q => if q == l then x.toNat else σ.imm q }
            | _ => .error (.sort "immediate write"))
        | _ => .error (.undef "assignment target")
    | .chain lhs1 lhs2 op2 e => do
        let σ1 ← execCH ms subs fuel (.assign lhs2 op2 e) σ
        execCH ms subs fuel (.assign lhs1 "=" lhs2) σ1
    | .store w e => do
        let (v, σ) ← evalCH ms subs fuel σ e
        let v ← convC (typeOfC e) { signed := false, width := w } v
        match lookupS "EA" σ.locals, v with
        | some (.bv _ ea), .bv _ x =>
            .ok { σ with mem := storeBytes σ.mem ea.toNat x.toNat (w / 8), stores := ea.toNat :: σ.stores }
        | _, _ => .error (.unbound "EA")
    | .ite c t e => do
        let (vc, σ) ← evalCH ms subs fuel σ c
        let b ← truthy vc
        if b then execCHs ms subs fuel t σ else
          match e with
          | some e => execCHs ms subs fuel e σ
          | none => .ok σ
    | .for_ v cond step body => do
        -- the counter starts as 0 in its declared type (`loopVarTy`: ut32 for the undeclared special identifiers)
        let σ0 := { σ with locals := setLocal σ.locals v (.bv (loopVarTy v cond).width 0) }
        loopCH ms subs fuel v cond step body σ0
    | .jump e => do
        let (v, σ) ← evalCH ms subs fuel σ e
        let v ← convC (typeOfC e) utT v
        .ok { σ with locals := setLocal (setLocal σ.locals "jump_flag" (.bool true)) "jump_target" v }
    | .exprstmt e => do
        let (_, σ) ← evalCH ms subs fuel σ e
        .ok σ
    | .ret e => do
        -- C converts the returned value to the routine's return type. The type is known at the call site only: the value
        -- is kept extended to 64 bit by its OWN signedness here and cut to the return type's width there (all types are
        -- at most 64 bit wide, so this is the conversion from `typeOfC e` to the return type)
        let (v, σ) ← evalCH ms subs fuel σ e
        let v ← convC (typeOfC e) { signed := (typeOfC e).signed, width := 64 } v
        .ok { σ with locals := setLocal σ.locals "$ret" v }
    | .vcall name exts args params => do
        let (vs, σ) ← evalCHArgs ms subs fuel σ args params
        voidCallC name exts vs σ
    | .skip w =>
        if w == "STORE_SLOT_CANCELLED(pkt, slot);" then
          .ok { σ with locals := setLocal σ.locals "$slot_cancelled" (.bool true) }
        else .ok σ
def execCHs (ms : MacroSem) (subs : CSubEnv) : Nat → List CStmt → MState → Except Stuck MState
  | 0, _, _ => .error .fuel
  | _+1, [], σ => .ok σ
  | fuel+1, s :: ss, σ => do
      let σ' ← execCH ms subs fuel s σ
      execCHs ms subs fuel ss σ'
def loopCH (ms : MacroSem) (subs : CSubEnv) : Nat → String → CExpr → Nat → List CStmt → MState → Except Stuck MState
  | 0, _, _, _, _, _ => .error .fuel
  | fuel+1, v, cond, step, body, σ => do
      let (vc, σ) ← evalCH ms subs fuel σ cond
      let b ← truthy vc
      if b then do
        let σ1 ← execCHs ms subs fuel body σ
        match lookupS v σ1.locals with
        | some (.bv w x) =>
            loopCH ms subs fuel v cond step body { σ1 with locals := setLocal σ1.locals v (.bv w (x + BitVec.ofNat w (if step == 0 then 1 else step))) }
        | _ => .error (.unbound v)
      else .ok σ
end

end Rzil
