import RzilVerif.Model.StmtExprWF
import RzilVerif.Model.ExprCarve
import RzilVerif.Model.CompileH
import RzilVerif.Model.HybFree
/-
  Per-behaviour certificate: a decidable condition on the program text under which the theorems of
  C02/C03/C05 apply to the behaviour as a whole (Props/C01.lean: `certified_correct`).  The driver evaluates
  it for every program it is sent; a behaviour whose real output equals the model's output and whose
  certificate holds is translated correctly for ALL initial states, not only the sampled ones.
-/
namespace Rzil

/-- the special identifiers the shortcode uses without declaring them (`EA`, loop counters), typed `ut32`,
    added to the inferred context when the behaviour does not declare them itself -/
def specialLocals : List (String × CT) := [("EA", utT), ("i", utT), ("j", utT), ("k", utT)]

def ctxOf (prog : List CStmt) : Ctx :=
  let c := inferCtx prog
  { c with types := c.types ++ specialLocals.filter (fun p => !c.types.any (fun q => q.1 == p.1)) }

def certified (prog : List CStmt) : Bool :=
  let c := ctxOf prog
  c.ok && WFStmts c prog && (exprsOfList prog).all (WFES c) &&
  CarveSs (CarveE (assignedOfList prog)) { assigned := assignedOfList prog, cfg := Cfg.fixed } prog &&
  HybFreeSs prog && NoDeadVarlProg Cfg.asCode prog

/-- the two lowering models agree on this program (checked by evaluation; `Props/CompileHEqv.lean` proves it
    for hybrid-free programs in general) -/
def pureEqualsH (cfg : Cfg) (prog : List CStmt) : Bool :=
  match compileProg cfg prog, compileProgH cfg prog with
  | .ok a, .ok b => a.toTerm.render == b.toTerm.render
  | _, _ => false

end Rzil
