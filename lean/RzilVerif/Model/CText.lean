/-
  Layer B (reading side): tokenizer and parser of the C text the compiler emits, written in Lean and
  run on the RAW text.  A body is a list of items: comments, declarations with initialiser, the
  final `return`.  `denote` inlines the declarations into the returned term.
-/
namespace Rzil

inductive Tok where
  | id (s : String)
  | num (s : String)
  | chr (s : String)
  | str (s : String)
  | sym (s : String)
  | comment (s : String)
  | bad (c : Char)
deriving Repr, DecidableEq, Inhabited

def isIdStart (c : Char) : Bool := c.isAlpha || c == '_'
def isIdChar (c : Char) : Bool := c.isAlphanum || c == '_'

/-- Tokenizer. `fuel` bounds the number of steps (the text length suffices). -/
def lexAux : Nat → List Char → List Tok → List Tok
  | 0, _, acc => acc.reverse
  | _, [], acc => acc.reverse
  | fuel+1, c :: cs, acc =>
    if c.isWhitespace then lexAux fuel cs acc
    else if c == '/' && cs.head? == some '/' then
      let body := cs.tail.takeWhile (· != '\n')
      lexAux fuel (cs.tail.dropWhile (· != '\n')) (Tok.comment (String.ofList body) :: acc)
    else if isIdStart c then
      let rest := cs.takeWhile isIdChar
      lexAux fuel (cs.dropWhile isIdChar) (Tok.id (String.ofList (c :: rest)) :: acc)
    else if c.isDigit then
      let isNumChar := fun (d : Char) => d.isAlphanum || d == '.'
      let rest := cs.takeWhile isNumChar
      lexAux fuel (cs.dropWhile isNumChar) (Tok.num (String.ofList (c :: rest)) :: acc)
    else if c == '\'' then
      match cs with
      | d :: '\'' :: rest => lexAux fuel rest (Tok.chr (String.singleton d) :: acc)
      | _ => lexAux fuel cs (Tok.bad c :: acc)
    else if c == '"' then
      let body := cs.takeWhile (· != '"')
      match cs.dropWhile (· != '"') with
      | _ :: rest => lexAux fuel rest (Tok.str (String.ofList body) :: acc)
      | [] => lexAux fuel [] (Tok.bad c :: acc)
    else if c == '-' && cs.head? == some '>' then lexAux fuel cs.tail (Tok.sym "->" :: acc)
    else if c == '(' || c == ')' || c == ',' || c == ';' || c == '=' || c == '*' || c == '&'
         || c == '{' || c == '}' || c == '-' then
      lexAux fuel cs (Tok.sym (String.singleton c) :: acc)
    else lexAux fuel cs (Tok.bad c :: acc)

def lex (s : String) : List Tok := lexAux (s.length + 1) s.toList []

/-- Terms of the emitted C: enough for IL constructor calls and the operand plumbing. -/
inductive Term where
  | id (s : String)
  | num (n : Int)
  | flt (s : String)                    -- a non-integer numeric literal (kept as text)
  | chr (s : String)
  | str (s : String)
  | app (f : String) (args : List Term)
  | addr (t : Term)
  | ccast (ty : String) (t : Term)
  | arrow (t : Term) (field : String)
deriving Repr, Inhabited, BEq

def hexDigitVal (c : Char) : Option Nat :=
  if c.isDigit then some (c.toNat - '0'.toNat)
  else if 'a' ≤ c && c ≤ 'f' then some (c.toNat - 'a'.toNat + 10)
  else if 'A' ≤ c && c ≤ 'F' then some (c.toNat - 'A'.toNat + 10)
  else none

def parseHex (cs : List Char) : Option Nat :=
  if cs.isEmpty then none else
  cs.foldl (fun acc c => do let a ← acc; let d ← hexDigitVal c; pure (a * 16 + d)) (some 0)

def parseNumLit (s : String) : Option Nat :=
  match s.toList with
  | '0' :: 'x' :: rest => parseHex rest
  | '0' :: 'X' :: rest => parseHex rest
  | _ => s.toNat?

mutual
/-- term := '&' term | '-' num | '(' id ')' term | primary ('->' id)* -/
def parseTerm : Nat → List Tok → Option (Term × List Tok)
  | 0, _ => none
  | fuel+1, ts =>
    match ts with
    | Tok.sym "&" :: rest => do
        let (t, r) ← parseTerm fuel rest
        pure (Term.addr t, r)
    | Tok.sym "-" :: Tok.num n :: rest =>
        match parseNumLit n with
        | some v => parsePostfix fuel (Term.num (-(v : Int))) rest
        | none => parsePostfix fuel (Term.flt ("-" ++ n)) rest
    | Tok.sym "(" :: Tok.id ty :: Tok.sym ")" :: rest => do
        let (t, r) ← parseTerm fuel rest
        pure (Term.ccast ty t, r)
    | Tok.num n :: rest =>
        match parseNumLit n with
        | some v => parsePostfix fuel (Term.num v) rest
        | none => parsePostfix fuel (Term.flt n) rest
    | Tok.chr c :: rest => parsePostfix fuel (Term.chr c) rest
    | Tok.str s :: rest => parsePostfix fuel (Term.str s) rest
    | Tok.id f :: Tok.sym "(" :: Tok.sym ")" :: rest => parsePostfix fuel (Term.app f []) rest
    | Tok.id f :: Tok.sym "(" :: rest => do
        let (args, r) ← parseArgs fuel rest
        parsePostfix fuel (Term.app f args) r
    | Tok.id x :: rest => parsePostfix fuel (Term.id x) rest
    | _ => none

def parsePostfix : Nat → Term → List Tok → Option (Term × List Tok)
  | 0, _, _ => none
  | fuel+1, t, ts =>
    match ts with
    | Tok.sym "->" :: Tok.id f :: rest => parsePostfix fuel (Term.arrow t f) rest
    | _ => some (t, ts)

/-- args := term (',' term)* ')' -/
def parseArgs : Nat → List Tok → Option (List Term × List Tok)
  | 0, _ => none
  | fuel+1, ts => do
    let (t, r) ← parseTerm fuel ts
    match r with
    | Tok.sym "," :: rest => do
        let (more, r') ← parseArgs fuel rest
        pure (t :: more, r')
    | Tok.sym ")" :: rest => pure ([t], rest)
    | _ => none
end

inductive Item where
  | comment (s : String)
  | decl (ty : String) (name : String) (rhs : Term)
  | ret (t : Term)
deriving Repr, Inhabited, BEq

/-- Split off the declarator tokens before `=`: returns (type words, name). Only identifiers and `*`. -/
def splitDeclarator : List Tok → List String → Option (List String × String × List Tok)
  | Tok.id x :: Tok.sym "=" :: rest, acc => some (acc.reverse, x, rest)
  | Tok.id x :: rest, acc => splitDeclarator rest (x :: acc)
  | Tok.sym "*" :: rest, acc => splitDeclarator rest ("*" :: acc)
  | _, _ => none

def parseItems : Nat → List Tok → List Item → Option (List Item × List Tok)
  | 0, _, _ => none
  | fuel+1, ts, acc =>
    match ts with
    | [] => some (acc.reverse, [])
    | Tok.sym "}" :: rest => some (acc.reverse, Tok.sym "}" :: rest)
    | Tok.comment s :: rest => parseItems fuel rest (Item.comment s :: acc)
    | Tok.id "return" :: rest => do
        let (t, r) ← parseTerm (rest.length + 1) rest
        match r with
        | Tok.sym ";" :: r' => parseItems fuel r' (Item.ret t :: acc)
        | _ => none
    | _ => do
        let (tyWords, name, rest) ← splitDeclarator ts []
        let (t, r) ← parseTerm (rest.length + 1) rest
        match r with
        | Tok.sym ";" :: r' => parseItems fuel r' (Item.decl (" ".intercalate tyWords) name t :: acc)
        | _ => none

structure Param where
  ty : String
  name : String
deriving Repr, BEq, Inhabited

structure Body where
  /-- `some (name, params)` for a sub-routine definition `RZ_OWN RzILOpEffect *hex_x(params){ … }`. -/
  header : Option (String × List Param)
  items : List Item
deriving Repr, Inhabited

/-- params := (tyword+ name) (',' …)* ')' -/
def parseParams : Nat → List Tok → List String → List Param → Option (List Param × List Tok)
  | 0, _, _, _ => none
  | fuel+1, ts, cur, acc =>
    match ts with
    | Tok.id x :: rest => parseParams fuel rest (x :: cur) acc
    | Tok.sym "*" :: rest => parseParams fuel rest ("*" :: cur) acc
    | Tok.sym "," :: rest =>
        match cur with
        | name :: ty => parseParams fuel rest [] ({ ty := " ".intercalate ty.reverse, name := name } :: acc)
        | [] => none
    | Tok.sym ")" :: rest =>
        match cur with
        | name :: ty => some (({ ty := " ".intercalate ty.reverse, name := name } :: acc).reverse, rest)
        | [] => if acc.isEmpty then some ([], rest) else none
    | _ => none

def parseBody (text : String) : Option Body :=
  let ts := lex text
  if ts.any (fun t => match t with | Tok.bad _ => true | _ => false) then none else
  match ts with
  | Tok.id "RZ_OWN" :: Tok.id "RzILOpEffect" :: Tok.sym "*" :: Tok.id fname :: Tok.sym "(" :: rest => do
      let (params, r) ← parseParams (rest.length + 1) rest [] []
      match r with
      | Tok.sym "{" :: r' => do
          let (items, r'') ← parseItems (r'.length + 1) r' []
          match r'' with
          | [Tok.sym "}"] => pure { header := some (fname, params), items := items }
          | _ => none
      | _ => none
  | _ => do
      let (items, r) ← parseItems (ts.length + 1) ts []
      if r.isEmpty then pure { header := none, items := items } else none

/-! ### `denote`: inline declarations into one term -/

mutual
/-- Substitute declared names (in-order environment of already inlined terms). -/
def Term.subst (env : List (String × Term)) : Term → Term
  | .id x => match env.lookup x with
      | some t => t
      | none => .id x
  | .app f args => .app f (substList env args)
  | .addr t => .addr (t.subst env)
  | .ccast ty t => .ccast ty (t.subst env)
  | .arrow t f => .arrow (t.subst env) f
  | t => t
def substList (env : List (String × Term)) : List Term → List Term
  | [] => []
  | t :: ts => t.subst env :: substList env ts
end

mutual
/-- Erase `DUP(x)` (it clones the node it is given). -/
def Term.eraseDup : Term → Term
  | .app "DUP" [t] => t.eraseDup
  | .app f args => .app f (eraseDupList args)
  | .addr t => .addr t.eraseDup
  | .ccast ty t => .ccast ty t.eraseDup
  | .arrow t f => .arrow t.eraseDup f
  | t => t
def eraseDupList : List Term → List Term
  | [] => []
  | t :: ts => t.eraseDup :: eraseDupList ts
end

/-- The environment after processing the declarations in order. -/
def buildEnv : List Item → List (String × Term) → List (String × Term)
  | [], env => env
  | Item.decl _ name rhs :: rest, env => buildEnv rest ((name, rhs.subst env) :: env)
  | _ :: rest, env => buildEnv rest env

def returned : List Item → Option Term
  | [] => none
  | Item.ret t :: _ => some t
  | _ :: rest => returned rest

/-- The single closed term a body denotes (DUP erased). -/
def denote (b : Body) : Option Term := do
  let r ← returned b.items
  pure ((r.subst (buildEnv b.items [])).eraseDup)

/-! ### Printing terms back (canonical text, used for replies and for diffs) -/

def intToString (i : Int) : String := if i < 0 then "-" ++ toString i.natAbs else toString i.natAbs

mutual
def Term.render : Term → String
  | .id x => x
  | .num n => intToString n
  | .flt s => s
  | .chr c => "'" ++ c ++ "'"
  | .str s => "\"" ++ s ++ "\""
  | .app f args => f ++ "(" ++ renderList args ++ ")"
  | .addr t => "&" ++ t.render
  | .ccast ty t => "(" ++ ty ++ ") " ++ t.render
  | .arrow t f => t.render ++ "->" ++ f
def renderList : List Term → String
  | [] => ""
  | [t] => t.render
  | t :: ts => t.render ++ ", " ++ renderList ts
end

end Rzil
